import TmcgProofs.DkgKeySim4
/-
  C15, key agreement with reconstruction, part 5: the state of the honest parties after round 5
  (step 4(c)): a common reconstruction list `Rc` of at most `t` deviating members of QUAL.
-/
namespace Tmcg.DkgP
open Tmcg Tmcg.Powm Tmcg.Dkg Tmcg.Grp Tmcg.DkgL

variable {G : Dkg.Grp} [Fact (Nat.Prime G.p.natAbs)]

set_option linter.unusedSectionVars false

theorem kg_rxS_congr (n : Nat) (Cf Af Cf' Af' : Nat → List Int) (Q : List Nat) (j f : Nat)
    (s : List (Tag × Int)) (hC : ∀ k, k < n → Cf k = Cf' k) (hA : ∀ k, k < n → Af k = Af' k) :
    rxS G n Cf Af Q j f s = rxS G n Cf' Af' Q j f s := by
  induction f generalizing s with
  | zero => rfl
  | succ f ih =>
    unfold rxS
    rcases popS none s with ⟨_ | w, s1⟩
    · rfl
    · simp only
      by_cases hw : getUi w ≥ n
      · simp only [hw, if_true]
      · simp only [hw, if_false]
        have hwn : getUi w < n := by omega
        rcases popS none s1 with ⟨_ | foo0, s2⟩
        · rfl
        · simp only
          rcases popS none s2 with ⟨_ | bar0, s3⟩
          · rfl
          · simp only [hC _ hwn, hA _ hwn, ih s3]

/-- `0` occurs in every run with at least two parties -/
theorem kg_occ_zero {n t : Nat} {ins : List PartyIn} (S : SetupK G n t ins) (h2 : 2 ≤ n) : OccursG G n t ins 0 := by
  obtain ⟨hHl, hHnd, hHlt⟩ := kg_honest_nonempty S
  obtain ⟨i0, hi0⟩ : ∃ i0, i0 ∈ honestIdx ins := by
    cases hH : honestIdx ins with
    | nil => rw [hH] at hHl; simp at hHl
    | cons a l => exact ⟨a, by simp⟩
  obtain ⟨-, hS1, -⟩ := kg_cfg1 S
  obtain ⟨P1, hP1, s1⟩ := hS1 i0 hi0
  refine occAt_cfg (G := G) n t ins 1 i0 P1 hP1 hi0 0 (Or.inl ?_)
  rw [s1.dealt.s]
  have hi1 := hHlt i0 hi0
  -- an index different from `i0`
  obtain ⟨k, hk, hki⟩ : ∃ k, k < n ∧ k ≠ i0 := by
    by_cases h0 : i0 = 0
    · exact ⟨1, by omega, by omega⟩
    · exact ⟨0, by omega, fun e => h0 e.symm⟩
  have : getI ((zeros n).set i0 (shA G t (pinOf ins i0) i0)) k = 0 := by
    rw [getI_set_ne _ _ _ _ hki]
    simp [getI, zeros, hk]
  rw [← this]
  exact kg_getI_mem _ _ (by simp [zeros, hk])

/-- the canonical coefficient list of a polynomial -/
noncomputable def clOf (G : Grp) (fam : Nat → Polynomial (ZMod G.q.natAbs)) (t j : Nat) : List Int :=
  (List.range (t + 1)).map (fun k => (((fam j).coeff k).val : Int))

theorem kg_clOf_spec (hq : 0 < G.q) (fam : Nat → Polynomial (ZMod G.q.natAbs)) (t j : Nat) :
    (clOf G fam t j).length = t + 1 ∧
    ∀ k, k < (clOf G fam t j).length → 0 ≤ (clOf G fam t j).getD k 0 ∧ (clOf G fam t j).getD k 0 < G.q ∧
      cq G ((clOf G fam t j).getD k 0) = (fam j).coeff k := by
  have hne : NeZero G.q.natAbs := ⟨by omega⟩
  refine ⟨by simp [clOf], ?_⟩
  intro k hk
  have hk' : k < t + 1 := by simpa [clOf] using hk
  have hget : (clOf G fam t j).getD k 0 = (((fam j).coeff k).val : Int) := by
    rw [List.getD_eq_getElem _ _ hk]
    simp [clOf]
  rw [hget]
  refine ⟨by positivity, ?_, ?_⟩
  · have := ZMod.val_lt ((fam j).coeff k)
    omega
  · unfold cq
    simp

/-- a list with the properties `interpolatePolynom_val` states is the canonical one -/
theorem kg_clOf_unique (hG : ValidGrp G) (fam : Nat → Polynomial (ZMod G.q.natAbs)) (t j : Nat) (c : List Int)
    (hlen : c.length = t + 1)
    (hc : ∀ k, k < c.length → 0 ≤ c.getD k 0 ∧ c.getD k 0 < G.q ∧
      ((c.getD k 0 : Int) : ZMod G.q.natAbs) = (fam j).coeff k) : c = clOf G fam t j := by
  have hq : 0 < G.q := hG.vg.q_pos
  have : Fact (Nat.Prime G.q.natAbs) := fact_q hG
  obtain ⟨l1, l2⟩ := kg_clOf_spec hq fam t j
  apply List.ext_getElem (by rw [hlen, l1])
  intro k h1 h2
  obtain ⟨a0, a1, a2⟩ := hc k h1
  obtain ⟨b0, b1, b2⟩ := l2 k h2
  rw [List.getD_eq_getElem _ _ h1] at a0 a1 a2
  rw [List.getD_eq_getElem _ _ h2] at b0 b1 b2
  exact eq_of_cast_eq (q := G.q) hq ⟨a0, a1⟩ ⟨b0, b1⟩ (a2.trans b2.symm)

/-! ### the reconstruction phase: invariants -/

/-- the state of an honest party that has reconstructed the first `m` members of `Rc` -/
structure T6 (G : Grp) [Fact (Nat.Prime G.p.natAbs)] (n t : Nat) (ins : List PartyIn)
    (fam : Nat → Polynomial (ZMod G.q.natAbs)) (Q : List Nat) (Cc Ac : Nat → List Int) (Rc : List Nat)
    (m : Nat) (i : Nat) (st : GenSt) : Prop where
  core : Core G n t ins Q Cc i st
  Alen : st.A.length = n
  Arow : ∀ j, j < n → getRow st.A j = Ac j
  racc : st.racc = Rc
  todo : st.todo = Rc.drop m
  aiklen : st.aik.length = n
  aik : ∀ it ∈ Rc.take m, getRow st.aik it = clOf G fam t it
  vi : st.vi = zeros n
  yi : st.yi = zeros n
  zi : getI st.z i = getI (coefA t (pinOf ins i)) 0

/-- the reconstruction list: distinct deviating members of QUAL, at most `t` -/
structure RcP (n t : Nat) (ins : List PartyIn) (Q Rc : List Nat) : Prop where
  nd : Rc.Nodup
  inQ : ∀ x ∈ Rc, x ∈ Q
  notH : ∀ x ∈ Rc, x ∉ honestIdx ins
  len : Rc.length ≤ t

/-- all honest parties are live, have reconstructed `m` members and hold each other's shares for the
    next one -/
def JL (G : Grp) [Fact (Nat.Prime G.p.natAbs)] (n t : Nat) (ins : List PartyIn)
    (fam : Nat → Polynomial (ZMod G.q.natAbs)) (Q : List Nat) (Cc Ac : Nat → List Int) (Rc : List Nat)
    (m : Nat) (R : List (Party GenSt)) : Prop :=
  ∀ i, i ∈ honestIdx ins → ∃ P, R[i]? = some P ∧ HL P ∧ P.inbox.b.length = n ∧
    T6 G n t ins fam Q Cc Ac Rc m i P.st ∧
    ∀ j, j ∈ honestIdx ins → j ≠ i → ∀ Pj, R[j]? = some Pj →
      bsOf P.inbox j = [(some Rc, getI Pj.st.s (Rc.getD m 0)), (some Rc, getI Pj.st.sp (Rc.getD m 0))]

/-- all honest parties have finished `Generate` with `true` -/
def JF (G : Grp) [Fact (Nat.Prime G.p.natAbs)] (n t : Nat) (ins : List PartyIn)
    (fam : Nat → Polynomial (ZMod G.q.natAbs)) (Q : List Nat) (Cc Ac : Nat → List Int) (Rc : List Nat)
    (R : List (Party GenSt)) : Prop :=
  ∀ i, i ∈ honestIdx ins → ∃ P, R[i]? = some P ∧ P.status = .ret true ∧
    ∃ st, T6 G n t ins fam Q Cc Ac Rc Rc.length i st ∧ genFinish G st = .ok P.st

theorem kg_foldlM_total {α β : Type} (f : β → α → Except Err β) (L : List α) (init : β)
    (h : ∀ acc x, x ∈ L → ∃ r, f acc x = .ok r) : ∃ r, L.foldlM f init = .ok r := by
  induction L generalizing init with
  | nil => exact ⟨init, rfl⟩
  | cons x L ih =>
    obtain ⟨r, hr⟩ := h init x (by simp)
    obtain ⟨r', hr'⟩ := ih r (fun acc y hy => h acc y (List.mem_cons_of_mem _ hy))
    exact ⟨r', by simp only [List.foldlM_cons, hr, bind, Except.bind]; exact hr'⟩

theorem kg_foldlM_ne_error {α β : Type} (f : β → α → Except Err β) (L : List α) (init : β)
    (h : ∀ acc x, x ∈ L → ∃ r, f acc x = .ok r) (e : Err) : L.foldlM f init ≠ .error e := by
  obtain ⟨r, hr⟩ := kg_foldlM_total f L init h
  rw [hr]
  exact fun h => by cases h

theorem kg_viOf_total (hG : ValidGrp G) (qual : List Nat) (A : List (List Int)) (jt : Nat) :
    ∃ v, viOf G qual A jt = .ok v := by
  unfold viOf
  exact kg_foldlM_total _ _ _ (fun acc x _ => ag_commitProdFrom_total hG _ _ _ _)

/-- `genFinish` does not fail once every accused party has been reconstructed -/
theorem kg_genFinish_total (hG : ValidGrp G) {n t : Nat} {ins : List PartyIn}
    (fam : Nat → Polynomial (ZMod G.q.natAbs)) (Q : List Nat) (Cc Ac : Nat → List Int) (Rc : List Nat) (i : Nat)
    (st : GenSt) (h : T6 G n t ins fam Q Cc Ac Rc Rc.length i st) : ∃ st', genFinish G st = .ok st' := by
  have hq : 0 < G.q := hG.vg.q_pos
  have : Fact (Nat.Prime G.q.natAbs) := fact_q hG
  unfold genFinish
  simp only [bind, Except.bind, pure, Except.pure]
  split
  · rename_i e heq
    exfalso
    refine kg_foldlM_ne_error _ _ _ ?_ e heq
    intro acc it hit
    rw [h.racc] at hit
    rw [h.aik it (by simpa using hit)]
    obtain ⟨l1, l2⟩ := kg_clOf_spec hq fam t it
    obtain ⟨row, hrow, -⟩ := coeff_row_val hG t (fam it) (clOf G fam t it) l1 l2
    exact ⟨acc.set it row, by rw [hrow]⟩
  · rename_i A heq
    split
    · rename_i e heq2
      exfalso
      refine kg_foldlM_ne_error _ _ _ ?_ e heq2
      intro acc jt _
      obtain ⟨v, hv⟩ := kg_viOf_total hG st.qual A jt
      exact ⟨acc.set jt v, by rw [hv]⟩
    · exact ⟨_, rfl⟩

/-! ### round 5: the complaint lists -/

theorem kg_rxPush_congr (n : Nat) (Cf Af Cf' Af' : Nat → List Int) (Q : List Nat) (k : Nat)
    (s : List (Tag × Int)) (hC : ∀ k, k < n → Cf k = Cf' k) (hA : ∀ k, k < n → Af k = Af' k) :
    rxPush G n Cf Af Q k s = rxPush G n Cf' Af' Q k s ∧ rxRest G n Cf Af Q k s = rxRest G n Cf' Af' Q k s := by
  unfold rxPush rxRest
  rw [kg_rxS_congr n Cf Af Cf' Af' Q k (n + 1) s hC hA]
  exact ⟨rfl, rfl⟩

/-- the loop of step 4(c) of an honest party in terms of the common data -/
theorem kg_round5_cm {n t : Nat} {ins : List PartyIn} (hG : ValidGrp G) (Q : List Nat) (Cc Ac : Nat → List Int)
    (i : Nat) (P5 : Party GenSt) (t5 : T5a G n t ins Q Cc Ac i P5) :
    ∃ I' cm', genExtractGo G P5.st (List.range P5.st.n) P5.inbox P5.st.compl = .ok (I', cm') ∧
      I'.b.length = n ∧
      (∀ k, k < n → bsOf I' k = if k ≠ i ∧ k ∈ Q then rxRest G n Cc Ac Q k (bsOf P5.inbox k)
        else bsOf P5.inbox k) ∧
      (∀ x, x ∈ cm' ↔ x ∈ P5.st.compl ∨ ∃ k, k < n ∧ k ≠ i ∧ k ∈ Q ∧
        x ∈ rxPush G n Cc Ac Q k (bsOf P5.inbox k)) := by
  have hIb : ∀ j ∈ List.range P5.st.n, j < P5.inbox.b.length := fun j hj => by
    rw [t5.blen, ← t5.core.hn]; exact List.mem_range.mp hj
  obtain ⟨I', cm', h, a1, a3, a5⟩ := kg_genExtractGo_spec hG P5.st (List.range P5.st.n) List.nodup_range
    P5.inbox hIb P5.st.compl
  have hcong := fun k s => kg_rxPush_congr (G := G) n (getRow P5.st.C) (getRow P5.st.A) Cc Ac Q k s t5.core.C t5.Arow
  rw [t5.core.hn, t5.core.hi, t5.core.qual] at a3 a5
  refine ⟨I', cm', h, a1.trans t5.blen, fun k hk => ?_, fun x => ?_⟩
  · rw [a3 k, (hcong k _).2]
    simp only [List.mem_range, hk, true_and]
  · rw [a5 x]
    constructor
    · rintro (h | ⟨k, h1, h2, h3, h4⟩)
      · exact Or.inl h
      · rw [(hcong k _).1] at h4
        exact Or.inr ⟨k, List.mem_range.mp h1, h2, h3, h4⟩
    · rintro (h | ⟨k, h1, h2, h3, h4⟩)
      · exact Or.inl h
      · rw [← (hcong k _).1] at h4
        exact Or.inr ⟨k, List.mem_range.mpr h1, h2, h3, h4⟩

/-- an honest reader finds exactly the complaints an honest sender made -/
theorem kg_round5_honest_sender {n t : Nat} {ins : List PartyIn} (S : SetupK G n t ins) (Q : List Nat)
    (Cc Ac : Nat → List Int) (k5 : K5 G n t ins Q Cc Ac (cfgGen G n t ins 5)) (i j : Nat)
    (hi : i ∈ honestIdx ins) (hj : j ∈ honestIdx ins) (hji : j ≠ i) (Pi Pj : Party GenSt)
    (hPi : (cfgGen G n t ins 5)[i]? = some Pi) (hPj : (cfgGen G n t ins 5)[j]? = some Pj) :
    rxS G n Cc Ac Q j (n + 1) (bsOf Pi.inbox j) = .ok (Pj.st.compl, []) := by
  have hG := S.hG
  obtain ⟨Pj', hPj', tj⟩ := k5.party j hj
  have e : Pj' = Pj := Option.some.inj (hPj'.symm.trans hPj)
  subst e
  rw [k5.streams i j Pi Pj' hi hj hji hPi hPj]
  obtain ⟨cm, hcm⟩ := tj.csort
  have hlen : Pj'.st.compl.length ≤ n := by rw [hcm]; exact ag_sortUniq_length _ _
  refine kg_rxS_honest hG n S.hn64 Cc Ac Q j (fun it => getI Pj'.st.s it) (fun it => getI Pj'.st.sp it)
    Pj'.st.compl (n + 1) (by omega) ?_
  intro w hw
  obtain ⟨h1, h2, h3, h4⟩ := tj.cbad5 w hw
  exact ⟨h3, h1, ag_getI_InR G.q hG.vg.q_pos _ tj.core.sIn w, ag_getI_InR G.q hG.vg.q_pos _ tj.core.spIn w,
    tj.core.opn w h1, h4⟩

/-- equation (5) for the Feldman row of an honest dealer and any exponent on its polynomial -/
theorem kg_Eq5_honest (hG : ValidGrp G) (t : Nat) (pin : PartyIn) (hc : goodCoins G t pin) (ga : List Int)
    (hga : gaList G (coefA t pin) = .ok ga) (m : Nat) (v : Int)
    (hv : cq G v = (polyOf ((coefA t pin).map (cq G))).eval (pt G.q m)) : Eq5 G m ga v := by
  have hq : 0 < G.q := hG.vg.q_pos
  have : Fact (Nat.Prime G.q.natAbs) := fact_q hG
  obtain ⟨ha, -, hla, -⟩ := ag_coef_range (G := G) t pin hc
  obtain ⟨l, r, e1, e2, e3⟩ := feldman_check hG _ ha _ hga (m + 1)
  obtain ⟨l', e1', -, -, hlv⟩ := fspowm_g hG (evalShare G.q (coefA t pin) (m + 1)) (evalShare_natAbs hG _ _)
  obtain ⟨r', e2', -, -, hrv⟩ := kg_commitProd_val hG (m + 1) ga
  rw [e1] at e1'
  rw [e2] at e2'
  have e1'' := Except.ok.inj e1'
  have e2'' := Except.ok.inj e2'
  subst e1'' e2''
  unfold Eq5
  rw [← hrv, ← e3, hlv]
  apply g_zpow_congr hG
  rw [hv]
  exact (evalShare_on_poly hq _ m).symm

/-- what a deviating sender's complaints can push: members of QUAL that are not honest -/
theorem kg_round5_pushes {n t : Nat} {ins : List PartyIn} (S : SetupK G n t ins)
    (fam : Nat → Polynomial (ZMod G.q.natAbs)) (Q : List Nat) (Cc Ac : Nat → List Int)
    (k5 : K5 G n t ins Q Cc Ac (cfgGen G n t ins 5))
    (hbind : ∀ j, j < n → BindsRunG G n t ins (Cc j) (fam j))
    (hfamH : ∀ j, j ∈ honestIdx ins → fam j = polyOf ((coefA t (pinOf ins j)).map (cq G)))
    (i : Nat) (hi : i ∈ honestIdx ins) (Pi : Party GenSt) (hPi : (cfgGen G n t ins 5)[i]? = some Pi)
    (k : Nat) (hk : k < n) (hkQ : k ∈ Q) (hkH : k ∉ honestIdx ins) (x : Nat)
    (hx : x ∈ rxPush G n Cc Ac Q k (bsOf Pi.inbox k)) : x ∈ Q ∧ x ∉ honestIdx ins := by
  have hG := S.hG
  have hi1 : i < n := (kg_honest_nonempty S).2.2 i hi
  have hn2 : 2 ≤ n := by
    have : k ≠ i := fun e => hkH (e ▸ hi)
    omega
  obtain ⟨r, hr⟩ := kg_rxS_total hG n Cc Ac Q k (n + 1) (bsOf Pi.inbox k)
  simp only [rxPush, hr] at hx
  rcases (kg_rxS_push hG n Cc Ac Q k (n + 1) _ r hr).2 x hx with e | ⟨hxQ, hxn, foo, bar, hf, hb, hfr, hbr, h4, h5⟩
  · rw [e]; exact ⟨hkQ, hkH⟩
  · refine ⟨hxQ, fun hxH => h5 ?_⟩
    have hocc : ∀ v, InS (bsOf Pi.inbox k) v → OccursG G n t ins v := by
      intro v hv
      rcases hv with h0 | ⟨tag, ht⟩
      · rw [h0]; exact kg_occ_zero S hn2
      · exact occAt_cfg (G := G) n t ins 5 i Pi hPi hi v
          (Or.inr (Or.inr (Or.inr (Or.inr ⟨k, Or.inl ⟨tag, ht⟩⟩))))
    have hb1 := (hbind x hxn).2 k hk foo bar (hocc _ hf) (hocc _ hb) hfr hbr h4
    obtain ⟨Px, hPx, tx⟩ := k5.party x hxH
    rw [tx.own]
    exact kg_Eq5_honest hG t (pinOf ins x) (S.hc x hxH) _ tx.core.ga k foo (by rw [hb1, hfamH x hxH])

/-! ### round 5: the step -/

theorem kg_genExtractCollect_run (st : GenSt) (I I' : Inbox) (cm : List Nat)
    (hgo : genExtractGo G st (List.range st.n) I st.compl = .ok (I', cm))
    (hlen : (sortUniq st.n cm).length ≤ st.t) :
    genExtractCollect G st I =
      match genRecNext G { st with compl := sortUniq st.n cm, racc := sortUniq st.n cm,
                                   todo := sortUniq st.n cm } with
      | .ok r => .ok (r.1, I', r.2.1, r.2.2)
      | .error e => .error e := by
  unfold genExtractCollect
  simp only [hgo, bind, Except.bind]
  rw [if_neg (by omega)]
  cases genRecNext G { st with compl := sortUniq st.n cm, racc := sortUniq st.n cm,
                               todo := sortUniq st.n cm } with
  | error e => rfl
  | ok r => rfl

theorem kg_genRecNext_nil (st : GenSt) (h : st.todo = []) :
    genRecNext G st = match genFinish G st with
      | .ok st1 => .ok (st1, [], .ret true)
      | .error e => .error e := by
  unfold genRecNext
  rw [h]
  simp only [bind, Except.bind, pure, Except.pure]
  cases genFinish G st <;> rfl

theorem kg_genRecNext_cons (st : GenSt) (it : Nat) (rest : List Nat) (h : st.todo = it :: rest)
    (hq : st.qual.contains it = true) (hr : st.racc.contains st.i = false) (hqi : st.qual.contains st.i = true) :
    genRecNext G st = .ok (st, [Op.bc (some st.racc) (getI st.s it), Op.bc (some st.racc) (getI st.sp it)], .run) := by
  unfold genRecNext
  rw [h]
  have h1 : it ∈ st.qual := by simpa using hq
  have h2 : st.i ∉ st.racc := by simpa using hr
  have h3 : st.i ∈ st.qual := by simpa using hqi
  simp [h1, h2, h3, pure, Except.pure]

theorem kg_sortUniq_congr (n : Nat) (l l' : List Nat) (h : ∀ x, x < n → (x ∈ l ↔ x ∈ l')) :
    sortUniq n l = sortUniq n l' := by
  unfold sortUniq
  apply List.filter_congr
  intro x hx
  have := h x (List.mem_range.mp hx)
  by_cases h1 : x ∈ l
  · simp [h1, this.mp h1]
  · have h2 : x ∉ l' := fun e => h1 (this.mpr e)
    simp [h1, h2]

/-- the state `genExtractCollect` hands to `genRecNext` -/
theorem kg_T6_zero {n t : Nat} {ins : List PartyIn} (fam : Nat → Polynomial (ZMod G.q.natAbs)) (Q : List Nat)
    (Cc Ac : Nat → List Int) (Rc : List Nat) (i : Nat) (hi1 : i < n) (P5 : Party GenSt)
    (t5 : T5a G n t ins Q Cc Ac i P5) :
    T6 G n t ins fam Q Cc Ac Rc 0 i { P5.st with compl := Rc, racc := Rc, todo := Rc } := by
  have c := t5.core
  exact ⟨⟨c.hn, c.ht, c.hi, c.qual, c.C, c.slen, c.splen, c.sIn, c.spIn, c.gs, c.opn, c.sown, c.ga, c.x⟩,
    t5.Alen, t5.Arow, rfl, rfl, by simp only [t5.aik]; simp [zeroRows], by simp,
    t5.vi, t5.yi, by simp only [t5.z]; rw [getI_set_self _ _ _ (by simp [zeros, hi1])]⟩

theorem kg_round5 {n t : Nat} {ins : List PartyIn} (S : SetupK G n t ins)
    (fam : Nat → Polynomial (ZMod G.q.natAbs)) (Q : List Nat) (Cc Ac : Nat → List Int)
    (k4 : K4 G n t ins Q Cc (cfgGen G n t ins 4)) (k5 : K5 G n t ins Q Cc Ac (cfgGen G n t ins 5))
    (hbind : ∀ j, j < n → BindsRunG G n t ins (Cc j) (fam j))
    (hfamH : ∀ j, j ∈ honestIdx ins → fam j = polyOf ((coefA t (pinOf ins j)).map (cq G))) :
    ∃ Rc, RcP n t ins Q Rc ∧
      (∀ m, m ∈ honestIdx ins → ∀ P5, (cfgGen G n t ins 5)[m]? = some P5 → ∀ j ∈ P5.st.compl, j ∈ Rc) ∧
      (Rc = [] → JF G n t ins fam Q Cc Ac Rc (cfgGen G n t ins 6)) ∧
      (Rc ≠ [] → JL G n t ins fam Q Cc Ac Rc 0 (cfgGen G n t ins 6)) := by
  have hG := S.hG
  obtain ⟨hHl, hHnd, hHlt⟩ := kg_honest_nonempty S
  obtain ⟨i0, hi0⟩ : ∃ i0, i0 ∈ honestIdx ins := by
    cases hH : honestIdx ins with
    | nil => rw [hH] at hHl; simp at hHl
    | cons a l => exact ⟨a, by simp⟩
  -- the complaint lists
  have hcm : ∀ i, i ∈ honestIdx ins → ∃ P5 I' cm', (cfgGen G n t ins 5)[i]? = some P5 ∧
      T5a G n t ins Q Cc Ac i P5 ∧
      genExtractGo G P5.st (List.range P5.st.n) P5.inbox P5.st.compl = .ok (I', cm') ∧ I'.b.length = n ∧
      (∀ k, k < n → bsOf I' k = if k ≠ i ∧ k ∈ Q then rxRest G n Cc Ac Q k (bsOf P5.inbox k)
        else bsOf P5.inbox k) ∧
      (∀ x, x ∈ cm' ↔ (∃ k Pk, k ∈ honestIdx ins ∧ (cfgGen G n t ins 5)[k]? = some Pk ∧ x ∈ Pk.st.compl) ∨
        ∃ k, k < n ∧ k ∉ honestIdx ins ∧ k ∈ Q ∧ x ∈ rxPush G n Cc Ac Q k (bsOf P5.inbox k)) := by
    intro i hi
    obtain ⟨P5, hP5, t5⟩ := k5.party i hi
    obtain ⟨I', cm', hgo, a1, a2, a3⟩ := kg_round5_cm hG Q Cc Ac i P5 t5
    refine ⟨P5, I', cm', hP5, t5, hgo, a1, a2, fun x => ?_⟩
    rw [a3 x]
    constructor
    · rintro (h | ⟨k, h1, h2, h3, h4⟩)
      · exact Or.inl ⟨i, P5, hi, hP5, h⟩
      · by_cases hkH : k ∈ honestIdx ins
        · obtain ⟨Pk, hPk, -⟩ := k5.party k hkH
          have := kg_round5_honest_sender S Q Cc Ac k5 i k hi hkH h2 P5 Pk hP5 hPk
          simp only [rxPush, this] at h4
          exact Or.inl ⟨k, Pk, hkH, hPk, h4⟩
        · exact Or.inr ⟨k, h1, hkH, h3, h4⟩
    · rintro (⟨k, Pk, hkH, hPk, h⟩ | ⟨k, h1, hkH, h3, h4⟩)
      · by_cases hki : k = i
        · subst hki
          rw [Option.some.inj (hPk.symm.trans hP5)] at h
          exact Or.inl h
        · have := kg_round5_honest_sender S Q Cc Ac k5 i k hi hkH hki P5 Pk hP5 hPk
          exact Or.inr ⟨k, hHlt k hkH, hki, k4.qh k hkH, by simp only [rxPush, this]; exact h⟩
      · exact Or.inr ⟨k, h1, fun e => hkH (e ▸ hi), h3, h4⟩
  obtain ⟨P50, I0, cm0, hP50, t50, hgo0, -, -, hch0⟩ := hcm i0 hi0
  refine ⟨sortUniq n cm0, ?_⟩
  -- all honest parties get the same list
  have hsame : ∀ i, i ∈ honestIdx ins → ∀ P5 I' cm', (cfgGen G n t ins 5)[i]? = some P5 →
      genExtractGo G P5.st (List.range P5.st.n) P5.inbox P5.st.compl = .ok (I', cm') →
      sortUniq n cm' = sortUniq n cm0 := by
    intro i hi P5' I'' cm'' hP5' hgo'
    obtain ⟨P5, I', cm', hP5, t5, hgo, -, -, hch⟩ := hcm i hi
    have e : P5' = P5 := Option.some.inj (hP5'.symm.trans hP5)
    subst e
    rw [hgo] at hgo'
    simp only [Except.ok.injEq, Prod.mk.injEq] at hgo'
    obtain ⟨-, rfl⟩ := hgo'
    by_cases hii : i = i0
    · subst hii
      rw [Option.some.inj (hP5.symm.trans hP50)] at hgo
      rw [hgo0] at hgo
      simp only [Except.ok.injEq, Prod.mk.injEq] at hgo
      rw [hgo.2]
    apply kg_sortUniq_congr
    intro x _
    rw [hch x, hch0 x]
    constructor
    · rintro (h | ⟨k, h1, hkH, h3, h4⟩)
      · exact Or.inl h
      · have hki : k ≠ i := fun e => hkH (e ▸ hi)
        have hki0 : k ≠ i0 := fun e => hkH (e ▸ hi0)
        rw [k5.ag i i0 P5' P50 hi hi0 hP5 hP50 k h1 hki hki0] at h4
        exact Or.inr ⟨k, h1, hkH, h3, h4⟩
    · rintro (h | ⟨k, h1, hkH, h3, h4⟩)
      · exact Or.inl h
      · have hki : k ≠ i := fun e => hkH (e ▸ hi)
        have hki0 : k ≠ i0 := fun e => hkH (e ▸ hi0)
        rw [← k5.ag i i0 P5' P50 hi hi0 hP5 hP50 k h1 hki hki0] at h4
        exact Or.inr ⟨k, h1, hkH, h3, h4⟩
  -- the list consists of deviating members of QUAL
  have hmem : ∀ x ∈ sortUniq n cm0, x ∈ Q ∧ x ∉ honestIdx ins := by
    intro x hx
    obtain ⟨hxn, hx0⟩ := (ag_mem_sortUniq _ _ _).mp hx
    rcases (hch0 x).mp hx0 with ⟨k, Pk, hkH, hPk, h⟩ | ⟨k, h1, hkH, h3, h4⟩
    · obtain ⟨Pk', hPk', tk⟩ := k5.party k hkH
      rw [Option.some.inj (hPk.symm.trans hPk')] at h
      exact ⟨(tk.cbad5 x h).1, fun hxH => tk.chon x hxH h⟩
    · exact kg_round5_pushes S fam Q Cc Ac k5 hbind hfamH i0 hi0 P50 hP50 k h1 h3 hkH x h4
  have hRcP : RcP n t ins Q (sortUniq n cm0) := by
    refine ⟨ag_sortUniq_nodup _ _, fun x hx => (hmem x hx).1, fun x hx => (hmem x hx).2, ?_⟩
    have hnd : (sortUniq n cm0 ++ honestIdx ins).Nodup := by
      rw [List.nodup_append]
      refine ⟨ag_sortUniq_nodup _ _, hHnd, ?_⟩
      intro a ha b hb hab
      exact (hmem a ha).2 (hab ▸ hb)
    have := ag_nodup_lt_length n _ hnd (by
      intro x hx
      rcases List.mem_append.mp hx with h | h
      · exact ((ag_mem_sortUniq _ _ _).mp h).1
      · exact hHlt x h)
    rw [List.length_append] at this
    have := S.hf
    omega
  -- the step of an honest party
  have h6 := cfgGen_succ (G := G) n t ins 5
  have hstep : ∀ i, i ∈ honestIdx ins → ∃ P5 I', (cfgGen G n t ins 5)[i]? = some P5 ∧
      T5a G n t ins Q Cc Ac i P5 ∧ I'.b.length = n ∧
      (∀ k, k < n → bsOf I' k = if k ≠ i ∧ k ∈ Q then rxRest G n Cc Ac Q k (bsOf P5.inbox k)
        else bsOf P5.inbox k) ∧
      genStep G ins n t 5 i P5.st P5.inbox =
        match genRecNext G { P5.st with compl := sortUniq n cm0, racc := sortUniq n cm0,
                                        todo := sortUniq n cm0 } with
        | .ok r => .ok (r.1, I', r.2.1, r.2.2)
        | .error e => .error e := by
    intro i hi
    obtain ⟨P5, I', cm', hP5, t5, hgo, a1, a2, -⟩ := hcm i hi
    have hs := hsame i hi P5 I' cm' hP5 hgo
    refine ⟨P5, I', hP5, t5, a1, a2, ?_⟩
    have hsn : sortUniq P5.st.n cm' = sortUniq n cm0 := by rw [t5.core.hn]; exact hs
    have := kg_genExtractCollect_run P5.st P5.inbox I' cm' hgo
      (by rw [hsn, t5.core.ht]; exact hRcP.len)
    rw [hsn] at this
    exact this
  refine ⟨hRcP, ?_, ?_, ?_⟩
  · intro m hm P5 hP5 j hj
    obtain ⟨P5', hP5', tm⟩ := k5.party m hm
    rw [Option.some.inj (hP5.symm.trans hP5')] at hj
    exact (ag_mem_sortUniq _ _ _).mpr ⟨(tm.cbad5 j hj).2.2.1, (hch0 j).mpr (Or.inl ⟨m, P5', hm, hP5', hj⟩)⟩
  · -- nobody is reconstructed
    intro hnil
    rw [hnil] at hstep ⊢
    intro i hi
    obtain ⟨P5, I', hP5, t5, -, -, hs⟩ := hstep i hi
    have hT := kg_T6_zero (G := G) fam Q Cc Ac [] i (hHlt i hi) P5 t5
    obtain ⟨st2, hfin⟩ := kg_genFinish_total hG fam Q Cc Ac [] i _ hT
    rw [kg_genRecNext_nil _ rfl, hfin] at hs
    obtain ⟨-, P6, hP6, e1, e2, -⟩ := ag_honest_round (genStep G ins n t 5) _ i P5 hP5 t5.hl _ _ _ _ hs
    rw [← h6] at hP6
    exact ⟨P6, hP6, e2, _, hT, by rw [e1]; exact hfin⟩
  · intro hne
    obtain ⟨it, rest, hRc⟩ : ∃ it rest, sortUniq n cm0 = it :: rest := by
      cases h : sortUniq n cm0 with
      | nil => exact absurd h hne
      | cons a l => exact ⟨a, l, rfl⟩
    have hparty : ∀ i, i ∈ honestIdx ins → ∃ P5 P6, (cfgGen G n t ins 5)[i]? = some P5 ∧
        T5a G n t ins Q Cc Ac i P5 ∧ (cfgGen G n t ins 6)[i]? = some P6 ∧ HL P6 ∧ P6.inbox.b.length = n ∧
        P6.st = { P5.st with compl := sortUniq n cm0, racc := sortUniq n cm0, todo := sortUniq n cm0 } ∧
        outOf (genStep G ins n t 5) (cfgGen G n t ins 5) i =
          ([(some (sortUniq n cm0), getI P5.st.s it), (some (sortUniq n cm0), getI P5.st.sp it)], []) ∧
        (∀ k, k < n → bsOf P6.inbox k =
          (if k ≠ i ∧ k ∈ Q then rxRest G n Cc Ac Q k (bsOf P5.inbox k) else bsOf P5.inbox k) ++
          (if k = i then [] else (outOf (genStep G ins n t 5) (cfgGen G n t ins 5) k).1)) := by
      intro i hi
      obtain ⟨P5, I', hP5, t5, a1, a2, hs⟩ := hstep i hi
      have hiQ : i ∈ Q := k4.qh i hi
      have hitQ : it ∈ Q := hRcP.inQ it (by rw [hRc]; simp)
      rw [kg_genRecNext_cons _ it rest hRc (by simp only [t5.core.qual]; simpa using hitQ)
        (by simp only [t5.core.hi]
            have : i ∉ sortUniq n cm0 := fun h => hRcP.notH i h hi
            simpa using this)
        (by simp only [t5.core.hi, t5.core.qual]; simpa using hiQ)] at hs
      obtain ⟨hout, P6, hP6, e1, e2, e3, e4, e5, e6, e7, e8, e9⟩ :=
        ag_honest_round (genStep G ins n t 5) _ i P5 hP5 t5.hl _ _ _ _ hs
      rw [← h6] at hP6
      refine ⟨P5, P6, hP5, t5, hP6, ⟨by rw [e4]; exact t5.hl.1, e5, e3, e2⟩, e6.trans a1, e1, ?_, ?_⟩
      · rw [hout]
        simp [bcs, pvs]
      · intro k hk
        rw [e8 k (by rw [a1]; exact hk), a2 k hk]
    intro i hi
    obtain ⟨P5, P6, hP5, t5, hP6, hl6, bl6, st6, out6, in6⟩ := hparty i hi
    refine ⟨P6, hP6, hl6, bl6, by rw [st6]; exact kg_T6_zero fam Q Cc Ac _ i (hHlt i hi) P5 t5, ?_⟩
    intro j hj hji Pj hPj
    obtain ⟨Pj5, Pj6, hPj5, tj5, hPj6, -, -, stj6, outj, -⟩ := hparty j hj
    rw [Option.some.inj (hPj.symm.trans hPj6), stj6]
    have hj1 := hHlt j hj
    have hrest := kg_round5_honest_sender S Q Cc Ac k5 i j hi hj hji P5 Pj5 hP5 hPj5
    rw [in6 j hj1, outj, hRc]
    simp [hji, k4.qh j hj, rxRest, hrest]

end Tmcg.DkgP
