import Tmcg.Model.Stack
import TmcgProofs.Base
import Mathlib.Data.List.Perm.Basic
import Mathlib.Data.List.Perm.Subperm
import Mathlib.Data.List.Nodup
import Mathlib.Data.List.Range
/-
  Lemmas about Tmcg/Model/Stack.lean (C02; used by C03/C04 cut-and-choose).
-/
namespace Tmcg.Stack
open Tmcg

variable {C S T : Type}

/-! ### generic `mapM` lemmas in the `Except Err` monad -/

theorem mapM_ok_spec {α β : Type} (f : α → Except Err β) :
    ∀ (l : List α) (r : List β), l.mapM f = .ok r →
      r.length = l.length ∧ ∀ i (h : i < l.length) (h' : i < r.length), f l[i] = .ok r[i] := by
  intro l
  induction l with
  | nil =>
    intro r h
    simp [pure, Except.pure] at h
    subst h
    simp
  | cons a l ih =>
    intro r h
    rw [List.mapM_cons] at h
    cases hfa : f a with
    | error e => simp [hfa, bind, Except.bind] at h
    | ok b =>
      cases hl : l.mapM f with
      | error e => simp [hfa, hl, bind, Except.bind] at h
      | ok r' =>
        simp [hfa, hl, bind, Except.bind, pure, Except.pure] at h
        subst h
        obtain ⟨h1, h2⟩ := ih r' hl
        refine ⟨by simp [h1], ?_⟩
        intro i hi hi'
        cases i with
        | zero => simpa using hfa
        | succ i => simpa using h2 i (by simpa using hi) (by simpa using hi')

theorem mapM_ok_of_forall {α β : Type} (f : α → Except Err β) (g : α → β) :
    ∀ (l : List α), (∀ a ∈ l, f a = .ok (g a)) → l.mapM f = .ok (l.map g) := by
  intro l
  induction l with
  | nil => intro _; simp [pure, Except.pure]
  | cons a l ih =>
    intro h
    rw [List.mapM_cons, h a (by simp), ih (fun x hx => h x (by simp [hx]))]
    simp [bind, Except.bind, pure, Except.pure]

/-- a successful mix has the size of its input, and card `i` is the mask of the input card
    designated by the secret's `i`-th index, masked with the secret stored at *that* index -/
theorem mixStack_spec (maskf : C → S → Except Err C) (s : List C) (ss : StackSecret S) (s2 : List C)
    (h : mixStack maskf s ss = .ok s2) :
    s2.length = s.length ∧ ss.length = s.length ∧
    ∀ i (hi : i < s2.length), ∃ j sec c k sec',
      ss[i]? = some (j, sec) ∧ s[j]? = some c ∧ ss[j]? = some (k, sec') ∧
      maskf c sec' = .ok s2[i] := by
  unfold mixStack at h
  split at h
  · cases h
  · rename_i hlen
    have hlen : s.length = ss.length := by simpa using hlen
    obtain ⟨h1, h2⟩ := mapM_ok_spec _ _ _ h
    simp only [List.length_range] at h1
    refine ⟨h1, hlen.symm, ?_⟩
    intro i hi
    have h3 := h2 i (by simpa using h1 ▸ hi) hi
    simp only [List.getElem_range] at h3
    split at h3
    · cases h3
    · rename_i j sec hss
      split at h3
      · rename_i c k sec' hs hssj
        exact ⟨j, sec, c, k, sec', hss, hs, hssj, h3⟩
      · cases h3

/-- C02: the `i`-th card of the mixed stack opens to the type of the input card designated by
    the secret's `i`-th index, for any notion of type that masking preserves -/
theorem mix_opens_to_source (maskf : C → S → Except Err C) (typeOf : C → T)
    (hpres : ∀ c sec c', maskf c sec = .ok c' → typeOf c' = typeOf c)
    (s : List C) (ss : StackSecret S) (s2 : List C) (h : mixStack maskf s ss = .ok s2) :
    s2.length = s.length ∧
    ∀ i (hi : i < s2.length), ∃ j sec c, ss[i]? = some (j, sec) ∧ s[j]? = some c ∧
      typeOf s2[i] = typeOf c := by
  obtain ⟨h1, _, h3⟩ := mixStack_spec maskf s ss s2 h
  refine ⟨h1, fun i hi => ?_⟩
  obtain ⟨j, sec, c, k, sec', a, b, _, d⟩ := h3 i hi
  exact ⟨j, sec, c, a, b, hpres _ _ _ d⟩

/-- C02: with a bijective index component the multiset of types is preserved -/
theorem mix_preserves_multiset (maskf : C → S → Except Err C) (typeOf : C → T)
    (hpres : ∀ c sec c', maskf c sec = .ok c' → typeOf c' = typeOf c)
    (s : List C) (ss : StackSecret S) (s2 : List C) (h : mixStack maskf s ss = .ok s2)
    (hperm : (ss.map Prod.fst).Perm (List.range s.length)) :
    (s2.map typeOf).Perm (s.map typeOf) := by
  obtain ⟨h1, h3⟩ := mix_opens_to_source maskf typeOf hpres s ss s2 h
  have hss : ss.length = s.length := (mixStack_spec maskf s ss s2 h).2.1
  have e1 : (s2.map typeOf).map some = (ss.map Prod.fst).map (fun j => (s[j]?).map typeOf) := by
    apply List.ext_getElem
    · simp [h1, hss]
    · intro i hi1 hi2
      simp only [List.length_map] at hi1
      obtain ⟨j, sec, c, a, b, d⟩ := h3 i hi1
      have hi3 : i < ss.length := by omega
      have : ss[i] = (j, sec) := by
        rw [List.getElem?_eq_getElem hi3] at a; simpa using a
      simp [this, b, d]
  have e2 : (List.range s.length).map (fun j => (s[j]?).map typeOf) = (s.map typeOf).map some := by
    apply List.ext_getElem
    · simp
    · intro i hi1 hi2
      simp at hi1
      simp [hi1]
  have := hperm.map (fun j => (s[j]?).map typeOf)
  rw [← e1, e2] at this
  exact (List.map_perm_map_iff (Option.some_injective _)).1 this

/-- a list of length `n` containing every `j < n` is a permutation of `range n` -/
theorem perm_range_of_surj (idx : List Nat) (hs : ∀ j, j < idx.length → j ∈ idx) :
    idx.Perm (List.range idx.length) := by
  have hsub : List.range idx.length ⊆ idx := fun j hj => hs j (List.mem_range.1 hj)
  have hsp : List.Subperm (List.range idx.length) idx :=
    List.subperm_of_subset List.nodup_range hsub
  exact (hsp.perm_of_length_le (by simp)).symm

/-- conversely, an in-range index component that is not a bijection drops some input card
    (and therefore duplicates another): this is why the importer must refuse it -/
theorem nonbijective_drops (idx : List Nat) (hr : ∀ j ∈ idx, j < idx.length)
    (hn : ¬ idx.Perm (List.range idx.length)) :
    ∃ j, j < idx.length ∧ j ∉ idx := by
  have _ := hr
  by_contra hcon
  apply hn
  apply perm_range_of_surj
  intro j hj
  by_contra hm
  exact hcon ⟨j, hj, hm⟩

/-- C02: the importer's two loops accept exactly the bijections on `{0..n-1}` -/
theorem importIdxOk_iff (idx : List Nat) :
    importIdxOk idx = true ↔ idx.Perm (List.range idx.length) := by
  unfold importIdxOk
  constructor
  · intro h
    simp only [Bool.and_eq_true, List.all_eq_true, decide_eq_true_eq, List.mem_range,
      List.contains_iff_mem] at h
    exact perm_range_of_surj idx h.2
  · intro h
    simp only [Bool.and_eq_true, List.all_eq_true, decide_eq_true_eq, List.mem_range,
      List.contains_iff_mem]
    exact ⟨fun j hj => List.mem_range.1 (h.mem_iff.1 hj), fun j hj => h.mem_iff.2 (List.mem_range.2 hj)⟩

/-- `find_position` on a bijective index component inverts it -/
theorem findPosition_spec (ss : StackSecret S) (hperm : (ss.map Prod.fst).Perm (List.range ss.length))
    (i : Nat) (hi : i < ss.length) :
    findPosition ss i < ss.length ∧ (ss.map Prod.fst)[findPosition ss i]? = some i := by
  unfold findPosition
  have hm : i ∈ ss.map Prod.fst := hperm.mem_iff.2 (List.mem_range.2 hi)
  have hlt : (ss.map Prod.fst).idxOf i < (ss.map Prod.fst).length := List.idxOf_lt_length_iff.2 hm
  refine ⟨by simpa using hlt, ?_⟩
  rw [List.getElem?_eq_getElem hlt, List.getElem_idxOf]

theorem mapM_congr' {α β : Type} (f g : α → Except Err β) :
    ∀ (l : List α), (∀ a ∈ l, f a = g a) → l.mapM f = l.mapM g := by
  intro l
  induction l with
  | nil => intro _; simp
  | cons a l ih =>
    intro h
    rw [List.mapM_cons, List.mapM_cons, h a (by simp), ih (fun x hx => h x (by simp [hx]))]

theorem mapM_ok_exists {α β : Type} (f : α → Except Err β) :
    ∀ (l : List α), (∀ a ∈ l, ∃ b, f a = .ok b) → ∃ r, l.mapM f = .ok r := by
  intro l
  induction l with
  | nil => intro _; exact ⟨[], by simp [pure, Except.pure]⟩
  | cons a l ih =>
    intro h
    obtain ⟨b, hb⟩ := h a (by simp)
    obtain ⟨r, hr⟩ := ih (fun x hx => h x (by simp [hx]))
    exact ⟨b :: r, by rw [List.mapM_cons, hb, hr]; simp [bind, Except.bind, pure, Except.pure]⟩

/-- the per-index body of `mixStack`, when all lookups are in range -/
theorem mixBody_eq (maskf : C → S → Except Err C) (s : List C) (ss : StackSecret S) (i : Nat)
    (hi : i < ss.length) (hj : ss[i].1 < s.length) (hj' : ss[i].1 < ss.length) :
    (match ss[i]? with
      | none => (.error .oob : Except Err C)
      | some (j, _) =>
        match s[j]?, ss[j]? with
        | some c, some (_, sec) => maskf c sec
        | _, _ => .error .oob) = maskf s[ss[i].1] ss[ss[i].1].2 := by
  rw [List.getElem?_eq_getElem hi]
  simp only [List.getElem?_eq_getElem hj, List.getElem?_eq_getElem hj']

/-- the per-index body of `glue`, when all lookups are in range -/
theorem glueBody_eq (combine : S → S → S) (sigma pi : StackSecret S) (i : Nat)
    (hi : i < sigma.length) (hp : i < pi.length) (hf : findPosition sigma i < sigma.length)
    (hf' : findPosition sigma i < pi.length) (hpf : pi[i].1 < sigma.length) :
    (let piIdx := findPosition sigma i
      if sigma.length ≤ piIdx then (.error .abort : Except Err (Nat × S))
      else
        match sigma[i]?, pi[piIdx]?, pi[i]? with
        | some (_, si), some (_, pj), some (pfi, _) =>
          match sigma[pfi]? with
          | some (sf, _) => .ok (sf, combine si pj)
          | none => .error .oob
        | _, _, _ => .error .oob) =
      .ok (sigma[pi[i].1].1, combine sigma[i].2 pi[findPosition sigma i].2) := by
  simp only [Nat.not_le.2 hf, if_false, List.getElem?_eq_getElem hi, List.getElem?_eq_getElem hp,
    List.getElem?_eq_getElem hf', List.getElem?_eq_getElem hpf]

/-- under the hypotheses of `mix_glue` every lookup of `glue` succeeds; explicit result -/
theorem glue_ok (combine : S → S → S) (sigma pi : StackSecret S)
    (hl : sigma.length = pi.length)
    (hsigma : (sigma.map Prod.fst).Perm (List.range sigma.length))
    (hpi : ∀ e ∈ pi, e.1 < sigma.length) :
    ∃ g, glue combine sigma pi = .ok g ∧ g.length = sigma.length ∧
      ∀ i (hg : i < g.length) (hi : i < sigma.length) (hp : i < pi.length)
        (hf' : findPosition sigma i < pi.length) (hpf : pi[i].1 < sigma.length),
        g[i] = (sigma[pi[i].1].1, combine sigma[i].2 pi[findPosition sigma i].2) := by
  have hbody : ∀ i (hi : i < sigma.length), ∃ (hp : i < pi.length)
      (hf' : findPosition sigma i < pi.length) (hpf : pi[i].1 < sigma.length),
      (let piIdx := findPosition sigma i
      if sigma.length ≤ piIdx then (.error .abort : Except Err (Nat × S))
      else
        match sigma[i]?, pi[piIdx]?, pi[i]? with
        | some (_, si), some (_, pj), some (pfi, _) =>
          match sigma[pfi]? with
          | some (sf, _) => .ok (sf, combine si pj)
          | none => .error .oob
        | _, _, _ => .error .oob) =
      .ok (sigma[pi[i].1].1, combine sigma[i].2 pi[findPosition sigma i].2) := by
    intro i hi
    have hp : i < pi.length := hl ▸ hi
    have hf := (findPosition_spec sigma hsigma i hi).1
    have hpf : pi[i].1 < sigma.length := hpi _ (List.getElem_mem hp)
    exact ⟨hp, hl ▸ hf, hpf, glueBody_eq combine sigma pi i hi hp hf (hl ▸ hf) hpf⟩
  unfold glue
  rw [if_neg (by simpa using hl)]
  obtain ⟨g, hg⟩ := mapM_ok_exists _ (List.range sigma.length) (fun i hi => by
    obtain ⟨_, _, _, h⟩ := hbody i (List.mem_range.1 hi)
    exact ⟨_, h⟩)
  refine ⟨g, hg, ?_⟩
  obtain ⟨h1, h2⟩ := mapM_ok_spec _ _ _ hg
  simp only [List.length_range] at h1
  refine ⟨h1, ?_⟩
  intro i hgi hi hp hf' hpf
  have h3 := h2 i (by simpa using hi) hgi
  simp only [List.getElem_range] at h3
  obtain ⟨_, _, _, h4⟩ := hbody i hi
  rw [h4] at h3
  injection h3 with h3
  exact h3.symm

/-- index component of a glued secret: `σ ∘ π` -/
theorem glue_ok_fst (combine : S → S → S) (sigma pi : StackSecret S)
    (hl : sigma.length = pi.length)
    (hsigma : (sigma.map Prod.fst).Perm (List.range sigma.length))
    (hpi : ∀ e ∈ pi, e.1 < sigma.length) (g : StackSecret S)
    (hg : glue combine sigma pi = .ok g) :
    g.map Prod.fst = pi.map (fun e => (sigma.map Prod.fst).getD e.1 0) := by
  obtain ⟨g', hg', hlen, hspec⟩ := glue_ok combine sigma pi hl hsigma hpi
  rw [hg] at hg'
  injection hg' with hg'
  subst hg'
  apply List.ext_getElem
  · simp [hlen, hl]
  · intro i h1 h2
    simp only [List.length_map] at h1 h2
    have hi : i < sigma.length := hlen ▸ h1
    have hpf : pi[i].1 < sigma.length := hpi _ (List.getElem_mem h2)
    have hf := (findPosition_spec sigma hsigma i hi).1
    rw [List.getElem_map, hspec i h1 hi h2 (hl ▸ hf) hpf]
    simp [List.getD_eq_getElem?_getD, hpf]

/-- a total mask and an in-range secret: `mixStack` succeeds, explicit result -/
theorem mixStack_ok (maskf : C → S → Except Err C) (maskp : C → S → C)
    (hpure : ∀ c a, maskf c a = .ok (maskp c a))
    (s : List C) (ss : StackSecret S) (hl : ss.length = s.length)
    (hr : ∀ e ∈ ss, e.1 < s.length) :
    ∃ s2, mixStack maskf s ss = .ok s2 ∧ s2.length = s.length ∧
      ∀ i (h2 : i < s2.length) (hi : i < ss.length) (hj : ss[i].1 < s.length)
        (hj' : ss[i].1 < ss.length), s2[i] = maskp s[ss[i].1] ss[ss[i].1].2 := by
  have hbody : ∀ i (hi : i < ss.length), ∃ (hj : ss[i].1 < s.length) (hj' : ss[i].1 < ss.length),
      (match ss[i]? with
      | none => (.error .oob : Except Err C)
      | some (j, _) =>
        match s[j]?, ss[j]? with
        | some c, some (_, sec) => maskf c sec
        | _, _ => .error .oob) = .ok (maskp s[ss[i].1] ss[ss[i].1].2) := by
    intro i hi
    have hj : ss[i].1 < s.length := hr _ (List.getElem_mem hi)
    exact ⟨hj, hl ▸ hj, by rw [mixBody_eq maskf s ss i hi hj (hl ▸ hj), hpure]⟩
  unfold mixStack
  rw [if_neg (by simpa using hl.symm)]
  obtain ⟨s2, hs2⟩ := mapM_ok_exists _ (List.range s.length) (fun i hi => by
    obtain ⟨_, _, h⟩ := hbody i (hl ▸ List.mem_range.1 hi)
    exact ⟨_, h⟩)
  refine ⟨s2, hs2, ?_⟩
  obtain ⟨h1, h2⟩ := mapM_ok_spec _ _ _ hs2
  simp only [List.length_range] at h1
  refine ⟨h1, ?_⟩
  intro i h2i hi hj hj'
  have h3 := h2 i (by simpa using h1 ▸ h2i) h2i
  simp only [List.getElem_range] at h3
  obtain ⟨_, _, h4⟩ := hbody i hi
  rw [h4] at h3
  injection h3 with h3
  exact h3.symm

/-- C02/C03: mixing with the glued secret equals mixing twice (the identity the cut-and-choose
    prover and verifier rely on), for a mask that is total (`maskf = ok ∘ maskp`) and satisfies
    the composition law `mask (mask c a) b = mask c (combine a b)` -/
theorem mix_glue (maskf : C → S → Except Err C) (maskp : C → S → C) (combine : S → S → S)
    (hpure : ∀ c a, maskf c a = .ok (maskp c a))
    (hlaw : ∀ c a b, maskp (maskp c a) b = maskp c (combine a b))
    (s : List C) (sigma pi : StackSecret S)
    (hls : sigma.length = s.length) (hlp : pi.length = s.length)
    (hsigma : (sigma.map Prod.fst).Perm (List.range s.length))
    (hpi : ∀ e ∈ pi, e.1 < s.length) :
    ∃ g s1, glue combine sigma pi = .ok g ∧ mixStack maskf s sigma = .ok s1 ∧
      mixStack maskf s g = mixStack maskf s1 pi ∧
      g.map Prod.fst = pi.map (fun e => (sigma.map Prod.fst).getD e.1 0) := by
  have hl : sigma.length = pi.length := hls.trans hlp.symm
  have hsigma' : (sigma.map Prod.fst).Perm (List.range sigma.length) := hls ▸ hsigma
  have hpi' : ∀ e ∈ pi, e.1 < sigma.length := fun e he => hls ▸ hpi e he
  have hsr' : ∀ e ∈ sigma, e.1 < sigma.length := by
    intro e he
    have : e.1 ∈ sigma.map Prod.fst := List.mem_map_of_mem he
    exact List.mem_range.1 (hsigma'.mem_iff.1 this)
  have hsr : ∀ j (hj : j < sigma.length), sigma[j].1 < sigma.length :=
    fun j hj => hsr' _ (List.getElem_mem hj)
  have hnd : (sigma.map Prod.fst).Nodup := hsigma'.nodup_iff.2 List.nodup_range
  have hfp : ∀ j (hj : j < sigma.length), findPosition sigma sigma[j].1 = j := by
    intro j hj
    have := hnd.idxOf_getElem j (by simpa using hj)
    simpa [findPosition] using this
  obtain ⟨g, hg, hglen, hgspec⟩ := glue_ok combine sigma pi hl hsigma' hpi'
  obtain ⟨s1, hs1, hs1len, hs1spec⟩ := mixStack_ok maskf maskp hpure s sigma hls
    (fun e he => hls ▸ hsr' e he)
  refine ⟨g, s1, hg, hs1, ?_, glue_ok_fst combine sigma pi hl hsigma' hpi' g hg⟩
  unfold mixStack
  rw [if_neg (by simp [hglen, hls]), if_neg (by simp [hs1len, hlp]), hs1len]
  apply mapM_congr'
  intro i hi
  have hi : i < s.length := List.mem_range.1 hi
  have hiσ : i < sigma.length := hls ▸ hi
  have hiπ : i < pi.length := hlp ▸ hi
  have hig : i < g.length := hglen ▸ hiσ
  have hπi : pi[i].1 < sigma.length := hpi' _ (List.getElem_mem hiπ)
  have hfi := (findPosition_spec sigma hsigma' i hiσ).1
  have hgi := hgspec i hig hiσ hiπ (hl ▸ hfi) hπi
  have hJ : g[i].1 = sigma[pi[i].1].1 := by rw [hgi]
  have hJlt : g[i].1 < sigma.length := hJ ▸ hsr _ hπi
  have key : ∀ J (hJ1 : J < sigma.length) (_ : J = sigma[pi[i].1].1) (h : J < s.length)
      (h' : J < g.length) (hπi' : pi[i].1 < pi.length),
      maskp s[J] g[J].2 = maskp s[J] (combine sigma[J].2 pi[pi[i].1].2) := by
    intro J hJ1 hJ2 h h' hπi'
    have hfJ : findPosition sigma J = pi[i].1 := by rw [hJ2]; exact hfp _ hπi
    have hgJ := hgspec J h' hJ1 (hl ▸ hJ1) (by rw [hfJ]; exact hπi')
      (hpi' _ (List.getElem_mem (hl ▸ hJ1)))
    rw [hgJ]
    simp only [hfJ]
  refine (mixBody_eq maskf s g i hig (hls ▸ hJlt) (hglen ▸ hJlt)).trans (Eq.trans ?_
    (mixBody_eq maskf s1 pi i hiπ (by rw [hs1len, ← hls]; exact hπi) (hl ▸ hπi)).symm)
  rw [hpure, hpure,
    hs1spec _ (by rw [hs1len, ← hls]; exact hπi) hπi (hls ▸ hsr _ hπi) (hsr _ hπi), hlaw,
    key g[i].1 hJlt hJ (hls ▸ hJlt) (hglen ▸ hJlt) (hl ▸ hπi)]
  simp only [hJ]

/-- the index component of a glued secret is the composition, hence again a bijection when
    both inputs are -/
theorem glue_perm (combine : S → S → S) (sigma pi g : StackSecret S)
    (hl : sigma.length = pi.length)
    (hsigma : (sigma.map Prod.fst).Perm (List.range sigma.length))
    (hpi : (pi.map Prod.fst).Perm (List.range pi.length))
    (hg : glue combine sigma pi = .ok g) :
    (g.map Prod.fst).Perm (List.range g.length) := by
  have hpi' : ∀ e ∈ pi, e.1 < sigma.length := by
    intro e he
    have : e.1 ∈ pi.map Prod.fst := List.mem_map_of_mem he
    rw [hl]
    exact List.mem_range.1 (hpi.mem_iff.1 this)
  have hfst := glue_ok_fst combine sigma pi hl hsigma hpi' g hg
  have hlen : g.length = sigma.length := by
    have := congrArg List.length hfst
    simpa [hl] using this
  rw [hfst, hlen]
  have e1 : pi.map (fun e => (sigma.map Prod.fst).getD e.1 0) =
      (pi.map Prod.fst).map (fun j => (sigma.map Prod.fst).getD j 0) := by
    simp [List.map_map, Function.comp_def]
  have e2 : (List.range sigma.length).map (fun j => (sigma.map Prod.fst).getD j 0) =
      sigma.map Prod.fst := by
    apply List.ext_getElem
    · simp
    · intro i h1 h2
      simp only [List.length_map, List.length_range] at h1
      simp [List.getD_eq_getElem?_getD, h1]
  rw [e1]
  refine ((hpi.map _).trans ?_).trans hsigma
  rw [← hl, e2]

end Tmcg.Stack
