import Tmcg.Model.Stack
import TmcgProofs.Base
import Mathlib.Data.List.Perm.Basic
import Mathlib.Data.List.Nodup
import Mathlib.Data.List.Range
/-
  Lemmas about Tmcg/Model/Stack.lean (C02; used by C03/C04 cut-and-choose).
-/
namespace Tmcg.Stack
open Tmcg

variable {C S T : Type}

/-- a successful mix has the size of its input, and card `i` is the mask of the input card
    designated by the secret's `i`-th index, masked with the secret stored at *that* index -/
theorem mixStack_spec (maskf : C → S → Except Err C) (s : List C) (ss : StackSecret S) (s2 : List C)
    (h : mixStack maskf s ss = .ok s2) :
    s2.length = s.length ∧ ss.length = s.length ∧
    ∀ i (hi : i < s2.length), ∃ j sec c k sec',
      ss[i]? = some (j, sec) ∧ s[j]? = some c ∧ ss[j]? = some (k, sec') ∧
      maskf c sec' = .ok s2[i] := by
  sorry

/-- C02: the `i`-th card of the mixed stack opens to the type of the input card designated by
    the secret's `i`-th index, for any notion of type that masking preserves -/
theorem mix_opens_to_source (maskf : C → S → Except Err C) (typeOf : C → T)
    (hpres : ∀ c sec c', maskf c sec = .ok c' → typeOf c' = typeOf c)
    (s : List C) (ss : StackSecret S) (s2 : List C) (h : mixStack maskf s ss = .ok s2) :
    s2.length = s.length ∧
    ∀ i (hi : i < s2.length), ∃ j sec c, ss[i]? = some (j, sec) ∧ s[j]? = some c ∧
      typeOf s2[i] = typeOf c := by
  sorry

/-- C02: with a bijective index component the multiset of types is preserved -/
theorem mix_preserves_multiset (maskf : C → S → Except Err C) (typeOf : C → T)
    (hpres : ∀ c sec c', maskf c sec = .ok c' → typeOf c' = typeOf c)
    (s : List C) (ss : StackSecret S) (s2 : List C) (h : mixStack maskf s ss = .ok s2)
    (hperm : (ss.map Prod.fst).Perm (List.range s.length)) :
    (s2.map typeOf).Perm (s.map typeOf) := by
  sorry

/-- conversely, an in-range index component that is not a bijection drops some input card
    (and therefore duplicates another): this is why the importer must refuse it -/
theorem nonbijective_drops (idx : List Nat) (hr : ∀ j ∈ idx, j < idx.length)
    (hn : ¬ idx.Perm (List.range idx.length)) :
    ∃ j, j < idx.length ∧ j ∉ idx := by
  sorry

/-- C02: the importer's two loops accept exactly the bijections on `{0..n-1}` -/
theorem importIdxOk_iff (idx : List Nat) :
    importIdxOk idx = true ↔ idx.Perm (List.range idx.length) := by
  sorry

/-- `find_position` on a bijective index component inverts it -/
theorem findPosition_spec (ss : StackSecret S) (hperm : (ss.map Prod.fst).Perm (List.range ss.length))
    (i : Nat) (hi : i < ss.length) :
    findPosition ss i < ss.length ∧ (ss.map Prod.fst)[findPosition ss i]? = some i := by
  sorry

/-- C02/C03: mixing with the glued secret equals mixing twice (the identity the cut-and-choose
    prover and verifier rely on), for a mask that is total (`maskf = ok ∘ maskp`) and satisfies
    the composition law `mask (mask c a) b = mask c (combine a b)` -/
theorem mix_glue (maskf : C → S → Except Err C) (maskp : C → S → C) (combine : S → S → S)
    (hpure : ∀ c a, maskf c a = .ok (maskp c a))
    (hlaw : ∀ c a b, maskp (maskp c a) b = maskp c (combine a b))
    (s : List C) (sigma pi : StackSecret S)
    (hls : sigma.length = s.length) (hlp : pi.length = s.length)
    (hsigma : (sigma.map Prod.fst).Perm (List.range s.length))
    (hpi : ∀ e ∈ pi, e.1 < s.length) :
    ∃ g s1, glue combine sigma pi = .ok g ∧ mixStack maskf s sigma = .ok s1 ∧
      mixStack maskf s g = mixStack maskf s1 pi ∧
      g.map Prod.fst = pi.map (fun e => (sigma.map Prod.fst).getD e.1 0) := by
  sorry

/-- the index component of a glued secret is the composition, hence again a bijection when
    both inputs are -/
theorem glue_perm (combine : S → S → S) (sigma pi g : StackSecret S)
    (hl : sigma.length = pi.length)
    (hsigma : (sigma.map Prod.fst).Perm (List.range sigma.length))
    (hpi : (pi.map Prod.fst).Perm (List.range pi.length))
    (hg : glue combine sigma pi = .ok g) :
    (g.map Prod.fst).Perm (List.range g.length) := by
  sorry

end Tmcg.Stack
