import TmcgProofs.ArgsSoundGrothModes
/-
  C04 for Groth's shuffle argument, part 6: the bounds.  (i) a substituted / re-typed output card:
  the relation `GrothRel` holds for at most `|T|^(n-1)` of the `|T|^n` challenge vectors;
  (ii) a dropped index: unless `λ` is one of at most `n-1` exceptional values the messages of the
  inner shuffle of known content are not permuted by `pi`, and then at most `n` challenges `x` pass.
-/
namespace Tmcg.Args
open Tmcg Tmcg.Powm Tmcg.Vtmf Tmcg.Grp Tmcg.Sigma Tmcg.SigmaComplete Tmcg.CoinFlip Tmcg.ArgsSound
variable {G : Group} [Fact (Nat.Prime G.p.natAbs)] [Fact (Nat.Prime G.q.natAbs)]
set_option linter.unusedVariables false
set_option linter.unusedSectionVars false

/-! ### (i) a substituted or re-typed card -/

/-- deviation of the output card `i` from the re-encryption of the input card `π(i)` with `R_i`:
    `E_i / (e_{π(i)} · E(1; R_i))`, first component -/
noncomputable def shufDev1 (G : Group) [Fact (Nat.Prime G.p.natAbs)] (pi : List ℕ) (R : List ℤ)
    (e E : List Card) (i : ℕ) : F G :=
  toF G (E.getD i ⟨0, 0⟩).c1 / (toF G (e.getD (pi.getD i 0) ⟨0, 0⟩).c1 * toF G G.g ^ R.getD i 0)

/-- second component -/
noncomputable def shufDev2 (G : Group) [Fact (Nat.Prime G.p.natAbs)] (P : GrothPub) (pi : List ℕ)
    (R : List ℤ) (e E : List Card) (i : ℕ) : F G :=
  toF G (E.getD i ⟨0, 0⟩).c2 / (toF G (e.getD (pi.getD i 0) ⟨0, 0⟩).c2 * toF G P.S.h ^ R.getD i 0)

theorem perm_getD_inj {pi : List ℕ} {n : ℕ} (hp : pi.Perm (List.range n)) (i : ℕ) (hi : i < n) (j : ℕ)
    (hj : j < n) (h : pi.getD i 0 = pi.getD j 0) : i = j := by
  have ln : pi.length = n := by rw [hp.length_eq, List.length_range]
  have hnd : pi.Nodup := hp.nodup_iff.mpr List.nodup_range
  rw [List.getD_eq_getElem _ _ (by omega), List.getD_eq_getElem _ _ (by omega)] at h
  exact (List.Nodup.getElem_inj_iff hnd).mp h

/-- the relation `GrothRel` in terms of the deviations, for a permutation `pi` -/
theorem grothRel_dev (hG : ValidGroup G) {P : GrothPub} (hP : PubOk G P) (pi : List ℕ) (R : List ℤ)
    (e E : List Card) (st : ShufAlg G P pi R e E) (hperm : pi.Perm (List.range pi.length)) (t : List ℤ)
    (h : GrothRel G P pi R e E t) :
    (∏ i ∈ Finset.range pi.length, shufDev1 G pi R e E i ^ t.getD (pi.getD i 0) 0 = 1) ∧
    (∏ i ∈ Finset.range pi.length, shufDev2 G P pi R e E i ^ t.getD (pi.getD i 0) 0 = 1) := by
  constructor
  · exact rel_to_dev pi.length (fun i => pi.getD i 0) (fun i => toF G (E.getD i ⟨0, 0⟩).c1)
      (fun i => toF G (e.getD i ⟨0, 0⟩).c1) (toF G G.g) (g_ne hG)
      (fun j hj => (st.sub j hj).1.ne_zero hG) (fun i hi => perm_getD_lt hperm i hi)
      (fun i => R.getD i 0) (fun j => t.getD j 0)
      (prod_perm_range pi pi.length hperm (fun j => toF G (e.getD j ⟨0, 0⟩).c1 ^ t.getD j 0)) h.1
  · exact rel_to_dev pi.length (fun i => pi.getD i 0) (fun i => toF G (E.getD i ⟨0, 0⟩).c2)
      (fun i => toF G (e.getD i ⟨0, 0⟩).c2) (toF G P.S.h) (h_ne hG P.S hP.st)
      (fun j hj => (st.sub j hj).2.ne_zero hG) (fun i hi => perm_getD_lt hperm i hi)
      (fun i => R.getD i 0) (fun j => t.getD j 0)
      (prod_perm_range pi pi.length hperm (fun j => toF G (e.getD j ⟨0, 0⟩).c2 ^ t.getD j 0)) h.2

/-- **(i) the bound for a substituted / re-typed card**: `pi` is a permutation but some output card
    `E_{i0}` is not the re-encryption of `e_{π(i0)}` with `R_{i0}`.  Then among the `|T|^n` vectors
    of challenges from a set `T` of integers pairwise different modulo `q`, at most `|T|^(n-1)`
    satisfy the relation `GrothRel` that acceptance implies. -/
theorem groth_count_substituted (hG : ValidGroup G) {P : GrothPub} (hP : PubOk G P) (pi : List ℕ)
    (R : List ℤ) (e E : List Card) (st : ShufAlg G P pi R e E)
    (hperm : pi.Perm (List.range pi.length)) (i0 : ℕ) (hi0 : i0 < pi.length)
    (hbad : shufDev1 G pi R e E i0 ≠ 1 ∨ shufDev2 G P pi R e E i0 ≠ 1)
    (T : Finset ℤ) (hT : ∀ a ∈ T, ∀ b ∈ T, toQ G a = toQ G b → a = b)
    (acc : (Fin pi.length → ℤ) → Prop) [DecidablePred acc]
    (h : ∀ t : Fin pi.length → ℤ, (∀ j, t j ∈ T) → acc t → GrothRel G P pi R e E (List.ofFn t)) :
    ((Fintype.piFinset fun _ : Fin pi.length => T).filter acc).card ≤ T.card ^ (pi.length - 1) := by
  have hgq := g_sub hG
  have hhq := h_sub P.S hP.st
  have hD1 : ∀ i < pi.length, shufDev1 G pi R e E i ^ G.q.natAbs = 1 := by
    intro i hi
    unfold shufDev1
    rw [div_pow, mul_pow, (st.subE i hi).1, (st.sub _ (perm_getD_lt hperm i hi)).1, zpow_pow_q hgq]
    simp
  have hD2 : ∀ i < pi.length, shufDev2 G P pi R e E i ^ G.q.natAbs = 1 := by
    intro i hi
    unfold shufDev2
    rw [div_pow, mul_pow, (st.subE i hi).2, (st.sub _ (perm_getD_lt hperm i hi)).2, zpow_pow_q hhq]
    simp
  rcases hbad with hb | hb
  · exact inj_form_bound G.q.natAbs hG.q_prime pi.length (fun i => pi.getD i 0)
      (fun i hi => perm_getD_lt hperm i hi) (fun i hi j hj => perm_getD_inj hperm i hi j hj)
      (shufDev1 G pi R e E) hD1 i0 hi0 hb T hT acc
      (fun t ht ha => (grothRel_dev hG hP pi R e E st hperm _ (h t ht ha)).1)
  · exact inj_form_bound G.q.natAbs hG.q_prime pi.length (fun i => pi.getD i 0)
      (fun i hi => perm_getD_lt hperm i hi) (fun i hi j hj => perm_getD_inj hperm i hi j hj)
      (shufDev2 G P pi R e E) hD2 i0 hi0 hb T hT acc
      (fun t ht ha => (grothRel_dev hG hP pi R e E st hperm _ (h t ht ha)).2)

/-! ### (ii) a dropped index -/

/-- a dropped index `k` whose message differs (mod `q`) from all the others: `pi` does not permute
    the messages -/
theorem notPermuted_of_dropped (pi : List ℕ) (m : List ℤ) (k : ℕ) (hk : k < m.length) (hdrop : k ∉ pi)
    (hb : ∀ j ∈ pi, j < m.length)
    (hdist : ∀ j < m.length, j ≠ k → toQ G (m.getD j 0) ≠ toQ G (m.getD k 0)) : NotPermuted G pi m := by
  intro heq
  have h1 : toQ G (m.getD k 0) ∈ ((m.map (toQ G) : List (Fq G)) : Multiset (Fq G)) := by
    rw [Multiset.mem_coe, List.mem_map]
    exact ⟨m.getD k 0, by rw [List.getD_eq_getElem _ _ hk]; exact List.getElem_mem _, rfl⟩
  rw [← heq, Multiset.mem_coe, List.mem_map] at h1
  obtain ⟨j, hj, hjk⟩ := h1
  have hne : j ≠ k := by rintro rfl; exact hdrop hj
  exact hdist j (hb j hj) hne hjk

/-- `λ` is exceptional for the dropped index `k`: the message `m_k = (k+1) λ + t_k` collides
    (mod `q`) with another message -/
def LamExc (G : Group) (t : List ℤ) (k : ℕ) (lam : ℤ) : Prop :=
  ∃ j < t.length, j ≠ k ∧
    toQ G ((grothMsgs G.q lam t).getD j 0) = toQ G ((grothMsgs G.q lam t).getD k 0)

theorem grothMsgs_toQ (hG : ValidGroup G) (lam : ℤ) (t : List ℤ) (j : ℕ) (hj : j < t.length) :
    toQ G ((grothMsgs G.q lam t).getD j 0) = toQ G ((j : ℤ) + 1) * toQ G lam + toQ G (t.getD j 0) := by
  simp only [grothMsgs]
  rw [getD_map_range _ _ _ _ hj]
  simp only [toQ_emod hG, toQ_add, toQ_mul, Int.ofNat_eq_natCast]

/-- if `λ` is not exceptional, a `pi` that drops the index `k` does not permute the messages -/
theorem notPermuted_of_not_lamExc (pi : List ℕ) (t : List ℤ) (k : ℕ) (hk : k < t.length)
    (hdrop : k ∉ pi) (hb : ∀ j ∈ pi, j < t.length) (lam : ℤ) (hlam : ¬ LamExc G t k lam) :
    NotPermuted G pi (grothMsgs G.q lam t) := by
  have lm : (grothMsgs G.q lam t).length = t.length := by simp [grothMsgs]
  apply notPermuted_of_dropped pi _ k (by rw [lm]; exact hk) hdrop (by rw [lm]; exact hb)
  intro j hj hne heq
  rw [lm] at hj
  exact hlam ⟨j, hj, hne, heq⟩

/-- **at most `n - 1` exceptional `λ`** among integers pairwise different modulo `q` (`n < q`) -/
theorem lamExc_count (hG : ValidGroup G) (t : List ℤ) (k : ℕ) (hk : k < t.length)
    (hsmall : (t.length : ℤ) < G.q) (T : Finset ℤ)
    (hT : ∀ a ∈ T, ∀ b ∈ T, toQ G a = toQ G b → a = b) [DecidablePred (LamExc G t k)] :
    (T.filter (LamExc G t k)).card ≤ t.length - 1 := by
  classical
  have hsub : T.filter (LamExc G t k) ⊆ ((Finset.range t.length).erase k).biUnion fun j =>
      T.filter fun lam => toQ G ((grothMsgs G.q lam t).getD j 0) = toQ G ((grothMsgs G.q lam t).getD k 0) := by
    intro lam hl
    rw [Finset.mem_filter] at hl
    obtain ⟨j, hj, hne, heq⟩ := hl.2
    rw [Finset.mem_biUnion]
    exact ⟨j, Finset.mem_erase.mpr ⟨hne, Finset.mem_range.mpr hj⟩, Finset.mem_filter.mpr ⟨hl.1, heq⟩⟩
  refine (Finset.card_le_card hsub).trans ?_
  refine (Finset.card_biUnion_le).trans ?_
  have h1 : ∀ j ∈ (Finset.range t.length).erase k, (T.filter fun lam =>
      toQ G ((grothMsgs G.q lam t).getD j 0) = toQ G ((grothMsgs G.q lam t).getD k 0)).card ≤ 1 := by
    intro j hj
    have hjl : j < t.length := Finset.mem_range.mp (Finset.mem_of_mem_erase hj)
    have hne : j ≠ k := Finset.ne_of_mem_erase hj
    rw [Finset.card_le_one]
    intro a ha b hb
    rw [Finset.mem_filter] at ha hb
    have ea := ha.2
    have eb := hb.2
    rw [grothMsgs_toQ hG a t j hjl, grothMsgs_toQ hG a t k hk] at ea
    rw [grothMsgs_toQ hG b t j hjl, grothMsgs_toQ hG b t k hk] at eb
    have hδ : toQ G ((j : ℤ) + 1) - toQ G ((k : ℤ) + 1) ≠ 0 := by
      rw [← toQ_sub, ← toQ_zero (G := G), Ne, toQ_eq_iff hG, Int.zero_emod]
      intro hmod
      have hdvd : G.q ∣ ((j : ℤ) + 1 - ((k : ℤ) + 1)) := Int.dvd_of_emod_eq_zero hmod
      have : ((j : ℤ) + 1 - ((k : ℤ) + 1)) = 0 := by
        apply Int.eq_zero_of_abs_lt_dvd hdvd
        rw [abs_lt]; constructor <;> omega
      omega
    have : (toQ G ((j : ℤ) + 1) - toQ G ((k : ℤ) + 1)) * toQ G a =
        (toQ G ((j : ℤ) + 1) - toQ G ((k : ℤ) + 1)) * toQ G b := by
      have ea' : (toQ G ((j : ℤ) + 1) - toQ G ((k : ℤ) + 1)) * toQ G a =
          toQ G (t.getD k 0) - toQ G (t.getD j 0) := by linear_combination ea
      have eb' : (toQ G ((j : ℤ) + 1) - toQ G ((k : ℤ) + 1)) * toQ G b =
          toQ G (t.getD k 0) - toQ G (t.getD j 0) := by linear_combination eb
      rw [ea', eb']
    exact hT a ha.1 b hb.1 (mul_left_cancel₀ hδ this)
  calc _ ≤ ∑ j ∈ (Finset.range t.length).erase k, 1 := Finset.sum_le_sum h1
    _ = t.length - 1 := by
      rw [Finset.sum_const, Finset.card_erase_of_mem (Finset.mem_range.mpr hk), Finset.card_range]
      simp

end Tmcg.Args
