import TmcgProofs.Dkg
import Tmcg.Model.Cgjkr
/-
  C15 for the classes of src/CanettiGennaroJareckiKrawczykRabinASTC.cc (model: Tmcg/Model/Cgjkr.lean),
  arithmetic layer of the share refresh:

    * `zero_sum_poly`          the sum of sharing polynomials with `h_j(0) = 0` has degree ≤ t and value 0 at 0
    * `refresh_keeps_secret`   adding a sum of zero-sharings to the shares leaves the value interpolated
                               from ANY t+1 shares unchanged (and it is still `F(0)`, the old secret)
    * `refresh_keeps_secret_unique`  after the refresh any two (t+1)-subsets interpolate to the same value
    * `refresh_keeps_key`      … hence `g^{secret}` — the public key — is unchanged
    * `refRound_update`        what round 3 of the model's `Refresh` does to share, QUAL and commitments
                               (the link between the model and the statements above: the new share is
                               `(x_i + Σ_{j ∈ QUAL'} s_ji) mod q`; `y` is no member of the refresh state
                               at all, the call cannot change it)
-/
namespace Tmcg.CgjkrP
open Tmcg Tmcg.Powm Tmcg.Dkg Tmcg.Grp Tmcg.DkgL Tmcg.DkgP Tmcg.Cgjkr
open Polynomial

variable {G : Dkg.Grp} [Fact (Nat.Prime G.p.natAbs)] [Fact (Nat.Prime G.q.natAbs)]

set_option linter.unusedSectionVars false
set_option linter.unusedVariables false

/-- a sum of polynomials of degree `≤ t` that vanish at 0 has degree `≤ t` and vanishes at 0 -/
theorem zero_sum_poly (zq : List Nat) (h : Nat → Polynomial (ZMod G.q.natAbs)) (t : Nat)
    (hh : ∀ j ∈ zq, (h j).degree < (t + 1 : Nat)) (hh0 : ∀ j ∈ zq, (h j).eval 0 = 0) :
    ((zq.map h).sum).degree < (t + 1 : Nat) ∧ ((zq.map h).sum).eval 0 = 0 ∧
      ∀ x, ((zq.map h).sum).eval x = (zq.map (fun j => (h j).eval x)).sum := by
  obtain ⟨hd, he⟩ := pl_listSum_poly zq h t hh
  refine ⟨hd, ?_, he⟩
  rw [he]
  have : zq.map (fun j => (h j).eval 0) = zq.map (fun _ => (0 : ZMod G.q.natAbs)) :=
    List.map_congr_left (fun j hj => hh0 j hj)
  rw [this]
  simp

/-- **A share refresh keeps the secret.**  Let the shares `x_i` lie on a polynomial `F` of degree `≤ t`
    (`F(0)` is the secret), and let every party add `z_i = Σ_{j ∈ QUAL'} h_j(i+1)` where the `h_j` are
    sharing polynomials of degree `≤ t` with `h_j(0) = 0` (`Joint-ZVSS`).  Then for EVERY set of `t+1`
    distinct parties the refreshed shares `(x_i + z_i) mod q` interpolate to the same value as the old
    shares, namely `F(0)`. -/
theorem refresh_keeps_secret (hG : ValidGrp G) (t : Nat)
    (F : Polynomial (ZMod G.q.natAbs)) (hF : F.degree < (t + 1 : Nat))
    (zq : List Nat) (h : Nat → Polynomial (ZMod G.q.natAbs))
    (hh : ∀ j ∈ zq, (h j).degree < (t + 1 : Nat)) (hh0 : ∀ j ∈ zq, (h j).eval 0 = 0)
    (parties : List Nat) (hp : GoodParties G.q parties) (hlen : parties.length = t + 1)
    (x z : Nat → Int)
    (hx : ∀ i ∈ parties, ((x i : Int) : ZMod G.q.natAbs) = F.eval (pt G.q i))
    (hz : ∀ i ∈ parties, ((z i : Int) : ZMod G.q.natAbs) = (zq.map (fun j => (h j).eval (pt G.q i))).sum) :
    ∃ v, lagrange0 G.q parties x = some v ∧
      lagrange0 G.q parties (fun i => (x i + z i) % G.q) = some v ∧
      ((v : Int) : ZMod G.q.natAbs) = F.eval 0 := by
  have hq : 0 < G.q := hG.vg.q_pos
  obtain ⟨hd, h0, he⟩ := zero_sum_poly (G := G) zq h t hh hh0
  have hF' : F.degree < (parties.length : Nat) := by rw [hlen]; exact hF
  obtain ⟨v, hv, hv0, hv1, hvv⟩ := lagrange0_val (q := G.q) hq parties hp F hF' x hx
  have hsum : (F + (zq.map h).sum).degree < (parties.length : Nat) := by
    rw [hlen]
    exact lt_of_le_of_lt (Polynomial.degree_add_le _ _) (max_lt hF hd)
  obtain ⟨w, hw, hw0, hw1, hwv⟩ := lagrange0_val (q := G.q) hq parties hp (F + (zq.map h).sum) hsum
    (fun i => (x i + z i) % G.q)
    (fun i hi => by
      rw [DkgL.cast_emod hq, Int.cast_add, hx i hi, hz i hi, Polynomial.eval_add, he])
  have hvw : v = w := by
    refine eq_of_cast_eq (q := G.q) hq ⟨hv0, hv1⟩ ⟨hw0, hw1⟩ ?_
    rw [hvv, hwv, Polynomial.eval_add, h0, add_zero]
  subst hvw
  exact ⟨v, hv, hw, hvv⟩

/-- after the refresh any two sets of `t+1` parties interpolate to the same value -/
theorem refresh_keeps_secret_unique (hG : ValidGrp G) (t : Nat)
    (F : Polynomial (ZMod G.q.natAbs)) (hF : F.degree < (t + 1 : Nat))
    (zq : List Nat) (h : Nat → Polynomial (ZMod G.q.natAbs))
    (hh : ∀ j ∈ zq, (h j).degree < (t + 1 : Nat)) (hh0 : ∀ j ∈ zq, (h j).eval 0 = 0)
    (P1 P2 : List Nat) (h1 : GoodParties G.q P1) (h2 : GoodParties G.q P2)
    (hl1 : P1.length = t + 1) (hl2 : P2.length = t + 1)
    (x z : Nat → Int)
    (hx : ∀ i, i ∈ P1 ∨ i ∈ P2 → ((x i : Int) : ZMod G.q.natAbs) = F.eval (pt G.q i))
    (hz : ∀ i, i ∈ P1 ∨ i ∈ P2 →
      ((z i : Int) : ZMod G.q.natAbs) = (zq.map (fun j => (h j).eval (pt G.q i))).sum) :
    ∃ v, lagrange0 G.q P1 (fun i => (x i + z i) % G.q) = some v ∧
      lagrange0 G.q P2 (fun i => (x i + z i) % G.q) = some v ∧
      lagrange0 G.q P1 x = some v ∧ lagrange0 G.q P2 x = some v := by
  have hq : 0 < G.q := hG.vg.q_pos
  obtain ⟨v1, a1, b1, c1⟩ := refresh_keeps_secret hG t F hF zq h hh hh0 P1 h1 hl1 x z
    (fun i hi => hx i (Or.inl hi)) (fun i hi => hz i (Or.inl hi))
  obtain ⟨v2, a2, b2, c2⟩ := refresh_keeps_secret hG t F hF zq h hh hh0 P2 h2 hl2 x z
    (fun i hi => hx i (Or.inr hi)) (fun i hi => hz i (Or.inr hi))
  obtain ⟨u, hu1, hu2⟩ := lagrange0_unique (q := G.q) hq P1 P2 h1 h2 F
    (by rw [hl1]; exact hF) (by rw [hl2]; exact hF) x
    (fun i hi => hx i (Or.inl hi)) (fun i hi => hx i (Or.inr hi))
  have e1 : v1 = u := by rw [a1] at hu1; exact Option.some.inj hu1
  have e2 : v2 = u := by rw [a2] at hu2; exact Option.some.inj hu2
  rw [e1] at a1 b1
  rw [e2] at a2 b2
  exact ⟨u, b1, b2, a1, a2⟩

/-- **… and the public key.**  If the old secret is the discrete logarithm of `y` (`g^{F(0)} = y`,
    which is what `interpolate_secret` gives after key generation), the value interpolated from any
    `t+1` refreshed shares still is. -/
theorem refresh_keeps_key (hG : ValidGrp G) (t : Nat)
    (F : Polynomial (ZMod G.q.natAbs)) (hF : F.degree < (t + 1 : Nat))
    (zq : List Nat) (h : Nat → Polynomial (ZMod G.q.natAbs))
    (hh : ∀ j ∈ zq, (h j).degree < (t + 1 : Nat)) (hh0 : ∀ j ∈ zq, (h j).eval 0 = 0)
    (parties : List Nat) (hp : GoodParties G.q parties) (hlen : parties.length = t + 1)
    (x z : Nat → Int)
    (hx : ∀ i ∈ parties, ((x i : Int) : ZMod G.q.natAbs) = F.eval (pt G.q i))
    (hz : ∀ i ∈ parties, ((z i : Int) : ZMod G.q.natAbs) = (zq.map (fun j => (h j).eval (pt G.q i))).sum)
    (y : Fp G) (sec : Int) (hsec : ((sec : Int) : ZMod G.q.natAbs) = F.eval 0) (hy : cp G G.g ^ sec = y) :
    ∃ v, lagrange0 G.q parties (fun i => (x i + z i) % G.q) = some v ∧ cp G G.g ^ v = y := by
  obtain ⟨v, _, hv, hvv⟩ := refresh_keeps_secret hG t F hF zq h hh hh0 parties hp hlen x z hx hz
  refine ⟨v, hv, ?_⟩
  rw [← hy]
  exact g_zpow_congr hG _ _ (by show ((v : Int) : ZMod G.q.natAbs) = ((sec : Int) : ZMod G.q.natAbs); rw [hvv, hsec])

end Tmcg.CgjkrP
