import TmcgProofs.CgjkrSignBindF
/-
  C16, run level, part G: a decision procedure for `BindsViewOcc` with a polynomial of degree `≤ 1`, used for the
  non-vacuity instance (TmcgProofs/CgjkrSignBindH.lean).

    * `shareOkB`        the share check of steps 1f / 2f as a Boolean
    * `checkOcc`        Boolean test: `1 ≤ t`, the own share is `c0 + c1·x_i`, and every pair of values of one sender's
                        queue (identifier of `Sign`) that passes the share check has first component `c0 + c1·x_j`
    * `checkOcc_sound`  `checkOcc … = true  →  BindsViewOcc G st I kindV (c0 + c1·X)`
    * `isSh`, `head_isSh`   recognising `shRead ph` at the head of a round
-/
namespace Tmcg.CgjkrSignBind
open Tmcg Tmcg.Powm Tmcg.Dkg Tmcg.Grp Tmcg.DkgL Tmcg.DkgP Tmcg.Cgjkr Tmcg.CgjkrSign Tmcg.CgjkrSignRunP
open Polynomial

/-- the share check as a Boolean -/
def shareOkB (G : Dkg.Grp) (st : SSt) (kindV j : Nat) (foo bar : Int) : Bool :=
  match pedF G foo bar, sShareRhs (st.env G) st kindV j st.signers 1 with
  | .ok l, .ok r => l == r
  | _, _ => false

theorem shareOkB_of (G : Dkg.Grp) (st : SSt) (kindV j : Nat) (foo bar : Int)
    (h : ShareOk G st kindV j foo bar) : shareOkB G st kindV j foo bar = true := by
  obtain ⟨l, r, h1, h2, h3⟩ := h
  unfold shareOkB
  rw [h1, h2]
  simp [h3]

/-- `c0 + c1·x_j` with `x_j = idx2dkg[j] + 1` -/
def linAt (st : SSt) (c0 c1 : Int) (j : Nat) : Int := c0 + c1 * ((getN st.pts j : Int) + 1)

/-- Boolean test for `BindsViewOcc` with the polynomial `c0 + c1·X` -/
def checkOcc (G : Dkg.Grp) (st : SSt) (I : Inbox) (kindV : Nat) (c0 c1 : Int) : Bool :=
  decide (1 ≤ st.t) &&
  ((st.s - linAt st c0 c1 st.i) % G.q == 0) &&
  (List.range st.m).all (fun j => (I.b.getD j []).all (fun e1 => (I.b.getD j []).all (fun e2 =>
    !(e1.1 == sgMain st.m && e2.1 == sgMain st.m && shareOkB G st kindV j e1.2 e2.2) ||
      ((e1.2 - linAt st c0 c1 j) % G.q == 0))))

/-- recognise `shRead ph` at the head of a round -/
def isSh (ph : Nat) : Option Act → Bool
  | some (.shRead p) => p == ph
  | _ => false

theorem head_isSh (ph : Nat) (o : Option Act) (h : o = some (.shRead ph)) : isSh ph o = true := by
  subst h
  simp [isSh]

variable {G : Dkg.Grp} [Fact (Nat.Prime G.p.natAbs)] [Fact (Nat.Prime G.q.natAbs)]

set_option linter.unusedSectionVars false
set_option linter.unusedVariables false

/-- the polynomial `c0 + c1·X` over the exponent field -/
noncomputable def linPoly (G : Dkg.Grp) (c0 c1 : Int) : Polynomial (ZMod G.q.natAbs) :=
  C (cq G c0) + C (cq G c1) * X

theorem linPoly_eval (st : SSt) (c0 c1 : Int) (j : Nat) :
    (linPoly G c0 c1).eval (pt G.q (getN st.pts j)) = cq G (linAt st c0 c1 j) := by
  unfold linPoly linAt pt
  simp only [Polynomial.eval_add, Polynomial.eval_mul, Polynomial.eval_C, Polynomial.eval_X]
  unfold cq
  push_cast
  ring

theorem linPoly_eval_zero (c0 c1 : Int) : (linPoly G c0 c1).eval 0 = cq G c0 := by
  unfold linPoly
  simp

theorem linPoly_degree (c0 c1 : Int) (t : Nat) (ht : 1 ≤ t) :
    (linPoly G c0 c1).degree < ((t + 1 : Nat) : WithBot Nat) := by
  unfold linPoly
  refine lt_of_le_of_lt (Polynomial.degree_add_le _ _) (max_lt ?_ ?_)
  · refine lt_of_le_of_lt Polynomial.degree_C_le ?_
    exact_mod_cast Nat.succ_pos t
  · refine lt_of_le_of_lt (Polynomial.degree_C_mul_X_le _) ?_
    exact_mod_cast (by omega : 1 < t + 1)

theorem cq_of_sub_emod (hq : 0 < G.q) (a b : Int) (h : (a - b) % G.q = 0) : cq G a = cq G b := by
  rw [cq_eq_iff hq]
  exact Int.emod_eq_emod_iff_emod_sub_eq_zero.mpr h

/-- the Boolean test is sound -/
theorem checkOcc_sound (hq : 0 < G.q) (st : SSt) (I : Inbox) (kindV : Nat) (c0 c1 : Int)
    (h : checkOcc G st I kindV c0 c1 = true) : BindsViewOcc G st I kindV (linPoly G c0 c1) := by
  unfold checkOcc at h
  simp only [Bool.and_eq_true, decide_eq_true_eq, beq_iff_eq, List.all_eq_true, List.mem_range,
    Bool.or_eq_true, Bool.not_eq_true'] at h
  obtain ⟨⟨ht, hown⟩, hall⟩ := h
  refine ⟨linPoly_degree c0 c1 st.t ht, ?_, ?_⟩
  · rw [linPoly_eval]
    exact cq_of_sub_emod hq _ _ hown
  · intro j foo bar hj _ _ h1 h2 hs
    rw [linPoly_eval]
    have := hall j hj (sgMain st.m, foo) h1 (sgMain st.m, bar) h2
    rcases this with hf | ht'
    · have hok := shareOkB_of G st kindV j foo bar hs
      simp [hok] at hf
    · exact cq_of_sub_emod hq _ _ ht'

end Tmcg.CgjkrSignBind
