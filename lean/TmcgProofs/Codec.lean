import Tmcg.Model.Codec
import TmcgProofs.Base
import Mathlib.Data.List.Perm.Basic
import Mathlib.Data.List.Perm.Subperm
import Mathlib.Data.List.Nodup
import Mathlib.Data.List.Range
/-
  C11: export / import round trips of the text transport encoding (integers in base 62,
  discrete-log cards, card secrets, stacks, stack secrets).
-/
namespace Tmcg.Codec
open Tmcg

/-! ### base 62 -/

/-- `c` is one of the 62 digit characters -/
def IsD62 (c : Char) : Prop := ∃ d, d < 62 ∧ c = digit62 d

/-- value of a digit string, most significant digit first -/
def val62 (ds : List Char) (acc : Nat) : Nat :=
  ds.foldl (fun a c => a * 62 + (digitVal62 c).getD 0) acc

theorem digit62_facts : ∀ d, d < 62 →
    digitVal62 (digit62 d) = some d ∧ isSpace (digit62 d) = false ∧ digit62 d ≠ '|' ∧
    digit62 d ≠ '^' ∧ digit62 d ≠ '-' ∧ digit62 d ≠ Char.ofNat 0 := by decide

theorem IsD62.val {c : Char} (h : IsD62 c) : ∃ d, d < 62 ∧ digitVal62 c = some d := by
  obtain ⟨d, hd, rfl⟩ := h; exact ⟨d, hd, (digit62_facts d hd).1⟩
theorem IsD62.not_space {c : Char} (h : IsD62 c) : isSpace c = false := by
  obtain ⟨d, hd, rfl⟩ := h; exact (digit62_facts d hd).2.1
theorem IsD62.ne_bar {c : Char} (h : IsD62 c) : c ≠ '|' := by
  obtain ⟨d, hd, rfl⟩ := h; exact (digit62_facts d hd).2.2.1
theorem IsD62.ne_hat {c : Char} (h : IsD62 c) : c ≠ '^' := by
  obtain ⟨d, hd, rfl⟩ := h; exact (digit62_facts d hd).2.2.2.1
theorem IsD62.ne_minus {c : Char} (h : IsD62 c) : c ≠ '-' := by
  obtain ⟨d, hd, rfl⟩ := h; exact (digit62_facts d hd).2.2.2.2.1
theorem IsD62.ne_nul {c : Char} (h : IsD62 c) : c ≠ Char.ofNat 0 := by
  obtain ⟨d, hd, rfl⟩ := h; exact (digit62_facts d hd).2.2.2.2.2

theorem val62_append (l : List Char) (c : Char) (acc : Nat) :
    val62 (l ++ [c]) acc = val62 l acc * 62 + (digitVal62 c).getD 0 := by
  simp [val62, List.foldl_append]

theorem digitsGo_spec : ∀ (f n : Nat) (acc : List Char), n < f →
    ∃ ds, digitsGo f n acc = ds ++ acc ∧ (∀ c ∈ ds, IsD62 c) ∧ val62 ds 0 = n ∧ ds ≠ [] := by
  intro f
  induction f with
  | zero => intro n acc h; omega
  | succ f ih =>
    intro n acc h
    by_cases h62 : n < 62
    · refine ⟨[digit62 n], by simp [digitsGo, h62], ?_, ?_, by simp⟩
      · intro c hc
        simp only [List.mem_singleton] at hc
        exact ⟨n, h62, hc⟩
      · simp [val62, (digit62_facts n h62).1]
    · obtain ⟨ds, h1, h2, h3, h4⟩ := ih (n / 62) (digit62 (n % 62) :: acc) (by omega)
      have hm : n % 62 < 62 := Nat.mod_lt _ (by norm_num)
      refine ⟨ds ++ [digit62 (n % 62)], by simp [digitsGo, h62, h1], ?_, ?_, by simp⟩
      · intro c hc
        rcases List.mem_append.mp hc with hc | hc
        · exact h2 c hc
        · simp only [List.mem_singleton] at hc
          exact ⟨_, hm, hc⟩
      · rw [val62_append, h3, (digit62_facts _ hm).1]; simp; omega

/-- shape of the base-62 text of an integer -/
theorem str62_toList (z : Int) :
    ∃ ds, (str62 z).toList = (if z < 0 then '-' :: ds else ds) ∧ (∀ c ∈ ds, IsD62 c) ∧
      val62 ds 0 = z.natAbs ∧ ds ≠ [] := by
  obtain ⟨ds, h1, h2, h3, h4⟩ := digitsGo_spec (z.natAbs + 1) z.natAbs [] (by omega)
  rw [List.append_nil] at h1
  refine ⟨ds, ?_, h2, h3, h4⟩
  unfold str62
  simp only [h1]
  split
  · simp
  · exact String.toList_ofList

theorem parse62_go_digits : ∀ (ds : List Char) (acc : Nat), (∀ c ∈ ds, IsD62 c) →
    parse62.go ds acc = some (val62 ds acc) := by
  intro ds
  induction ds with
  | nil => intro acc _; simp [parse62.go, val62]
  | cons c rest ih =>
    intro acc h
    have hc := h c (by simp)
    obtain ⟨d, _, hd⟩ := hc.val
    rw [parse62.go]
    simp only [hc.not_space, hd, Bool.false_eq_true, if_false]
    rw [ih _ (fun x hx => h x (by simp [hx]))]
    simp [val62, hd]

theorem takeWhile_nul {ds : List Char} (h : ∀ c ∈ ds, c ≠ Char.ofNat 0) :
    ds.takeWhile (· ≠ Char.ofNat 0) = ds := by
  induction ds with
  | nil => rfl
  | cons c rest ih =>
    rw [List.takeWhile_cons_of_pos (by simpa using h c (by simp)), ih (fun x hx => h x (by simp [hx]))]

theorem parse62_digits (ds : List Char) (hne : ds ≠ []) (h : ∀ c ∈ ds, IsD62 c) :
    parse62 (String.ofList ds) = some (val62 ds 0 : Int) := by
  obtain ⟨c, rest, rfl⟩ := List.exists_cons_of_ne_nil hne
  have hc := h c (by simp)
  obtain ⟨d, _, hd⟩ := hc.val
  unfold parse62
  simp only [String.toList_ofList]
  rw [takeWhile_nul (fun x hx => (h x hx).ne_nul)]
  rw [List.dropWhile_cons_of_neg (by simp [hc.not_space])]
  have hm := hc.ne_minus
  simp [hd, parse62_go_digits _ _ h, hm]

theorem parse62_neg_digits (ds : List Char) (hne : ds ≠ []) (h : ∀ c ∈ ds, IsD62 c) :
    parse62 (String.ofList ('-' :: ds)) = some (-(val62 ds 0 : Int)) := by
  obtain ⟨c, rest, rfl⟩ := List.exists_cons_of_ne_nil hne
  have hc := h c (by simp)
  obtain ⟨d, _, hd⟩ := hc.val
  unfold parse62
  simp only [String.toList_ofList]
  rw [takeWhile_nul (by
    intro x hx
    rcases List.mem_cons.mp hx with rfl | hx
    · decide
    · exact (h x hx).ne_nul)]
  rw [List.dropWhile_cons_of_neg (by decide)]
  simp only [hd, parse62_go_digits _ _ h]
  rfl

/-- integers survive the textual transport encoding unchanged: zero, negative, any length -/
theorem parse62_str62 (z : Int) : parse62 (str62 z) = some z := by
  obtain ⟨ds, h1, h2, h3, h4⟩ := str62_toList z
  have hs : str62 z = String.ofList (str62 z).toList := by simp
  rw [hs, h1]
  split
  · rw [parse62_neg_digits ds h4 h2, h3]; congr 1; omega
  · rw [parse62_digits ds h4 h2, h3]; congr 1; omega



/-! ### decimal -/

/-- `c` is one of the decimal digit characters -/
def IsDec (c : Char) : Prop := ∃ d, d < 10 ∧ c = Nat.digitChar d

def valDec (ds : List Char) (acc : Nat) : Nat :=
  ds.foldl (fun acc c => acc * 10 + (c.toNat - 48)) acc

theorem digitChar_facts : ∀ d, d < 10 →
    (Nat.digitChar d).toNat - 48 = d ∧ (Nat.digitChar d).isDigit = true ∧
    isSpace (Nat.digitChar d) = false ∧ Nat.digitChar d ≠ '|' ∧
    Nat.digitChar d ≠ '^' ∧ Nat.digitChar d ≠ '-' ∧ Nat.digitChar d ≠ '+' ∧
    Nat.digitChar d ≠ Char.ofNat 0 := by decide

theorem toDigits10_spec (n : Nat) :
    (∀ c ∈ Nat.toDigits 10 n, IsDec c) ∧ valDec (Nat.toDigits 10 n) 0 = n ∧ Nat.toDigits 10 n ≠ [] := by
  induction n using Nat.strong_induction_on with
  | _ n ih =>
    by_cases h10 : n < 10
    · rw [Nat.toDigits_of_lt_base h10]
      refine ⟨?_, ?_, by simp⟩
      · intro c hc
        simp only [List.mem_singleton] at hc
        exact ⟨n, h10, hc⟩
      · simp [valDec, (digitChar_facts n h10).1]
    · have hm : n % 10 < 10 := Nat.mod_lt _ (by norm_num)
      have hn : n = 10 * (n / 10) + n % 10 := by omega
      obtain ⟨h1, h2, h3⟩ := ih (n / 10) (by omega)
      have e : Nat.toDigits 10 n = Nat.toDigits 10 (n / 10) ++ [Nat.digitChar (n % 10)] := by
        conv_lhs => rw [hn]
        rw [← Nat.toDigits_append_toDigits (by norm_num) (by omega) hm, Nat.toDigits_of_lt_base hm]
      rw [e]
      refine ⟨?_, ?_, by simp⟩
      · intro c hc
        rcases List.mem_append.mp hc with hc | hc
        · exact h1 c hc
        · simp only [List.mem_singleton] at hc
          exact ⟨_, hm, hc⟩
      · unfold valDec at h2 ⊢
        rw [List.foldl_append, h2]
        simp [(digitChar_facts _ hm).1]; omega

theorem toString_toList (n : Nat) : (toString n).toList = Nat.toDigits 10 n := by
  show (Nat.repr n).toList = _
  simp [Nat.repr]

/-- `strtoul` on a decimal text: exact below `2^64`, saturating above -/
theorem strtoulFull_toString_sat (n : Nat) :
    strtoulFull (toString n).toList = some (if n ≥ W64 then W64 - 1 else n) := by
  rw [toString_toList]
  obtain ⟨h1, h2, h3⟩ := toDigits10_spec n
  generalize Nat.toDigits 10 n = ds at h1 h2 h3
  obtain ⟨c, rest, rfl⟩ := List.exists_cons_of_ne_nil h3
  obtain ⟨d, hd, hcd⟩ := h1 c (by simp)
  have hf := digitChar_facts d hd
  rw [← hcd] at hf
  obtain ⟨-, f2, f3, -, -, f6, f7, f8⟩ := hf
  have htw := takeWhile_nul (ds := c :: rest) (fun x hx => by
    obtain ⟨d, hd, rfl⟩ := h1 x hx
    exact (digitChar_facts d hd).2.2.2.2.2.2.2)
  have hdw : List.dropWhile isSpace (c :: rest) = c :: rest :=
    List.dropWhile_cons_of_neg (by simp [f3])
  have hall : (c :: rest).all Char.isDigit = true := by
    rw [List.all_eq_true]
    intro x hx
    obtain ⟨d, hd, rfl⟩ := h1 x hx
    exact (digitChar_facts d hd).2.1
  unfold valDec at h2
  unfold strtoulFull
  simp only [htw, hdw]
  simp [f6, f7, hall, h2]
  split <;> rfl

/-- the decimal text of a size / index field is read back by `strtoul` (values below `2^64`) -/
theorem strtoulFull_toString (n : Nat) (h : n < 2 ^ 64) : strtoulFull (toString n).toList = some n := by
  rw [strtoulFull_toString_sat, if_neg (by unfold W64; omega)]

/-! ### parse helpers -/

theorem findChar_split (xs rest : List Char) (p : Char) (h : p ∉ xs) :
    findChar (xs ++ p :: rest) p = some xs.length := by
  unfold findChar
  have : (xs ++ p :: rest).idxOf p = xs.length := by
    rw [List.idxOf_append_of_notMem h]; simp
  simp [this]

theorem gs_split (xs rest : List Char) (p : Char) (h : p ∉ xs) :
    gs (xs ++ p :: rest) p = some xs := by
  simp [gs, findChar_split xs rest p h]

theorem nx_split (xs rest : List Char) (p : Char) (h : p ∉ xs) :
    nx (xs ++ p :: rest) p = some rest := by
  simp [nx, findChar_split xs rest p h]

theorem cm_split (magic : String) (rest : List Char) (p : Char) (h : p ∉ magic.toList) :
    cm (magic.toList ++ p :: rest) magic p = some rest := by
  simp [cm, findChar_split magic.toList rest p h]

theorem bar_notMem_str62 (z : Int) : '|' ∉ (str62 z).toList := by
  obtain ⟨ds, h1, h2, -, -⟩ := str62_toList z
  rw [h1]
  intro hmem
  split at hmem
  · rcases List.mem_cons.mp hmem with h | h
    · exact absurd h (by decide)
    · exact (h2 _ h).ne_bar rfl
  · exact (h2 _ hmem).ne_bar rfl

theorem hat_notMem_str62 (z : Int) : '^' ∉ (str62 z).toList := by
  obtain ⟨ds, h1, h2, -, -⟩ := str62_toList z
  rw [h1]
  intro hmem
  split at hmem
  · rcases List.mem_cons.mp hmem with h | h
    · exact absurd h (by decide)
    · exact (h2 _ h).ne_hat rfl
  · exact (h2 _ hmem).ne_hat rfl

theorem cardText_toList (c : Vtmf.Card) : (cardText c).toList =
    "crd".toList ++ '|' :: ((str62 c.c1).toList ++ '|' :: ((str62 c.c2).toList ++ '|' :: [])) := by
  simp [cardText, String.toList_append]

theorem secretText_toList (r : Int) : (secretText r).toList =
    "crs".toList ++ '|' :: ((str62 r).toList ++ '|' :: []) := by
  simp [secretText, String.toList_append]

theorem importCard_cardText (c : Vtmf.Card) : importCard (cardText c).toList = some c := by
  rw [cardText_toList]
  unfold importCard
  rw [cm_split "crd" _ '|' (by decide)]
  simp only [Option.bind_eq_bind, Option.bind_some, gs_split _ _ _ (bar_notMem_str62 _),
    nx_split _ _ _ (bar_notMem_str62 _), String.ofList_toList, parse62_str62]

theorem importSecret_secretText (r : Int) : importSecret (secretText r).toList = some r := by
  rw [secretText_toList]
  unfold importSecret
  rw [cm_split "crs" _ '|' (by decide)]
  simp only [Option.bind_eq_bind, Option.bind_some, gs_split _ _ _ (bar_notMem_str62 _),
    nx_split _ _ _ (bar_notMem_str62 _), String.ofList_toList, parse62_str62]

theorem hat_notMem_cardText (c : Vtmf.Card) : '^' ∉ (cardText c).toList := by
  rw [cardText_toList]
  have h1 := hat_notMem_str62 c.c1
  have h2 := hat_notMem_str62 c.c2
  simp [h1, h2]

theorem hat_notMem_secretText (r : Int) : '^' ∉ (secretText r).toList := by
  rw [secretText_toList]
  have h1 := hat_notMem_str62 r
  simp [h1]


/-! ### stacks -/

theorem hat_notMem_toString (n : Nat) : '^' ∉ (toString n).toList := by
  rw [toString_toList]
  intro hmem
  obtain ⟨d, hd, hc⟩ := (toDigits10_spec n).1 _ hmem
  exact (digitChar_facts d hd).2.2.2.2.1 hc.symm

/-- the card part of a stack text -/
def cardsChars : List Vtmf.Card → List Char
  | [] => []
  | c :: cs => (cardText c).toList ++ '^' :: cardsChars cs

theorem stackText_toList (s : List Vtmf.Card) : (stackText s).toList =
    "stk".toList ++ '^' :: ((toString s.length).toList ++ '^' :: cardsChars s) := by
  have : ∀ l : List Vtmf.Card,
      List.flatMap String.toList (l.map fun c => cardText c ++ "^") = cardsChars l := by
    intro l
    induction l with
    | nil => rfl
    | cons c cs ih => simp [cardsChars, ih, String.toList_append]
  simp [stackText, String.toList_append, String.toList_join, this]

theorem importStack_go_cards : ∀ (cs : List Vtmf.Card) (k : Nat) (acc : List Vtmf.Card),
    cs.length = k → importStack.go k (cardsChars cs) acc = some (acc.reverse ++ cs) := by
  intro cs
  induction cs with
  | nil => intro k acc h; subst h; simp [importStack.go]
  | cons c cs ih =>
    intro k acc h
    subst h
    simp only [List.length_cons, importStack.go, cardsChars, Option.bind_eq_bind,
      gs_split _ _ _ (hat_notMem_cardText c), nx_split _ _ _ (hat_notMem_cardText c),
      Option.bind_some, importCard_cardText]
    rw [ih _ _ rfl]
    simp

/-- a stack of admissible size round-trips into a fresh stack … -/
theorem importStack_stackText (s : List Vtmf.Card) (h0 : 0 < s.length)
    (hmax : s.length ≤ Gen.TMCG_MAX_CARDS) : importStack (stackText s) = some s := by
  have hW : s.length < 2 ^ 64 := by
    have : Gen.TMCG_MAX_CARDS = 512 := rfl
    omega
  unfold importStack
  rw [stackText_toList, cm_split "stk" _ '^' (by decide)]
  simp only [Option.bind_eq_bind, Option.bind_some, gs_split _ _ _ (hat_notMem_toString _),
    nx_split _ _ _ (hat_notMem_toString _), strtoulFull_toString _ hW]
  have hg : ¬ (s.length = 0 ∨ s.length > Gen.TMCG_MAX_CARDS) := by omega
  rw [if_neg hg, importStack_go_cards s _ [] rfl]
  simp

/-- … and an exported stack of inadmissible size (empty, or beyond `TMCG_MAX_CARDS`) is refused -/
theorem importStack_refuses_size (s : List Vtmf.Card) (h : s.length = 0 ∨ Gen.TMCG_MAX_CARDS < s.length) :
    importStack (stackText s) = none := by
  unfold importStack
  rw [stackText_toList, cm_split "stk" _ '^' (by decide)]
  simp only [Option.bind_eq_bind, Option.bind_some, gs_split _ _ _ (hat_notMem_toString _),
    nx_split _ _ _ (hat_notMem_toString _)]
  rw [strtoulFull_toString_sat]
  have hM : Gen.TMCG_MAX_CARDS = 512 := rfl
  have hW : W64 = 18446744073709551616 := by norm_num [W64]
  simp only [Option.bind_some]
  rw [if_pos (by split <;> omega)]
  rfl


/-! ### stack secrets -/

/-- the entry part of a stack-secret text -/
def secChars : List (Nat × Int) → List Char
  | [] => []
  | e :: es => (toString e.1).toList ++ '^' :: ((secretText e.2).toList ++ '^' :: secChars es)

theorem stackSecretText_toList (ss : Stack.StackSecret Int) : (stackSecretText ss).toList =
    "sts".toList ++ '^' :: ((toString ss.length).toList ++ '^' :: secChars ss) := by
  have : ∀ l : List (Nat × Int),
      List.flatMap String.toList (l.map fun e => toString e.1 ++ "^" ++ secretText e.2 ++ "^")
        = secChars l := by
    intro l
    induction l with
    | nil => rfl
    | cons c cs ih =>
      simp only [List.map_cons, List.flatMap_cons, String.toList_append, ih, secChars]
      simp
  simp only [stackSecretText, String.toList_append, String.toList_join, this]
  simp

theorem importStackSecret_go_entries (n : Nat) (hn : n < 2 ^ 64) :
    ∀ (es : List (Nat × Int)) (k : Nat) (acc : List (Nat × Int)),
    es.length = k → (∀ e ∈ es, e.1 < n) →
    importStackSecret.go n k (secChars es) acc = some (acc.reverse ++ es) := by
  intro es
  induction es with
  | nil => intro k acc h _; subst h; simp [importStackSecret.go]
  | cons e es ih =>
    intro k acc h hlt
    subst h
    have he : e.1 < n := hlt e (by simp)
    have hg : ¬ (e.1 ≥ n) := by omega
    simp only [List.length_cons, importStackSecret.go, secChars, Option.bind_eq_bind,
      gs_split _ _ _ (hat_notMem_toString _), nx_split _ _ _ (hat_notMem_toString _),
      gs_split _ _ _ (hat_notMem_secretText _), nx_split _ _ _ (hat_notMem_secretText _),
      Option.bind_some, importSecret_secretText, strtoulFull_toString _ (lt_trans he hn)]
    rw [if_neg hg, ih _ _ rfl (fun x hx => hlt x (by simp [hx]))]
    simp

/-- a stack secret whose index component is a bijection round-trips -/
theorem importStackSecret_text (ss : Stack.StackSecret Int) (h0 : 0 < ss.length)
    (hmax : ss.length ≤ Gen.TMCG_MAX_CARDS)
    (hperm : (ss.map Prod.fst).Perm (List.range ss.length)) :
    importStackSecret (stackSecretText ss) = some ss := by
  have hW : ss.length < 2 ^ 64 := by
    have : Gen.TMCG_MAX_CARDS = 512 := rfl
    omega
  have hlt : ∀ e ∈ ss, e.1 < ss.length := by
    intro e he
    exact List.mem_range.1 (hperm.mem_iff.1 (List.mem_map_of_mem he))
  have hall : (List.range ss.length).all (fun i => (ss.map Prod.fst).contains i) = true := by
    rw [List.all_eq_true]
    intro i hi
    rw [List.contains_iff_mem]
    exact hperm.mem_iff.2 hi
  unfold importStackSecret
  rw [stackSecretText_toList, cm_split "sts" _ '^' (by decide)]
  simp only [Option.bind_eq_bind, Option.bind_some, gs_split _ _ _ (hat_notMem_toString _),
    nx_split _ _ _ (hat_notMem_toString _), strtoulFull_toString _ hW]
  have hg : ¬ (ss.length = 0 ∨ ss.length > Gen.TMCG_MAX_CARDS) := by omega
  rw [if_neg hg, importStackSecret_go_entries _ hW ss _ [] rfl hlt]
  simp only [List.reverse_nil, List.nil_append, Option.bind_some, hall, if_true]


theorem importStackSecret_go_length (n : Nat) :
    ∀ (k : Nat) (cs : List Char) (acc r : List (Nat × Int)),
    importStackSecret.go n k cs acc = some r → r.length = acc.length + k := by
  intro k
  induction k with
  | zero =>
    intro cs acc r h
    simp only [importStackSecret.go, Option.some.injEq] at h
    subst h; simp
  | succ k ih =>
    intro cs acc r h
    simp only [importStackSecret.go, Option.bind_eq_bind, Option.bind_eq_some_iff] at h
    obtain ⟨it, -, idx, -, h⟩ := h
    by_cases hg : idx ≥ n
    · rw [if_pos hg] at h; simp at h
    · rw [if_neg hg] at h
      simp only [Option.bind_eq_some_iff] at h
      obtain ⟨cs1, -, st, -, sec, -, cs2, -, h⟩ := h
      have := ih _ _ _ h
      simp only [List.length_cons] at this
      omega

/-- a list of length `n` containing every `j < n` is a permutation of `range n` -/
theorem perm_range_of_surj' (idx : List Nat) (hs : ∀ j, j < idx.length → j ∈ idx) :
    idx.Perm (List.range idx.length) := by
  have hsub : List.range idx.length ⊆ idx := fun j hj => hs j (List.mem_range.1 hj)
  have hsp : List.Subperm (List.range idx.length) idx :=
    List.subperm_of_subset List.nodup_range hsub
  exact (hsp.perm_of_length_le (by simp)).symm

/-- whatever text is imported, the result's index component is a bijection (C02: a received
    stack secret that is not a bijection is refused on import) -/
theorem importStackSecret_bijection (txt : String) (ss : Stack.StackSecret Int)
    (h : importStackSecret txt = some ss) :
    0 < ss.length ∧ ss.length ≤ Gen.TMCG_MAX_CARDS ∧ (ss.map Prod.fst).Perm (List.range ss.length) := by
  unfold importStackSecret at h
  simp only [Option.bind_eq_bind, Option.bind_eq_some_iff] at h
  obtain ⟨cs, -, sz, -, n, -, h⟩ := h
  by_cases hg : n = 0 ∨ n > Gen.TMCG_MAX_CARDS
  · rw [if_pos hg] at h; simp at h
  · rw [if_neg hg] at h
    simp only [Option.bind_eq_some_iff] at h
    obtain ⟨cs1, -, r, hgo, h⟩ := h
    split at h
    · rename_i hall
      simp only [Option.some.injEq] at h
      subst h
      have hlen := importStackSecret_go_length n _ _ _ _ hgo
      simp only [List.length_nil, Nat.zero_add] at hlen
      refine ⟨by omega, by omega, ?_⟩
      have := perm_range_of_surj' (r.map Prod.fst) (by
        intro j hj
        rw [List.length_map, hlen] at hj
        rw [List.all_eq_true] at hall
        have := hall j (List.mem_range.2 hj)
        exact List.contains_iff_mem.1 this)
      rwa [List.length_map] at this
    · simp at h

end Tmcg.Codec

