import TmcgProofs.CgjkrAgreeB
/-
  C15 for `CanettiGennaroJareckiKrawczykRabinDKG::Generate` (model: Tmcg/Model/Cgjkr.lean), global layer:
  all honest parties compute the same qualified set of the joint sharing of the key (`x_rvss->QUAL`, the
  set over which the share `x_i` is summed and over which `DSS::Sign` multiplies the commitments), for ALL
  deviation scripts of the other parties, and no honest party is disqualified.

  The statement is the analogue of `qual_agree'` / `honest_in_qual'` (TmcgProofs/DkgAgree.lean) for the
  first four rounds of `runGenC` (rounds 0-3 = `x_rvss->Share`; later rounds never change `xr.qual`).
  As there, `n < 2^64` is needed (`mpz_get_ui` truncates the end marker `n` of a complaint list).

  Structure (the adaptation of sections (8)-(12) of DkgAgree.lean; the readers and the step
  specifications are in CgjkrAgreeA.lean, the link between `genStepC` and the `rv*` steps in
  CgjkrAgreeB.lean):
    (9)  the run: initial parties, `HS` (what an honest party's state keeps through rounds 0-3), `AgC`
    (9') round 0 (`S1C`, `InvC1`)
    (10) round 1 (`S2C`, `CrossC2`, `InvC2`)
    (11) round 2 (`S3C`, `InvC3`)
    (12) round 3 (`InvC4`) and the theorems
-/
namespace Tmcg.CgjkrP
open Tmcg Tmcg.Powm Tmcg.Dkg Tmcg.Grp Tmcg.DkgL Tmcg.DkgP Tmcg.Cgjkr

variable {G : Dkg.Grp} [Fact (Nat.Prime G.p.natAbs)]

set_option linter.unusedSectionVars false
set_option linter.unusedVariables false

/-- coins of an honest party in `Generate`: the coefficients of `x_rvss` (`2(t+1)`), `r_i`, `r'_i`, the
    coefficients of `d_rvss` (`2(t+1)`), all below `q` (as `tmcg_mpz_srandomm` returns them) -/
def goodCoinsC (G : Dkg.Grp) (t : Nat) (pin : PartyIn) : Prop :=
  4 * (t + 1) + 2 ≤ pin.strong.length ∧ ∀ c ∈ pin.strong, 0 ≤ c ∧ c < G.q

/-! ### (9) the run -/

theorem xa_goodCoins (t : Nat) (pin : PartyIn) (h : goodCoinsC G t pin) : goodCoins G t pin :=
  ⟨by have := h.1; omega, h.2⟩

theorem xa_coin_range (hq : 0 < G.q) (t : Nat) (pin : PartyIn) (h : goodCoinsC G t pin) (k : Nat) :
    (getI pin.strong k).natAbs < G.q.natAbs := by
  rcases xa_getI_mem_or pin.strong k with hm | h0
  · exact natAbs_lt_of_range (h.2 _ hm)
  · rw [h0]; omega

/-- the parties before round 0 -/
def ps0C (n t : Nat) (ins : List PartyIn) : List (Party GSt) :=
  (List.range n).zip ins |>.map (fun (i, pin) =>
    { dev := pin.dev1, piCnt := List.replicate n 0, inbox := Inbox.empty n,
      st := { n := n, t := t, i := i, sfb := pin.dev1.sfb } })

theorem xa_runGenC_eq (n t : Nat) (ins : List PartyIn) :
    runGenC G n t ins = runRounds (genStepC G ins) (List.range (genRounds t)) (ps0C n t ins) := rfl

theorem xa_ps0C_length (n t : Nat) (ins : List PartyIn) (hn : ins.length = n) : (ps0C n t ins).length = n := by
  simp [ps0C, hn]

theorem xa_ps0C_getElem? (n t : Nat) (ins : List PartyIn) (hn : ins.length = n) (i : Nat) (hi : i < n) :
    (ps0C n t ins)[i]? = some { dev := (pinOf ins i).dev1, piCnt := List.replicate n 0, inbox := Inbox.empty n, st := { n := n, t := t, i := i, sfb := (pinOf ins i).dev1.sfb } } := by
  have h := ag_zipRange_getElem? ins 0 i
  rw [← List.range_eq_range', hn] at h
  unfold ps0C
  rw [List.getElem?_map, h]
  have hi' : i < ins.length := by omega
  simp [pinOf, List.getElem?_eq_getElem hi']

/-- the hypotheses of the agreement theorems -/
structure SettingC (G : Grp) (n t : Nat) (ins : List PartyIn) : Prop where
  hG : ValidGrp G
  hn : ins.length = n
  hc : ∀ i ∈ honestIdx ins, goodCoinsC G t (pinOf ins i)

/-- what the state of a party that follows the protocol keeps through rounds 0-3 -/
structure HS (G : Grp) (n t : Nat) (ins : List PartyIn) (i : Nat) (st : GSt) : Prop where
  hn : st.n = n
  ht : st.t = t
  hi : st.i = i
  sfb : st.sfb = false
  strong : st.strong = (pinOf ins i).strong
  z : st.xr.z.natAbs < G.q.natAbs
  zp : st.xr.zp.natAbs < G.q.natAbs

/-- agreement of two honest parties on the unread values of every third sender -/
def AgC (n : Nat) (ins : List PartyIn) (R : List (Party GSt)) : Prop :=
  ∀ i i' P P', i ∈ honestIdx ins → i' ∈ honestIdx ins → R[i]? = some P → R[i']? = some P' →
    ∀ k, k < n → k ≠ i → k ≠ i' → bsOf P.inbox k = bsOf P'.inbox k

/-- after round 0 -/
structure S1C (G : Grp) (n t : Nat) (ins : List PartyIn) (i : Nat) (P : Party GSt) : Prop where
  hl : HL P
  hs : HS G n t ins i P.st
  dealt : DealtC G n t i (pinOf ins i) P.st.xr
  blen : P.inbox.b.length = n
  plen : P.inbox.p.length = n
  fromH : ∀ j, j ∈ honestIdx ins → j ≠ i →
    bsOf P.inbox j = (comOf G t (pinOf ins j)).map (fun v => (tagX n, v)) ∧
    psOf P.inbox j = [shA G t (pinOf ins j) i, shB G t (pinOf ins j) i]

def InvC1 (G : Grp) (n t : Nat) (ins : List PartyIn) (R : List (Party GSt)) : Prop :=
  R.length = n ∧ (∀ i, i ∈ honestIdx ins → ∃ P, R[i]? = some P ∧ S1C G n t ins i P) ∧ AgC n ins R

theorem xa_bcs_map_bc (tag : Tag) (l : List Int) : bcs (l.map (Op.bc tag)) = l.map (fun v => (tag, v)) := by
  induction l with
  | nil => rfl
  | cons x l ih => simp [bcs, ih]

theorem xa_round0 {n t : Nat} {ins : List PartyIn} (S : SettingC G n t ins) :
    InvC1 G n t ins (runRound (genStepC G ins 0) (ps0C n t ins)) := by
  have hstep : ∀ i, i ∈ honestIdx ins → ∃ (P : Party GSt) (st : GSt),
      (ps0C n t ins)[i]? = some P ∧ HL P ∧ P.inbox = Inbox.empty n ∧ HS G n t ins i st ∧
      DealtC G n t i (pinOf ins i) st.xr ∧
      genStepC G ins 0 i P.st P.inbox = .ok (st, Inbox.empty n,
        (comOf G t (pinOf ins i)).map (Op.bc (tagX n)) ++ ((List.range n).filter (· ≠ i)).flatMap
          (fun j => [Op.pv j (getI st.xr.srow j), Op.pv j (getI st.xr.sprow j)]), .run) := by
    intro i hi
    obtain ⟨hi1, hi2⟩ := (ag_mem_honestIdx ins i).mp hi
    rw [S.hn] at hi1
    have hsfb := (ag_honest_unpack _ hi2).1
    obtain ⟨rv, hrv, hd⟩ := xa_rvDeal_honest (envOf G n t i) S.hG (fun j hj => xa_envOf_pt n t i j hj) (tagX n)
      (wbit (pinOf ins i).weak 10) (pinOf ins i) (xa_goodCoins t _ (S.hc i hi)) hi1
    obtain ⟨st, hst, e1, e2, e3, e4, e5, e6⟩ := xa_step0 (G := G) ins i
      { n := n, t := t, i := i, sfb := (pinOf ins i).dev1.sfb } (Inbox.empty n) rv _
      (by rw [hsfb]; exact hrv)
    refine ⟨_, st, xa_ps0C_getElem? n t ins S.hn i hi1, ⟨hi2, rfl, rfl, rfl⟩, rfl,
      ⟨e2, e3, e4, e5.trans hsfb, e6, by rw [e1]; exact hd.z, by rw [e1]; exact hd.zp⟩, by rw [e1]; exact hd, ?_⟩
    rw [e1]
    exact hst
  refine ⟨by rw [ag_runRound_length, xa_ps0C_length n t ins S.hn], ?_, ?_⟩
  · intro i hi
    obtain ⟨P, st, hP, hl, hI, hs, hd, hs0⟩ := hstep i hi
    obtain ⟨-, P', hP', e1, e2, e3, e4, e5, e6, e7, e8, e9⟩ :=
      ag_honest_round (genStepC G ins 0) (ps0C n t ins) i P hP hl _ _ _ _ hs0
    have hbl : (Inbox.empty n).b.length = n := by simp [Inbox.empty]
    have hpl : (Inbox.empty n).p.length = n := by simp [Inbox.empty]
    refine ⟨P', hP', ⟨⟨by rw [e4]; exact hl.1, e5, e3, e2⟩, by rw [e1]; exact hs, by rw [e1]; exact hd,
      e6.trans hbl, e7.trans hpl, ?_⟩⟩
    intro j hj hji
    obtain ⟨hj1, hj2⟩ := (ag_mem_honestIdx ins j).mp hj
    rw [S.hn] at hj1
    obtain ⟨hi1, -⟩ := (ag_mem_honestIdx ins i).mp hi
    rw [S.hn] at hi1
    obtain ⟨Pj, stj, hPj, hlj, hIj, hsj, hdj, hsj0⟩ := hstep j hj
    have hout := (ag_honest_round (genStepC G ins 0) (ps0C n t ins) j Pj hPj hlj _ _ _ _ hsj0).1
    constructor
    · rw [e8 j (by rw [hbl]; exact hj1), ag_bsOf_empty, hout]
      simp [hji, ag_bcs_append, xa_bcs_map_bc, ag_bcs_sends]
    · rw [e9 j (by rw [hpl]; exact hj1), ag_psOf_empty, hout]
      simp only [hji, if_false, List.nil_append, ag_pvs_append, ag_pvs_map_bc]
      rw [ag_pvs_sends _ (List.Nodup.filter _ List.nodup_range)]
      have : i ∈ (List.range n).filter (· ≠ j) := by
        simp [List.mem_filter, hi1, Ne.symm hji]
      rw [if_pos this, hdj.srow, hdj.sprow, ag_getI_map_range _ _ i hi1, ag_getI_map_range _ _ i hi1]
  · intro i i' P1 P1' hi hi' hP1 hP1' k hk hki hki'
    obtain ⟨P, st, hP, hl, hI, hs, hd, hs0⟩ := hstep i hi
    obtain ⟨-, P', hP', e1, e2, e3, e4, e5, e6, e7, e8, e9⟩ :=
      ag_honest_round (genStepC G ins 0) (ps0C n t ins) i P hP hl _ _ _ _ hs0
    obtain ⟨Q, stq, hQ, hlq, hIq, hsq, hdq, hsq0⟩ := hstep i' hi'
    obtain ⟨-, Q', hQ', f1, f2, f3, f4, f5, f6, f7, f8, f9⟩ :=
      ag_honest_round (genStepC G ins 0) (ps0C n t ins) i' Q hQ hlq _ _ _ _ hsq0
    rw [hP'] at hP1
    rw [hQ'] at hP1'
    injection hP1 with hP1
    injection hP1' with hP1'
    subst hP1 hP1'
    have hbl : (Inbox.empty n).b.length = n := by simp [Inbox.empty]
    rw [e8 k (by rw [hbl]; exact hk), f8 k (by rw [hbl]; exact hk)]
    simp [hki, hki']

/-! ### (10) round 1: the commitments, the shares, the complaints -/

theorem xa_bcs_map_nat (tag : Tag) (D : List Nat) (n : Nat) :
    bcs (D.map (fun (j : Nat) => Op.bc tag (j : Int)) ++ [Op.bc tag (n : Int)]) =
      D.map (fun (j : Nat) => (tag, (j : Int))) ++ [(tag, (n : Int))] := by
  induction D with
  | nil => rfl
  | cons x D ih => simp only [List.map_cons, List.cons_append, bcs, ih]

/-- step 1(b) of an honest party in the state reached after round 0 -/
theorem xa_verify_honest {n t : Nat} {ins : List PartyIn} (S : SettingC G n t ins) (i : Nat)
    (hi : i ∈ honestIdx ins) (P : Party GSt) (h1 : S1C G n t ins i P) :
    ∃ (st' : GSt) (I' : Inbox) (D : List Nat), genStepC G ins 1 i P.st P.inbox =
        .ok (st', I', D.map (fun (j : Nat) => Op.bc (tagX n) (j : Int)) ++ [Op.bc (tagX n) (n : Int)], .run) ∧
      HS G n t ins i st' ∧
      st'.xr.srow = (List.range n).map (shA G t (pinOf ins i)) ∧
      st'.xr.sprow = (List.range n).map (shB G t (pinOf ins i)) ∧
      D.Nodup ∧ (∀ x ∈ D, x < n) ∧
      st'.xr.cnt = (List.range n).map (fun j => if D.contains j then 1 else 0) ∧
      I'.b.length = n ∧
      (∀ k, k < n → k ≠ i →
        bsOf I' k = (reS G (tagX n) (t + 1) (bsOf P.inbox k) [] false).2.1 ∧
        getRow st'.xr.C k = padRow t (reS G (tagX n) (t + 1) (bsOf P.inbox k) [] false).2.2) ∧
      (∀ j, j ∈ honestIdx ins → getRow st'.xr.C j = comOf G t (pinOf ins j) ∧ j ∉ D) ∧
      (∀ j, j ∈ honestIdx ins → j ≠ i → bsOf I' j = []) ∧
      st'.xr.complainers = (List.range n).map (fun j => if D.contains j then [i] else []) ∧
      InR G.q st'.xr.s := by
  have hG := S.hG
  have : Fact (Nat.Prime G.q.natAbs) := fact_q hG
  have hq : 0 < G.q := hG.vg.q_pos
  obtain ⟨hi1, -⟩ := (ag_mem_honestIdx ins i).mp hi
  rw [S.hn] at hi1
  have hd := h1.dealt
  have hs := h1.hs
  have hshare : ∀ j, j ∈ honestIdx ins → ∃ a l, pedS G (shA G t (pinOf ins j) i) (shB G t (pinOf ins j) i) = .ok (a, l) ∧
      commitProd G.p (i + 1) (comOf G t (pinOf ins j)) = .ok l := by
    intro j hj
    have hcj := xa_goodCoins t _ (S.hc j hj)
    obtain ⟨ha, hb, hla, hlb⟩ := ag_coef_range (G := G) t (pinOf ins j) hcj
    obtain ⟨ga, l, r, e1, e2, e3⟩ := share_check hG _ _ (hla.trans hlb.symm) ha hb _
      (ag_comOf_spec hG t (pinOf ins j) hcj).1 (i + 1)
    exact ⟨ga, l, e1, by rw [e2, e3]⟩
  have hspec := xa_rvVerify_spec (envOf G n t i) hG (tagX n) P.st.xr P.inbox hd.zero h1.blen h1.plen
      (by rw [hd.C]; simp [zeroRows]) (by rw [hd.s]; simp [zeros]) (by rw [hd.sp]; simp [zeros])
      (by rw [hd.s]; exact ag_InR_zeros_set G.q hq n i _ (ag_sh_range hG t _ i).2.2.1)
      (by rw [hd.sp]; exact ag_InR_zeros_set G.q hq n i _ (ag_sh_range hG t _ i).2.2.2)
  dsimp only [envOf] at hspec
  rw [show Env.pt { G := G, n := n, t := t, i := i, pts := List.range n } i = i + 1 from xa_envOf_pt n t i i hi1]
    at hspec
  obtain ⟨rv', I', D, hv, v5, v6, vz, vzp, v7, v8, v9, v10, v11, v12, v13, v14, v15, v16, v17, v18⟩ := hspec
  have hstep := xa_step1 (G := G) ins i P.st P.inbox I' rv' _
    (by rw [xa_env_eq P.st n t i hs.hn hs.ht hs.hi, hs.hn]; exact hv)
  have hrow : ∀ j, j ∈ honestIdx ins → j ≠ i →
      reS G (tagX n) (t + 1) (bsOf P.inbox j) [] false = (false, [], comOf G t (pinOf ins j)) := by
    intro j hj hji
    obtain ⟨c1, c2, c3⟩ := ag_comOf_spec hG t (pinOf ins j) (xa_goodCoins t _ (S.hc j hj))
    rw [(h1.fromH j hj hji).1, ← c2]
    have := xa_reS_honest (envOf G n t i) (tagX n) (comOf G t (pinOf ins j)) c3 [] [] false
    simpa using this
  have hnotD : ∀ j, j ∈ honestIdx ins → j ∉ D := by
    intro j hj
    obtain ⟨hj1, -⟩ := (ag_mem_honestIdx ins j).mp hj
    rw [S.hn] at hj1
    obtain ⟨a, l, e1, e2⟩ := hshare j hj
    by_cases hji : j = i
    · subst hji
      refine v16 a l ?_ ?_
      · rw [hd.s, hd.sp, ag_getI_set, ag_getI_set]
        simpa [zeros, hj1] using e1
      · rw [hd.C, ag_getRow_set]
        simpa [zeroRows, hj1] using e2
    · have hr := hrow j hj hji
      refine v15 j _ _ a l hj1 hji (by rw [hr]) (h1.fromH j hj hji).2 (ag_sh_range hG t _ i).1
        (ag_sh_range hG t _ i).2.1 e1 ?_
      rw [hr, ag_padRow_full t _ (ag_comOf_spec hG t (pinOf ins j) (xa_goodCoins t _ (S.hc j hj))).2.1]
      exact e2
  refine ⟨{ P.st with xr := rv' }, I', D, hstep,
    ⟨hs.hn, hs.ht, hs.hi, hs.sfb, hs.strong, by rw [show ({ P.st with xr := rv' } : GSt).xr = rv' from rfl, vz]; exact hs.z,
      by rw [show ({ P.st with xr := rv' } : GSt).xr = rv' from rfl, vzp]; exact hs.zp⟩,
    by show rv'.srow = _; rw [v5, hd.srow], by show rv'.sprow = _; rw [v6, hd.sprow], v7, v8, v9, v10,
    v12, ?_, ?_, v17, v18⟩
  · intro j hj
    refine ⟨?_, hnotD j hj⟩
    obtain ⟨hj1, -⟩ := (ag_mem_honestIdx ins j).mp hj
    rw [S.hn] at hj1
    show getRow rv'.C j = _
    by_cases hji : j = i
    · subst hji
      rw [v14, hd.C, ag_getRow_set]
      simp [zeroRows, hj1]
    · rw [(v12 j hj1 hji).2, hrow j hj hji,
        ag_padRow_full t _ (ag_comOf_spec hG t (pinOf ins j) (xa_goodCoins t _ (S.hc j hj))).2.1]
  · intro j hj hji
    obtain ⟨hj1, -⟩ := (ag_mem_honestIdx ins j).mp hj
    rw [S.hn] at hj1
    rw [(v12 j hj1 hji).1, hrow j hj hji]

/-- after round 1 -/
structure S2C (G : Grp) (n t : Nat) (ins : List PartyIn) (i : Nat) (P : Party GSt) : Prop where
  hl : HL P
  hs : HS G n t ins i P.st
  srow : P.st.xr.srow = (List.range n).map (shA G t (pinOf ins i))
  sprow : P.st.xr.sprow = (List.range n).map (shB G t (pinOf ins i))
  blen : P.inbox.b.length = n
  clen : P.st.xr.cnt.length = n
  CH : ∀ j, j ∈ honestIdx ins → getRow P.st.xr.C j = comOf G t (pinOf ins j) ∧ getN P.st.xr.cnt j = 0
  cplen : P.st.xr.complainers.length = n
  cps : ∀ k, k < n → ∀ c, c ∈ P.st.xr.complainers.getD k [] ↔ c = i ∧ 0 < getN P.st.xr.cnt k
  sIn : InR G.q P.st.xr.s

/-- two honest parties after round 1: the commitments of third parties agree, and the complaint
    list `i` broadcast is read by `i'` as the complaints `i` counted for itself -/
def CrossC2 (n : Nat) (i : Nat) (P P' : Party GSt) : Prop :=
  rcBadT (tagX n) n (bsOf P'.inbox i) = false ∧ rcRestT (tagX n) n (bsOf P'.inbox i) = [] ∧
  ∀ w, w < n → (rcNewsT (tagX n) n (bsOf P'.inbox i)).count w = getN P.st.xr.cnt w

def InvC2 (G : Grp) (n t : Nat) (ins : List PartyIn) (R : List (Party GSt)) : Prop :=
  R.length = n ∧ (∀ i, i ∈ honestIdx ins → ∃ P, R[i]? = some P ∧ S2C G n t ins i P) ∧ AgC n ins R ∧
  (∀ i i' P P', i ∈ honestIdx ins → i' ∈ honestIdx ins → R[i]? = some P → R[i']? = some P' → i ≠ i' →
    (∀ k, k < n → k ≠ i → k ≠ i' → getRow P.st.xr.C k = getRow P'.st.xr.C k) ∧ CrossC2 n i P P')

/-- round 1 for one honest party: its step and the party after the round -/
theorem xa_round1_party {n t : Nat} {ins : List PartyIn} (S : SettingC G n t ins) (R : List (Party GSt))
    (h : InvC1 G n t ins R) (i : Nat) (hi : i ∈ honestIdx ins) :
    ∃ (P : Party GSt) (st' : GSt) (I' : Inbox) (D : List Nat) (P' : Party GSt),
    R[i]? = some P ∧ S1C G n t ins i P ∧
    (runRound (genStepC G ins 1) R)[i]? = some P' ∧
    outOf (genStepC G ins 1) R i =
      (D.map (fun (j : Nat) => (tagX n, (j : Int))) ++ [(tagX n, (n : Int))], []) ∧
    P'.st = st' ∧ HL P' ∧ P'.inbox.b.length = n ∧
    (∀ k, k < n → bsOf P'.inbox k = bsOf I' k ++
      (if k = i then [] else (outOf (genStepC G ins 1) R k).1)) ∧
    HS G n t ins i st' ∧
    st'.xr.srow = (List.range n).map (shA G t (pinOf ins i)) ∧
    st'.xr.sprow = (List.range n).map (shB G t (pinOf ins i)) ∧
    D.Nodup ∧ (∀ x ∈ D, x < n) ∧
    st'.xr.cnt = (List.range n).map (fun j => if D.contains j then 1 else 0) ∧
    (∀ k, k < n → k ≠ i →
      bsOf I' k = (reS G (tagX n) (t + 1) (bsOf P.inbox k) [] false).2.1 ∧
      getRow st'.xr.C k = padRow t (reS G (tagX n) (t + 1) (bsOf P.inbox k) [] false).2.2) ∧
    (∀ j, j ∈ honestIdx ins → getRow st'.xr.C j = comOf G t (pinOf ins j) ∧ j ∉ D) ∧
    (∀ j, j ∈ honestIdx ins → j ≠ i → bsOf I' j = []) ∧
    st'.xr.complainers = (List.range n).map (fun j => if D.contains j then [i] else []) ∧
    InR G.q st'.xr.s := by
  obtain ⟨hlen, hS, hAg⟩ := h
  obtain ⟨P, hP, h1⟩ := hS i hi
  obtain ⟨st', I', D, hv, vs, v4, v5, v6, v7, v8, v9, v11, v12, v13, v14, v15⟩ := xa_verify_honest S i hi P h1
  obtain ⟨hout, P', hP', e1, e2, e3, e4, e5, e6, e7, e8, e9⟩ :=
    ag_honest_round (genStepC G ins 1) R i P hP h1.hl _ _ _ _ hv
  refine ⟨P, st', I', D, P', hP, h1, hP', ?_, e1, ⟨by rw [e4]; exact h1.hl.1, e5, e3, e2⟩, e6.trans v9,
    fun k hk => e8 k (by rw [v9]; exact hk), vs, v4, v5, v6, v7, v8, v11, v12, v13, v14, v15⟩
  rw [hout, xa_bcs_map_nat]
  congr 1
  rw [ag_pvs_append]
  have : ∀ (L : List Nat), pvs (L.map (fun (j : Nat) => Op.bc (tagX n) (j : Int))) = [] := by
    intro L
    induction L with
    | nil => rfl
    | cons x L ih => simp [pvs, ih]
  simp [this, pvs]

/-- round 1: the state of every honest party (no bound on `n` needed) -/
theorem xa_round1_S2 {n t : Nat} {ins : List PartyIn} (S : SettingC G n t ins) (R : List (Party GSt))
    (h : InvC1 G n t ins R) (i : Nat) (hi : i ∈ honestIdx ins) :
    ∃ P, (runRound (genStepC G ins 1) R)[i]? = some P ∧ S2C G n t ins i P := by
  have hparty := xa_round1_party S R h
  obtain ⟨P, st', I', D, P', hP, h1, hP', hout, e1, hl', bl, hb, vs, v4, v5, v6, v7, v8, v11, v12, v13, v14, v15⟩ :=
    hparty i hi
  refine ⟨P', hP', ⟨hl', by rw [e1]; exact vs,
    by rw [e1]; exact v4, by rw [e1]; exact v5, bl, by rw [e1, v8]; simp, ?_, by rw [e1, v14]; simp, ?_,
    by rw [e1]; exact v15⟩⟩
  · intro j hj
    obtain ⟨hj1, -⟩ := (ag_mem_honestIdx ins j).mp hj
    rw [S.hn] at hj1
    rw [e1]
    refine ⟨(v12 j hj).1, ?_⟩
    rw [v8, ag_getN_map_range _ _ j hj1]
    have := (v12 j hj).2
    simp [this]
  · intro k hk c
    rw [e1, v14, v8, ag_getN_map_range _ _ k hk]
    have : ((List.range n).map (fun j => if D.contains j then [i] else [])).getD k [] =
        if D.contains k then [i] else [] := by
      rw [List.getD_eq_getElem _ _ (by simpa using hk)]
      simp
    rw [this]
    by_cases hD : k ∈ D
    · simp [hD]
    · simp [hD]

theorem xa_round1 {n t : Nat} {ins : List PartyIn} (S : SettingC G n t ins) (hn64 : n < 2 ^ 64)
    (R : List (Party GSt)) (h : InvC1 G n t ins R) :
    InvC2 G n t ins (runRound (genStepC G ins 1) R) := by
  have hparty := xa_round1_party S R h
  have hS2 := xa_round1_S2 S R h
  obtain ⟨hlen, hS, hAg⟩ := h
  refine ⟨by rw [ag_runRound_length, hlen], ?_, ?_, ?_⟩
  · exact hS2
  · intro i i' P1 P1' hi hi' hP1 hP1' k hk hki hki'
    obtain ⟨P, st', I', D, P', hP, h1, hP', hout, e1, hl', bl, hb, vs, v4, v5, v6, v7, v8, v11, v12, v13, v14, v15⟩ :=
      hparty i hi
    obtain ⟨Q, stq, Iq, Dq, Q', hQ, hq1, hQ', houtq, f1, hlq', blq, hbq, ws, w4, w5, w6, w7, w8, w11, w12, w13, w14, w15⟩ :=
      hparty i' hi'
    rw [hP'] at hP1
    rw [hQ'] at hP1'
    injection hP1 with hP1
    injection hP1' with hP1'
    subst hP1 hP1'
    rw [hb k hk, hbq k hk, (v11 k hk hki).1, (w11 k hk hki').1, hAg i i' P Q hi hi' hP hQ k hk hki hki']
    simp [hki, hki']
  · intro i i' P1 P1' hi hi' hP1 hP1' hne
    obtain ⟨P, st', I', D, P', hP, h1, hP', hout, e1, hl', bl, hb, vs, v4, v5, v6, v7, v8, v11, v12, v13, v14, v15⟩ :=
      hparty i hi
    obtain ⟨Q, stq, Iq, Dq, Q', hQ, hq1, hQ', houtq, f1, hlq', blq, hbq, ws, w4, w5, w6, w7, w8, w11, w12, w13, w14, w15⟩ :=
      hparty i' hi'
    rw [hP'] at hP1
    rw [hQ'] at hP1'
    injection hP1 with hP1
    injection hP1' with hP1'
    subst hP1 hP1'
    obtain ⟨hi1, -⟩ := (ag_mem_honestIdx ins i).mp hi
    rw [S.hn] at hi1
    constructor
    · intro k hk hki hki'
      rw [e1, f1, (v11 k hk hki).2, (w11 k hk hki').2, hAg i i' P Q hi hi' hP hQ k hk hki hki']
    · have hstream : bsOf Q'.inbox i =
          D.map (fun (j : Nat) => (tagX n, (j : Int))) ++ [(tagX n, (n : Int))] := by
        rw [hbq i hi1, w13 i hi hne, hout]
        simp [hne]
      have hrc := xa_rcT_honest (tagX n) n hn64 D (n + 1) 0 [] (by have := ag_nodup_lt_length n D v6 v7; omega)
        (by have := ag_nodup_lt_length n D v6 v7; omega) v7 v6 (by simp)
      refine ⟨?_, ?_, ?_⟩
      · simp [rcBadT, hstream, hrc]
      · simp [rcRestT, hstream, hrc]
      · intro w hw
        simp only [rcNewsT, hstream, hrc]
        rw [e1, v8, ag_getN_map_range _ _ w hw, ag_count_indicator D v6 w]

/-! ### (11) round 2: the complaint counters -/

/-- after round 2 -/
structure S3C (G : Grp) (n t : Nat) (ins : List PartyIn) (i : Nat) (P : Party GSt) : Prop where
  hl : HL P
  hs : HS G n t ins i P.st
  blen : P.inbox.b.length = n
  CH : ∀ j, j ∈ honestIdx ins →
    getRow P.st.xr.C j = comOf G t (pinOf ins j) ∧ getN P.st.xr.cnt j ≤ t ∧ j ∉ P.st.xr.compl
  sIn : InR G.q P.st.xr.s

def InvC3 (G : Grp) (n t : Nat) (ins : List PartyIn) (R : List (Party GSt)) : Prop :=
  R.length = n ∧ (∀ i, i ∈ honestIdx ins → ∃ P, R[i]? = some P ∧ S3C G n t ins i P) ∧ AgC n ins R ∧
  (∀ i i' P P', i ∈ honestIdx ins → i' ∈ honestIdx ins → R[i]? = some P → R[i']? = some P' → i ≠ i' →
    (∀ k, k < n → k ≠ i → k ≠ i' →
      getRow P.st.xr.C k = getRow P'.st.xr.C k ∧ (k ∈ P.st.xr.compl ↔ k ∈ P'.st.xr.compl)) ∧
    (∀ w, w < n → getN P.st.xr.cnt w = getN P'.st.xr.cnt w) ∧
    raBadT (envOf G n t i') (tagX n) (comOf G t (pinOf ins i)) (bsOf P'.inbox i) = false ∧
    (∀ k, k < n → k ≠ i → k ≠ i' →
      ∀ c, c ∈ P.st.xr.complainers.getD k [] ↔ c ∈ P'.st.xr.complainers.getD k []) ∧
    (∀ c, c ∈ P'.st.xr.complainers.getD i [] → c ∈ anT (tagX n) n (n + 1) (bsOf P'.inbox i) []))

theorem xa_bcs_triples (tag : Tag) (cfs : List Nat) (a b : Nat → Int) (n : Nat) :
    bcs (cfs.flatMap (fun (it : Nat) => [Op.bc tag (it : Int), Op.bc tag (a it), Op.bc tag (b it)]) ++
      [Op.bc tag (n : Int)]) =
    cfs.flatMap (fun (it : Nat) => [(tag, (it : Int)), (tag, a it), (tag, b it)]) ++
      [(tag, (n : Int))] := by
  induction cfs with
  | nil => rfl
  | cons x cfs ih => simp only [List.flatMap_cons, List.cons_append, List.nil_append, bcs, ih]

/-- round 2 for one honest party: its step and the party after the round -/
theorem xa_round2_party {n t : Nat} {ins : List PartyIn} (hn : ins.length = n) (R : List (Party GSt))
    (hS : ∀ i, i ∈ honestIdx ins → ∃ P, R[i]? = some P ∧ S2C G n t ins i P)
    (i : Nat) (hi : i ∈ honestIdx ins) :
    ∃ (P : Party GSt) (st' : GSt) (I' : Inbox) (cfs : List Nat) (P' : Party GSt),
    R[i]? = some P ∧ S2C G n t ins i P ∧
    (runRound (genStepC G ins 2) R)[i]? = some P' ∧
    (outOf (genStepC G ins 2) R i).1 =
      cfs.flatMap (fun (it : Nat) => [(tagX n, (it : Int)),
        (tagX n, getI P.st.xr.srow it), (tagX n, getI P.st.xr.sprow it)]) ++ [(tagX n, (n : Int))] ∧
    cfs.length ≤ n ∧ (∀ x ∈ cfs, x < n) ∧
    P'.st = st' ∧ HL P' ∧ P'.inbox.b.length = n ∧
    (∀ k, k < n → bsOf P'.inbox k = bsOf I' k ++
      (if k = i then [] else (outOf (genStepC G ins 2) R k).1)) ∧
    HS G n t ins i st' ∧ st'.xr.C = P.st.xr.C ∧
    (∀ k, k < n → k ≠ i → bsOf I' k = rcRestT (tagX n) n (bsOf P.inbox k)) ∧
    (∀ w, w < n → getN st'.xr.cnt w = getN P.st.xr.cnt w +
      (((List.range n).filter (fun x => x ≠ i)).map (fun x => (rcNewsT (tagX n) n (bsOf P.inbox x)).count w)).sum) ∧
    (∀ k, k ∈ st'.xr.compl ↔ k < n ∧ k ≠ i ∧ rcBadT (tagX n) n (bsOf P.inbox k) = true) ∧
    st'.xr.complainers.length = n ∧
    (∀ k, k < n → ∀ x, x ∈ st'.xr.complainers.getD k [] ↔
      (x = i ∧ 0 < getN P.st.xr.cnt k) ∨ (x < n ∧ x ≠ i ∧ k ∈ rcNewsT (tagX n) n (bsOf P.inbox x))) ∧
    (∀ x, x < n → x ≠ i → i ∈ rcNewsT (tagX n) n (bsOf P.inbox x) → x ∈ cfs) ∧
    InR G.q st'.xr.s := by
  obtain ⟨P, hP, h2⟩ := hS i hi
  have hs := h2.hs
  have hin : i < n := by
    have := ((ag_mem_honestIdx ins i).mp hi).1
    rwa [hn] at this
  have hspec := xa_rvCollect_spec (envOf G n t i) (tagX n) P.st.xr P.inbox h2.blen h2.clen
  dsimp only [envOf] at hspec
  obtain ⟨rv', I', cfs, hc, c4, cz, czp, c6, c7, c8, c9, c10, c11, c12, c13, c14, c15, c16⟩ := hspec
  generalize hops : ((if getN rv'.cnt i > 0 then cfs.flatMap (fun (it : Nat) =>
          [Op.bc (tagX n) (it : Int), Op.bc (tagX n) (getI P.st.xr.srow it), Op.bc (tagX n) (getI P.st.xr.sprow it)])
        else []) ++ [Op.bc (tagX n) (n : Int)]) = ops at hc
  have hsx : genStepC G ins 2 i P.st P.inbox = .ok ({ P.st with xr := rv' }, I', ops, .run) :=
    xa_step2 (G := G) ins i P.st P.inbox I' rv' ops
      (by rw [xa_env_eq P.st n t i hs.hn hs.ht hs.hi, hs.hn]; exact hc)
  obtain ⟨hout, P', hP', e1, e2, e3, e4, e5, e6, e7, e8, e9⟩ :=
    ag_honest_round (genStepC G ins 2) R i P hP h2.hl _ _ _ _ hsx
  subst hops
  refine ⟨P, { P.st with xr := rv' }, I', if getN rv'.cnt i > 0 then cfs else [], P', hP, h2, hP', ?_, ?_, ?_, e1,
    ⟨by rw [e4]; exact h2.hl.1, e5, e3, e2⟩, e6.trans c8, fun k hk => e8 k (by rw [c8]; exact hk),
    ⟨hs.hn, hs.ht, hs.hi, hs.sfb, hs.strong,
      by rw [show ({ P.st with xr := rv' } : GSt).xr = rv' from rfl, cz]; exact hs.z,
      by rw [show ({ P.st with xr := rv' } : GSt).xr = rv' from rfl, czp]; exact hs.zp⟩,
    c4, c10, c11, c12, c13.trans h2.cplen, ?_, ?_, by show InR G.q rv'.s; rw [c16]; exact h2.sIn⟩
  · rw [hout]
    simp only
    split
    · exact xa_bcs_triples (tagX n) cfs _ _ n
    · rfl
  · split
    · exact c6
    · simp
  · split
    · exact c7
    · simp
  · intro k hk x
    show x ∈ rv'.complainers.getD k [] ↔ _
    rw [c14 k x (by rw [h2.cplen]; exact hk), h2.cps k hk x]
  · intro x hx hxi hmem
    have hpos : 0 < getN rv'.cnt i := by
      rw [c11 i hin]
      have h1 : 0 < (rcNewsT (tagX n) n (bsOf P.inbox x)).count i := List.count_pos_iff.mpr hmem
      have h2' := ag_le_sum_map ((List.range n).filter (fun y => y ≠ i))
        (fun y => (rcNewsT (tagX n) n (bsOf P.inbox y)).count i) x
        (List.mem_filter.mpr ⟨List.mem_range.mpr hx, by simpa using hxi⟩)
      omega
    rw [if_pos hpos]
    exact (c15 x).mpr ⟨hx, hxi, hmem⟩

theorem xa_round2 {n t : Nat} {ins : List PartyIn} (S : SettingC G n t ins) (hn64 : n < 2 ^ 64)
    (hf : n - (honestIdx ins).length ≤ t)
    (R : List (Party GSt)) (h : InvC2 G n t ins R) : InvC3 G n t ins (runRound (genStepC G ins 2) R) := by
  obtain ⟨hlen, hS, hAg, hX⟩ := h
  have hG := S.hG
  have hparty := xa_round2_party (G := G) S.hn R hS
  have hnh : (List.range n).countP (fun x => !((pinOf ins x).dev1.honest)) ≤ t := by
    have := ag_countP_nothonest ins
    rw [S.hn] at this
    omega
  refine ⟨by rw [ag_runRound_length, hlen], ?_, ?_, ?_⟩
  · intro i hi
    obtain ⟨P, st', I', cfs, P', hP, h2, hP', hout, cl, cx, e1, hl', bl, hb, vs, v4, v5, v6, v7, v8, v9, v10, v11⟩ :=
      hparty i hi
    refine ⟨P', hP', ⟨hl', by rw [e1]; exact vs, bl, ?_, by rw [e1]; exact v11⟩⟩
    intro j hj
    obtain ⟨hj1, -⟩ := (ag_mem_honestIdx ins j).mp hj
    rw [S.hn] at hj1
    rw [e1]
    refine ⟨by rw [v4]; exact (h2.CH j hj).1, ?_, ?_⟩
    · rw [v6 j hj1, (h2.CH j hj).2, Nat.zero_add]
      refine le_trans ?_ hnh
      refine le_trans (ag_sum_le_countP _ _ (fun x => (pinOf ins x).dev1.honest)
        (fun x _ => xa_rcNewsT_count_le (tagX n) n _ j) ?_) ?_
      · intro x hx hxh
        obtain ⟨hx1, hx2⟩ := List.mem_filter.mp hx
        have hxn : x < n := List.mem_range.mp hx1
        have hxi : x ≠ i := by simpa using hx2
        have hxhon : x ∈ honestIdx ins := (ag_mem_honestIdx ins x).mpr ⟨by rw [S.hn]; exact hxn, hxh⟩
        obtain ⟨Px, hPx, h2x⟩ := hS x hxhon
        have := (hX x i Px P hxhon hi hPx hP hxi).2.2.2 j hj1
        rw [this]
        exact (h2x.CH j hj).2
      · exact (List.filter_sublist).countP_le
    · rw [v7 j]
      rintro ⟨-, hji, hbad⟩
      obtain ⟨Pj, hPj, -⟩ := hS j hj
      have := (hX j i Pj P hj hi hPj hP hji).2.1
      rw [this] at hbad
      exact Bool.false_ne_true hbad
  · intro i i' P1 P1' hi hi' hP1 hP1' k hk hki hki'
    obtain ⟨P, st', I', cfs, P', hP, h2, hP', hout, cl, cx, e1, hl', bl, hb, vs, v4, v5, v6, v7, v8, v9, v10, v11⟩ :=
      hparty i hi
    obtain ⟨Q, stq, Iq, cfq, Q', hQ, hq2, hQ', houtq, clq, cxq, f1, hlq', blq, hbq, ws, w4, w5, w6, w7, w8, w9, w10, w11⟩ :=
      hparty i' hi'
    rw [hP'] at hP1
    rw [hQ'] at hP1'
    injection hP1 with hP1
    injection hP1' with hP1'
    subst hP1 hP1'
    rw [hb k hk, hbq k hk, v5 k hk hki, w5 k hk hki', hAg i i' P Q hi hi' hP hQ k hk hki hki']
    simp [hki, hki']
  · intro i i' P1 P1' hi hi' hP1 hP1' hne
    obtain ⟨P, st', I', cfs, P', hP, h2, hP', hout, cl, cx, e1, hl', bl, hb, vs, v4, v5, v6, v7, v8, v9, v10, v11⟩ :=
      hparty i hi
    obtain ⟨Q, stq, Iq, cfq, Q', hQ, hq2, hQ', houtq, clq, cxq, f1, hlq', blq, hbq, ws, w4, w5, w6, w7, w8, w9, w10, w11⟩ :=
      hparty i' hi'
    rw [hP'] at hP1
    rw [hQ'] at hP1'
    injection hP1 with hP1
    injection hP1' with hP1'
    subst hP1 hP1'
    obtain ⟨hi1, -⟩ := (ag_mem_honestIdx ins i).mp hi
    rw [S.hn] at hi1
    obtain ⟨hi1', -⟩ := (ag_mem_honestIdx ins i').mp hi'
    rw [S.hn] at hi1'
    obtain ⟨x1, x2, x3, x4⟩ := hX i i' P Q hi hi' hP hQ hne
    obtain ⟨y1, y2, y3, y4⟩ := hX i' i Q P hi' hi hQ hP (Ne.symm hne)
    have hstream : bsOf Q'.inbox i =
        cfs.flatMap (fun (it : Nat) => [(tagX n, (it : Int)),
          (tagX n, getI P.st.xr.srow it), (tagX n, getI P.st.xr.sprow it)]) ++ [(tagX n, (n : Int))] := by
      rw [hbq i hi1, w5 i hi1 hne, x3, hout]
      simp [hne]
    refine ⟨?_, ?_, ?_, ?_, ?_⟩
    · intro k hk hki hki'
      rw [e1, f1, v4, w4]
      refine ⟨x1 k hk hki hki', ?_⟩
      rw [v7 k, w7 k, hAg i i' P Q hi hi' hP hQ k hk hki hki']
      simp [hk, hki, hki']
    · intro w hw
      rw [e1, f1, v6 w hw, w6 w hw, ← x4 w hw, ← y4 w hw]
      rw [ag_sum_filter_ne (List.range n) List.nodup_range i (List.mem_range.mpr hi1),
        ag_sum_filter_ne (List.range n) List.nodup_range i' (List.mem_range.mpr hi1')]
      congr 1
      apply List.map_congr_left
      intro x hx
      have hxn : x < n := List.mem_range.mp hx
      by_cases hxi : x = i
      · subst hxi
        simp [hne]
      · by_cases hxi' : x = i'
        · subst hxi'
          simp [hxi]
        · simp only [hxi, hxi', if_false]
          rw [hAg i i' P Q hi hi' hP hQ x hxn hxi hxi']
    · have : Fact (Nat.Prime G.q.natAbs) := fact_q hG
      have hci := xa_goodCoins t _ (S.hc i hi)
      obtain ⟨ha, hb', hla, hlb⟩ := ag_coef_range (G := G) t (pinOf ins i) hci
      have hra := xa_raT_honest (envOf G n t i') (tagX n) hn64 (comOf G t (pinOf ins i))
        (fun it => getI P.st.xr.srow it)
        (fun it => getI P.st.xr.sprow it) cfs (n + 1) (by omega) (by
          intro it hit
          have hitn := cx it hit
          rw [h2.srow, h2.sprow, ag_getI_map_range _ _ it hitn, ag_getI_map_range _ _ it hitn]
          obtain ⟨l, r, e1, e2, e3⟩ := share_check_F hG _ _ (hla.trans hlb.symm) ha hb' _
            (ag_comOf_spec hG t (pinOf ins i) hci).1 (it + 1)
          refine ⟨hitn, (ag_sh_range hG t _ it).1, (ag_sh_range hG t _ it).2.1, l, e1, ?_⟩
          rw [xa_envOf_pt n t i' it hitn, e2, e3])
      simp only [raBadT]
      rw [hstream]
      dsimp only [envOf] at hra ⊢
      rw [hra]
      rfl
    · intro k hk hki hki' c
      rw [e1, f1, v9 k hk c, w9 k hk c]
      have hp1 : 0 < getN P.st.xr.cnt k ↔ k ∈ rcNewsT (tagX n) n (bsOf Q.inbox i) := by
        rw [← x4 k hk]; exact List.count_pos_iff
      have hp2 : 0 < getN Q.st.xr.cnt k ↔ k ∈ rcNewsT (tagX n) n (bsOf P.inbox i') := by
        rw [← y4 k hk]; exact List.count_pos_iff
      by_cases hci : c = i
      · subst hci
        simp [hne, hp1, hi1]
      · by_cases hci' : c = i'
        · subst hci'
          simp [hci, hp2, hi1']
        · simp only [hci, hci', false_and, false_or, ne_eq, not_false_eq_true, true_and]
          constructor
          · rintro ⟨hc, hm⟩
            exact ⟨hc, by rw [← hAg i i' P Q hi hi' hP hQ c hc hci hci']; exact hm⟩
          · rintro ⟨hc, hm⟩
            exact ⟨hc, by rw [hAg i i' P Q hi hi' hP hQ c hc hci hci']; exact hm⟩
    · intro c
      rw [f1, w9 i hi1 c, hstream, xa_anT_honest (tagX n) n hn64 _ _ cfs (n + 1) (by omega) cx []]
      rintro (⟨-, hpos⟩ | ⟨hc, hci', hmem⟩)
      · rw [(hq2.CH i hi).2] at hpos
        exact absurd hpos (Nat.lt_irrefl 0)
      · by_cases hci : c = i
        · subst hci
          have h0 : (rcNewsT (tagX n) n (bsOf Q.inbox c)).count c = 0 := by
            rw [x4 c hi1]; exact (h2.CH c hi).2
          exact absurd (List.count_pos_iff.mpr hmem) (by omega)
        · rw [← hAg i i' P Q hi hi' hP hQ c hc hci hci'] at hmem
          simpa using v10 c hc hci hmem

/-! ### (12) round 3: QUAL; the agreement theorems -/

/-- the public resolution of step 1(d) does not depend on the reader's index -/
theorem xa_raT_env (n t i i' : Nat) (tag : Tag) (Cj : List Int) (f : Nat) (s : List (Tag × Int)) :
    raT (envOf G n t i) tag Cj f s = raT (envOf G n t i') tag Cj f s := by
  induction f generalizing s with
  | zero => rfl
  | succ f ih =>
    unfold raT
    simp only [ih]
    rfl

theorem xa_raBadT_env (n t i i' : Nat) (tag : Tag) (Cj : List Int) (s : List (Tag × Int)) :
    raBadT (envOf G n t i) tag Cj s = raBadT (envOf G n t i') tag Cj s := by
  unfold raBadT
  rw [xa_raT_env n t i i']

/-- after round 3: every honest party's QUAL contains every honest party, and two honest parties
    have the same QUAL -/
def InvC4 (ins : List PartyIn) (R : List (Party GSt)) : Prop :=
  (∀ i, i ∈ honestIdx ins → ∃ P, R[i]? = some P ∧ ∀ j, j ∈ honestIdx ins → j ∈ P.st.xr.qual) ∧
  (∀ i i' P P', i ∈ honestIdx ins → i' ∈ honestIdx ins → R[i]? = some P → R[i']? = some P' →
    P.st.xr.qual = P'.st.xr.qual)

theorem xa_unBT_iff (E : Env) (tag : Tag) (rv : Rv) (k : Nat) (s : List (Tag × Int)) :
    unBT E tag rv k s = true ↔ ∃ c ∈ rv.complainers.getD k [], c ∉ anT tag E.n (E.n + 1) s [] := by
  simp [unBT, List.any_eq_true]

/-- round 3 for one honest party -/
theorem xa_round3_party {n t : Nat} {ins : List PartyIn} (S : SettingC G n t ins) (R : List (Party GSt))
    (i : Nat) (hi : i ∈ honestIdx ins) (P : Party GSt)
    (hP : R[i]? = some P) (hl : HL P) (hs : HS G n t ins i P.st)
    (hb : P.inbox.b.length = n) (hsin : InR G.q P.st.xr.s) :
    ∃ P' : Party GSt, (runRound (genStepC G ins 3) R)[i]? = some P' ∧
      (∃ p : Nat → Bool, P'.st.xr.qual = (List.range n).filter p) ∧
      ∀ k, k ∈ P'.st.xr.qual ↔ k < n ∧ ¬ (k ∈ P.st.xr.compl ∨ t < getN P.st.xr.cnt k ∨
        (k ≠ i ∧ (raBadT (envOf G n t i) (tagX n) (getRow P.st.xr.C k) (bsOf P.inbox k) = true ∨
          ∃ c ∈ P.st.xr.complainers.getD k [], c ∉ anT (tagX n) n (n + 1) (bsOf P.inbox k) []))) := by
  have hG := S.hG
  have hq0 : 0 < G.q := hG.vg.q_pos
  have hspec := xa_rvResolve_spec (envOf G n t i) hG (tagX n) P.st.xr P.inbox hb hsin
  obtain ⟨rv', I', hr, vz, vzp, ⟨p, hp⟩, hq⟩ := hspec
  simp only [xa_unBT_iff] at hq
  dsimp only [envOf] at hp hq
  obtain ⟨st', ops, status, hstep, hxr⟩ := xa_step3 hG ins i P.st P.inbox I' rv'
    (by rw [xa_env_eq P.st n t i hs.hn hs.ht hs.hi, hs.hn]; exact hr) hs.sfb
    (by rw [vz]; exact hs.z) (by rw [vzp]; exact hs.zp)
    (by rw [hs.strong]; exact xa_coin_range hq0 t _ (S.hc i hi) _)
    (by rw [hs.strong]; exact xa_coin_range hq0 t _ (S.hc i hi) _)
  obtain ⟨-, P', hP', e1, -⟩ := ag_honest_round (genStepC G ins 3) R i P hP hl _ _ _ _ hstep
  exact ⟨P', hP', ⟨p, by rw [e1, hxr]; exact hp⟩, by rw [e1, hxr]; exact hq⟩

theorem xa_round3 {n t : Nat} {ins : List PartyIn} (S : SettingC G n t ins) (R : List (Party GSt))
    (h : InvC3 G n t ins R) : InvC4 ins (runRound (genStepC G ins 3) R) := by
  obtain ⟨hlen, hS, hAg, hX⟩ := h
  have hG := S.hG
  have hparty : ∀ i, i ∈ honestIdx ins → ∃ (P P' : Party GSt),
      R[i]? = some P ∧ S3C G n t ins i P ∧ (runRound (genStepC G ins 3) R)[i]? = some P' ∧
      (∃ p : Nat → Bool, P'.st.xr.qual = (List.range n).filter p) ∧
      ∀ k, k ∈ P'.st.xr.qual ↔ k < n ∧ ¬ (k ∈ P.st.xr.compl ∨ t < getN P.st.xr.cnt k ∨
        (k ≠ i ∧ (raBadT (envOf G n t i) (tagX n) (getRow P.st.xr.C k) (bsOf P.inbox k) = true ∨
          ∃ c ∈ P.st.xr.complainers.getD k [], c ∉ anT (tagX n) n (n + 1) (bsOf P.inbox k) []))) := by
    intro i hi
    obtain ⟨P, hP, h3⟩ := hS i hi
    obtain ⟨P', hP', hp, hq⟩ := xa_round3_party S R i hi P hP h3.hl h3.hs h3.blen h3.sIn
    exact ⟨P, P', hP, h3, hP', hp, hq⟩
  have hmem : ∀ i, i ∈ honestIdx ins → ∀ (P P' : Party GSt), R[i]? = some P →
      (∀ k, k ∈ P'.st.xr.qual ↔ k < n ∧ ¬ (k ∈ P.st.xr.compl ∨ t < getN P.st.xr.cnt k ∨
        (k ≠ i ∧ (raBadT (envOf G n t i) (tagX n) (getRow P.st.xr.C k) (bsOf P.inbox k) = true ∨
          ∃ c ∈ P.st.xr.complainers.getD k [], c ∉ anT (tagX n) n (n + 1) (bsOf P.inbox k) [])))) →
      ∀ j, j ∈ honestIdx ins → j ∈ P'.st.xr.qual := by
    intro i hi P P' hP hq j hj
    obtain ⟨P0, hP0, h3⟩ := hS i hi
    rw [hP] at hP0
    injection hP0 with hP0
    subst hP0
    obtain ⟨hj1, -⟩ := (ag_mem_honestIdx ins j).mp hj
    rw [S.hn] at hj1
    obtain ⟨c1, c2, c3⟩ := h3.CH j hj
    rw [hq j]
    refine ⟨hj1, ?_⟩
    rintro (h | h | ⟨hji, h | ⟨c, hc, hnc⟩⟩)
    · exact c3 h
    · omega
    · obtain ⟨Pj, hPj, -⟩ := hS j hj
      have := (hX j i Pj P hj hi hPj hP hji).2.2.1
      rw [c1, this] at h
      exact Bool.false_ne_true h
    · obtain ⟨Pj, hPj, -⟩ := hS j hj
      exact hnc ((hX j i Pj P hj hi hPj hP hji).2.2.2.2 c hc)
  constructor
  · intro i hi
    obtain ⟨P, P', hP, h3, hP', -, hq⟩ := hparty i hi
    exact ⟨P', hP', hmem i hi P P' hP hq⟩
  · intro i i' P1 P1' hi hi' hP1 hP1'
    by_cases hne : i = i'
    · subst hne
      rw [hP1] at hP1'
      injection hP1' with hP1'
      rw [hP1']
    obtain ⟨P, P', hP, h3, hP', ⟨p, hp⟩, hq⟩ := hparty i hi
    obtain ⟨Q, Q', hQ, hq3, hQ', ⟨p', hp'⟩, hqq⟩ := hparty i' hi'
    rw [hP'] at hP1
    rw [hQ'] at hP1'
    injection hP1 with hP1
    injection hP1' with hP1'
    subst hP1 hP1'
    rw [hp, hp']
    apply ag_filter_range_eq
    intro k
    rw [← hp, ← hp']
    by_cases hki : k = i
    · subst hki
      exact ⟨fun _ => hmem i' hi' Q Q' hQ hqq k hi, fun _ => hmem k hi P P' hP hq k hi⟩
    by_cases hki' : k = i'
    · subst hki'
      exact ⟨fun _ => hmem k hi' Q Q' hQ hqq k hi', fun _ => hmem i hi P P' hP hq k hi'⟩
    rw [hq k, hqq k]
    by_cases hk : k < n
    · obtain ⟨x1, x2, -, x4, -⟩ := hX i i' P Q hi hi' hP hQ hne
      obtain ⟨y1, y2⟩ := x1 k hk hki hki'
      have x5 := x4 k hk hki hki'
      rw [y1, y2, x2 k hk, hAg i i' P Q hi hi' hP hQ k hk hki hki', xa_raBadT_env n t i i']
      simp only [x5]
      simp [hki, hki']
    · simp [hk]

theorem xa_range_split (t : Nat) : List.range (genRounds t) = [0, 1, 2, 3] ++ List.range' 4 (7 + 2 * t) := by
  rw [List.range_eq_range', show genRounds t = 4 + (7 + 2 * t) by unfold genRounds; omega, ← List.range'_append_1]
  rfl

/-- the run up to QUAL -/
theorem xa_inv4 {n t : Nat} {ins : List PartyIn} (S : SettingC G n t ins) (hn64 : n < 2 ^ 64)
    (hf : n - (honestIdx ins).length ≤ t) :
    InvC4 ins (runRounds (genStepC G ins) [0, 1, 2, 3] (ps0C n t ins)) :=
  xa_round3 S _ (xa_round2 S hn64 hf _ (xa_round1 S hn64 _ (xa_round0 S)))

theorem xa_runGenC_qual (n t : Nat) (ins : List PartyIn) (i : Nat) :
    ((runGenC G n t ins)[i]?).map (fun P => P.st.xr) =
      ((runRounds (genStepC G ins) [0, 1, 2, 3] (ps0C n t ins))[i]?).map (fun P => P.st.xr) := by
  rw [xa_runGenC_eq, xa_range_split, ag_runRounds_append]
  apply xa_runRounds_xr
  intro k hk
  have := (List.mem_range'_1.mp hk).1
  exact this

/-- all honest parties compute the same `x_rvss->QUAL` (for ALL scripts of the other parties).
    The statement is that of `qual_agree'` (TmcgProofs/DkgAgree.lean) for `runGenC`; as there, the bound
    `n < 2^64` is needed because `mpz_get_ui` truncates the end marker `n` of a complaint list. -/
theorem xqual_agree (hG : ValidGrp G) (n t : Nat) (ins : List PartyIn) (hn : ins.length = n) (ht : 2 * t < n)
    (hn64 : n < 2 ^ 64)
    (hf : n - (honestIdx ins).length ≤ t)
    (hc : ∀ i ∈ honestIdx ins, goodCoinsC G t (ins.getD i ⟨[], [], {}, {}⟩))
    (i j : Nat) (hi : i ∈ honestIdx ins) (hj : j ∈ honestIdx ins) (Pi Pj : Party GSt)
    (hPi : (runGenC G n t ins)[i]? = some Pi) (hPj : (runGenC G n t ins)[j]? = some Pj) :
    Pi.st.xr.qual = Pj.st.xr.qual := by
  have S : SettingC G n t ins := ⟨hG, hn, hc⟩
  obtain ⟨-, h4⟩ := xa_inv4 S hn64 hf
  have e1 := xa_runGenC_qual (G := G) n t ins i
  have e2 := xa_runGenC_qual (G := G) n t ins j
  rw [hPi] at e1
  rw [hPj] at e2
  cases hQi : (runRounds (genStepC G ins) [0, 1, 2, 3] (ps0C n t ins))[i]? with
  | none => rw [hQi] at e1; cases e1
  | some Qi =>
    cases hQj : (runRounds (genStepC G ins) [0, 1, 2, 3] (ps0C n t ins))[j]? with
    | none => rw [hQj] at e2; cases e2
    | some Qj =>
      rw [hQi] at e1
      rw [hQj] at e2
      simp only [Option.map_some, Option.some.injEq] at e1 e2
      rw [e1, e2]
      exact h4 i j Qi Qj hi hj hQi hQj

/-- honest parties are never disqualified in the joint sharing of the key -/
theorem honest_in_xqual (hG : ValidGrp G) (n t : Nat) (ins : List PartyIn) (hn : ins.length = n) (ht : 2 * t < n)
    (hn64 : n < 2 ^ 64)
    (hf : n - (honestIdx ins).length ≤ t)
    (hc : ∀ i ∈ honestIdx ins, goodCoinsC G t (ins.getD i ⟨[], [], {}, {}⟩))
    (i j : Nat) (hi : i ∈ honestIdx ins) (hj : j ∈ honestIdx ins) (Pi : Party GSt)
    (hPi : (runGenC G n t ins)[i]? = some Pi) :
    j ∈ Pi.st.xr.qual := by
  have S : SettingC G n t ins := ⟨hG, hn, hc⟩
  obtain ⟨h4, -⟩ := xa_inv4 S hn64 hf
  have e1 := xa_runGenC_qual (G := G) n t ins i
  rw [hPi] at e1
  obtain ⟨Qi, hQi, hq⟩ := h4 i hi
  rw [hQi] at e1
  simp only [Option.map_some, Option.some.injEq] at e1
  rw [e1]
  exact hq j hj

end Tmcg.CgjkrP
