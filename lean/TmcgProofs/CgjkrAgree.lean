import TmcgProofs.Dkg
import Tmcg.Model.Cgjkr
/-
  C15 for `CanettiGennaroJareckiKrawczykRabinDKG::Generate` (model: Tmcg/Model/Cgjkr.lean), global layer:
  all honest parties compute the same qualified set of the joint sharing of the key (`x_rvss->QUAL`, the
  set over which the share `x_i` is summed and over which `DSS::Sign` multiplies the commitments), for ALL
  deviation scripts of the other parties, and no honest party is disqualified.

  The statement is the analogue of `qual_agree'` / `honest_in_qual'` (TmcgProofs/DkgAgree.lean) for the
  first four rounds of `runGenC` (rounds 0-3 = `x_rvss->Share`; later rounds never change `xr.qual`).
  As there, `n < 2^64` is needed (`mpz_get_ui` truncates the end marker `n` of a complaint list).
-/
namespace Tmcg.CgjkrP
open Tmcg Tmcg.Powm Tmcg.Dkg Tmcg.Grp Tmcg.DkgL Tmcg.DkgP Tmcg.Cgjkr

variable {G : Dkg.Grp} [Fact (Nat.Prime G.p.natAbs)]

set_option linter.unusedSectionVars false

/-- coins of an honest party in `Generate`: the coefficients of `x_rvss` (`2(t+1)`), `r_i`, `r'_i`, the
    coefficients of `d_rvss` (`2(t+1)`), all below `q` (as `tmcg_mpz_srandomm` returns them) -/
def goodCoinsC (G : Dkg.Grp) (t : Nat) (pin : PartyIn) : Prop :=
  4 * (t + 1) + 2 ≤ pin.strong.length ∧ ∀ c ∈ pin.strong, 0 ≤ c ∧ c < G.q

/-- all honest parties compute the same `x_rvss->QUAL` (for ALL scripts of the other parties) -/
theorem xqual_agree (hG : ValidGrp G) (n t : Nat) (ins : List PartyIn) (hn : ins.length = n) (ht : 2 * t < n)
    (hn64 : n < 2 ^ 64)
    (hf : n - (honestIdx ins).length ≤ t)
    (hc : ∀ i ∈ honestIdx ins, goodCoinsC G t (ins.getD i ⟨[], [], {}, {}⟩))
    (i j : Nat) (hi : i ∈ honestIdx ins) (hj : j ∈ honestIdx ins) (Pi Pj : Party GSt)
    (hPi : (runGenC G n t ins)[i]? = some Pi) (hPj : (runGenC G n t ins)[j]? = some Pj) :
    Pi.st.xr.qual = Pj.st.xr.qual := by
  sorry

/-- honest parties are never disqualified in the joint sharing of the key -/
theorem honest_in_xqual (hG : ValidGrp G) (n t : Nat) (ins : List PartyIn) (hn : ins.length = n) (ht : 2 * t < n)
    (hn64 : n < 2 ^ 64)
    (hf : n - (honestIdx ins).length ≤ t)
    (hc : ∀ i ∈ honestIdx ins, goodCoinsC G t (ins.getD i ⟨[], [], {}, {}⟩))
    (i j : Nat) (hi : i ∈ honestIdx ins) (hj : j ∈ honestIdx ins) (Pi : Party GSt)
    (hPi : (runGenC G n t ins)[i]? = some Pi) :
    j ∈ Pi.st.xr.qual := by
  sorry

end Tmcg.CgjkrP
