import Tmcg.Model.StackEq
import Tmcg.Model.Codec
import TmcgProofs.Codec
import TmcgProofs.Stack
/-
  C12 (model level): the parsing and indexing logic of the receiving side never reaches an
  out-of-bounds index, a failed assertion or a division by zero, whatever bytes arrive.
  (Memory safety of the compiled C++ is carried by the sanitizer build of the correspondence
  harness, not by these theorems.)
-/
namespace Tmcg.Safety
open Tmcg Tmcg.Vtmf Tmcg.Stack

/-- outcomes that count as a clean refusal: a value, `false`, or a standard exception -/
def Clean {α : Type} : Except Err α → Prop
  | .ok _ => True
  | .error .invalidArgument => True
  | .error .runtimeError => True
  | .error .reject => True
  | .error _ => False


/-! ### `Clean` calculus -/

theorem clean_ok {α : Type} (a : α) : Clean (.ok a : Except Err α) := trivial

theorem clean_error_iff {α : Type} (e : Err) :
    Clean (.error e : Except Err α) ↔ e = .invalidArgument ∨ e = .runtimeError ∨ e = .reject := by
  cases e <;> simp [Clean]

theorem clean_error_cast {α β : Type} (e : Err) (h : Clean (.error e : Except Err α)) :
    Clean (.error e : Except Err β) := (clean_error_iff e).2 ((clean_error_iff e).1 h)

theorem clean_bind {α β : Type} (x : Except Err α) (f : α → Except Err β) (hx : Clean x)
    (hf : ∀ a, x = .ok a → Clean (f a)) : Clean (x >>= f) := by
  cases x with
  | error e => exact clean_error_cast e hx
  | ok a => exact hf a rfl

theorem clean_mapM {α β : Type} (f : α → Except Err β) :
    ∀ (l : List α), (∀ a ∈ l, Clean (f a)) → Clean (l.mapM f) := by
  intro l
  induction l with
  | nil => intro _; simp [pure, Except.pure, Clean]
  | cons a l ih =>
    intro h
    rw [List.mapM_cons]
    refine clean_bind _ _ (h a (by simp)) (fun b _ => ?_)
    refine clean_bind _ _ (ih (fun x hx => h x (by simp [hx]))) (fun r _ => ?_)
    exact clean_ok _

/-! ### table exponentiations -/

theorem fpowm_clean (T : Powm.Table) (m x p : Int) (hp : p ≠ 0) : Clean (Powm.fpowm T m x p) := by
  unfold Powm.fpowm
  split
  · trivial
  · simp only
    split
    · rw [if_neg (fun h => hp h.1)]
      split
      · split
        · trivial
        · trivial
      · trivial
    · trivial

theorem fspowm_clean (T : Powm.Table) (m x p : Int) (hp : p ≠ 0) : Clean (Powm.fspowm T m x p) := by
  unfold Powm.fspowm
  split
  · trivial
  · simp only
    split
    · split
      · trivial
      · trivial
    · trivial

/-- every index of an imported stack secret is inside the stack (what `TMCG_MixStack` relies on) -/
theorem imported_indices_in_range (txt : String) (ss : StackSecret Int)
    (h : Codec.importStackSecret txt = some ss) : ∀ e ∈ ss, e.1 < ss.length := by
  obtain ⟨-, -, hperm⟩ := Codec.importStackSecret_bijection txt ss h
  intro e he
  exact List.mem_range.1 (hperm.mem_iff.1 (List.mem_map_of_mem he))

/-- re-masking a card never traps for a non-zero modulus: it returns a card or throws a standard
    exception (exponent beyond the table, non-invertible power) -/
theorem remask_clean (S : State) (hp : S.G.p ≠ 0) (c : Card) (r : Int) (tap : Bool) :
    Clean (remask S c r tap) := by
  unfold remask
  cases tap
  · simp only [Bool.false_eq_true, if_false]
    exact clean_bind _ _ (fpowm_clean _ _ _ _ hp) (fun gr _ =>
      clean_bind _ _ (fpowm_clean _ _ _ _ hp) (fun hr _ => clean_ok _))
  · simp only [if_true]
    exact clean_bind _ _ (fspowm_clean _ _ _ _ hp) (fun gr _ =>
      clean_bind _ _ (fspowm_clean _ _ _ _ hp) (fun hr _ => clean_ok _))

/-- mixing with a secret of the right size whose indices are in range never aborts or indexes
    out of bounds -/
theorem mix_clean (S : State) (hp : S.G.p ≠ 0) (tap : Bool) (s : List Card) (ss : StackSecret Int)
    (hlen : ss.length = s.length) (hidx : ∀ e ∈ ss, e.1 < ss.length) :
    Clean (vtmfMix S tap s ss) := by
  unfold vtmfMix mixStack
  rw [if_neg (by simpa using hlen.symm)]
  apply clean_mapM
  intro i hi
  have hi : i < ss.length := hlen ▸ List.mem_range.1 hi
  have hj' : ss[i].1 < ss.length := hidx _ (List.getElem_mem hi)
  refine (congrArg Clean (mixBody_eq (vtmfMask S tap) s ss i hi (hlen ▸ hj') hj')).mpr ?_
  exact remask_clean S hp _ _ _


/-- one verifier round on an imported response is clean -/
theorem verifyRound_clean (H : Sigma.Hash) (S : State) (hp : S.G.p ≠ 0) (s s2 : List Card)
    (cyclic : Bool) (hl : s.length = s2.length) (commit : Int) (b : Bool) (ss : StackSecret Int)
    (hidx : ∀ e ∈ ss, e.1 < ss.length) :
    Clean (StackEq.verifyRound H S s s2 cyclic commit b ss) := by
  unfold StackEq.verifyRound
  by_cases hlen : ss.length = s.length
  · rw [if_neg (by simpa using hlen)]
    split
    · exact clean_ok _
    refine clean_bind _ _ ?_ (fun s4 _ => ?_)
    · apply mix_clean S hp false _ ss _ hidx
      cases b
      · simpa using hlen
      · simpa using hlen.trans hl
    · split
      · exact clean_ok _
      · split
        · exact clean_ok _
        · exact clean_ok _
  · rw [if_pos hlen]
    exact clean_ok _

theorem verify_go_clean (H : Sigma.Hash) (S : State) (hp : S.G.p ≠ 0) (s s2 : List Card)
    (cyclic : Bool) (hl : s.length = s2.length) :
    ∀ rounds : List (Int × Bool × String), Clean (StackEq.verify.go H S s s2 cyclic rounds) := by
  intro rounds
  induction rounds with
  | nil => exact clean_ok _
  | cons r rest ih =>
    obtain ⟨commit, b, txt⟩ := r
    unfold StackEq.verify.go
    cases himp : Codec.importStackSecret txt with
    | none => exact clean_ok _
    | some ss =>
      simp only
      refine clean_bind _ _ (verifyRound_clean H S hp s s2 cyclic hl commit b ss
        (imported_indices_in_range txt ss himp)) (fun ok _ => ?_)
      cases ok
      · exact clean_ok _
      · exact ih

/-- **the cut-and-choose verifier is index safe** (false on the pinned tree: finding F2): whatever
    response texts arrive — malformed, of another size, with arbitrary indices and exponents —
    verification ends in a verdict or a standard exception -/
theorem stackeq_verify_clean (H : Sigma.Hash) (kind : Sigma.Kind) (S : State) (hp : S.G.p ≠ 0)
    (s s2 : List Card) (cyclic : Bool) (rounds : List (Int × Bool × String)) :
    Clean (StackEq.verify H kind S s s2 cyclic rounds) := by
  unfold StackEq.verify
  by_cases hl : s.length = s2.length
  · rw [if_neg (by simpa using hl)]
    split
    · exact clean_ok _
    · exact verify_go_clean H S hp s s2 cyclic hl rounds
  · rw [if_pos hl]
    exact clean_ok _

/-- without the size check of the repair the abort is reachable: a well-formed response of another
    size makes `mixStack` fail its size assertion -/
theorem mix_aborts_on_size_mismatch (S : State) (tap : Bool) (s : List Card) (ss : StackSecret Int)
    (h : ss.length ≠ s.length) : vtmfMix S tap s ss = .error .abort := by
  unfold vtmfMix mixStack
  rw [if_pos (Ne.symm h)]


theorem importStack_go_length :
    ∀ (k : Nat) (cs : List Char) (acc r : List Card),
    Codec.importStack.go k cs acc = some r → r.length = acc.length + k := by
  intro k
  induction k with
  | zero =>
    intro cs acc r h
    simp only [Codec.importStack.go, Option.some.injEq] at h
    subst h; simp
  | succ k ih =>
    intro cs acc r h
    simp only [Codec.importStack.go, Option.bind_eq_bind, Option.bind_eq_some_iff] at h
    obtain ⟨ct, -, c, -, cs1, -, h⟩ := h
    have := ih _ _ _ h
    simp only [List.length_cons] at this
    omega

/-- the importers are total functions of their input text and allocate at most
    `TMCG_MAX_CARDS` entries -/
theorem import_bounded (txt : String) :
    (∀ s, Codec.importStack txt = some s → s.length ≤ Gen.TMCG_MAX_CARDS) ∧
    (∀ ss, Codec.importStackSecret txt = some ss → ss.length ≤ Gen.TMCG_MAX_CARDS) := by
  refine ⟨?_, fun ss h => (Codec.importStackSecret_bijection txt ss h).2.1⟩
  intro s h
  unfold Codec.importStack at h
  simp only [Option.bind_eq_bind, Option.bind_eq_some_iff] at h
  obtain ⟨cs, -, sz, -, n, -, h⟩ := h
  by_cases hg : n = 0 ∨ n > Gen.TMCG_MAX_CARDS
  · rw [if_pos hg] at h; simp at h
  · rw [if_neg hg] at h
    simp only [Option.bind_eq_some_iff] at h
    obtain ⟨cs1, -, hgo⟩ := h
    have hlen := importStack_go_length _ _ _ _ hgo
    simp only [List.length_nil, Nat.zero_add] at hlen
    omega

end Tmcg.Safety
