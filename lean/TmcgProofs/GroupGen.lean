import Tmcg.Model.GroupGen
import TmcgProofs.GroupCheck
import TmcgProofs.PrimeGen
import Mathlib.FieldTheory.Finite.Basic
import Mathlib.Data.Int.ModEq
/-
  C06, first clause: what the generating constructors of the group classes produce (model
  `Tmcg/Model/GroupGen.lean`) passes the class's own `CheckGroup` (model `Tmcg/Model/GroupCheck.lean`).
  This file: the building blocks (random / verifiable elements of order `q`, the prefix of every
  `lprime`-based constructor).
-/
namespace Tmcg.GroupGenProofs
open Tmcg Tmcg.Rabin Tmcg.RabinGen Tmcg.PrimeGen Tmcg.GroupCheck Tmcg.GroupGen Tmcg.PrimeGenProofs

/-! ### arithmetic -/

/-- Fermat's little theorem on integers -/
theorem fermat_int (p : Nat) (hp : p.Prime) (r : Int) (hr : r % (p : Int) ≠ 0) : r ^ (p - 1) % (p : Int) = 1 := by
  have hcop : IsCoprime r (p : Int) := by
    rw [Int.isCoprime_iff_gcd_eq_one]
    have hnd : ¬ p ∣ r.natAbs := by
      intro hd
      exact hr (Int.emod_eq_zero_of_dvd (Int.natCast_dvd.mpr hd))
    have := (Nat.Prime.coprime_iff_not_dvd hp).mpr hnd
    simpa [Int.gcd, Nat.coprime_comm] using this
  have h := Int.ModEq.pow_card_sub_one_eq_one hp hcop
  unfold Int.ModEq at h
  rw [h]
  have : (1 : Int) < p := by exact_mod_cast hp.one_lt
  exact Int.emod_eq_of_lt (by omega) this

/-- `(r^k mod p)^q mod p = 1` when `p = qk + 1` is prime and `r^k mod p ≠ 0` -/
theorem pow_cofactor_order (p q k : Nat) (hp : p.Prime) (e : p = q * k + 1) (r : Int)
    (h0 : r ^ k % (p : Int) ≠ 0) : (r ^ k % (p : Int)) ^ q % (p : Int) = 1 := by
  have hk : 0 < k := by
    rcases Nat.eq_zero_or_pos k with hk | hk
    · subst hk; simp at e; subst e; exact absurd hp (by decide)
    · exact hk
  have hr : r % (p : Int) ≠ 0 := by
    intro hz
    apply h0
    have hd : (p : Int) ∣ r := Int.dvd_of_emod_eq_zero hz
    exact Int.emod_eq_zero_of_dvd (dvd_pow hd (by omega))
  have h1 : (r ^ k % (p : Int)) ^ q ≡ (r ^ k) ^ q [ZMOD (p : Int)] := (Int.mod_modEq _ _).pow q
  unfold Int.ModEq at h1
  rw [h1, ← pow_mul, show k * q = p - 1 by rw [e, Nat.mul_comm]; omega]
  exact fermat_int p hp r hr

/-- for odd `n`, `(p-1)^n mod p = p - 1` -/
theorem pm1_pow_odd (p : Int) (hp : 2 < p) (n : Nat) (hn : n % 2 = 1) : (p - 1) ^ n % p = p - 1 := by
  have h1 : (p - 1) ^ n ≡ (-1) ^ n [ZMOD p] := by
    apply Int.ModEq.pow
    unfold Int.ModEq
    rw [show p - 1 = -1 + p by ring, Int.add_emod_right]
  unfold Int.ModEq at h1
  rw [h1, Odd.neg_one_pow (Nat.odd_iff.mpr hn)]
  rw [show (-1 : Int) = (p - 1) + (-1) * p by ring, Int.add_mul_emod_self_right]
  exact Int.emod_eq_of_lt (by omega) (by omega)

theorem genOk_of_range (x p q : Int) (h0 : 0 ≤ x) (hlt : x < p) (n0 : x ≠ 0) (n1 : x ≠ 1) (nm : x ≠ p - 1)
    (hord : x ^ q.natAbs % p = 1) : GenOk x p q :=
  ⟨by omega, by omega, hord⟩

/-- a residue of order dividing an odd `q`, different from 1: a generator `CheckGroup` accepts -/
theorem genOk_of_order (x p q : Int) (hp : 2 < p) (hq : 0 < q) (hodd : q % 2 = 1) (h0 : 0 ≤ x) (hlt : x < p)
    (n1 : x ≠ 1) (hord : x ^ q.natAbs % p = 1) : GenOk x p q := by
  have hqn : 0 < q.natAbs := by omega
  refine genOk_of_range x p q h0 hlt ?_ n1 ?_ hord
  · intro hz; subst hz
    rw [zero_pow (by omega), Int.zero_emod] at hord; omega
  · intro hz; subst hz
    rw [pm1_pow_odd p hp q.natAbs (by omega)] at hord
    omega

/-- powers of an element of order dividing `q` have order dividing `q` -/
theorem pow_order (g p : Int) (hp : 1 < p) (q x : Nat) (hord : g ^ q % p = 1) : (g ^ x % p) ^ q % p = 1 := by
  have h1 : (g ^ x % p) ^ q ≡ (g ^ x) ^ q [ZMOD p] := (Int.mod_modEq _ _).pow q
  have h2 : (g ^ x) ^ q = (g ^ q) ^ x := by rw [← pow_mul, ← pow_mul, Nat.mul_comm]
  have h11 : (1 : Int) % p = 1 := Int.emod_eq_of_lt (by omega) hp
  have h3 : (g ^ q) ^ x ≡ 1 ^ x [ZMOD p] := by
    apply Int.ModEq.pow
    unfold Int.ModEq; rw [hord, h11]
  unfold Int.ModEq at h1 h3
  rw [h1, h2, h3, one_pow, h11]

/-! ### the coin-driven pieces -/

theorem drawMod_spec (m : Int) (coins : Coins) (r : Int) (rest : Coins)
    (h : drawMod m coins = .ok (r, rest)) (hm : 0 < m) : 0 ≤ r ∧ r < m := by
  cases coins with
  | nil => simp [drawMod] at h
  | cons c cs =>
    have hm0 : m ≠ 0 := by omega
    simp only [drawMod, mpzMod, hm0, if_false, Except.ok.injEq, Prod.mk.injEq] at h
    rw [← h.1]
    exact ⟨Int.emod_nonneg _ hm0, Int.emod_lt_of_pos _ hm⟩

/-- what the loop `do … while (t ∈ {0, 1, p-1})` ends with -/
theorem randElem_spec (p k : Int) (hp : 0 < p) (hk : 0 ≤ k) : ∀ (f : Nat) (coins : Coins) (t : Int) (rest : Coins),
    randElem p k f coins = .ok (t, rest) →
      (∃ r : Int, t = r ^ k.toNat % p) ∧ t ≠ 0 ∧ t ≠ 1 ∧ t ≠ p - 1
  | 0, _, _, _, h => by simp [randElem] at h
  | f+1, coins, t, rest, h => by
    unfold randElem at h
    cases hd : drawMod p coins with
    | error e => rw [hd] at h; simp at h
    | ok v =>
      obtain ⟨r, rest0⟩ := v
      rw [hd] at h
      simp only [Powm.mpzPowm_nonneg_eq r k p hp hk] at h
      by_cases hc : (r ^ k.toNat % p == 0 || r ^ k.toNat % p == 1 || r ^ k.toNat % p == p - 1) = true
      · rw [if_pos hc] at h
        exact randElem_spec p k hp hk f rest0 t rest h
      · rw [if_neg hc] at h
        simp only [Except.ok.injEq, Prod.mk.injEq] at h
        simp only [Bool.or_eq_true, beq_iff_eq, not_or] at hc
        rw [← h.1]
        exact ⟨⟨r, rfl⟩, hc.1.1, hc.1.2, hc.2⟩

/-- a random element of order `q` is a generator `CheckGroup` accepts (needs `p` prime: Fermat) -/
theorem randElem_genOk (p q k : Nat) (hp : p.Prime) (e : p = q * k + 1) (f : Nat) (coins : Coins) (t : Int) (rest : Coins)
    (h : randElem (p : Int) (k : Int) f coins = .ok (t, rest)) : GenOk t p q := by
  have hp0 : (0 : Int) < p := by exact_mod_cast hp.pos
  obtain ⟨⟨r, hr⟩, n0, n1, nm⟩ := randElem_spec (p : Int) (k : Int) hp0 (by omega) f coins t rest h
  simp only [Int.toNat_natCast] at hr
  subst hr
  refine genOk_of_range _ _ _ (Int.emod_nonneg _ (by omega)) (Int.emod_lt_of_pos _ hp0) n0 n1 nm ?_
  simp only [Int.natAbs_natCast]
  exact pow_cofactor_order p q k hp e r n0

theorem randElems_spec (p k : Int) (fuel : Nat) (Q : Int → Prop)
    (hQ : ∀ coins t rest, randElem p k fuel coins = .ok (t, rest) → Q t) :
    ∀ (n : Nat) (coins : Coins) (ts : List Int) (rest : Coins),
      randElems p k fuel n coins = .ok (ts, rest) → ts.length = n ∧ ∀ x ∈ ts, Q x
  | 0, coins, ts, rest, h => by
    simp only [randElems, Except.ok.injEq, Prod.mk.injEq] at h
    rw [← h.1]; simp
  | n+1, coins, ts, rest, h => by
    unfold randElems at h
    cases h1 : randElem p k fuel coins with
    | error e => rw [h1] at h; simp at h
    | ok v =>
      obtain ⟨t, rest0⟩ := v
      rw [h1] at h
      simp only at h
      cases h2 : randElems p k fuel n rest0 with
      | error e => rw [h2] at h; simp at h
      | ok w =>
        obtain ⟨ts', rest1⟩ := w
        rw [h2] at h
        simp only [Except.ok.injEq, Prod.mk.injEq] at h
        obtain ⟨hl, hall⟩ := randElems_spec p k fuel Q hQ n rest0 ts' rest1 h2
        rw [← h.1]
        refine ⟨by simp [hl], ?_⟩
        intro x hx
        rcases List.mem_cons.mp hx with rfl | hx
        · exact hQ _ _ _ h1
        · exact hall x hx

/-- the verifiable derivation ends only with a generator `CheckGroup` accepts (no primality needed: the loop
    tests the order itself) -/
theorem ggen_genOk (H : Hash) (p q k : Int) (hp : 0 < p) (hq : 0 < q) (hk : 0 ≤ k) : ∀ (f : Nat) (U : String) (g : Int),
    ggen H p q k f U = .ok g → GenOk g p q
  | 0, _, _, h => by simp [ggen] at h
  | f+1, U, g, h => by
    unfold ggen at h
    have hqn : q.toNat = q.natAbs := by omega
    simp only [Powm.mpzPowm_nonneg_eq _ k p hp hk, Powm.mpzPowm_nonneg_eq _ q p hp hq.le, GroupCheck.ok_bind, hqn] at h
    split at h
    · exact ggen_genOk H p q k hp hq hk f _ g h
    · rename_i hc
      simp only [pure, Except.pure, Except.ok.injEq] at h
      simp only [Bool.or_eq_true, beq_iff_eq, bne_iff_ne, not_or, not_not] at hc
      subst h
      exact genOk_of_range _ _ _ (Int.emod_nonneg _ (by omega)) (Int.emod_lt_of_pos _ hp) hc.1.1.1 hc.1.1.2 hc.1.2 hc.2

end Tmcg.GroupGenProofs
