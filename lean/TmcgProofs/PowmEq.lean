import Tmcg.Model.Powm
import TmcgProofs.Base
import TmcgProofs.Powm
/-
  C09: every modular-exponentiation variant equals plain modular exponentiation
  (`mpzPowm`, the model of GMP's `mpz_powm`, itself characterised mathematically here).
-/
namespace Tmcg.Powm
open Tmcg

/-- `mpz_powm` with a non-negative exponent is the mathematical power residue -/
theorem mpzPowm_nonneg_eq (b e p : Int) (hp : 0 < p) (he : 0 ≤ e) :
    mpzPowm b e p = .ok (b ^ e.toNat % p) := by
  sorry

/-- `mpz_powm` with a negative exponent on a unit: the reduced inverse of the positive power -/
theorem mpzPowm_neg_spec (b e p : Int) (hp : 1 < p) (he : e < 0) (hb : Int.gcd b p = 1) :
    ∃ r, mpzPowm b e p = .ok r ∧ 0 ≤ r ∧ r < p ∧ r * b ^ e.natAbs % p = 1 := by
  sorry

/-- **C09** constant-time variant = plain exponentiation, every exponent (negative, zero,
    positive; also exponents sharing a factor with the modulus, after the repair of F6) -/
theorem spowm_eq_mpzPowm (m x p : Int) (hp : 1 < p) (hodd : p % 2 = 1) (hm : Int.gcd m p = 1) :
    spowm m x p = mpzPowm m x p := by
  sorry

/-- **C09** table-based variant = plain exponentiation, for exponents within the table -/
theorem fpowm_eq_mpzPowm (g p : Int) (t : Nat) (hp : 1 < p) (T : Table)
    (hT : precompute g p t = .ok T) (x : Int) (hlen : bitlen x ≤ tableSize t)
    (hg : Int.gcd g p = 1) :
    fpowm T g x p = mpzPowm g x p := by
  sorry

/-- **C09** table-based always-multiply variant = plain exponentiation -/
theorem fspowm_eq_mpzPowm (g p : Int) (t : Nat) (hp : 1 < p) (T : Table)
    (hT : precompute g p t = .ok T) (x : Int) (hlen : bitlen x ≤ tableSize t)
    (hg : Int.gcd g p = 1) :
    fspowm T g x p = mpzPowm g x p := by
  sorry

/-- **C09** unsigned-long exponent variant (no coprimality needed) -/
theorem fpowmUi_eq_mpzPowm (g p : Int) (t : Nat) (hp : 1 < p) (T : Table)
    (hT : precompute g p t = .ok T) (x : Nat) (hlen : bitlen x ≤ tableSize t) :
    fpowmUi T g x p = mpzPowm g x p := by
  sorry

/-- beyond the precomputed part of the table the entries are zero: an exponent (within the
    global limit) with a bit set at a position `≥ tableSize t` yields 0, not a wrong power —
    callers must keep `|x| < 2^t` (the VTMF does: exponents are `< q`, `t = |q|`) -/
theorem fpowm_beyond_table (g p : Int) (t : Nat) (hp : 1 < p) (T : Table)
    (hT : precompute g p t = .ok T) (x : Int) (hx : 0 ≤ x)
    (hlen : bitlen x ≤ Gen.TMCG_MAX_FPOWM_T)
    (i : Nat) (hi : tableSize t ≤ i) (hbit : tstbit x.natAbs i = true) :
    fpowm T g x p = .ok 0 := by
  sorry

/-- Chaum's base blinding (the fallback when `mpz_powm_sec` is unavailable): with any invertible
    blinding value the result is the plain power -/
theorem spowmBaseblind_eq (m x p r : Int) (hp : 1 < p) (hx : 0 ≤ x) (hr : Int.gcd r p = 1) :
    spowmBaseblind m x p r = mpzPowm m x p := by
  sorry

end Tmcg.Powm
