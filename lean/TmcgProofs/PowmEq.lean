import Tmcg.Model.Powm
import TmcgProofs.Base
import TmcgProofs.Powm
/-
  C09: every modular-exponentiation variant equals plain modular exponentiation
  (`mpzPowm`, the model of GMP's `mpz_powm`, itself characterised mathematically here).
-/
namespace Tmcg.Powm
open Tmcg

/-! ### helpers -/

/-- uniqueness of reduced inverses modulo `p` -/
theorem inv_unique {p r r' a : Int} (h0 : 0 ≤ r) (h1 : r < p) (h0' : 0 ≤ r') (h1' : r' < p)
    (h : r * a % p = 1) (h' : r' * a % p = 1) : r = r' := by
  have hp : 1 < p ∨ p = 1 := by omega
  rcases hp with hp | hp
  · have one : (1 : Int) % p = 1 := Int.emod_eq_of_lt (by norm_num) hp
    have e : r * a ≡ 1 [ZMOD p] := by unfold Int.ModEq; rw [h, one]
    have e' : r' * a ≡ 1 [ZMOD p] := by unfold Int.ModEq; rw [h', one]
    have c1 : r * (r' * a) ≡ r * 1 [ZMOD p] := Int.ModEq.mul_left _ e'
    have c2 : r' * (r * a) ≡ r' * 1 [ZMOD p] := Int.ModEq.mul_left _ e
    have c3 : r * (r' * a) = r' * (r * a) := by ring
    rw [c3, mul_one] at c1
    rw [mul_one] at c2
    have c4 : r ≡ r' [ZMOD p] := c1.symm.trans c2
    have := c4.eq
    rwa [Int.emod_eq_of_lt h0 h1, Int.emod_eq_of_lt h0' h1'] at this
  · omega

/-- a reduced inverse, in the form used by the statements of this file -/
theorem inv_mul_emod {p a r : Int} (hp : 1 < p) (h : a * r ≡ 1 [ZMOD p]) : r * a % p = 1 := by
  rw [mul_comm, h.eq]
  exact Int.emod_eq_of_lt (by norm_num) hp

theorem powm_cast (b p : Int) (hp : 0 < p) (hb : 0 ≤ b) (k : Nat) :
    ((powm b.toNat k p.natAbs : Nat) : Int) = b ^ k % p := by
  rw [powm_eq]
  push_cast
  rw [abs_of_pos hp, Int.toNat_of_nonneg hb]

theorem mulLoop_zero (T : Table) (p : Int) (x : Nat) : ∀ (n i : Nat), mulLoop T p x n i 0 = 0 := by
  intro n
  induction n with
  | zero => intro i; rfl
  | succ n ih =>
    intro i
    unfold mulLoop
    by_cases h : tstbit x i <;> simp [h, ih]

/-- a set bit at a position where the table entry is 0 annihilates the result -/
theorem mulLoop_hit (T : Table) (p : Int) (x i : Nat) (hbit : tstbit x i = true)
    (hz : T.get i = 0) : ∀ (n i0 : Nat) (res : Int), i0 ≤ i → i < i0 + n →
      mulLoop T p x n i0 res = 0 := by
  intro n
  induction n with
  | zero => intro i0 res h1 h2; omega
  | succ n ih =>
    intro i0 res h1 h2
    unfold mulLoop
    by_cases he : i0 = i
    · subst he
      simp [hbit, hz, mulLoop_zero]
    · exact ih (i0 + 1) _ (by omega) (by omega)

theorem tstbit_lt_bitlen (x : Int) (i : Nat) (hbit : tstbit x.natAbs i = true) : i < bitlen x := by
  have hlt := natAbs_lt_two_pow_bitlen x
  unfold tstbit at hbit
  rw [Nat.shiftRight_eq_div_pow] at hbit
  have h1 : x.natAbs / 2 ^ i % 2 = 1 := by simpa using hbit
  have h2 : 0 < x.natAbs / 2 ^ i := by
    generalize x.natAbs / 2 ^ i = y at h1
    omega
  have h3 : 2 ^ i ≤ x.natAbs := by
    by_contra hc
    rw [Nat.div_eq_of_lt (Nat.lt_of_not_le hc)] at h2
    exact absurd h2 (lt_irrefl 0)
  exact (Nat.pow_lt_pow_iff_right (by norm_num : 1 < 2)).mp (lt_of_le_of_lt h3 hlt)

/-- `mpz_powm` with a non-negative exponent is the mathematical power residue -/
theorem mpzPowm_nonneg_eq (b e p : Int) (hp : 0 < p) (he : 0 ≤ e) :
    mpzPowm b e p = .ok (b ^ e.toNat % p) := by
  have hp0 : p ≠ 0 := by omega
  unfold mpzPowm
  simp only [hp0, if_false, he, if_true]
  rw [baz_eq b p hp]

/-- `mpz_powm` with a negative exponent on a unit: the reduced inverse of the positive power -/
theorem mpzPowm_neg_spec (b e p : Int) (hp : 1 < p) (he : e < 0) (hb : Int.gcd b p = 1) :
    ∃ r, mpzPowm b e p = .ok r ∧ 0 ≤ r ∧ r < p ∧ r * b ^ e.natAbs % p = 1 := by
  have hp0 : p ≠ 0 := by omega
  have hpp : 0 < p := by omega
  obtain ⟨bi, hbi⟩ := invm_isSome_of_coprime hp0 hb
  obtain ⟨h0, h1, hc⟩ := invm_some hbi
  rw [abs_of_pos hpp] at h1
  have hne : ¬ 0 ≤ e := by omega
  have hk : (-e).toNat = e.natAbs := by omega
  refine ⟨bi ^ e.natAbs % p, ?_, Int.emod_nonneg _ hp0, Int.emod_lt_of_pos _ hpp, ?_⟩
  · unfold mpzPowm
    simp only [hp0, if_false, hne, hbi, hk]
    rw [powm_cast bi p hpp h0]
  · have e1 : bi ^ e.natAbs % p * b ^ e.natAbs ≡ bi ^ e.natAbs * b ^ e.natAbs [ZMOD p] :=
      Int.ModEq.mul_right _ (Int.mod_modEq _ _)
    have e2 : bi ^ e.natAbs * b ^ e.natAbs = (b * bi) ^ e.natAbs := by rw [← mul_pow, mul_comm]
    have e3 : (b * bi) ^ e.natAbs ≡ 1 ^ e.natAbs [ZMOD p] := hc.pow _
    rw [one_pow] at e3
    rw [e2] at e1
    rw [(e1.trans e3).eq]
    exact Int.emod_eq_of_lt (by norm_num) hp

/-- **C09** constant-time variant = plain exponentiation, every exponent (negative, zero,
    positive; also exponents sharing a factor with the modulus, after the repair of F6) -/
theorem spowm_eq_mpzPowm (m x p : Int) (hp : 1 < p) (hodd : p % 2 = 1) (hm : Int.gcd m p = 1) :
    spowm m x p = mpzPowm m x p := by
  obtain ⟨r, hr, h0, h1, hspec⟩ := spowm_spec m x p hp hodd hm
  rw [hr]
  by_cases hx : 0 ≤ x
  · simp only [hx, if_true] at hspec
    rw [mpzPowm_nonneg_eq m x p (by omega) hx, hspec]
    congr 3
    omega
  · simp only [hx, if_false] at hspec
    obtain ⟨r', hr', h0', h1', hs'⟩ := mpzPowm_neg_spec m x p hp (by omega) hm
    rw [hr', inv_unique h0 h1 h0' h1' hspec hs']

/-- **C09** table-based variant = plain exponentiation, for exponents within the table -/
theorem fpowm_eq_mpzPowm (g p : Int) (t : Nat) (hp : 1 < p) (T : Table)
    (hT : precompute g p t = .ok T) (x : Int) (hlen : bitlen x ≤ tableSize t)
    (hg : Int.gcd g p = 1) :
    fpowm T g x p = mpzPowm g x p := by
  have hp0 : p ≠ 0 := by omega
  have hpp : 0 < p := by omega
  rw [fpowm_spec g p t hp T hT x hlen]
  by_cases hx : 0 ≤ x
  · simp only [hx, if_true]
    rw [mpzPowm_nonneg_eq g x p hpp hx]
    congr 3
    omega
  · simp only [hx, if_false]
    have hk : 0 < x.natAbs := by omega
    have hcop : Int.gcd (g ^ x.natAbs % p) p = 1 := by
      rw [gcd_emod_left]; exact (gcd_pow_left_iff g p _ hk).mpr hg
    obtain ⟨r, hr⟩ := invm_isSome_of_coprime hp0 hcop
    obtain ⟨h0, h1, hc⟩ := invm_some hr
    rw [abs_of_pos hpp] at h1
    have hs : r * g ^ x.natAbs % p = 1 := by
      have e1 : r * g ^ x.natAbs ≡ r * (g ^ x.natAbs % p) [ZMOD p] :=
        Int.ModEq.mul_left _ (Int.mod_modEq _ _).symm
      rw [e1.eq]
      exact inv_mul_emod hp hc
    obtain ⟨r', hr', h0', h1', hs'⟩ := mpzPowm_neg_spec g x p hp (by omega) hg
    rw [hr, hr', inv_unique h0 h1 h0' h1' hs hs']

/-- **C09** table-based always-multiply variant = plain exponentiation -/
theorem fspowm_eq_mpzPowm (g p : Int) (t : Nat) (hp : 1 < p) (T : Table)
    (hT : precompute g p t = .ok T) (x : Int) (hlen : bitlen x ≤ tableSize t)
    (hg : Int.gcd g p = 1) :
    fspowm T g x p = mpzPowm g x p := by
  have hp0 : p ≠ 0 := by omega
  have hpp : 0 < p := by omega
  rw [fspowm_spec g p t hp T hT x hlen]
  have hcop : Int.gcd (g ^ x.natAbs % p) p = 1 := by
    rw [gcd_emod_left]
    rcases Nat.eq_zero_or_pos x.natAbs with h | h
    · rw [h, pow_zero]; exact Int.one_gcd
    · exact (gcd_pow_left_iff g p _ h).mpr hg
  obtain ⟨r, hr⟩ := invm_isSome_of_coprime hp0 hcop
  obtain ⟨h0, h1, hc⟩ := invm_some hr
  rw [abs_of_pos hpp] at h1
  rw [hr]
  by_cases hx : 0 ≤ x
  · simp only [hx, if_true]
    rw [mpzPowm_nonneg_eq g x p hpp hx]
    congr 3
    omega
  · simp only [hx, if_false]
    have hs : r * g ^ x.natAbs % p = 1 := by
      have e1 : r * g ^ x.natAbs ≡ r * (g ^ x.natAbs % p) [ZMOD p] :=
        Int.ModEq.mul_left _ (Int.mod_modEq _ _).symm
      rw [e1.eq]
      exact inv_mul_emod hp hc
    obtain ⟨r', hr', h0', h1', hs'⟩ := mpzPowm_neg_spec g x p hp (by omega) hg
    rw [hr', inv_unique h0 h1 h0' h1' hs hs']

/-- **C09** unsigned-long exponent variant (no coprimality needed) -/
theorem fpowmUi_eq_mpzPowm (g p : Int) (t : Nat) (hp : 1 < p) (T : Table)
    (hT : precompute g p t = .ok T) (x : Nat) (hlen : bitlen x ≤ tableSize t) :
    fpowmUi T g x p = mpzPowm g x p := by
  rw [fpowmUi_spec g p t hp T hT x hlen,
    mpzPowm_nonneg_eq g x p (by omega) (Int.natCast_nonneg x), Int.toNat_natCast]

/-- beyond the precomputed part of the table the entries are zero: an exponent (within the
    global limit) with a bit set at a position `≥ tableSize t` yields 0, not a wrong power —
    callers must keep `|x| < 2^t` (the VTMF does: exponents are `< q`, `t = |q|`) -/
theorem fpowm_beyond_table (g p : Int) (t : Nat) (hp : 1 < p) (T : Table)
    (hT : precompute g p t = .ok T) (x : Int) (hx : 0 ≤ x)
    (hlen : bitlen x ≤ Gen.TMCG_MAX_FPOWM_T)
    (i : Nat) (hi : tableSize t ≤ i) (hbit : tstbit x.natAbs i = true) :
    fpowm T g x p = .ok 0 := by
  have hp0 : p ≠ 0 := by omega
  obtain ⟨hg, -, hzero⟩ := precompute_get g p t hp0 T hT
  have hib : i < bitlen x := tstbit_lt_bitlen x i hbit
  have hloop := mulLoop_hit T p x.natAbs i hbit (hzero i hi) (bitlen x) 0 1 (Nat.zero_le _)
    (by omega)
  unfold fpowm
  simp only [hg, ne_eq, not_true_eq_false, if_false, hlen, if_true, hp0, false_and, hloop,
    not_lt.mpr hx]

/-- Chaum's base blinding (the fallback when `mpz_powm_sec` is unavailable): with any invertible
    blinding value the result is the plain power -/
theorem spowmBaseblind_eq (m x p r : Int) (hp : 1 < p) (hx : 0 ≤ x) (hr : Int.gcd r p = 1) :
    spowmBaseblind m x p r = mpzPowm m x p := by
  have hp0 : p ≠ 0 := by omega
  have hpp : 0 < p := by omega
  obtain ⟨r1, hr1⟩ := invm_isSome_of_coprime hp0 hr
  obtain ⟨-, -, hc⟩ := invm_some hr1
  unfold spowmBaseblind
  simp only [hr1, mpzPowm_nonneg_eq _ x p hpp hx, mpzMod, hp0, if_false, bind, Except.bind]
  congr 1
  have e1 : (m * r % p) ^ x.toNat % p * (r1 ^ x.toNat % p) ≡
      (m * r) ^ x.toNat * r1 ^ x.toNat [ZMOD p] :=
    Int.ModEq.mul ((Int.mod_modEq _ _).trans ((Int.mod_modEq _ _).pow _)) (Int.mod_modEq _ _)
  have e2 : (m * r) ^ x.toNat * r1 ^ x.toNat = m ^ x.toNat * (r * r1) ^ x.toNat := by
    rw [mul_pow, mul_pow]; ring
  have e3 : m ^ x.toNat * (r * r1) ^ x.toNat ≡ m ^ x.toNat * 1 ^ x.toNat [ZMOD p] :=
    Int.ModEq.mul_left _ (hc.pow _)
  rw [one_pow, mul_one] at e3
  rw [e2] at e1
  exact (e1.trans e3).eq

end Tmcg.Powm
