import TmcgProofs.DkgAgree
import TmcgProofs.DkgRun
/-
  C15, run level: "each honest party's share matches the public verification values" for whole runs
  of `runGen` in which the party finished `Generate` with `true` and nobody was reconstructed
  (`racc = []`): `share_matches_vk_run` (first test of `CheckKey()`), `checkKey_run`
  (`genCheckKey G Pi.st = .ok true`), both from `ra_run_core`.

  (A) stopped parties keep state and status (`ra_notlive_rounds`), a failing step stops a party with
      status `run` (`ra_err_round`), fields no later round touches (`ra_runRound_field`, `racc` after
      round 5)
  (B) shapes of `genResolve`, `genExtractCheck`, `genExtractCollect`, `genRecNext`, `genFinish`
      (`racc = []`), monotonicity of the extraction complaint list, the `vi` / `yi` loops
  (C) the fields of an honest party's state the invariants of DkgAgree do not record (`Extra`, `ra_R3`)
  (D) `ra_key`: the key check from the step results of rounds 3, 4, 5
  (E) the run: a final status `ret true` with `racc = []` forces the path
      genResolve = run, genExtractCheck ok, genExtractCollect with an empty reconstruction list
-/
namespace Tmcg.DkgP
open Tmcg Tmcg.Powm Tmcg.Dkg Tmcg.Grp Tmcg.DkgL

variable {G : Dkg.Grp} [Fact (Nat.Prime G.p.natAbs)]

set_option linter.unusedSectionVars false

/-! ### (A) parties that stopped; fields no later round touches -/

theorem ra_live_false_of {σ} (P P' : Party σ) (h : P.live = false) (h1 : P'.status = P.status)
    (h2 : P'.err = P.err) (h3 : P'.fs = P.fs) : P'.live = false := by
  simpa [Party.live, h1, h2, h3] using h

/-- a party that is not live is not touched by a round (apart from its inbox) -/
theorem ra_notlive_round {σ} (steps : Nat → Step σ) (R : List (Party σ)) (i : Nat) (P : Party σ)
    (hP : R[i]? = some P) (hl : P.live = false) :
    ∃ P', (runRound steps R)[i]? = some P' ∧ P'.st = P.st ∧ P'.status = P.status ∧ P'.live = false := by
  obtain ⟨P', hP', hd⟩ := ag_runRound_party steps R i P hP
  rw [ag_stepParty_notlive _ _ _ hl] at hd
  exact ⟨P', hP', hd.st, hd.status, ra_live_false_of P P' hl hd.status hd.err hd.fs⟩

theorem ra_notlive_rounds {σ} (steps : Nat → Nat → Step σ) (L : List Nat) (R : List (Party σ)) (i : Nat)
    (P : Party σ) (hP : R[i]? = some P) (hl : P.live = false) :
    ∃ P', (runRounds steps L R)[i]? = some P' ∧ P'.st = P.st ∧ P'.status = P.status := by
  induction L generalizing R P with
  | nil => exact ⟨P, hP, rfl, rfl⟩
  | cons k L ih =>
    obtain ⟨P1, hP1, e1, e2, e3⟩ := ra_notlive_round (steps k) R i P hP hl
    obtain ⟨P2, hP2, f1, f2⟩ := ih (runRound (steps k) R) P1 hP1 e3
    exact ⟨P2, hP2, f1.trans e1, f2.trans e2⟩

/-- a live honest party whose step fails keeps status `run` and is stopped -/
theorem ra_err_round {σ} (steps : Nat → Step σ) (R : List (Party σ)) (i : Nat) (P : Party σ)
    (hP : R[i]? = some P) (hl : HL P) (e : Err) (hs : steps i P.st P.inbox = .error e) :
    ∃ P', (runRound steps R)[i]? = some P' ∧ P'.status = .run ∧ P'.live = false := by
  obtain ⟨P', hP', hd⟩ := ag_runRound_party steps R i P hP
  have hsp : stepParty R.length (steps i) P = ({ P with err := some e }, [], []) := by
    simp [stepParty, ag_HL_live P hl, hs]
  rw [hsp] at hd
  refine ⟨P', hP', by rw [hd.status]; exact hl.2.2.2, ?_⟩
  simp [Party.live, hd.err]

/-- a field that the step functions of a round leave alone -/
theorem ra_runRound_field {α} (f : GenSt → α) (steps : Nat → Step GenSt)
    (hpres : ∀ i st I st' I' ops s, steps i st I = .ok (st', I', ops, s) → f st' = f st)
    (ps : List (Party GenSt)) (i : Nat) :
    ((runRound steps ps)[i]?).map (fun P => f P.st) = (ps[i]?).map (fun P => f P.st) := by
  cases hP : ps[i]? with
  | none =>
    have : (runRound steps ps)[i]? = none := by
      rw [List.getElem?_eq_none_iff, ag_runRound_length]
      exact List.getElem?_eq_none_iff.mp hP
    rw [this]
  | some P =>
    obtain ⟨P', hP', hd⟩ := ag_runRound_party steps ps i P hP
    rw [hP']
    simp only [Option.map_some, hd.st]
    congr 1
    rcases ag_stepParty_st ps.length (steps i) P with h | ⟨I, ops, status, h⟩
    · rw [h]
    · exact hpres i _ _ _ _ _ _ h

theorem ra_genFinish_racc (st st' : GenSt) (h : genFinish G st = .ok st') : st'.racc = st.racc := by
  unfold genFinish at h
  obtain ⟨A, -, h⟩ := ag_bind_ok _ _ _ h
  obtain ⟨vi, -, h⟩ := ag_bind_ok _ _ _ h
  injection h with h
  rw [← h]

theorem ra_genRecNext_racc (st st' : GenSt) (ops : List Op) (s : Status)
    (h : genRecNext G st = .ok (st', ops, s)) : st'.racc = st.racc := by
  unfold genRecNext at h
  split at h
  · obtain ⟨st1, h1, h⟩ := ag_bind_ok _ _ _ h
    injection h with h
    injection h with h
    rw [← h]
    exact ra_genFinish_racc st st1 h1
  · split at h
    · injection h with h
      injection h with h
      rw [← h]
    · injection h with h
      injection h with h
      rw [← h]

theorem ra_genRecStep_racc (st st' : GenSt) (I I' : Inbox) (ops : List Op) (s : Status)
    (h : genRecStep G st I = .ok (st', I', ops, s)) : st'.racc = st.racc := by
  unfold genRecStep at h
  split at h
  · injection h with h
    injection h with h
    rw [← h]
  · obtain ⟨⟨I1, parties, shares⟩, -, h⟩ := ag_bind_ok _ _ _ h
    simp only at h
    split at h
    · injection h with h
      injection h with h
      rw [← h]
    · split at h
      · injection h with h
        injection h with h
        rw [← h]
      · split at h
        · injection h with h
          injection h with h
          rw [← h]
        · obtain ⟨⟨st3, ops3, s3⟩, h1, h⟩ := ag_bind_ok _ _ _ h
          injection h with h
          injection h with h
          rw [← h]
          exact (ra_genRecNext_racc _ _ _ _ h1).trans rfl

theorem ra_runRounds_racc (ins : List PartyIn) (n t : Nat) (l : List Nat) (hl : ∀ k ∈ l, 6 ≤ k)
    (ps : List (Party GenSt)) (i : Nat) :
    ((runRounds (genStep G ins n t) l ps)[i]?).map (fun P => P.st.racc) = (ps[i]?).map (fun P => P.st.racc) := by
  induction l generalizing ps with
  | nil => rfl
  | cons k l ih =>
    simp only [runRounds]
    rw [ih (fun k hk => hl k (List.mem_cons_of_mem _ hk))]
    apply ra_runRound_field (fun st => st.racc)
    intro i st I st' I' ops s h
    have hk : 6 ≤ k := hl k (by simp)
    obtain ⟨m, rfl⟩ : ∃ m, k = m + 6 := ⟨k - 6, by omega⟩
    exact ra_genRecStep_racc _ _ _ _ _ _ h

/-! ### (B) the shapes of the step functions of rounds 3, 4, 5 -/

theorem ra_genResolve_shape (st : GenSt) (I : Inbox) (st' : GenSt) (I' : Inbox) (ops : List Op)
    (s : Status) (h : genResolve G st I = .ok (st', I', ops, s)) :
    (s = .run ∨ s = .ret false) ∧ st'.n = st.n ∧ st'.t = st.t ∧ st'.i = st.i ∧ st'.vi = st.vi ∧
    st'.ga = st.ga ∧ st'.sfb = st.sfb ∧ st'.z = st.z ∧ st'.yi = st.yi ∧ st'.racc = st.racc ∧
    st'.x = sumMod G.q st'.s st'.qual ∧
    (s = .run → st'.A = st.A.set st.i (st.ga.map (fun v => if st.sfb then v + 1 else v)) ∧
      st'.qual.contains st.i = true) := by
  simp only [genResolve, bind, Except.bind] at h
  cases hg : genResolveGo G st (List.range st.n) I st.s st.sp st.compl with
  | error e => rw [hg] at h; cases h
  | ok R =>
    obtain ⟨I1, s1, sp, cm⟩ := R
    rw [hg] at h
    simp only at h
    cases hgs : gaList G s1 with
    | error e => rw [hgs] at h; cases h
    | ok gs =>
    rw [hgs] at h
    simp only at h
    split at h
    · simp only [pure, Except.pure, Except.ok.injEq, Prod.mk.injEq] at h
      obtain ⟨rfl, _, _, rfl⟩ := h
      exact ⟨Or.inr rfl, rfl, rfl, rfl, rfl, rfl, rfl, rfl, rfl, rfl, rfl, fun h => by cases h⟩
    · rename_i hq
      split at h
      · simp only [pure, Except.pure, Except.ok.injEq, Prod.mk.injEq] at h
        obtain ⟨rfl, _, _, rfl⟩ := h
        exact ⟨Or.inr rfl, rfl, rfl, rfl, rfl, rfl, rfl, rfl, rfl, rfl, rfl, fun h => by cases h⟩
      · split at h
        · simp only [pure, Except.pure, Except.ok.injEq, Prod.mk.injEq] at h
          obtain ⟨rfl, _, _, rfl⟩ := h
          exact ⟨Or.inr rfl, rfl, rfl, rfl, rfl, rfl, rfl, rfl, rfl, rfl, rfl, fun h => by cases h⟩
        · simp only [pure, Except.pure, Except.ok.injEq, Prod.mk.injEq] at h
          obtain ⟨rfl, _, _, rfl⟩ := h
          refine ⟨Or.inl rfl, rfl, rfl, rfl, rfl, rfl, rfl, rfl, rfl, rfl, rfl, fun _ => ⟨rfl, ?_⟩⟩
          simpa using hq

theorem ra_genReadAnswers_own (st : GenSt) (j : Nat) (hj : j ≠ st.i) (f : Nat) (I : Inbox) (s sp : List Int)
    (cm : List Nat) (I' : Inbox) (s' sp' : List Int) (cm' : List Nat)
    (h : genReadAnswers G st j f I s sp cm = .ok (I', s', sp', cm')) :
    s'.length = s.length ∧ getI s' st.i = getI s st.i :=
  ⟨(genReadAnswers_length G st j f I s sp cm I' s' sp' cm' h).1,
    (genReadAnswers_other G st j f I s sp cm I' s' sp' cm' h st.i (Ne.symm hj)).1⟩

theorem ra_genResolveGo_own (st : GenSt) (idx : List Nat) (I : Inbox) (s sp : List Int) (cm : List Nat)
    (I' : Inbox) (s' sp' : List Int) (cm' : List Nat)
    (h : genResolveGo G st idx I s sp cm = .ok (I', s', sp', cm')) :
    s'.length = s.length ∧ getI s' st.i = getI s st.i := by
  induction idx generalizing I s sp cm with
  | nil =>
    simp only [genResolveGo, Except.ok.injEq, Prod.mk.injEq] at h
    obtain ⟨_, rfl, _, _⟩ := h
    exact ⟨rfl, rfl⟩
  | cons k rest ih =>
    rcases genResolveGo_step G st k rest I s sp cm _ h with
      ⟨cm1, _, _, _, h'⟩ | ⟨hk, I1, s1, sp1, cm1, hr, h'⟩
    · exact ih _ _ _ _ h'
    · obtain ⟨a1, a2⟩ := ih _ _ _ _ h'
      obtain ⟨b1, b2⟩ := ra_genReadAnswers_own st k hk _ _ _ _ _ _ _ _ _ hr
      exact ⟨a1.trans b1, a2.trans b2⟩

theorem ra_genExtractCheck_shape (st : GenSt) (I : Inbox) (st' : GenSt) (I' : Inbox) (ops : List Op)
    (s : Status) (h : genExtractCheck G st I = .ok (st', I', ops, s)) :
    ∃ I1 A' cm, genReadA G st (List.range st.n) I st.A [] = .ok (I1, A', cm) ∧
      st' = { st with A := A', compl := sortUniq st.n cm } ∧ s = .run := by
  unfold genExtractCheck at h
  obtain ⟨⟨I1, A', cm⟩, h1, h⟩ := ag_bind_ok _ _ _ h
  simp only [pure, Except.pure, Except.ok.injEq, Prod.mk.injEq] at h
  obtain ⟨rfl, _, _, rfl⟩ := h
  exact ⟨I1, A', cm, h1, rfl, rfl⟩

theorem ra_genReadA_own (st : GenSt) (idx : List Nat) (I : Inbox) (A : List (List Int)) (cm : List Nat)
    (I' : Inbox) (A' : List (List Int)) (cm' : List Nat)
    (h : genReadA G st idx I A cm = .ok (I', A', cm')) : getRow A' st.i = getRow A st.i := by
  induction idx generalizing I A cm with
  | nil =>
    simp only [genReadA, Except.ok.injEq, Prod.mk.injEq] at h
    obtain ⟨_, rfl, _⟩ := h
    rfl
  | cons k rest ih =>
    rcases genReadA_step G st k rest I A cm _ h with ⟨_, h'⟩ | ⟨hk, _, c, I1, row, rhs, _, _, h'⟩
    · exact ih _ _ _ h'
    · rw [ih _ _ _ h', getRow_set_ne _ _ _ _ (Ne.symm hk)]

theorem ra_genReadExtract_mono (st : GenSt) (j : Nat) (f : Nat) (I : Inbox) (cm : List Nat) (I' : Inbox)
    (cm' : List Nat) (h : genReadExtract G st j f I cm = .ok (I', cm')) : ∀ x ∈ cm, x ∈ cm' := by
  induction f generalizing I cm with
  | zero =>
    simp only [genReadExtract, Except.ok.injEq, Prod.mk.injEq] at h
    obtain ⟨_, rfl⟩ := h
    exact fun _ hx => hx
  | succ f ih =>
    unfold genReadExtract at h
    rcases hp1 : I.popB none j with ⟨_ | w, I1⟩
    · rw [hp1] at h
      simp only [Except.ok.injEq, Prod.mk.injEq] at h
      obtain ⟨_, rfl⟩ := h
      exact fun x hx => List.mem_append_left _ hx
    · rw [hp1] at h
      simp only at h
      split at h
      · simp only [Except.ok.injEq, Prod.mk.injEq] at h
        obtain ⟨_, rfl⟩ := h
        exact fun _ hx => hx
      · rcases hp2 : I1.popB none j with ⟨_ | foo0, I2⟩
        · rw [hp2] at h
          simp only [Except.ok.injEq, Prod.mk.injEq] at h
          obtain ⟨_, rfl⟩ := h
          exact fun x hx => List.mem_append_left _ hx
        · rw [hp2] at h
          simp only at h
          rcases hp3 : I2.popB none j with ⟨_ | bar0, I3⟩
          · rw [hp3] at h
            simp only [ag_ite_pair, ag_ite_cm, Except.ok.injEq, Prod.mk.injEq] at h
            obtain ⟨_, rfl⟩ := h
            exact fun x hx => List.mem_append_left _ (List.mem_append_left _ hx)
          · rw [hp3] at h
            simp only [ag_ite_pair, ag_ite_cm] at h
            obtain ⟨gfoo, -, h⟩ := ag_bind_ok _ _ _ h
            obtain ⟨hbar, -, h⟩ := ag_bind_ok _ _ _ h
            obtain ⟨rhs, -, h⟩ := ag_bind_ok _ _ _ h
            have hbase : ∀ x ∈ cm, x ∈ cm ++ List.replicate (if absGe foo0 G.q = true then 1 else 0) j ++
                List.replicate (if absGe bar0 G.q = true then 1 else 0) j :=
              fun x hx => List.mem_append_left _ (List.mem_append_left _ hx)
            split at h
            · exact fun x hx => ih _ _ h x (List.mem_append_left _ (hbase x hx))
            · obtain ⟨rhs2, -, h⟩ := ag_bind_ok _ _ _ h
              refine fun x hx => ih _ _ h x ?_
              split <;> simp [hx]

theorem ra_genExtractGo_mono (st : GenSt) (idx : List Nat) (I : Inbox) (cm : List Nat) (I' : Inbox)
    (cm' : List Nat) (h : genExtractGo G st idx I cm = .ok (I', cm')) : ∀ x ∈ cm, x ∈ cm' := by
  induction idx generalizing I cm with
  | nil =>
    simp only [genExtractGo, Except.ok.injEq, Prod.mk.injEq] at h
    obtain ⟨_, rfl⟩ := h
    exact fun _ hx => hx
  | cons k rest ih =>
    unfold genExtractGo at h
    split at h
    · exact ih _ _ h
    · obtain ⟨⟨I1, cm1⟩, h1, h⟩ := ag_bind_ok _ _ _ h
      exact fun x hx => ih _ _ h x (ra_genReadExtract_mono st k _ _ _ _ _ h1 x hx)

theorem ra_genRecNext_shape (st st' : GenSt) (ops : List Op) (s : Status)
    (h : genRecNext G st = .ok (st', ops, s)) :
    (st.todo = [] ∧ genFinish G st = .ok st' ∧ s = .ret true) ∨
    (st.todo ≠ [] ∧ st' = st ∧ (s = .ret false ∨ s = .run)) := by
  unfold genRecNext at h
  split at h
  · rename_i htodo
    obtain ⟨st1, h1, h⟩ := ag_bind_ok _ _ _ h
    simp only [pure, Except.pure, Except.ok.injEq, Prod.mk.injEq] at h
    obtain ⟨rfl, _, rfl⟩ := h
    exact Or.inl ⟨htodo, h1, rfl⟩
  · rename_i it rest htodo
    right
    refine ⟨by rw [htodo]; simp, ?_⟩
    split at h
    · simp only [pure, Except.pure, Except.ok.injEq, Prod.mk.injEq] at h
      obtain ⟨rfl, _, rfl⟩ := h
      exact ⟨rfl, Or.inl rfl⟩
    · simp only [pure, Except.pure, Except.ok.injEq, Prod.mk.injEq] at h
      obtain ⟨rfl, _, rfl⟩ := h
      exact ⟨rfl, Or.inr rfl⟩

theorem ra_genExtractCollect_shape (st : GenSt) (I : Inbox) (st' : GenSt) (I' : Inbox) (ops : List Op)
    (s : Status) (h : genExtractCollect G st I = .ok (st', I', ops, s)) :
    ∃ I1 cm, genExtractGo G st (List.range st.n) I st.compl = .ok (I1, cm) ∧
      (s = .ret false ∨
       (sortUniq st.n cm ≠ [] ∧ st'.racc = sortUniq st.n cm) ∨
       (sortUniq st.n cm = [] ∧ s = .ret true ∧
        genFinish G { st with compl := [], racc := [], todo := [] } = .ok st')) := by
  unfold genExtractCollect at h
  obtain ⟨⟨I1, cm⟩, h1, h⟩ := ag_bind_ok _ _ _ h
  refine ⟨I1, cm, h1, ?_⟩
  simp only at h
  split at h
  · simp only [pure, Except.pure, Except.ok.injEq, Prod.mk.injEq] at h
    exact Or.inl h.2.2.2.symm
  · obtain ⟨⟨st2, ops2, s2⟩, h2, h⟩ := ag_bind_ok _ _ _ h
    simp only [pure, Except.pure, Except.ok.injEq, Prod.mk.injEq] at h
    obtain ⟨rfl, _, _, rfl⟩ := h
    rcases ra_genRecNext_shape _ _ _ _ h2 with ⟨h3, h4, h5⟩ | ⟨h3, h4, h5⟩
    · simp only at h3
      right; right
      refine ⟨h3, h5, ?_⟩
      rw [h3] at h4
      exact h4
    · simp only at h3
      rcases h5 with h5 | h5
      · exact Or.inl h5
      · right; left
        refine ⟨h3, ?_⟩
        rw [h4]

/-- the loop of `genFinish` that stores the verification keys -/
theorem ra_viFold (F : Nat → Except Err Int) (L : List Nat) (l0 l' : List Int)
    (h : L.foldlM (fun (l : List Int) jt => do
      let v ← F jt
      pure (l.set jt v)) l0 = .ok l') (i : Nat) :
    l'.length = l0.length ∧ (i ∉ L → getI l' i = getI l0 i) ∧
    (i ∈ L → L.Nodup → i < l0.length → ∃ v, F i = .ok v ∧ getI l' i = v) := by
  induction L generalizing l0 with
  | nil =>
    simp only [List.foldlM_nil, pure, Except.pure, Except.ok.injEq] at h
    subst h
    exact ⟨rfl, fun _ => rfl, fun hi => by cases hi⟩
  | cons k L ih =>
    simp only [List.foldlM_cons] at h
    obtain ⟨l1, h1, h⟩ := ag_bind_ok _ _ _ h
    obtain ⟨v, hv, h1⟩ := ag_bind_ok _ _ _ h1
    simp only [pure, Except.pure, Except.ok.injEq] at h1
    subst h1
    obtain ⟨a1, a2, a3⟩ := ih _ h
    refine ⟨by rw [a1]; simp, ?_, ?_⟩
    · intro hi
      have hik : i ≠ k := fun e => hi (by simp [e])
      rw [a2 (fun hh => hi (List.mem_cons_of_mem _ hh)), getI_set_ne _ _ _ _ hik]
    · intro hi hnd hlen
      have hnd' := List.nodup_cons.mp hnd
      by_cases hik : i = k
      · subst hik
        refine ⟨v, hv, ?_⟩
        rw [a2 hnd'.1, getI_set_self _ _ _ hlen]
      · have hiL : i ∈ L := by
          rcases List.mem_cons.mp hi with e | e
          · exact absurd e hik
          · exact e
        exact a3 hiL hnd'.2 (by simpa using hlen)

theorem ra_genFinish_shape (st st' : GenSt) (h : genFinish G st = .ok st') (hr : st.racc = []) :
    st'.A = st.A ∧ st'.qual = st.qual ∧ st'.s = st.s ∧ st'.gs = st.gs ∧ st'.x = st.x ∧ st'.i = st.i ∧
    st'.z = st.z ∧ st'.n = st.n ∧
    (st.qual.foldlM (fun (l : List Int) jt => do
      let v ← viOf G st.qual st.A jt
      pure (l.set jt v)) st.vi = .ok st'.vi) ∧
    st'.yi = st.qual.foldl (fun (l : List Int) j => l.set j (getI (getRow st.A j) 0)) st.yi := by
  unfold genFinish at h
  rw [hr] at h
  obtain ⟨A, hA, h⟩ := ag_bind_ok _ _ _ h
  simp only [List.foldlM_nil, pure, Except.pure, Except.ok.injEq] at hA
  subst hA
  obtain ⟨vi, hv, h⟩ := ag_bind_ok _ _ _ h
  simp only [pure, Except.pure, Except.ok.injEq] at h
  subst h
  exact ⟨rfl, rfl, rfl, rfl, rfl, rfl, rfl, rfl, hv, rfl⟩

/-! ### (C) fields of an honest party's state that the invariants of DkgAgree do not record -/

theorem ra_genDeal_fields (n t i : Nat) (sfb : Bool) (strong : List Int) (weak : List Nat) (st : GenSt)
    (ops : List Op) (s : Status) (h : genDeal G n t i sfb strong weak = .ok (st, ops, s)) :
    st.vi = zeros n ∧ st.A = zeroRows n t ∧ st.sfb = sfb ∧ st.yi = zeros n ∧
    gaList G ((List.range (t + 1)).map (fun k => getI strong (2 * k))) = .ok st.ga ∧
    st.z = (zeros n).set i (getI ((List.range (t + 1)).map (fun k => getI strong (2 * k))) 0) := by
  unfold genDeal at h
  by_cases hlen : strong.length < 2 * (t + 1)
  · simp [hlen, throw, throwThe, MonadExceptOf.throw, bind, Except.bind] at h
  · simp only [hlen, if_false] at h
    obtain ⟨ga, hga, h⟩ := ag_bind_ok _ _ _ h
    obtain ⟨hb, -, h⟩ := ag_bind_ok _ _ _ h
    simp only [pure, Except.pure, Except.ok.injEq, Prod.mk.injEq] at h
    obtain ⟨rfl, _, _⟩ := h
    exact ⟨rfl, rfl, rfl, rfl, hga, rfl⟩

theorem ra_genReadShares_keep (q : Int) (st : GenSt) (L : List Nat) (I : Inbox) (s sp : List Int) (cm : List Nat) :
    (genReadShares q st L I s sp cm).2.1.length = s.length ∧
    getI (genReadShares q st L I s sp cm).2.1 st.i = getI s st.i := by
  induction L generalizing I s sp cm with
  | nil => simp [genReadShares]
  | cons j rest ih =>
    unfold genReadShares
    by_cases hji : j = st.i
    · simp only [hji, if_true]
      exact ih _ _ _ _
    · simp only [hji, if_false]
      rcases I.popP j with ⟨_ | v, I1⟩
      · exact ih _ _ _ _
      · simp only [ag_ite_pair]
        rcases I1.popP j with ⟨_ | w, I2⟩
        · exact ⟨(ih _ _ _ _).1.trans (by simp), (ih _ _ _ _).2.trans (getI_set_ne _ _ _ _ (Ne.symm hji))⟩
        · exact ⟨(ih _ _ _ _).1.trans (by simp), (ih _ _ _ _).2.trans (getI_set_ne _ _ _ _ (Ne.symm hji))⟩

theorem ra_genVerify_keep (st : GenSt) (I : Inbox) (st' : GenSt) (I' : Inbox) (ops : List Op) (s : Status)
    (h : genVerify G st I = .ok (st', I', ops, s)) :
    st'.vi = st.vi ∧ st'.A = st.A ∧ st'.ga = st.ga ∧ st'.sfb = st.sfb ∧ st'.z = st.z ∧ st'.yi = st.yi ∧
    st'.s.length = st.s.length ∧ getI st'.s st.i = getI st.s st.i := by
  unfold genVerify at h
  rcases h1 : genReadC G st (List.range st.n) I st.C [] with ⟨I1, C, cm1⟩
  rw [h1] at h
  simp only at h
  have hk := ra_genReadShares_keep G.q st (List.range st.n) I1 st.s st.sp cm1
  rcases h2 : genReadShares G.q st (List.range st.n) I1 st.s st.sp cm1 with ⟨I2, s2, sp2, cm2⟩
  rw [h2] at h hk
  simp only at h hk
  obtain ⟨⟨gs, cm3⟩, -, h⟩ := ag_bind_ok _ _ _ h
  simp only [pure, Except.pure, Except.ok.injEq, Prod.mk.injEq] at h
  obtain ⟨rfl, _, _⟩ := h
  exact ⟨rfl, rfl, rfl, rfl, rfl, rfl, hk.1, hk.2⟩

theorem ra_genCollect_keep (st : GenSt) (I : Inbox) :
    (genCollect st I).1.vi = st.vi ∧ (genCollect st I).1.A = st.A ∧ (genCollect st I).1.ga = st.ga ∧
    (genCollect st I).1.sfb = st.sfb ∧ (genCollect st I).1.z = st.z ∧ (genCollect st I).1.yi = st.yi ∧
    (genCollect st I).1.s = st.s := by
  unfold genCollect
  rcases genCollectGo st (List.range st.n) I st.cnt [] [] with ⟨I1, cnt, cf, cm⟩
  exact ⟨rfl, rfl, rfl, rfl, rfl, rfl, rfl⟩

/-- what the later steps need of an honest party's state besides `S3` -/
structure Extra (G : Grp) (n t : Nat) (ins : List PartyIn) (i : Nat) (st : GenSt) : Prop where
  slen : st.s.length = n
  sown : getI st.s i = shA G t (pinOf ins i) i
  vi : st.vi = zeros n
  A : st.A = zeroRows n t
  ga : gaList G (coefA t (pinOf ins i)) = .ok st.ga
  sfb : st.sfb = false
  yi : st.yi = zeros n
  z : st.z = (zeros n).set i (getI (coefA t (pinOf ins i)) 0)

/-- one round whose step function keeps the extra fields -/
theorem ra_extra_round (steps : Nat → Step GenSt) (R : List (Party GenSt)) (i : Nat) (P P' : Party GenSt)
    (hP : R[i]? = some P) (hP' : (runRound steps R)[i]? = some P') (hi : P.st.i = i)
    (hkeep : ∀ st I st' I' ops s, steps i st I = .ok (st', I', ops, s) →
      st'.vi = st.vi ∧ st'.A = st.A ∧ st'.ga = st.ga ∧ st'.sfb = st.sfb ∧ st'.z = st.z ∧ st'.yi = st.yi ∧
      st'.s.length = st.s.length ∧ getI st'.s st.i = getI st.s st.i)
    (n t : Nat) (ins : List PartyIn) (he : Extra G n t ins i P.st) : Extra G n t ins i P'.st := by
  obtain ⟨P1, hP1, hd⟩ := ag_runRound_party steps R i P hP
  rw [hP'] at hP1
  injection hP1 with hP1
  subst hP1
  rw [hd.st]
  rcases ag_stepParty_st R.length (steps i) P with h | ⟨I, ops, status, h⟩
  · rw [h]; exact he
  · obtain ⟨k1, k2, k3, k4, k5, k6, k7, k8⟩ := hkeep _ _ _ _ _ _ h
    rw [hi] at k8
    exact ⟨k7.trans he.slen, k8.trans he.sown, k1.trans he.vi, k2.trans he.A, by rw [k3]; exact he.ga,
      k4.trans he.sfb, k6.trans he.yi, k5.trans he.z⟩

/-- the honest party `i` after rounds 0, 1, 2 -/
theorem ra_R3 (S : Setting G n t ins) (hn64 : n < 2 ^ 64) (hf : n - (honestIdx ins).length ≤ t)
    (i : Nat) (hi : i ∈ honestIdx ins) :
    Inv3 G n t ins (runRound (genStep G ins n t 2) (runRound (genStep G ins n t 1)
      (runRound (genStep G ins n t 0) (ps0 n t ins)))) ∧
    ∃ P, (runRound (genStep G ins n t 2) (runRound (genStep G ins n t 1)
      (runRound (genStep G ins n t 0) (ps0 n t ins))))[i]? = some P ∧
      S3 G n t ins i P ∧ Extra G n t ins i P.st := by
  have I1 := ag_round0 S
  have I2 := ag_round1 S hn64 _ I1
  have I3 := ag_round2 S hn64 hf _ I2
  obtain ⟨P1, hP1, s1⟩ := I1.2.1 i hi
  obtain ⟨P2, hP2, s2⟩ := I2.2.1 i hi
  obtain ⟨P3, hP3, s3⟩ := I3.2.1 i hi
  refine ⟨I3, P3, hP3, s3, ?_⟩
  obtain ⟨hi1, hi2⟩ := (ag_mem_honestIdx ins i).mp hi
  rw [S.hn] at hi1
  have hd := s1.dealt
  -- round 0
  have e1 : Extra G n t ins i P1.st := by
    have hP0 := ag_ps0_getElem? n t ins S.hn i hi1
    obtain ⟨P1', hP1', hdl⟩ := ag_runRound_party (genStep G ins n t 0) (ps0 n t ins) i _ hP0
    rw [hP1] at hP1'
    injection hP1' with hP1'
    subst hP1'
    have hslen : P1.st.s.length = n := by rw [hd.s]; simp [zeros]
    have hsown : getI P1.st.s i = shA G t (pinOf ins i) i := by
      rw [hd.s, getI_set_self _ _ _ (by simp [zeros, hi1])]
    rcases ag_stepParty_st (ps0 n t ins).length (genStep G ins n t 0 i) _ with h | ⟨I, ops, status, h⟩
    · exfalso
      have hC := hd.C
      rw [hdl.st, h] at hC
      have := congrArg List.length hC
      simp [zeroRows] at this
      omega
    · rw [← hdl.st] at h
      simp only [genStep] at h
      obtain ⟨⟨st1, ops1, sx⟩, hg, h⟩ := ag_bind_ok _ _ _ h
      simp only [pure, Except.pure, Except.ok.injEq, Prod.mk.injEq] at h
      obtain ⟨rfl, _, _, _⟩ := h
      obtain ⟨f1, f2, f3, f4, f5, f6⟩ := ra_genDeal_fields _ _ _ _ _ _ _ _ _ hg
      exact ⟨hslen, hsown, f1, f2, f5, by rw [f3]; exact (ag_honest_unpack _ hi2).1, f4, f6⟩
  have e2 : Extra G n t ins i P2.st :=
    ra_extra_round (genStep G ins n t 1) _ i P1 P2 hP1 hP2 hd.hi
      (fun st I st' I' ops s h => ra_genVerify_keep st I st' I' ops s h) n t ins e1
  exact ra_extra_round (genStep G ins n t 2) _ i P2 P3 hP2 hP3 s2.hi
    (fun st I st' I' ops s h => by
      have h' : (genCollect st I) = (st', I', ops, s) := by
        simp only [genStep, pure, Except.pure, Except.ok.injEq] at h
        exact h
      obtain ⟨k1, k2, k3, k4, k5, k6, k7⟩ := ra_genCollect_keep st I
      rw [h'] at k1 k2 k3 k4 k5 k6 k7
      simp only at k1 k2 k3 k4 k5 k6 k7
      exact ⟨k1, k2, k3, k4, k5, k6, by rw [k7], by rw [k7]⟩) n t ins e2

/-! ### (D) the key check from the states of rounds 3, 4, 5 -/

theorem ra_ga_checkElement (hG : ValidGrp G) (a : List Int) (ha : ∀ c ∈ a, 0 ≤ c ∧ c < G.q) (ga : List Int)
    (hga : gaList G a = .ok ga) : ∀ c ∈ ga, Dkg.checkElement G c = true := by
  have : Fact (Nat.Prime G.q.natAbs) := fact_q hG
  obtain ⟨ga', hga', hgb, hgm⟩ := gaList_aux hG a ha
  rw [hga] at hga'
  injection hga' with hga'
  subst hga'
  intro c hc
  obtain ⟨k, hk, rfl⟩ := List.getElem_of_mem hc
  have hka : k < a.length := by
    have := congrArg List.length hgm
    simp only [List.length_map] at this
    omega
  have hv : cp G ga[k] = cp G G.g ^ a[k] := by
    have := List.getElem_of_eq hgm (by simpa using hk)
    simpa using this
  obtain ⟨h0, h1, -⟩ := hgb ga[k] (List.getElem_mem hk)
  exact pl_checkElement_of_val hG _ a[k] 0 h0 h1 (by rw [hv]; simp)

theorem ra_yiFold (f : Nat → Int) (L : List Nat) (l0 : List Int) (i : Nat) :
    (i ∉ L → getI (L.foldl (fun l j => l.set j (f j)) l0) i = getI l0 i) ∧
    (i ∈ L → i < l0.length → getI (L.foldl (fun l j => l.set j (f j)) l0) i = f i) := by
  induction L generalizing l0 with
  | nil => exact ⟨fun _ => rfl, fun h => by cases h⟩
  | cons k L ih =>
    simp only [List.foldl_cons]
    obtain ⟨a1, a2⟩ := ih (l0.set k (f k))
    constructor
    · intro hi
      have hik : i ≠ k := fun e => hi (by simp [e])
      rw [a1 (fun hh => hi (List.mem_cons_of_mem _ hh)), getI_set_ne _ _ _ _ hik]
    · intro hi hlen
      by_cases hiL : i ∈ L
      · exact a2 hiL (by simpa using hlen)
      · have hik : i = k := by
          rcases List.mem_cons.mp hi with e | e
          · exact e
          · exact absurd e hiL
        subst hik
        rw [a1 hiL, getI_set_self _ _ _ hlen]

theorem ra_key (S : Setting G n t ins) (i : Nat) (hi : i ∈ honestIdx ins) (P3 : Party GenSt)
    (s3 : S3 G n t ins i P3) (e3 : Extra G n t ins i P3.st)
    (st4 : GenSt) (I4 : Inbox) (ops4 : List Op)
    (h3 : genResolve G P3.st P3.inbox = .ok (st4, I4, ops4, .run))
    (Ia : Inbox) (st5 : GenSt) (I5 : Inbox) (ops5 : List Op) (s5 : Status)
    (h4 : genExtractCheck G st4 Ia = .ok (st5, I5, ops5, s5))
    (Ib I1 : Inbox) (cm6 : List Nat)
    (h5 : genExtractGo G st5 (List.range st5.n) Ib st5.compl = .ok (I1, cm6))
    (hnil : sortUniq st5.n cm6 = []) (st6 : GenSt)
    (hfin : genFinish G { st5 with compl := [], racc := [], todo := [] } = .ok st6) :
    (∃ r, fspowm G.tabG G.g st6.x G.p = .ok r ∧ r = getI st6.vi i) ∧ st6.i = i ∧
      fspowm G.tabG G.g (getI st6.z i) G.p = .ok (getI st6.yi i) := by
  have hG := S.hG
  have : Fact (Nat.Prime G.q.natAbs) := fact_q hG
  obtain ⟨hi1, hi2⟩ := (ag_mem_honestIdx ins i).mp hi
  rw [S.hn] at hi1
  -- round 3
  obtain ⟨-, g1, g2, g3, g4, g5, g6, g7, g8, g9, g10, g11⟩ := ra_genResolve_shape _ _ _ _ _ _ h3
  obtain ⟨hA4, hqi⟩ := g11 rfl
  have hgs := genResolve_gs G _ _ _ _ _ _ h3
  obtain ⟨I1', s', sp', cm3, hgo, hq4, hs4, -⟩ := genResolve_qual G _ _ _ _ _ _ h3
  have hIb : ∀ j ∈ List.range P3.st.n, j < P3.inbox.b.length := fun j hj => by
    rw [s3.blen, ← s3.hn]; exact List.mem_range.mp hj
  obtain ⟨I'', s'', sp'', cm'', hgo', hin, -⟩ := ag_genResolveGo hG P3.st (List.range P3.st.n) List.nodup_range
    P3.inbox hIb P3.st.s P3.st.sp P3.st.compl
  rw [hgo] at hgo'
  simp only [Except.ok.injEq, Prod.mk.injEq] at hgo'
  obtain ⟨-, rfl, -, -⟩ := hgo'
  have hInR : InR G.q st4.s := by rw [hs4]; exact hin s3.sIn
  obtain ⟨hl4, ho4⟩ := ra_genResolveGo_own _ _ _ _ _ _ _ _ _ _ hgo
  rw [← hs4] at hl4 ho4
  rw [e3.slen] at hl4
  rw [s3.hi, e3.sown] at ho4
  rw [s3.hn] at g1 hq4
  rw [s3.hi] at g3 hA4 hqi
  rw [e3.sfb] at hA4
  have hA4' : st4.A = (zeroRows n t).set i P3.st.ga := by
    rw [hA4, e3.A]
    simp
  have hqnd : st4.qual.Nodup := by rw [hq4]; exact List.Nodup.filter _ List.nodup_range
  have hqlt : ∀ j ∈ st4.qual, j < n := fun j hj => by
    rw [hq4] at hj
    exact List.mem_range.mp (List.mem_filter.mp hj).1
  -- round 4
  obtain ⟨Ix, A', cm4, hra, hst5, -⟩ := ra_genExtractCheck_shape _ _ _ _ _ _ h4
  subst hst5
  simp only at h5 hnil hfin
  rw [g1] at hra h5 hnil
  -- no own complaint
  have hcm4 : ∀ j, j < n → j ∉ cm4 := by
    intro j hj hm
    have h1 : j ∈ sortUniq n cm4 := (ag_mem_sortUniq _ _ _).mpr ⟨hj, hm⟩
    have h2 := ra_genExtractGo_mono _ _ _ _ _ _ h5 j h1
    have h3 : j ∈ sortUniq n cm6 := (ag_mem_sortUniq _ _ _).mpr ⟨hj, h2⟩
    rw [hnil] at h3
    cases h3
  -- round 5
  obtain ⟨f1, f2, f3, f4, f5, f6, f7, -, f9, f10⟩ := ra_genFinish_shape _ _ hfin rfl
  simp only at f1 f2 f3 f4 f5 f6 f7 f9 f10
  -- the key check
  have hck := checkKey_of_checks hG st6 (by rw [f3, f4]; exact hgs)
    (fun j _ => by rw [f3]; exact ag_getI_InR G.q hG.vg.q_pos _ hInR j)
    (fun j hj => by rw [f3, hl4]; rw [f2] at hj; exact hqlt j hj)
    (by
      intro j hj
      rw [f2] at hj
      rw [f1, f6, g3, f4]
      by_cases hji : j = i
      · subst hji
        have hrow : getRow A' j = P3.st.ga := by
          have := ra_genReadA_own _ _ _ _ _ _ _ _ hra
          rw [g3] at this
          rw [this, hA4', getRow_set_self _ _ _ (by simp [zeroRows, hi1])]
        rw [hrow]
        obtain ⟨ha, -, -, -⟩ := ag_coef_range (G := G) t (pinOf ins j) (S.hc j hi)
        refine ⟨ra_ga_checkElement hG _ ha _ e3.ga, ?_⟩
        obtain ⟨l, r, e1, e2, e3'⟩ := feldman_check hG _ ha _ e3.ga (j + 1)
        have := run_gaList_get st4.s st4.gs hgs j (by rw [hl4]; exact hi1)
        rw [ho4] at this
        unfold shA at this
        rw [e1] at this
        injection this with this
        rw [e2, ← e3', this]
      · have hsound := (genReadA_sound G st4 (List.range n) List.nodup_range _ _ _ _ _ _ hra).2 j
          (List.mem_range.mpr (hqlt j hj)) (by rw [g3]; exact hji) (by simpa using hj)
          (by rw [hA4']; simp [zeroRows]; exact hqlt j hj) (hcm4 j (hqlt j hj))
        rw [g3] at hsound
        exact hsound)
    (by rw [f5, f3, f2]; exact g10)
  obtain ⟨v, r, hv, hr, hrv⟩ := hck
  refine ⟨⟨r, hr, ?_⟩, by rw [f6, g3], ?_⟩
  swap
  · have ha0 : 0 < (coefA t (pinOf ins i)).length := by simp [coefA]
    have h0 := run_gaList_get _ _ e3.ga 0 ha0
    rw [f7, g7, e3.z, getI_set_self _ _ _ (by simp [zeros, hi1]), h0, f10, g8, e3.yi]
    congr 1
    have hfold := (ra_yiFold (fun j => getI (getRow A' j) 0) st4.qual (zeros n) i).2
      (by simpa using hqi) (by simp [zeros, hi1])
    rw [hfold]
    have := ra_genReadA_own _ _ _ _ _ _ _ _ hra
    rw [g3] at this
    rw [this, hA4', getRow_set_self _ _ _ (by simp [zeroRows, hi1])]
  rw [f2, f1, f6, g3] at hv
  obtain ⟨-, -, hfold⟩ := ra_viFold (fun jt => viOf G st4.qual A' jt) st4.qual st4.vi st6.vi f9 i
  obtain ⟨v', hv', hget⟩ := hfold (by simpa using hqi) hqnd (by rw [g4, e3.vi]; simp [zeros, hi1])
  rw [hv] at hv'
  injection hv' with hv'
  rw [hrv, hget, hv']

/-! ### (E) the run -/

theorem ra_range_split6 (t : Nat) : List.range (6 + t + 1) = [0, 1, 2, 3, 4, 5] ++ List.range' 6 (t + 1) := by
  rw [List.range_eq_range', show 6 + t + 1 = 6 + (t + 1) by omega, ← List.range'_append_1]
  rfl

theorem ra_runRounds_cons {σ} (steps : Nat → Nat → Step σ) (k : Nat) (L : List Nat) (ps : List (Party σ)) :
    runRounds steps (k :: L) ps = runRounds steps L (runRound (steps k) ps) := rfl

theorem ra_runGen_split (n t : Nat) (ins : List PartyIn) :
    runGen G n t ins = runRounds (genStep G ins n t) (List.range' 6 (t + 1))
      (runRound (genStep G ins n t 5) (runRound (genStep G ins n t 4) (runRound (genStep G ins n t 3)
        (runRound (genStep G ins n t 2) (runRound (genStep G ins n t 1)
          (runRound (genStep G ins n t 0) (ps0 n t ins))))))) := by
  rw [ag_runGen_eq, ra_range_split6, ag_runRounds_append]
  rfl

theorem ra_dead_contra {σ} (steps : Nat → Nat → Step σ) (L : List Nat) (R : List (Party σ)) (i : Nat)
    (P Pi : Party σ) (hP : R[i]? = some P) (hl : P.live = false) (hne : P.status ≠ .ret true)
    (hPi : (runRounds steps L R)[i]? = some Pi) (hret : Pi.status = .ret true) {C : Prop} : C := by
  obtain ⟨P', hP', -, h2⟩ := ra_notlive_rounds steps L R i P hP hl
  rw [hPi] at hP'
  injection hP' with hP'
  subst hP'
  exact absurd (h2 ▸ hret) hne

set_option linter.unusedVariables false in
/-- an honest party that finished `Generate` with `true` and without any reconstruction: both
    comparisons of `CheckKey()` -/
theorem ra_run_core (hG : ValidGrp G) (n t : Nat) (ins : List PartyIn) (hn : ins.length = n)
    (ht : 2 * t < n) (hn64 : n < 2 ^ 64) (hf : n - (honestIdx ins).length ≤ t)
    (hc : ∀ i ∈ honestIdx ins, goodCoins G t (ins.getD i ⟨[], [], {}, {}⟩))
    (i : Nat) (hi : i ∈ honestIdx ins) (Pi : Party GenSt)
    (hPi : (runGen G n t ins)[i]? = some Pi) (hret : Pi.status = .ret true) (hracc : Pi.st.racc = []) :
    (∃ r, fspowm G.tabG G.g Pi.st.x G.p = .ok r ∧ r = getI Pi.st.vi i) ∧ Pi.st.i = i ∧
      fspowm G.tabG G.g (getI Pi.st.z i) G.p = .ok (getI Pi.st.yi i) := by
  have S : Setting G n t ins := ⟨hG, hn, hc⟩
  obtain ⟨-, P3, hP3, s3, e3⟩ := ra_R3 S hn64 hf i hi
  rw [ra_runGen_split] at hPi
  generalize hR3 : runRound (genStep G ins n t 2) (runRound (genStep G ins n t 1)
      (runRound (genStep G ins n t 0) (ps0 n t ins))) = R3 at hP3 hPi
  rw [← ra_runRounds_cons (genStep G ins n t) 5, ← ra_runRounds_cons (genStep G ins n t) 4] at hPi
  -- round 3
  cases hs3 : genResolve G P3.st P3.inbox with
  | error e =>
    obtain ⟨P4, hP4, hst, hnl⟩ := ra_err_round (genStep G ins n t 3) R3 i P3 hP3 s3.hl e hs3
    exact ra_dead_contra _ _ _ i P4 Pi hP4 hnl (by rw [hst]; simp) hPi hret
  | ok r3 =>
    obtain ⟨st4, I4, ops4, s4⟩ := r3
    obtain ⟨-, P4, hP4, a1, a2, a3, a4, a5, a6, -⟩ :=
      ag_honest_round (genStep G ins n t 3) R3 i P3 hP3 s3.hl _ _ _ _ hs3
    rcases (ra_genResolve_shape _ _ _ _ _ _ hs3).1 with rfl | rfl
    swap
    · exact ra_dead_contra _ _ _ i P4 Pi hP4
        (by simp [Party.live, a2]) (by rw [a2]; simp) hPi hret
    have hl4 : HL P4 := ⟨by rw [a4]; exact s3.hl.1, a5, a3, a2⟩
    generalize hR4 : runRound (genStep G ins n t 3) R3 = R4 at hP4 hPi
    rw [ra_runRounds_cons] at hPi
    have hPi4 := hPi
    -- round 4
    cases hs4 : genExtractCheck G P4.st P4.inbox with
    | error e =>
      obtain ⟨P5, hP5, hst, hnl⟩ := ra_err_round (genStep G ins n t 4) R4 i P4 hP4 hl4 e hs4
      exact ra_dead_contra _ _ _ i P5 Pi hP5 hnl (by rw [hst]; simp) hPi4 hret
    | ok r4 =>
      obtain ⟨st5, I5, ops5, s5⟩ := r4
      obtain ⟨-, P5, hP5, b1, b2, b3, b4, b5, b6, -⟩ :=
        ag_honest_round (genStep G ins n t 4) R4 i P4 hP4 hl4 _ _ _ _ hs4
      obtain ⟨-, -, -, -, -, hs5⟩ := ra_genExtractCheck_shape _ _ _ _ _ _ hs4
      subst hs5
      have hl5 : HL P5 := ⟨by rw [b4]; exact hl4.1, b5, b3, b2⟩
      generalize hR5 : runRound (genStep G ins n t 4) R4 = R5 at hP5 hPi4
      rw [ra_runRounds_cons] at hPi4
      have hPi5 := hPi4
      -- round 5
      cases hs5 : genExtractCollect G P5.st P5.inbox with
      | error e =>
        obtain ⟨P6, hP6, hst, hnl⟩ := ra_err_round (genStep G ins n t 5) R5 i P5 hP5 hl5 e hs5
        exact ra_dead_contra _ _ _ i P6 Pi hP6 hnl (by rw [hst]; simp) hPi5 hret
      | ok r5 =>
        obtain ⟨st6, I6, ops6, s6⟩ := r5
        obtain ⟨-, P6, hP6, c1, c2, c3, c4, c5, c6, -⟩ :=
          ag_honest_round (genStep G ins n t 5) R5 i P5 hP5 hl5 _ _ _ _ hs5
        generalize hR6 : runRound (genStep G ins n t 5) R5 = R6 at hP6 hPi5
        have hPi6 := hPi5
        obtain ⟨I1, cm6, hgo, hcase⟩ := ra_genExtractCollect_shape _ _ _ _ _ _ hs5
        rcases hcase with rfl | ⟨hne, hr⟩ | ⟨hnil, rfl, hfin⟩
        · exact ra_dead_contra _ _ _ i P6 Pi hP6
            (by simp [Party.live, c2]) (by rw [c2]; simp) hPi6 hret
        · exfalso
          have := ra_runRounds_racc (G := G) ins n t (List.range' 6 (t + 1))
            (fun k hk => (List.mem_range'_1.mp hk).1) R6 i
          rw [hPi6, hP6] at this
          simp only [Option.map_some, Option.some.injEq] at this
          rw [hracc, c1, hr] at this
          exact hne this.symm
        · obtain ⟨P', hP', f1, -⟩ := ra_notlive_rounds (genStep G ins n t) (List.range' 6 (t + 1)) R6 i P6 hP6
            (by simp [Party.live, c2])
          rw [hPi6] at hP'
          injection hP' with hP'
          subst hP'
          rw [f1, c1]
          rw [b1] at hgo hnil hfin
          rw [a1] at hs4
          exact ra_key S i hi P3 s3 e3 st4 I4 ops4 hs3 P4.inbox st5 I5 ops5 .run hs4 P5.inbox I1 cm6 hgo hnil
            st6 hfin

set_option linter.unusedVariables false in
/-- "each honest party's share matches the public verification values" for whole runs: an honest
    party that finished `Generate` with `true` and without any reconstruction (`racc = []`) holds a
    share `x_i` with `g^{x_i} = v_i` — the first test of `CheckKey()` succeeds -/
theorem share_matches_vk_run (hG : ValidGrp G) (n t : Nat) (ins : List PartyIn) (hn : ins.length = n)
    (ht : 2 * t < n) (hn64 : n < 2 ^ 64) (hf : n - (honestIdx ins).length ≤ t)
    (hc : ∀ i ∈ honestIdx ins, goodCoins G t (ins.getD i ⟨[], [], {}, {}⟩))
    (i : Nat) (hi : i ∈ honestIdx ins) (Pi : Party GenSt)
    (hPi : (runGen G n t ins)[i]? = some Pi) (hret : Pi.status = .ret true) (hracc : Pi.st.racc = []) :
    ∃ r, fspowm G.tabG G.g Pi.st.x G.p = .ok r ∧ r = getI Pi.st.vi i :=
  (ra_run_core hG n t ins hn ht hn64 hf hc i hi Pi hPi hret hracc).1

set_option linter.unusedVariables false in
/-- under the same hypotheses `CheckKey()` returns `true` -/
theorem checkKey_run (hG : ValidGrp G) (n t : Nat) (ins : List PartyIn) (hn : ins.length = n)
    (ht : 2 * t < n) (hn64 : n < 2 ^ 64) (hf : n - (honestIdx ins).length ≤ t)
    (hc : ∀ i ∈ honestIdx ins, goodCoins G t (ins.getD i ⟨[], [], {}, {}⟩))
    (i : Nat) (hi : i ∈ honestIdx ins) (Pi : Party GenSt)
    (hPi : (runGen G n t ins)[i]? = some Pi) (hret : Pi.status = .ret true) (hracc : Pi.st.racc = []) :
    genCheckKey G Pi.st = .ok true := by
  obtain ⟨⟨r, hr, hrv⟩, hii, hz⟩ := ra_run_core hG n t ins hn ht hn64 hf hc i hi Pi hPi hret hracc
  unfold genCheckKey
  simp only [hr, hii, hz, hrv, bind, Except.bind, pure, Except.pure]
  simp

end Tmcg.DkgP
