import TmcgProofs.DkgAgree
import TmcgProofs.DkgRun
/-
  C15, run level: "each honest party's share matches the public verification values" for whole runs
  of `runGen` in which the party finished `Generate` with `true` and nobody was reconstructed
  (`racc = []`): `share_matches_vk_run`.
-/
namespace Tmcg.DkgP
open Tmcg Tmcg.Powm Tmcg.Dkg Tmcg.Grp Tmcg.DkgL

variable {G : Dkg.Grp} [Fact (Nat.Prime G.p.natAbs)]

set_option linter.unusedSectionVars false

/-! ### (A) parties that stopped; fields no later round touches -/

theorem ra_live_false_of {σ} (P P' : Party σ) (h : P.live = false) (h1 : P'.status = P.status)
    (h2 : P'.err = P.err) (h3 : P'.fs = P.fs) : P'.live = false := by
  simpa [Party.live, h1, h2, h3] using h

/-- a party that is not live is not touched by a round (apart from its inbox) -/
theorem ra_notlive_round {σ} (steps : Nat → Step σ) (R : List (Party σ)) (i : Nat) (P : Party σ)
    (hP : R[i]? = some P) (hl : P.live = false) :
    ∃ P', (runRound steps R)[i]? = some P' ∧ P'.st = P.st ∧ P'.status = P.status ∧ P'.live = false := by
  obtain ⟨P', hP', hd⟩ := ag_runRound_party steps R i P hP
  rw [ag_stepParty_notlive _ _ _ hl] at hd
  exact ⟨P', hP', hd.st, hd.status, ra_live_false_of P P' hl hd.status hd.err hd.fs⟩

theorem ra_notlive_rounds {σ} (steps : Nat → Nat → Step σ) (L : List Nat) (R : List (Party σ)) (i : Nat)
    (P : Party σ) (hP : R[i]? = some P) (hl : P.live = false) :
    ∃ P', (runRounds steps L R)[i]? = some P' ∧ P'.st = P.st ∧ P'.status = P.status := by
  induction L generalizing R P with
  | nil => exact ⟨P, hP, rfl, rfl⟩
  | cons k L ih =>
    obtain ⟨P1, hP1, e1, e2, e3⟩ := ra_notlive_round (steps k) R i P hP hl
    obtain ⟨P2, hP2, f1, f2⟩ := ih (runRound (steps k) R) P1 hP1 e3
    exact ⟨P2, hP2, f1.trans e1, f2.trans e2⟩

/-- a live honest party whose step fails keeps status `run` and is stopped -/
theorem ra_err_round {σ} (steps : Nat → Step σ) (R : List (Party σ)) (i : Nat) (P : Party σ)
    (hP : R[i]? = some P) (hl : HL P) (e : Err) (hs : steps i P.st P.inbox = .error e) :
    ∃ P', (runRound steps R)[i]? = some P' ∧ P'.status = .run ∧ P'.live = false := by
  obtain ⟨P', hP', hd⟩ := ag_runRound_party steps R i P hP
  have hsp : stepParty R.length (steps i) P = ({ P with err := some e }, [], []) := by
    simp [stepParty, ag_HL_live P hl, hs]
  rw [hsp] at hd
  refine ⟨P', hP', by rw [hd.status]; exact hl.2.2.2, ?_⟩
  simp [Party.live, hd.err]

/-- a field that the step functions of a round leave alone -/
theorem ra_runRound_field {α} (f : GenSt → α) (steps : Nat → Step GenSt)
    (hpres : ∀ i st I st' I' ops s, steps i st I = .ok (st', I', ops, s) → f st' = f st)
    (ps : List (Party GenSt)) (i : Nat) :
    ((runRound steps ps)[i]?).map (fun P => f P.st) = (ps[i]?).map (fun P => f P.st) := by
  cases hP : ps[i]? with
  | none =>
    have : (runRound steps ps)[i]? = none := by
      rw [List.getElem?_eq_none_iff, ag_runRound_length]
      exact List.getElem?_eq_none_iff.mp hP
    rw [this]
  | some P =>
    obtain ⟨P', hP', hd⟩ := ag_runRound_party steps ps i P hP
    rw [hP']
    simp only [Option.map_some, hd.st]
    congr 1
    rcases ag_stepParty_st ps.length (steps i) P with h | ⟨I, ops, status, h⟩
    · rw [h]
    · exact hpres i _ _ _ _ _ _ h

theorem ra_genFinish_racc (st st' : GenSt) (h : genFinish G st = .ok st') : st'.racc = st.racc := by
  unfold genFinish at h
  obtain ⟨A, -, h⟩ := ag_bind_ok _ _ _ h
  obtain ⟨vi, -, h⟩ := ag_bind_ok _ _ _ h
  injection h with h
  rw [← h]

theorem ra_genRecNext_racc (st st' : GenSt) (ops : List Op) (s : Status)
    (h : genRecNext G st = .ok (st', ops, s)) : st'.racc = st.racc := by
  unfold genRecNext at h
  split at h
  · obtain ⟨st1, h1, h⟩ := ag_bind_ok _ _ _ h
    injection h with h
    injection h with h
    rw [← h]
    exact ra_genFinish_racc st st1 h1
  · split at h
    · injection h with h
      injection h with h
      rw [← h]
    · injection h with h
      injection h with h
      rw [← h]

theorem ra_genRecStep_racc (st st' : GenSt) (I I' : Inbox) (ops : List Op) (s : Status)
    (h : genRecStep G st I = .ok (st', I', ops, s)) : st'.racc = st.racc := by
  unfold genRecStep at h
  split at h
  · injection h with h
    injection h with h
    rw [← h]
  · obtain ⟨⟨I1, parties, shares⟩, -, h⟩ := ag_bind_ok _ _ _ h
    simp only at h
    split at h
    · injection h with h
      injection h with h
      rw [← h]
    · split at h
      · injection h with h
        injection h with h
        rw [← h]
      · split at h
        · injection h with h
          injection h with h
          rw [← h]
        · obtain ⟨⟨st3, ops3, s3⟩, h1, h⟩ := ag_bind_ok _ _ _ h
          injection h with h
          injection h with h
          rw [← h]
          exact (ra_genRecNext_racc _ _ _ _ h1).trans rfl

theorem ra_runRounds_racc (ins : List PartyIn) (n t : Nat) (l : List Nat) (hl : ∀ k ∈ l, 6 ≤ k)
    (ps : List (Party GenSt)) (i : Nat) :
    ((runRounds (genStep G ins n t) l ps)[i]?).map (fun P => P.st.racc) = (ps[i]?).map (fun P => P.st.racc) := by
  induction l generalizing ps with
  | nil => rfl
  | cons k l ih =>
    simp only [runRounds]
    rw [ih (fun k hk => hl k (List.mem_cons_of_mem _ hk))]
    apply ra_runRound_field (fun st => st.racc)
    intro i st I st' I' ops s h
    have hk : 6 ≤ k := hl k (by simp)
    obtain ⟨m, rfl⟩ : ∃ m, k = m + 6 := ⟨k - 6, by omega⟩
    exact ra_genRecStep_racc _ _ _ _ _ _ h

end Tmcg.DkgP
