import TmcgProofs.ArgsGrothModes
import TmcgProofs.ArgsSoundAlg
/-
  C04 for Groth's shuffle argument, part 2: the shuffle of known content (`GrothSKC`) played by the
  honest prover algorithm with a witness that need not fit: a map `pi` that is no permutation, or a
  commitment `c` that does not contain the messages.  The verifier's two equations are evaluated on
  the honest algorithm's values; acceptance pins the challenge `x` to the roots of the permutation
  polynomial, resp. the batching coin `α` to `0 (mod q)`.
-/
namespace Tmcg.Args
open Tmcg Tmcg.Powm Tmcg.Vtmf Tmcg.Grp Tmcg.Sigma Tmcg.SigmaComplete Tmcg.CoinFlip
variable {G : Group} [Fact (Nat.Prime G.p.natAbs)] [Fact (Nat.Prime G.q.natAbs)]
set_option linter.unusedVariables false
set_option linter.unusedSectionVars false

/-! ### running a verifier: acceptance goes through every check -/

theorem run_liftE_bind {α} (x : Except Err α) (f : α → M Bool) (s : St) (o : PcOutcome)
    (h : run (liftE x >>= f) s = .ok o) : ∃ a, x = .ok a ∧ run (f a) s = .ok o := by
  cases x with
  | error e =>
    have : run (liftE (Except.error e : Except Err α) >>= f) s = .error e := rfl
    rw [this] at h; cases h
  | ok a => exact ⟨a, rfl, h⟩

theorem run_reject_bind {α} (g : α → M Bool) (s : St) :
    run ((reject : M α) >>= g) s = .ok ⟨s.sent, false, false⟩ := rfl

/-- a check `let ok ← liftE x; if !ok then reject; rest` in front of an accepting run succeeded -/
theorem run_check_bind (x : Except Err Bool) (rest : M Bool) (s : St) (o : PcOutcome)
    (ho : o.result = true)
    (h : run (liftE x >>= fun ok => if (!ok) = true then (reject : M PUnit) >>= fun _ => rest else rest) s
      = .ok o) : x = .ok true ∧ run rest s = .ok o := by
  obtain ⟨a, ha, hr⟩ := run_liftE_bind x _ s o h
  cases a with
  | false =>
    simp only [Bool.not_false, if_true] at hr
    rw [run_reject_bind] at hr
    cases hr
    cases ho
  | true =>
    simp only [Bool.not_true, Bool.false_eq_true, if_false] at hr
    exact ⟨ha, hr⟩

/-! ### `Verify` of the commitment scheme, converse direction -/

/-- `Verify` accepts only a `c` whose value is the commitment of `(m; r)` -/
theorem comVerify_true (hG : ValidGroup G) {P : GrothPub} (hP : PubOk G P) (c r : ℤ) (m : List ℤ)
    (hl : m.length ≤ P.cg.length) (hr : r.natAbs < G.q.natAbs)
    (hm : ∀ v ∈ m, v.natAbs < G.q.natAbs) (h : comVerify P c r m = .ok true) :
    toF G c = comVal G P m.length (fun i => m.getD i 0) r := by
  obtain ⟨c0, hc0, a0, ap, av⟩ := fpowm_val hG P.S.tabH P.S.h r hP.st.tabH (h_ne hG P.S hP.st) hr
  obtain ⟨c2, hc2, v0, vp, vv⟩ := comProd_val hG hP false m 0 c0 (by omega) ⟨a0, ap⟩ hm
  simp only [comVerify, hP.st.grp] at h
  rw [if_neg (by omega)] at h
  by_cases hq : G.q ≤ r
  · rw [if_pos hq] at h; cases h
  · rw [if_neg hq, hc0] at h
    simp only [bind, Except.bind, hc2, pure, Except.pure] at h
    by_cases hc : c ≤ 0 ∨ G.p ≤ c
    · rw [if_pos hc] at h; cases h
    · rw [if_neg hc] at h
      have e : c = c2 := by simpa using h
      rw [e, vv, av]; simp [comVal]

/-! ### the polynomial check on the honest algorithm's values, for any map `pi` -/

/-- the left-hand side `F_n` of the last check on the honest prover's responses, for ANY index map
    `pi`: `e Π (m_{π(j)} - x)` -/
theorem skc_poly_lhs (hG : ValidGroup G) (pi : List ℕ) (m : List ℤ)
    (hn : 2 ≤ m.length) (x e einv : ℤ) (he : toQ G e ≠ 0) (hinv : toQ G einv = (toQ G e)⁻¹)
    (d Delta la F FDz : List ℤ) (lF : F.length = m.length)
    (hΔ0 : toQ G (Delta.getD 0 0) = toQ G (d.getD 0 0)) (hΔn : toQ G (Delta.getD (m.length - 1) 0) = 0)
    (hla : ∀ i, i + 1 < m.length → toQ G (la.getD i 0) =
      toQ G (Delta.getD (i + 1) 0) - (toQ G (m.getD (pi.getD (i + 1) 0) 0) - toQ G x) * toQ G (Delta.getD i 0)
        - (∏ j ∈ Finset.range (i + 1), (toQ G (m.getD (pi.getD j 0) 0) - toQ G x)) * toQ G (d.getD (i + 1) 0))
    (hF : ∀ i < m.length, toQ G (F.getD i 0) =
      toQ G e * toQ G (m.getD (pi.getD i 0) 0) + toQ G (d.getD i 0))
    (hFD : ∀ i, i + 1 < m.length → toQ G (FDz.getD i 0) =
      toQ G (la.getD i 0) * toQ G e - toQ G (Delta.getD i 0) * toQ G (d.getD (i + 1) 0)) :
    toQ G (skcF G.q e x einv F FDz) =
      toQ G e * ∏ j ∈ Finset.range m.length, (toQ G (m.getD (pi.getD j 0) 0) - toQ G x) := by
  rw [skcF_val hG e x einv F FDz (by omega) hinv, lF]
  rw [Frec_congr (toQ G e) (toQ G x) _
    (fun i => toQ G e * toQ G (m.getD (pi.getD i 0) 0) + toQ G (d.getD i 0)) _
    (fun i => toQ G e * (toQ G (Delta.getD (i + 1) 0) -
      (toQ G (m.getD (pi.getD (i + 1) 0) 0) - toQ G x) * toQ G (Delta.getD i 0) -
      (∏ j ∈ Finset.range (i + 1), (toQ G (m.getD (pi.getD j 0) 0) - toQ G x)) * toQ G (d.getD (i + 1) 0))
      - toQ G (Delta.getD i 0) * toQ G (d.getD (i + 1) 0)) (m.length - 1)
    (fun j hj => hF j (by omega))
    (fun j hj => by rw [hFD j (by omega), hla j (by omega)]; ring)]
  rw [Frec_eq (toQ G e) (toQ G x) he (fun i => toQ G (m.getD (pi.getD i 0) 0)) (fun i => toQ G (d.getD i 0))
    (fun i => toQ G (Delta.getD i 0)) hΔ0 (m.length - 1), hΔn, add_zero]
  rw [show m.length - 1 + 1 = m.length by omega]

/-- the right-hand side of the last check: `e Π (m_j - x)` -/
theorem skc_poly_rhs (hG : ValidGroup G) (m : List ℤ) (x e : ℤ) :
    toQ G ((m.foldl (fun acc mi => acc * ((mi - x) % G.q) % G.q) 1) * e % G.q) =
      (∏ j ∈ Finset.range m.length, (toQ G (m.getD j 0) - toQ G x)) * toQ G e := by
  rw [toQ_emod hG, toQ_mul, foldl_list_mulmod hG (fun mi => mi - x), toQ_one, one_mul, ← prod_map_range]
  have h : (m.map fun mi => toQ G (mi - x)) =
      (List.range m.length).map (fun j => toQ G (m.getD j 0) - toQ G x) := by
    conv_lhs => rw [list_eq_map_range m 0 m.length rfl]
    rw [List.map_map]
    apply List.map_congr_left
    intro j _
    simp [toQ_sub]
  rw [h]

/-- an inverse modulo `q` returned by `invm` -/
theorem invm_q_some (hG : ValidGroup G) (e r : ℤ) (h : invm e G.q = some r) :
    toQ G e ≠ 0 ∧ toQ G r = (toQ G e)⁻¹ := by
  obtain ⟨-, -, hc⟩ := invm_some h
  have h1 : toQ G (e * r) = toQ G 1 := (toQ_eq_iff hG _ _).mpr hc
  rw [toQ_mul, toQ_one] at h1
  have he : toQ G e ≠ 0 := by
    intro h0; rw [h0, zero_mul] at h1; exact zero_ne_one h1
  exact ⟨he, eq_inv_of_mul_eq_one_right h1⟩

/-! ### the verifier's equations on the honest algorithm's values -/

/-- **soundness core of the shuffle of known content**: the honest prover algorithm ran with an
    arbitrary index map `pi` (of the right length), messages `m` and randomiser `rho`; the verifier
    holds any nonzero `c`.  If its equations hold, then `e` is invertible, `x` is a root of the
    permutation polynomial `Π (m_{π(j)} - X) - Π (m_j - X)`, and `c` agrees with the commitment
    `com(m_{π(i)} - f'_i; rho)` after raising to `e α`. -/
theorem skc_core_sound (hG : ValidGroup G) {P : GrothPub} (hP : PubOk G P) (pi : List ℕ) (m : List ℤ)
    (lpi : pi.length = m.length) (hn : 2 ≤ m.length) (hcg : m.length ≤ P.cg.length)
    (rho x rd rDelta : ℤ) (d mid : List ℤ) (ra cd cDelta ca : ℤ)
    (ld : d.length = m.length)
    (vcd : Val G cd (comVal G P m.length (fun i => d.getD i 0) rd))
    (vcD : Val G cDelta (comVal G P m.length
      (fun i => (skcLDelta G.q m.length d (skcDelta m.length d mid)).getD i 0) rDelta))
    (vca : Val G ca (comVal G P m.length
      (fun i => (skcLa G.q x m.length (pi.map fun j => m.getD j 0) d (skcDelta m.length d mid)).getD i 0) ra))
    (e alpha c : ℤ) (fprime : List ℤ) (hc0 : toF G c ≠ 0)
    (hchk : skcChecks P c fprime m x cd cDelta ca e
      (skcRespF G.q pi m ⟨x, rd, rDelta, d, skcDelta m.length d mid, ra,
        skcLa G.q x m.length (pi.map fun j => m.getD j 0) d (skcDelta m.length d mid), cd, cDelta, ca⟩ e)
      ((e * rho % G.q + rd) % G.q)
      (skcRespFD G.q m.length ⟨x, rd, rDelta, d, skcDelta m.length d mid, ra,
        skcLa G.q x m.length (pi.map fun j => m.getD j 0) d (skcDelta m.length d mid), cd, cDelta, ca⟩ e
        ++ [0])
      ((e * ra % G.q + rDelta) % G.q) alpha = .ok true) :
    toQ G e ≠ 0 ∧
    (∏ j ∈ Finset.range m.length, (toQ G (m.getD (pi.getD j 0) 0) - toQ G x) =
      ∏ j ∈ Finset.range m.length, (toQ G (m.getD j 0) - toQ G x)) ∧
    toF G c ^ (e * alpha) =
      comVal G P m.length (fun i => m.getD (pi.getD i 0) 0 - fprime.getD i 0) rho ^ (e * alpha) := by
  have hq := hG.q_pos
  have hp1 := one_lt_p hG
  set Delta := skcDelta m.length d mid with hDelta
  set mp := pi.map (fun j => m.getD j 0) with hmp
  set la := skcLa G.q x m.length mp d Delta with hla
  set lD := skcLDelta G.q m.length d Delta with hlD
  have hmpi : ∀ i < m.length, mp.getD i 0 = m.getD (pi.getD i 0) 0 := by
    intro i hi
    rw [hmp, getD_map (fun j => m.getD j 0) pi i 0 0 (by omega)]
  have n0c := comVal_ne_zero hG hP m.length hcg
  have lF : (skcRespF G.q pi m ⟨x, rd, rDelta, d, Delta, ra, la, cd, cDelta, ca⟩ e).length = m.length := by
    simp [skcRespF]
  have lFD : (skcRespFD G.q m.length ⟨x, rd, rDelta, d, Delta, ra, la, cd, cDelta, ca⟩ e).length =
      m.length - 1 := by simp [skcRespFD]
  have gF : ∀ i < m.length, (skcRespF G.q pi m ⟨x, rd, rDelta, d, Delta, ra, la, cd, cDelta, ca⟩ e).getD i 0 =
      (e * mp.getD i 0 % G.q + d.getD i 0) % G.q := by
    intro i hi; simp only [skcRespF]; rw [getD_map_range _ _ _ _ hi]
  have gFD : ∀ i, i + 1 < m.length →
      (skcRespFD G.q m.length ⟨x, rd, rDelta, d, Delta, ra, la, cd, cDelta, ca⟩ e ++ [0]).getD i 0 =
      (la.getD i 0 * e % G.q - Delta.getD i 0 * d.getD (i + 1) 0 % G.q) % G.q := by
    intro i hi
    rw [List.getD_append _ _ _ _ (by rw [lFD]; omega)]
    simp only [skcRespFD]; rw [getD_map_range _ _ _ _ (by omega)]
  have gFDn : (skcRespFD G.q m.length ⟨x, rd, rDelta, d, Delta, ra, la, cd, cDelta, ca⟩ e ++ [0]).getD
      (m.length - 1) 0 = 0 := by
    rw [List.getD_append_right _ _ _ _ (by rw [lFD])]; simp [lFD]
  have gla : ∀ i, i + 1 < m.length → la.getD i 0 =
      ((Delta.getD (i + 1) 0 - (mp.getD (i + 1) 0 - x) % G.q * Delta.getD i 0 % G.q) % G.q
        - (skcA G.q x mp).getD i 0 * d.getD (i + 1) 0 % G.q) % G.q := by
    intro i hi
    rw [hla]; simp only [skcLa]; rw [getD_map_range _ _ _ _ (by omega), if_pos (by omega)]
  have glan : la.getD (m.length - 1) 0 = 0 := by
    rw [hla]; simp only [skcLa]; rw [getD_map_range _ _ _ _ (by omega), if_neg (by omega)]
  have glD : ∀ i, i + 1 < m.length → lD.getD i 0 = (-(Delta.getD i 0)) * d.getD (i + 1) 0 % G.q := by
    intro i hi
    rw [hlD]; simp only [skcLDelta]; rw [getD_map_range _ _ _ _ (by omega), if_pos (by omega)]
  have glDn : lD.getD (m.length - 1) 0 = 0 := by
    rw [hlD]; simp only [skcLDelta]; rw [getD_map_range _ _ _ _ (by omega), if_neg (by omega)]
  obtain ⟨ce, hce, -, -, cev⟩ := mpzPowm_val hG c e hc0
  obtain ⟨-, -, m1⟩ := mulmod_val hG ce cd
  have hX0 : toF G (ce * cd % G.p) ≠ 0 := by
    rw [m1, cev, vcd.2.2]; exact mul_ne_zero (zpow_ne_zero _ hc0) (n0c _ _)
  obtain ⟨xa, hxa, -, -, xav⟩ := mpzPowm_val hG (ce * cd % G.p) alpha hX0
  obtain ⟨cae, hcae, -, -, caev⟩ := mpzPowm_val hG ca e (by rw [vca.2.2]; exact n0c _ _)
  obtain ⟨-, -, m2⟩ := mulmod_val hG cae cDelta
  obtain ⟨f0, fp, m3⟩ := mulmod_val hG xa (cae * cDelta % G.p)
  set Cs : ℕ → ℤ := fun i => m.getD (pi.getD i 0) 0 - fprime.getD i 0 with hCs
  set W : F G := comVal G P m.length (fun i => la.getD i 0) ra ^ e *
    comVal G P m.length (fun i => lD.getD i 0) rDelta with hW
  have hW0 : W ≠ 0 := mul_ne_zero (zpow_ne_zero _ (n0c _ _)) (n0c _ _)
  have hfoo : toF G (xa * (cae * cDelta % G.p) % G.p) =
      (toF G c ^ e * comVal G P m.length (fun i => d.getD i 0) rd) ^ alpha * W := by
    rw [m3, xav, m1, cev, m2, caev, vcd.2.2, vca.2.2, vcD.2.2]
  set F := skcRespF G.q pi m ⟨x, rd, rDelta, d, Delta, ra, la, cd, cDelta, ca⟩ e with hFdef
  set FDz := skcRespFD G.q m.length ⟨x, rd, rDelta, d, Delta, ra, la, cd, cDelta, ca⟩ e ++ [0] with hFDz
  set lej := (List.range m.length).map (fun i =>
    ((alpha * F.getD i 0 % G.q + FDz.getD i 0) % G.q + -(alpha * fprime.getD i 0 % G.q * e % G.q)) % G.q)
    with hlej
  have llej : lej.length = m.length := by simp [hlej]
  -- the checks, unfolded
  simp only [skcChecks, hP.st.grp, hce, bind, Except.bind, hxa, hcae, pure, Except.pure] at hchk
  rw [← hlej] at hchk
  cases hver : comVerify P (xa * (cae * cDelta % G.p) % G.p)
      ((alpha * ((e * rho % G.q + rd) % G.q) % G.q + (e * ra % G.q + rDelta) % G.q) % G.q) lej with
  | error err => rw [hver] at hchk; cases hchk
  | ok b =>
    rw [hver] at hchk
    cases b with
    | false => simp at hchk
    | true =>
      simp only [Bool.not_true, Bool.false_eq_true, if_false] at hchk
      cases hinvm : invm e G.q with
      | none => rw [hinvm] at hchk; cases hchk
      | some einv =>
        rw [hinvm] at hchk
        obtain ⟨he, hinv⟩ := invm_q_some hG e einv hinvm
        have hpoly : (m.foldl (fun acc mi => acc * ((mi - x) % G.q) % G.q) 1) * e % G.q =
            skcF G.q e x einv F FDz := by simpa using hchk
        refine ⟨he, ?_, ?_⟩
        · -- the permutation polynomial
          have h1 := congrArg (toQ G) hpoly
          rw [skc_poly_rhs hG m x e, skc_poly_lhs hG pi m hn x e einv he hinv d Delta la F FDz
            (by simp [hFdef, skcRespF])
            (by rw [hDelta]; simp only [skcDelta]; rw [getD_map_range _ _ _ _ (by omega)]; simp)
            (by rw [hDelta]; simp only [skcDelta]; rw [getD_map_range _ _ _ _ (by omega),
                  if_neg (by omega), if_pos rfl]; exact toQ_zero)
            (by
              intro i hi
              rw [gla i hi]
              simp only [toQ_emod hG, toQ_sub, toQ_mul, skcA_val hG x mp i (by simp [hmp, lpi]; omega),
                hmpi (i + 1) (by omega)]
              congr 2
              apply Finset.prod_congr rfl
              intro j hj
              rw [hmpi j (by have := Finset.mem_range.mp hj; omega)])
            (by intro i hi; rw [gF i hi]; simp only [toQ_emod hG, toQ_add, toQ_mul, hmpi i hi])
            (by intro i hi; rw [gFD i hi]; simp only [toQ_emod hG, toQ_sub, toQ_mul]), mul_comm] at h1
          exact (mul_left_cancel₀ he h1).symm
        · -- the commitment equation
          have hv := comVerify_true hG hP _ _ lej (by omega) (natAbs_mod_lt hG _)
            (natAbs_lt_of_mem_map_mod hG _ _ (fun i => natAbs_mod_lt hG _)) hver
          rw [hfoo, llej] at hv
          have hrhs : comVal G P m.length (fun i => lej.getD i 0)
              ((alpha * ((e * rho % G.q + rd) % G.q) % G.q + (e * ra % G.q + rDelta) % G.q) % G.q) =
              (comVal G P m.length Cs rho ^ e * comVal G P m.length (fun i => d.getD i 0) rd) ^ alpha * W := by
            rw [hW, comVal_pow_mul hG hP _ hcg, comVal_pow_mul hG hP _ hcg, comVal_pow_mul hG hP _ hcg]
            apply comVal_congr hG hP _ hcg
            · intro i hi
              rw [hlej, getD_map_range _ _ _ _ hi, gF i hi]
              by_cases hl : i + 1 < m.length
              · rw [gFD i hl, gla i hl, glD i hl]
                simp only [toQ_emod hG, toQ_add, toQ_mul, toQ_sub, toQ_neg, hCs, hmpi i hi]
                ring
              · have hi' : i = m.length - 1 := by omega
                rw [hi', gFDn, glan, glDn]
                simp only [toQ_emod hG, toQ_add, toQ_mul, toQ_neg, toQ_zero, toQ_sub, hCs,
                  hmpi (m.length - 1) (by omega)]
                ring
            · simp only [toQ_emod hG, toQ_add, toQ_mul]
          rw [hrhs] at hv
          have h2 := mul_right_cancel₀ hW0 hv
          rw [mul_zpow, mul_zpow] at h2
          have h3 := mul_right_cancel₀ (zpow_ne_zero _ (n0c _ _)) h2
          rw [zpow_mul, zpow_mul]
          exact h3

/-! ### the range checks hold for the honest algorithm's responses, for any `pi` -/

theorem skc_ranges_ok (hG : ValidGroup G) {P : GrothPub} (hP : PubOk G P) (pi : List ℕ) (m : List ℤ)
    (hcg : m.length ≤ P.cg.length) (rho x rd rDelta : ℤ) (d Delta la : List ℤ) (ra cd cDelta ca : ℤ)
    (dv Dv av : ℕ → ℤ)
    (vcd : Val G cd (comVal G P m.length dv rd))
    (vcD : Val G cDelta (comVal G P m.length Dv rDelta))
    (vca : Val G ca (comVal G P m.length av ra)) (e : ℤ) :
    skcRanges P cd cDelta ca
      (skcRespF G.q pi m ⟨x, rd, rDelta, d, Delta, ra, la, cd, cDelta, ca⟩ e)
      ((e * rho % G.q + rd) % G.q)
      (skcRespFD G.q m.length ⟨x, rd, rDelta, d, Delta, ra, la, cd, cDelta, ca⟩ e)
      ((e * ra % G.q + rDelta) % G.q) = true := by
  simp only [skcRanges, testMembership_val hG hP _ hcg _ _ _ vcd, testMembership_val hG hP _ hcg _ _ _ vca,
    testMembership_val hG hP _ hcg _ _ _ vcD, hP.st.grp, skcRespF, skcRespFD, Bool.and_eq_true,
    decide_eq_true_eq, true_and]
  refine ⟨⟨⟨(mod_range hG _).2, ?_⟩, (mod_range hG _).2⟩, ?_⟩
  · exact all_lt_of_mod hG _ _
  · exact all_lt_of_mod hG _ _

/-! ### the shuffle of known content in any mode: honest algorithm, arbitrary witness -/

/-- the exceptional event of the shuffle of known content for the values `x`, `e`, `α` (the last
    conjunct: the verifier tested `c ∈ C_ck`) -/
def SkcExc (G : Group) [Fact (Nat.Prime G.p.natAbs)] (P : GrothPub) (pi : List ℕ) (m : List ℤ)
    (rho c : ℤ) (fprime : List ℤ) (x e alpha : ℤ) : Prop :=
  toQ G e ≠ 0 ∧
  (∏ j ∈ Finset.range m.length, (toQ G (m.getD (pi.getD j 0) 0) - toQ G x) =
    ∏ j ∈ Finset.range m.length, (toQ G (m.getD j 0) - toQ G x)) ∧
  toF G c ^ (e * alpha) =
    comVal G P m.length (fun i => m.getD (pi.getD i 0) 0 - fprime.getD i 0) rho ^ (e * alpha) ∧
  toF G c ^ G.q.natAbs = 1

theorem skc_sound_modes (hG : ValidGroup G) (mode : Mode) {P : GrothPub} (hP : PubOk G P) (pi : List ℕ)
    (m : List ℤ) (lpi : pi.length = m.length) (hn : 2 ≤ m.length) (hcg : m.length ≤ P.cg.length)
    (rho : ℤ) (X Es : ChalSrc) (hX : GChalOk mode P false X) (hEs : GChalOk mode P true Es)
    (rd rDelta : ℤ) (d mid : List ℤ) (ra : ℤ) (rest : List ℤ)
    (hrd : 0 ≤ rd ∧ rd < G.q) (hrD : 0 ≤ rDelta ∧ rDelta < G.q) (hd : InQ G.q d)
    (hmid : InQ G.q mid) (hra : 0 ≤ ra ∧ ra < G.q) (ld : d.length = m.length)
    (lmid : mid.length = m.length - 2)
    (c alpha : ℤ) (fprime : List ℤ) (lfp : fprime.length = m.length)
    (peer : List (Option ℤ)) (sent : List ℤ) (tr : Bool) :
    ∃ (a : List ℤ) (resp : List ℤ), a.length = 3 ∧
      skcProve mode P pi rho m
        ⟨X.pPeer.map some ++ (Es.pPeer.map some ++ peer),
         X.pCoins ++ (rd :: rDelta :: (d ++ (mid ++ (ra :: (Es.pCoins ++ rest))))), sent, tr⟩ =
        .ok () ⟨peer, rest, sent ++ X.pSent ++ a ++ Es.pSent ++ resp, tr⟩ ∧
      ∀ (restV : List (Option ℤ)) (csV sentV : List ℤ) (k : M Bool) (o : PcOutcome), o.result = true →
        run (skcVerify mode P c fprime m >>= fun _ => k)
          ⟨X.pSent.map some ++ (a.map some ++ (Es.pSent.map some ++ (resp.map some ++ restV))),
           X.vCoins ++ (Es.vCoins ++ (alpha :: csV)), sentV, false⟩ = .ok o →
        SkcExc G P pi m rho c fprime (X.val (fun _ => P.cg ++ m ++ comPqh P))
          (Es.val (fun _ => P.cg ++ m ++ (X.val (fun _ => P.cg ++ m ++ comPqh P)) :: a)) alpha ∧
        run k ⟨restV, csV, sentV ++ X.pPeer ++ Es.pPeer, false⟩ = .ok o := by
  set x := X.val (fun _ => P.cg ++ m ++ comPqh P) with hx
  obtain ⟨cd, cD, ca, hmove, vcd, vcD, vca⟩ := skcMove2_spec hG hP pi m hn hcg x rd rDelta d mid ra
    (Es.pCoins ++ rest) hrd hrD hd hmid hra ld lmid (Es.pPeer.map some ++ peer) (sent ++ X.pSent) tr
  set ctx : SkcCtx := ⟨x, rd, rDelta, d, skcDelta m.length d mid, ra,
    skcLa G.q x m.length (pi.map fun j => m.getD j 0) d (skcDelta m.length d mid), cd, cD, ca⟩ with hctx
  set e := Es.val (fun _ => P.cg ++ m ++ [x, cd, cD, ca]) with he'
  have hrng := skc_ranges_ok hG hP pi m hcg rho x rd rDelta d (skcDelta m.length d mid)
    (skcLa G.q x m.length (pi.map fun j => m.getD j 0) d (skcDelta m.length d mid)) ra cd cD ca _ _ _
    vcd vcD vca e
  rw [← hctx] at hrng
  refine ⟨[cd, cD, ca], skcResp P.S.G.q pi rho m ctx e, rfl, ?_, ?_⟩
  · simp only [skcProve]
    rw [if_neg (by omega)]
    rw [bind_ok (hX.prover _ _ _ _ _), ← hx, bind_ok hmove]
    rw [bind_ok (hEs.prover _ _ _ _ _), ← he', sendAll_apply]
  · intro restV csV sentV k o ho hrun
    have heval : skcVerify mode P c fprime m
        ⟨X.pSent.map some ++ ([cd, cD, ca].map some ++ (Es.pSent.map some ++
          ((skcResp P.S.G.q pi rho m ctx e).map some ++ restV))),
         X.vCoins ++ (Es.vCoins ++ (alpha :: csV)), sentV, false⟩ =
        (if testMembership P c = true then
          (liftE (skcChecks P c fprime m x cd cD ca e (skcRespF G.q pi m ctx e)
          ((e * rho % G.q + ctx.rd) % G.q) (skcRespFD G.q m.length ctx e ++ [0])
          ((e * ctx.ra % G.q + ctx.rDelta) % G.q) alpha) >>= fun ok =>
            if (!ok) = true then (reject : M PUnit) else pure ())
          ⟨restV, csV, sentV ++ X.pPeer ++ Es.pPeer, false⟩
        else Res.halt false false ⟨restV, alpha :: csV, sentV ++ X.pPeer ++ Es.pPeer, false⟩) := by
      simp only [skcVerify]
      rw [if_neg (by omega)]
      rw [bind_ok (hX.verifier _ _ _ _), ← hx]
      simp only [List.map_cons, List.map_nil, List.cons_append, List.nil_append]
      rw [bind_ok (skcRead1_spec cd cD ca _ _ _)]
      simp only []
      rw [bind_ok (hEs.verifier _ _ _ _), ← he']
      have hresp : (skcResp P.S.G.q pi rho m ctx e).map some ++ restV =
          (skcRespF P.S.G.q pi m ctx e).map some ++ (some ((e * rho % P.S.G.q + ctx.rd) % P.S.G.q) ::
            ((skcRespFD P.S.G.q m.length ctx e).map some ++
              (some ((e * ctx.ra % P.S.G.q + ctx.rDelta) % P.S.G.q) :: restV))) := by
        simp [skcResp, List.map_append, List.append_assoc]
      rw [hresp, bind_ok (skcRead2_spec _ _ _ _ _ restV _ _ (by simp [skcRespF]) (by simp [skcRespFD]))]
      simp only []
      rw [hP.st.grp, hrng]
      cases hm : testMembership P c with
      | false =>
        simp only [Bool.false_and, Bool.not_false, if_true, Bool.false_eq_true, if_false]
        rfl
      | true =>
        simp only [Bool.and_self, Bool.not_true, Bool.false_eq_true, if_false, if_true]
        rw [bind_ok (draw_spec _ alpha csV _ false)]
    cases hmem : testMembership P c with
    | false =>
      rw [hmem] at heval
      simp only [Bool.false_eq_true, if_false] at heval
      have : run (skcVerify mode P c fprime m >>= fun _ => k)
          ⟨X.pSent.map some ++ ([cd, cD, ca].map some ++ (Es.pSent.map some ++
            ((skcResp P.S.G.q pi rho m ctx e).map some ++ restV))),
           X.vCoins ++ (Es.vCoins ++ (alpha :: csV)), sentV, false⟩ =
          .ok ⟨sentV ++ X.pPeer ++ Es.pPeer, false, false⟩ := by
        simp only [run, bind_apply, heval]
      rw [this] at hrun; cases hrun; cases ho
    | true =>
    rw [hmem] at heval
    simp only [if_true] at heval
    have hcq : toF G c ^ G.q.natAbs = 1 := by
      have := hmem
      unfold testMembership at this
      rw [hP.st.grp] at this
      exact ((checkElement_iff hG c).mp this).2.2
    have hc0 : toF G c ≠ 0 := ne_zero_of_pow_eq_one (q_natAbs_ne_zero hG) hcq
    have hxa : (x :: [cd, cD, ca]) = [x, cd, cD, ca] := rfl
    rw [hxa, ← he']
    cases hchk : skcChecks P c fprime m x cd cD ca e (skcRespF G.q pi m ctx e)
        ((e * rho % G.q + ctx.rd) % G.q) (skcRespFD G.q m.length ctx e ++ [0])
        ((e * ctx.ra % G.q + ctx.rDelta) % G.q) alpha with
    | error err =>
      rw [hchk] at heval
      have : run (skcVerify mode P c fprime m >>= fun _ => k)
          ⟨X.pSent.map some ++ ([cd, cD, ca].map some ++ (Es.pSent.map some ++
            ((skcResp P.S.G.q pi rho m ctx e).map some ++ restV))),
           X.vCoins ++ (Es.vCoins ++ (alpha :: csV)), sentV, false⟩ = .error err := by
        simp only [run, bind_apply, heval]; rfl
      rw [this] at hrun; cases hrun
    | ok b =>
      rw [hchk] at heval
      cases b with
      | false =>
        have : run (skcVerify mode P c fprime m >>= fun _ => k)
            ⟨X.pSent.map some ++ ([cd, cD, ca].map some ++ (Es.pSent.map some ++
              ((skcResp P.S.G.q pi rho m ctx e).map some ++ restV))),
             X.vCoins ++ (Es.vCoins ++ (alpha :: csV)), sentV, false⟩ =
            .ok ⟨sentV ++ X.pPeer ++ Es.pPeer, false, false⟩ := by
          simp only [run, bind_apply, heval]; rfl
        rw [this] at hrun; cases hrun; cases ho
      | true =>
        have : run (skcVerify mode P c fprime m >>= fun _ => k)
            ⟨X.pSent.map some ++ ([cd, cD, ca].map some ++ (Es.pSent.map some ++
              ((skcResp P.S.G.q pi rho m ctx e).map some ++ restV))),
             X.vCoins ++ (Es.vCoins ++ (alpha :: csV)), sentV, false⟩ =
            run k ⟨restV, csV, sentV ++ X.pPeer ++ Es.pPeer, false⟩ := by
          simp only [run, bind_apply, heval]; rfl
        rw [this] at hrun
        obtain ⟨h1, h2, h3⟩ := skc_core_sound hG hP pi m lpi hn hcg rho x rd rDelta d mid ra cd cD ca ld
          vcd vcD vca e alpha c fprime hc0 hchk
        exact ⟨⟨h1, h2, h3, hcq⟩, hrun⟩

end Tmcg.Args
