import TmcgProofs.CgjkrSignBindH
/-
  C16, run level, part I: the instance of `RunViews` on the honest run `tinyRun 0` and the validity of its signature
  THROUGH `sign_run_valid_views` (see the header of TmcgProofs/CgjkrSignBindH.lean).
-/
namespace Tmcg.CgjkrSignBind
open Tmcg Tmcg.Powm Tmcg.Dkg Tmcg.Grp Tmcg.DkgL Tmcg.DkgP Tmcg.Cgjkr Tmcg.CgjkrSign Tmcg.CgjkrSignRunP
open Tmcg.CgjkrSignEx
open Polynomial

theorem valid23g : ValidGroup ⟨23, 11, 2⟩ :=
  ⟨by decide, by decide, by norm_num, by norm_num, by decide, by decide, by decide, by decide⟩

theorem valid23h : ValidGroup ⟨23, 11, 8⟩ :=
  ⟨by decide, by decide, by norm_num, by norm_num, by decide, by decide, by decide, by decide⟩

theorem validG0 : ValidGrp G0 := mkGrp_valid mk0 valid23g valid23h

instance factP0 : Fact (Nat.Prime G0.p.natAbs) := ⟨validG0.vg.p_prime⟩
instance factQ0 : Fact (Nat.Prime G0.q.natAbs) := ⟨validG0.vg.q_prime⟩

theorem q0_pos : 0 < G0.q := validG0.vg.q_pos

theorem cq0_eq (a b : Int) (h : a % 11 = b % 11) : cq G0 a = cq G0 b :=
  (cq_eq_iff q0_pos a b).mpr h

/-- the three signers of the run are honest -/
theorem tiny_honest (k : Nat) (hk : k < 3) : honestS sins0 k := by
  have h := chkH_true
  unfold chkH at h
  simp only [Bool.and_eq_true, beq_iff_eq, List.all_eq_true, List.isEmpty_iff] at h
  obtain ⟨hlen, hall⟩ := h
  have hm : sins0.getD k ⟨0, 0, [], [], [], {}, []⟩ ∈ sins0 := by
    rw [List.getD_eq_getElem _ _ (by omega)]
    exact List.getElem_mem _
  exact ⟨by omega, (hall _ hm).1, (hall _ hm).2⟩

/-- **the hypothesis `RunViews` holds on the honest run** with `k = 2`, `a = 7`, `x = 4` -/
theorem tiny_runViews : RunViews G0 1 7 [0, 1, 2] sins0 (cq G0 2) (cq G0 7) (cq G0 4) := by
  have h0 := chk0_true
  have h1 := chk1_true
  unfold chk0 at h0
  unfold chk1 at h1
  simp only [List.all_eq_true, Bool.and_eq_true, beq_iff_eq] at h0 h1
  refine ⟨?_, ?_, ?_⟩
  · intro k st I _ hAt
    obtain ⟨r, P, hP, -, rfl, rfl, hhead⟩ := hAt
    have hr : r = 63 := round_sh0 r hhead
    subst hr
    obtain ⟨hc, -⟩ := h0 P (List.mem_of_getElem? hP)
    refine ⟨linPoly G0 3 4, checkOcc_sound q0_pos _ _ _ _ _ hc, ?_⟩
    rw [linPoly_eval_zero, ← cq_mul]
    exact cq0_eq _ _ (by decide)
  · intro k st I _ hAt
    obtain ⟨r, P, hP, -, rfl, rfl, hhead⟩ := hAt
    have hr : r = 102 := round_sh1 r hhead
    subst hr
    obtain ⟨hc, hr7⟩ := h1 P (List.mem_of_getElem? hP)
    refine ⟨linPoly G0 4 0, checkOcc_sound q0_pos _ _ _ _ _ hc, ?_⟩
    rw [linPoly_eval_zero, hr7, ← cq_mul, ← cq_add, ← cq_mul]
    exact cq0_eq _ _ (by decide)
  · intro k1 k2 st1 I1 st2 I2 _ _ hA1 hA2
    obtain ⟨r1, P1, hP1, -, rfl, -, hh1⟩ := hA1
    obtain ⟨r2, P2, hP2, -, rfl, -, hh2⟩ := hA2
    have e1 : r1 = 63 := round_sh0 r1 hh1
    have e2 : r2 = 63 := round_sh0 r2 hh2
    subst e1 e2
    rw [(h0 P1 (List.mem_of_getElem? hP1)).2, (h0 P2 (List.mem_of_getElem? hP2)).2]

/-- **non-vacuity**: on the honest run of `tinyRun 0` all hypotheses of `sign_run_valid_views` hold (valid group,
    honest party 0, distinct small signer indices, `RunViews` with `k = 2`, `a = 7`, `x = 4`, `y = 16 = g^4`,
    `a_dkg->y = 13 = g^7`, `k·a = 3 ≠ 0`, `r = 7 ≠ 0`, `s = 4 ≠ 0`), and the theorem yields that the model of the
    library's verifier accepts the signature `(7, 4)` of party 0 on the message 7 under the key 16. -/
theorem tiny_valid_through_views :
    ∃ P1, (runSign G0 1 7 [0, 1, 2] sins0)[0]? = some P1 ∧ P1.status = .ret true ∧ P1.st.r = 7 ∧ P1.st.s = 4 ∧
      Tsig.dssVerify (gGrp G0) 16 7 7 4 = .ok true := by
  have hF := chkF_true
  unfold chkF at hF
  cases hP : (runSign G0 1 7 [0, 1, 2] sins0)[0]? with
  | none => rw [hP] at hF; cases hF
  | some P1 =>
    rw [hP] at hF
    simp only [Bool.and_eq_true, beq_iff_eq] at hF
    obtain ⟨⟨hst, hr⟩, hs⟩ := hF
    refine ⟨P1, rfl, hst, hr, hs, ?_⟩
    have h0 := chk0_true
    unfold chk0 at h0
    simp only [List.all_eq_true, Bool.and_eq_true, beq_iff_eq] at h0
    have := sign_run_valid_views validG0 1 7 [0, 1, 2] sins0 (by decide) (by decide) 4 7 16 (cq G0 2)
      tiny_runViews 0 (tiny_honest 0 (by norm_num)) P1 hP hst
      (by
        rw [show (4 : Int) = ((4 : Nat) : Int) by norm_num, zpow_natCast]
        show ((16 : Int) : ZMod 23) = ((2 : Int) : ZMod 23) ^ 4
        decide)
      (by
        intro st I hAt
        obtain ⟨r, P, hP', -, rfl, -, hhead⟩ := hAt
        have hr' : r = 63 := round_sh0 r hhead
        subst hr'
        rw [(h0 P (List.mem_of_getElem? hP')).2]
        rw [show (7 : Int) = ((7 : Nat) : Int) by norm_num, zpow_natCast]
        show ((13 : Int) : ZMod 23) = ((2 : Int) : ZMod 23) ^ 7
        decide)
      (by
        show ((2 : Int) : ZMod 11) * ((7 : Int) : ZMod 11) ≠ 0
        decide)
      (by rw [hr]; decide) (by rw [hs]; decide)
    rw [hr, hs] at this
    exact this

end Tmcg.CgjkrSignBind
