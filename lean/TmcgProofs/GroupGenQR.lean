import TmcgProofs.GroupGenP
import Mathlib.GroupTheory.OrderOfElement
import Mathlib.Data.ZMod.Basic
import Mathlib.Algebra.Field.ZMod
/-
  C06, first clause — SetupGenerators_publiccoin (verifiable generators) and BarnettSmartVTMF_dlog_GroupQR.
-/
namespace Tmcg.GroupGenProofs
open Tmcg Tmcg.Rabin Tmcg.RabinGen Tmcg.PrimeGen Tmcg.GroupCheck Tmcg.GroupGen Tmcg.PrimeGenProofs

/-! ### PedersenCommitmentScheme::SetupGenerators_publiccoin -/

theorem hgElem_spec (H : Hash) (p k : Int) (hp : 0 < p) (hk : 0 ≤ k) : ∀ (f : Nat) (U : String) (x : Int) (U' : String),
    hgElem H p k f U = .ok (x, U') → (∃ r : Int, x = r ^ k.toNat % p) ∧ x ≠ 0 ∧ x ≠ 1 ∧ x ≠ p - 1
  | 0, _, _, _, h => by simp [hgElem] at h
  | f+1, U, x, U', h => by
    unfold hgElem at h
    simp only [Powm.mpzPowm_nonneg_eq _ k p hp hk] at h
    by_cases hc : (H U ^ k.toNat % p == 0 || H U ^ k.toNat % p == 1 || H U ^ k.toNat % p == p - 1) = true
    · rw [if_pos hc] at h
      exact hgElem_spec H p k hp hk f _ x U' h
    · rw [if_neg hc] at h
      simp only [Except.ok.injEq, Prod.mk.injEq] at h
      simp only [Bool.or_eq_true, beq_iff_eq, not_or] at hc
      rw [← h.1]
      exact ⟨⟨_, rfl⟩, hc.1.1, hc.1.2, hc.2⟩

theorem hgElem_genOk (H : Hash) (p q k : Nat) (hp : p.Prime) (e : p = q * k + 1) (f : Nat) (U : String) (x : Int) (U' : String)
    (h : hgElem H (p : Int) (k : Int) f U = .ok (x, U')) : GenOk x p q := by
  have hp0 : (0 : Int) < p := by exact_mod_cast hp.pos
  obtain ⟨⟨r, hr⟩, n0, n1, nm⟩ := hgElem_spec H (p : Int) (k : Int) hp0 (by omega) f U x U' h
  simp only [Int.toNat_natCast] at hr
  subst hr
  refine genOk_of_range _ _ _ (Int.emod_nonneg _ (by omega)) (Int.emod_lt_of_pos _ hp0) n0 n1 nm ?_
  simp only [Int.natAbs_natCast]
  exact pow_cofactor_order p q k hp e r n0

theorem hgElems_spec (H : Hash) (p k : Int) (fuel : Nat) (Q : Int → Prop)
    (hQ : ∀ U x U', hgElem H p k fuel U = .ok (x, U') → Q x) :
    ∀ (n : Nat) (U : String) (xs : List Int) (U' : String),
      hgElems H p k fuel n U = .ok (xs, U') → xs.length = n ∧ ∀ x ∈ xs, Q x
  | 0, U, xs, U', h => by
    simp only [hgElems, Except.ok.injEq, Prod.mk.injEq] at h
    rw [← h.1]; simp
  | n+1, U, xs, U', h => by
    unfold hgElems at h
    cases h1 : hgElem H p k fuel U with
    | error e => rw [h1] at h; simp at h
    | ok v =>
      obtain ⟨x, U1⟩ := v
      rw [h1] at h
      simp only at h
      cases h2 : hgElems H p k fuel n U1 with
      | error e => rw [h2] at h; simp at h
      | ok w =>
        obtain ⟨xs', U2⟩ := w
        rw [h2] at h
        simp only [Except.ok.injEq, Prod.mk.injEq] at h
        obtain ⟨hl, hall⟩ := hgElems_spec H p k fuel Q hQ n U1 xs' U2 h2
        rw [← h.1]
        refine ⟨by simp [hl], ?_⟩
        intro y hy
        rcases List.mem_cons.mp hy with rfl | hy
        · exact hQ _ _ _ h1
        · exact hall y hy

/-- SetupGenerators_publiccoin(a, without_h) on a scheme over a valid group: the replaced generators are accepted
    iff they are pairwise different (and different from `h`) -/
theorem pedersenSetup_iff (fsize gsize fuel : Nat) (prime : Int → Bool) (H : Hash) (hpr : PrimeOracleOk prime)
    (P P' : Params) (a : Int) (withoutH : Bool) (p q k : Nat) (ep : P.p = p) (eq : P.q = q) (ek : P.k = k)
    (hpre : PrefixOk fsize gsize prime (p : Int) (q : Int) (k : Int)) (hpP : p.Prime) (e : p = q * k + 1)
    (hh : withoutH = true → GenOk P.h P.p P.q)
    (h : pedersenSetup H P a withoutH fuel = .ok P') :
    (checkGroup .P fsize gsize prime H fuel P' = .ok true ↔ (P'.h :: P'.gs).Nodup) ∧
      P'.gs.length = P.gs.length ∧ (withoutH = true → P'.h = P.h) := by
  unfold pedersenSetup at h
  simp only [ep, eq, ek] at h
  have key : ∀ (hv : Int) (U1 : String), GenOk hv p q →
      (match hgElems H (p : Int) (k : Int) fuel P.gs.length U1 with
        | .error e => Except.error e
        | .ok (gs, _) => Except.ok ({ p := (p : Int), q := (q : Int), k := (k : Int), g := P.g, h := hv, gs := gs } : Params)) = Except.ok P' →
      (checkGroup .P fsize gsize prime H fuel P' = .ok true ↔ (P'.h :: P'.gs).Nodup) ∧
        P'.gs.length = P.gs.length ∧ P'.h = hv := by
    intro hv U1 hhv hm
    cases hs : hgElems H (p : Int) (k : Int) fuel P.gs.length U1 with
    | error e => rw [hs] at hm; simp at hm
    | ok w =>
      obtain ⟨gs, U2⟩ := w
      rw [hs] at hm
      simp only [Except.ok.injEq] at hm
      subst hm
      obtain ⟨hl, hall⟩ := hgElems_spec H (p : Int) (k : Int) fuel (fun t => GenOk t p q)
        (fun U x U' hc => hgElem_genOk H p q k hpP e fuel U x U' hc) _ U1 gs U2 hs
      refine ⟨?_, hl, rfl⟩
      rw [checkP_iff fsize gsize fuel _ H hpr _ hpre hall]
      exact ⟨fun h => h.2, fun h => ⟨hhv, h⟩⟩
  cases withoutH with
  | true =>
    simp only [if_true] at h
    obtain ⟨h1, h2, h3⟩ := key P.h _ (by have := hh rfl; rwa [ep, eq] at this) h
    exact ⟨h1, h2, fun _ => h3⟩
  | false =>
    simp only [Bool.false_eq_true, if_false] at h
    cases he : hgElem H (p : Int) (k : Int) fuel (hggenStart (p : Int) (q : Int) a) with
    | error e => rw [he] at h; simp at h
    | ok v =>
      obtain ⟨hv, U1⟩ := v
      rw [he] at h
      simp only at h
      obtain ⟨h1, h2, -⟩ := key hv U1 (hgElem_genOk H p q k hpP e fuel _ hv U1 he) h
      exact ⟨h1, h2, fun hc => by cases hc⟩

/-- PedersenCommitmentScheme(n, fieldsize, subgroupsize) followed by SetupGenerators_publiccoin(a, without_h) -/
theorem pedersenGen_setup_iff (isPrime : Oracle) (H : Hash) (n fsize gsize fuel : Nat) (coins : Coins)
    (P P' : Params) (rest : Coins) (a : Int) (withoutH : Bool)
    (hpr : PrimeOracleOk (primeOf isPrime))
    (hsound : primeOf isPrime P.p = true → P.p.natAbs.Prime)
    (hgen : pedersenGen isPrime n fsize gsize fuel coins = .ok (P, rest))
    (h : pedersenSetup H P a withoutH fuel = .ok P') :
    (checkGroup .P fsize gsize (primeOf isPrime) H fuel P' = .ok true ↔ (P'.h :: P'.gs).Nodup) ∧ P'.gs.length = n := by
  have hgen0 := hgen
  unfold pedersenGen at hgen
  cases hl : lprime isPrime fsize gsize MR fuel coins with
  | error e => rw [hl] at hgen; simp at hgen
  | ok v =>
    obtain ⟨⟨p, q, k⟩, rest0⟩ := v
    rw [hl] at hgen
    simp only at hgen
    have L := lprime_prefix isPrime fsize gsize fuel coins p q k rest0 hpr hl
    cases hr : randElems (p : Int) (k : Int) fuel (n + 1) rest0 with
    | error e => rw [hr] at hgen; simp at hgen
    | ok w =>
      obtain ⟨ts, rest1⟩ := w
      rw [hr] at hgen
      simp only [Except.ok.injEq, Prod.mk.injEq] at hgen
      have ep : P.p = p := by rw [← hgen.1]
      have eq : P.q = q := by rw [← hgen.1]
      have ek : P.k = k := by rw [← hgen.1]
      have hpP : p.Prime := by
        have := hsound (by rw [ep]; exact L.pre.2.2.2.2.1)
        rw [ep] at this; simpa using this
      obtain ⟨-, hlen, hhel, -⟩ := pedersenGen_iff isPrime H n fsize gsize fuel coins P rest hpr hsound hgen0
      have hp2 : (2 : Int) < P.p := by rw [ep]; have := L.pbig; omega
      have hq0 : (0 : Int) < P.q := by rw [eq]; have := L.qpos; omega
      have hhOk : GenOk P.h P.p P.q := by
        obtain ⟨a1, a2, a3⟩ := (GroupCheck.checkElement_iff P.p P.q P.h (by omega) hq0).mp hhel
        have hodd : P.q.natAbs % 2 = 1 := by rw [eq]; have := L.qodd; simpa using this
        refine genOk_of_order _ _ _ hp2 hq0 (by omega) a1.le a2 ?_ a3
        -- h was drawn by the loop: it is not 1
        intro h1
        have hmem : P.h ∈ ts := by
          rw [← hgen.1]
          have hne : ts ≠ [] := by
            intro e0; rw [e0] at hr
            simp [randElems] at hr
            cases hx : randElem (p : Int) (k : Int) fuel rest0 with
            | error e => rw [hx] at hr; simp at hr
            | ok v2 =>
              rw [hx] at hr; simp only at hr
              cases hy : randElems (p : Int) (k : Int) fuel n v2.2 with
              | error e => rw [hy] at hr; simp at hr
              | ok v3 => rw [hy] at hr; simp at hr
          have hsp := splitLast_spec ts hne
          have : (splitLast ts).2 ∈ (splitLast ts).1 ++ [(splitLast ts).2] := by simp
          rwa [← hsp] at this
        obtain ⟨-, hall⟩ := randElems_spec (p : Int) (k : Int) fuel (fun t => t ≠ 1)
          (fun c t r hc => (randElem_spec (p : Int) (k : Int) (by omega) (by omega) fuel c t r hc).2.2.1) (n + 1) rest0 ts rest1 hr
        exact hall _ hmem h1
      obtain ⟨h1, h2, -⟩ := pedersenSetup_iff fsize gsize fuel _ H hpr P P' a withoutH p q k ep eq ek L.pre hpP L.e (fun _ => hhOk) h
      exact ⟨h1, by rw [h2, hlen]⟩

/-! ### BarnettSmartVTMF_dlog_GroupQR -/

theorem jacobi_two_pow (p : Nat) (h8 : p % 8 = 7) (n : Nat) : jacobi ((2 : Int) ^ n) p = 1 := by
  induction n with
  | zero => simpa using TmcgOpen.jacobi_one p (by omega)
  | succ n ih =>
    rw [pow_succ, RabinGenProofs.jacobi_mul _ _ p (by omega), ih, RabinGenProofs.jacobi_two p (by omega),
      if_pos (.inr h8)]
    rfl

/-- in a safe-prime field with `p ≡ 7 (mod 8)` the shifted generator `2^(2^s) mod p` is a quadratic residue
    different from 0, 1 and `p - 1` -/
theorem qr_shift_ok (p q : Nat) (hp : p.Prime) (hq : q.Prime) (e : p = 2 * q + 1) (h8 : p % 8 = 7) (s : Nat) :
    1 < (2 : Int) ^ (2 ^ s) % (p : Int) ∧ (2 : Int) ^ (2 ^ s) % (p : Int) < (p : Int) - 1 ∧
      jacobi ((2 : Int) ^ (2 ^ s) % (p : Int)) p = 1 := by
  have hp1 : 1 < p := hp.one_lt
  have hjac : jacobi ((2 : Int) ^ (2 ^ s) % (p : Int)) p = 1 := by
    rw [RabinProofs.jacobi_emod]; exact jacobi_two_pow p h8 _
  have h0 : (0 : Int) ≤ (2 : Int) ^ (2 ^ s) % (p : Int) := Int.emod_nonneg _ (by omega)
  have hlt : (2 : Int) ^ (2 ^ s) % (p : Int) < p := Int.emod_lt_of_pos _ (by omega)
  have n0 : (2 : Int) ^ (2 ^ s) % (p : Int) ≠ 0 := by
    intro hz
    rw [hz, RabinProofs.jacobi_zero p hp1 (by omega)] at hjac
    omega
  have nm : (2 : Int) ^ (2 ^ s) % (p : Int) ≠ (p : Int) - 1 := by
    intro hz
    have hm1 : (-1 : Int) % (p : Int) = (p : Int) - 1 := by
      rw [show (-1 : Int) = ((p : Int) - 1) + (-1) * (p : Int) by ring, Int.add_mul_emod_self_right]
      exact Int.emod_eq_of_lt (by omega) (by omega)
    rw [hz, ← hm1, RabinProofs.jacobi_emod, RabinGenProofs.jacobi_neg_one p (by omega)] at hjac
    omega
  have n1 : (2 : Int) ^ (2 ^ s) % (p : Int) ≠ 1 := by
    intro h1
    have : Fact p.Prime := ⟨hp⟩
    have hx : ((2 : ZMod p)) ^ (2 ^ s) = 1 := by
      have : (((2 : Int) ^ (2 ^ s) : Int) : ZMod p) = ((1 : Int) : ZMod p) := by
        rw [ZMod.intCast_eq_intCast_iff']
        rw [h1]; exact (Int.emod_eq_of_lt (by omega) (by omega)).symm
      simpa using this
    have hx0 : (2 : ZMod p) ≠ 0 := by
      intro hz
      have : ((2 : ℕ) : ZMod p) = 0 := by simpa using hz
      rw [ZMod.natCast_eq_zero_iff] at this
      have := Nat.le_of_dvd (by omega) this
      omega
    have hf : (2 : ZMod p) ^ (p - 1) = 1 := ZMod.pow_card_sub_one_eq_one hx0
    have hd1 : orderOf (2 : ZMod p) ∣ 2 ^ s := orderOf_dvd_of_pow_eq_one hx
    have hd2 : orderOf (2 : ZMod p) ∣ 2 * q := by
      have := orderOf_dvd_of_pow_eq_one hf
      rwa [show p - 1 = 2 * q by omega] at this
    have hq2 : q ≠ 2 := by omega
    have hcop : Nat.Coprime (2 ^ s) q :=
      Nat.Coprime.pow_left s ((Nat.coprime_primes Nat.prime_two hq).mpr (fun h => hq2 h.symm))
    have hcop' : Nat.Coprime (orderOf (2 : ZMod p)) q := Nat.Coprime.coprime_dvd_left hd1 hcop
    have hd : orderOf (2 : ZMod p) ∣ 2 := hcop'.dvd_of_dvd_mul_right hd2
    have h4 : (2 : ZMod p) ^ 2 = 1 := orderOf_dvd_iff_pow_eq_one.mp hd
    have h3 : ((3 : ℕ) : ZMod p) = 0 := by
      push_cast
      linear_combination h4
    rw [ZMod.natCast_eq_zero_iff] at h3
    have := Nat.le_of_dvd (by omega) h3
    omega
  exact ⟨by omega, by omega, hjac⟩

/-- BarnettSmartVTMF_dlog_GroupQR(fieldsize, exponentsize) with `exponentsize ≤ fieldsize`: the generated set passes
    the class's CheckGroup and `g` passes CheckElement.  The constructor asks the oracle about `q` only
    (`TMCG_MR_ITERATIONS - 1` rounds; `p` is prime by the Lucas-type step), CheckGroup asks about `p` and `q`
    (`TMCG_MR_ITERATIONS` rounds): the oracle has to be right about these two numbers. -/
theorem qrGen_passes (isPrime : Oracle) (H : Hash) (fsize esize fuel : Nat) (coins : Coins) (P : Params) (rest : Coins)
    (hpr : PrimeOracleOk (primeOf isPrime))
    (hes : esize ≤ fsize)
    (hq : isPrime P.q (MR - 1) = true → P.q.natAbs.Prime)
    (hcp : P.p.natAbs.Prime → isPrime P.p MR = true) (hcq : P.q.natAbs.Prime → isPrime P.q MR = true)
    (h : qrGen isPrime fsize esize fuel coins = .ok (P, rest)) :
    checkGroup (.QR esize) fsize (fsize - 1) (primeOf isPrime) H fuel P = .ok true ∧
      checkElement true P.p P.q P.g = .ok true := by
  unfold qrGen at h
  split at h
  · simp at h
  rename_i hf0
  cases hs : sprimeTest isPrime .mod8 PrimeGen.PRIMES (fsize - 1) MR fuel coins with
  | error e => rw [hs] at h; simp at h
  | ok v =>
    obtain ⟨⟨p, q⟩, rest0⟩ := v
    rw [hs] at h
    simp only at h
    obtain ⟨e, hq0, hbq, hbp, ht, ho, hlucas⟩ := sprimeTest_spec isPrime .mod8 PrimeGen.PRIMES (fsize - 1) MR fuel coins p q rest0 hs
    have h8 : p % 8 = 7 := by simpa [testOk] using ht
    have hbp' : fsize ≤ bitlen (p : Int) := by omega
    have hes' : ¬ bitlen (p : Int) < esize := by omega
    have hp0 : (0 : Int) < p := by omega
    have hpow : (0 : Int) ≤ 2 ^ (bitlen (p : Int) - esize) := by positivity
    have htn : ((2 : Int) ^ (bitlen (p : Int) - esize)).toNat = 2 ^ (bitlen (p : Int) - esize) := by
      rw [Int.toNat_pow_of_nonneg (by norm_num)]; rfl
    simp only [qrShift, if_neg hes', Powm.mpzPowm_nonneg_eq 2 _ (p : Int) hp0 hpow, htn, Except.ok.injEq, Prod.mk.injEq] at h
    obtain ⟨rfl, -⟩ := h
    simp only at hq hcp hcq ⊢
    have hqP : q.Prime := by have := hq ho; simpa using this
    have hpP : p.Prime := hlucas hqP
    obtain ⟨g1, g2, g3⟩ := qr_shift_ok p q hpP hqP e h8 (bitlen (p : Int) - esize)
    constructor
    · rw [GroupCheck.checkGroup_QR_iff fsize (fsize - 1) _ H fuel hpr]
      simp only [Int.natAbs_natCast]
      refine ⟨hbp', hbq, by rw [e]; push_cast; ring, hcp (by simpa using hpP), hcq (by simpa using hqP), by omega,
        g1, g2, g3, by omega, trivial⟩
    · simp only [checkElement, Int.natAbs_natCast]
      have hr : ¬ ((decide ((2 : Int) ^ 2 ^ (bitlen (p : Int) - esize) % (p : Int) ≤ 0) ||
          decide ((p : Int) ≤ (2 : Int) ^ 2 ^ (bitlen (p : Int) - esize) % (p : Int))) = true) := by
        simp only [Bool.or_eq_true, decide_eq_true_eq, not_or, not_le]
        omega
      rw [if_neg hr]
      simp [g3, pure, Except.pure]

end Tmcg.GroupGenProofs
