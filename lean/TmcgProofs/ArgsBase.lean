import Tmcg.Model.Args
import TmcgProofs.Group
import TmcgProofs.SigmaComplete
import Mathlib.Algebra.BigOperators.Group.Finset.Basic
/-
  Tools for the proofs about the argument models (Model/Args*.lean): evaluation rules of the
  transcript monad `M`, specifications of the reading / drawing / mapping helpers, and the
  arithmetic of the reduced sums and products of the code.
-/
namespace Tmcg.Args
open Tmcg Tmcg.Powm Tmcg.Vtmf Tmcg.Grp Tmcg.Sigma Tmcg.CoinFlip

/-! ### evaluation of the monad -/

theorem bind_apply {α β} (m : M α) (f : α → M β) (s : St) :
    (m >>= f) s = match m s with
      | .ok a s' => f a s'
      | .halt v t s' => .halt v t s'
      | .err e => .err e := rfl

theorem bind_ok {α β} {m : M α} {f : α → M β} {s s' : St} {a : α} (h : m s = .ok a s') :
    (m >>= f) s = f a s' := by
  rw [bind_apply, h]

theorem pure_apply {α} (a : α) (s : St) : (pure a : M α) s = .ok a s := rfl

theorem liftE_ok {α} {x : Except Err α} {a : α} (h : x = .ok a) (s : St) : liftE x s = .ok a s := by
  subst h; rfl

theorem send_apply (v : Int) (s : St) : send v s = .ok () { s with sent := s.sent ++ [v] } := rfl
theorem sendAll_apply (vs : List Int) (s : St) :
    sendAll vs s = .ok () { s with sent := s.sent ++ vs } := rfl

theorem good_apply (s : St) : good s = .ok (!(s.trunc && s.peer.isEmpty)) s := rfl

/-! ### draws -/

theorem drawN_spec : ∀ (k : Nat) (peer : List (Option Int)) (cs rest sent : List Int) (tr : Bool),
    cs.length = k →
    drawN k ⟨peer, cs ++ rest, sent, tr⟩ = .ok cs ⟨peer, rest, sent, tr⟩
  | 0, peer, cs, rest, sent, tr, h => by
    have : cs = [] := List.length_eq_zero_iff.mp h
    subst this; rfl
  | k+1, peer, cs, rest, sent, tr, h => by
    match cs, h with
    | c :: cs', h =>
      have h' : cs'.length = k := by simpa using h
      have ih := drawN_spec k peer cs' rest sent tr h'
      show (draw >>= fun c => drawN k >>= fun cs => pure (c :: cs)) _ = _
      rw [bind_apply]
      show (match (Res.ok c ⟨peer, cs' ++ rest, sent, tr⟩ : Res Int) with
        | .ok a s' => (drawN k >>= fun cs => pure (a :: cs)) s'
        | .halt v t s' => .halt v t s'
        | .err e => .err e) = _
      simp only []
      rw [bind_apply, ih]
      rfl

theorem draw_spec (peer : List (Option Int)) (c : Int) (rest sent : List Int) (tr : Bool) :
    draw ⟨peer, c :: rest, sent, tr⟩ = .ok c ⟨peer, rest, sent, tr⟩ := rfl

/-! ### reads -/

theorem recv_spec (v : Int) (peer : List (Option Int)) (cs sent : List Int) (tr : Bool) :
    recv ⟨some v :: peer, cs, sent, tr⟩ = .ok v ⟨peer, cs, sent, tr⟩ := rfl

theorem readChecked_spec (ok : Int → Bool) : ∀ (n : Nat) (xs : List Int) (peer : List (Option Int))
    (cs sent : List Int) (tr : Bool), xs.length = n → (∀ x ∈ xs, ok x = true) →
    readChecked ok n ⟨xs.map some ++ peer, cs, sent, tr⟩ = .ok xs ⟨peer, cs, sent, tr⟩
  | 0, xs, peer, cs, sent, tr, h, _ => by
    have : xs = [] := List.length_eq_zero_iff.mp h
    subst this; rfl
  | n+1, xs, peer, cs, sent, tr, h, hok => by
    match xs, h with
    | x :: xs', h =>
      have h' : xs'.length = n := by simpa using h
      have hx : ok x = true := hok x (by simp)
      have ih := readChecked_spec ok n xs' peer cs sent tr h' (fun y hy => hok y (by simp [hy]))
      show (recv >>= fun x => if !ok x then reject else
        readChecked ok n >>= fun xs => pure (x :: xs)) _ = _
      rw [bind_apply]
      show (match (Res.ok x ⟨xs'.map some ++ peer, cs, sent, tr⟩ : Res Int) with
        | .ok a s' => (if !ok a then reject else
            readChecked ok n >>= fun xs => pure (a :: xs)) s'
        | .halt v t s' => .halt v t s'
        | .err e => .err e) = _
      simp only [hx, Bool.not_true, Bool.false_eq_true, if_false]
      rw [bind_apply, ih]
      rfl

theorem flatCards_cons (c : Card) (l : List Card) : flatCards (c :: l) = c.c1 :: c.c2 :: flatCards l := by
  simp [flatCards]

theorem flatCards_nil : flatCards [] = [] := rfl

theorem flatCards_length (l : List Card) : (flatCards l).length = 2 * l.length := by
  induction l with
  | nil => rfl
  | cons c l ih => rw [flatCards_cons]; simp [ih]; omega

theorem readPairsChecked_spec (ok : Int → Bool) : ∀ (n : Nat) (xs : List Card)
    (peer : List (Option Int)) (cs sent : List Int) (tr : Bool), xs.length = n →
    (∀ x ∈ xs, ok x.c1 = true ∧ ok x.c2 = true) →
    readPairsChecked ok n ⟨(flatCards xs).map some ++ peer, cs, sent, tr⟩ = .ok xs ⟨peer, cs, sent, tr⟩
  | 0, xs, peer, cs, sent, tr, h, _ => by
    have : xs = [] := List.length_eq_zero_iff.mp h
    subst this; rfl
  | n+1, xs, peer, cs, sent, tr, h, hok => by
    match xs, h with
    | x :: xs', h =>
      have h' : xs'.length = n := by simpa using h
      obtain ⟨hx1, hx2⟩ := hok x (by simp)
      have ih := readPairsChecked_spec ok n xs' peer cs sent tr h' (fun y hy => hok y (by simp [hy]))
      rw [flatCards_cons]
      show (recv >>= fun a => recv >>= fun b => if (!ok a || !ok b) then reject else
        readPairsChecked ok n >>= fun xs => pure ((⟨a, b⟩ : Card) :: xs)) _ = _
      rw [bind_apply]
      show (match (Res.ok x.c1 ⟨some x.c2 :: ((flatCards xs').map some ++ peer), cs, sent, tr⟩ : Res Int) with
        | .ok a s' => (recv >>= fun b => if (!ok a || !ok b) then reject else
            readPairsChecked ok n >>= fun xs => pure ((⟨a, b⟩ : Card) :: xs)) s'
        | .halt v t s' => .halt v t s'
        | .err e => .err e) = _
      simp only []
      rw [bind_apply]
      show (match (Res.ok x.c2 ⟨(flatCards xs').map some ++ peer, cs, sent, tr⟩ : Res Int) with
        | .ok b s' => (if (!ok x.c1 || !ok b) then reject else
            readPairsChecked ok n >>= fun xs => pure ((⟨x.c1, b⟩ : Card) :: xs)) s'
        | .halt v t s' => .halt v t s'
        | .err e => .err e) = _
      simp only [hx1, hx2, Bool.not_true, Bool.or_self, Bool.false_eq_true, if_false]
      rw [bind_apply, ih]
      rfl

/-! ### `mapE`, `allE` -/

theorem mapE_spec {α β} (f : α → Except Err β) (P : α → β → Prop) : ∀ (l : List α),
    (∀ a ∈ l, ∃ b, f a = .ok b ∧ P a b) →
    ∃ bs, mapE f l = .ok bs ∧ List.Forall₂ P l bs
  | [], _ => ⟨[], rfl, List.Forall₂.nil⟩
  | a :: l, h => by
    obtain ⟨b, hb, hP⟩ := h a (by simp)
    obtain ⟨bs, hbs, hF⟩ := mapE_spec f P l (fun x hx => h x (by simp [hx]))
    refine ⟨b :: bs, ?_, List.Forall₂.cons hP hF⟩
    show (f a >>= fun b => mapE f l >>= fun bs => Except.ok (b :: bs)) = _
    rw [hb, hbs]; rfl

/-- the `range` form: a list of length `n` whose `i`-th entry satisfies `P i` -/
theorem mapE_range {β} (f : Nat → Except Err β) (P : Nat → β → Prop) (n : Nat) (d : β)
    (h : ∀ i < n, ∃ b, f i = .ok b ∧ P i b) :
    ∃ bs, mapE f (List.range n) = .ok bs ∧ bs.length = n ∧ ∀ i < n, P i (bs.getD i d) := by
  obtain ⟨bs, hbs, hF⟩ := mapE_spec f P (List.range n) (fun i hi => h i (List.mem_range.mp hi))
  have hlen : bs.length = n := by rw [← hF.length_eq, List.length_range]
  refine ⟨bs, hbs, hlen, fun i hi => ?_⟩
  have := List.forall₂_iff_get.mp hF
  have h2 := this.2 i (by simpa using hi) (by omega)
  simp only [List.get_eq_getElem, List.getElem_range] at h2
  rwa [List.getD_eq_getElem _ _ (by omega)]

theorem allE_true : ∀ (l : List (Except Err Bool)), (∀ x ∈ l, x = .ok true) → allE l = .ok true
  | [], _ => rfl
  | x :: xs, h => by
    have hx := h x (by simp)
    have ih := allE_true xs (fun y hy => h y (by simp [hy]))
    show (x >>= fun b => if b then allE xs else pure false) = _
    rw [hx]; exact ih

theorem allE_range_true (n : Nat) (f : Nat → Except Err Bool) (h : ∀ i < n, f i = .ok true) :
    allE ((List.range n).map f) = .ok true := by
  apply allE_true
  intro x hx
  obtain ⟨i, hi, rfl⟩ := List.mem_map.mp hx
  exact h i (List.mem_range.mp hi)

/-! ### reduced sums -/

theorem foldl_add_mod (q : Int) (hq : 0 < q) {α} (f : α → Int) : ∀ (l : List α) (a : Int),
    0 ≤ a → a < q →
    l.foldl (fun acc x => (acc + f x) % q) a = (a + (l.map f).sum) % q
  | [], a, h0, h1 => by simp [Int.emod_eq_of_lt h0 h1]
  | x :: l, a, h0, h1 => by
    rw [List.foldl_cons, foldl_add_mod q hq f l _ (Int.emod_nonneg _ (ne_of_gt hq))
      (Int.emod_lt_of_pos _ hq)]
    rw [List.map_cons, List.sum_cons, Int.emod_add_emod]
    congr 1; ring

theorem sumMod_eq (q : Int) (hq : 0 < q) (l : List Int) : sumMod q l = l.sum % q := by
  unfold sumMod
  have := foldl_add_mod q hq (fun x => x) l 0 (le_refl _) hq
  simpa using this

theorem dotMod_eq (q : Int) (hq : 0 < q) (a b : List Int) :
    dotMod q a b = ((a.zip b).map fun x => x.1 * x.2).sum % q := by
  unfold dotMod
  have := foldl_add_mod q hq (fun x : Int × Int => x.1 * x.2 % q) (a.zip b) 0 (le_refl _) hq
  rw [this, zero_add]
  -- the inner reductions do not matter modulo q
  have key : ∀ l : List (Int × Int),
      ((l.map fun x => x.1 * x.2 % q).sum) % q = ((l.map fun x => x.1 * x.2).sum) % q := by
    intro l
    induction l with
    | nil => rfl
    | cons x l ih =>
      simp only [List.map_cons, List.sum_cons]
      rw [Int.add_emod, ih, Int.emod_emod_of_dvd _ (dvd_refl _), ← Int.add_emod]
  exact key _

end Tmcg.Args
