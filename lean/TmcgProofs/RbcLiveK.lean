import TmcgProofs.RbcLiveJ
/-
  C14 liveness, part K: every delivered or buffered slot of the channel has been "seen" by some
  honest party on the r-ready path (its digest is fixed there) — also when it was delivered on
  the l-deliver path.
-/
namespace Tmcg.Rbc
variable {H : Int → Int} {T : Tag → Int} {c : Cfg}

/-- why deliver-or-buffer was called for `msg` -/
def Src (q : Party) (l : Nat) (msg : Msg) (q' : Party) : Prop :=
  aGet q'.dbar msg.tag ≠ none ∨
  (msg.action = lDeliver ∧ fHas q.retrieve l msg.tag = true ∧
    ∃ i0, agreeFind (ldelPost q l msg) msg.tag (ldelBuf q l msg) (List.range q.n) = some i0 ∧
      q'.deliver = (ldelPost q l msg).deliver)

theorem dob_new (p : Party) (msg : Msg) :
    (∀ e ∈ (deliverOrBuffer p msg []).party.deliverBuf, e ∈ p.deliverBuf ∨ e = msg) ∧
    (∀ who m, (deliverOrBuffer p msg []).out = .delivered who m → msg.id = p.ID) := by
  rcases dob_cases p msg with ⟨_, _, _, heq⟩ | ⟨_, hid, _, _, heq⟩ | ⟨_, heq⟩ <;> rw [heq]
  · exact ⟨fun e h => Or.inl h, fun _ _ h => by cases h⟩
  · exact ⟨fun e h => Or.inl h, fun _ _ _ => hid⟩
  · refine ⟨fun e h => ?_, fun _ _ h => by cases h⟩
    rcases List.mem_append.1 h with h | h
    · exact Or.inl h
    · exact Or.inr (List.mem_singleton.1 h)

theorem DispL.dob_kind {q : Party} {l : Nat} {msg : Msg} {q' : Party} {s : Sent} {o : Outcome}
    (h : DispL H T q l msg q' s o) :
    (∀ e ∈ q'.deliverBuf, e ∈ q.deliverBuf ∨ (e = msg ∧ Src q l msg q')) ∧
    (∀ who m, o = .delivered who m → Src q l msg q' ∧ msg.id = q.ID) := by
  have triv : q'.deliverBuf = q.deliverBuf → o = .idle →
      (∀ e ∈ q'.deliverBuf, e ∈ q.deliverBuf ∨ (e = msg ∧ Src q l msg q')) ∧
      (∀ who m, o = .delivered who m → Src q l msg q' ∧ msg.id = q.ID) := by
    intro h1 h2
    rw [h1, h2]
    exact ⟨fun e h => Or.inl h, fun _ _ h => by cases h⟩
  have viaDob : ∀ pX : Party, pX.deliverBuf = q.deliverBuf → pX.ID = q.ID →
      Src q l msg (deliverOrBuffer pX msg []).party →
      (∀ e ∈ (deliverOrBuffer pX msg []).party.deliverBuf,
        e ∈ q.deliverBuf ∨ (e = msg ∧ Src q l msg (deliverOrBuffer pX msg []).party)) ∧
      (∀ who m, (deliverOrBuffer pX msg []).out = .delivered who m →
        Src q l msg (deliverOrBuffer pX msg []).party ∧ msg.id = q.ID) := by
    intro pX hb hid hsrc
    obtain ⟨d1, d2⟩ := dob_new pX msg
    refine ⟨fun e he => ?_, fun who m ho => ⟨hsrc, (d2 who m ho).trans hid⟩⟩
    rcases d1 e he with h | h
    · exact Or.inl (hb ▸ h)
    · exact Or.inr ⟨h, hsrc⟩
  cases h with
  | readyReq wf hact hnew hlen hamp hr p3 hd hfoo =>
    refine triv ?_ rfl
    rcases hd with ⟨_, rfl⟩ | ⟨_, rfl⟩ <;> rfl
  | readyDeliver wf hact hnew hlen hamp hr p3 hd hfoo =>
    refine viaDob p3 (by rcases hd with ⟨_, rfl⟩ | ⟨_, rfl⟩ <;> rfl)
      (by rcases hd with ⟨_, rfl⟩ | ⟨_, rfl⟩ <;> rfl) (Or.inl ?_)
    rw [(dob_same p3 msg []).dbar]
    rcases hd with ⟨_, rfl⟩ | ⟨h, rfl⟩
    · show aGet (aSet q.dbar msg.tag msg.payload) msg.tag ≠ none
      rw [aGet_aSet_self]; simp
    · show aGet q.dbar msg.tag ≠ none
      rw [h]; simp
  | answerDeliver wf hact hnew db hd haw hh =>
    refine viaDob _ rfl rfl (Or.inl ?_)
    rw [(dob_same _ msg []).dbar]
    show aGet q.dbar msg.tag ≠ none
    rw [hd]; simp
  | ldelDeliver wf hact hnew hretr i hi =>
    refine viaDob _ rfl rfl (Or.inr ⟨hact, hretr, i, hi, ?_⟩)
    rw [(dob_same _ msg []).deliver]; rfl
  | _ => exact triv rfl rfl

/-- an l-deliver is sent only as the answer to an l-retrieve for a slot below the deliver
    counter (FIFO mode), or in non-FIFO mode -/
theorem DispL.ldel_sent {q : Party} {l : Nat} {msg : Msg} {q' : Party} {s : Sent} {o : Outcome}
    (h : DispL H T q l msg q' s o) :
    ∀ x ∈ s, x.2.action = lDeliver → WF q msg ∧ x.2.tag = msg.tag ∧ x.2.id = msg.id ∧ q' = q ∧
      o = .idle ∧ ((q.fifo = true ∧ msg.seq < q.dS msg.sender.toNat) ∨ q.fifo = false) := by
  have nil1 : ∀ x ∈ ([] : Sent), x.2.action = lDeliver → WF q msg ∧ x.2.tag = msg.tag ∧
      x.2.id = msg.id ∧ q' = q ∧
      o = .idle ∧ ((q.fifo = true ∧ msg.seq < q.dS msg.sender.toNat) ∨ q.fifo = false) := by
    intro x hx; cases hx
  have all1 : ∀ (m : Msg), m.action ≠ lDeliver → ∀ x ∈ sendAll q.n m, x.2.action = lDeliver →
      WF q msg ∧ x.2.tag = msg.tag ∧ x.2.id = msg.id ∧ q' = q ∧
      o = .idle ∧ ((q.fifo = true ∧ msg.seq < q.dS msg.sender.toNat) ∨ q.fifo = false) := by
    intro m hm x hx ha; rw [(mem_sendAll_iff.1 hx).2] at ha; exact absurd ha hm
  cases h with
  | echoNew => exact all1 _ (by actdec)
  | echoOld => exact all1 _ (by actdec)
  | echoCount =>
    split_ifs
    · exact all1 _ (by actdec)
    · exact nil1
  | readyCount =>
    split_ifs
    · exact all1 _ (by actdec)
    · exact nil1
  | readyReq wf hact hnew hlen hamp hr p3 hd hfoo =>
    intro x hx ha
    unfold reqList at hx
    obtain ⟨i, _, rfl⟩ := List.mem_map.1 hx
    exact absurd ha (by actdec)
  | readyDeliver => rw [dob_sent_nil]; intro x hx; cases hx
  | answerDeliver => rw [dob_sent_nil]; intro x hx; cases hx
  | ldelDeliver => rw [dob_sent_nil]; intro x hx; cases hx
  | reqAnswer =>
    intro x hx ha
    rw [List.mem_singleton] at hx; subst hx
    exact absurd ha (by actdec)
  | retrieve wf hact x hx =>
    intro y hy ha
    rw [List.mem_singleton] at hy; subst hy
    rcases hx with hx | ⟨mb, rfl, _, hc⟩
    · have ha' : x.action = lDeliver := ha
      rw [hx] at ha'; exact absurd ha' (by decide)
    · exact ⟨wf, rfl, rfl, rfl, rfl, hc⟩
  | _ => exact nil1

end Tmcg.Rbc
