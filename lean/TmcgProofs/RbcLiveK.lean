import TmcgProofs.RbcLiveJ
/-
  C14 liveness, part K: every delivered or buffered slot of the channel has been "seen" by some
  honest party on the r-ready path (its digest is fixed there) — also when it was delivered on
  the l-deliver path.
-/
namespace Tmcg.Rbc
variable {H : Int → Int} {T : Tag → Int} {c : Cfg}

/-- why deliver-or-buffer was called for `msg` -/
def Src (q : Party) (l : Nat) (msg : Msg) (q' : Party) : Prop :=
  aGet q'.dbar msg.tag ≠ none ∨
  (msg.action = lDeliver ∧ fHas q.retrieve l msg.tag = true ∧
    ∃ i0, agreeFind (ldelPost q l msg) msg.tag (ldelBuf q l msg) (List.range q.n) = some i0 ∧
      q'.deliver = (ldelPost q l msg).deliver)

theorem dob_new (p : Party) (msg : Msg) :
    (∀ e ∈ (deliverOrBuffer p msg []).party.deliverBuf, e ∈ p.deliverBuf ∨ e = msg) ∧
    (∀ who m, (deliverOrBuffer p msg []).out = .delivered who m → msg.id = p.ID) := by
  rcases dob_cases p msg with ⟨_, _, _, heq⟩ | ⟨_, hid, _, _, heq⟩ | ⟨_, heq⟩ <;> rw [heq]
  · exact ⟨fun e h => Or.inl h, fun _ _ h => by cases h⟩
  · exact ⟨fun e h => Or.inl h, fun _ _ _ => hid⟩
  · refine ⟨fun e h => ?_, fun _ _ h => by cases h⟩
    rcases List.mem_append.1 h with h | h
    · exact Or.inl h
    · exact Or.inr (List.mem_singleton.1 h)

theorem DispL.dob_kind {q : Party} {l : Nat} {msg : Msg} {q' : Party} {s : Sent} {o : Outcome}
    (h : DispL H T q l msg q' s o) :
    (∀ e ∈ q'.deliverBuf, e ∈ q.deliverBuf ∨ (e = msg ∧ Src q l msg q')) ∧
    (∀ who m, o = .delivered who m → Src q l msg q' ∧ msg.id = q.ID) := by
  have triv : q'.deliverBuf = q.deliverBuf → o = .idle →
      (∀ e ∈ q'.deliverBuf, e ∈ q.deliverBuf ∨ (e = msg ∧ Src q l msg q')) ∧
      (∀ who m, o = .delivered who m → Src q l msg q' ∧ msg.id = q.ID) := by
    intro h1 h2
    rw [h1, h2]
    exact ⟨fun e h => Or.inl h, fun _ _ h => by cases h⟩
  have viaDob : ∀ pX : Party, pX.deliverBuf = q.deliverBuf → pX.ID = q.ID →
      Src q l msg (deliverOrBuffer pX msg []).party →
      (∀ e ∈ (deliverOrBuffer pX msg []).party.deliverBuf,
        e ∈ q.deliverBuf ∨ (e = msg ∧ Src q l msg (deliverOrBuffer pX msg []).party)) ∧
      (∀ who m, (deliverOrBuffer pX msg []).out = .delivered who m →
        Src q l msg (deliverOrBuffer pX msg []).party ∧ msg.id = q.ID) := by
    intro pX hb hid hsrc
    obtain ⟨d1, d2⟩ := dob_new pX msg
    refine ⟨fun e he => ?_, fun who m ho => ⟨hsrc, (d2 who m ho).trans hid⟩⟩
    rcases d1 e he with h | h
    · exact Or.inl (hb ▸ h)
    · exact Or.inr ⟨h, hsrc⟩
  cases h with
  | readyReq wf hact hnew hlen hamp hr p3 hd hfoo =>
    refine triv ?_ rfl
    rcases hd with ⟨_, rfl⟩ | ⟨_, rfl⟩ <;> rfl
  | readyDeliver wf hact hnew hlen hamp hr p3 hd hfoo =>
    refine viaDob p3 (by rcases hd with ⟨_, rfl⟩ | ⟨_, rfl⟩ <;> rfl)
      (by rcases hd with ⟨_, rfl⟩ | ⟨_, rfl⟩ <;> rfl) (Or.inl ?_)
    rw [(dob_same p3 msg []).dbar]
    rcases hd with ⟨_, rfl⟩ | ⟨h, rfl⟩
    · show aGet (aSet q.dbar msg.tag msg.payload) msg.tag ≠ none
      rw [aGet_aSet_self]; simp
    · show aGet q.dbar msg.tag ≠ none
      rw [h]; simp
  | answerDeliver wf hact hnew db hd haw hh =>
    refine viaDob _ rfl rfl (Or.inl ?_)
    rw [(dob_same _ msg []).dbar]
    show aGet q.dbar msg.tag ≠ none
    rw [hd]; simp
  | ldelDeliver wf hact hnew hretr i hi =>
    refine viaDob _ rfl rfl (Or.inr ⟨hact, hretr, i, hi, ?_⟩)
    rw [(dob_same _ msg []).deliver]; rfl
  | _ => exact triv rfl rfl

/-- an l-deliver is sent only as the answer to an l-retrieve for a slot below the deliver
    counter (FIFO mode), or in non-FIFO mode -/
theorem DispL.ldel_sent {q : Party} {l : Nat} {msg : Msg} {q' : Party} {s : Sent} {o : Outcome}
    (h : DispL H T q l msg q' s o) :
    ∀ x ∈ s, x.2.action = lDeliver → WF q msg ∧ msg.action = lRetrieve ∧ x.2.tag = msg.tag ∧ x.2.id = msg.id ∧ q' = q ∧
      o = .idle ∧ ((q.fifo = true ∧ msg.seq < q.dS msg.sender.toNat) ∨ q.fifo = false) := by
  have nil1 : ∀ x ∈ ([] : Sent), x.2.action = lDeliver → WF q msg ∧ msg.action = lRetrieve ∧ x.2.tag = msg.tag ∧
      x.2.id = msg.id ∧ q' = q ∧
      o = .idle ∧ ((q.fifo = true ∧ msg.seq < q.dS msg.sender.toNat) ∨ q.fifo = false) := by
    intro x hx; cases hx
  have all1 : ∀ (m : Msg), m.action ≠ lDeliver → ∀ x ∈ sendAll q.n m, x.2.action = lDeliver →
      WF q msg ∧ msg.action = lRetrieve ∧ x.2.tag = msg.tag ∧ x.2.id = msg.id ∧ q' = q ∧
      o = .idle ∧ ((q.fifo = true ∧ msg.seq < q.dS msg.sender.toNat) ∨ q.fifo = false) := by
    intro m hm x hx ha; rw [(mem_sendAll_iff.1 hx).2] at ha; exact absurd ha hm
  cases h with
  | echoNew => exact all1 _ (by actdec)
  | echoOld => exact all1 _ (by actdec)
  | echoCount =>
    split_ifs
    · exact all1 _ (by actdec)
    · exact nil1
  | readyCount =>
    split_ifs
    · exact all1 _ (by actdec)
    · exact nil1
  | readyReq wf hact hnew hlen hamp hr p3 hd hfoo =>
    intro x hx ha
    unfold reqList at hx
    obtain ⟨i, _, rfl⟩ := List.mem_map.1 hx
    exact absurd ha (by actdec)
  | readyDeliver => rw [dob_sent_nil]; intro x hx; cases hx
  | answerDeliver => rw [dob_sent_nil]; intro x hx; cases hx
  | ldelDeliver => rw [dob_sent_nil]; intro x hx; cases hx
  | reqAnswer =>
    intro x hx ha
    rw [List.mem_singleton] at hx; subst hx
    exact absurd ha (by actdec)
  | retrieve wf hact x hx =>
    intro y hy ha
    rw [List.mem_singleton] at hy; subst hy
    rcases hx with hx | ⟨mb, rfl, _, hc⟩
    · have ha' : x.action = lDeliver := ha
      rw [hx] at ha'; exact absurd ha' (by decide)
    · exact ⟨wf, hact, rfl, rfl, rfl, rfl, hc⟩
  | _ => exact nil1

/-- some honest party has fixed a digest for `τ` (it counted `2t+1` r-ready) -/
def Seen (c : Cfg) (s : Sys) (τ : Tag) : Prop :=
  ∃ i' d, c.honest i' ∧ aGet (s.st i').dbar τ = some d

theorem seen_mono {s s' : Sys} (hm : Micro H T c s s') {τ : Tag} (h : Seen c s τ) : Seen c s' τ := by
  obtain ⟨i', d, h1, h2⟩ := h
  exact ⟨i', d, h1, dbar_keeps hm h2⟩

structure TotInv (c : Cfg) (s : Sys) : Prop where
  dl : ∀ i τ v, (i, τ, v) ∈ s.dl → Seen c s τ
  buf : ∀ i, c.honest i → ∀ e ∈ (s.st i).deliverBuf, e.id = c.ID → Seen c s e.tag
  ldel : c.fifo = true → ∀ l, c.honest l → ∀ dst m, (l, dst, m) ∈ s.log → m.action = lDeliver →
    m.id = c.ID → ∃ v, (l, m.tag, v) ∈ s.dl

theorem totInv_init (c : Cfg) : TotInv c (Sys.init c) where
  dl := by intro i τ v h; cases h
  buf := by intro i _ e h; cases h
  ldel := by intro _ l _ dst m h; cases h

/-- the source of a deliver-or-buffer call yields `Seen` after the step -/
theorem src_seen (hy : Hyp H c) {s : Sys} (hI : Inv H c s) (ih : TotInv c s) {i : Nat}
    (hi : c.honest i) {l : Nat} {msg : Msg} {q' : Party} {sd : Sent} {o : Outcome}
    (hl : l < c.n) (hin : l ∈ c.byz ∨ (l, i, msg) ∈ s.log)
    (hD : DispL H T (s.st i) l msg q' sd o)
    (hI' : Inv H c ⟨upd s.st i q', s.log ++ tagMsgs i sd, s.bc, dlAfter s.dl i msg.tag o⟩)
    (hid : msg.id = c.ID) (hsrc : Src (s.st i) l msg q') :
    Seen c ⟨upd s.st i q', s.log ++ tagMsgs i sd, s.bc, dlAfter s.dl i msg.tag o⟩ msg.tag := by
  have hP := hI.parties i hi
  have hm : Micro H T c s _ := Micro.disp s i hi l msg hl hin q' sd o hD
  rcases hsrc with h | ⟨hact, hretr, i0, hi0, hdel⟩
  · cases hd : aGet q'.dbar msg.tag with
    | none => exact absurd hd h
    | some d => exact ⟨i, d, hi, by show aGet (upd s.st i q' i).dbar _ = _; rw [upd_same]; exact hd⟩
  · -- l-deliver path: one of the agreeing answers comes from an honest party that delivered
    have hfifo : c.fifo = true := by
      cases hf : c.fifo with
      | true => rfl
      | false => rw [hP.nfRetr hf] at hretr; cases hretr
    obtain ⟨hmem, hfl, hnum⟩ := agreeFind_some _ _ _ _ _ hi0
    have hlt : i0 < (ldelPost (s.st i) l msg).n := List.mem_range.1 hmem
    obtain ⟨S, hS1, hS2⟩ := agreeNum_wit _ msg.tag (ldelBuf (s.st i) l msg) i0 hlt hfl
    have hn := hy.hn
    have hb := hy.hb
    have hcard : c.byz.card < S.card := by
      rw [hS1]
      have h1 : (ldelPost (s.st i) l msg).n = c.n := hP.cn
      have h2 : (ldelPost (s.st i) l msg).t = c.t := hP.ct
      rw [h1, h2] at hnum
      omega
    obtain ⟨l', hl'S, hl'b⟩ := exists_honest_of_card (c := c) S hcard
    obtain ⟨hl'n, hl'f, _⟩ := hS2 l' hl'S
    have hl'h : c.honest l' := ⟨by rw [← hP.cn]; exact hl'n, hl'b⟩
    have hP' := hI'.parties i hi
    obtain ⟨m, hm1, hm2, hm3, _⟩ := hP'.ldel l' msg.tag
      (by show fHas (upd s.st i q' i).deliver l' msg.tag = true
          rw [upd_same, hdel]; exact hl'f) hl'h.1 hl'b
    -- the l-deliver message is an old one
    have hold : (l', i, m) ∈ s.log := by
      rcases List.mem_append.1 hm1 with h | h
      · exact h
      · exfalso
        obtain ⟨_, h2⟩ := mem_tagMsgs.1 h
        have := (hD.ldel_sent _ h2 hm2).2.1
        rw [hact] at this; exact absurd this (by decide)
    have hmid : m.id = c.ID := by
      have : m.tag.id = msg.tag.id := by rw [hm3]
      exact this.trans hid
    obtain ⟨v, hv⟩ := ih.ldel hfifo l' hl'h i m hold hm2 hmid
    rw [hm3] at hv
    exact seen_mono hm (ih.dl l' msg.tag v hv)

theorem mem_dlAfter {dl : List (Nat × Tag × Int)} {i : Nat} {tag : Tag} {o : Outcome}
    {x : Nat × Tag × Int} (h : x ∈ dlAfter dl i tag o) :
    x ∈ dl ∨ ∃ who m, o = .delivered who m ∧ x = (i, tag, m) := by
  cases o with
  | delivered who m =>
    rcases List.mem_append.1 h with h | h
    · exact Or.inl h
    · exact Or.inr ⟨who, m, rfl, List.mem_singleton.1 h⟩
  | idle => exact Or.inl h
  | threw => exact Or.inl h

theorem totInv_step (hy : Hyp H c) {s s' : Sys} (hI : Inv H c s) (hI' : Inv H c s')
    (hm : Micro H T c s s') (ih : TotInv c s) : TotInv c s' := by
  have hfr := hm.frame
  have hm0 := hm
  cases hm with
  | hk i0 hi0 R s0 hff hR hs0 =>
    refine ⟨fun i τ v h => seen_mono hm0 (ih.dl i τ v h), ?_, ?_⟩
    · intro i hi e he hid
      refine seen_mono hm0 (ih.buf i hi e ?_ hid)
      by_cases hi0' : i = i0
      · subst hi0'
        have : e ∈ (upd s.st i (hkParty (s.st i) R) i).deliverBuf := he
        rw [upd_same] at this
        exact List.mem_of_mem_filter this
      · have : e ∈ (upd s.st i0 (hkParty (s.st i0) R) i).deliverBuf := he
        rw [upd_ne _ _ _ _ hi0'] at this; exact this
    · intro hf l hl dst m hlog ha hid
      rcases List.mem_append.1 hlog with h | h
      · exact ih.ldel hf l hl dst m h ha hid
      · have := hs0 _ (mem_tagMsgs.1 h).2
        rw [ha] at this; exact absurd this (by decide)
  | bcast i0 hi0 v rnd =>
    refine ⟨fun i τ v h => seen_mono hm0 (ih.dl i τ v h), ?_, ?_⟩
    · intro i hi e he hid
      refine seen_mono hm0 (ih.buf i hi e ?_ hid)
      have := upd_field (·.deliverBuf) s.st i0 (broadcast (s.st i0) v rnd).1 i rfl
      rw [← this]; exact he
    · intro hf l hl dst m hlog ha hid
      rcases List.mem_append.1 hlog with h | h
      · exact ih.ldel hf l hl dst m h ha hid
      · obtain ⟨_, h2⟩ := mem_tagMsgs.1 h
        rw [broadcast_snd] at h2
        have := (mem_sendAll_iff.1 h2).2
        simp only at this
        rw [this] at ha
        exact absurd ha (by simp only [bcMsg]; decide)
  | bufDel i0 hi0 e0 rest m' hff hm' =>
    obtain ⟨he0, hdel, hsub⟩ := findFirst_some _ _ _ _ hff
    unfold deliverable at hdel
    simp only [Bool.and_eq_true, decide_eq_true_eq] at hdel
    have hP0 := hI.parties i0 hi0
    refine ⟨?_, ?_, ?_⟩
    · intro i τ v h
      rcases List.mem_append.1 h with h | h
      · exact seen_mono hm0 (ih.dl i τ v h)
      · simp only [List.mem_singleton, Prod.mk.injEq] at h
        obtain ⟨_, rfl, _⟩ := h
        exact seen_mono hm0 (ih.buf i0 hi0 e0 he0 (hdel.1.trans hP0.cID))
    · intro i hi e he hid
      refine seen_mono hm0 (ih.buf i hi e ?_ hid)
      by_cases hi0' : i = i0
      · subst hi0'
        have : e ∈ (upd s.st i _ i).deliverBuf := he
        rw [upd_same] at this
        exact hsub e this
      · have : e ∈ (upd s.st i0 _ i).deliverBuf := he
        rw [upd_ne _ _ _ _ hi0'] at this; exact this
    · intro hf l hl dst m hlog ha hid
      obtain ⟨v, hv⟩ := ih.ldel hf l hl dst m hlog ha hid
      exact ⟨v, List.mem_append_left _ hv⟩
  | disp i0 hi0 l0 msg hl0 hin q' sd o hD =>
    obtain ⟨k1, k2⟩ := hD.dob_kind
    have hP0 := hI.parties i0 hi0
    refine ⟨?_, ?_, ?_⟩
    · intro i τ v h
      rcases mem_dlAfter h with h | ⟨who, m, ho, hx⟩
      · exact seen_mono hm0 (ih.dl i τ v h)
      · simp only [Prod.mk.injEq] at hx
        obtain ⟨_, rfl, _⟩ := hx
        obtain ⟨hsrc, hid⟩ := k2 who m ho
        exact src_seen hy hI ih hi0 hl0 hin hD hI' (hid.trans hP0.cID) hsrc
    · intro i hi e he hid
      by_cases hi0' : i = i0
      · subst hi0'
        have : e ∈ (upd s.st i q' i).deliverBuf := he
        rw [upd_same] at this
        rcases k1 e this with h | ⟨rfl, hsrc⟩
        · exact seen_mono hm0 (ih.buf i hi e h hid)
        · exact src_seen hy hI ih hi hl0 hin hD hI' hid hsrc
      · have : e ∈ (upd s.st i0 q' i).deliverBuf := he
        rw [upd_ne _ _ _ _ hi0'] at this
        exact seen_mono hm0 (ih.buf i hi e this hid)
    · intro hf l hl dst m hlog ha hid
      rcases List.mem_append.1 hlog with h | h
      · obtain ⟨v, hv⟩ := ih.ldel hf l hl dst m h ha hid
        exact ⟨v, dlAfter_mono _ _ _ _ _ hv⟩
      · obtain ⟨rfl, h2⟩ := mem_tagMsgs.1 h
        obtain ⟨wf, _, htag, hmid, _, _, hcond⟩ := hD.ldel_sent _ h2 ha
        have hP := hI.parties l hl
        rcases hcond with ⟨_, hlt⟩ | hnf
        swap
        · rw [hP.cfifo, hf] at hnf; cases hnf
        obtain ⟨w0, w1, w2⟩ := wf
        rw [hP.cn] at w1
        have htid : msg.tag.id = c.ID := by
          show msg.id = c.ID
          rw [← hmid]; exact hid
        obtain ⟨v, hv⟩ := hP.fifoDel hf msg.tag htid w0 w1 w2 hlt
        have htag' : m.tag = msg.tag := htag
        rw [htag']
        exact ⟨v, dlAfter_mono _ _ _ _ _ hv⟩

end Tmcg.Rbc
