import TmcgProofs.ArgsGrothVss
import TmcgProofs.ArgsVrheModes
/-
  C03 for Groth's shuffle argument, part 4: the three modes.  As for the rotation argument the
  completeness proof is done once for arbitrary challenge sources (`groth_modes`) and then
  instantiated (interactive, public-coin, non-interactive).
-/
namespace Tmcg.Args
open Tmcg Tmcg.Powm Tmcg.Vtmf Tmcg.Grp Tmcg.Sigma Tmcg.SigmaComplete Tmcg.CoinFlip Tmcg.CoinProofs
variable {G : Group} [Fact (Nat.Prime G.p.natAbs)] [Fact (Nat.Prime G.q.natAbs)]
set_option linter.unusedVariables false
set_option linter.unusedSectionVars false

/-! ### challenges of the shuffle argument, seen from both sides -/

/-- a challenge source (see ArgsVrheModes.lean) fits the challenge functions of the shuffle argument;
    `nz`: the interactive verifier redraws a zero (challenge `e`) -/
structure GChalOk (mode : Mode) (P : GrothPub) (nz : Bool) (d : ChalSrc) : Prop where
  prover : ∀ hin peer coins sent tr,
    gChalP mode P hin ⟨d.pPeer.map some ++ peer, d.pCoins ++ coins, sent, tr⟩ =
      .ok (d.val hin) ⟨peer, coins, sent ++ d.pSent, tr⟩
  verifier : ∀ hin peer coins sent,
    gChalV mode P nz hin ⟨d.pSent.map some ++ peer, d.vCoins ++ coins, sent, false⟩ =
      .ok (d.val hin) ⟨peer, coins, sent ++ d.pPeer, false⟩

/-- hash input of the challenge `t_i` -/
def tHashIn (P : GrothPub) (e E : List Card) (c cd : ℤ) (Ed : Card) (i : ℕ) (prev : ℤ) : List ℤ :=
  flatCards e ++ flatCards E ++ pqgh P.S ++
    [P.S.G.p, P.S.G.q, P.cg.getD i 0, P.S.h, c, cd, Ed.c1, Ed.c2, prev, (i : ℤ)]

/-- the values `t_1 … t_n` -/
def tVals (P : GrothPub) (e E : List Card) (c cd : ℤ) (Ed : Card) : List ChalSrc → ℕ → ℤ → List ℤ
  | [], _, _ => []
  | d :: ds, i, prev =>
    d.val (fun _ => tHashIn P e E c cd Ed i prev) ::
      tVals P e E c cd Ed ds (i + 1) (d.val (fun _ => tHashIn P e E c cd Ed i prev))

theorem tVals_length (P : GrothPub) (e E : List Card) (c cd : ℤ) (Ed : Card) :
    ∀ (ds : List ChalSrc) i prev, (tVals P e E c cd Ed ds i prev).length = ds.length
  | [], _, _ => rfl
  | d :: ds, i, prev => by simp [tVals, tVals_length P e E c cd Ed ds]

theorem ts_P (mode : Mode) (P : GrothPub) (e E : List Card) (c cd : ℤ) (Ed : Card) :
    ∀ (ds : List ChalSrc) (i : ℕ) (prev : ℤ) (peer : List (Option ℤ)) (coins sent : List ℤ) (tr : Bool),
    (∀ d ∈ ds, GChalOk mode P false d) →
    grothTs (gChalP mode P) P e E c cd Ed ds.length i prev
      ⟨(ds.flatMap ChalSrc.pPeer).map some ++ peer, ds.flatMap ChalSrc.pCoins ++ coins, sent, tr⟩ =
      .ok (tVals P e E c cd Ed ds i prev) ⟨peer, coins, sent ++ ds.flatMap ChalSrc.pSent, tr⟩
  | [], i, prev, peer, coins, sent, tr, _ => by simp [grothTs, tVals, pure_apply]
  | d :: ds, i, prev, peer, coins, sent, tr, h => by
    have hd := h d (by simp)
    have ih := ts_P mode P e E c cd Ed ds (i + 1) (d.val (fun _ => flatCards e ++ flatCards E ++ pqgh P.S ++
      [P.S.G.p, P.S.G.q, P.cg.getD i 0, P.S.h, c, cd, Ed.c1, Ed.c2, prev, (i : ℤ)])) peer
      coins (sent ++ d.pSent) tr (fun x hx => h x (by simp [hx]))
    have hs : (⟨((d :: ds).flatMap ChalSrc.pPeer).map some ++ peer, (d :: ds).flatMap ChalSrc.pCoins ++ coins,
        sent, tr⟩ : St) = ⟨d.pPeer.map some ++ ((ds.flatMap ChalSrc.pPeer).map some ++ peer),
        d.pCoins ++ (ds.flatMap ChalSrc.pCoins ++ coins), sent, tr⟩ := by
      simp [List.flatMap_cons, List.map_append, List.append_assoc]
    rw [hs]
    simp only [List.length_cons, grothTs]
    rw [bind_ok (hd.prover _ _ _ _ _), bind_ok ih]
    simp [tVals, tHashIn, pure_apply, List.append_assoc]

theorem ts_V (mode : Mode) (P : GrothPub) (e E : List Card) (c cd : ℤ) (Ed : Card) :
    ∀ (ds : List ChalSrc) (i : ℕ) (prev : ℤ) (peer : List (Option ℤ)) (coins sent : List ℤ),
    (∀ d ∈ ds, GChalOk mode P false d) →
    grothTs (gChalV mode P false) P e E c cd Ed ds.length i prev
      ⟨(ds.flatMap ChalSrc.pSent).map some ++ peer, ds.flatMap ChalSrc.vCoins ++ coins, sent, false⟩ =
      .ok (tVals P e E c cd Ed ds i prev) ⟨peer, coins, sent ++ ds.flatMap ChalSrc.pPeer, false⟩
  | [], i, prev, peer, coins, sent, _ => by simp [grothTs, tVals, pure_apply]
  | d :: ds, i, prev, peer, coins, sent, h => by
    have hd := h d (by simp)
    have ih := ts_V mode P e E c cd Ed ds (i + 1) (d.val (fun _ => flatCards e ++ flatCards E ++ pqgh P.S ++
      [P.S.G.p, P.S.G.q, P.cg.getD i 0, P.S.h, c, cd, Ed.c1, Ed.c2, prev, (i : ℤ)])) peer
      coins (sent ++ d.pPeer) (fun x hx => h x (by simp [hx]))
    have hs : (⟨((d :: ds).flatMap ChalSrc.pSent).map some ++ peer, (d :: ds).flatMap ChalSrc.vCoins ++ coins,
        sent, false⟩ : St) = ⟨d.pSent.map some ++ ((ds.flatMap ChalSrc.pSent).map some ++ peer),
        d.vCoins ++ (ds.flatMap ChalSrc.vCoins ++ coins), sent, false⟩ := by
      simp [List.flatMap_cons, List.map_append, List.append_assoc]
    rw [hs]
    simp only [List.length_cons, grothTs]
    rw [bind_ok (hd.verifier _ _ _ _), bind_ok ih]
    simp [tVals, tHashIn, pure_apply, List.append_assoc]

/-! ### the verifier's reads -/

theorem readAny_spec (n : ℕ) (xs : List ℤ) (peer : List (Option ℤ)) (cs sent : List ℤ) (tr : Bool)
    (h : xs.length = n) :
    readChecked (fun _ => true) n ⟨xs.map some ++ peer, cs, sent, tr⟩ = .ok xs ⟨peer, cs, sent, tr⟩ :=
  readChecked_spec _ n xs peer cs sent tr h (fun _ _ => rfl)

theorem grothRead1_spec (c cd Ed1 Ed2 : ℤ) (rest : List (Option ℤ)) (cs sent : List ℤ) :
    grothRead1 ⟨some c :: some cd :: some Ed1 :: some Ed2 :: rest, cs, sent, false⟩ =
      .ok (c, cd, ⟨Ed1, Ed2⟩) ⟨rest, cs, sent, false⟩ := by
  simp only [grothRead1]
  rw [bind_ok (recv_spec c _ cs sent false), bind_ok (recv_spec cd _ cs sent false),
    bind_ok (recv_spec Ed1 _ cs sent false), bind_ok (recv_spec Ed2 _ cs sent false),
    bind_ok (good_false _ cs sent)]
  simp only [Bool.not_true, Bool.false_eq_true, if_false]
  rfl

theorem grothRead2_spec (n : ℕ) (f : List ℤ) (Z : ℤ) (rest : List (Option ℤ)) (cs sent : List ℤ)
    (lf : f.length = n) :
    grothRead2 n ⟨f.map some ++ (some Z :: rest), cs, sent, false⟩ = .ok (f, Z) ⟨rest, cs, sent, false⟩ := by
  simp only [grothRead2]
  rw [bind_ok (readAny_spec n f _ cs sent false lf), bind_ok (recv_spec Z _ cs sent false),
    bind_ok (good_false _ cs sent)]
  simp only [Bool.not_true, Bool.false_eq_true, if_false]
  rfl

theorem skcRead1_spec (cd cD ca : ℤ) (rest : List (Option ℤ)) (cs sent : List ℤ) :
    skcRead1 ⟨some cd :: some cD :: some ca :: rest, cs, sent, false⟩ =
      .ok (cd, cD, ca) ⟨rest, cs, sent, false⟩ := by
  simp only [skcRead1]
  rw [bind_ok (recv_spec cd _ cs sent false), bind_ok (recv_spec cD _ cs sent false),
    bind_ok (recv_spec ca _ cs sent false), bind_ok (good_false _ cs sent)]
  simp only [Bool.not_true, Bool.false_eq_true, if_false]
  rfl

theorem skcRead2_spec (n : ℕ) (f : List ℤ) (z : ℤ) (fD : List ℤ) (zD : ℤ) (rest : List (Option ℤ))
    (cs sent : List ℤ) (lf : f.length = n) (lfD : fD.length = n - 1) :
    skcRead2 n ⟨f.map some ++ (some z :: (fD.map some ++ (some zD :: rest))), cs, sent, false⟩ =
      .ok (f, z, fD, zD) ⟨rest, cs, sent, false⟩ := by
  simp only [skcRead2]
  rw [bind_ok (readAny_spec n f _ cs sent false lf), bind_ok (recv_spec z _ cs sent false),
    bind_ok (readAny_spec (n - 1) fD _ cs sent false lfD), bind_ok (recv_spec zD _ cs sent false),
    bind_ok (good_false _ cs sent)]
  simp only [Bool.not_true, Bool.false_eq_true, if_false]
  rfl


/-! ### the shuffle of known content in any mode -/

theorem skc_modes (hG : ValidGroup G) (mode : Mode) {P : GrothPub} (hP : PubOk G P) (pi : List ℕ)
    (m : List ℤ) (hp : pi.Perm (List.range m.length)) (hn : 2 ≤ m.length) (hcg : m.length ≤ P.cg.length)
    (rho : ℤ) (X Es : ChalSrc) (hX : GChalOk mode P false X) (hEs : GChalOk mode P true Es)
    (he : ∀ hin, toQ G (Es.val hin) ≠ 0)
    (rd rDelta : ℤ) (d mid : List ℤ) (ra : ℤ) (rest : List ℤ)
    (hrd : 0 ≤ rd ∧ rd < G.q) (hrD : 0 ≤ rDelta ∧ rDelta < G.q) (hd : InQ G.q d)
    (hmid : InQ G.q mid) (hra : 0 ≤ ra ∧ ra < G.q) (ld : d.length = m.length)
    (lmid : mid.length = m.length - 2)
    (c alpha : ℤ) (fprime : List ℤ) (lfp : fprime.length = m.length) (C : ℕ → ℤ)
    (hc : Val G c (comVal G P m.length C rho))
    (hC : ∀ i < m.length, toQ G (C i) = toQ G (m.getD (pi.getD i 0) 0) - toQ G (fprime.getD i 0))
    (peer : List (Option ℤ)) (sent : List ℤ) (tr : Bool) :
    ∃ (a : List ℤ) (resp : List ℤ), a.length = 3 ∧
      skcProve mode P pi rho m
        ⟨X.pPeer.map some ++ (Es.pPeer.map some ++ peer),
         X.pCoins ++ (rd :: rDelta :: (d ++ (mid ++ (ra :: (Es.pCoins ++ rest))))), sent, tr⟩ =
        .ok () ⟨peer, rest, sent ++ X.pSent ++ a ++ Es.pSent ++ resp, tr⟩ ∧
      ∀ (restV : List (Option ℤ)) (csV sentV : List ℤ),
        skcVerify mode P c fprime m
          ⟨X.pSent.map some ++ (a.map some ++ (Es.pSent.map some ++ (resp.map some ++ restV))),
           X.vCoins ++ (Es.vCoins ++ (alpha :: csV)), sentV, false⟩ =
          .ok () ⟨restV, csV, sentV ++ X.pPeer ++ Es.pPeer, false⟩ := by
  have lpi : pi.length = m.length := by rw [hp.length_eq, List.length_range]
  set x := X.val (fun _ => P.cg ++ m ++ comPqh P) with hx
  obtain ⟨cd, cD, ca, hmove, vcd, vcD, vca⟩ := skcMove2_spec hG hP pi m hn hcg x rd rDelta d mid ra
    (Es.pCoins ++ rest) hrd hrD hd hmid hra ld lmid (Es.pPeer.map some ++ peer) (sent ++ X.pSent) tr
  set ctx : SkcCtx := ⟨x, rd, rDelta, d, skcDelta m.length d mid, ra,
    skcLa G.q x m.length (pi.map fun j => m.getD j 0) d (skcDelta m.length d mid), cd, cD, ca⟩ with hctx
  set e := Es.val (fun _ => P.cg ++ m ++ [x, cd, cD, ca]) with he'
  obtain ⟨hrng, hchk⟩ := skc_core hG hP pi m hp hn hcg rho x rd rDelta d mid ra cd cD ca ld vcd vcD vca
    e alpha c fprime (he _) C hc hC
  rw [← hctx] at hrng hchk
  refine ⟨[cd, cD, ca], skcResp P.S.G.q pi rho m ctx e, rfl, ?_, ?_⟩
  · simp only [skcProve]
    rw [if_neg (by omega)]
    rw [bind_ok (hX.prover _ _ _ _ _), ← hx, bind_ok hmove]
    rw [bind_ok (hEs.prover _ _ _ _ _), ← he', sendAll_apply]
  · intro restV csV sentV
    simp only [skcVerify]
    rw [if_neg (by omega)]
    rw [bind_ok (hX.verifier _ _ _ _), ← hx]
    simp only [List.map_cons, List.map_nil, List.cons_append, List.nil_append]
    rw [bind_ok (skcRead1_spec cd cD ca _ _ _)]
    simp only []
    rw [bind_ok (hEs.verifier _ _ _ _), ← he']
    have hresp : (skcResp P.S.G.q pi rho m ctx e).map some ++ restV =
        (skcRespF P.S.G.q pi m ctx e).map some ++ (some ((e * rho % P.S.G.q + ctx.rd) % P.S.G.q) ::
          ((skcRespFD P.S.G.q m.length ctx e).map some ++
            (some ((e * ctx.ra % P.S.G.q + ctx.rDelta) % P.S.G.q) :: restV))) := by
      simp [skcResp, List.map_append, List.append_assoc]
    rw [hresp, bind_ok (skcRead2_spec _ _ _ _ _ restV _ _ (by simp [skcRespF]) (by simp [skcRespFD]))]
    simp only []
    rw [hP.st.grp, hrng, testMembership_val hG hP _ hcg _ _ _ hc]
    simp only [Bool.and_self, Bool.not_true, Bool.false_eq_true, if_false]
    rw [bind_ok (draw_spec _ alpha csV _ false)]
    rw [bind_ok (liftE_ok (show skcChecks P c fprime m x cd cD ca e (skcRespF G.q pi m ctx e)
      ((e * rho % G.q + ctx.rd) % G.q) (skcRespFD G.q m.length ctx e ++ [0])
      ((e * ctx.ra % G.q + ctx.rDelta) % G.q) alpha = .ok true from hchk) _)]
    rfl

/-! ### the shuffle argument in any mode -/

/-- what the verifier writes (and the prover reads): the challenge lines `t_i`, `λ`, `x`, `e` -/
def gVerifierLines (T : List ChalSrc) (L X Es : ChalSrc) : List ℤ :=
  T.flatMap ChalSrc.pPeer ++ L.pPeer ++ X.pPeer ++ Es.pPeer

/-- the prover's draws in order: `r, R_d, d_1 … d_n, r_d`, coins of the challenges `t_i`, `λ`, `x`,
    then `r_d, r_Δ, d_1 … d_n, Δ_2 … Δ_{n-1}, r_a` of the SKC, coins of the challenge `e` -/
def gProverCoins (T : List ChalSrc) (L X Es : ChalSrc) (r Rd : ℤ) (d : List ℤ) (rd rd' rD' : ℤ)
    (d' mid : List ℤ) (ra : ℤ) (rest : List ℤ) : List ℤ :=
  r :: Rd :: (d ++ (rd :: (T.flatMap ChalSrc.pCoins ++ (L.pCoins ++ (X.pCoins ++
    (rd' :: rD' :: (d' ++ (mid ++ (ra :: (Es.pCoins ++ rest))))))))))

/-- the verifier's draws: coins of the challenges, then the batch-verification `α` -/
def gVerifierCoins (T : List ChalSrc) (L X Es : ChalSrc) (alpha : ℤ) : List ℤ :=
  T.flatMap ChalSrc.vCoins ++ (L.vCoins ++ (X.vCoins ++ (Es.vCoins ++ [alpha])))

theorem groth_modes (hG : ValidGroup G) (mode : Mode) {P : GrothPub} (hP : PubOk G P) (pi : List ℕ)
    (R : List ℤ) (e E : List Card) (st : ShufStmt G P pi R e E)
    (T : List ChalSrc) (lT : T.length = pi.length) (hT : ∀ d ∈ T, GChalOk mode P false d)
    (L X Es : ChalSrc) (hL : GChalOk mode P false L) (hX : GChalOk mode P false X)
    (hEs : GChalOk mode P true Es) (he : ∀ hin, toQ G (Es.val hin) ≠ 0)
    (r Rd : ℤ) (d : List ℤ) (rd rd' rD' : ℤ) (d' mid : List ℤ) (ra : ℤ) (rest : List ℤ) (alpha : ℤ)
    (hr : 0 ≤ r ∧ r < G.q) (hRd : 0 ≤ Rd ∧ Rd < G.q) (hd : InQ G.q d) (hrd : 0 ≤ rd ∧ rd < G.q)
    (hrd' : 0 ≤ rd' ∧ rd' < G.q) (hrD' : 0 ≤ rD' ∧ rD' < G.q) (hd' : InQ G.q d') (hmid : InQ G.q mid)
    (hra : 0 ≤ ra ∧ ra < G.q) (ld : d.length = pi.length) (ld' : d'.length = pi.length)
    (lmid : mid.length = pi.length - 2) :
    ∃ sentP t, t.length = pi.length ∧
      run (done (grothProve mode P pi R e E))
        ⟨(gVerifierLines T L X Es).map some, gProverCoins T L X Es r Rd d rd rd' rD' d' mid ra rest, [], false⟩ =
        .ok ⟨sentP, true, false⟩ ∧
      ((∀ v ∈ (grothResp G.q pi R ⟨0, Rd, d, 0, 0, 0, ⟨0, 0⟩⟩ t).1, modeLen mode P ≤ bitlen v) →
        (grothResp G.q pi R ⟨0, Rd, d, 0, 0, 0, ⟨0, 0⟩⟩ t).2 ≠ 0 →
        run (grothVerify mode P e E) ⟨sentP.map some, gVerifierCoins T L X Es alpha, [], false⟩ =
          .ok ⟨gVerifierLines T L X Es, true, false⟩) := by
  have hn := st.n2
  obtain ⟨c, cd, Ed, hmove, vc, vcd, v1, v2⟩ := grothMove1_spec hG hP pi R e E st r Rd d rd
    (T.flatMap ChalSrc.pCoins ++ (L.pCoins ++ (X.pCoins ++
      (rd' :: rD' :: (d' ++ (mid ++ (ra :: (Es.pCoins ++ rest)))))))) hr hRd hd hrd ld
    ((T.flatMap ChalSrc.pPeer).map some ++ (L.pPeer.map some ++ (X.pPeer.map some ++ (Es.pPeer.map some ++ []))))
    [] false
  set t := tVals P e E c cd Ed T 0 (P.lnizk : ℤ) with ht
  have lt : t.length = pi.length := by rw [ht, tVals_length, lT]
  set fZ := grothResp G.q pi R ⟨r, Rd, d, rd, c, cd, Ed⟩ t with hfZ
  set lambda := L.val (fun _ => grothHashL P e E t fZ.1 fZ.2) with hlam
  obtain ⟨lf, hchk1, ⟨cl, C, hcl, vcl, hC⟩, hfinal⟩ := groth_core hG mode hP pi R e E st r Rd d rd c cd Ed hRd
    ld vc vcd v1 v2 t lt lambda
  rw [← hfZ] at lf hchk1 hC hfinal
  set msgs := grothMsgs G.q lambda t with hmsgs
  have lm : msgs.length = pi.length := by rw [hmsgs]; simp [grothMsgs, lt]
  obtain ⟨a, resp, la, hskcP, hskcV⟩ := skc_modes hG mode hP pi msgs (by rw [lm]; exact st.perm)
    (by omega) (by rw [lm]; exact st.lcg) ((lambda * r % G.q + rd) % G.q) X Es hX hEs he rd' rD' d' mid ra rest
    hrd' hrD' hd' hmid hra (by rw [lm]; exact ld') (by rw [lm]; exact lmid) (cl * cd % G.p) alpha fZ.1
    (by rw [lm]; exact lf) C (by rw [lm]; exact vcl) (by rw [lm]; exact hC) []
    ([] ++ [c, cd, Ed.c1, Ed.c2] ++ T.flatMap ChalSrc.pSent ++ fZ.1 ++ [fZ.2] ++ L.pSent) false
  refine ⟨[c, cd, Ed.c1, Ed.c2] ++ (T.flatMap ChalSrc.pSent ++ (fZ.1 ++ (fZ.2 :: (L.pSent ++ (X.pSent ++
    (a ++ (Es.pSent ++ resp))))))), t, lt, ?_, ?_⟩
  · have hpeer : (gVerifierLines T L X Es).map some = (T.flatMap ChalSrc.pPeer).map some ++
        (L.pPeer.map some ++ (X.pPeer.map some ++ (Es.pPeer.map some ++ []))) := by
      simp [gVerifierLines, List.map_append, List.append_assoc]
    rw [hpeer]
    simp only [run, done, grothProve, gProverCoins, hP.st.grp]
    rw [bind_apply, if_neg (by rw [st.lR, st.le, st.lE]; have := st.lcg; omega)]
    rw [bind_ok hmove]
    simp only []
    rw [← lT, bind_ok (ts_P mode P e E c cd Ed T 0 _ _ _ _ _ hT), ← ht, ← hfZ]
    rw [bind_ok (sendAll_apply _ _), bind_ok (send_apply _ _)]
    rw [bind_ok (hL.prover _ _ _ _ _), ← hlam, ← hmsgs]
    rw [hskcP]
    simp only [pure_apply, List.nil_append, List.append_assoc, List.cons_append]
  · intro hfl hZ0
    have hfl' : ∀ v ∈ fZ.1, modeLen mode P ≤ bitlen v := hfl
    have hZ0' : fZ.2 ≠ 0 := hZ0
    have hchk := hchk1 hfl' hZ0'
    have hpeer : ([c, cd, Ed.c1, Ed.c2] ++ (T.flatMap ChalSrc.pSent ++ (fZ.1 ++ (fZ.2 :: (L.pSent ++ (X.pSent ++
        (a ++ (Es.pSent ++ resp)))))))).map some =
        some c :: some cd :: some Ed.c1 :: some Ed.c2 :: ((T.flatMap ChalSrc.pSent).map some ++
          (fZ.1.map some ++ (some fZ.2 :: (L.pSent.map some ++ (X.pSent.map some ++ (a.map some ++
            (Es.pSent.map some ++ (resp.map some ++ [])))))))) := by
      simp only [List.map_append, List.map_cons, List.cons_append, List.nil_append,
        List.append_nil]
    rw [hpeer]
    simp only [run, grothVerify, gVerifierCoins, st.le, hP.st.grp]
    rw [if_neg (by rw [st.lE]; have := st.lcg; omega)]
    rw [bind_ok (grothRead1_spec c cd Ed.c1 Ed.c2 _ _ _)]
    simp only []
    rw [← lT, bind_ok (ts_V mode P e E c cd Ed T 0 _ _ _ _ hT), ← ht, lT]
    rw [bind_ok (grothRead2_spec _ fZ.1 fZ.2 _ _ _ lf)]
    simp only []
    rw [bind_ok (hL.verifier _ _ _ _), ← hlam]
    rw [bind_ok (liftE_ok hchk _)]
    simp only [Bool.not_true, Bool.false_eq_true, if_false]
    rw [bind_ok (liftE_ok hcl _), ← hmsgs]
    have hV := hskcV [] [] ([] ++ T.flatMap ChalSrc.pPeer ++ L.pPeer)
    rw [bind_ok hV, bind_ok (liftE_ok hfinal _)]
    simp only [Bool.not_true, Bool.false_eq_true, if_false, pure_apply, gVerifierLines,
      List.nil_append, List.append_assoc]
/-! ### the three kinds of challenge sources for the shuffle argument -/

/-- non-interactive: the hash value cut to `2ℓ_e` bits -/
def gsrcNi (H : Hash) (P : GrothPub) : ChalSrc :=
  ⟨fun hin => tdivR2exp (H (shashInput (hin ()))) P.lnizk, [], [], [], []⟩

theorem gsrcNi_ok (H : Hash) (P : GrothPub) (nz : Bool) : GChalOk (.ni H) P nz (gsrcNi H P) where
  prover := by
    intro hin peer coins sent tr
    simp only [gsrcNi, List.map_nil, List.nil_append, List.append_nil]
    rfl
  verifier := by
    intro hin peer coins sent
    simp only [gsrcNi, List.map_nil, List.nil_append, List.append_nil]
    rfl

theorem tdivR2exp_small {c : ℤ} {k : ℕ} (h : 0 ≤ c ∧ c < (2 : ℤ) ^ k) : tdivR2exp c k = c := by
  unfold tdivR2exp
  rw [if_pos h.1, Int.emod_eq_of_lt h.1 h.2]

theorem gsrcInter_ok (P : GrothPub) (c : ℤ) (hc : 0 ≤ c ∧ c < (2 : ℤ) ^ P.le) (nz : Bool)
    (hnz : nz = true → c ≠ 0) : GChalOk .inter P nz (srcInter c) where
  prover := by
    intro hin peer coins sent tr
    simp only [srcInter, List.map_cons, List.map_nil, List.cons_append, List.nil_append,
      List.append_nil]
    simp only [gChalP]
    rw [bind_ok (recv_spec c peer coins sent tr), tdivR2exp_small hc]
    rfl
  verifier := by
    intro hin peer coins sent
    simp only [srcInter, List.map_nil, List.nil_append, List.cons_append]
    simp only [gChalV]
    cases nz with
    | false =>
      simp only [Bool.false_eq_true, if_false]
      rw [bind_ok (draw_spec peer c coins sent false), bind_ok (send_apply _ _)]
      rfl
    | true =>
      have h0 : c ≠ 0 := hnz rfl
      have hd : drawNonzero ⟨peer, c :: coins, sent, false⟩ = .ok c ⟨peer, coins, sent, false⟩ := by
        have hb : (c == 0) = false := by simpa using h0
        simp only [drawNonzero, List.dropWhile, hb]
      simp only [if_true]
      rw [bind_ok hd, bind_ok (send_apply _ _)]
      rfl

/-- public coin: the coin of the flip's group, cut to `ℓ_e` bits -/
def gsrcPc (P : GrothPub) (C : Crs) (C0 C1 c0 h0 c1 h1 : ℤ) : ChalSrc :=
  ⟨fun _ => tdivR2exp ((c0 + c1) % C.q) P.le, [C1, c1, h1], [c0, h0], [C0, c0, h0], [c1, h1]⟩

omit [Fact (Nat.Prime G.p.natAbs)] [Fact (Nat.Prime G.q.natAbs)] in
theorem gsrcPc_ok (P : GrothPub) (C : Crs) [Fact (Nat.Prime (grp C).p.natAbs)] (hC : ValidCrs C) (nz : Bool)
    (c0 h0 c1 h1 : ℤ) (hc0 : 0 ≤ c0 ∧ c0 < C.q) (hh0 : 0 ≤ h0 ∧ h0 < C.q)
    (hc1 : 0 ≤ c1 ∧ c1 < C.q) (hh1 : 0 ≤ h1 ∧ h1 < C.q) :
    ∃ C0 C1, GChalOk (.pc C) P nz (gsrcPc P C C0 C1 c0 h0 c1 h1) := by
  obtain ⟨C0, C1, o0, o1, hC0, hC1, f0, f1, r0, r1, t0, t1, a0, a1⟩ :=
    flip2_agree hC c0 h0 c1 h1 hc0 hh0 hc1 hh1
  refine ⟨C0, C1, ?_, ?_⟩
  · intro hin peer coins sent tr
    simp only [gsrcPc, List.map_cons, List.map_nil, List.cons_append, List.nil_append]
    simp only [gChalP]
    rw [bind_ok (flip_spec C c0 h0 C0 C1 c1 h1 _ o0 f0 a0 r0 t0 peer coins sent tr)]
    rfl
  · intro hin peer coins sent
    simp only [gsrcPc, List.map_cons, List.map_nil, List.cons_append, List.nil_append]
    simp only [gChalV]
    rw [bind_ok (flip_spec C c1 h1 C1 C0 c0 h0 _ o1 f1 a1 r1 t1 peer coins sent false)]
    rfl


/-! ### completeness of the shuffle argument in the three modes

The verifier's range checks `2^{ℓ-1} ≤ f_i` and `0 < Z` refuse an honest proof for some coins (the
library draws `d_i` from all of `Z_q`, so `f_i = t_{π(i)} + d_i mod q` can be short; `Z = 0` with
probability `1/q`): the theorems state acceptance under exactly these two conditions on the honest
values `f`, `Z`, which they expose together with the challenges `t`.  The challenge `e` must be
invertible modulo `q` (the library asserts it). -/

theorem flatMap_replicate_nil {β} (f : ChalSrc → List β) (d : ChalSrc) (n : ℕ) (h : f d = []) :
    (List.replicate n d).flatMap f = [] :=
  flatMap_nil_of f _ (fun x hx => by rw [List.eq_of_mem_replicate hx]; exact h)

/-- **C03, shuffle argument, non-interactive mode** -/
theorem groth_complete_noninteractive (hG : ValidGroup G) (H : Hash) {P : GrothPub} (hP : PubOk G P)
    (pi : List ℕ) (R : List ℤ) (e E : List Card) (st : ShufStmt G P pi R e E)
    (hH : ∀ s, toQ G (tdivR2exp (H s) P.lnizk) ≠ 0)
    (r Rd : ℤ) (d : List ℤ) (rd rd' rD' : ℤ) (d' mid : List ℤ) (ra : ℤ) (rest : List ℤ) (alpha : ℤ)
    (hr : 0 ≤ r ∧ r < G.q) (hRd : 0 ≤ Rd ∧ Rd < G.q) (hd : InQ G.q d) (hrd : 0 ≤ rd ∧ rd < G.q)
    (hrd' : 0 ≤ rd' ∧ rd' < G.q) (hrD' : 0 ≤ rD' ∧ rD' < G.q) (hd' : InQ G.q d') (hmid : InQ G.q mid)
    (hra : 0 ≤ ra ∧ ra < G.q) (ld : d.length = pi.length) (ld' : d'.length = pi.length)
    (lmid : mid.length = pi.length - 2) :
    ∃ proof t, t.length = pi.length ∧
      run (done (grothProve (.ni H) P pi R e E))
        ⟨[], r :: Rd :: (d ++ (rd :: rd' :: rD' :: (d' ++ (mid ++ (ra :: rest))))), [], false⟩ =
        .ok ⟨proof, true, false⟩ ∧
      ((∀ v ∈ (grothResp G.q pi R ⟨0, Rd, d, 0, 0, 0, ⟨0, 0⟩⟩ t).1, P.lnizk ≤ bitlen v) →
        (grothResp G.q pi R ⟨0, Rd, d, 0, 0, 0, ⟨0, 0⟩⟩ t).2 ≠ 0 →
        run (grothVerify (.ni H) P e E) ⟨proof.map some, [alpha], [], false⟩ = .ok ⟨[], true, false⟩) := by
  have hs := fun nz => gsrcNi_ok H P nz
  obtain ⟨sentP, t, lt, hPr, hV⟩ := groth_modes hG (.ni H) hP pi R e E st
    (List.replicate pi.length (gsrcNi H P)) (by simp)
    (fun x hx => by rw [List.eq_of_mem_replicate hx]; exact hs false)
    (gsrcNi H P) (gsrcNi H P) (gsrcNi H P) (hs false) (hs false) (hs true) (fun hin => hH _)
    r Rd d rd rd' rD' d' mid ra rest alpha hr hRd hd hrd hrd' hrD' hd' hmid hra ld ld' lmid
  have e1 : gVerifierLines (List.replicate pi.length (gsrcNi H P)) (gsrcNi H P) (gsrcNi H P) (gsrcNi H P) = [] := by
    simp only [gVerifierLines, flatMap_replicate_nil ChalSrc.pPeer (gsrcNi H P) _ rfl]; rfl
  have e2 : gProverCoins (List.replicate pi.length (gsrcNi H P)) (gsrcNi H P) (gsrcNi H P) (gsrcNi H P)
      r Rd d rd rd' rD' d' mid ra rest = r :: Rd :: (d ++ (rd :: rd' :: rD' :: (d' ++ (mid ++ (ra :: rest))))) := by
    simp only [gProverCoins, flatMap_replicate_nil ChalSrc.pCoins (gsrcNi H P) _ rfl]; rfl
  have e3 : gVerifierCoins (List.replicate pi.length (gsrcNi H P)) (gsrcNi H P) (gsrcNi H P) (gsrcNi H P) alpha =
      [alpha] := by
    simp only [gVerifierCoins, flatMap_replicate_nil ChalSrc.vCoins (gsrcNi H P) _ rfl]; rfl
  rw [e1, e2] at hPr
  rw [e1, e3] at hV
  exact ⟨sentP, t, lt, hPr, hV⟩

/-- **C03, shuffle argument, interactive mode**: the verifier draws `t_1 … t_n, λ, x, e` (`ℓ_e`-bit
    values, `e ≠ 0`) and the batch-verification `α` -/
theorem groth_complete_interactive (hG : ValidGroup G) {P : GrothPub} (hP : PubOk G P)
    (pi : List ℕ) (R : List ℤ) (e E : List Card) (st : ShufStmt G P pi R e E)
    (ts : List ℤ) (lam x ev : ℤ) (lts : ts.length = pi.length)
    (hts : ∀ v ∈ ts, 0 ≤ v ∧ v < (2 : ℤ) ^ P.le) (hlam : 0 ≤ lam ∧ lam < (2 : ℤ) ^ P.le)
    (hx : 0 ≤ x ∧ x < (2 : ℤ) ^ P.le) (hev : 0 ≤ ev ∧ ev < (2 : ℤ) ^ P.le) (hev0 : toQ G ev ≠ 0)
    (r Rd : ℤ) (d : List ℤ) (rd rd' rD' : ℤ) (d' mid : List ℤ) (ra : ℤ) (rest : List ℤ) (alpha : ℤ)
    (hr : 0 ≤ r ∧ r < G.q) (hRd : 0 ≤ Rd ∧ Rd < G.q) (hd : InQ G.q d) (hrd : 0 ≤ rd ∧ rd < G.q)
    (hrd' : 0 ≤ rd' ∧ rd' < G.q) (hrD' : 0 ≤ rD' ∧ rD' < G.q) (hd' : InQ G.q d') (hmid : InQ G.q mid)
    (hra : 0 ≤ ra ∧ ra < G.q) (ld : d.length = pi.length) (ld' : d'.length = pi.length)
    (lmid : mid.length = pi.length - 2) :
    ∃ sentP t, t.length = pi.length ∧
      run (done (grothProve .inter P pi R e E))
        ⟨(ts ++ [lam] ++ [x] ++ [ev]).map some,
          r :: Rd :: (d ++ (rd :: rd' :: rD' :: (d' ++ (mid ++ (ra :: rest))))), [], false⟩ =
        .ok ⟨sentP, true, false⟩ ∧
      ((∀ v ∈ (grothResp G.q pi R ⟨0, Rd, d, 0, 0, 0, ⟨0, 0⟩⟩ t).1, P.le ≤ bitlen v) →
        (grothResp G.q pi R ⟨0, Rd, d, 0, 0, 0, ⟨0, 0⟩⟩ t).2 ≠ 0 →
        run (grothVerify .inter P e E) ⟨sentP.map some, ts ++ [lam] ++ [x] ++ [ev] ++ [alpha], [], false⟩ =
          .ok ⟨ts ++ [lam] ++ [x] ++ [ev], true, false⟩) := by
  have hev1 : ev ≠ 0 := by rintro rfl; exact hev0 toQ_zero
  obtain ⟨sentP, t, lt, hPr, hV⟩ := groth_modes hG .inter hP pi R e E st
    (ts.map srcInter) (by simp [lts])
    (fun d hd => by
      obtain ⟨c, hc, rfl⟩ := List.mem_map.mp hd
      exact gsrcInter_ok P c (hts c hc) false (by simp))
    (srcInter lam) (srcInter x) (srcInter ev) (gsrcInter_ok P lam hlam false (by simp))
    (gsrcInter_ok P x hx false (by simp)) (gsrcInter_ok P ev hev true (fun _ => hev1)) (fun _ => hev0)
    r Rd d rd rd' rD' d' mid ra rest alpha hr hRd hd hrd hrd' hrD' hd' hmid hra ld ld' lmid
  have p1 : ∀ l : List ℤ, (l.map srcInter).flatMap ChalSrc.pPeer = l := by
    intro l; rw [flatMap_map_single srcInter ChalSrc.pPeer id (fun _ => rfl)]; simp
  have p2 : ∀ l : List ℤ, (l.map srcInter).flatMap ChalSrc.vCoins = l := by
    intro l; rw [flatMap_map_single srcInter ChalSrc.vCoins id (fun _ => rfl)]; simp
  have p3 : ∀ l : List ℤ, (l.map srcInter).flatMap ChalSrc.pCoins = [] :=
    fun l => flatMap_map_nil srcInter ChalSrc.pCoins (fun _ => rfl) l
  have e1 : gVerifierLines (ts.map srcInter) (srcInter lam) (srcInter x) (srcInter ev) =
      ts ++ [lam] ++ [x] ++ [ev] := by
    simp only [gVerifierLines, p1]; rfl
  have e2 : gProverCoins (ts.map srcInter) (srcInter lam) (srcInter x) (srcInter ev)
      r Rd d rd rd' rD' d' mid ra rest = r :: Rd :: (d ++ (rd :: rd' :: rD' :: (d' ++ (mid ++ (ra :: rest))))) := by
    simp only [gProverCoins, p3]; rfl
  have e3 : gVerifierCoins (ts.map srcInter) (srcInter lam) (srcInter x) (srcInter ev) alpha =
      ts ++ [lam] ++ [x] ++ [ev] ++ [alpha] := by
    simp only [gVerifierCoins, p2]; simp [srcInter]
  rw [e1, e2] at hPr
  rw [e1, e3] at hV
  exact ⟨sentP, t, lt, hPr, hV⟩

omit [Fact (Nat.Prime G.p.natAbs)] [Fact (Nat.Prime G.q.natAbs)] in
theorem gsrcPc_list (P : GrothPub) (C : Crs) [Fact (Nat.Prime (grp C).p.natAbs)] (hC : ValidCrs C) (nz : Bool) :
    ∀ (pcs vcs : List (ℤ × ℤ)), pcs.length = vcs.length → InQ2 C.q pcs → InQ2 C.q vcs →
    ∃ A : List ChalSrc, A.length = pcs.length ∧ (∀ d ∈ A, GChalOk (.pc C) P nz d) ∧
      A.flatMap ChalSrc.pCoins = flat2 pcs ∧ A.flatMap ChalSrc.vCoins = flat2 vcs ∧
      ∀ hin, A.map (fun d => d.val hin) =
        (pcs.zip vcs).map fun y => tdivR2exp ((y.1.1 + y.2.1) % C.q) P.le
  | [], [], _, _, _ => ⟨[], rfl, by simp, rfl, rfl, fun _ => rfl⟩
  | x :: pcs, y :: vcs, hl, hp, hv => by
    obtain ⟨A, lA, hA, e1, e2, e3⟩ := gsrcPc_list P C hC nz pcs vcs (by simpa using hl)
      (fun z hz => hp z (by simp [hz])) (fun z hz => hv z (by simp [hz]))
    obtain ⟨C0, C1, hd⟩ := gsrcPc_ok P C hC nz x.1 x.2 y.1 y.2 (hp x (by simp)).1 (hp x (by simp)).2
      (hv y (by simp)).1 (hv y (by simp)).2
    refine ⟨gsrcPc P C C0 C1 x.1 x.2 y.1 y.2 :: A, by simp [lA], ?_, ?_, ?_, ?_⟩
    · intro d hd'
      rcases List.mem_cons.mp hd' with rfl | h
      · exact hd
      · exact hA d h
    · simp [flat2, gsrcPc, e1, List.flatMap_cons] at *
    · simp [flat2, gsrcPc, e2, List.flatMap_cons] at *
    · intro hin; simp [gsrcPc, e3 hin]

/-- **C03, shuffle argument, public-coin mode**: every challenge is a two-party coin flip in the
    group of the CRS `C`, cut to `ℓ_e` bits; the flipped `e` must be invertible modulo `q` -/
theorem groth_complete_publiccoin (hG : ValidGroup G) {P : GrothPub} (hP : PubOk G P) (C : Crs)
    (hC : ValidCrs C) (pi : List ℕ) (R : List ℤ) (e E : List Card) (st : ShufStmt G P pi R e E)
    (pT vT : List (ℤ × ℤ)) (pL vL pX vX pE vE : ℤ × ℤ)
    (lpT : pT.length = pi.length) (lvT : vT.length = pi.length)
    (hpT : InQ2 C.q pT) (hvT : InQ2 C.q vT) (hpL : InQ2 C.q [pL]) (hvL : InQ2 C.q [vL])
    (hpX : InQ2 C.q [pX]) (hvX : InQ2 C.q [vX]) (hpE : InQ2 C.q [pE]) (hvE : InQ2 C.q [vE])
    (hev0 : toQ G (tdivR2exp ((pE.1 + vE.1) % C.q) P.le) ≠ 0)
    (r Rd : ℤ) (d : List ℤ) (rd rd' rD' : ℤ) (d' mid : List ℤ) (ra : ℤ) (rest : List ℤ) (alpha : ℤ)
    (hr : 0 ≤ r ∧ r < G.q) (hRd : 0 ≤ Rd ∧ Rd < G.q) (hd : InQ G.q d) (hrd : 0 ≤ rd ∧ rd < G.q)
    (hrd' : 0 ≤ rd' ∧ rd' < G.q) (hrD' : 0 ≤ rD' ∧ rD' < G.q) (hd' : InQ G.q d') (hmid : InQ G.q mid)
    (hra : 0 ≤ ra ∧ ra < G.q) (ld : d.length = pi.length) (ld' : d'.length = pi.length)
    (lmid : mid.length = pi.length - 2) :
    ∃ sentP sentV t, t.length = pi.length ∧
      run (done (grothProve (.pc C) P pi R e E))
        ⟨sentV.map some, r :: Rd :: (d ++ (rd :: (flat2 pT ++ (flat2 [pL] ++ (flat2 [pX] ++
          (rd' :: rD' :: (d' ++ (mid ++ (ra :: (flat2 [pE] ++ rest)))))))))), [], false⟩ =
        .ok ⟨sentP, true, false⟩ ∧
      ((∀ v ∈ (grothResp G.q pi R ⟨0, Rd, d, 0, 0, 0, ⟨0, 0⟩⟩ t).1, P.le ≤ bitlen v) →
        (grothResp G.q pi R ⟨0, Rd, d, 0, 0, 0, ⟨0, 0⟩⟩ t).2 ≠ 0 →
        run (grothVerify (.pc C) P e E)
          ⟨sentP.map some, flat2 vT ++ (flat2 [vL] ++ (flat2 [vX] ++ (flat2 [vE] ++ [alpha]))), [], false⟩ =
          .ok ⟨sentV, true, false⟩) := by
  have : Fact (Nat.Prime (grp C).p.natAbs) := ⟨hC.valid.p_prime⟩
  obtain ⟨T, lTT, hT, t1, t2, -⟩ := gsrcPc_list P C hC false pT vT (by rw [lpT, lvT]) hpT hvT
  obtain ⟨Ll, lL, hL, l1, l2, -⟩ := gsrcPc_list P C hC false [pL] [vL] rfl hpL hvL
  obtain ⟨Xl, lX, hX, x1, x2, -⟩ := gsrcPc_list P C hC false [pX] [vX] rfl hpX hvX
  obtain ⟨El, lE, hE, q1, q2, q3⟩ := gsrcPc_list P C hC true [pE] [vE] rfl hpE hvE
  match Ll, lL, hL, l1, l2, Xl, lX, hX, x1, x2, El, lE, hE, q1, q2, q3 with
  | [dL], _, hL, l1, l2, [dX], _, hX, x1, x2, [dE], _, hE, q1, q2, q3 =>
    have hval : ∀ hin, dE.val hin = tdivR2exp ((pE.1 + vE.1) % C.q) P.le := by
      intro hin
      have := q3 hin
      simpa using this
    obtain ⟨sentP, t, lt, hPr, hV⟩ := groth_modes hG (.pc C) hP pi R e E st T (by rw [lTT, lpT]) hT dL dX dE
      (hL dL (by simp)) (hX dX (by simp)) (hE dE (by simp)) (fun hin => by rw [hval]; exact hev0)
      r Rd d rd rd' rD' d' mid ra rest alpha hr hRd hd hrd hrd' hrD' hd' hmid hra ld ld' lmid
    refine ⟨sentP, gVerifierLines T dL dX dE, t, lt, ?_, ?_⟩
    · have : gProverCoins T dL dX dE r Rd d rd rd' rD' d' mid ra rest =
          r :: Rd :: (d ++ (rd :: (flat2 pT ++ (flat2 [pL] ++ (flat2 [pX] ++
          (rd' :: rD' :: (d' ++ (mid ++ (ra :: (flat2 [pE] ++ rest)))))))))) := by
        simp only [gProverCoins, t1, ← l1, ← x1, ← q1, List.flatMap_cons, List.flatMap_nil, List.append_nil]
      rw [← this]; exact hPr
    · have : gVerifierCoins T dL dX dE alpha =
          flat2 vT ++ (flat2 [vL] ++ (flat2 [vX] ++ (flat2 [vE] ++ [alpha]))) := by
        simp only [gVerifierCoins, t2, ← l2, ← x2, ← q2, List.flatMap_cons, List.flatMap_nil, List.append_nil]
      rw [← this]; exact hV
/-! ### the stack-level verifiers (`TMCG_VerifyStackEquality_Hoogh / _Groth`) -/

omit [Fact (Nat.Prime G.p.natAbs)] [Fact (Nat.Prime G.q.natAbs)] in
/-- on stacks of group elements the stack-level rotation verifier is the rotation argument's verifier
    (so the `vrhe_complete_*` theorems carry over) -/
theorem hooghVerifyStack_eq (mode : Mode) (S : State) (s s2 : List Card) (hl : s.length = s2.length)
    (hin : stacksInGroup S s s2 = true) : hooghVerifyStack mode S s s2 = vrheVerify mode S s s2 := by
  simp [hooghVerifyStack, hl, hin]

omit [Fact (Nat.Prime G.p.natAbs)] [Fact (Nat.Prime G.q.natAbs)] in
/-- C05 at the stack level: a card component of either stack outside the group (not reduced, or not
    of order dividing `q`, e.g. `p - x`) is refused before a single line is read or written -/
theorem hooghVerifyStack_refuses (mode : Mode) (S : State) (s s2 : List Card) (st : St)
    (hout : stacksInGroup S s s2 = false) :
    run (hooghVerifyStack mode S s s2) st = .ok ⟨st.sent, false, false⟩ := by
  by_cases hl : s.length = s2.length <;> simp [hooghVerifyStack, hl, hout, run, pure_apply]

omit [Fact (Nat.Prime G.p.natAbs)] [Fact (Nat.Prime G.q.natAbs)] in
theorem grothVerifyStack_eq (mode : Mode) (P : GrothPub) (s s2 : List Card) (hcg : s.length ≤ P.cg.length)
    (hl : s.length = s2.length) (hin : stacksInGroup P.S s s2 = true) :
    grothVerifyStack mode P s s2 = grothVerify mode P s s2 := by
  have h1 : ¬ s.length > P.cg.length := by omega
  simp only [grothVerifyStack]
  rw [if_neg h1, if_neg (by simpa using hl)]
  simp [hin]

omit [Fact (Nat.Prime G.p.natAbs)] [Fact (Nat.Prime G.q.natAbs)] in
theorem grothVerifyStack_refuses (mode : Mode) (P : GrothPub) (s s2 : List Card) (st : St)
    (hout : stacksInGroup P.S s s2 = false) :
    run (grothVerifyStack mode P s s2) st = .ok ⟨st.sent, false, false⟩ := by
  by_cases h1 : s.length > P.cg.length <;> by_cases hl : s.length = s2.length <;>
    simp [grothVerifyStack, h1, hl, hout, run, pure_apply]

end Tmcg.Args
