import Tmcg.Model.ArgsGroth
import TmcgProofs.ArgsVrheAlg
/-
  C03 for Groth's shuffle argument, part 1: exponents as elements of the field `ZMod q`, the value
  of the Pedersen commitments of the model (Model/ArgsGroth.lean) as elements of `ZMod p`, and the
  algebra of the argument: the homomorphic commitment equations, the polynomial identity
  `F_n = e Π (m_i - x)` of the shuffle of known content, and the ElGamal product equation.
-/
namespace Tmcg.Args
open Tmcg Tmcg.Powm Tmcg.Vtmf Tmcg.Grp Tmcg.Sigma Tmcg.SigmaComplete

variable {G : Group} [Fact (Nat.Prime G.p.natAbs)]

set_option linter.unusedVariables false
set_option linter.unusedSectionVars false

/-! ### exponents modulo `q` -/

/-- the field of exponents -/
abbrev Fq (G : Group) := ZMod G.q.natAbs

/-- cast of a model integer into the field of exponents -/
def toQ (G : Group) (a : Int) : Fq G := (a : ZMod G.q.natAbs)

theorem fact_q (hG : ValidGroup G) : Fact (Nat.Prime G.q.natAbs) := ⟨hG.q_prime⟩

theorem toQ_eq_iff (hG : ValidGroup G) (a b : Int) : toQ G a = toQ G b ↔ a % G.q = b % G.q := by
  unfold toQ
  rw [ZMod.intCast_eq_intCast_iff, natAbs_q hG]
  rfl

theorem toQ_emod (hG : ValidGroup G) (a : Int) : toQ G (a % G.q) = toQ G a := by
  rw [toQ_eq_iff hG]; exact Int.emod_emod_of_dvd _ (dvd_refl _)

theorem toQ_mul (a b : Int) : toQ G (a * b) = toQ G a * toQ G b := by unfold toQ; push_cast; rfl
theorem toQ_add (a b : Int) : toQ G (a + b) = toQ G a + toQ G b := by unfold toQ; push_cast; rfl
theorem toQ_sub (a b : Int) : toQ G (a - b) = toQ G a - toQ G b := by unfold toQ; push_cast; rfl
theorem toQ_neg (a : Int) : toQ G (-a) = -toQ G a := by unfold toQ; push_cast; rfl
theorem toQ_one : toQ G 1 = 1 := by unfold toQ; push_cast; rfl
theorem toQ_zero : toQ G 0 = 0 := by unfold toQ; push_cast; rfl

theorem eq_of_toQ_eq (hG : ValidGroup G) {a b : Int} (ha : 0 ≤ a ∧ a < G.q) (hb : 0 ≤ b ∧ b < G.q)
    (h : toQ G a = toQ G b) : a = b := by
  have h' := (toQ_eq_iff hG a b).mp h
  rwa [Int.emod_eq_of_lt ha.1 ha.2, Int.emod_eq_of_lt hb.1 hb.2] at h'

/-- powers of subgroup elements only depend on the exponent's class modulo `q` -/
theorem zpow_toQ (hG : ValidGroup G) (x : F G) (hx : x ^ G.q.natAbs = 1) {a b : Int}
    (h : toQ G a = toQ G b) : x ^ a = x ^ b :=
  zpow_congr_q hG x hx ((toQ_eq_iff hG a b).mp h)

/-! ### the public parameters -/

/-- well-formed parameters: the ElGamal state is well formed, every commitment generator is a
    subgroup element with its table -/
structure PubOk (G : Group) [Fact (Nat.Prime G.p.natAbs)] (P : GrothPub) : Prop where
  st : StateOk G P.S
  lT : P.cgT.length = P.cg.length
  tab : ∀ i < P.cg.length, IsTable G (P.cgT.getD i ⟨[]⟩) (P.cg.getD i 0)
  sub : ∀ i < P.cg.length, Sub G (P.cg.getD i 0)

/-- the generators as field elements -/
noncomputable def gen (G : Group) [Fact (Nat.Prime G.p.natAbs)] (P : GrothPub) (i : ℕ) : F G :=
  toF G (P.cg.getD i 0)

/-- `com_ck(m_1 … m_n; r) = h^r Π g_i^{m_i}` in the field -/
noncomputable def comVal (G : Group) [Fact (Nat.Prime G.p.natAbs)] (P : GrothPub) (n : ℕ) (m : ℕ → ℤ) (r : ℤ) :
    F G :=
  toF G P.S.h ^ r * ∏ i ∈ Finset.range n, gen G P i ^ m i

theorem gen_sub {P : GrothPub} (hP : PubOk G P) (i : ℕ) (hi : i < P.cg.length) :
    gen G P i ^ G.q.natAbs = 1 := hP.sub i hi

theorem gen_ne {P : GrothPub} (hG : ValidGroup G) (hP : PubOk G P) (i : ℕ) (hi : i < P.cg.length) :
    gen G P i ≠ 0 := (hP.sub i hi).ne_zero hG

/-- one factor `g_i^m` through whichever routine the code takes -/
theorem comFactor_val (hG : ValidGroup G) {P : GrothPub} (hP : PubOk G P) (prot : Bool) (i : ℕ) (m : ℤ)
    (hi : i < P.cg.length) (hm : m.natAbs < G.q.natAbs) :
    ∃ t, comFactor P prot i m = .ok t ∧ Val G t (gen G P i ^ m) := by
  have h0 := gen_ne hG hP i hi
  simp only [comFactor, hP.st.grp]
  by_cases hN : i < Gen.TMCG_MAX_FPOWM_N
  · rw [if_pos hN]
    cases prot with
    | true =>
      obtain ⟨t, ht, t0, tp, tv⟩ := fspowm_val hG _ _ m (hP.tab i hi) h0 hm
      exact ⟨t, by simpa using ht, t0, tp, tv⟩
    | false =>
      obtain ⟨t, ht, t0, tp, tv⟩ := fpowm_val hG _ _ m (hP.tab i hi) h0 hm
      exact ⟨t, by simpa using ht, t0, tp, tv⟩
  · rw [if_neg hN]
    cases prot with
    | true =>
      obtain ⟨t, ht, t0, tp, tv⟩ := spowm_val hG _ m h0
      exact ⟨t, by simpa using ht, t0, tp, tv⟩
    | false =>
      obtain ⟨t, ht, t0, tp, tv⟩ := mpzPowm_val hG _ m h0
      exact ⟨t, by simpa using ht, t0, tp, tv⟩

theorem comProd_val (hG : ValidGroup G) {P : GrothPub} (hP : PubOk G P) (prot : Bool) :
    ∀ (ms : List ℤ) (i : ℕ) (c : ℤ), i + ms.length ≤ P.cg.length → (0 ≤ c ∧ c < G.p) →
    (∀ v ∈ ms, v.natAbs < G.q.natAbs) →
    ∃ c', comProd P prot ms i c = .ok c' ∧
      Val G c' (toF G c * ∏ k ∈ Finset.range ms.length, gen G P (i + k) ^ ms.getD k 0)
  | [], i, c, _, hc, _ => ⟨c, rfl, hc.1, hc.2, by simp⟩
  | m :: ms, i, c, hl, hc, hm => by
    have hl' : i < P.cg.length := by simp at hl; omega
    obtain ⟨t, ht, -, -, tv⟩ := comFactor_val hG hP prot i m hl' (hm m (by simp))
    obtain ⟨c0, cp, cv⟩ := mulmod_val hG c t
    obtain ⟨c', hc', v0, vp, vv⟩ := comProd_val hG hP prot ms (i + 1) (c * t % G.p)
      (by simp at hl; omega) ⟨c0, cp⟩ (fun v hv => hm v (by simp [hv]))
    refine ⟨c', ?_, v0, vp, ?_⟩
    · simp only [comProd, ht, bind, Except.bind, hP.st.grp]
      exact hc'
    · rw [vv, cv, tv, List.length_cons, Finset.prod_range_succ']
      simp only [List.getD_cons_succ, List.getD_cons_zero, add_zero]
      rw [mul_assoc]
      congr 1
      rw [mul_comm]
      congr 1
      apply Finset.prod_congr rfl
      intro k _
      rw [show i + 1 + k = i + (k + 1) by omega]

/-- `CommitBy`: the commitment of `m` (entries `|m_i| < q`, negative ones allowed) with randomiser
    `0 ≤ r < q` -/
theorem commitBy_val (hG : ValidGroup G) {P : GrothPub} (hP : PubOk G P) (r : ℤ) (m : List ℤ)
    (hl : m.length ≤ P.cg.length) (hr : 0 ≤ r ∧ r < G.q) (hm : ∀ v ∈ m, v.natAbs < G.q.natAbs) :
    ∃ c, commitBy P r m = .ok c ∧ Val G c (comVal G P m.length (fun i => m.getD i 0) r) := by
  obtain ⟨c0, hc0, a0, ap, av⟩ := fspowm_val hG P.S.tabH P.S.h r hP.st.tabH (h_ne hG P.S hP.st)
    (natAbs_lt_of_range hG hr)
  obtain ⟨c, hc, v0, vp, vv⟩ := comProd_val hG hP true m 0 c0 (by omega) ⟨a0, ap⟩ hm
  refine ⟨c, ?_, v0, vp, ?_⟩
  · simp only [commitBy, hP.st.grp]
    rw [if_neg (by omega), if_neg (by omega), hc0]
    simp only [bind, Except.bind]
    exact hc
  · rw [vv, av]; simp [comVal]

/-- `Verify` accepts a reduced non-zero `c` whose value is the commitment of `(m; r)` -/
theorem comVerify_ok (hG : ValidGroup G) {P : GrothPub} (hP : PubOk G P) (c r : ℤ) (m : List ℤ)
    (hl : m.length ≤ P.cg.length) (hr : r.natAbs < G.q.natAbs) (hrq : r < G.q)
    (hm : ∀ v ∈ m, v.natAbs < G.q.natAbs) (hc : 0 < c ∧ c < G.p)
    (hv : toF G c = comVal G P m.length (fun i => m.getD i 0) r) :
    comVerify P c r m = .ok true := by
  obtain ⟨c0, hc0, a0, ap, av⟩ := fpowm_val hG P.S.tabH P.S.h r hP.st.tabH (h_ne hG P.S hP.st) hr
  obtain ⟨c2, hc2, v0, vp, vv⟩ := comProd_val hG hP false m 0 c0 (by omega) ⟨a0, ap⟩ hm
  have e : c = c2 := eq_of_toF_eq hG ⟨hc.1.le, hc.2⟩ ⟨v0, vp⟩ (by
    rw [hv, vv, av]; simp [comVal])
  simp only [comVerify, hP.st.grp]
  rw [if_neg (by omega), if_neg (by omega), hc0]
  simp only [bind, Except.bind, hc2]
  simp only [pure, Except.pure]
  rw [if_neg (by omega)]
  simp [e]

/-! ### homomorphic properties of the commitments -/

theorem comVal_pow_mul (hG : ValidGroup G) {P : GrothPub} (hP : PubOk G P) (n : ℕ) (hn : n ≤ P.cg.length)
    (m m' : ℕ → ℤ) (r r' e : ℤ) :
    comVal G P n m r ^ e * comVal G P n m' r' =
      comVal G P n (fun i => e * m i + m' i) (e * r + r') := by
  have hh0 := h_ne hG P.S hP.st
  unfold comVal
  rw [mul_zpow, ← zpow_mul, ← Finset.prod_zpow, zpow_add₀ hh0, mul_comm r e]
  have : ∀ i ∈ Finset.range n, gen G P i ^ (e * m i + m' i) = (gen G P i ^ m i) ^ e * gen G P i ^ m' i := by
    intro i hi
    have := gen_ne hG hP i (by have := Finset.mem_range.mp hi; omega)
    rw [zpow_add₀ this, ← zpow_mul, mul_comm e]
  rw [Finset.prod_congr rfl this, Finset.prod_mul_distrib]
  ring

theorem comVal_congr (hG : ValidGroup G) {P : GrothPub} (hP : PubOk G P) (n : ℕ) (hn : n ≤ P.cg.length)
    (m m' : ℕ → ℤ) (r r' : ℤ) (hm : ∀ i < n, toQ G (m i) = toQ G (m' i)) (hr : toQ G r = toQ G r') :
    comVal G P n m r = comVal G P n m' r' := by
  unfold comVal
  rw [zpow_toQ hG _ (h_sub P.S hP.st) hr]
  congr 1
  apply Finset.prod_congr rfl
  intro i hi
  have hi' := Finset.mem_range.mp hi
  exact zpow_toQ hG _ (gen_sub hP i (by omega)) (hm i hi')

theorem comVal_ne_zero (hG : ValidGroup G) {P : GrothPub} (hP : PubOk G P) (n : ℕ) (hn : n ≤ P.cg.length)
    (m : ℕ → ℤ) (r : ℤ) : comVal G P n m r ≠ 0 := by
  unfold comVal
  apply mul_ne_zero (zpow_ne_zero _ (h_ne hG P.S hP.st))
  rw [Finset.prod_ne_zero_iff]
  intro i hi
  exact zpow_ne_zero _ (gen_ne hG hP i (by have := Finset.mem_range.mp hi; omega))

/-- commitments are elements of the subgroup of order `q` -/
theorem comVal_sub (hG : ValidGroup G) {P : GrothPub} (hP : PubOk G P) (n : ℕ) (hn : n ≤ P.cg.length)
    (m : ℕ → ℤ) (r : ℤ) : comVal G P n m r ^ G.q.natAbs = 1 := by
  unfold comVal
  rw [mul_pow, zpow_pow_q (h_sub P.S hP.st), one_mul, ← Finset.prod_pow]
  apply Finset.prod_eq_one
  intro i hi
  exact zpow_pow_q (gen_sub hP i (by have := Finset.mem_range.mp hi; omega)) _

/-- `TestMembership` accepts the reduced representative of a commitment -/
theorem testMembership_val (hG : ValidGroup G) {P : GrothPub} (hP : PubOk G P) (n : ℕ) (hn : n ≤ P.cg.length)
    (m : ℕ → ℤ) (r c : ℤ) (hc : Val G c (comVal G P n m r)) : testMembership P c = true := by
  unfold testMembership
  rw [hP.st.grp]
  exact hc.elem hG (comVal_sub hG hP n hn m r)

/-! ### the polynomial identity of the shuffle of known content, in `ZMod q` -/

section
variable {K : Type*} [Field K]

/-- `F_1 = f_1 - e x`, `F_{i+1} = ((f_{i+1} - e x) F_i + f_{Δ_i}) / e` -/
def Frec (e x : K) (f fD : ℕ → K) : ℕ → K
  | 0 => f 0 - e * x
  | i+1 => ((f (i + 1) - e * x) * Frec e x f fD i + fD i) * e⁻¹

/-- Groth's identity: with `f_i = e m_i + d_i` and
    `f_{Δ_i} = e (Δ_{i+1} - (m_{i+1} - x) Δ_i - a_i d_{i+1}) - Δ_i d_{i+1}`, `a_i = Π_{j ≤ i} (m_j - x)`,
    `Δ_0 = d_0`: `F_i = e a_i + Δ_i` -/
theorem Frec_eq (e x : K) (he : e ≠ 0) (m d Δ : ℕ → K) (hΔ0 : Δ 0 = d 0) (i : ℕ) :
    Frec e x (fun i => e * m i + d i)
      (fun i => e * (Δ (i + 1) - (m (i + 1) - x) * Δ i - (∏ j ∈ Finset.range (i + 1), (m j - x)) * d (i + 1))
        - Δ i * d (i + 1)) i =
      e * (∏ j ∈ Finset.range (i + 1), (m j - x)) + Δ i := by
  induction i with
  | zero => simp [Frec, hΔ0]; ring
  | succ i ih =>
    rw [Frec, ih, Finset.prod_range_succ (fun j => m j - x) (i + 1)]
    field_simp
    ring

end
end Tmcg.Args
