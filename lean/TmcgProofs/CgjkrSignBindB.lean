import TmcgProofs.CgjkrSignBindA1
/-
  C16, run level, part B: the binding hypothesis of a run of `Sign` restricted to the openings that OCCUR in the
  run, and agreement / validity of the signature under it.

    * `bindsView_unsat`      the hypothesis `BindsView` of TmcgProofs/CgjkrSignRun.lean is contradictory as soon as
                             the right-hand side of the share check is an element of the group: for EVERY `foo`
                             there is a `bar` with `g^foo h^bar = rhs` (Pedersen commitments hide perfectly), so no
                             polynomial carries all checked pairs.  Hence `RunBinding` is unsatisfiable and
                             `sign_run_agree`, `sign_run_valid` of CgjkrSignRunB.lean hold vacuously.
    * `InB`                  a value lies in the inbox (broadcast queue of sender `j`, identifier `tag`)
    * `sReadShares_sound_occ` steps 1f / 2f: every accepted pair was read from the inbox
    * `BindsViewOcc`         binding hypothesis for one view: the party's own share and every checked pair LYING
                             IN ITS INBOX are on `F`
    * `RunBindingOcc`        the binding hypothesis of a run, in the style of `BindingHypG`: at the two rounds where
                             the schedule has `shRead 0` / `shRead 1` the views of the honest parties are bound to
                             `Fmu` / `Fs`; the honest parties hold the same `a_dkg->y`
    * `sign_run_agree_occ`, `sign_run_valid_occ`   agreement and validity under `RunBindingOcc`
-/
namespace Tmcg.CgjkrSignBind
open Tmcg Tmcg.Powm Tmcg.Dkg Tmcg.Grp Tmcg.DkgL Tmcg.DkgP Tmcg.Cgjkr Tmcg.CgjkrSign Tmcg.CgjkrSignRunP
open Polynomial

/-! ### values lying in an inbox -/

/-- `v` lies in the broadcast queue of sender `j` under the identifier `tag` -/
def InB (I : Inbox) (tag : Tag) (j : Nat) (v : Int) : Prop := (tag, v) ∈ I.b.getD j []

/-- everything in `I1` was in `I` -/
def InSub (I1 I : Inbox) : Prop := ∀ tag j v, InB I1 tag j v → InB I tag j v

theorem InSub.refl (I : Inbox) : InSub I I := fun _ _ _ h => h

theorem InSub.trans {I2 I1 I : Inbox} (h1 : InSub I2 I1) (h2 : InSub I1 I) : InSub I2 I :=
  fun tag j v h => h2 tag j v (h1 tag j v h)

theorem removeFirst_some (tag : Tag) (l : List (Tag × Int)) (v : Int) (r : List (Tag × Int))
    (h : removeFirst tag l = some (v, r)) : (tag, v) ∈ l ∧ ∀ e ∈ r, e ∈ l := by
  induction l generalizing v r with
  | nil => simp [removeFirst] at h
  | cons e rest ih =>
    simp only [removeFirst] at h
    split at h
    · rename_i he
      simp only [Option.some.injEq, Prod.mk.injEq] at h
      obtain ⟨rfl, rfl⟩ := h
      have : e.1 = tag := by simpa using he
      refine ⟨?_, fun x hx => List.mem_cons_of_mem _ hx⟩
      rw [← this]
      exact List.mem_cons_self
    · split at h
      · cases h
      · rename_i v' r' hrec
        simp only [Option.some.injEq, Prod.mk.injEq] at h
        obtain ⟨rfl, rfl⟩ := h
        obtain ⟨i1, i2⟩ := ih _ _ hrec
        refine ⟨List.mem_cons_of_mem _ i1, ?_⟩
        intro x hx
        rcases List.mem_cons.mp hx with rfl | hx
        · exact List.mem_cons_self
        · exact List.mem_cons_of_mem _ (i2 x hx)

theorem popB_spec (I : Inbox) (tag : Tag) (j : Nat) :
    InSub (I.popB tag j).2 I ∧ ∀ v, (I.popB tag j).1 = some v → InB I tag j v := by
  unfold Inbox.popB
  cases hr : removeFirst tag (I.b.getD j []) with
  | none => exact ⟨InSub.refl I, fun v hv => by cases hv⟩
  | some pr =>
    obtain ⟨v, r⟩ := pr
    obtain ⟨h1, h2⟩ := removeFirst_some tag _ v r hr
    refine ⟨?_, ?_⟩
    · intro tag' j' w hw
      unfold InB at hw ⊢
      simp only at hw
      by_cases hj : j' = j
      · subst hj
        by_cases hl : j' < I.b.length
        · rw [List.getD_eq_getElem?_getD, List.getElem?_set_self hl] at hw
          exact h2 _ hw
        · rw [List.set_eq_of_length_le (Nat.le_of_not_lt hl)] at hw
          exact hw
      · rw [List.getD_eq_getElem?_getD, List.getElem?_set_ne (Ne.symm hj)] at hw
        rw [List.getD_eq_getElem?_getD]
        exact hw
    · intro w hw
      simp only [Option.some.injEq] at hw
      subst hw
      exact h1

theorem popB_sub (I : Inbox) (tag : Tag) (j : Nat) (o : Option Int) (I1 : Inbox)
    (h : I.popB tag j = (o, I1)) : InSub I1 I := by
  have := (popB_spec I tag j).1
  rw [h] at this
  exact this

theorem popB_in (I : Inbox) (tag : Tag) (j : Nat) (v : Int) (I1 : Inbox)
    (h : I.popB tag j = (some v, I1)) : InB I tag j v := by
  have := (popB_spec I tag j).2 v
  rw [h] at this
  exact this rfl

theorem popN_spec (tag : Tag) (j : Nat) (n : Nat) (I : Inbox) (acc : List Int) :
    InSub (popN tag j n I acc).2 I ∧
    ∀ vs, (popN tag j n I acc).1 = some vs →
      vs.length = acc.length + n ∧ ∀ v ∈ vs, v ∈ acc ∨ InB I tag j v := by
  induction n generalizing I acc with
  | zero =>
    refine ⟨InSub.refl I, ?_⟩
    intro vs hvs
    simp only [popN, Option.some.injEq] at hvs
    subst hvs
    exact ⟨rfl, fun v hv => Or.inl hv⟩
  | succ f ih =>
    simp only [popN]
    cases hp : I.popB tag j with
    | mk o I1 =>
      cases o with
      | none =>
        simp only
        exact ⟨popB_sub I tag j _ _ hp, fun vs hvs => by cases hvs⟩
      | some v =>
        simp only
        obtain ⟨i1, i2⟩ := ih I1 (acc ++ [v])
        have hs := popB_sub I tag j _ _ hp
        refine ⟨i1.trans hs, ?_⟩
        intro vs hvs
        obtain ⟨l1, l2⟩ := i2 vs hvs
        refine ⟨by rw [l1, List.length_append, List.length_singleton]; omega, ?_⟩
        intro w hw
        rcases l2 w hw with h | h
        · rcases List.mem_append.mp h with h | h
          · exact Or.inl h
          · simp only [List.mem_singleton] at h
            subst h
            exact Or.inr (popB_in I tag j _ _ hp)
        · exact Or.inr (hs tag j w h)

theorem popN_sub (tag : Tag) (j n : Nat) (I : Inbox) (acc : List Int) (o : Option (List Int)) (I1 : Inbox)
    (h : popN tag j n I acc = (o, I1)) : InSub I1 I := by
  have := (popN_spec tag j n I acc).1
  rw [h] at this
  exact this

theorem popN_two (tag : Tag) (j : Nat) (I : Inbox) (vs : List Int) (I1 : Inbox)
    (h : popN tag j 2 I [] = (some vs, I1)) : InB I tag j (getI vs 0) ∧ InB I tag j (getI vs 1) := by
  have := (popN_spec tag j 2 I []).2 vs (by rw [h])
  obtain ⟨hl, hm⟩ := this
  simp only [List.length_nil, Nat.zero_add] at hl
  have h0 : getI vs 0 ∈ vs := by
    unfold getI
    rw [List.getD_eq_getElem _ _ (by omega)]
    exact List.getElem_mem _
  have h1 : getI vs 1 ∈ vs := by
    unfold getI
    rw [List.getD_eq_getElem _ _ (by omega)]
    exact List.getElem_mem _
  refine ⟨?_, ?_⟩
  · rcases hm _ h0 with h | h
    · cases h
    · exact h
  · rcases hm _ h1 with h | h
    · cases h
    · exact h

/-! ### steps 1f / 2f: the accepted pairs were read from the inbox -/

/-- the pair `(foo, bar)` of sender `j` is in range, lies in the inbox and passes the share check -/
def AccOcc (G : Dkg.Grp) (st : SSt) (kindV : Nat) (I : Inbox) (j : Nat) (foo : Int) : Prop :=
  ∃ bar, foo.natAbs < G.q.natAbs ∧ bar.natAbs < G.q.natAbs ∧
    InB I (sgMain st.m) j foo ∧ InB I (sgMain st.m) j bar ∧ ShareOk G st kindV j foo bar

theorem AccOcc.mono {G : Dkg.Grp} {st : SSt} {kindV : Nat} {I1 I : Inbox} {j : Nat} {foo : Int}
    (hs : InSub I1 I) (h : AccOcc G st kindV I1 j foo) : AccOcc G st kindV I j foo := by
  obtain ⟨bar, b1, b2, b3, b4, b5⟩ := h
  exact ⟨bar, b1, b2, hs _ _ _ b3, hs _ _ _ b4, b5⟩

theorem sReadShares_sound_occ (G : Dkg.Grp) (st : SSt) (kindV : Nat) (idx : List Nat) (hnd : idx.Nodup)
    (I : Inbox) (parties0 : List Nat) (shares0 : List Int) (I' : Inbox) (parties : List Nat) (shares : List Int)
    (hlen : shares0.length = st.m) (hidx : ∀ j ∈ idx, j < st.m)
    (h0 : ∀ j ∈ parties0, j = st.i ∨ j ∉ idx)
    (h : sReadShares (st.env G) st kindV idx I parties0 shares0 = .ok (I', parties, shares)) :
    shares.length = st.m ∧
    (∀ j ∈ parties0, j ∈ parties ∧ getI shares j = getI shares0 j) ∧
    (parties0.Nodup → parties.Nodup) ∧
    ∀ j ∈ parties, j ∈ parties0 ∨ (j ∈ idx ∧ j ≠ st.i ∧ AccOcc G st kindV I j (getI shares j)) := by
  induction idx generalizing I parties0 shares0 with
  | nil =>
    simp only [sReadShares, Except.ok.injEq, Prod.mk.injEq] at h
    obtain ⟨rfl, rfl, rfl⟩ := h
    exact ⟨hlen, fun j hj => ⟨hj, rfl⟩, id, fun j hj => Or.inl hj⟩
  | cons j rest ih =>
    obtain ⟨hjr, hndr⟩ := List.nodup_cons.mp hnd
    have hidx' : ∀ a ∈ rest, a < st.m := fun a ha => hidx a (List.mem_cons_of_mem _ ha)
    have lift : ∀ (I1 : Inbox) (parties1 : List Nat) (shares1 : List Int), InSub I1 I → shares1.length = st.m →
        (∀ a ∈ parties0, a ∈ parties1 ∧ getI shares1 a = getI shares0 a) →
        (parties0.Nodup → parties1.Nodup) →
        (∀ a ∈ parties1, a ∈ parties0 ∨ (a = j ∧ a ≠ st.i ∧ AccOcc G st kindV I a (getI shares1 a))) →
        sReadShares (st.env G) st kindV rest I1 parties1 shares1 = .ok (I', parties, shares) →
        shares.length = st.m ∧
        (∀ j ∈ parties0, j ∈ parties ∧ getI shares j = getI shares0 j) ∧
        (parties0.Nodup → parties.Nodup) ∧
        ∀ a ∈ parties, a ∈ parties0 ∨ (a ∈ j :: rest ∧ a ≠ st.i ∧ AccOcc G st kindV I a (getI shares a)) := by
      intro I1 parties1 shares1 hsub hl1 h2 h3 h4 hrec
      have h01 : ∀ a ∈ parties1, a = st.i ∨ a ∉ rest := by
        intro a ha
        rcases h4 a ha with h | ⟨rfl, _⟩
        · exact (h0 a h).imp id (fun hn hm => hn (List.mem_cons_of_mem _ hm))
        · exact Or.inr hjr
      obtain ⟨i1, i2, i3, i4⟩ := ih hndr I1 parties1 shares1 hl1 hidx' h01 hrec
      refine ⟨i1, ?_, fun hn => i3 (h3 hn), ?_⟩
      · intro a ha
        obtain ⟨m1, e1⟩ := h2 a ha
        obtain ⟨m2, e2⟩ := i2 a m1
        exact ⟨m2, e2.trans e1⟩
      · intro a ha
        rcases i4 a ha with hm | ⟨hm, hne, hb⟩
        · rcases h4 a hm with h | ⟨rfl, hne, hacc⟩
          · exact Or.inl h
          · right
            have e := (i2 a hm).2
            rw [e]
            exact ⟨List.mem_cons_self, hne, hacc⟩
        · exact Or.inr ⟨List.mem_cons_of_mem _ hm, hne, hb.mono hsub⟩
    have triv := fun I1 (hs : InSub I1 I) =>
      lift I1 parties0 shares0 hs hlen (fun a ha => ⟨ha, rfl⟩) id (fun a ha => Or.inl ha)
    simp only [sReadShares] at h
    split at h
    · exact triv _ (InSub.refl I) h
    · rename_i hcond
      split at h
      · rename_i I1 hpop
        exact triv _ (popN_sub _ _ _ _ _ _ _ hpop) h
      · rename_i vs I1 hpop
        have hsub : InSub I1 I := popN_sub _ _ _ _ _ _ _ hpop
        obtain ⟨hin0, hin1⟩ := popN_two _ _ _ _ _ hpop
        split at h
        · exact triv _ hsub h
        · rename_i habs
          simp only [bind, Except.bind] at h
          have hE : (SSt.env G st).G = G := rfl
          rw [hE] at h habs
          have hj : j < shares0.length := by rw [hlen]; exact hidx j List.mem_cons_self
          have hjp : j ∉ parties0 := fun hm => (h0 j hm).elim (fun e => hcond (Or.inl e))
            (fun hn => hn List.mem_cons_self)
          have hab : (getI vs 0).natAbs < G.q.natAbs ∧ (getI vs 1).natAbs < G.q.natAbs := by
            simp only [absGe, Bool.or_eq_true, decide_eq_true_eq, not_or, not_le] at habs
            exact habs
          have hset : ∀ a ∈ parties0, getI (shares0.set j (getI vs 0)) a = getI shares0 a := by
            intro a ha
            rw [getI_set]
            have : a ≠ j := fun e => hjp (e ▸ ha)
            simp [this]
          cases hl : pedF G (getI vs 0) (getI vs 1) with
          | error e => rw [hl] at h; cases h
          | ok lhs =>
            rw [hl] at h
            simp only at h
            cases hrh : sShareRhs (SSt.env G st) st kindV j st.signers 1 with
            | error e => rw [hrh] at h; cases h
            | ok rhs =>
              rw [hrh] at h
              simp only at h
              by_cases heq : lhs = rhs
              · have : (lhs == rhs) = true := by simp [heq]
                rw [this] at h
                simp only [if_true] at h
                refine lift _ _ _ hsub (by rw [List.length_set]; exact hlen)
                  (fun a ha => ⟨List.mem_append_left _ ha, hset a ha⟩) ?_ ?_ h
                · intro hn
                  exact List.Nodup.append hn (List.nodup_singleton j) (by simpa using hjp)
                · intro a ha
                  rcases List.mem_append.mp ha with ha | ha
                  · exact Or.inl ha
                  · have : a = j := by simpa using ha
                    subst this
                    right
                    have hg : getI (shares0.set a (getI vs 0)) a = getI vs 0 := by
                      rw [getI_set]; simp [hj]
                    rw [hg]
                    exact ⟨rfl, fun e => hcond (Or.inl e), getI vs 1, hab.1, hab.2, hin0, hin1,
                      lhs, rhs, hl, hrh, heq⟩
              · have : (lhs == rhs) = false := by simp [heq]
                rw [this] at h
                simp only [Bool.false_eq_true, if_false] at h
                exact lift _ _ _ hsub (by rw [List.length_set]; exact hlen)
                  (fun a ha => ⟨ha, hset a ha⟩) id (fun a ha => Or.inl ha) h

variable {G : Dkg.Grp} [Fact (Nat.Prime G.p.natAbs)] [Fact (Nat.Prime G.q.natAbs)]

set_option linter.unusedSectionVars false
set_option linter.unusedVariables false

/-! ### the binding hypothesis for one view, restricted to what lies in the inbox -/

/-- **binding hypothesis** for the view party `st.i` has of the combined sharing of step 1f / 2f when it is about
    to read the shares from the inbox `I`: its own share (kept in `st.s`) and every in-range pair LYING IN `I`
    (under the identifier of `Sign`, sent by `j`) that passes its check lie on the polynomial `F` of degree `≤ t`.
    A violation exhibits two openings of one Pedersen commitment with different first components (the pair of the
    inbox and the pair interpolated from `t+1` pairs on `F`), i.e. `log_g h`. -/
def BindsViewOcc (G : Dkg.Grp) (st : SSt) (I : Inbox) (kindV : Nat) (F : Polynomial (ZMod G.q.natAbs)) : Prop :=
  F.degree < ((st.t + 1 : Nat) : WithBot Nat) ∧
  ((st.s : Int) : ZMod G.q.natAbs) = F.eval (pt G.q (getN st.pts st.i)) ∧
  ∀ j foo bar, j < st.m → foo.natAbs < G.q.natAbs → bar.natAbs < G.q.natAbs →
    InB I (sgMain st.m) j foo → InB I (sgMain st.m) j bar →
    ShareOk G st kindV j foo bar → ((foo : Int) : ZMod G.q.natAbs) = F.eval (pt G.q (getN st.pts j))

/-- the old hypothesis implies the new one -/
theorem BindsView.occ {st : SSt} {kindV : Nat} {F : Polynomial (ZMod G.q.natAbs)} (h : BindsView G st kindV F)
    (I : Inbox) : BindsViewOcc G st I kindV F :=
  ⟨h.1, h.2.1, fun j foo bar hj h1 h2 _ _ hs => h.2.2 j foo bar hj h1 h2 hs⟩

/-- steps 1f / 2f, interpolation under `BindsViewOcc` -/
theorem shares_val_occ (hG : ValidGrp G) (st : SSt) (kindV : Nat) (hS : SignerSet G st)
    (F : Polynomial (ZMod G.q.natAbs)) (I I' : Inbox) (hB : BindsViewOcc G st I kindV F) (parties : List Nat)
    (shares : List Int)
    (hr : sReadShares (st.env G) st kindV (List.range st.m) I [st.i] ((zeros st.m).set st.i st.s) =
      .ok (I', parties, shares))
    (hlen : st.t < parties.length) (v : Int)
    (hv : lagrangeP (st.env G) (parties.take (st.t + 1)) shares = some v) :
    0 ≤ v ∧ v < G.q ∧ ((v : Int) : ZMod G.q.natAbs) = F.eval 0 := by
  obtain ⟨hm, hi, hnd, hsmall⟩ := hS
  obtain ⟨hdeg, hown, hoth⟩ := hB
  have hz : (zeros st.m).length = st.m := by simp [zeros]
  obtain ⟨s1, s2, s3, s4⟩ := sReadShares_sound_occ G st kindV (List.range st.m) List.nodup_range I [st.i]
    ((zeros st.m).set st.i st.s) I' parties shares (by rw [List.length_set]; exact hz)
    (fun j hj => List.mem_range.mp hj) (fun j hj => Or.inl (by simpa using hj)) hr
  have hsi : getI shares st.i = st.s := by
    rw [(s2 st.i (by simp)).2, getI_set]
    simp [hz, hi]
  have hpn : parties.Nodup := s3 (List.nodup_singleton _)
  have hplt : ∀ j ∈ parties, j < st.m := by
    intro j hj
    rcases s4 j hj with h | ⟨h, _⟩
    · have : j = st.i := by simpa using h
      omega
    · exact List.mem_range.mp h
  obtain ⟨v', hv', h0, h1, h2⟩ := lagrangeP_val hG (st.env G) rfl hnd hsmall (parties.take (st.t + 1))
    (hpn.sublist (List.take_sublist _ _))
    (fun j hj => by
      have := hplt j (List.mem_of_mem_take hj)
      show j < st.pts.length
      omega) F
    (by
      rw [List.length_take, Nat.min_eq_left (by omega)]
      exact hdeg) shares
    (by
      intro j hj
      have hjp := List.mem_of_mem_take hj
      show ((getI shares j : Int) : ZMod G.q.natAbs) = F.eval (pt G.q (getN st.pts j))
      rcases s4 j hjp with h | ⟨_, _, bar, b1, b2, b3, b4, b5⟩
      · have : j = st.i := by simpa using h
        subst this
        rw [hsi]; exact hown
      · exact hoth j _ bar (hplt j hjp) b1 b2 b3 b4 b5)
  rw [hv] at hv'
  cases hv'
  exact ⟨h0, h1, h2⟩

/-- step 1f: a party whose view is bound to `F` obtains `mu = F(0)` -/
theorem sign_mu_val_occ (hG : ValidGrp G) (st st' : SSt) (I I' : Inbox) (ops : List Op) (hS : SignerSet G st)
    (F : Polynomial (ZMod G.q.natAbs)) (hB : BindsViewOcc G st I 2 F)
    (h : doAct G (.shRead 0) st I = .ok (.go st' I' ops)) :
    0 ≤ st'.mu ∧ st'.mu < G.q ∧ ((st'.mu : Int) : ZMod G.q.natAbs) = F.eval 0 := by
  obtain ⟨parties, shares, mi, rp, hr, hlen, hv, _⟩ := shRead0_spec G st st' I I' ops h
  exact shares_val_occ hG st 2 hS F I I' hB parties shares hr hlen _ hv

/-- step 2f: a party whose view is bound to `F` obtains `s = F(0)` -/
theorem sign_s_val_occ (hG : ValidGrp G) (st st' : SSt) (I I' : Inbox) (ops : List Op) (hS : SignerSet G st)
    (F : Polynomial (ZMod G.q.natAbs)) (hB : BindsViewOcc G st I 4 F)
    (h : doAct G (.shRead 1) st I = .ok (.done st' I' ops true)) :
    0 ≤ st'.s ∧ st'.s < G.q ∧ ((st'.s : Int) : ZMod G.q.natAbs) = F.eval 0 := by
  obtain ⟨parties, shares, hr, hlen, hv, _⟩ := shRead1_spec G st st' I I' ops h
  exact shares_val_occ hG st 4 hS F I I' hB parties shares hr hlen _ hv

/-- agreement on `mu` and `r` under `BindsViewOcc` -/
theorem sign_mu_agree_occ (hG : ValidGrp G) (st1 st1' st2 st2' : SSt) (I1 I1' I2 I2' : Inbox) (ops1 ops2 : List Op)
    (hS1 : SignerSet G st1) (hS2 : SignerSet G st2)
    (F : Polynomial (ZMod G.q.natAbs)) (hB1 : BindsViewOcc G st1 I1 2 F) (hB2 : BindsViewOcc G st2 I2 2 F)
    (hy : st1.ag.y = st2.ag.y)
    (h1 : doAct G (.shRead 0) st1 I1 = .ok (.go st1' I1' ops1))
    (h2 : doAct G (.shRead 0) st2 I2 = .ok (.go st2' I2' ops2)) :
    st1'.mu = st2'.mu ∧ st1'.r = st2'.r := by
  have hq : 0 < G.q := hG.vg.q_pos
  obtain ⟨a0, a1, a2⟩ := sign_mu_val_occ hG st1 st1' I1 I1' ops1 hS1 F hB1 h1
  obtain ⟨b0, b1, b2⟩ := sign_mu_val_occ hG st2 st2' I2 I2' ops2 hS2 F hB2 h2
  have hmu : st1'.mu = st2'.mu := eq_of_cast_eq hq ⟨a0, a1⟩ ⟨b0, b1⟩ (a2.trans b2.symm)
  refine ⟨hmu, ?_⟩
  obtain ⟨_, _, mi1, rp1, _, _, _, hi1, hp1, hr1, _⟩ := shRead0_spec G st1 st1' I1 I1' ops1 h1
  obtain ⟨_, _, mi2, rp2, _, _, _, hi2, hp2, hr2, _⟩ := shRead0_spec G st2 st2' I2 I2' ops2 h2
  rw [hmu, hi2] at hi1
  cases hi1
  rw [hy, hp2] at hp1
  cases hp1
  rw [hr1, hr2]

/-- agreement on `s` under `BindsViewOcc` -/
theorem sign_s_agree_occ (hG : ValidGrp G) (st1 st1' st2 st2' : SSt) (I1 I1' I2 I2' : Inbox) (ops1 ops2 : List Op)
    (hS1 : SignerSet G st1) (hS2 : SignerSet G st2)
    (F : Polynomial (ZMod G.q.natAbs)) (hB1 : BindsViewOcc G st1 I1 4 F) (hB2 : BindsViewOcc G st2 I2 4 F)
    (h1 : doAct G (.shRead 1) st1 I1 = .ok (.done st1' I1' ops1 true))
    (h2 : doAct G (.shRead 1) st2 I2 = .ok (.done st2' I2' ops2 true)) :
    st1'.s = st2'.s ∧ st1'.r = st1.r ∧ st2'.r = st2.r := by
  have hq : 0 < G.q := hG.vg.q_pos
  obtain ⟨a0, a1, a2⟩ := sign_s_val_occ hG st1 st1' I1 I1' ops1 hS1 F hB1 h1
  obtain ⟨b0, b1, b2⟩ := sign_s_val_occ hG st2 st2' I2 I2' ops2 hS2 F hB2 h2
  obtain ⟨_, _, _, _, _, hr1, _⟩ := shRead1_spec G st1 st1' I1 I1' ops1 h1
  obtain ⟨_, _, _, _, _, hr2, _⟩ := shRead1_spec G st2 st2' I2 I2' ops2 h2
  exact ⟨eq_of_cast_eq hq ⟨a0, a1⟩ ⟨b0, b1⟩ (a2.trans b2.symm), hr1, hr2⟩

/-! ### the run -/

/-- **the binding hypothesis of a run, restricted to what occurs in it** (in the style of `BindingHypG`): there are
    two polynomials of degree `≤ t` such that, at the round where the schedule has step 1f (resp. 2f), the own
    share of every honest party and every in-range pair lying in its inbox that passes its check against the
    public commitments lie on the first (resp. second) polynomial; and the honest parties hold the same public
    value `a_dkg->y` of the nested key generation when they execute step 1f. -/
structure RunBindingOcc (G : Dkg.Grp) (t : Nat) (msg : Int) (sub : List Nat) (ins : List SignIn)
    (Fmu Fs : Polynomial (ZMod G.q.natAbs)) : Prop where
  mu : ∀ k st I, honestS ins k → AtAct G t msg sub ins k (.shRead 0) st I → BindsViewOcc G st I 2 Fmu
  s : ∀ k st I, honestS ins k → AtAct G t msg sub ins k (.shRead 1) st I → BindsViewOcc G st I 4 Fs
  y : ∀ k1 k2 st1 I1 st2 I2, honestS ins k1 → honestS ins k2 →
    AtAct G t msg sub ins k1 (.shRead 0) st1 I1 → AtAct G t msg sub ins k2 (.shRead 0) st2 I2 →
    st1.ag.y = st2.ag.y

/-- **Agreement** under the binding hypothesis restricted to the openings occurring in the run. -/
theorem sign_run_agree_occ (hG : ValidGrp G) (t : Nat) (msg : Int) (sub : List Nat) (ins : List SignIn)
    (hnd : sub.Nodup) (hsmall : ∀ d ∈ sub, (d : Int) + 1 < G.q)
    (Fmu Fs : Polynomial (ZMod G.q.natAbs)) (hB : RunBindingOcc G t msg sub ins Fmu Fs)
    (k1 k2 : Nat) (h1 : honestS ins k1) (h2 : honestS ins k2) (P1 P2 : Party SSt)
    (hP1 : (runSign G t msg sub ins)[k1]? = some P1) (hP2 : (runSign G t msg sub ins)[k2]? = some P2)
    (hd1 : P1.status = .ret true) (hd2 : P2.status = .ret true)
    (hr1 : P1.st.r ≠ 0) (hr2 : P2.st.r ≠ 0) :
    P1.st.r = P2.st.r ∧ P1.st.s = P2.st.s := by
  obtain ⟨sb1, Ib1, sb1', Ib1', opsb1, hAt1, hdo1, hs1, hr1', hm1, hl1⟩ := sign_run_trace' G t msg sub ins k1 P1 hP1 hd1
  obtain ⟨sb2, Ib2, sb2', Ib2', opsb2, hAt2, hdo2, hs2, hr2', hm2, hl2⟩ := sign_run_trace' G t msg sub ins k2 P2 hP2 hd2
  obtain ⟨-, -, -, -, -, hrr1, -, -⟩ := shRead1_spec G sb1 sb1' Ib1 Ib1' opsb1 hdo1
  obtain ⟨-, -, -, -, -, hrr2, -, -⟩ := shRead1_spec G sb2 sb2' Ib2 Ib2' opsb2 hdo2
  have hl1' : RLink' G t msg sub ins k1 sb1 := by
    rcases hl1 with h | h
    · exact absurd (hr1'.trans (hrr1.trans h)) hr1
    · exact h
  have hl2' : RLink' G t msg sub ins k2 sb2 := by
    rcases hl2 with h | h
    · exact absurd (hr2'.trans (hrr2.trans h)) hr2
    · exact h
  obtain ⟨sa1, Ia1, sa1', Ia1', opsa1, hAta1, hdoa1, hra1, hma1⟩ := hl1'
  obtain ⟨sa2, Ia2, sa2', Ia2', opsa2, hAta2, hdoa2, hra2, hma2⟩ := hl2'
  have hB1 := hB.mu k1 sa1 Ia1 h1 hAta1
  have hB2 := hB.mu k2 sa2 Ia2 h2 hAta2
  have hy := hB.y k1 k2 sa1 Ia1 sa2 Ia2 h1 h2 hAta1 hAta2
  obtain ⟨-, hrEq⟩ := sign_mu_agree_occ hG sa1 sa1' sa2 sa2' Ia1 Ia1' Ia2 Ia2' opsa1 opsa2
    (signerSet_of_run hnd hsmall hAta1) (signerSet_of_run hnd hsmall hAta2) Fmu hB1 hB2 hy hdoa1 hdoa2
  have hC1 := hB.s k1 sb1 Ib1 h1 hAt1
  have hC2 := hB.s k2 sb2 Ib2 h2 hAt2
  obtain ⟨hsEq, -, -⟩ := sign_s_agree_occ hG sb1 sb1' sb2 sb2' Ib1 Ib1' Ib2 Ib2' opsb1 opsb2
    (signerSet_of_run hnd hsmall hAt1) (signerSet_of_run hnd hsmall hAt2) Fs hC1 hC2 hdo1 hdo2
  refine ⟨?_, ?_⟩
  · rw [hr1', hrr1, hra1, hrEq, ← hra2, ← hrr2, ← hr2']
  · rw [hs1, hsEq, ← hs2]

/-- **Validity** under the binding hypothesis restricted to the openings occurring in the run; the semantic
    premises (`Fmu(0) = k·a ≠ 0`, `a_dkg->y = g^a`, `Fs(0) = k·(m + x·r)`) are still hypotheses here. -/
theorem sign_run_valid_occ (hG : ValidGrp G) (t : Nat) (msg : Int) (sub : List Nat) (ins : List SignIn)
    (hnd : sub.Nodup) (hsmall : ∀ d ∈ sub, (d : Int) + 1 < G.q)
    (Fmu Fs : Polynomial (ZMod G.q.natAbs)) (hB : RunBindingOcc G t msg sub ins Fmu Fs)
    (k1 : Nat) (h1 : honestS ins k1) (P1 : Party SSt)
    (hP1 : (runSign G t msg sub ins)[k1]? = some P1) (hd1 : P1.status = .ret true)
    (x k a y : Int)
    (hy : cp G y = cp G G.g ^ x)
    (hay : ∀ st I, AtAct G t msg sub ins k1 (.shRead 0) st I → cp G st.ag.y = cp G G.g ^ a)
    (hmu : Fmu.eval 0 = ((k * a : Int) : ZMod G.q.natAbs)) (hmu0 : Fmu.eval 0 ≠ 0)
    (hs : Fs.eval 0 = ((k * (msg + x * P1.st.r) : Int) : ZMod G.q.natAbs))
    (hr0 : P1.st.r ≠ 0) (hs0 : P1.st.s ≠ 0) :
    Tsig.dssVerify (gGrp G) y msg P1.st.r P1.st.s = .ok true := by
  have hq : 0 < G.q := hG.vg.q_pos
  obtain ⟨sb, Ib, sb', Ib', opsb, hAt, hdo, hs1, hr1, hm1, hl1⟩ := sign_run_trace' G t msg sub ins k1 P1 hP1 hd1
  obtain ⟨-, -, -, -, -, hrr, -, -⟩ := shRead1_spec G sb sb' Ib Ib' opsb hdo
  have hl : RLink' G t msg sub ins k1 sb := by
    rcases hl1 with h | h
    · exact absurd (hr1.trans (hrr.trans h)) hr0
    · exact h
  obtain ⟨sa, Ia, sa', Ia', opsa, hAta, hdoa, hra, hma⟩ := hl
  have hB1 := hB.mu k1 sa Ia h1 hAta
  have hC1 := hB.s k1 sb Ib h1 hAt
  obtain ⟨-, -, hmuv⟩ := sign_mu_val_occ hG sa sa' Ia Ia' opsa (signerSet_of_run hnd hsmall hAta) Fmu hB1 hdoa
  obtain ⟨hs0', hslt, hsv⟩ := sign_s_val_occ hG sb sb' Ib Ib' opsb (signerSet_of_run hnd hsmall hAt) Fs hC1 hdo
  obtain ⟨-, -, -, rp, -, -, -, -, -, hrp, -⟩ := shRead0_spec G sa sa' Ia Ia' opsa hdoa
  have hmuM : sa'.mu ≡ k * a [ZMOD G.q] := by
    have : cq G sa'.mu = cq G (k * a) := by unfold cq; rw [hmuv, hmu]
    exact (DkgP.cq_eq_iff hq _ _).1 this
  have hmuM0 : ¬ sa'.mu ≡ 0 [ZMOD G.q] := by
    intro h
    have : cq G sa'.mu = cq G 0 := (DkgP.cq_eq_iff hq _ _).2 h
    apply hmu0
    rw [← hmuv]
    unfold cq at this
    simpa using this
  have hsM : sb'.s ≡ k * (sa.msg + x * sb'.r) [ZMOD G.q] := by
    have : cq G sb'.s = cq G (k * (sa.msg + x * sb'.r)) := by
      unfold cq; rw [hsv, hs, hma, hr1]
    exact (DkgP.cq_eq_iff hq _ _).1 this
  have hrpos : 0 < sb'.r := by
    have h0 : 0 ≤ sb'.r := by rw [hrr, hra, hrp]; exact Int.emod_nonneg _ (ne_of_gt hq)
    have h1 : sb'.r ≠ 0 := by rw [← hr1]; exact hr0
    omega
  have hspos : 0 < sb'.s := by
    have h1 : sb'.s ≠ 0 := by rw [← hs1]; exact hs0
    omega
  have := sign_final_valid hG sa sa' sb sb' Ia Ia' Ib Ib' opsa opsb x k a y hdoa hdo hra (hm1.trans hma.symm) hy
    (hay sa Ia hAta) hmuM hmuM0 hsM hrpos hspos hslt
  rw [hma, ← hr1, ← hs1] at this
  exact this

/-! ### the hypothesis `BindsView` of CgjkrSignRun.lean cannot hold -/

/-- `BindsView` is contradictory as soon as the right-hand side `rhs` of the share check of some position `j < m`
    is a reduced element of the group of order `q`: `(0, e)` and `(1, e')` with `h^e = rhs`, `h^e' = rhs·g^{-1}`
    both pass the check, and no polynomial takes the values 0 and 1 at one point.  (In a run `rhs` is a product of
    powers of checked commitments, i.e. such an element.) -/
theorem bindsView_unsat (hG : ValidGrp G) (st : SSt) (kindV : Nat) (F : Polynomial (ZMod G.q.natAbs))
    (j : Nat) (hj : j < st.m) (rhs : Int)
    (hrhs : sShareRhs (st.env G) st kindV j st.signers 1 = .ok rhs)
    (hr : 0 ≤ rhs ∧ rhs < G.p) (hrq : cp G rhs ^ G.q.natAbs = 1) :
    ¬ BindsView G st kindV F := by
  intro hB
  have hq : 0 < G.q := hG.vg.q_pos
  obtain ⟨e, he, hlog⟩ := @exists_log (hGrp G) ‹Fact (Nat.Prime G.p.natAbs)› hG.vh (cp G rhs) hrq
  have hgq : (cp G rhs * (cp G G.g)⁻¹) ^ G.q.natAbs = 1 := by
    rw [mul_pow, hrq, inv_pow, g_pow_q_eq hG]; simp
  obtain ⟨e', he', hlog'⟩ := @exists_log (hGrp G) ‹Fact (Nat.Prime G.p.natAbs)› hG.vh _ hgq
  have hlogh : cp G rhs = cp G G.h ^ e := hlog
  have hlogh' : cp G rhs * (cp G G.g)⁻¹ = cp G G.h ^ e' := hlog'
  have hqn : ((G.q.natAbs : Nat) : Int) = G.q := Int.natAbs_of_nonneg hq.le
  have hq2 : 2 ≤ G.q.natAbs := (Fact.out : Nat.Prime G.q.natAbs).two_le
  have ok : ∀ (a : Int) (b : Nat), a.natAbs < G.q.natAbs → b < G.q.natAbs →
      cp G G.g ^ a * cp G G.h ^ b = cp G rhs → ShareOk G st kindV j a (b : Int) := by
    intro a b ha hb hv
    obtain ⟨l, hl, hl0, hl1, hlv⟩ := pedF_val hG a (b : Int) ha (by simpa using hb)
    refine ⟨l, rhs, hl, hrhs, ?_⟩
    apply cp_inj hG ⟨hl0, hl1⟩ hr
    rw [hlv, zpow_natCast]
    exact hv
  have s0 : ShareOk G st kindV j 0 (e : Int) := ok 0 e (by simpa using by omega) he (by rw [zpow_zero, one_mul, hlogh])
  have s1 : ShareOk G st kindV j 1 (e' : Int) := ok 1 e' (by simpa using by omega) he' (by
    rw [zpow_one, ← hlogh', mul_comm (cp G rhs), ← mul_assoc, mul_inv_cancel₀ (g_unit hG), one_mul])
  have he2 : e < G.q.natAbs := he
  have he2' : e' < G.q.natAbs := he'
  have v0 := hB.2.2 j 0 (e : Int) hj (by simpa using by omega) (by simpa using he2) s0
  have v1 := hB.2.2 j 1 (e' : Int) hj (by simpa using by omega) (by simpa using he2') s1
  rw [← v0] at v1
  have : (1 : ZMod G.q.natAbs) = 0 := by
    have h := v1
    push_cast at h
    exact h
  exact one_ne_zero this

end Tmcg.CgjkrSignBind
