import Tmcg.Model.Vtmf
import Tmcg.Model.Sigma
import TmcgProofs.Group
import Mathlib.Algebra.BigOperators.Group.List.Basic
import Mathlib.Tactic.FieldSimp
import Mathlib.Tactic.Ring
/-
  C08: the common card key as a function of the history of contributions and removals.
-/
namespace Tmcg.Key
open Tmcg Tmcg.Vtmf Tmcg.Grp

variable {G : Group}

/-- a history is well formed w.r.t. a fingerprint function `FP` that is injective on keys:
    accepted keys are units with `fp = FP key`, and no key is accepted while a key with the
    same fingerprint is still stored (the duplicate corner is `duplicate_key_behaviour`) -/
def WellFormed (G : Group) (FP : Int → Int) : List (Int × Int) → List KeyOp → Prop
  | _, [] => True
  | stored, .accept fp key :: rest =>
      fp = FP key ∧ (key : ZMod G.p.natAbs) ≠ 0 ∧ (∀ e ∈ stored, e.1 ≠ fp) ∧
      WellFormed G FP ((fp, key) :: stored) rest
  | stored, .refuse :: rest => WellFormed G FP stored rest
  | stored, .remove fp :: rest => WellFormed G FP (stored.filter (fun e => e.1 ≠ fp)) rest

/-- the state invariant: `h` is reduced and equals own key times the product of the stored keys;
    stored keys are units with pairwise distinct fingerprints -/
def Inv (G : Group) (hi : Int) (S : State) : Prop :=
  S.G = G ∧ 0 ≤ S.h ∧ S.h < G.p ∧
  toF G S.h = toF G hi * (S.keys.map fun e => toF G e.2).prod ∧
  (S.keys.map Prod.fst).Nodup ∧ ∀ e ∈ S.keys, toF G e.2 ≠ 0

/-! ### helpers -/

/-- the state component of `runKeyOps` is a plain fold of the state transition -/
theorem foldl_fst (ops : List KeyOp) : ∀ (acc : State × List Bool),
    (ops.foldl (fun (acc : State × List Bool) op =>
      let (S', r) := applyKeyOp acc.1 op
      (S', acc.2 ++ [r])) acc).1
      = ops.foldl (fun S op => (applyKeyOp S op).1) acc.1 := by
  induction ops with
  | nil => intro acc; rfl
  | cons op ops ih =>
    intro acc
    rw [List.foldl_cons, List.foldl_cons, ih]

theorem runKeyOps_fst (S : State) (ops : List KeyOp) :
    (runKeyOps S ops).1 = ops.foldl (fun S op => (applyKeyOp S op).1) S :=
  foldl_fst ops (S, [])

theorem runKeyOps_cons (S : State) (op : KeyOp) (ops : List KeyOp) :
    (runKeyOps S (op :: ops)).1 = (runKeyOps (applyKeyOp S op).1 ops).1 := by
  rw [runKeyOps_fst, runKeyOps_fst, List.foldl_cons]

theorem runKeyOps_nil (S : State) : (runKeyOps S []).1 = S := rfl

theorem filter_ne_self (l : List (Int × Int)) (fp : Int) (h : ∀ e ∈ l, e.1 ≠ fp) :
    l.filter (fun e => e.1 ≠ fp) = l := by
  rw [List.filter_eq_self]
  intro e he
  simpa using h e he

theorem find_none (l : List (Int × Int)) (fp : Int) (h : ∀ e ∈ l, e.1 ≠ fp) :
    l.find? (fun e => e.1 = fp) = none := by
  rw [List.find?_eq_none]
  intro e he
  simpa using h e he

theorem removeKey_none (S : State) (fp : Int) (h : S.keys.find? (fun e => e.1 = fp) = none) :
    removeKey S fp = (S, false) := by
  unfold removeKey
  rw [h]

theorem removeKey_some (S : State) (fp a key ki : Int)
    (h : S.keys.find? (fun e => e.1 = fp) = some (a, key)) (hk : invm key S.G.p = some ki) :
    removeKey S fp =
      ({ S with h := S.h * ki % S.G.p, keys := S.keys.filter (fun e => e.1 ≠ fp) }, true) := by
  unfold removeKey
  rw [h]
  simp only
  rw [hk]

/-- with pairwise distinct fingerprints, the product over all stored keys is the looked-up key
    times the product over the others -/
theorem prod_filter_find {M : Type*} [CommMonoid M] (f : Int × Int → M) (fp : Int) :
    ∀ (l : List (Int × Int)), (l.map Prod.fst).Nodup → ∀ (a key : Int),
      l.find? (fun e => e.1 = fp) = some (a, key) →
      (l.map f).prod = f (a, key) * ((l.filter (fun e => e.1 ≠ fp)).map f).prod := by
  intro l
  induction l with
  | nil => intro _ a key h; simp at h
  | cons e l ih =>
    intro hnd a key hfind
    rw [List.map_cons, List.nodup_cons] at hnd
    by_cases he : e.1 = fp
    · have h1 : e = (a, key) := by simpa [List.find?_cons, he] using hfind
      have hrest : ∀ e' ∈ l, e'.1 ≠ fp := by
        intro e' he' heq
        exact hnd.1 (by rw [he, ← heq]; exact List.mem_map_of_mem he')
      have hfil : (e :: l).filter (fun e => e.1 ≠ fp) = l := by
        rw [List.filter_cons_of_neg (by simpa using he)]
        exact filter_ne_self l fp hrest
      rw [hfil, List.map_cons, List.prod_cons, h1]
    · have h1 : l.find? (fun e => e.1 = fp) = some (a, key) := by
        simpa [List.find?_cons, he] using hfind
      rw [List.filter_cons_of_pos (by simpa using he), List.map_cons, List.map_cons,
        List.prod_cons, List.prod_cons, ih hnd.2 a key h1]
      exact mul_left_comm _ _ _

theorem find_mem (l : List (Int × Int)) (fp a key : Int)
    (h : l.find? (fun e => e.1 = fp) = some (a, key)) : (a, key) ∈ l ∧ a = fp := by
  refine ⟨List.mem_of_find?_eq_some h, ?_⟩
  simpa using List.find?_some h

theorem length_filter_dup (fp : Int) : ∀ (l : List (Int × Int)), (l.map Prod.fst).Nodup →
    (∃ key, (fp, key) ∈ l) → (l.filter (fun e => e.1 ≠ fp)).length + 1 = l.length := by
  intro l
  induction l with
  | nil => intro _ h; simp at h
  | cons e l ih =>
    intro hnd hmem
    rw [List.map_cons, List.nodup_cons] at hnd
    by_cases he : e.1 = fp
    · have hrest : ∀ e' ∈ l, e'.1 ≠ fp := by
        intro e' he' heq
        exact hnd.1 (by rw [he, ← heq]; exact List.mem_map_of_mem he')
      rw [List.filter_cons_of_neg (by simpa using he), filter_ne_self l fp hrest, List.length_cons]
    · obtain ⟨key, hk⟩ := hmem
      have hk' : (fp, key) ∈ l := by
        rcases List.mem_cons.mp hk with h | h
        · exact absurd (by rw [← h]) he
        · exact h
      rw [List.filter_cons_of_pos (by simpa using he), List.length_cons, List.length_cons,
        ih hnd.2 ⟨key, hk'⟩]

theorem prod_eraseIdx {α M : Type*} [CommMonoid M] (f : α → M) : ∀ (l : List α) (i : Nat)
    (hi : i < l.length), (l.map f).prod = f l[i] * ((l.eraseIdx i).map f).prod := by
  intro l
  induction l with
  | nil => intro i hi; simp at hi
  | cons a l ih =>
    intro i hi
    cases i with
    | zero => simp
    | succ i =>
      have hi' : i < l.length := by simpa using hi
      rw [List.eraseIdx_cons_succ, List.map_cons, List.map_cons, List.prod_cons, List.prod_cons,
        List.getElem_cons_succ, ih i hi']
      exact mul_left_comm _ _ _

/-- accepting a fresh unit key preserves the invariant -/
theorem accept_inv (hG : ValidGroup G) (hi : Int) (S : State) (hinv : Inv G hi S) (fp key : Int)
    (hunit : toF G key ≠ 0) (hfresh : ∀ e ∈ S.keys, e.1 ≠ fp) :
    Inv G hi (updateKeyAccept S fp key) ∧ (updateKeyAccept S fp key).keys = (fp, key) :: S.keys := by
  have := fact_prime hG
  obtain ⟨hSG, h0, h1, hprod, hnd, hunits⟩ := hinv
  have hp := hG.p_pos
  have hkeys : (updateKeyAccept S fp key).keys = (fp, key) :: S.keys := by
    show (fp, key) :: S.keys.filter (fun e => e.1 ≠ fp) = _
    rw [filter_ne_self S.keys fp hfresh]
  refine ⟨⟨hSG, ?_, ?_, ?_, ?_, ?_⟩, hkeys⟩
  · show 0 ≤ S.h * key % S.G.p
    rw [hSG]; exact Int.emod_nonneg _ (ne_of_gt hp)
  · show S.h * key % S.G.p < G.p
    rw [hSG]; exact Int.emod_lt_of_pos _ hp
  · rw [hkeys]
    show toF G (S.h * key % S.G.p) = _
    rw [hSG, toF_emod hG, toF_mul, hprod, List.map_cons, List.prod_cons]
    ring
  · rw [hkeys, List.map_cons, List.nodup_cons]
    refine ⟨?_, hnd⟩
    intro hmem
    obtain ⟨e, he, heq⟩ := List.mem_map.mp hmem
    exact hfresh e he heq
  · rw [hkeys]
    intro e he
    rcases List.mem_cons.mp he with h | h
    · rw [h]; exact hunit
    · exact hunits e h

/-- a removal request preserves the invariant -/
theorem remove_inv (hG : ValidGroup G) (hi : Int) (S : State) (hinv : Inv G hi S) (fp : Int) :
    Inv G hi (removeKey S fp).1 ∧
    (removeKey S fp).1.keys = S.keys.filter (fun e => e.1 ≠ fp) := by
  have := fact_prime hG
  have hinv0 := hinv
  obtain ⟨hSG, h0, h1, hprod, hnd, hunits⟩ := hinv
  have hp := hG.p_pos
  rcases hfind : S.keys.find? (fun e => e.1 = fp) with _ | ⟨a, key⟩
  · rw [removeKey_none S fp hfind]
    refine ⟨hinv0, ?_⟩
    have : ∀ e ∈ S.keys, e.1 ≠ fp := by
      intro e he
      have := List.find?_eq_none.mp hfind e he
      simpa using this
    rw [filter_ne_self S.keys fp this]
  · obtain ⟨hmem, -⟩ := find_mem S.keys fp a key hfind
    have hunit : toF G key ≠ 0 := hunits (a, key) hmem
    obtain ⟨ki, hki, -, -, hkiv⟩ := invm_val hG key hunit
    rw [removeKey_some S fp a key ki hfind (by rw [hSG]; exact hki)]
    refine ⟨⟨hSG, ?_, ?_, ?_, ?_, ?_⟩, rfl⟩
    · show 0 ≤ S.h * ki % S.G.p
      rw [hSG]; exact Int.emod_nonneg _ (ne_of_gt hp)
    · show S.h * ki % S.G.p < G.p
      rw [hSG]; exact Int.emod_lt_of_pos _ hp
    · show toF G (S.h * ki % S.G.p) =
        toF G hi * ((S.keys.filter (fun e => e.1 ≠ fp)).map fun e => toF G e.2).prod
      rw [hSG, toF_emod hG, toF_mul, hprod, hkiv,
        prod_filter_find (fun e => toF G e.2) fp S.keys hnd a key hfind]
      field_simp
    · exact (List.filter_sublist.map Prod.fst).nodup hnd
    · intro e he
      exact hunits e (List.mem_filter.mp he).1

/-- the common key after a run of accepted contributions -/
theorem accept_run (hG : ValidGroup G) : ∀ (cs : List (Int × Int)) (S : State), S.G = G →
    0 ≤ S.h → S.h < G.p →
    0 ≤ (runKeyOps S (cs.map fun e => KeyOp.accept e.1 e.2)).1.h ∧
    (runKeyOps S (cs.map fun e => KeyOp.accept e.1 e.2)).1.h < G.p ∧
    toF G (runKeyOps S (cs.map fun e => KeyOp.accept e.1 e.2)).1.h
      = toF G S.h * (cs.map fun e => toF G e.2).prod := by
  have := fact_prime hG
  have hp := hG.p_pos
  intro cs
  induction cs with
  | nil => intro S _ h0 h1; simp [runKeyOps_nil, h0, h1]
  | cons c cs ih =>
    intro S hSG h0 h1
    rw [List.map_cons, runKeyOps_cons]
    have hh : (applyKeyOp S (KeyOp.accept c.1 c.2)).1.h = S.h * c.2 % G.p := by
      show S.h * c.2 % S.G.p = _
      rw [hSG]
    obtain ⟨i0, i1, i2⟩ := ih (applyKeyOp S (KeyOp.accept c.1 c.2)).1 hSG
      (by rw [hh]; exact Int.emod_nonneg _ (ne_of_gt hp))
      (by rw [hh]; exact Int.emod_lt_of_pos _ hp)
    refine ⟨i0, i1, ?_⟩
    rw [i2, hh, toF_emod hG, toF_mul, List.map_cons, List.prod_cons, mul_assoc]

/-- **C08** refinement: for every well-formed history (any interleaving of contributions and
    removals), the common key is own key times the product of the accepted, not removed keys. -/
theorem key_refines_product (hG : ValidGroup G) (FP : Int → Int) (hi : Int) (S : State)
    (hinv : Inv G hi S) (ops : List KeyOp) (hwf : WellFormed G FP S.keys ops) :
    Inv G hi (runKeyOps S ops).1 := by
  induction ops generalizing S with
  | nil => exact hinv
  | cons op ops ih =>
    rw [runKeyOps_cons]
    cases op with
    | accept fp key =>
      obtain ⟨-, hunit, hfresh, hrest⟩ := hwf
      obtain ⟨hinv', hkeys⟩ := accept_inv hG hi S hinv fp key hunit hfresh
      exact ih _ hinv' (by rw [show (applyKeyOp S (KeyOp.accept fp key)).1.keys = _ from hkeys]; exact hrest)
    | refuse => exact ih S hinv hwf
    | remove fp =>
      obtain ⟨hinv', hkeys⟩ := remove_inv hG hi S hinv fp
      exact ih _ hinv' (by rw [show (applyKeyOp S (KeyOp.remove fp)).1.keys = _ from hkeys]; exact hwf)

/-- a refused contribution returns false and leaves key and key store unchanged -/
theorem refuse_is_noop (S : State) : applyKeyOp S .refuse = (S, false) := rfl

/-- what `UpdateKey` refuses is decided by the proof of knowledge, and a refusal changes nothing -/
theorem updateKey_refused_unchanged (H : Sigma.Hash) (kind : Sigma.Kind) (S S' : State) (key c r : Int)
    (h : Sigma.updateKey H kind S key c r = .ok (S', false)) : S' = S := by
  unfold Sigma.updateKey at h
  rcases hv : Sigma.nizkVerify H kind S key c r with e | b
  · rw [hv] at h; cases h
  · rw [hv] at h
    cases b
    · have : (S, false) = (S', false) := by
        simpa [bind, Except.bind, pure, Except.pure] using h
      exact (congrArg Prod.fst this).symm
    · simp [bind, Except.bind, pure, Except.pure] at h

theorem updateKey_outside_group (H : Sigma.Hash) (kind : Sigma.Kind) (S : State) (key c r : Int)
    (h : Sigma.checkElement kind S.G key = false) :
    Sigma.updateKey H kind S key c r = .ok (S, false) := by
  unfold Sigma.updateKey Sigma.nizkVerify
  simp [h, bind, Except.bind, pure, Except.pure]

/-- order independence: processing the same accepted contributions in any order gives the same
    common key (and the same number of stored keys when fingerprints are distinct) -/
theorem all_orders_same_key (hG : ValidGroup G) (S : State) (hS : S.G = G)
    (hh : 0 ≤ S.h ∧ S.h < G.p)
    (cs cs' : List (Int × Int)) (hperm : cs.Perm cs') :
    (runKeyOps S (cs.map fun e => KeyOp.accept e.1 e.2)).1.h
      = (runKeyOps S (cs'.map fun e => KeyOp.accept e.1 e.2)).1.h := by
  have := fact_prime hG
  obtain ⟨a0, a1, a2⟩ := accept_run hG cs S hS hh.1 hh.2
  obtain ⟨b0, b1, b2⟩ := accept_run hG cs' S hS hh.1 hh.2
  apply eq_of_toF_eq hG ⟨a0, a1⟩ ⟨b0, b1⟩
  rw [a2, b2, (hperm.map fun e => toF G e.2).prod_eq]

/-- all players agree: player `i` starts from its own key `ks[i]` and processes the other keys
    in an arbitrary order; the result is the product of all keys, whoever `i` is -/
theorem all_players_agree (hG : ValidGroup G) (ks : List Int) (hk : ∀ k ∈ ks, 0 ≤ k ∧ k < G.p)
    (i : Nat) (hi : i < ks.length) (S : State) (hS : S.G = G) (hh : S.h = ks[i])
    (others : List (Int × Int)) (hperm : (others.map Prod.snd).Perm (ks.eraseIdx i)) :
    toF G (runKeyOps S (others.map fun e => KeyOp.accept e.1 e.2)).1.h = (ks.map (toF G)).prod := by
  have := fact_prime hG
  have hmem : ks[i] ∈ ks := List.getElem_mem hi
  obtain ⟨-, -, a2⟩ := accept_run hG others S hS (by rw [hh]; exact (hk _ hmem).1)
    (by rw [hh]; exact (hk _ hmem).2)
  rw [a2, hh, prod_eraseIdx (toF G) ks i hi]
  congr 1
  have : (others.map fun e => toF G e.2) = (others.map Prod.snd).map (toF G) := by
    rw [List.map_map]; rfl
  rw [this]
  exact (hperm.map (toF G)).prod_eq

/-- removing a previously accepted contribution restores the previous key and key store -/
theorem remove_restores (hG : ValidGroup G) (S : State) (hS : S.G = G) (hh : 0 ≤ S.h ∧ S.h < G.p)
    (fp key : Int) (hfresh : ∀ e ∈ S.keys, e.1 ≠ fp) (hunit : toF G key ≠ 0) :
    ∃ S', removeKey (updateKeyAccept S fp key) fp = (S', true) ∧ S'.h = S.h ∧ S'.keys = S.keys := by
  have := fact_prime hG
  have hp := hG.p_pos
  obtain ⟨ki, hki, -, -, hkiv⟩ := invm_val hG key hunit
  have hfind : (updateKeyAccept S fp key).keys.find? (fun e => e.1 = fp) = some (fp, key) := by
    show ((fp, key) :: S.keys.filter (fun e => e.1 ≠ fp)).find? (fun e => e.1 = fp) = _
    simp
  have hG' : (updateKeyAccept S fp key).G.p = G.p := by
    show S.G.p = G.p
    rw [hS]
  rw [removeKey_some _ fp fp key ki hfind (by rw [hG']; exact hki)]
  refine ⟨_, rfl, ?_, ?_⟩
  · show (S.h * key % S.G.p) * ki % S.G.p = S.h
    rw [hS]
    apply eq_of_toF_eq hG ⟨Int.emod_nonneg _ (ne_of_gt hp), Int.emod_lt_of_pos _ hp⟩ hh
    rw [toF_emod hG, toF_mul, toF_emod hG, toF_mul, hkiv, mul_assoc, mul_inv_cancel₀ hunit,
      mul_one]
  · show ((fp, key) :: S.keys.filter (fun e => e.1 ≠ fp)).filter (fun e => e.1 ≠ fp) = S.keys
    rw [List.filter_cons_of_neg (by simp), List.filter_filter]
    simp only [Bool.and_self]
    exact filter_ne_self S.keys fp hfresh

/-- removal of an unknown fingerprint is refused and changes nothing -/
theorem remove_unknown (S : State) (fp : Int) (h : ∀ e ∈ S.keys, e.1 ≠ fp) :
    removeKey S fp = (S, false) := by
  exact removeKey_none S fp (find_none S.keys fp h)

/-- the duplicate corner, as the code behaves: offering a stored key again multiplies it in a
    second time but stores it once -/
theorem duplicate_key_behaviour (S : State) (fp key : Int) (hmem : (fp, key) ∈ S.keys)
    (hnd : (S.keys.map Prod.fst).Nodup) :
    (updateKeyAccept S fp key).h = S.h * key % S.G.p ∧
    (updateKeyAccept S fp key).keys.length = S.keys.length := by
  refine ⟨rfl, ?_⟩
  show ((fp, key) :: S.keys.filter (fun e => e.1 ≠ fp)).length = _
  rw [List.length_cons]
  exact length_filter_dup fp S.keys hnd ⟨key, hmem⟩

end Tmcg.Key
