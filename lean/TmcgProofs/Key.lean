import Tmcg.Model.Vtmf
import Tmcg.Model.Sigma
import TmcgProofs.Group
import Mathlib.Algebra.BigOperators.Group.List.Basic
/-
  C08: the common card key as a function of the history of contributions and removals.
-/
namespace Tmcg.Key
open Tmcg Tmcg.Vtmf Tmcg.Grp

variable {G : Group}

/-- a history is well formed w.r.t. a fingerprint function `FP` that is injective on keys:
    accepted keys are units with `fp = FP key`, and no key is accepted while a key with the
    same fingerprint is still stored (the duplicate corner is `duplicate_key_behaviour`) -/
def WellFormed (G : Group) (FP : Int → Int) : List (Int × Int) → List KeyOp → Prop
  | _, [] => True
  | stored, .accept fp key :: rest =>
      fp = FP key ∧ (key : ZMod G.p.natAbs) ≠ 0 ∧ (∀ e ∈ stored, e.1 ≠ fp) ∧
      WellFormed G FP ((fp, key) :: stored) rest
  | stored, .refuse :: rest => WellFormed G FP stored rest
  | stored, .remove fp :: rest => WellFormed G FP (stored.filter (fun e => e.1 ≠ fp)) rest

/-- the state invariant: `h` is reduced and equals own key times the product of the stored keys;
    stored keys are units with pairwise distinct fingerprints -/
def Inv (G : Group) (hi : Int) (S : State) : Prop :=
  S.G = G ∧ 0 ≤ S.h ∧ S.h < G.p ∧
  toF G S.h = toF G hi * (S.keys.map fun e => toF G e.2).prod ∧
  (S.keys.map Prod.fst).Nodup ∧ ∀ e ∈ S.keys, toF G e.2 ≠ 0

/-- **C08** refinement: for every well-formed history (any interleaving of contributions and
    removals), the common key is own key times the product of the accepted, not removed keys. -/
theorem key_refines_product (hG : ValidGroup G) (FP : Int → Int) (hi : Int) (S : State)
    (hinv : Inv G hi S) (ops : List KeyOp) (hwf : WellFormed G FP S.keys ops) :
    Inv G hi (runKeyOps S ops).1 := by
  sorry

/-- a refused contribution returns false and leaves key and key store unchanged -/
theorem refuse_is_noop (S : State) : applyKeyOp S .refuse = (S, false) := rfl

/-- what `UpdateKey` refuses is decided by the proof of knowledge, and a refusal changes nothing -/
theorem updateKey_refused_unchanged (H : Sigma.Hash) (kind : Sigma.Kind) (S S' : State) (key c r : Int)
    (h : Sigma.updateKey H kind S key c r = .ok (S', false)) : S' = S := by
  sorry

theorem updateKey_outside_group (H : Sigma.Hash) (kind : Sigma.Kind) (S : State) (key c r : Int)
    (h : Sigma.checkElement kind S.G key = false) :
    Sigma.updateKey H kind S key c r = .ok (S, false) := by
  sorry

/-- order independence: processing the same accepted contributions in any order gives the same
    common key (and the same number of stored keys when fingerprints are distinct) -/
theorem all_orders_same_key (hG : ValidGroup G) (S : State) (hS : S.G = G)
    (hh : 0 ≤ S.h ∧ S.h < G.p)
    (cs cs' : List (Int × Int)) (hperm : cs.Perm cs') :
    (runKeyOps S (cs.map fun e => KeyOp.accept e.1 e.2)).1.h
      = (runKeyOps S (cs'.map fun e => KeyOp.accept e.1 e.2)).1.h := by
  sorry

/-- all players agree: player `i` starts from its own key `ks[i]` and processes the other keys
    in an arbitrary order; the result is the product of all keys, whoever `i` is -/
theorem all_players_agree (hG : ValidGroup G) (ks : List Int) (hk : ∀ k ∈ ks, 0 ≤ k ∧ k < G.p)
    (i : Nat) (hi : i < ks.length) (S : State) (hS : S.G = G) (hh : S.h = ks[i])
    (others : List (Int × Int)) (hperm : (others.map Prod.snd).Perm (ks.eraseIdx i)) :
    toF G (runKeyOps S (others.map fun e => KeyOp.accept e.1 e.2)).1.h = (ks.map (toF G)).prod := by
  sorry

/-- removing a previously accepted contribution restores the previous key and key store -/
theorem remove_restores (hG : ValidGroup G) (S : State) (hS : S.G = G) (hh : 0 ≤ S.h ∧ S.h < G.p)
    (fp key : Int) (hfresh : ∀ e ∈ S.keys, e.1 ≠ fp) (hunit : toF G key ≠ 0) :
    ∃ S', removeKey (updateKeyAccept S fp key) fp = (S', true) ∧ S'.h = S.h ∧ S'.keys = S.keys := by
  sorry

/-- removal of an unknown fingerprint is refused and changes nothing -/
theorem remove_unknown (S : State) (fp : Int) (h : ∀ e ∈ S.keys, e.1 ≠ fp) :
    removeKey S fp = (S, false) := by
  sorry

/-- the duplicate corner, as the code behaves: offering a stored key again multiplies it in a
    second time but stores it once -/
theorem duplicate_key_behaviour (S : State) (fp key : Int) (hmem : (fp, key) ∈ S.keys)
    (hnd : (S.keys.map Prod.fst).Nodup) :
    (updateKeyAccept S fp key).h = S.h * key % S.G.p ∧
    (updateKeyAccept S fp key).keys.length = S.keys.length := by
  sorry

end Tmcg.Key
