import TmcgProofs.JlInv
import TmcgProofs.JlArith
/-
  C17, multi-party part: transition round 3 (jlCollect) of the run invariants (TmcgProofs/JlInv.lean).

  Helper lemmas live in the sub-namespace `T3`:
    * `parseCompl_acc`     the accused parties read by `parseCompl` are `< n` and listed once
    * `parseCompl_honest`  the list an honest party broadcast in 1(b) is read back unchanged
    * `filter_length_split` counting over `List.range n` with one index taken out
    * `jlCollect_eq`       `jlCollect` in terms of the public parse results `TC`, `BC`, `LC`
    * `round_honest`       one round of a live honest party (`stepParty_honest` + `runRound_get`)
-/
namespace Tmcg.JlProofs
open Tmcg Tmcg.Powm Tmcg.Vtmf Tmcg.Grp Tmcg.Jl

variable {G : Jl.Grp} {ins : List PartyIn} {n t : Nat}

namespace T3

theorem getUi_nat (k : Nat) (hk : k < 2 ^ 64) : getUi (k : Int) = k := by
  unfold getUi
  rw [Int.natAbs_natCast]
  exact Nat.mod_eq_of_lt hk

theorem popQ_head (tag : Tag) (v : Int) (r : List (Tag × Int)) :
    popQ tag ((tag, v) :: r) = (some v, r) := by
  simp [popQ, removeFirst_head]

theorem filter_length_split (l : List Nat) (hl : l.Nodup) (x : Nat) (hx : x ∈ l) (p : Nat → Bool) :
    (l.filter p).length = (if p x then 1 else 0) + ((l.filter (fun j => j != x)).filter p).length := by
  rw [← List.countP_eq_length_filter, ← List.countP_eq_length_filter, ← hl.erase_eq_filter,
    (List.perm_cons_erase hx).countP_eq, List.countP_cons]
  omega

theorem parseCompl_acc (n : Nat) : ∀ (f it : Nat) (dup : List Nat) (bad : Bool) (q : List (Tag × Int)),
    (∀ w ∈ dup, w < n) → dup.Nodup →
    (∀ w ∈ (parseCompl n f it dup bad q).1, w < n) ∧ (parseCompl n f it dup bad q).1.Nodup := by
  intro f
  induction f with
  | zero => intro it dup bad q h1 h2; exact ⟨h1, h2⟩
  | succ f ih =>
    intro it dup bad q h1 h2
    rw [parseCompl]
    rcases hp : popQ tagShare q with ⟨_ | v, q1⟩
    · exact ⟨h1, h2⟩
    · dsimp only
      have hd : (∀ w ∈ (if getUi v < n ∧ ¬ dup.contains (getUi v) = true then dup ++ [getUi v] else dup), w < n) ∧
          (if getUi v < n ∧ ¬ dup.contains (getUi v) = true then dup ++ [getUi v] else dup).Nodup := by
        split
        · rename_i hc
          constructor
          · intro w hw
            rcases List.mem_append.1 hw with hw | hw
            · exact h1 w hw
            · rw [List.mem_singleton.1 hw]; exact hc.1
          · rw [List.nodup_append]
            refine ⟨h2, List.nodup_singleton _, ?_⟩
            intro a ha b hb
            rw [List.mem_singleton.1 hb]
            intro e
            apply hc.2
            rw [← e]
            simpa using ha
        · exact ⟨h1, h2⟩
      split
      · exact ih _ _ _ _ hd.1 hd.2
      · exact hd

theorem parseCompl_honest (n : Nat) (hn : n < 2 ^ 64) : ∀ (l : List Nat) (f it : Nat) (dup : List Nat) (bad : Bool),
    l.Nodup → (∀ j ∈ l, j < n) → (∀ j ∈ l, j ∉ dup) → it + l.length ≤ n → l.length < f →
    parseCompl n f it dup bad (tagged tagShare (l.map (fun (j : Nat) => (j : Int))) ++ [(tagShare, (n : Int))]) =
      (dup ++ l, bad, []) := by
  intro l
  induction l with
  | nil =>
    intro f it dup bad _ _ _ _ hf
    obtain ⟨f, rfl⟩ : ∃ f', f = f' + 1 := ⟨f - 1, by simp at hf; omega⟩
    rw [parseCompl]
    simp only [tagged, List.map_nil, List.nil_append, popQ_head, getUi_nat n hn, Nat.lt_irrefl, false_and,
      if_false, decide_false, Bool.false_and, Bool.or_false, List.append_nil]
  | cons j l ih =>
    intro f it dup bad h1 h2 h3 h4 hf
    obtain ⟨f, rfl⟩ : ∃ f', f = f' + 1 := ⟨f - 1, by simp at hf; omega⟩
    have hj : j < n := h2 j List.mem_cons_self
    have hjd : dup.contains j = false := by
      have := h3 j List.mem_cons_self
      simpa using this
    rw [parseCompl]
    simp only [tagged, List.map_cons, List.cons_append, popQ_head, getUi_nat j (Nat.lt_trans hj hn), hj, hjd,
      true_and, decide_true, Bool.true_and, Bool.or_false, Bool.false_eq_true, not_false_eq_true, if_true]
    simp only [List.length_cons] at h4 hf
    have h5 : it + 1 ≤ n := by omega
    rw [if_pos h5]
    have := ih f (it + 1) (dup ++ [j]) bad (List.nodup_cons.1 h1).2
      (fun k hk => h2 k (List.mem_cons_of_mem _ hk)) ?_ (by omega) (by omega)
    · simp only [tagged] at this
      rw [this]
      simp
    · intro k hk hk2
      rcases List.mem_append.1 hk2 with hk2 | hk2
      · exact h3 k (List.mem_cons_of_mem _ hk) hk2
      · rw [List.mem_singleton.1 hk2] at hk
        exact (List.nodup_cons.1 h1).1 hk

theorem pairwise_lt_length_le (n : Nat) (l : List Nat) (h1 : l.Pairwise (· < ·)) (h2 : ∀ j ∈ l, j < n) :
    l.Nodup ∧ l.length ≤ n := by
  have hnd : l.Nodup := h1.imp (fun h => Nat.ne_of_lt h)
  refine ⟨hnd, ?_⟩
  have := List.Nodup.length_le_of_subset hnd (l₂ := List.range n) (fun a ha => List.mem_range.2 (h2 a ha))
  simpa using this

theorem getD_map_range {α : Type} (n : Nat) (f : Nat → α) (d : α) (w : Nat) (hw : w < n) :
    ((List.range n).map f).getD w d = f w := by
  rw [List.getD_eq_getElem?_getD, List.getElem?_map, List.getElem?_range hw]
  rfl

/-- the complaint list of sender `j` as every honest reader parses it -/
def pubC (n : Nat) (Q : Nat → List (Tag × Int)) (j : Nat) : List Nat × Bool × List (Tag × Int) :=
  parseCompl n (n + 1) 0 [] false (Q j)
def TC (n : Nat) (Q : Nat → List (Tag × Int)) (j : Nat) : List Nat := (pubC n Q j).1
def BC (n : Nat) (Q : Nat → List (Tag × Int)) (j : Nat) : Bool := (pubC n Q j).2.1
def LC (n : Nat) (Q : Nat → List (Tag × Int)) (j : Nat) : List (Tag × Int) := (pubC n Q j).2.2

/-- the parties other than `x` that accuse `w` -/
def accOf (n : Nat) (T : Nat → List Nat) (x w : Nat) : List Nat :=
  ((List.range n).filter (fun j => j != x)).filter (fun j => (T j).contains w)

theorem mem_accOf (n : Nat) (T : Nat → List Nat) (x w c : Nat) :
    c ∈ accOf n T x w ↔ c < n ∧ c ≠ x ∧ (T c).contains w = true := by
  unfold accOf
  simp only [List.mem_filter, List.mem_range, bne_iff_ne, ne_eq, and_assoc]

theorem jlCollect_eq {n x : Nat} {Q : Nat → List (Tag × Int)} (st : St) (I : Inbox) (hn : st.n = n) (hi : st.i = x)
    (hb : ∀ j, j < n → j ≠ x → I.bq j = Q j) :
    jlCollect st I =
      ({ st with
          cnt := (List.range n).map (fun w => getN st.cnt w + (accOf n (TC n Q) x w).length),
          cfrom := accOf n (TC n Q) x x,
          compl := ((List.range n).filter (fun j => j != x)).filter (fun j => BC n Q j),
          complainers := (List.range n).map (fun w => st.complainers.getD w [] ++ accOf n (TC n Q) x w) },
       { I with b := (List.range n).map (fun j => if j = x then I.bq j else LC n Q j) },
       (if getN ((List.range n).map (fun w => getN st.cnt w + (accOf n (TC n Q) x w).length)) x > 0 then
          (accOf n (TC n Q) x x).flatMap (fun (it : Nat) =>
            [Op.bc tagShare (it : Int), Op.bc tagShare (getI st.srow it), Op.bc tagShare (getI st.hrow it)])
        else []) ++ [Op.bc tagShare (n : Int)], .run) := by
  have e1 : ∀ w, ((List.range n).filter (fun j => j != x)).filter
      (fun j => (parseCompl n (n + 1) 0 [] false (I.bq j)).1.contains w) = accOf n (TC n Q) x w := by
    intro w
    unfold accOf TC pubC
    apply List.filter_congr
    intro j hj
    rw [List.mem_filter, List.mem_range] at hj
    rw [hb j hj.1 (by simpa using hj.2)]
  have e2 : ((List.range n).filter (fun j => j != x)).filter
      (fun j => (parseCompl n (n + 1) 0 [] false (I.bq j)).2.1) =
      ((List.range n).filter (fun j => j != x)).filter (fun j => BC n Q j) := by
    unfold BC pubC
    apply List.filter_congr
    intro j hj
    rw [List.mem_filter, List.mem_range] at hj
    rw [hb j hj.1 (by simpa using hj.2)]
  have e3 : (List.range n).map (fun j => if j = x then I.bq j else (parseCompl n (n + 1) 0 [] false (I.bq j)).2.2) =
      (List.range n).map (fun j => if j = x then I.bq j else LC n Q j) := by
    apply List.map_congr_left
    intro j hj
    rw [List.mem_range] at hj
    by_cases hjx : j = x
    · rw [if_pos hjx, if_pos hjx]
    · rw [if_neg hjx, if_neg hjx]
      unfold LC pubC
      rw [hb j hj hjx]
  unfold jlCollect
  simp only [hn, hi, e1, e2, e3]

theorem round_honest (steps : Nat → Step) (ps : List Party) (x : Nat) (P : Party) (hP : ps[x]? = some P)
    (hA : Alive P) (st : St) (I : Inbox) (ops : List Op) (s : Status)
    (hs : steps x P.st P.inbox = .ok (st, I, ops, s)) :
    ∃ hx : x < ps.length, (outOf steps ps x hx).1 = bsOf ops ∧
      ∃ P', (runRound steps ps)[x]? = some P' ∧ P'.dev = {} ∧ P'.fs.dead = false ∧ P'.st = st ∧
        P'.status = s ∧ P'.err = none ∧ P'.inbox.b.length = I.b.length ∧ P'.inbox.p.length = I.p.length ∧
        ∀ j, j < I.b.length → P'.inbox.b.getD j [] = I.b.getD j [] ++
            (if h : j ≠ x ∧ j < ps.length then (outOf steps ps j h.2).1 else []) := by
  have hx : x < ps.length := by
    rcases Nat.lt_or_ge x ps.length with h | h
    · exact h
    · rw [List.getElem?_eq_none h] at hP; cases hP
  have hPx : ps[x] = P := by
    rw [List.getElem?_eq_getElem hx] at hP; exact Option.some.inj hP
  have hl : P.live = true := by
    simp [Party.live, hA.notDead, hA.running, hA.noErr]
  obtain ⟨fs', h1, h2⟩ := stepParty_honest ps.length (steps x) P hA.dev hl st I ops s hs
  refine ⟨hx, ?_, ?_⟩
  · unfold outOf; rw [hPx, h1]
  · obtain ⟨P', g0, g1, g2, g3, g4, g5, g6, g7, g8, -⟩ := runRound_get steps ps x hx
    have hst : stepped steps ps x hx = { P with st := st, inbox := I, fs := fs', status := s } := by
      unfold stepped; rw [hPx, h1]
    rw [hst] at g1 g2 g3 g4 g5 g6 g7 g8
    exact ⟨P', g0, g1.trans hA.dev, (by rw [g2]; exact h2), g3, g4, g5.trans hA.noErr, g6, g7, g8⟩

theorem bsOf_answers (l : List Nat) (f g f' g' : Nat → Int) (h : ∀ it ∈ l, f it = f' it ∧ g it = g' it) :
    bsOf (l.flatMap (fun (it : Nat) => [Op.bc tagShare (it : Int), Op.bc tagShare (f it), Op.bc tagShare (g it)])) =
      l.flatMap (fun (it : Nat) => [(tagShare, (it : Int)), (tagShare, f' it), (tagShare, g' it)]) := by
  induction l with
  | nil => rfl
  | cons a l ih =>
    rw [List.flatMap_cons, List.flatMap_cons, bsOf_append, ih (fun it hit => h it (List.mem_cons_of_mem _ hit))]
    rw [(h a List.mem_cons_self).1, (h a List.mem_cons_self).2]
    rfl

end T3

open T3 in
/-- after round 3 every honest party has the same counters and has answered the complaints against it -/
theorem inv4 [Fact (Nat.Prime (grp G).p.natAbs)] (hS : Setup G ins n t)
    {Q : Nat → List (Tag × Int)} {CH : List (List Int)} {Flag : Nat → Bool} {W : Nat → List Nat}
    (h : Inv3 G ins n t Q CH Flag W) :
    ∃ Q' T BadC CNT, Inv4 G ins n t Q' CH Flag T BadC CNT := by
  have hlen : (cfg G ins n t 3).length = n := by
    unfold cfg; rw [runRounds_length, initParties_length n t ins hS.hlen]
  have hpub : ∀ x, HonIdx ins n x → pubC n Q x = (W x, false, []) := by
    intro x hx
    obtain ⟨w1, w2, w3, w4⟩ := h.w_hon x hx
    obtain ⟨nd, le⟩ := pairwise_lt_length_le n (W x) w1 (fun j hj => (w2 j hj).1)
    unfold pubC
    rw [w4, parseCompl_honest n hS.hn64 (W x) (n + 1) 0 [] false nd (fun j hj => (w2 j hj).1)
      (fun j _ hj2 => by cases hj2) (by omega) (by omega)]
    rfl
  have hbo : ∀ j (hj : j < (cfg G ins n t 3).length),
      bOut G ins n t 3 j = (outOf (flipStep G ins n t 3) (cfg G ins n t 3) j hj).1 := by
    intro j hj; unfold bOut; rw [dif_pos hj]
  have key : ∀ x, HonIdx ins n x →
      (LC n Q x ++ bOut G ins n t 3 x =
        (((List.range n).filter (fun c => (TC n Q c).contains x)).flatMap (fun (c : Nat) =>
          [(tagShare, (c : Int)), (tagShare, shareOf G ins t x c), (tagShare, hshareOf G ins t x c)])) ++
          [(tagShare, (n : Int))]) ∧
      ∃ P, (cfg G ins n t 4)[x]? = some P ∧ Alive P ∧ Core ins n t x P.st ∧
        Held G ins n t CH x P.st ∧
        P.st.cnt = (List.range n).map (fun w => ((List.range n).filter (fun c => (TC n Q c).contains w)).length) ∧
        P.st.complainers.length = n ∧
        (∀ w c, w < n → (c ∈ P.st.complainers.getD w [] ↔ Accuses n (TC n Q) c w)) ∧
        (∀ k, k ∈ P.st.compl ↔ k < n ∧ BC n Q k = true) ∧
        (∀ j, j < n → ¬ (TC n Q x).contains j → ValidShare G (getRow CH j) x (getI P.st.s j) (getI P.st.sp j)) ∧
        Boxes n x P.inbox (fun j => LC n Q j ++ bOut G ins n t 3 j) := by
    intro x hx
    obtain ⟨P, hP, hA, hcore, hheld, hcnt, hcps, hcompl, hvalid, hbox⟩ := h.party x hx
    obtain ⟨w1, w2, w3, w4⟩ := h.w_hon x hx
    have hxn : x < n := hx.1
    have hTx : TC n Q x = W x := by unfold TC; rw [hpub x hx]
    have hBx : BC n Q x = false := by unfold BC; rw [hpub x hx]
    have hLx : LC n Q x = [] := by unfold LC; rw [hpub x hx]
    have hWx : (W x).contains x = false := by
      cases hc : (W x).contains x
      · rfl
      · exact absurd hx (w2 x (by simpa using hc)).2
    have hjc := jlCollect_eq (Q := Q) P.st P.inbox hcore.n_eq hcore.i_eq hbox.bq_eq
    have ecnt : (List.range n).map (fun w => getN P.st.cnt w + (accOf n (TC n Q) x w).length) =
        (List.range n).map (fun w => ((List.range n).filter (fun c => (TC n Q c).contains w)).length) := by
      apply List.map_congr_left
      intro w hw
      rw [List.mem_range] at hw
      rw [filter_length_split (List.range n) List.nodup_range x (List.mem_range.2 hxn), hcnt]
      unfold getN
      rw [getD_map_range n _ 0 w hw, hTx]
      rfl
    have ecfs : accOf n (TC n Q) x x = (List.range n).filter (fun c => (TC n Q c).contains x) := by
      unfold accOf
      rw [List.filter_filter]
      apply List.filter_congr
      intro c _
      by_cases hcx : c = x
      · subst hcx; rw [hTx, hWx]; simp
      · simp [hcx]
    rw [ecnt] at hjc
    have eans : ∀ (F : Nat → List Op),
        (if getN ((List.range n).map
            (fun w => ((List.range n).filter (fun c => (TC n Q c).contains w)).length)) x > 0
          then (accOf n (TC n Q) x x).flatMap F else []) = (accOf n (TC n Q) x x).flatMap F := by
      intro F
      simp only [getN, getD_map_range n _ 0 x hxn]
      rw [← ecfs]
      split
      · rfl
      · rename_i hz
        have : accOf n (TC n Q) x x = [] := List.eq_nil_of_length_eq_zero (by omega)
        rw [this]; rfl
    have hs : flipStep G ins n t 3 x P.st P.inbox = Except.ok (jlCollect P.st P.inbox) := rfl
    rw [hjc] at hs
    obtain ⟨hx', hout, P', hP', d1, d2, d3, d4, d5, d6, d7, d8⟩ :=
      round_honest (flipStep G ins n t 3) (cfg G ins n t 3) x P hP hA _ _ _ _ hs
    constructor
    · rw [hLx, List.nil_append, hbo x hx', hout, bsOf_append, eans, ecfs]
      have hb := bsOf_answers ((List.range n).filter (fun c => (TC n Q c).contains x))
        (getI P.st.srow) (getI P.st.hrow) (shareOf G ins t x) (hshareOf G ins t x) (by
          intro it hit
          have hit' : it < n := List.mem_range.1 (List.mem_filter.1 hit).1
          rw [hheld.srow_eq, hheld.hrow_eq]
          unfold getI
          rw [getD_map_range n _ 0 it hit', getD_map_range n _ 0 it hit']
          exact ⟨rfl, rfl⟩)
      rw [hb]; rfl
    · refine ⟨P', ?_, ⟨d1, d2, d4, d5⟩, ?_, ?_, ?_, ?_, ?_, ?_, ?_, ?_⟩
      · show (cfg G ins n t (3 + 1))[x]? = _
        rw [cfg_succ]; exact hP'
      · rw [d3]
        exact ⟨hcore.n_eq, hcore.t_eq, hcore.i_eq, hcore.sfb_eq, hcore.c_eq, hcore.hc_eq⟩
      · rw [d3]
        exact ⟨hheld.C_eq, hheld.srow_eq, hheld.hrow_eq, hheld.s_len, hheld.sp_len, hheld.s_abs, hheld.a_eq,
          hheld.ha_eq⟩
      · rw [d3]
      · rw [d3]
        show ((List.range n).map _).length = n
        rw [List.length_map, List.length_range]
      · intro w c hw
        rw [d3]
        show c ∈ ((List.range n).map (fun w => P.st.complainers.getD w [] ++ accOf n (TC n Q) x w)).getD w [] ↔ _
        rw [getD_map_range n _ [] w hw, hcps, getD_map_range n _ [] w hw, List.mem_append, mem_accOf]
        unfold Accuses
        constructor
        · rintro (h1 | ⟨h1, _, h3⟩)
          · split at h1
            · rename_i hc
              rw [List.mem_singleton.1 h1]
              exact ⟨hxn, by rw [hTx]; exact hc⟩
            · cases h1
          · exact ⟨h1, h3⟩
        · rintro ⟨h1, h3⟩
          by_cases hcx : c = x
          · left
            rw [hcx] at h3 ⊢
            rw [hTx] at h3
            rw [if_pos h3]
            exact List.mem_singleton_self _
          · right; exact ⟨h1, hcx, h3⟩
      · intro k
        rw [d3]
        show k ∈ ((List.range n).filter (fun j => j != x)).filter (fun j => BC n Q j) ↔ _
        simp only [List.mem_filter, List.mem_range, bne_iff_ne]
        constructor
        · rintro ⟨⟨h1, _⟩, h3⟩
          exact ⟨h1, h3⟩
        · rintro ⟨h1, h3⟩
          exact ⟨⟨h1, fun e => by rw [e, hBx] at h3; cases h3⟩, h3⟩
      · intro j hj hnj
        rw [d3]
        exact hvalid j hj (by intro hm; apply hnj; rw [hTx]; simpa using hm)
      · refine ⟨?_, ?_, ?_⟩
        · rw [d6]
          show ((List.range n).map _).length = n
          rw [List.length_map, List.length_range]
        · rw [d7]; exact hbox.plen
        · intro j hj hjx
          have hj' : j < (cfg G ins n t 3).length := by rw [hlen]; exact hj
          unfold Inbox.bq
          rw [d8 j (by show j < ((List.range n).map _).length; rw [List.length_map, List.length_range]; exact hj)]
          show ((List.range n).map _).getD j [] ++ _ = _
          rw [getD_map_range n _ [] j hj, if_neg hjx, dif_pos ⟨hjx, hj'⟩, hbo j hj']
  refine ⟨fun j => LC n Q j ++ bOut G ins n t 3 j, TC n Q, BC n Q,
    (List.range n).map (fun w => ((List.range n).filter (fun c => (TC n Q c).contains w)).length), ?_⟩
  exact
    { ch_len := h.ch_len, ch_hon := h.ch_hon, ch_ok := h.ch_ok,
      t_hon := by
        intro x hx
        obtain ⟨w1, w2, w3, w4⟩ := h.w_hon x hx
        have hTx : TC n Q x = W x := by unfold TC; rw [hpub x hx]
        have hBx : BC n Q x = false := by unfold BC; rw [hpub x hx]
        rw [hTx]
        exact ⟨(pairwise_lt_length_le n (W x) w1 (fun j hj => (w2 j hj).1)).1, w2, w3, hBx⟩
      t_lt := by
        intro j _ w hw
        exact (parseCompl_acc n (n + 1) 0 [] false (Q j) (by intro w hm; cases hm) List.nodup_nil).1 w hw
      cnt_eq := rfl
      q_hon := fun x hx => (key x hx).1
      party := fun x hx => (key x hx).2 }

end Tmcg.JlProofs
