import TmcgProofs.DkgKeySim6
/-
  C15, key agreement with reconstruction, part 7: the final states of the honest parties: common QUAL
  and Feldman rows, every row of QUAL is the Feldman row of the dealer's polynomial `fam j`.
-/
namespace Tmcg.DkgP
open Tmcg Tmcg.Powm Tmcg.Dkg Tmcg.Grp Tmcg.DkgL

variable {G : Dkg.Grp} [Fact (Nat.Prime G.p.natAbs)]

set_option linter.unusedSectionVars false

/-- what `genFinish` computes -/
theorem kg_genFinish_shape (st st' : GenSt) (h : genFinish G st = .ok st') :
    (st.racc.foldlM (fun (A : List (List Int)) it => do
      let row ← (getRow st.aik it).mapM (fun c => fpowm G.tabG G.g c G.p)
      pure (A.set it row)) st.A = .ok st'.A) ∧
    st'.qual = st.qual ∧ st'.s = st.s ∧ st'.sp = st.sp ∧ st'.x = st.x ∧ st'.i = st.i ∧ st'.z = st.z ∧
    (st.qual.foldlM (fun (l : List Int) jt => do
      let v ← viOf G st.qual st'.A jt
      pure (l.set jt v)) st.vi = .ok st'.vi) ∧
    st'.yi = st.qual.foldl (fun (l : List Int) j => l.set j (getI (getRow st'.A j) 0)) st.yi ∧
    st'.y = st.qual.foldl (fun (acc : Int) j => acc * getI st'.yi j % G.p) 1 := by
  unfold genFinish at h
  obtain ⟨A, hA, h⟩ := ag_bind_ok _ _ _ h
  obtain ⟨vi, hv, h⟩ := ag_bind_ok _ _ _ h
  simp only [pure, Except.pure, Except.ok.injEq] at h
  subst h
  exact ⟨hA, rfl, rfl, rfl, rfl, rfl, rfl, hv, rfl, rfl⟩

/-- the loop of `genFinish` that replaces the rows of the reconstructed parties -/
theorem kg_Afold (F : Nat → Except Err (List Int)) (L : List Nat) (A0 A' : List (List Int))
    (h : L.foldlM (fun (A : List (List Int)) it => do
      let row ← F it
      pure (A.set it row)) A0 = .ok A') (k : Nat) :
    A'.length = A0.length ∧ (k ∉ L → getRow A' k = getRow A0 k) ∧
    (k ∈ L → L.Nodup → k < A0.length → ∃ row, F k = .ok row ∧ getRow A' k = row) := by
  induction L generalizing A0 with
  | nil =>
    simp only [List.foldlM_nil, pure, Except.pure, Except.ok.injEq] at h
    subst h
    exact ⟨rfl, fun _ => rfl, fun hk => by cases hk⟩
  | cons j L ih =>
    simp only [List.foldlM_cons] at h
    obtain ⟨A1, h1, h⟩ := ag_bind_ok _ _ _ h
    obtain ⟨row, hrow, h1⟩ := ag_bind_ok _ _ _ h1
    simp only [pure, Except.pure, Except.ok.injEq] at h1
    subst h1
    obtain ⟨a1, a2, a3⟩ := ih _ h
    refine ⟨by rw [a1]; simp, ?_, ?_⟩
    · intro hk
      have hkj : k ≠ j := fun e => hk (by simp [e])
      rw [a2 (fun hh => hk (List.mem_cons_of_mem _ hh)), getRow_set_ne _ _ _ _ hkj]
    · intro hk hnd hlen
      have hnd' := List.nodup_cons.mp hnd
      by_cases hkj : k = j
      · subst hkj
        refine ⟨row, hrow, ?_⟩
        rw [a2 hnd'.1, getRow_set_self _ _ _ hlen]
      · have hkL : k ∈ L := by
          rcases List.mem_cons.mp hk with e | e
          · exact absurd e hkj
          · exact e
        exact a3 hkL hnd'.2 (by simpa using hlen)

/-- the row `genFinish` computes for a reconstructed party -/
noncomputable def rowOf (G : Grp) (fam : Nat → Polynomial (ZMod G.q.natAbs)) (t j : Nat) : List Int :=
  match (clOf G fam t j).mapM (fun c => fpowm G.tabG G.g c G.p) with
  | .ok r => r
  | .error _ => []

theorem kg_rowOf_spec (hG : ValidGrp G) (fam : Nat → Polynomial (ZMod G.q.natAbs)) (t j : Nat) :
    (clOf G fam t j).mapM (fun c => fpowm G.tabG G.g c G.p) = .ok (rowOf G fam t j) ∧
    (rowOf G fam t j).length = t + 1 ∧
    ∀ k, k < t + 1 → cp G (getI (rowOf G fam t j) k) = cp G G.g ^ ((fam j).coeff k).val := by
  have hq : 0 < G.q := hG.vg.q_pos
  have : Fact (Nat.Prime G.q.natAbs) := fact_q hG
  obtain ⟨l1, l2⟩ := kg_clOf_spec hq fam t j
  obtain ⟨row, hrow, hl, -, hv⟩ := coeff_row_val hG t (fam j) (clOf G fam t j) l1 l2
  have : rowOf G fam t j = row := by simp [rowOf, hrow]
  rw [this]
  exact ⟨hrow, hl, hv⟩

/-- value of `∏ row_k^{x^k}` for an integer row whose entries are `g^{f_k}` -/
theorem kg_powProd_of_coeff (hG : ValidGrp G) (t : Nat) (f : Polynomial (ZMod G.q.natAbs))
    (hf : f.degree < ((t + 1 : Nat) : WithBot Nat)) (row : List Int) (hlen : row.length = t + 1)
    (hrow : ∀ k, k < t + 1 → cp G (getI row k) = cp G G.g ^ (f.coeff k).val) (x : Nat) :
    powProdFrom x 0 (row.map (cp G)) = cp G G.g ^ (f.eval ((x : Nat) : ZMod G.q.natAbs)).val := by
  have : Fact (Nat.Prime G.q.natAbs) := fact_q hG
  apply powProd_feldman hG t f hf (row.map (cp G)) (by simp [hlen])
  intro k hk
  rw [← hrow k hk]
  unfold getI
  rw [List.getD_eq_getElem _ _ (by simp [hlen, hk]), List.getD_eq_getElem _ _ (by rw [hlen]; exact hk)]
  simp

/-- the rows of the members of QUAL that were not reconstructed are Feldman rows -/
theorem kg_feldman_Ac {n t : Nat} {ins : List PartyIn} (S : SetupK G n t ins)
    (fam : Nat → Polynomial (ZMod G.q.natAbs)) (Q : List Nat) (Cc Ac : Nat → List Int) (Rc : List Nat)
    (k4 : K4 G n t ins Q Cc (cfgGen G n t ins 4))
    (hbind : ∀ j, j < n → BindsRunG G n t ins (Cc j) (fam j))
    (hfamH : ∀ j, j ∈ honestIdx ins → fam j = polyOf ((coefA t (pinOf ins j)).map (cq G)))
    (k5 : K5 G n t ins Q Cc Ac (cfgGen G n t ins 5))
    (hcR : ∀ m, m ∈ honestIdx ins → ∀ P5, (cfgGen G n t ins 5)[m]? = some P5 → ∀ j ∈ P5.st.compl, j ∈ Rc)
    (j : Nat) (hjQ : j ∈ Q) (hjR : j ∉ Rc) :
    (∀ k, k < t + 1 → cp G (getI (Ac j) k) = cp G G.g ^ ((fam j).coeff k).val) ∧
    (∀ x : Nat, powProdFrom x 0 ((Ac j).map (cp G)) = cp G G.g ^ ((fam j).eval ((x : Nat) : ZMod G.q.natAbs)).val) := by
  have hG := S.hG
  have : Fact (Nat.Prime G.q.natAbs) := fact_q hG
  obtain ⟨hHl, hHnd, hHlt⟩ := kg_honest_nonempty S
  have hj1 : j < n := k4.qlt j hjQ
  -- every honest party's share of `j` satisfies (5)
  have h5 : ∀ m ∈ honestIdx ins, ∃ s : Int, cq G s = (fam j).eval (pt G.q m) ∧
      cp G G.g ^ s = powProdFrom (m + 1) 0 ((Ac j).map (cp G)) := by
    intro m hm
    obtain ⟨Pm, hPm, tm⟩ := k5.party m hm
    have c := tm.core
    have hB1 := kg_share_on_fam S fam Q Cc hbind k4.qlt _ (occAt_cfg n t ins 5) m hm Pm hPm c.sIn c.spIn c.slen
      c.splen c.opn j hjQ
    refine ⟨getI Pm.st.s j, hB1, ?_⟩
    by_cases hmj : j = m
    · subst hmj
      have := kg_Eq5_honest hG t (pinOf ins j) (S.hc j hm) _ c.ga j (getI Pm.st.s j)
        (by rw [hB1, hfamH j hm])
      rw [← tm.own] at this
      exact this
    · exact (tm.good j hjQ hmj (fun h => hjR (hcR m hm Pm hPm j h))).2.2
  -- the row consists of `t+1` group elements
  have hrow : (Ac j).length = t + 1 ∧ ∀ c ∈ Ac j, Dkg.checkElement G c = true := by
    by_cases hjH : j ∈ honestIdx ins
    · obtain ⟨Pj, hPj, tj⟩ := k5.party j hjH
      rw [tj.own]
      obtain ⟨ha, -, hla, -⟩ := ag_coef_range (G := G) t (pinOf ins j) (S.hc j hjH)
      exact ⟨(kg_gaList_length _ _ tj.core.ga).trans hla, ra_ga_checkElement hG _ ha _ tj.core.ga⟩
    · obtain ⟨i0, hi0⟩ : ∃ i0, i0 ∈ honestIdx ins := by
        cases hH : honestIdx ins with
        | nil => rw [hH] at hHl; simp at hHl
        | cons a l => exact ⟨a, by simp⟩
      obtain ⟨P0, hP0, t0⟩ := k5.party i0 hi0
      have hne : j ≠ i0 := fun e => hjH (e ▸ hi0)
      obtain ⟨g1, g2, -⟩ := t0.good j hjQ hne (fun h => hjR (hcR i0 hi0 P0 hP0 j h))
      exact ⟨g1, g2⟩
  exact feldman_unique hG t (fam j) (hbind j hj1).1 (Ac j) hrow.1 hrow.2 (honestIdx ins)
    (kg_goodParties_range S.hnq _ hHnd hHlt) (by omega) h5

/-- the final state of an honest party -/
structure FinK (G : Grp) [Fact (Nat.Prime G.p.natAbs)] (n t : Nat) (ins : List PartyIn)
    (fam : Nat → Polynomial (ZMod G.q.natAbs)) (Q : List Nat) (Afl : List (List Int)) (i : Nat)
    (P : Party GenSt) : Prop where
  status : P.status = .ret true
  hi : P.st.i = i
  qual : P.st.qual = Q
  A : P.st.A = Afl
  yi : P.st.yi = Q.foldl (fun (l : List Int) j => l.set j (getI (getRow Afl j) 0)) (zeros n)
  y : P.st.y = Q.foldl (fun (acc : Int) j => acc * getI P.st.yi j % G.p) 1
  vi : Q.foldlM (fun (l : List Int) jt => do
      let v ← viOf G Q Afl jt
      pure (l.set jt v)) (zeros n) = .ok P.st.vi
  x : P.st.x = sumMod G.q P.st.s Q
  sfam : ∀ j ∈ Q, cq G (getI P.st.s j) = (fam j).eval (pt G.q i)
  own : fspowm G.tabG G.g (getI P.st.z i) G.p = .ok (getI P.st.yi i)

/-- the outcome of a run: all honest parties finish with `true`, the same QUAL and the same Feldman
    rows, which are the Feldman rows of the polynomials `fam j` -/
theorem kg_outcome {n t : Nat} {ins : List PartyIn} (S : SetupK G n t ins)
    (fam : Nat → Polynomial (ZMod G.q.natAbs)) (hB : BindingHypG G n t ins fam) :
    ∃ Q Afl, Q.Nodup ∧ (∀ j ∈ Q, j < n) ∧ (∀ j, j ∈ honestIdx ins → j ∈ Q) ∧
      (∀ j ∈ Q, (∀ k, k < t + 1 → cp G (getI (getRow Afl j) k) = cp G G.g ^ ((fam j).coeff k).val) ∧
        ∀ x : Nat, powProdFrom x 0 ((getRow Afl j).map (cp G)) =
          cp G G.g ^ ((fam j).eval ((x : Nat) : ZMod G.q.natAbs)).val) ∧
      (∀ j, j < n → (fam j).degree < ((t + 1 : Nat) : WithBot Nat)) ∧
      ∀ i, i ∈ honestIdx ins → ∃ P, (runGen G n t ins)[i]? = some P ∧ FinK G n t ins fam Q Afl i P := by
  have hG := S.hG
  have hq : 0 < G.q := hG.vg.q_pos
  obtain ⟨hHl, hHnd, hHlt⟩ := kg_honest_nonempty S
  obtain ⟨i0, hi0⟩ : ∃ i0, i0 ∈ honestIdx ins := by
    cases hH : honestIdx ins with
    | nil => rw [hH] at hHl; simp at hHl
    | cons a l => exact ⟨a, by simp⟩
  obtain ⟨Q, Cc, Ac, Rc, k4, hR, hbind, hfamH, k5, hcR, hJF⟩ := kg_final S fam hB
  -- the common final rows
  have hAf : ∀ i, i ∈ honestIdx ins → ∀ P, (runGen G n t ins)[i]? = some P → P.st.A.length = n ∧
      ∀ k, k < n → getRow P.st.A k = if k ∈ Rc then rowOf G fam t k else Ac k := by
    intro i hi P hP
    obtain ⟨P', hP', -, st, t6, hfin⟩ := hJF i hi
    rw [Option.some.inj (hP.symm.trans hP')]
    obtain ⟨hA, -⟩ := kg_genFinish_shape st P'.st hfin
    refine ⟨((kg_Afold _ _ _ _ hA 0).1).trans t6.Alen, fun k hk => ?_⟩
    obtain ⟨-, a2, a3⟩ := kg_Afold _ _ _ _ hA k
    rw [t6.racc] at a2 a3
    by_cases hkR : k ∈ Rc
    · obtain ⟨row, hrow, hget⟩ := a3 hkR hR.nd (by rw [t6.Alen]; exact hk)
      rw [t6.aik k (by simpa using hkR), (kg_rowOf_spec hG fam t k).1] at hrow
      rw [if_pos hkR, hget, ← Except.ok.inj hrow]
    · rw [if_neg hkR, a2 hkR, t6.Arow k hk]
  obtain ⟨P0, hP0, -⟩ := hJF i0 hi0
  refine ⟨Q, P0.st.A, k4.qnd, k4.qlt, k4.qh, ?_, fun j hj => (hbind j hj).1, ?_⟩
  · intro j hjQ
    have hj1 := k4.qlt j hjQ
    rw [(hAf i0 hi0 P0 hP0).2 j hj1]
    by_cases hjR : j ∈ Rc
    · rw [if_pos hjR]
      obtain ⟨-, r2, r3⟩ := kg_rowOf_spec hG fam t j
      exact ⟨r3, kg_powProd_of_coeff hG t (fam j) (hbind j hj1).1 _ r2 r3⟩
    · rw [if_neg hjR]
      exact kg_feldman_Ac S fam Q Cc Ac Rc k4 hbind hfamH k5 hcR j hjQ hjR
  · intro i hi
    obtain ⟨P, hP, hst, st, t6, hfin⟩ := hJF i hi
    have c := t6.core
    have hi1 := hHlt i hi
    obtain ⟨hA, e1, e2, e3, e4, e5, e6, hvi, hyi, hy⟩ := kg_genFinish_shape st P.st hfin
    -- the rows are the common ones
    have hAeq : P.st.A = P0.st.A := by
      obtain ⟨l1, r1⟩ := hAf i hi P hP
      obtain ⟨l0, r0⟩ := hAf i0 hi0 P0 hP0
      apply List.ext_getElem (by rw [l1, l0])
      intro k h1 h2
      have hk : k < n := by rw [← l1]; exact h1
      have a := r1 k hk
      have b := r0 k hk
      unfold getRow at a b
      rw [List.getD_eq_getElem _ _ h1] at a
      rw [List.getD_eq_getElem _ _ h2] at b
      rw [a, b]
    have hiQ : i ∈ Q := k4.qh i hi
    have hiR : i ∉ Rc := fun h => hR.notH i h hi
    refine ⟨P, hP, hst, e5.trans c.hi, e1.trans c.qual, hAeq, ?_, ?_, ?_, ?_, ?_, ?_⟩
    · rw [hyi, c.qual, t6.yi, hAeq]
    · rw [hy, c.qual]
    · rw [c.qual, t6.vi, hAeq] at hvi
      exact hvi
    · rw [e4, e2, c.x]
    · -- the shares lie on the dealers' polynomials
      have hrun := cfgGen_final (G := G) n t ins
      rw [hrun] at hP
      have := kg_share_on_fam S fam Q Cc hbind k4.qlt _ (occAt_cfg n t ins (6 + t + 1)) i hi P hP
        (by rw [e2]; exact c.sIn) (by rw [e3]; exact c.spIn) (by rw [e2]; exact c.slen)
        (by rw [e3]; exact c.splen) (by rw [e2, e3]; exact c.opn)
      exact this
    · -- the second test of `CheckKey()`
      rw [e6, t6.zi, hyi, c.qual, t6.yi]
      have ha0 : 0 < (coefA t (pinOf ins i)).length := by simp [coefA]
      have h0 := run_gaList_get _ _ c.ga 0 ha0
      rw [h0]
      congr 1
      have hfold := (ra_yiFold (fun j => getI (getRow P.st.A j) 0) Q (zeros n) i).2 hiQ (by simp [zeros, hi1])
      rw [hfold, (hAf i hi P hP).2 i hi1, if_neg hiR]
      obtain ⟨P5, hP5, t5⟩ := k5.party i hi
      rw [t5.own, Except.ok.inj (t5.core.ga.symm.trans c.ga)]

/-! ### values of `y` and of the verification keys -/

theorem kg_viOf_aux (hG : ValidGrp G) (qual : List Nat) (A : List (List Int)) (jt : Nat) (acc : Int)
    (hacc : 0 ≤ acc ∧ acc < G.p) :
    ∃ v, qual.foldlM (fun (acc : Int) it => commitProdFrom G.p (jt + 1) 0 (getRow A it) acc) acc = .ok v ∧
      0 ≤ v ∧ v < G.p ∧
      cp G v = cp G acc * (qual.map (fun it => powProdFrom (jt + 1) 0 ((getRow A it).map (cp G)))).prod := by
  induction qual generalizing acc with
  | nil => exact ⟨acc, rfl, hacc.1, hacc.2, by simp⟩
  | cons j rest ih =>
    obtain ⟨r, hr, hr0, hr1, hrv⟩ := kg_commitProdFrom_val hG (jt + 1) 0 (getRow A j) acc hacc
    obtain ⟨v, hv, hv0, hv1, hvv⟩ := ih r ⟨hr0, hr1⟩
    refine ⟨v, ?_, hv0, hv1, ?_⟩
    · simp only [List.foldlM_cons, hr]
      exact hv
    · rw [hvv, hrv]
      simp only [List.map_cons, List.prod_cons]
      ring

theorem kg_viOf_val (hG : ValidGrp G) (qual : List Nat) (A : List (List Int)) (jt : Nat) :
    ∃ v, viOf G qual A jt = .ok v ∧ 0 ≤ v ∧ v < G.p ∧
      cp G v = (qual.map (fun it => powProdFrom (jt + 1) 0 ((getRow A it).map (cp G)))).prod := by
  have h1 : (1 : Int) < G.p := pl_one_lt_p hG
  have h := kg_viOf_aux hG qual A jt 1 ⟨by norm_num, h1⟩
  rw [cp_one, one_mul] at h
  exact h

theorem kg_yFold_val (hG : ValidGrp G) (yi : List Int) (L : List Nat) (acc : Int) :
    cp G (L.foldl (fun (acc : Int) j => acc * getI yi j % G.p) acc) =
      cp G acc * (L.map (fun j => cp G (getI yi j))).prod := by
  induction L generalizing acc with
  | nil => simp
  | cons j L ih =>
    simp only [List.foldl_cons, List.map_cons, List.prod_cons]
    rw [ih, cp_emod hG, cp_mul]
    ring

end Tmcg.DkgP
