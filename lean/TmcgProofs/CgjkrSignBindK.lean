import TmcgProofs.CgjkrSignBindJ
import TmcgProofs.CgjkrSignBindE
/-
  C16, run level, part K: `RunViews` from the irreducible hypotheses, for the states of a run.

    * `emitOps_view`, `shEmit_lam_len`   frames
    * `view_at_shRead`    at the round of `shRead ph` (by the schedule link `atAct_shRead_emit` and `shEmit_spec`): at least
                          `2t+1` signers, distinct and `< m`; the multipliers are the library's; the own share is the
                          combination of the party's shares
    * `runViews_of_rows`  `RunViews` from: rows = Pedersen rows of polynomial pairs (`ViewRows0`), own shares of the back-up
                          sharings on these polynomials, binding of the one commitment per position w.r.t. the pairs of the
                          inbox (`PedBindOcc`, computational), the product relation for every signer of the final signer
                          set (soundness of the proofs of steps 1c/1d/2c/2d, error 1/q; correctness of steps 1e/2e),
                          agreement on `a_dkg->y` (soundness of the nested key generation), and the structural fact
                          `lam.length = m` at these states (true from `kDeal` on; not derived here)
-/
namespace Tmcg.CgjkrSignBind
open Tmcg Tmcg.Powm Tmcg.Dkg Tmcg.Grp Tmcg.DkgL Tmcg.DkgP Tmcg.Cgjkr Tmcg.CgjkrSign Tmcg.CgjkrSignRunP
open Polynomial

theorem emitOps_view (st : SSt) (ops acc : List Op) :
    (emitOps st ops acc).1.signers = st.signers ∧ (emitOps st ops acc).1.lam = st.lam ∧
    (emitOps st ops acc).1.s = st.s ∧ (emitOps st ops acc).1.compl = st.compl ∧
    (emitOps st ops acc).1.vi = st.vi ∧ (emitOps st ops acc).1.vs = st.vs := by
  induction ops generalizing st acc with
  | nil => exact ⟨rfl, rfl, rfl, rfl, rfl, rfl⟩
  | cons op rest ih =>
    cases op with
    | bc tag v =>
      simp only [emitOps]
      exact ih _ _
    | pv j v =>
      simp only [emitOps]
      exact ih _ _

variable {G : Dkg.Grp} [Fact (Nat.Prime G.p.natAbs)] [Fact (Nat.Prime G.q.natAbs)]

set_option linter.unusedSectionVars false
set_option linter.unusedVariables false

theorem shEmit_lam_len (hq : 0 < G.q) (ph : Nat) (st st' : SSt) (I I' : Inbox) (ops : List Op)
    (h : doAct G (.shEmit ph) st I = .ok (.go st' I' ops)) : st'.lam.length = st.lam.length := by
  simp only [doAct, fail, pure, Except.pure] at h
  split at h
  · cases h
  · split at h
    · cases h
    · rename_i lam foo bar hown
      simp only [Except.ok.injEq, AOut.go.injEq] at h
      obtain ⟨rfl, -, -⟩ := h
      have hEnv : SSt.env G { st with signers := (List.range st.m).filter (fun j => !st.ignore.contains j && inJq st j) } =
          SSt.env G st := rfl
      rw [← hEnv] at hown
      exact (sOwnShare_val hq _ _ _ _ _ _ _ _ _ hown).1

/-- the rows part of `ViewRows` (without the multipliers) -/
structure ViewRows0 (G : Dkg.Grp) [Fact (Nat.Prime G.p.natAbs)] (st : SSt) (kindV : Nat)
    (V V' : Nat → Polynomial (ZMod G.q.natAbs)) : Prop where
  hdeg : ∀ jt ∈ st.signers, (V jt).degree < ((st.t + 1 : Nat) : WithBot Nat) ∧
    (V' jt).degree < ((st.t + 1 : Nat) : WithBot Nat)
  hrow : ∀ jt ∈ st.signers, st.compl.contains jt = false → ∀ j, j < st.m →
    ∃ b, commitProd G.p ((st.env G).pt j) (getPv st kindV jt).A = .ok b ∧
      cp G b = ped G ((V jt).eval (pt G.q (getN st.pts j))) ((V' jt).eval (pt G.q (getN st.pts j)))
  hvi : ∀ jt ∈ st.signers, st.compl.contains jt = true → (getI st.vi jt).natAbs < G.q.natAbs

/-- what the schedule link gives at the round of `shRead ph` -/
theorem view_at_shRead (hq : 0 < G.q) (t : Nat) (msg : Int) (sub : List Nat) (ins : List SignIn) (k ph : Nat)
    (st : SSt) (I : Inbox) (hAt : AtAct G t msg sub ins k (.shRead ph) st I) (hlen : st.lam.length = st.m) :
    2 * st.t < st.signers.length ∧ st.signers.Nodup ∧ (∀ jt ∈ st.signers, jt < st.m) ∧
    (∀ jt ∈ st.signers, lagCoeffP (st.env G) st.signers jt = some (getI st.lam jt)) ∧
    cq G st.s = (st.signers.map (fun jt =>
      cq G (getI st.lam jt) * cq G (ownV st (if ph = 0 then 2 else 4) jt))).sum := by
  obtain ⟨st0, I0, st1, I1, ops1, -, hdo, rfl⟩ := atAct_shRead_emit G t msg sub ins k ph st I hAt
  obtain ⟨v1, v2, v3, v4, v5, v6⟩ := emitOps_view st1 ops1 []
  obtain ⟨m1, m2, m3, m4⟩ := emitOps_struct st1 ops1 []
  have hl0 : st0.lam.length = st0.m := by
    have e1 := shEmit_lam_len hq ph st0 st1 I0 I1 ops1 hdo
    rw [v2, m1] at hlen
    have hm : st1.m = st0.m := (doAct_struct G _ _ _ _ hdo).1
    omega
  obtain ⟨s1, s2, -, -, -, s6, s7, s8, s9, s10, s11⟩ := shEmit_spec hq ph st0 st1 I0 I1 ops1 hl0 hdo
  have hEnv : SSt.env G (emitOps st1 ops1 []).1 = SSt.env G st1 := by
    unfold SSt.env
    rw [m1, m2, m3, m4]
  have hown : ∀ kind jt, ownV (emitOps st1 ops1 []).1 kind jt = ownV st1 kind jt := by
    intro kind jt
    unfold ownV getPv
    rw [v4, v5, v6]
  rw [v1, v2, v3, m1, m2, hEnv]
  refine ⟨by rw [s7] at *; exact s2, ?_, ?_, s10, ?_⟩
  · rw [s1]; exact List.nodup_range.filter _
  · intro jt hjt
    rw [s1] at hjt
    rw [s6]
    exact List.mem_range.mp (List.mem_filter.mp hjt).1
  · rw [s11]
    apply congrArg
    apply List.map_congr_left
    intro jt _
    rw [hown]

/-- the multipliers: from the library's routine to the field elements `lam` -/
theorem hlam_of_lagCoeffP (hq : 0 < G.q) (st : SSt) (hgp : GoodParties G.q (st.signers.map (getN st.pts)))
    (h : ∀ jt ∈ st.signers, lagCoeffP (st.env G) st.signers jt = some (getI st.lam jt)) :
    ∀ jt ∈ st.signers, 0 ≤ getI st.lam jt ∧
      cq G (getI st.lam jt) = lam G.q (st.signers.map (getN st.pts)) (getN st.pts jt) := by
  intro jt hjt
  obtain ⟨l, hl, hl0, -, hlv⟩ := lagCoeff_val hq (st.signers.map (getN st.pts)) hgp (getN st.pts jt)
    (List.mem_map.mpr ⟨jt, hjt, rfl⟩)
  have h1 := h jt hjt
  unfold lagCoeffP at h1
  have : (st.env G).G.q = G.q := rfl
  have h2 : lagCoeff G.q (st.signers.map (getN st.pts)) (getN st.pts jt) = some (getI st.lam jt) := h1
  rw [hl] at h2
  injection h2 with h2
  subst h2
  exact ⟨hl0, hlv⟩

theorem goodParties_of_signers (st : SSt) (hm : st.pts.length = st.m) (hnd : st.pts.Nodup)
    (hsmall : ∀ d ∈ st.pts, (d : Int) + 1 < G.q) (hsn : st.signers.Nodup) (hlt : ∀ jt ∈ st.signers, jt < st.m) :
    GoodParties G.q (st.signers.map (getN st.pts)) := by
  constructor
  · apply List.Nodup.map_on _ hsn
    intro x hx y hy hxy
    rw [getN_lt _ _ (by rw [hm]; exact hlt x hx), getN_lt _ _ (by rw [hm]; exact hlt y hy)] at hxy
    exact (List.Nodup.getElem_inj_iff hnd).mp hxy
  · intro d hd
    obtain ⟨j, hj, rfl⟩ := List.mem_map.mp hd
    apply hsmall
    rw [getN_lt _ _ (by rw [hm]; exact hlt j hj)]
    exact List.getElem_mem _

/-- one view of a run: `view_of_rows` with everything the schedule link provides -/
theorem view_of_rows_run (hG : ValidGrp G) (t : Nat) (msg : Int) (sub : List Nat) (ins : List SignIn)
    (hnd : sub.Nodup) (hsmall : ∀ d ∈ sub, (d : Int) + 1 < G.q) (k ph : Nat) (st : SSt) (I : Inbox)
    (hAt : AtAct G t msg sub ins k (.shRead ph) st I) (hlen : st.lam.length = st.m)
    (V V' : Nat → Polynomial (ZMod G.q.natAbs))
    (hV : ViewRows0 G st (if ph = 0 then 2 else 4) V V')
    (hsh : ∀ jt ∈ st.signers, st.compl.contains jt = false →
      cq G (getPv st (if ph = 0 then 2 else 4) jt).sigma = (V jt).eval (pt G.q (getN st.pts st.i)))
    (hP : PedBindOcc G st I
      (Fcomb G st (fun jt => lam G.q (st.signers.map (getN st.pts)) (getN st.pts jt)) V)
      (Fcomb' G st (fun jt => lam G.q (st.signers.map (getN st.pts)) (getN st.pts jt)) V'))
    (K A : Polynomial (ZMod G.q.natAbs)) (hK : K.degree < ((st.t + 1 : Nat) : WithBot Nat))
    (hA : A.degree < ((st.t + 1 : Nat) : WithBot Nat))
    (hprod : ∀ jt ∈ st.signers, (Wv G st V jt).eval 0 =
      K.eval (pt G.q (getN st.pts jt)) * A.eval (pt G.q (getN st.pts jt))) :
    ∃ F, BindsViewOcc G st I (if ph = 0 then 2 else 4) F ∧ F.eval 0 = K.eval 0 * A.eval 0 := by
  have hq : 0 < G.q := hG.vg.q_pos
  obtain ⟨w1, w2, w3, w4, w5⟩ := view_at_shRead hq t msg sub ins k ph st I hAt hlen
  obtain ⟨hm, -, hnd', hsmall'⟩ := signerSet_of_run hnd hsmall hAt
  have hgp := goodParties_of_signers st hm hnd' hsmall' w2 w3
  have hlam := hlam_of_lagCoeffP hq st hgp w4
  exact view_of_rows hG st I _ V V' ⟨hlam, hV.hdeg, hV.hrow, hV.hvi⟩ w5 hsh hP hgp w1 K A hK hA hprod

/-- **`RunViews` from the irreducible hypotheses** (see the header). -/
theorem runViews_of_rows (hG : ValidGrp G) (t : Nat) (msg : Int) (sub : List Nat) (ins : List SignIn)
    (hnd : sub.Nodup) (hsmall : ∀ d ∈ sub, (d : Int) + 1 < G.q) (kz az xz : ZMod G.q.natAbs)
    (hview : ∀ (ph : Nat) k st I, honestS ins k → AtAct G t msg sub ins k (.shRead ph) st I → ph = 0 ∨ ph = 1 →
      st.lam.length = st.m ∧
      ∃ (V V' : Nat → Polynomial (ZMod G.q.natAbs)) (K A : Polynomial (ZMod G.q.natAbs)),
        ViewRows0 G st (if ph = 0 then 2 else 4) V V' ∧
        (∀ jt ∈ st.signers, st.compl.contains jt = false →
          cq G (getPv st (if ph = 0 then 2 else 4) jt).sigma = (V jt).eval (pt G.q (getN st.pts st.i))) ∧
        PedBindOcc G st I
          (Fcomb G st (fun jt => lam G.q (st.signers.map (getN st.pts)) (getN st.pts jt)) V)
          (Fcomb' G st (fun jt => lam G.q (st.signers.map (getN st.pts)) (getN st.pts jt)) V') ∧
        K.degree < ((st.t + 1 : Nat) : WithBot Nat) ∧ A.degree < ((st.t + 1 : Nat) : WithBot Nat) ∧
        (∀ jt ∈ st.signers, (Wv G st V jt).eval 0 =
          K.eval (pt G.q (getN st.pts jt)) * A.eval (pt G.q (getN st.pts jt))) ∧
        K.eval 0 * A.eval 0 = (if ph = 0 then kz * az else kz * (cq G msg + xz * cq G st.r)))
    (hy : ∀ k1 k2 st1 I1 st2 I2, honestS ins k1 → honestS ins k2 →
      AtAct G t msg sub ins k1 (.shRead 0) st1 I1 → AtAct G t msg sub ins k2 (.shRead 0) st2 I2 →
      st1.ag.y = st2.ag.y) :
    RunViews G t msg sub ins kz az xz := by
  refine ⟨?_, ?_, hy⟩
  · intro k st I hk hAt
    obtain ⟨hlen, V, V', K, A, hV, hsh, hP, hK, hA, hprod, hval⟩ := hview 0 k st I hk hAt (Or.inl rfl)
    obtain ⟨F, hF, hF0⟩ := view_of_rows_run hG t msg sub ins hnd hsmall k 0 st I hAt hlen V V' hV hsh hP K A hK hA hprod
    exact ⟨F, hF, by rw [hF0, hval]; rfl⟩
  · intro k st I hk hAt
    obtain ⟨hlen, V, V', K, A, hV, hsh, hP, hK, hA, hprod, hval⟩ := hview 1 k st I hk hAt (Or.inr rfl)
    obtain ⟨F, hF, hF0⟩ := view_of_rows_run hG t msg sub ins hnd hsmall k 1 st I hAt hlen V V' hV hsh hP K A hK hA hprod
    exact ⟨F, hF, by rw [hF0, hval]; rfl⟩

end Tmcg.CgjkrSignBind
