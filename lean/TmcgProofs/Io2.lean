import Tmcg.Model.Io2
import TmcgProofs.Codec
/-
  C11, second part: export / import round trips of the stream-based types (group parameter sets,
  persisted protocol state), of the QR-encoded cards and their stacks, and of the keys.
  For every type: `import (export x) = x` for every well-formed `x` (`wf` = the decidable predicate
  the exporter's own objects satisfy and the importer's limits), and the identical re-export.
-/
namespace Tmcg.Io2
open Tmcg Tmcg.Codec

/-! ### lines -/

theorem digit62_ne_nl : ∀ d, d < 62 → digit62 d ≠ nl := by decide

theorem nl_notMem_s62 (z : Int) : nl ∉ s62 z := by
  obtain ⟨ds, h1, h2, -, -⟩ := str62_toList z
  unfold s62
  rw [h1]
  intro hmem
  split at hmem
  · rcases List.mem_cons.mp hmem with h | h
    · exact absurd h (by decide)
    · obtain ⟨d, hd, hc⟩ := h2 _ h
      exact digit62_ne_nl d hd hc.symm
  · obtain ⟨d, hd, hc⟩ := h2 _ hmem
    exact digit62_ne_nl d hd hc.symm

theorem lineOf_split (l rest : Text) (h : nl ∉ l) : lineOf (l ++ nl :: rest) = l := by
  unfold lineOf
  induction l with
  | nil => simp
  | cons c cs ih =>
    have hc : c ≠ nl := fun e => h (by simp [e])
    have hcs : nl ∉ cs := fun e => h (by simp [e])
    rw [List.cons_append, List.takeWhile_cons_of_pos (by simpa using hc), ih hcs]

theorem getlineBuf_line (cap : Nat) (l rest : Text) (h : nl ∉ l) (hlen : l.length ≤ cap) :
    getlineBuf cap ⟨l ++ nl :: rest, true⟩ = (l, ⟨rest, true⟩) := by
  unfold getlineBuf
  simp [lineOf_split l rest h, hlen]

theorem getlineStr_line (v l rest : Text) (h : nl ∉ l) :
    getlineStr v ⟨l ++ nl :: rest, true⟩ = (l, ⟨rest, true⟩) := by
  unfold getlineStr
  simp [lineOf_split l rest h]

theorem p62_s62 (z : Int) : p62 (s62 z) = some z := by
  unfold p62 s62
  rw [String.ofList_toList]
  exact parse62_str62 z

/-- one integer line is read back -/
theorem readMpz_line (z : Int) (rest : Text) (h : IntOk z) :
    readMpz ⟨s62 z ++ nl :: rest, true⟩ = .ok (z, ⟨rest, true⟩) := by
  unfold readMpz
  rw [getlineBuf_line _ _ _ (nl_notMem_s62 z) h]
  simp [p62_s62]

theorem lines_cons (z : Int) (l : List Int) : lines (z :: l) = s62 z ++ nl :: lines l := by
  simp [lines]

theorem readMpzN_lines : ∀ (l : List Int) (rest : Text), IntsOk l →
    readMpzN l.length ⟨lines l ++ rest, true⟩ = .ok (l, ⟨rest, true⟩) := by
  intro l
  induction l with
  | nil => intro rest _; simp [readMpzN, lines]
  | cons z l ih =>
    intro rest h
    have hz : IntOk z := h z (by simp)
    have hl : IntsOk l := fun x hx => h x (by simp [hx])
    simp only [List.length_cons, readMpzN, lines_cons, List.cons_append, List.append_assoc]
    rw [readMpz_line z _ hz]
    simp only []
    rw [ih rest hl]

theorem readMpzN_lines' (n : Nat) (l : List Int) (rest : Text) (hn : l.length = n) (h : IntsOk l) :
    readMpzN n ⟨lines l ++ rest, true⟩ = .ok (l, ⟨rest, true⟩) := by
  subst hn; exact readMpzN_lines l rest h

theorem lines_append (a b : List Int) : lines (a ++ b) = lines a ++ lines b := by
  simp [lines]

/-! ### counts -/

theorem nl_notMem_dec (n : Nat) : nl ∉ dec n := by
  unfold dec
  rw [toString_toList]
  intro hmem
  obtain ⟨d, hd, hc⟩ := (toDigits10_spec n).1 _ hmem
  have : ∀ d, d < 10 → Nat.digitChar d ≠ nl := by decide
  exact this d hd hc.symm

theorem takeWhile_all {α} (p : α → Bool) (l : List α) (h : ∀ x ∈ l, p x = true) : l.takeWhile p = l := by
  induction l with
  | nil => rfl
  | cons c cs ih =>
    rw [List.takeWhile_cons_of_pos (h c (by simp)), ih (fun x hx => h x (by simp [hx]))]

/-- the decimal text of a count is read back by `std::stringstream(text) >> n` -/
theorem parseSize_dec (cur n : Nat) (h : n < 2 ^ 64) : parseSize cur (dec n) = n := by
  unfold dec
  rw [toString_toList]
  obtain ⟨h1, h2, h3⟩ := toDigits10_spec n
  generalize Nat.toDigits 10 n = ds at h1 h2 h3
  obtain ⟨c, cs, rfl⟩ := List.exists_cons_of_ne_nil h3
  obtain ⟨d, hd, hcd⟩ := h1 c (by simp)
  have hf := digitChar_facts d hd
  rw [← hcd] at hf
  obtain ⟨-, -, f3, -, -, f6, f7, -⟩ := hf
  have hdw : List.dropWhile isSpace (c :: cs) = c :: cs :=
    List.dropWhile_cons_of_neg (by simp [f3])
  have hall : ∀ x ∈ c :: cs, Char.isDigit x = true := by
    intro x hx
    obtain ⟨d, hd, rfl⟩ := h1 x hx
    exact (digitChar_facts d hd).2.1
  have hW : W64 = 2 ^ 64 := rfl
  unfold valDec at h2
  unfold parseSize
  simp only [hdw]
  have hsplit : signSplit (c :: cs) = (false, c :: cs) := by
    unfold signSplit
    split
    · rename_i heq; simp only [List.cons.injEq] at heq; exact absurd heq.1 f6
    · rename_i heq; simp only [List.cons.injEq] at heq; exact absurd heq.1 f7
    · rfl
  rw [hsplit]
  simp only [takeWhile_all _ _ hall, h2]
  simp [hW]
  omega

theorem readSize_line (cur n : Nat) (v rest : Text) (h : n < 2 ^ 64) :
    readSize cur v ⟨sizeLine n ++ rest, true⟩ = (n, dec n, ⟨rest, true⟩) := by
  unfold readSize sizeLine
  rw [List.append_assoc]
  simp only [List.singleton_append]
  rw [getlineStr_line _ _ _ (nl_notMem_dec n)]
  simp [parseSize_dec cur n h]

theorem sizeLines_cons (n : Nat) (l : List Nat) : sizeLines (n :: l) = sizeLine n ++ sizeLines l := by
  simp [sizeLines]

theorem readQual_lines (n : Nat) (hn : n < 2 ^ 64) : ∀ (Q : List Nat) (v rest : Text),
    (∀ j ∈ Q, j < n) →
    ∃ v', readQual n Q.length v ⟨sizeLines Q ++ rest, true⟩ = .ok (Q, v', ⟨rest, true⟩) := by
  intro Q
  induction Q with
  | nil => intro v rest _; exact ⟨v, by simp [readQual, sizeLines]⟩
  | cons j Q ih =>
    intro v rest h
    have hj : j < n := h j (by simp)
    obtain ⟨v', hv'⟩ := ih (dec j) rest (fun x hx => h x (by simp [hx]))
    refine ⟨v', ?_⟩
    simp only [List.length_cons, readQual, sizeLines_cons, List.append_assoc]
    rw [readSize_line n j v _ (by omega)]
    simp only []
    rw [if_neg (by omega), hv']

theorem maxPlayers : Gen.TMCG_MAX_DKG_PLAYERS = 256 := rfl

theorem readNti_lines (n t i : Nat) (v rest : Text) (hn : n ≤ Gen.TMCG_MAX_DKG_PLAYERS) (ht : t ≤ n)
    (hi : i < n) :
    readNti v ⟨sizeLines [n, t, i] ++ rest, true⟩ = .ok (n, t, i, dec i, ⟨rest, true⟩) := by
  have h256 := maxPlayers
  unfold readNti
  simp only [sizeLines_cons, List.append_assoc]
  rw [readSize_line 0 n v _ (by omega)]
  simp only []
  rw [if_neg (by omega), readSize_line 0 t _ _ (by omega)]
  simp only []
  rw [if_neg (by omega), readSize_line 0 i _ _ (by omega)]
  simp only []
  rw [if_neg (by omega)]
  simp [sizeLines]

theorem readQualBlock_lines (n : Nat) (Q : List Nat) (v rest : Text)
    (hn : n ≤ Gen.TMCG_MAX_DKG_PLAYERS) (hQ : qualWf n Q) :
    ∃ v', readQualBlock n v ⟨sizeLine Q.length ++ sizeLines Q ++ rest, true⟩ = .ok (Q, v', ⟨rest, true⟩) := by
  have h256 := maxPlayers
  obtain ⟨hlen, hmem⟩ := hQ
  obtain ⟨v', hv'⟩ := readQual_lines n (by omega) Q (dec Q.length) rest hmem
  refine ⟨v', ?_⟩
  unfold readQualBlock
  rw [List.append_assoc, readSize_line 0 Q.length v _ (by omega)]
  simp only []
  rw [if_neg (by omega), Nat.min_eq_left hlen, hv']

/-! ### group parameter sets -/

theorem IntsOk.cons {z : Int} {l : List Int} (h : IntsOk (z :: l)) : IntOk z ∧ IntsOk l :=
  ⟨h z (by simp), fun x hx => h x (by simp [hx])⟩

theorem readGrp4_text (G : Grp4) (rest : Text) (h : IntsOk [G.p, G.q, G.g, G.h]) :
    readGrp4 ⟨grp4Text G ++ rest, true⟩ = .ok (G, ⟨rest, true⟩) := by
  unfold readGrp4 grp4Text
  rw [readMpzN_lines' 4 _ rest rfl h]

/-- `BarnettSmartVTMF_dlog`: import (export G) = G -/
theorem import_export_vtmf (pre : Bool) (G : VtmfGroup) (rest : Text) (h : G.wf) :
    importVtmf pre ⟨vtmfText G ++ rest, true⟩ = .ok (G, ⟨rest, true⟩) := by
  unfold importVtmf vtmfText
  rw [readMpzN_lines' 4 _ rest rfl h.1]
  simp [h.2]

/-- `BarnettSmartVTMF_dlog_GroupQR`: the generator is the derived one -/
theorem import_export_qr (esize : Nat) (G : VtmfGroup) (rest : Text) (h : qrWf esize G) :
    importQr esize ⟨vtmfText G ++ rest, true⟩ = .ok (G, ⟨rest, true⟩) := by
  unfold importQr
  rw [import_export_vtmf false G rest h.1]
  simp only []
  rw [h.2]
  simp [h.1.2]

/-- `PedersenCommitmentScheme` / `GrothSKC`, read with its own number of generators -/
theorem import_export_com (C : PedCom) (rest : Text) (h : C.wf) :
    importCom C.g.length ⟨comText C ++ rest, true⟩ = .ok (C, ⟨rest, true⟩) := by
  unfold importCom comText
  rw [List.append_assoc, readMpzN_lines' 4 _ _ rfl h.1]
  simp only []
  rw [readMpzN_lines _ rest h.2.1]
  simp [h.2.2]

theorem import_export_trap (C : PedTrap) (rest : Text) (h : C.wf) :
    importTrap ⟨trapText C ++ rest, true⟩ = .ok (C, ⟨rest, true⟩) := by
  unfold importTrap trapText
  rw [readMpzN_lines' 5 _ rest rfl h.1]
  simp [h.2]

theorem import_export_vrhe (G : Grp4) (rest : Text) (h : G.wf) :
    importVrhe ⟨grp4Text G ++ rest, true⟩ = .ok (G, ⟨rest, true⟩) := by
  unfold importVrhe
  rw [readGrp4_text G rest h.1]
  simp [h.2]

theorem import_export_eotp (G : Grp3) (rest : Text) (h : G.wf) :
    importEotp ⟨eotpText G ++ rest, true⟩ = .ok (G, ⟨rest, true⟩) := by
  unfold importEotp eotpText
  rw [readMpzN_lines' 3 _ rest rfl h.1]
  simp [h.2]

/-- `GrothVSSHE`, including the inner re-export / re-import of the commitment scheme -/
theorem import_export_vsshe (V : Vsshe) (rest : Text) (h : V.wf) :
    importVsshe V.com.g.length ⟨vssheText V ++ rest, true⟩ = .ok (V, ⟨rest, true⟩) := by
  unfold importVsshe vssheText
  rw [List.append_assoc, readGrp4_text V.grp _ h.1.1]
  simp only []
  rw [import_export_com V.com rest h.2]
  simp only []
  have := import_export_com V.com [] h.2
  rw [List.append_nil] at this
  unfold IStream.of
  rw [this]
  simp [h.1.2]

/-! ### persisted state -/

/-- `PedersenVSS` -/
theorem import_export_vss (V : VssState) (rest : Text) (h : V.wf) :
    importVss ⟨vssText V ++ rest, true⟩ = .ok (V, ⟨rest, true⟩) := by
  obtain ⟨hg, hn, ht, hi, hst, ha, hb, hA, la, lb, lA⟩ := h
  unfold importVss vssText
  simp only [List.append_assoc]
  rw [readGrp4_text V.grp _ hg.1]
  simp only []
  rw [readNti_lines V.n V.t V.i [] _ hn ht hi]
  simp only []
  rw [readMpzN_lines' 2 _ _ rfl hst]
  simp only []
  rw [readMpzN_lines' _ _ _ la ha]
  simp only []
  rw [readMpzN_lines' _ _ _ lb hb]
  simp only []
  rw [readMpzN_lines' _ _ _ lA hA]
  simp [hg.2]

theorem pairUp_unpair (l : List (Int × Int)) : pairUp (unpair l) = l := by
  induction l with
  | nil => rfl
  | cons e l ih =>
    have : unpair (e :: l) = e.1 :: e.2 :: unpair l := by simp [unpair]
    rw [this, pairUp]
    unfold unpair at ih
    unfold unpair
    rw [ih]

theorem unpair_length (l : List (Int × Int)) : (unpair l).length = 2 * l.length := by
  induction l with
  | nil => rfl
  | cons e l ih =>
    have : unpair (e :: l) = e.1 :: e.2 :: unpair l := by simp [unpair]
    rw [this]
    simp only [List.length_cons, ih]
    omega

theorem readBlock_text (n m : Nat) (b : Block) (rest : Text) (h : b.wf n m) :
    readBlock n m ⟨blockText b ++ rest, true⟩ = .ok (b, ⟨rest, true⟩) := by
  obtain ⟨h1, h2, h3, h4⟩ := h
  unfold readBlock blockText
  rw [List.append_assoc, readMpzN_lines' (2 * n) _ _ (by rw [unpair_length, h1]) h3]
  simp only []
  rw [readMpzN_lines' m _ _ h2 h4]
  simp [pairUp_unpair]

theorem readBlocks_text (n m : Nat) : ∀ (bs : List Block) (rest : Text), (∀ b ∈ bs, b.wf n m) →
    readBlocks n m bs.length ⟨blocksText bs ++ rest, true⟩ = .ok (bs, ⟨rest, true⟩) := by
  intro bs
  induction bs with
  | nil => intro rest _; simp [readBlocks, blocksText]
  | cons b bs ih =>
    intro rest h
    have hb := h b (by simp)
    have : blocksText (b :: bs) = blockText b ++ blocksText bs := by simp [blocksText]
    simp only [List.length_cons, readBlocks, this, List.append_assoc]
    rw [readBlock_text n m b _ hb]
    simp only []
    rw [ih rest (fun x hx => h x (by simp [hx]))]

theorem readBlocks_text' (n m k : Nat) (bs : List Block) (rest : Text) (h : blocksWf k m bs) (hk : k = n) :
    readBlocks n m n ⟨blocksText bs ++ rest, true⟩ = .ok (bs, ⟨rest, true⟩) := by
  subst hk
  have := readBlocks_text k m bs rest h.2
  rwa [h.1] at this

theorem readHead_text (H : KeyHead) (rest : Text) (h : H.wf) :
    readHead ⟨headText H ++ rest, true⟩ = .ok (H, ⟨rest, true⟩) := by
  obtain ⟨hg, hn, ht, hi, hx, hq⟩ := h
  unfold readHead headText
  simp only [List.append_assoc]
  rw [readGrp4_text H.grp _ hg.1]
  simp only []
  rw [readNti_lines H.n H.t H.i [] _ hn ht hi]
  simp only []
  rw [readMpzN_lines' 3 _ _ rfl hx]
  simp only []
  obtain ⟨v', hv'⟩ := readQualBlock_lines H.n H.qual (dec H.i) rest hn hq
  rw [List.append_assoc] at hv'
  rw [hv']

/-- `GennaroJareckiKrawczykRabinDKG` -/
theorem import_export_gdkg (D : GDkg) (rest : Text) (h : D.wf) :
    importGDkg ⟨gdkgText D ++ rest, true⟩ = .ok (D, ⟨rest, true⟩) := by
  obtain ⟨hh, ly, lz, lv, hy, hz, hv, hb⟩ := h
  unfold importGDkg gdkgText
  simp only [List.append_assoc]
  rw [readHead_text D.head _ hh]
  simp only []
  rw [readMpzN_lines' _ _ _ ly hy]
  simp only []
  rw [readMpzN_lines' _ _ _ lz hz]
  simp only []
  rw [readMpzN_lines' _ _ _ lv hv]
  simp only []
  rw [readBlocks_text' _ _ _ _ rest hb rfl]
  simp [hh.1.2]

/-- `CanettiGennaroJareckiKrawczykRabinRVSS` (`zvss = false`) and `…ZVSS` (`zvss = true`) -/
theorem import_export_rvss (zvss : Bool) (R : Rvss) (rest : Text) (h : R.wf zvss) :
    importRvss zvss ⟨rvssText zvss R ++ rest, true⟩ = .ok (R, ⟨rest, true⟩) := by
  obtain ⟨hg, hn, ht, hi, htp, hx, hz, hq, hb⟩ := h
  have h256 := maxPlayers
  obtain ⟨hx1, hx'⟩ := IntsOk.cons hx
  obtain ⟨hx2, hzz⟩ := IntsOk.cons hx'
  have hxx : IntsOk [R.x, R.xp] := by
    intro w hw
    simp only [List.mem_cons, List.not_mem_nil, or_false] at hw
    rcases hw with rfl | rfl
    · exact hx1
    · exact hx2
  unfold importRvss rvssText
  simp only [List.append_assoc]
  rw [readGrp4_text R.grp _ hg.1]
  simp only []
  have e4 : sizeLines [R.n, R.t, R.i, R.tp] = sizeLines [R.n, R.t, R.i] ++ sizeLine R.tp := by
    simp [sizeLines]
  rw [e4, List.append_assoc, readNti_lines R.n R.t R.i [] _ hn ht hi]
  simp only []
  rw [readSize_line 0 R.tp _ _ (by omega)]
  simp only []
  rw [if_neg (by omega), readMpzN_lines' 2 _ _ rfl hxx]
  simp only []
  cases zvss with
  | true =>
    obtain ⟨z0, zp0⟩ := hz rfl
    simp only [if_true, List.nil_append]
    obtain ⟨v', hv'⟩ := readQualBlock_lines R.n R.qual (dec R.tp) (blocksText R.blocks ++ rest) hn hq
    rw [List.append_assoc] at hv'
    rw [hv']
    simp only []
    rw [readBlocks_text' _ _ _ _ rest hb rfl]
    simp only [hg.2, if_false]
    cases R with
    | mk grp n t i tp x xp z zp qual blocks =>
      simp only at z0 zp0
      subst z0 zp0
      rfl
  | false =>
    simp only [Bool.false_eq_true, if_false]
    rw [readMpzN_lines' 2 _ _ rfl hzz]
    simp only []
    obtain ⟨v', hv'⟩ := readQualBlock_lines R.n R.qual (dec R.tp) (blocksText R.blocks ++ rest) hn hq
    rw [List.append_assoc] at hv'
    rw [hv']
    simp only []
    rw [readBlocks_text' _ _ _ _ rest hb rfl]
    simp [hg.2]

/-- `CanettiGennaroJareckiKrawczykRabinDKG` with the state of its `x_rvss` -/
theorem import_export_cdkg (D : CDkg) (rest : Text) (h : D.wf) :
    importCDkg ⟨cdkgText D ++ rest, true⟩ = .ok (D, ⟨rest, true⟩) := by
  unfold importCDkg cdkgText
  rw [List.append_assoc, readHead_text D.head _ h.1]
  simp only []
  rw [import_export_rvss false D.rvss rest h.2]
  simp [h.1.1.2]

/-- `CanettiGennaroJareckiKrawczykRabinDSS` with the state of its `dkg` -/
theorem import_export_dss (D : Dss) (rest : Text) (h : D.wf) :
    importDss ⟨dssText D ++ rest, true⟩ = .ok (D, ⟨rest, true⟩) := by
  unfold importDss dssText
  rw [List.append_assoc, readHead_text D.head _ h.1]
  simp only []
  rw [import_export_cdkg D.dkg rest h.2]
  simp [h.1.1.2]

/-! ### headline forms: a whole text, and the identical re-export -/

theorem ofText {α} (imp : Rd α) (t : Text) (x : α)
    (h : imp ⟨t ++ [], true⟩ = .ok (x, ⟨[], true⟩)) : imp (IStream.of t) = .ok (x, ⟨[], true⟩) := by
  rw [List.append_nil] at h; exact h

theorem import_export_vtmf' (pre : Bool) (G : VtmfGroup) (h : G.wf) :
    importVtmf pre (IStream.of (vtmfText G)) = .ok (G, ⟨[], true⟩) :=
  ofText _ _ _ (import_export_vtmf pre G [] h)
theorem import_export_qr' (esize : Nat) (G : VtmfGroup) (h : qrWf esize G) :
    importQr esize (IStream.of (vtmfText G)) = .ok (G, ⟨[], true⟩) :=
  ofText _ _ _ (import_export_qr esize G [] h)
theorem import_export_com' (C : PedCom) (h : C.wf) :
    importCom C.g.length (IStream.of (comText C)) = .ok (C, ⟨[], true⟩) :=
  ofText _ _ _ (import_export_com C [] h)
theorem import_export_trap' (C : PedTrap) (h : C.wf) :
    importTrap (IStream.of (trapText C)) = .ok (C, ⟨[], true⟩) :=
  ofText _ _ _ (import_export_trap C [] h)
theorem import_export_vrhe' (G : Grp4) (h : G.wf) :
    importVrhe (IStream.of (grp4Text G)) = .ok (G, ⟨[], true⟩) :=
  ofText _ _ _ (import_export_vrhe G [] h)
theorem import_export_eotp' (G : Grp3) (h : G.wf) :
    importEotp (IStream.of (eotpText G)) = .ok (G, ⟨[], true⟩) :=
  ofText _ _ _ (import_export_eotp G [] h)
theorem import_export_vsshe' (V : Vsshe) (h : V.wf) :
    importVsshe V.com.g.length (IStream.of (vssheText V)) = .ok (V, ⟨[], true⟩) :=
  ofText _ _ _ (import_export_vsshe V [] h)
theorem import_export_vss' (V : VssState) (h : V.wf) :
    importVss (IStream.of (vssText V)) = .ok (V, ⟨[], true⟩) :=
  ofText _ _ _ (import_export_vss V [] h)
theorem import_export_gdkg' (D : GDkg) (h : D.wf) :
    importGDkg (IStream.of (gdkgText D)) = .ok (D, ⟨[], true⟩) :=
  ofText _ _ _ (import_export_gdkg D [] h)
theorem import_export_rvss' (zvss : Bool) (R : Rvss) (h : R.wf zvss) :
    importRvss zvss (IStream.of (rvssText zvss R)) = .ok (R, ⟨[], true⟩) :=
  ofText _ _ _ (import_export_rvss zvss R [] h)
theorem import_export_cdkg' (D : CDkg) (h : D.wf) :
    importCDkg (IStream.of (cdkgText D)) = .ok (D, ⟨[], true⟩) :=
  ofText _ _ _ (import_export_cdkg D [] h)
theorem import_export_dss' (D : Dss) (h : D.wf) :
    importDss (IStream.of (dssText D)) = .ok (D, ⟨[], true⟩) :=
  ofText _ _ _ (import_export_dss D [] h)

/-- the text exported by the imported object -/
def reexport {α} (imp : Rd α) (ex : α → Text) (t : Text) : Except Err Text :=
  match imp (IStream.of t) with
  | .ok (x, _) => .ok (ex x)
  | .error e => .error e

theorem reexport_of {α} (imp : Rd α) (ex : α → Text) (x : α) (s : IStream)
    (h : imp (IStream.of (ex x)) = .ok (x, s)) : reexport imp ex (ex x) = .ok (ex x) := by
  unfold reexport; rw [h]

theorem export_import_export_vtmf (pre : Bool) (G : VtmfGroup) (h : G.wf) :
    reexport (importVtmf pre) vtmfText (vtmfText G) = .ok (vtmfText G) :=
  reexport_of _ _ _ _ (import_export_vtmf' pre G h)
theorem export_import_export_qr (esize : Nat) (G : VtmfGroup) (h : qrWf esize G) :
    reexport (importQr esize) vtmfText (vtmfText G) = .ok (vtmfText G) :=
  reexport_of _ _ _ _ (import_export_qr' esize G h)
theorem export_import_export_com (C : PedCom) (h : C.wf) :
    reexport (importCom C.g.length) comText (comText C) = .ok (comText C) :=
  reexport_of _ _ _ _ (import_export_com' C h)
theorem export_import_export_trap (C : PedTrap) (h : C.wf) :
    reexport importTrap trapText (trapText C) = .ok (trapText C) :=
  reexport_of _ _ _ _ (import_export_trap' C h)
theorem export_import_export_vrhe (G : Grp4) (h : G.wf) :
    reexport importVrhe grp4Text (grp4Text G) = .ok (grp4Text G) :=
  reexport_of _ _ _ _ (import_export_vrhe' G h)
theorem export_import_export_eotp (G : Grp3) (h : G.wf) :
    reexport importEotp eotpText (eotpText G) = .ok (eotpText G) :=
  reexport_of _ _ _ _ (import_export_eotp' G h)
theorem export_import_export_vsshe (V : Vsshe) (h : V.wf) :
    reexport (importVsshe V.com.g.length) vssheText (vssheText V) = .ok (vssheText V) :=
  reexport_of _ _ _ _ (import_export_vsshe' V h)
theorem export_import_export_vss (V : VssState) (h : V.wf) :
    reexport importVss vssText (vssText V) = .ok (vssText V) :=
  reexport_of _ _ _ _ (import_export_vss' V h)
theorem export_import_export_gdkg (D : GDkg) (h : D.wf) :
    reexport importGDkg gdkgText (gdkgText D) = .ok (gdkgText D) :=
  reexport_of _ _ _ _ (import_export_gdkg' D h)
theorem export_import_export_rvss (zvss : Bool) (R : Rvss) (h : R.wf zvss) :
    reexport (importRvss zvss) (rvssText zvss) (rvssText zvss R) = .ok (rvssText zvss R) :=
  reexport_of _ _ _ _ (import_export_rvss' zvss R h)
theorem export_import_export_cdkg (D : CDkg) (h : D.wf) :
    reexport importCDkg cdkgText (cdkgText D) = .ok (cdkgText D) :=
  reexport_of _ _ _ _ (import_export_cdkg' D h)
theorem export_import_export_dss (D : Dss) (h : D.wf) :
    reexport importDss dssText (dssText D) = .ok (dssText D) :=
  reexport_of _ _ _ _ (import_export_dss' D h)

/-- the published verification keys of the key generation state are themselves an importable state:
    the public part of the object -/
theorem GDkg.publicPart_wf (D : GDkg) (h : D.wf) : D.publicPart.wf := by
  obtain ⟨hh, ly, lz, lv, hy, hz, hv, hb⟩ := h
  obtain ⟨hg, hn, ht, hi, hx, hq⟩ := hh
  have i0 : IntOk 0 := by decide
  have i1 : IntOk 1 := by decide
  refine ⟨⟨hg, hn, ht, hi, ?_, hq⟩, by simpa [GDkg.publicPart] using ly,
    by simpa [GDkg.publicPart] using lz, lv, ?_, ?_, hv, ?_⟩
  · intro z hz'
    simp only [GDkg.publicPart, List.mem_cons, List.not_mem_nil, or_false] at hz'
    rcases hz' with rfl | rfl | rfl
    · exact i0
    · exact i0
    · exact hx _ (by simp)
  · intro z hz'
    simp only [GDkg.publicPart, List.mem_map] at hz'
    obtain ⟨_, _, rfl⟩ := hz'
    exact i1
  · intro z hz'
    simp only [GDkg.publicPart, List.mem_map] at hz'
    obtain ⟨_, _, rfl⟩ := hz'
    exact i0
  · refine ⟨by simpa [GDkg.publicPart] using hb.1, ?_⟩
    intro b hb'
    simp only [GDkg.publicPart, List.mem_map] at hb'
    obtain ⟨b0, hb0, rfl⟩ := hb'
    obtain ⟨h1, h2, h3, h4⟩ := hb.2 b0 hb0
    refine ⟨by simp only [List.length_map]; exact h1, h2, ?_, h4⟩
    intro z hz'
    have : z = 0 := by
      simp only [unpair, List.mem_flatMap, List.mem_map] at hz'
      obtain ⟨e, ⟨_, _, rfl⟩, he⟩ := hz'
      simp only [List.mem_cons, List.not_mem_nil, or_false, or_self] at he
      exact he
    rw [this]; exact i0

theorem import_export_gdkg_keys (D : GDkg) (h : D.wf) :
    importGDkg (IStream.of (gdkgKeysText D)) = .ok (D.publicPart, ⟨[], true⟩) :=
  import_export_gdkg' D.publicPart (GDkg.publicPart_wf D h)

/-! ### QR-encoded cards -/

theorem bar_notMem_s62 (z : Int) : '|' ∉ s62 z := bar_notMem_str62 z
theorem hat_notMem_s62 (z : Int) : '^' ∉ s62 z := hat_notMem_str62 z

theorem bar_notMem_dec (n : Nat) : '|' ∉ dec n := by
  unfold dec
  rw [toString_toList]
  intro hmem
  obtain ⟨d, hd, hc⟩ := (toDigits10_spec n).1 _ hmem
  exact (digitChar_facts d hd).2.2.2.1 hc.symm

theorem hat_notMem_dec (n : Nat) : '^' ∉ dec n := hat_notMem_toString n

theorem intField_s62 (v : Int) (rest : Text) : intField (s62 v ++ '|' :: rest) = some (v, rest) := by
  unfold intField
  rw [gs_split _ _ _ (bar_notMem_s62 v), nx_split _ _ _ (bar_notMem_s62 v)]
  simp [p62_s62]

theorem barred_cons (v : Int) (l : List Int) : barred (v :: l) = s62 v ++ '|' :: barred l := by
  simp [barred]

theorem intFields_barred : ∀ (l : List Int) (rest : Text),
    intFields l.length (barred l ++ rest) = some (l, rest) := by
  intro l
  induction l with
  | nil => intro rest; simp [intFields, barred]
  | cons v l ih =>
    intro rest
    simp only [List.length_cons, intFields, barred_cons, List.append_assoc, List.cons_append]
    rw [intField_s62]
    simp only []
    rw [ih rest]

theorem intFields_barred' (n : Nat) (l : List Int) (hn : l.length = n) :
    intFields n (barred l) = some (l, []) := by
  subst hn
  have := intFields_barred l []
  rwa [List.append_nil] at this

theorem dimField_dec (k max : Nat) (rest : Text) (h1 : 1 ≤ k) (h2 : k ≤ max) (h3 : max < 2 ^ 64) :
    dimField (dec k ++ '|' :: rest) max = some (k, rest) := by
  unfold dimField
  rw [gs_split _ _ _ (bar_notMem_dec k), nx_split _ _ _ (bar_notMem_dec k)]
  have : strtoulFull (dec k) = some k := strtoulFull_toString k (by omega)
  simp only [this]
  rw [if_neg (by omega)]

theorem tcardText_eq (c : TCard) : tcardText c =
    "crd".toList ++ '|' :: (dec c.k ++ '|' :: (dec c.w ++ '|' :: barred c.z)) := by
  simp [tcardText, txt]

/-- `TMCG_Card`: import (export c) = c for all dimensions 1..32 × 1..10 and all values -/
theorem import_export_tcard (c : TCard) (h : c.wf) : importTCard (tcardText c) = some c := by
  obtain ⟨k1, k2, w1, w2, hl⟩ := h
  have hP : Gen.TMCG_MAX_PLAYERS = 32 := rfl
  have hT : Gen.TMCG_MAX_TYPEBITS = 10 := rfl
  rw [tcardText_eq]
  unfold importTCard
  rw [cm_split "crd" _ '|' (by decide)]
  simp only []
  rw [dimField_dec c.k _ _ k1 k2 (by omega)]
  simp only []
  rw [dimField_dec c.w _ _ w1 w2 (by omega)]
  simp only []
  rw [intFields_barred' _ _ hl]

theorem tsecretText_eq (c : TSecret) : tsecretText c =
    "crs".toList ++ '|' :: (dec c.k ++ '|' :: (dec c.w ++ '|' :: barred (unpair c.rb))) := by
  simp [tsecretText, txt]

/-- `TMCG_CardSecret` -/
theorem import_export_tsecret (c : TSecret) (h : c.wf) : importTSecret (tsecretText c) = some c := by
  obtain ⟨k1, k2, w1, w2, hl⟩ := h
  have hP : Gen.TMCG_MAX_PLAYERS = 32 := rfl
  have hT : Gen.TMCG_MAX_TYPEBITS = 10 := rfl
  rw [tsecretText_eq]
  unfold importTSecret
  rw [cm_split "crs" _ '|' (by decide)]
  simp only []
  rw [dimField_dec c.k _ _ k1 k2 (by omega)]
  simp only []
  rw [dimField_dec c.w _ _ w1 w2 (by omega)]
  simp only []
  rw [intFields_barred' _ _ (by rw [unpair_length, hl])]
  simp [pairUp_unpair]

theorem hat_notMem_barred (l : List Int) : '^' ∉ barred l := by
  induction l with
  | nil => simp [barred]
  | cons v l ih =>
    rw [barred_cons]
    have := hat_notMem_s62 v
    simp [this, ih]

theorem hat_notMem_tcardText (c : TCard) : '^' ∉ tcardText c := by
  rw [tcardText_eq]
  have h1 := hat_notMem_dec c.k
  have h2 := hat_notMem_dec c.w
  have h3 := hat_notMem_barred c.z
  simp [h1, h2, h3]

theorem hat_notMem_tsecretText (c : TSecret) : '^' ∉ tsecretText c := by
  rw [tsecretText_eq]
  have h1 := hat_notMem_dec c.k
  have h2 := hat_notMem_dec c.w
  have h3 := hat_notMem_barred (unpair c.rb)
  simp [h1, h2, h3]

/-! ### stacks and stack secrets over any card type -/

section generic
variable {α : Type} (imp : Text → Option α) (ct : α → Text) (P : α → Prop)

theorem stackGo_text (himp : ∀ c, P c → imp (ct c) = some c) (hhat : ∀ c, '^' ∉ ct c) :
    ∀ (s : List α) (rest : Text), (∀ c ∈ s, P c) →
      stackGo imp s.length (s.flatMap (fun c => ct c ++ ['^']) ++ rest) = some s := by
  intro s
  induction s with
  | nil => intro rest _; simp [stackGo]
  | cons c s ih =>
    intro rest h
    simp only [List.length_cons, stackGo, List.flatMap_cons, List.append_assoc,
      List.cons_append, List.nil_append]
    rw [gs_split _ _ _ (hhat c), nx_split _ _ _ (hhat c)]
    simp only []
    rw [himp c (h c (by simp))]
    simp only []
    rw [ih rest (fun x hx => h x (by simp [hx]))]

/-- stacks of every admissible size 1 … TMCG_MAX_CARDS round-trip into a fresh stack -/
theorem importStackG_text (himp : ∀ c, P c → imp (ct c) = some c) (hhat : ∀ c, '^' ∉ ct c)
    (s : List α) (h0 : 0 < s.length) (hmax : s.length ≤ Gen.TMCG_MAX_CARDS) (hP : ∀ c ∈ s, P c) :
    importStackG imp (stackTextG ct s) = some s := by
  have hM : Gen.TMCG_MAX_CARDS = 512 := rfl
  have e : stackTextG ct s =
      "stk".toList ++ '^' :: (dec s.length ++ '^' :: (s.flatMap (fun c => ct c ++ ['^']) ++ [])) := by
    simp [stackTextG, txt]
  rw [e]
  unfold importStackG
  rw [cm_split "stk" _ '^' (by decide)]
  simp only []
  rw [gs_split _ _ _ (hat_notMem_dec _), nx_split _ _ _ (hat_notMem_dec _)]
  have : strtoulFull (dec s.length) = some s.length := strtoulFull_toString _ (by omega)
  simp only [this]
  rw [if_neg (by omega)]
  exact stackGo_text imp ct P himp hhat s [] hP

theorem stsGo_text (himp : ∀ c, P c → imp (ct c) = some c) (hhat : ∀ c, '^' ∉ ct c)
    (n : Nat) (hn : n < 2 ^ 64) :
    ∀ (s : List (Nat × α)) (rest : Text), (∀ e ∈ s, e.1 < n ∧ P e.2) →
      stsGo imp n s.length (s.flatMap (fun e => dec e.1 ++ '^' :: (ct e.2 ++ ['^'])) ++ rest) = some s := by
  intro s
  induction s with
  | nil => intro rest _; simp [stsGo]
  | cons e s ih =>
    intro rest h
    obtain ⟨h1, h2⟩ := h e (by simp)
    simp only [List.length_cons, stsGo, List.flatMap_cons, List.append_assoc,
      List.cons_append, List.nil_append]
    rw [gs_split _ _ _ (hat_notMem_dec _), nx_split _ _ _ (hat_notMem_dec _)]
    have : strtoulFull (dec e.1) = some e.1 := strtoulFull_toString _ (by omega)
    simp only [this]
    rw [if_neg (by omega)]
    rw [gs_split _ _ _ (hhat e.2), nx_split _ _ _ (hhat e.2)]
    simp only []
    rw [himp e.2 h2]
    simp only []
    rw [ih rest (fun x hx => h x (by simp [hx]))]

/-- stack secrets whose index component is a permutation round-trip -/
theorem importStackSecretG_text (himp : ∀ c, P c → imp (ct c) = some c) (hhat : ∀ c, '^' ∉ ct c)
    (s : List (Nat × α)) (h0 : 0 < s.length) (hmax : s.length ≤ Gen.TMCG_MAX_CARDS)
    (hperm : (s.map Prod.fst).Perm (List.range s.length)) (hP : ∀ e ∈ s, P e.2) :
    importStackSecretG imp (stackSecretTextG ct s) = some s := by
  have hM : Gen.TMCG_MAX_CARDS = 512 := rfl
  have hlt : ∀ e ∈ s, e.1 < s.length ∧ P e.2 := by
    intro e he
    exact ⟨List.mem_range.1 (hperm.mem_iff.1 (List.mem_map_of_mem he)), hP e he⟩
  have hall : (List.range s.length).all (fun i => (s.map Prod.fst).contains i) = true := by
    rw [List.all_eq_true]
    intro i hi
    rw [List.contains_iff_mem]
    exact hperm.mem_iff.2 hi
  have e : stackSecretTextG ct s = "sts".toList ++ '^' :: (dec s.length ++ '^' ::
      (s.flatMap (fun e => dec e.1 ++ '^' :: (ct e.2 ++ ['^'])) ++ [])) := by
    simp [stackSecretTextG, txt]
  rw [e]
  unfold importStackSecretG
  rw [cm_split "sts" _ '^' (by decide)]
  simp only []
  rw [gs_split _ _ _ (hat_notMem_dec _), nx_split _ _ _ (hat_notMem_dec _)]
  have : strtoulFull (dec s.length) = some s.length := strtoulFull_toString _ (by omega)
  simp only [this]
  rw [if_neg (by omega)]
  rw [stsGo_text imp ct P himp hhat s.length (by omega) s [] hlt]
  simp only [hall, if_true]

end generic

/-- `TMCG_Stack<TMCG_Card>`: cards of any (also mixed) dimensions -/
theorem import_export_tstack (s : List TCard) (h0 : 0 < s.length) (hmax : s.length ≤ Gen.TMCG_MAX_CARDS)
    (hwf : ∀ c ∈ s, c.wf) : importTStack (tstackText s) = some s :=
  importStackG_text importTCard tcardText TCard.wf import_export_tcard hat_notMem_tcardText s h0 hmax hwf

/-- `TMCG_StackSecret<TMCG_CardSecret>` -/
theorem import_export_tsts (s : List (Nat × TSecret)) (h0 : 0 < s.length)
    (hmax : s.length ≤ Gen.TMCG_MAX_CARDS) (hperm : (s.map Prod.fst).Perm (List.range s.length))
    (hwf : ∀ e ∈ s, e.2.wf) : importTSts (tstsText s) = some s :=
  importStackSecretG_text importTSecret tsecretText TSecret.wf import_export_tsecret
    hat_notMem_tsecretText s h0 hmax hperm hwf

theorem export_import_export_tcard (c : TCard) (h : c.wf) :
    (importTCard (tcardText c)).map tcardText = some (tcardText c) := by
  rw [import_export_tcard c h]; rfl
theorem export_import_export_tsecret (c : TSecret) (h : c.wf) :
    (importTSecret (tsecretText c)).map tsecretText = some (tsecretText c) := by
  rw [import_export_tsecret c h]; rfl
theorem export_import_export_tstack (s : List TCard) (h0 : 0 < s.length)
    (hmax : s.length ≤ Gen.TMCG_MAX_CARDS) (hwf : ∀ c ∈ s, c.wf) :
    (importTStack (tstackText s)).map tstackText = some (tstackText s) := by
  rw [import_export_tstack s h0 hmax hwf]; rfl
theorem export_import_export_tsts (s : List (Nat × TSecret)) (h0 : 0 < s.length)
    (hmax : s.length ≤ Gen.TMCG_MAX_CARDS) (hperm : (s.map Prod.fst).Perm (List.range s.length))
    (hwf : ∀ e ∈ s, e.2.wf) : (importTSts (tstsText s)).map tstsText = some (tstsText s) := by
  rw [import_export_tsts s h0 hmax hperm hwf]; rfl

/-! ### keys -/

theorem rfield_split (f rest : Text) (h : '|' ∉ f) :
    Rabin.field (f ++ '|' :: rest) '|' = some (f, rest) := by
  simp [Rabin.field, gs_split _ _ _ h, nx_split _ _ _ h]

theorem rintField_split (v : Int) (rest : Text) :
    Rabin.intField (Rabin.str62 v ++ '|' :: rest) '|' = some (v, rest) := by
  unfold Rabin.intField
  rw [rfield_split _ _ (show '|' ∉ Rabin.str62 v from bar_notMem_str62 v)]
  have : Rabin.parse62 (Rabin.str62 v) = some v := p62_s62 v
  simp [this]

theorem pubText_eq (K : Rabin.PubKey) : Rabin.pubText K =
    "pub".toList ++ '|' :: (K.name ++ '|' :: (K.email ++ '|' :: (K.type ++ '|' ::
      (Rabin.str62 K.m ++ '|' :: (Rabin.str62 K.y ++ '|' :: (K.nizk ++ '|' :: K.sig)))))) := by
  simp [Rabin.pubText, Rabin.txt, Rabin.bar]

/-- `TMCG_PublicKey::import`: names, addresses, key types and proof texts with any characters except the
    separator; the signature may contain it -/
theorem import_export_pub (K : Rabin.PubKey) (h : pubFieldsOk K) :
    Rabin.importPub (Rabin.pubText K) = some K := by
  obtain ⟨h1, h2, h3, h4⟩ := h
  rw [pubText_eq]
  unfold Rabin.importPub
  rw [cm_split "pub" _ '|' (by decide)]
  simp only [Option.bind_eq_bind, Option.bind_some, rfield_split _ _ h1, rfield_split _ _ h2,
    rfield_split _ _ h3, rintField_split, rfield_split _ _ h4]

theorem secText_eq (K : Rabin.SecKey) : Rabin.secText K =
    "sec".toList ++ '|' :: (K.name ++ '|' :: (K.email ++ '|' :: (K.type ++ '|' ::
      (Rabin.str62 K.m ++ '|' :: (Rabin.str62 K.y ++ '|' :: (Rabin.str62 K.p ++ '|' ::
        (Rabin.str62 K.q ++ '|' :: (K.nizk ++ '|' :: K.sig)))))))) := by
  simp [Rabin.secText, Rabin.txt, Rabin.bar]

/-- `TMCG_SecretKey::import` (text and `precompute`) -/
theorem import_export_sec (K : Rabin.SecKey) (h : secFieldsOk K) :
    importSecFull (Rabin.secText K) = some K := by
  obtain ⟨h1, h2, h3, h4, h5⟩ := h
  have hs : Rabin.importSec (Rabin.secText K) = some K := by
    rw [secText_eq]
    unfold Rabin.importSec
    rw [cm_split "sec" _ '|' (by decide)]
    simp only [Option.bind_eq_bind, Option.bind_some, rfield_split _ _ h1, rfield_split _ _ h2,
      rfield_split _ _ h3, rintField_split, rfield_split _ _ h4]
  unfold importSecFull
  rw [hs]
  obtain ⟨pre, hpre⟩ := Option.isSome_iff_exists.1 h5
  simp [hpre]

theorem cstr_id (t : Text) (h : Char.ofNat 0 ∉ t) : cstr t = t :=
  takeWhile_nul (fun _ hc e => h (e ▸ hc))

/-- `operator >> (std::istream&, TMCG_PublicKey&)` on a line of a stream -/
theorem readPub_line (K : Rabin.PubKey) (rest : Text) (h : pubLineOk K) :
    readPub ⟨Rabin.pubText K ++ nl :: rest, true⟩ = (some K, ⟨rest, true⟩) := by
  obtain ⟨hf, hnl, hnul, hlen⟩ := h
  unfold readPub
  rw [getlineBuf_line _ _ _ hnl hlen]
  simp only []
  rw [cstr_id _ hnul, import_export_pub K hf]

/-- a key ring written key by key, one per line, is read back key by key -/
theorem readRing_text : ∀ (ks : List Rabin.PubKey) (rest : Text), (∀ K ∈ ks, pubLineOk K) →
    readRing ks.length ⟨ringText ks ++ rest, true⟩ = some ks := by
  intro ks
  induction ks with
  | nil => intro rest _; simp [readRing]
  | cons K ks ih =>
    intro rest h
    have e : ringText (K :: ks) = Rabin.pubText K ++ nl :: ringText ks := by simp [ringText]
    simp only [List.length_cons, readRing, e, List.append_assoc, List.cons_append]
    rw [readPub_line K _ (h K (by simp))]
    simp only []
    rw [ih rest (fun x hx => h x (by simp [hx]))]

theorem export_import_export_pub (K : Rabin.PubKey) (h : pubFieldsOk K) :
    (Rabin.importPub (Rabin.pubText K)).map Rabin.pubText = some (Rabin.pubText K) := by
  rw [import_export_pub K h]; rfl
theorem export_import_export_sec (K : Rabin.SecKey) (h : secFieldsOk K) :
    (importSecFull (Rabin.secText K)).map Rabin.secText = some (Rabin.secText K) := by
  rw [import_export_sec K h]; rfl

/-! ### what the importers refuse, and what is lossy -/

/-- an exported stack of inadmissible size (empty, or beyond `TMCG_MAX_CARDS`) is refused -/
theorem importStackG_refuses_size {α} (imp : Text → Option α) (ct : α → Text) (s : List α)
    (h : s.length = 0 ∨ Gen.TMCG_MAX_CARDS < s.length) : importStackG imp (stackTextG ct s) = none := by
  have hM : Gen.TMCG_MAX_CARDS = 512 := rfl
  have hW : W64 = 18446744073709551616 := by norm_num [W64]
  have e : stackTextG ct s =
      "stk".toList ++ '^' :: (dec s.length ++ '^' :: (s.flatMap (fun c => ct c ++ ['^']) ++ [])) := by
    simp [stackTextG, txt]
  rw [e]
  unfold importStackG
  rw [cm_split "stk" _ '^' (by decide)]
  simp only []
  rw [gs_split _ _ _ (hat_notMem_dec _)]
  have : strtoulFull (dec s.length) = some (if s.length ≥ W64 then W64 - 1 else s.length) :=
    strtoulFull_toString_sat _
  simp only [this]
  rw [if_pos (by split <;> omega)]

/-- a persisted state with more than `TMCG_MAX_DKG_PLAYERS` parties is refused by the constructor -/
theorem importVss_refuses_n (V : VssState) (rest : Text) (hg : IntsOk [V.grp.p, V.grp.q, V.grp.g, V.grp.h])
    (hn : Gen.TMCG_MAX_DKG_PLAYERS < V.n) (h64 : V.n < 2 ^ 64) :
    importVss ⟨vssText V ++ rest, true⟩ = .error .invalidArgument := by
  unfold importVss vssText
  simp only [List.append_assoc]
  rw [readGrp4_text V.grp _ hg]
  simp only []
  unfold readNti
  simp only [sizeLines_cons, List.append_assoc]
  rw [readSize_line 0 V.n [] _ h64]
  simp only []
  rw [if_pos hn]

/-- the separator inside a name is not escaped by the exporter: the importer reads another key -/
example : Rabin.importPub (Rabin.pubText ⟨"a|b".toList, [], "7".toList, 1, 2, [], []⟩) =
    some ⟨"a".toList, "b".toList, [], 7, 1, "2".toList, "|".toList⟩ := by decide

/-! ### non-vacuity -/

example : importTCard (tcardText ⟨2, 1, [-3843, 0]⟩) = some ⟨2, 1, [-3843, 0]⟩ ∧
    tcardText ⟨2, 1, [-3843, 0]⟩ = "crd|2|1|-zz|0|".toList := by decide

example : importVss (IStream.of (vssText ⟨⟨7, 3, 2, 4⟩, 2, 1, 0, 5, -6, [1, 2], [3, 4], [5, 62]⟩)) =
    .ok (⟨⟨7, 3, 2, 4⟩, 2, 1, 0, 5, -6, [1, 2], [3, 4], [5, 62]⟩, ⟨[], true⟩) := by decide

end Tmcg.Io2
