import Tmcg.Model.Rng
import TmcgProofs.Rng
import Mathlib.Data.List.Perm.Basic
import Mathlib.Data.List.Nodup
import Mathlib.Data.Nat.Factorial.Basic
import Mathlib.Data.Fintype.BigOperators
/-
  Fisher–Yates / rotation lemmas for Tmcg/Model/Rng.lean (C02, C07).
  `fyDraws n ds` is the deterministic core of `random_permutation_fast`: the swaps with the
  already reduced draws `ds` (`ds[i] < n - i`).
-/
namespace Tmcg.Rng

/-- the swap loop with explicit draws, starting at position `i` -/
def fyPure : Nat → List Nat → List Nat → List Nat
  | _, pi, [] => pi
  | i, pi, d :: ds => fyPure (i + 1) (swap pi i (i + d)) ds

/-- `random_permutation_fast` as a function of its reduced draws -/
def fyDraws (n : Nat) (ds : List Nat) : List Nat := fyPure 0 (List.range n) ds

/-- a draw vector is valid for size `n`: length `n-1` and `ds[i] < n - i` -/
def ValidDraws (n : Nat) (ds : List Nat) : Prop :=
  ds.length = n - 1 ∧ ∀ i (h : i < ds.length), ds[i] < n - i

/-- the model's word-consuming loop computes `fyDraws` of the reduced accepted words:
    whenever `randomPermutationFast` succeeds, there is a valid draw vector producing its result -/
theorem randomPermutationFast_eq_fyDraws (n : Nat) (hn : 1 ≤ n) (ws : List Nat) (pi rest : List Nat)
    (h : randomPermutationFast n ws = .ok (some (pi, rest))) :
    ∃ ds, ValidDraws n ds ∧ pi = fyDraws n ds := by
  sorry

/-- every result is a permutation of `0..n-1` -/
theorem fyDraws_perm (n : Nat) (ds : List Nat) (h : ValidDraws n ds) :
    (fyDraws n ds).Perm (List.range n) := by
  sorry

/-- different draw vectors give different arrangements -/
theorem fyDraws_injective (n : Nat) (ds ds' : List Nat) (h : ValidDraws n ds) (h' : ValidDraws n ds')
    (heq : fyDraws n ds = fyDraws n ds') : ds = ds' := by
  sorry

/-- every arrangement is reached: with injectivity, the `n!` equiprobable draw vectors are in
    bijection with the `n!` arrangements -/
theorem fyDraws_surjective (n : Nat) (hn : 1 ≤ n) (l : List Nat) (hl : l.Perm (List.range n)) :
    ∃ ds, ValidDraws n ds ∧ fyDraws n ds = l := by
  sorry

/-- the rotation generator: `pi[i] = (r+i) % n`, reported offset `o = (n-r) % n` -/
theorem randomRotation_spec (n : Nat) (ws : List Nat) (pi : List Nat) (o : Nat) (rest : List Nat)
    (h : randomRotation n ws = .ok (some (pi, o, rest))) :
    2 ≤ n ∧ pi.length = n ∧ o < n ∧ pi.Perm (List.range n) ∧
    ∀ i, i < n → pi[(o + i) % n]? = some i := by
  sorry

/-- the map accepted residue `r ↦ offset` is a bijection on `{0..n-1}`: uniform offsets -/
theorem rotation_offset_bijective (n : Nat) (hn : 0 < n) :
    Function.Bijective (fun r : Fin n => (⟨(n - r.val) % n, Nat.mod_lt _ hn⟩ : Fin n)) := by
  sorry

/-! ### big residues -/

/-- `tmcg_mpz_*randomm`: result in `[0, m)` for every byte string served -/
theorem randomm_range (m : Int) (hm : 0 < m) (bytes : List Nat) (v : Int)
    (h : randomm m bytes = .ok v) : 0 ≤ v ∧ v < m := by
  sorry

/-- big-endian value of `k` bytes is below `256^k` -/
theorem beBytes_lt (bs : List Nat) (hb : ∀ b ∈ bs, b < 256) : beBytes bs < 256 ^ bs.length := by
  sorry

/-- bias bound for reducing a uniform `B`-bit value modulo `m`: the numbers of raw values
    mapping to two residues differ by at most one -/
theorem residue_count_bias (m N v v' : Nat) (hm : 0 < m) (hv : v < m) (hv' : v' < m) :
    ((Finset.range N).filter (fun u => u % m = v)).card
      ≤ ((Finset.range N).filter (fun u => u % m = v')).card + 1 := by
  sorry

/-- and each residue is hit at least `N / m` times; with `N = 256^randommBytes m ≥ 2^64 · m`
    the relative bias is at most `2^-64` -/
theorem residue_count_lower (m N v : Nat) (hm : 0 < m) (hv : v < m) :
    N / m ≤ ((Finset.range N).filter (fun u => u % m = v)).card := by
  sorry

theorem randomm_space_large (m : Nat) (hm : 0 < m) :
    2 ^ 64 * m ≤ 256 ^ randommBytes (m : Int) := by
  sorry

/-- `tmcg_mpz_*randomb`: result below `2^size` -/
theorem randomb_range (size : Nat) (bytes : List Nat) (v : Nat) (h : randomb size bytes = .ok v) :
    v < 2 ^ size ∧ 0 < size := by
  sorry

end Tmcg.Rng
