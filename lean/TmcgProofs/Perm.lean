import Tmcg.Model.Rng
import TmcgProofs.Rng
import Mathlib.Data.List.Perm.Basic
import Mathlib.Data.List.Nodup
import Mathlib.Data.Nat.Factorial.Basic
import Mathlib.Data.Fintype.BigOperators
/-
  Fisher–Yates / rotation lemmas for Tmcg/Model/Rng.lean (C02, C07).
  `fyDraws n ds` is the deterministic core of `random_permutation_fast`: the swaps with the
  already reduced draws `ds` (`ds[i] < n - i`).
-/
namespace Tmcg.Rng

/-- the swap loop with explicit draws, starting at position `i` -/
def fyPure : Nat → List Nat → List Nat → List Nat
  | _, pi, [] => pi
  | i, pi, d :: ds => fyPure (i + 1) (swap pi i (i + d)) ds

/-- `random_permutation_fast` as a function of its reduced draws -/
def fyDraws (n : Nat) (ds : List Nat) : List Nat := fyPure 0 (List.range n) ds

/-- a draw vector is valid for size `n`: length `n-1` and `ds[i] < n - i` -/
def ValidDraws (n : Nat) (ds : List Nat) : Prop :=
  ds.length = n - 1 ∧ ∀ i (h : i < ds.length), ds[i] < n - i

/-! ### helper lemmas -/


theorem swap_length (l : List Nat) (i j : Nat) : (swap l i j).length = l.length := by
  simp [swap]

theorem getElem?_swap (l : List Nat) (i j k : Nat) (hi : i < l.length) (hj : j < l.length) :
    (swap l i j)[k]? = if k = j then l[i]? else if k = i then l[j]? else l[k]? := by
  unfold swap
  simp only [List.getElem?_set, List.length_set, List.getD_eq_getElem?_getD,
    List.getElem?_eq_getElem hi, List.getElem?_eq_getElem hj, Option.getD_some]
  by_cases h1 : k = j
  · subst h1; simp [hj]
  · by_cases h2 : k = i
    · subst h2; simp [hi, h1, Ne.symm h1]
    · simp [h1, h2, Ne.symm h1, Ne.symm h2]

theorem swap_perm (l : List Nat) (i j : Nat) (hi : i < l.length) (hj : j < l.length) :
    (swap l i j).Perm l := by
  by_cases hij : i = j
  · subst hij
    have : swap l i i = l := by
      apply List.ext_getElem?
      intro k
      rw [getElem?_swap l i i k hi hi]
      split_ifs with h <;> simp [h]
    rw [this]
  · rw [List.perm_iff_count]
    intro a
    unfold swap
    rw [List.count_set (by simpa using hj), List.count_set hi]
    simp only [List.getElem_set, if_neg hij, List.getD_eq_getElem?_getD,
      List.getElem?_eq_getElem hi, List.getElem?_eq_getElem hj, Option.getD_some]
    have h1 : (if l[i] == a then 1 else 0) ≤ l.count a := by
      split_ifs with h
      · have : l[i] = a := by simpa using h
        exact List.count_pos_iff.mpr (this ▸ List.getElem_mem hi)
      · exact Nat.zero_le _
    omega

theorem getElem?_swap_left (l : List Nat) (i j : Nat) (hi : i < l.length) (hj : j < l.length) :
    (swap l i j)[i]? = l[j]? := by
  rw [getElem?_swap l i j i hi hj]
  by_cases h : i = j
  · subst h; simp
  · simp [h]

theorem getElem?_swap_of_lt (l : List Nat) (i d k : Nat) (hk : k < i) :
    (swap l i (i + d))[k]? = l[k]? := by
  unfold swap
  rw [List.getElem?_set, List.getElem?_set]
  have h1 : i + d ≠ k := by omega
  have h2 : i ≠ k := by omega
  simp [h1, h2]

/-- draws `ds` are admissible from position `i` on for a list of length `len` -/
def DrawsOK (len : Nat) : Nat → List Nat → Prop
  | _, [] => True
  | i, d :: ds => d < len - i ∧ DrawsOK len (i + 1) ds

theorem drawsOK_of_forall (len : Nat) : ∀ (ds : List Nat) (i : Nat),
    (∀ k (h : k < ds.length), ds[k] < len - (i + k)) → DrawsOK len i ds
  | [], _, _ => trivial
  | d :: ds, i, h => by
    refine ⟨by have := h 0 (by simp); simpa using this, drawsOK_of_forall len ds (i + 1) ?_⟩
    intro k hk
    have := h (k + 1) (by simpa using hk)
    simp only [List.getElem_cons_succ] at this
    omega

theorem ValidDraws.drawsOK {n : Nat} {ds : List Nat} (h : ValidDraws n ds) : DrawsOK n 0 ds :=
  drawsOK_of_forall n ds 0 (by intro k hk; simpa using h.2 k hk)

theorem fyPure_length : ∀ (ds : List Nat) (i : Nat) (pi : List Nat),
    (fyPure i pi ds).length = pi.length
  | [], _, _ => rfl
  | d :: ds, i, pi => by
    rw [fyPure, fyPure_length ds, swap_length]

theorem fyPure_perm : ∀ (ds : List Nat) (i : Nat) (pi : List Nat),
    DrawsOK pi.length i ds → (fyPure i pi ds).Perm pi
  | [], _, _, _ => List.Perm.refl _
  | d :: ds, i, pi, h => by
    rw [fyPure]
    have hd : d < pi.length - i := h.1
    refine (fyPure_perm ds (i + 1) _ ?_).trans (swap_perm pi i (i + d) (by omega) (by omega))
    rw [swap_length]; exact h.2

theorem fyPure_getElem?_of_lt : ∀ (ds : List Nat) (i : Nat) (pi : List Nat) (k : Nat), k < i →
    (fyPure i pi ds)[k]? = pi[k]?
  | [], _, _, _, _ => rfl
  | d :: ds, i, pi, k, hk => by
    rw [fyPure, fyPure_getElem?_of_lt ds (i + 1) _ k (by omega), getElem?_swap_of_lt _ _ _ _ hk]

theorem fyPure_cons_getElem? (d : Nat) (ds : List Nat) (i : Nat) (pi : List Nat)
    (hd : d < pi.length - i) : (fyPure i pi (d :: ds))[i]? = pi[i + d]? := by
  rw [fyPure, fyPure_getElem?_of_lt ds (i + 1) _ i (by omega),
    getElem?_swap_left pi i (i + d) (by omega) (by omega)]

theorem fyPure_inj : ∀ (ds ds' : List Nat) (i : Nat) (pi : List Nat), pi.Nodup →
    ds.length = ds'.length → DrawsOK pi.length i ds → DrawsOK pi.length i ds' →
    fyPure i pi ds = fyPure i pi ds' → ds = ds'
  | [], [], _, _, _, _, _, _, _ => rfl
  | [], _ :: _, _, _, _, hl, _, _, _ => by simp at hl
  | _ :: _, [], _, _, _, hl, _, _, _ => by simp at hl
  | d :: ds, d' :: ds', i, pi, hnd, hl, h, h', heq => by
    have hd : d < pi.length - i := h.1
    have hd' : d' < pi.length - i := h'.1
    have e : pi[i + d]? = pi[i + d']? := by
      rw [← fyPure_cons_getElem? d ds i pi hd, ← fyPure_cons_getElem? d' ds' i pi hd', heq]
    have hlt : i + d < pi.length := by omega
    have hlt' : i + d' < pi.length := by omega
    rw [List.getElem?_eq_getElem hlt, List.getElem?_eq_getElem hlt', Option.some_inj] at e
    have hdd : d = d' := by
      have := (List.Nodup.getElem_inj_iff hnd).mp e
      omega
    subst hdd
    congr 1
    have hsw := swap_perm pi i (i + d) (by omega) hlt
    refine fyPure_inj ds ds' (i + 1) (swap pi i (i + d)) (hsw.nodup_iff.mpr hnd)
      (by simpa using hl) ?_ ?_ heq
    · rw [swap_length]; exact h.2
    · rw [swap_length]; exact h'.2



theorem forall_of_drawsOK (len : Nat) : ∀ (ds : List Nat) (i : Nat), DrawsOK len i ds →
    ∀ k (h : k < ds.length), ds[k] < len - (i + k)
  | [], _, _, k, h => by simp at h
  | d :: ds, i, hok, 0, _ => by simpa using hok.1
  | d :: ds, i, hok, k + 1, h => by
    have := forall_of_drawsOK len ds (i + 1) hok.2 k (by simpa using h)
    simp only [List.getElem_cons_succ]
    omega

/-- an arrangement agreeing with `pi` before `i` takes its `i`-th element from a position `≥ i` -/
theorem exists_index_ge (pi l : List Nat) (i : Nat) (hnd : pi.Nodup) (hp : l.Perm pi)
    (hi : i < pi.length) (hag : ∀ k, k < i → l[k]? = pi[k]?) :
    ∃ j, i ≤ j ∧ j < pi.length ∧ pi[j]? = l[i]? := by
  have hli : i < l.length := by rw [hp.length_eq]; exact hi
  have hmem : l[i] ∈ pi := hp.subset (List.getElem_mem hli)
  obtain ⟨j, hj, hje⟩ := List.getElem_of_mem hmem
  refine ⟨j, ?_, hj, ?_⟩
  · by_contra hlt
    have hlt : j < i := by omega
    have h1 := hag j hlt
    have hjl : j < l.length := by omega
    rw [List.getElem?_eq_getElem hjl, List.getElem?_eq_getElem hj, Option.some_inj] at h1
    have hlnd : l.Nodup := hp.nodup_iff.mpr hnd
    have : j = i := (List.Nodup.getElem_inj_iff hlnd).mp (h1.trans hje)
    omega
  · rw [List.getElem?_eq_getElem hj, List.getElem?_eq_getElem hli, hje]

theorem fyPure_surj : ∀ (m i : Nat) (pi l : List Nat), pi.Nodup → i + m + 1 = pi.length →
    l.Perm pi → (∀ k, k < i → l[k]? = pi[k]?) →
    ∃ ds, ds.length = m ∧ DrawsOK pi.length i ds ∧ fyPure i pi ds = l
  | 0, i, pi, l, hnd, hlen, hp, hag => by
    refine ⟨[], rfl, trivial, ?_⟩
    show pi = l
    apply List.ext_getElem?
    intro k
    by_cases hk : k < i
    · exact (hag k hk).symm
    · by_cases hk' : k = i
      · subst hk'
        obtain ⟨j, h1, h2, h3⟩ := exists_index_ge pi l k hnd hp (by omega) hag
        have : j = k := by omega
        subst this
        exact h3
      · have := hp.length_eq
        rw [List.getElem?_eq_none (by omega), List.getElem?_eq_none (by omega)]
  | m + 1, i, pi, l, hnd, hlen, hp, hag => by
    obtain ⟨j, h1, h2, h3⟩ := exists_index_ge pi l i hnd hp (by omega) hag
    obtain ⟨d, rfl⟩ : ∃ d, j = i + d := ⟨j - i, by omega⟩
    have hsw := swap_perm pi i (i + d) (by omega) h2
    obtain ⟨ds, hl, hok, he⟩ := fyPure_surj m (i + 1) (swap pi i (i + d)) l
      (hsw.nodup_iff.mpr hnd) (by rw [swap_length]; omega) (hp.trans hsw.symm) (by
        intro k hk
        by_cases hk' : k < i
        · rw [getElem?_swap_of_lt _ _ _ _ hk']; exact hag k hk'
        · have : k = i := by omega
          subst this
          rw [getElem?_swap_left pi k (k + d) (by omega) h2]; exact h3.symm)
    rw [swap_length] at hok
    exact ⟨d :: ds, by simp [hl], ⟨by omega, hok⟩, he⟩

theorem nomodbias_some (m : Nat) : ∀ (ws : List Nat) (u : Nat) (rest : List Nat),
    nomodbias m ws = .ok (some (u, rest)) → 2 ≤ m
  | [], u, rest, h => by
    unfold nomodbias at h
    split_ifs at h
    cases h
  | w :: ws, u, rest, h => by
    unfold nomodbias at h
    split_ifs at h with h1 h2
    · omega
    · exact nomodbias_some m ws u rest h

theorem randomMod_some (m : Nat) (ws : List Nat) (v : Nat) (rest : List Nat)
    (h : randomMod m ws = .ok (some (v, rest))) : 2 ≤ m ∧ v < m := by
  unfold randomMod at h
  split at h
  · cases h
  · cases h
  · rename_i u r hn
    have h2 := nomodbias_some m ws u r hn
    simp only [Except.ok.injEq, Option.some.injEq, Prod.mk.injEq] at h
    obtain ⟨rfl, rfl⟩ := h
    exact ⟨h2, Nat.mod_lt _ (by omega)⟩

theorem fyGo_spec (n : Nat) : ∀ (steps i : Nat) (pi ws res rest : List Nat),
    fyGo n steps i pi ws = .ok (some (res, rest)) →
    ∃ ds, ds.length = steps ∧ DrawsOK n i ds ∧ res = fyPure i pi ds
  | 0, i, pi, ws, res, rest, h => by
    simp only [fyGo, Except.ok.injEq, Option.some.injEq, Prod.mk.injEq] at h
    obtain ⟨rfl, rfl⟩ := h
    exact ⟨[], rfl, trivial, rfl⟩
  | steps + 1, i, pi, ws, res, rest, h => by
    rw [fyGo] at h
    split at h
    · cases h
    · cases h
    · rename_i d r hr
      have hd := (randomMod_some _ _ _ _ hr).2
      obtain ⟨ds, hl, hok, he⟩ := fyGo_spec n steps (i + 1) _ r res rest h
      exact ⟨d :: ds, by simp [hl], ⟨hd, hok⟩, he⟩

theorem mod_cases (a n : Nat) (h : a < 2 * n) : a % n = if a < n then a else a - n := by
  split_ifs with h1
  · exact Nat.mod_eq_of_lt h1
  · rw [Nat.mod_eq_sub_mod (by omega)]; exact Nat.mod_eq_of_lt (by omega)

theorem foldl_bytes_lt : ∀ (bs : List Nat) (acc : Nat), (∀ b ∈ bs, b < 256) →
    bs.foldl (fun acc b => acc * 256 + b) acc < (acc + 1) * 256 ^ bs.length
  | [], acc, _ => by simp
  | b :: bs, acc, hb => by
    have hb0 : b < 256 := hb b (by simp)
    have ih := foldl_bytes_lt bs (acc * 256 + b) (fun x hx => hb x (by simp [hx]))
    rw [List.foldl_cons, List.length_cons, pow_succ]
    calc _ < (acc * 256 + b + 1) * 256 ^ bs.length := ih
      _ ≤ ((acc + 1) * 256) * 256 ^ bs.length := Nat.mul_le_mul_right _ (by omega)
      _ = (acc + 1) * (256 ^ bs.length * 256) := by ring

theorem card_filter_mod (m N v : Nat) (hm : 0 < m) (hv : v < m) :
    ((Finset.range N).filter (fun u => u % m = v)).card
      = N / m + if v < N % m then 1 else 0 := by
  have hset : (Finset.range N).filter (fun u => u % m = v)
      = (Finset.range N).filter (fun u => u ≡ v [MOD m]) := by
    ext u
    simp [Nat.ModEq, Nat.mod_eq_of_lt hv]
  rw [hset, ← Nat.count_eq_card_filter_range, Nat.count_modEq_card N hm v, Nat.mod_eq_of_lt hv]

/-- the model's word-consuming loop computes `fyDraws` of the reduced accepted words:
    whenever `randomPermutationFast` succeeds, there is a valid draw vector producing its result -/
theorem randomPermutationFast_eq_fyDraws (n : Nat) (hn : 1 ≤ n) (ws : List Nat) (pi rest : List Nat)
    (h : randomPermutationFast n ws = .ok (some (pi, rest))) :
    ∃ ds, ValidDraws n ds ∧ pi = fyDraws n ds := by
  have _ := hn
  obtain ⟨ds, hl, hok, he⟩ := fyGo_spec n (n - 1) 0 (List.range n) ws pi rest h
  exact ⟨ds, ⟨hl, fun i hi => by simpa using forall_of_drawsOK n ds 0 hok i hi⟩, he⟩

/-- every result is a permutation of `0..n-1` -/
theorem fyDraws_perm (n : Nat) (ds : List Nat) (h : ValidDraws n ds) :
    (fyDraws n ds).Perm (List.range n) := by
  unfold fyDraws
  exact fyPure_perm ds 0 (List.range n) (by rw [List.length_range]; exact h.drawsOK)

/-- different draw vectors give different arrangements -/
theorem fyDraws_injective (n : Nat) (ds ds' : List Nat) (h : ValidDraws n ds) (h' : ValidDraws n ds')
    (heq : fyDraws n ds = fyDraws n ds') : ds = ds' := by
  exact fyPure_inj ds ds' 0 (List.range n) List.nodup_range (by rw [h.1, h'.1])
    (by rw [List.length_range]; exact h.drawsOK) (by rw [List.length_range]; exact h'.drawsOK) heq

/-- every arrangement is reached: with injectivity, the `n!` equiprobable draw vectors are in
    bijection with the `n!` arrangements -/
theorem fyDraws_surjective (n : Nat) (hn : 1 ≤ n) (l : List Nat) (hl : l.Perm (List.range n)) :
    ∃ ds, ValidDraws n ds ∧ fyDraws n ds = l := by
  obtain ⟨ds, hlen, hok, he⟩ := fyPure_surj (n - 1) 0 (List.range n) l List.nodup_range
    (by rw [List.length_range]; omega) hl (by intro k hk; omega)
  rw [List.length_range] at hok
  exact ⟨ds, ⟨hlen, fun i hi => by simpa using forall_of_drawsOK n ds 0 hok i hi⟩, he⟩

/-- the rotation generator: `pi[i] = (r+i) % n`, reported offset `o = (n-r) % n` -/
theorem randomRotation_spec (n : Nat) (ws : List Nat) (pi : List Nat) (o : Nat) (rest : List Nat)
    (h : randomRotation n ws = .ok (some (pi, o, rest))) :
    2 ≤ n ∧ pi.length = n ∧ o < n ∧ pi.Perm (List.range n) ∧
    ∀ i, i < n → pi[(o + i) % n]? = some i := by
  unfold randomRotation at h
  split at h
  · cases h
  · cases h
  · rename_i r rest' hr
    obtain ⟨hn2, hr'⟩ := randomMod_some _ _ _ _ hr
    simp only [Except.ok.injEq, Option.some.injEq, Prod.mk.injEq] at h
    obtain ⟨rfl, rfl, rfl⟩ := h
    have hnd : ((List.range n).map (fun i => (r + i) % n)).Nodup := by
      refine List.Nodup.map_on ?_ List.nodup_range
      intro a ha b hb hab
      rw [List.mem_range] at ha hb
      rw [mod_cases _ n (by omega), mod_cases _ n (by omega)] at hab
      split_ifs at hab <;> omega
    have hsub : (List.range n).map (fun i => (r + i) % n) ⊆ List.range n := by
      intro x hx
      rw [List.mem_map] at hx
      obtain ⟨a, _, rfl⟩ := hx
      exact List.mem_range.mpr (Nat.mod_lt _ (by omega))
    refine ⟨hn2, by simp, Nat.mod_lt _ (by omega),
      (List.subperm_of_subset hnd hsub).perm_of_length_le (by simp), ?_⟩
    intro i hi
    have h1 := mod_cases (n - r) n (by omega)
    generalize (n - r) % n = o at h1 ⊢
    have ho : o < n := by split_ifs at h1 <;> omega
    have h2 := mod_cases (o + i) n (by omega)
    generalize (o + i) % n = p at h2 ⊢
    have hp : p < n := by split_ifs at h2 <;> omega
    have h3 := mod_cases (r + p) n (by omega)
    rw [List.getElem?_map, List.getElem?_range hp, Option.map_some, h3]
    congr 1
    split_ifs at h1 h2 ⊢ <;> omega

/-- the map accepted residue `r ↦ offset` is a bijection on `{0..n-1}`: uniform offsets -/
theorem rotation_offset_bijective (n : Nat) (hn : 0 < n) :
    Function.Bijective (fun r : Fin n => (⟨(n - r.val) % n, Nat.mod_lt _ hn⟩ : Fin n)) := by
  apply Function.Involutive.bijective
  intro r
  apply Fin.ext
  simp only
  have hr := r.isLt
  have h1 := mod_cases (n - r.val) n (by omega)
  generalize (n - r.val) % n = o at h1 ⊢
  have ho : o ≤ n := by split_ifs at h1 <;> omega
  rw [mod_cases (n - o) n (by omega)]
  split_ifs at h1 ⊢ <;> omega

/-! ### big residues -/

/-- `tmcg_mpz_*randomm`: result in `[0, m)` for every byte string served -/
theorem randomm_range (m : Int) (hm : 0 < m) (bytes : List Nat) (v : Int)
    (h : randomm m bytes = .ok v) : 0 ≤ v ∧ v < m := by
  unfold randomm mpzMod at h
  rw [if_neg (by omega)] at h
  injection h with h
  subst h
  exact ⟨Int.emod_nonneg _ (by omega), Int.emod_lt_of_pos _ hm⟩

/-- big-endian value of `k` bytes is below `256^k` -/
theorem beBytes_lt (bs : List Nat) (hb : ∀ b ∈ bs, b < 256) : beBytes bs < 256 ^ bs.length := by
  simpa [beBytes] using foldl_bytes_lt bs 0 hb

/-- bias bound for reducing a uniform `B`-bit value modulo `m`: the numbers of raw values
    mapping to two residues differ by at most one -/
theorem residue_count_bias (m N v v' : Nat) (hm : 0 < m) (hv : v < m) (hv' : v' < m) :
    ((Finset.range N).filter (fun u => u % m = v)).card
      ≤ ((Finset.range N).filter (fun u => u % m = v')).card + 1 := by
  rw [card_filter_mod m N v hm hv, card_filter_mod m N v' hm hv']
  split_ifs <;> omega

/-- and each residue is hit at least `N / m` times; with `N = 256^randommBytes m ≥ 2^64 · m`
    the relative bias is at most `2^-64` -/
theorem residue_count_lower (m N v : Nat) (hm : 0 < m) (hv : v < m) :
    N / m ≤ ((Finset.range N).filter (fun u => u % m = v)).card := by
  rw [card_filter_mod m N v hm hv]
  omega

theorem randomm_space_large (m : Nat) (hm : 0 < m) :
    2 ^ 64 * m ≤ 256 ^ randommBytes (m : Int) := by
  unfold randommBytes bitlen
  simp only [Int.natAbs_natCast]
  rw [if_neg (by omega)]
  have h1 : m < 2 ^ (m.log2 + 1) := Nat.lt_log2_self
  have h256 : (256 : Nat) = 2 ^ 8 := by norm_num
  rw [h256, ← pow_mul]
  calc 2 ^ 64 * m ≤ 2 ^ 64 * 2 ^ (m.log2 + 1) := Nat.mul_le_mul_left _ h1.le
    _ = 2 ^ (64 + (m.log2 + 1)) := (pow_add _ _ _).symm
    _ ≤ 2 ^ (8 * ((m.log2 + 1 + 64 + 7) / 8)) := Nat.pow_le_pow_right (by norm_num) (by omega)

/-- `tmcg_mpz_*randomb`: result below `2^size` -/
theorem randomb_range (size : Nat) (bytes : List Nat) (v : Nat) (h : randomb size bytes = .ok v) :
    v < 2 ^ size ∧ 0 < size := by
  unfold randomb at h
  split_ifs at h with h0
  injection h with h
  subst h
  exact ⟨Nat.mod_lt _ (by positivity), by omega⟩

end Tmcg.Rng
