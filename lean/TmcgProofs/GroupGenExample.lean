import Tmcg.Model.GroupGen
/-
  C06, first clause — a concrete run of the safe-prime constructor BarnettSmartVTMF_dlog_GroupQR(15, 8), evaluated in
  the kernel (the sieve over 668 primes makes this the one expensive example; it lives here so that
  TmcgProps/C06Gen.lean stays cheap).
-/
namespace Tmcg.GroupGenProofs
open Tmcg Tmcg.Rabin Tmcg.RabinGen Tmcg.PrimeGen Tmcg.GroupCheck Tmcg.GroupGen

/-- the constructor model returned exactly `P` and used all coins -/
def sameOk (r : Except Err (Params × Coins)) (P : Params) : Bool :=
  match r with
  | .ok (Q, rest) => Q.p == P.p && Q.q == P.q && Q.k == P.k && Q.g == P.g && Q.h == P.h && Q.gs == P.gs && rest.isEmpty
  | .error _ => false

/-- the coin 0x29c1 = 10689: the incremental search stops at q = 10691, p = 21383 ≡ 7 (mod 8); g = 2^(2^7) mod p -/
theorem qrGen_example :
    sameOk (qrGen (fun n _ => n == 10691 || n == 21383) 15 8 1 [[41, 193]]) ⟨21383, 10691, 2, 16783, 1, []⟩ = true := by
  decide +kernel

end Tmcg.GroupGenProofs
