import TmcgProofs.ArgsGrothAlg
import TmcgProofs.ArgsVrhe
/-
  C03 for Groth's shuffle argument, part 2: the shuffle of known content (`GrothSKC`): the reduced
  products and the `F` recursion of the code in `ZMod q`, the prover's moves, and the verifier's
  equations on the honest prover's values.
-/
namespace Tmcg.Args
open Tmcg Tmcg.Powm Tmcg.Vtmf Tmcg.Grp Tmcg.Sigma Tmcg.SigmaComplete
variable {G : Group} [Fact (Nat.Prime G.p.natAbs)] [Fact (Nat.Prime G.q.natAbs)]
set_option linter.unusedVariables false
set_option linter.unusedSectionVars false

/-! ### the reduced products and the `F` recursion of the code, in `ZMod q` -/

theorem foldl_range_mulmod (hG : ValidGroup G) (g : ℕ → ℤ) : ∀ (k : ℕ) (a : ℤ),
    toQ G ((List.range k).foldl (fun acc j => acc * (g j % G.q) % G.q) a) =
      toQ G a * ∏ j ∈ Finset.range k, toQ G (g j)
  | 0, a => by simp
  | k+1, a => by
    rw [List.range_succ, List.foldl_append, List.foldl_cons, List.foldl_nil, toQ_emod hG, toQ_mul,
      toQ_emod hG, foldl_range_mulmod hG g k a, Finset.prod_range_succ]
    ring

theorem foldl_list_mulmod (hG : ValidGroup G) (g : ℤ → ℤ) : ∀ (l : List ℤ) (a : ℤ),
    toQ G (l.foldl (fun acc mi => acc * (g mi % G.q) % G.q) a) =
      toQ G a * (l.map fun mi => toQ G (g mi)).prod
  | [], a => by simp
  | x :: l, a => by
    rw [List.foldl_cons, foldl_list_mulmod hG g l, toQ_emod hG, toQ_mul, toQ_emod hG, List.map_cons,
      List.prod_cons]
    ring

theorem skcA_val (hG : ValidGroup G) (x : ℤ) (mp : List ℤ) (i : ℕ) (hi : i < mp.length) :
    toQ G ((skcA G.q x mp).getD i 0) =
      ∏ j ∈ Finset.range (i + 1), (toQ G (mp.getD j 0) - toQ G x) := by
  unfold skcA
  rw [getD_map_range _ _ _ _ hi, foldl_range_mulmod hG (fun j => mp.getD j 0 - x), toQ_one, one_mul]
  apply Finset.prod_congr rfl
  intro j _
  rw [toQ_sub]

/-- the `F` recursion of the code after `k + 1` steps -/
theorem skcF_fold (hG : ValidGroup G) (e x einv : ℤ) (f fD : List ℤ)
    (hinv : toQ G einv = (toQ G e)⁻¹) : ∀ k : ℕ,
    toQ G ((List.range (k + 1)).foldl (fun F i =>
      let b := (f.getD i 0 - e * x % G.q) % G.q * F % G.q
      if i > 0 then (b + fD.getD (i - 1) 0) % G.q * einv % G.q else b) 1) =
      Frec (toQ G e) (toQ G x) (fun i => toQ G (f.getD i 0)) (fun i => toQ G (fD.getD i 0)) k
  | 0 => by
    simp only [List.range_succ, List.range_zero, List.nil_append, List.foldl_cons, List.foldl_nil,
      Nat.lt_irrefl, if_false, gt_iff_lt, Frec]
    rw [toQ_emod hG, toQ_mul, toQ_emod hG, toQ_sub, toQ_emod hG, toQ_mul, toQ_one, mul_one]
  | k+1 => by
    rw [List.range_succ, List.foldl_append, List.foldl_cons, List.foldl_nil]
    have ih := skcF_fold hG e x einv f fD hinv k
    simp only [gt_iff_lt, Nat.succ_pos, if_true, Nat.add_sub_cancel] at ih ⊢
    rw [Frec, toQ_emod hG, toQ_mul, toQ_emod hG, toQ_add, toQ_emod hG, toQ_mul, toQ_emod hG, toQ_sub,
      toQ_emod hG, toQ_mul, ih, hinv]

theorem skcF_val (hG : ValidGroup G) (e x einv : ℤ) (f fD : List ℤ) (hn : 1 ≤ f.length)
    (hinv : toQ G einv = (toQ G e)⁻¹) :
    toQ G (skcF G.q e x einv f fD) =
      Frec (toQ G e) (toQ G x) (fun i => toQ G (f.getD i 0)) (fun i => toQ G (fD.getD i 0))
        (f.length - 1) := by
  unfold skcF
  have : f.length = (f.length - 1) + 1 := by omega
  rw [this]
  exact skcF_fold hG e x einv f fD hinv (f.length - 1)


theorem skcF_range (hG : ValidGroup G) (e x einv : ℤ) (f fD : List ℤ) (hn : 1 ≤ f.length) :
    0 ≤ skcF G.q e x einv f fD ∧ skcF G.q e x einv f fD < G.q := by
  unfold skcF
  have : f.length = (f.length - 1) + 1 := by omega
  rw [this, List.range_succ, List.foldl_append, List.foldl_cons, List.foldl_nil]
  simp only []
  split_ifs <;> exact mod_range hG _

theorem Frec_congr {K : Type*} [Field K] (e x : K) (f f' fD fD' : ℕ → K) : ∀ i : ℕ,
    (∀ j ≤ i, f j = f' j) → (∀ j < i, fD j = fD' j) → Frec e x f fD i = Frec e x f' fD' i
  | 0, h1, _ => by simp [Frec, h1 0 (le_refl _)]
  | i+1, h1, h2 => by
    rw [Frec, Frec, Frec_congr e x f f' fD fD' i (fun j hj => h1 j (by omega)) (fun j hj => h2 j (by omega)),
      h1 (i + 1) (le_refl _), h2 i (by omega)]

/-- inverse modulo `q` -/
theorem invm_q_val (hG : ValidGroup G) (e : ℤ) (he : toQ G e ≠ 0) :
    ∃ r, invm e G.q = some r ∧ toQ G r = (toQ G e)⁻¹ := by
  have hq := hG.q_pos
  have hgcd : Int.gcd e G.q = 1 := by
    rw [Int.gcd_comm, Int.gcd_def]
    refine (Nat.Prime.coprime_iff_not_dvd hG.q_prime).mpr ?_
    intro hd
    apply he
    have : e % G.q = 0 := Int.emod_eq_zero_of_dvd (Int.natAbs_dvd_natAbs.mp hd)
    rw [← toQ_emod hG, this, toQ_zero]
  obtain ⟨r, hr⟩ := invm_isSome_of_coprime (ne_of_gt hq) hgcd
  obtain ⟨-, -, hc⟩ := invm_some hr
  refine ⟨r, hr, ?_⟩
  have h1 : toQ G (e * r) = toQ G 1 := (toQ_eq_iff hG _ _).mpr hc
  rw [toQ_mul, toQ_one] at h1
  exact eq_inv_of_mul_eq_one_right h1

/-- products over a permutation of the indices -/
theorem prod_perm_range {M : Type*} [CommMonoid M] (pi : List ℕ) (n : ℕ) (hp : pi.Perm (List.range n))
    (φ : ℕ → M) : ∏ j ∈ Finset.range n, φ (pi.getD j 0) = ∏ j ∈ Finset.range n, φ j := by
  have ln : pi.length = n := by rw [hp.length_eq, List.length_range]
  rw [← prod_map_range, ← prod_map_range]
  have : (List.range n).map (fun j => φ (pi.getD j 0)) = pi.map φ := by
    conv_rhs => rw [list_eq_map_range pi 0 n ln]
    rw [List.map_map]; rfl
  rw [this]
  exact (hp.map φ).prod_eq


/-- the last check of the shuffle of known content, on the honest prover's values -/
theorem skc_poly (hG : ValidGroup G) (pi : List ℕ) (m : List ℤ) (hp : pi.Perm (List.range m.length))
    (hn : 2 ≤ m.length) (x e einv : ℤ) (he : toQ G e ≠ 0) (hinv : toQ G einv = (toQ G e)⁻¹)
    (d Delta la F FDz : List ℤ) (lF : F.length = m.length)
    (hΔ0 : toQ G (Delta.getD 0 0) = toQ G (d.getD 0 0)) (hΔn : toQ G (Delta.getD (m.length - 1) 0) = 0)
    (hla : ∀ i, i + 1 < m.length → toQ G (la.getD i 0) =
      toQ G (Delta.getD (i + 1) 0) - (toQ G (m.getD (pi.getD (i + 1) 0) 0) - toQ G x) * toQ G (Delta.getD i 0)
        - (∏ j ∈ Finset.range (i + 1), (toQ G (m.getD (pi.getD j 0) 0) - toQ G x)) * toQ G (d.getD (i + 1) 0))
    (hF : ∀ i < m.length, toQ G (F.getD i 0) =
      toQ G e * toQ G (m.getD (pi.getD i 0) 0) + toQ G (d.getD i 0))
    (hFD : ∀ i, i + 1 < m.length → toQ G (FDz.getD i 0) =
      toQ G (la.getD i 0) * toQ G e - toQ G (Delta.getD i 0) * toQ G (d.getD (i + 1) 0)) :
    (m.foldl (fun acc mi => acc * ((mi - x) % G.q) % G.q) 1) * e % G.q = skcF G.q e x einv F FDz := by
  apply eq_of_toQ_eq hG (mod_range hG _) (skcF_range hG e x einv F FDz (by omega))
  rw [skcF_val hG e x einv F FDz (by omega) hinv, lF]
  -- the canonical form of the responses
  rw [Frec_congr (toQ G e) (toQ G x) _
    (fun i => toQ G e * toQ G (m.getD (pi.getD i 0) 0) + toQ G (d.getD i 0)) _
    (fun i => toQ G e * (toQ G (Delta.getD (i + 1) 0) -
      (toQ G (m.getD (pi.getD (i + 1) 0) 0) - toQ G x) * toQ G (Delta.getD i 0) -
      (∏ j ∈ Finset.range (i + 1), (toQ G (m.getD (pi.getD j 0) 0) - toQ G x)) * toQ G (d.getD (i + 1) 0))
      - toQ G (Delta.getD i 0) * toQ G (d.getD (i + 1) 0)) (m.length - 1)
    (fun j hj => hF j (by omega))
    (fun j hj => by rw [hFD j (by omega), hla j (by omega)]; ring)]
  rw [Frec_eq (toQ G e) (toQ G x) he (fun i => toQ G (m.getD (pi.getD i 0) 0)) (fun i => toQ G (d.getD i 0))
    (fun i => toQ G (Delta.getD i 0)) hΔ0 (m.length - 1), hΔn, add_zero]
  rw [show m.length - 1 + 1 = m.length by omega]
  rw [toQ_emod hG, toQ_mul, foldl_list_mulmod hG (fun mi => mi - x), toQ_one, one_mul]
  rw [prod_perm_range pi m.length hp (fun j => toQ G (m.getD j 0) - toQ G x), ← prod_map_range]
  have h : (m.map fun mi => toQ G (mi - x)) =
      (List.range m.length).map (fun j => toQ G (m.getD j 0) - toQ G x) := by
    conv_lhs => rw [list_eq_map_range m 0 m.length rfl]
    rw [List.map_map]
    apply List.map_congr_left
    intro j _
    simp [toQ_sub]
  rw [h, mul_comm]

/-! ### the prover's second move -/

/-- `Δ_1 = d_1`, `Δ_2 … Δ_{n-1}` drawn, `Δ_n = 0` -/
def skcDelta (n : ℕ) (d mid : List ℤ) : List ℤ :=
  (List.range n).map fun i => if i = 0 then d.getD 0 0 else if i = n - 1 then 0 else mid.getD (i - 1) 0

def skcLDelta (q : ℤ) (n : ℕ) (d Delta : List ℤ) : List ℤ :=
  (List.range n).map fun i => if i < n - 1 then (-(Delta.getD i 0)) * d.getD (i + 1) 0 % q else 0

def skcLa (q x : ℤ) (n : ℕ) (mp d Delta : List ℤ) : List ℤ :=
  (List.range n).map fun i =>
    if i < n - 1 then
      ((Delta.getD (i + 1) 0 - (mp.getD (i + 1) 0 - x) % q * Delta.getD i 0 % q) % q
        - (skcA q x mp).getD i 0 * d.getD (i + 1) 0 % q) % q
    else 0

theorem natAbs_lt_of_mem_map_mod (hG : ValidGroup G) (n : ℕ) (g : ℕ → ℤ)
    (hg : ∀ i, (g i).natAbs < G.q.natAbs) : ∀ v ∈ (List.range n).map g, v.natAbs < G.q.natAbs := by
  intro v hv
  obtain ⟨i, -, rfl⟩ := List.mem_map.mp hv
  exact hg i

theorem zero_natAbs_lt (hG : ValidGroup G) : (0 : ℤ).natAbs < G.q.natAbs := by
  have := hG.q_pos; omega

theorem skcMove2_spec (hG : ValidGroup G) {P : GrothPub} (hP : PubOk G P) (pi : List ℕ) (m : List ℤ)
    (hn : 2 ≤ m.length) (hcg : m.length ≤ P.cg.length) (x rd rDelta : ℤ) (d mid : List ℤ) (ra : ℤ)
    (rest : List ℤ) (hrd : 0 ≤ rd ∧ rd < G.q) (hrD : 0 ≤ rDelta ∧ rDelta < G.q) (hd : InQ G.q d)
    (hmid : InQ G.q mid) (hra : 0 ≤ ra ∧ ra < G.q) (ld : d.length = m.length)
    (lmid : mid.length = m.length - 2) (peer : List (Option ℤ)) (sent : List ℤ) (tr : Bool) :
    ∃ cd cDelta ca,
      skcMove2 P pi m x ⟨peer, rd :: rDelta :: (d ++ (mid ++ (ra :: rest))), sent, tr⟩ =
        .ok ⟨x, rd, rDelta, d, skcDelta m.length d mid, ra,
          skcLa G.q x m.length (pi.map fun j => m.getD j 0) d (skcDelta m.length d mid), cd, cDelta, ca⟩
          ⟨peer, rest, sent ++ [cd, cDelta, ca], tr⟩ ∧
      Val G cd (comVal G P m.length (fun i => d.getD i 0) rd) ∧
      Val G cDelta (comVal G P m.length
        (fun i => (skcLDelta G.q m.length d (skcDelta m.length d mid)).getD i 0) rDelta) ∧
      Val G ca (comVal G P m.length
        (fun i => (skcLa G.q x m.length (pi.map fun j => m.getD j 0) d (skcDelta m.length d mid)).getD i 0) ra) := by
  have hq := hG.q_pos
  have hdr : ∀ v ∈ d, v.natAbs < G.q.natAbs := fun v hv => natAbs_lt_of_range hG (hd v hv)
  obtain ⟨cd, hcd, vcd⟩ := commitBy_val hG hP rd d (by omega) hrd hdr
  have l1 : (skcLDelta G.q m.length d (skcDelta m.length d mid)).length = m.length := by simp [skcLDelta]
  have l2 : (skcLa G.q x m.length (pi.map fun j => m.getD j 0) d (skcDelta m.length d mid)).length =
      m.length := by simp [skcLa]
  obtain ⟨cD, hcD, vcD⟩ := commitBy_val hG hP rDelta (skcLDelta G.q m.length d (skcDelta m.length d mid))
    (by omega) hrD (natAbs_lt_of_mem_map_mod hG _ _ (fun i => by
      split_ifs
      · exact natAbs_mod_lt hG _
      · exact zero_natAbs_lt hG))
  obtain ⟨ca, hca, vca⟩ := commitBy_val hG hP ra
    (skcLa G.q x m.length (pi.map fun j => m.getD j 0) d (skcDelta m.length d mid))
    (by omega) hra (natAbs_lt_of_mem_map_mod hG _ _ (fun i => by
      split_ifs
      · exact natAbs_mod_lt hG _
      · exact zero_natAbs_lt hG))
  rw [ld] at vcd; rw [l1] at vcD; rw [l2] at vca
  refine ⟨cd, cD, ca, ?_, vcd, vcD, vca⟩
  simp only [skcMove2]
  rw [bind_ok (draw_spec peer rd _ sent tr), bind_ok (draw_spec peer rDelta _ sent tr)]
  rw [bind_ok (drawN_spec _ peer d _ sent tr ld), bind_ok (drawN_spec _ peer mid _ sent tr lmid)]
  rw [bind_ok (draw_spec peer ra _ sent tr)]
  rw [bind_ok (liftE_ok hcd _)]
  rw [hP.st.grp]
  rw [bind_ok (liftE_ok (by simpa [skcLDelta, skcDelta] using hcD) _)]
  rw [bind_ok (liftE_ok (by simpa [skcLa, skcDelta] using hca) _)]
  rw [bind_ok (send_apply _ _), bind_ok (send_apply _ _), bind_ok (send_apply _ _)]
  simp [pure_apply, skcDelta, skcLa, List.append_assoc]

theorem pos_of_val_ne {a : ℤ} {v : F G} (h : Val G a v) (hv : v ≠ 0) : 0 < a :=
  pos_of_toF_ne_zero h.1 (by rw [h.2.2]; exact hv)

theorem all_lt_of_mod (hG : ValidGroup G) (n : ℕ) (g : ℕ → ℤ) :
    ((List.range n).map fun i => g i % G.q).all (fun v => decide (v < G.q)) = true := by
  rw [List.all_eq_true]
  intro v hv
  obtain ⟨i, -, rfl⟩ := List.mem_map.mp hv
  simpa using (mod_range hG _).2

/-- the verifier's checks of the shuffle of known content hold on the honest prover's values -/
theorem skc_core (hG : ValidGroup G) {P : GrothPub} (hP : PubOk G P) (pi : List ℕ) (m : List ℤ)
    (hp : pi.Perm (List.range m.length)) (hn : 2 ≤ m.length) (hcg : m.length ≤ P.cg.length)
    (rho x rd rDelta : ℤ) (d mid : List ℤ) (ra cd cDelta ca : ℤ)
    (ld : d.length = m.length)
    (vcd : Val G cd (comVal G P m.length (fun i => d.getD i 0) rd))
    (vcD : Val G cDelta (comVal G P m.length
      (fun i => (skcLDelta G.q m.length d (skcDelta m.length d mid)).getD i 0) rDelta))
    (vca : Val G ca (comVal G P m.length
      (fun i => (skcLa G.q x m.length (pi.map fun j => m.getD j 0) d (skcDelta m.length d mid)).getD i 0) ra))
    (e alpha c : ℤ) (fprime : List ℤ) (he : toQ G e ≠ 0)
    (C : ℕ → ℤ) (hc : Val G c (comVal G P m.length C rho))
    (hC : ∀ i < m.length, toQ G (C i) = toQ G (m.getD (pi.getD i 0) 0) - toQ G (fprime.getD i 0)) :
    skcRanges P cd cDelta ca
      (skcRespF G.q pi m ⟨x, rd, rDelta, d, skcDelta m.length d mid, ra,
        skcLa G.q x m.length (pi.map fun j => m.getD j 0) d (skcDelta m.length d mid), cd, cDelta, ca⟩ e)
      ((e * rho % G.q + rd) % G.q)
      (skcRespFD G.q m.length ⟨x, rd, rDelta, d, skcDelta m.length d mid, ra,
        skcLa G.q x m.length (pi.map fun j => m.getD j 0) d (skcDelta m.length d mid), cd, cDelta, ca⟩ e)
      ((e * ra % G.q + rDelta) % G.q) = true ∧
    skcChecks P c fprime m x cd cDelta ca e
      (skcRespF G.q pi m ⟨x, rd, rDelta, d, skcDelta m.length d mid, ra,
        skcLa G.q x m.length (pi.map fun j => m.getD j 0) d (skcDelta m.length d mid), cd, cDelta, ca⟩ e)
      ((e * rho % G.q + rd) % G.q)
      (skcRespFD G.q m.length ⟨x, rd, rDelta, d, skcDelta m.length d mid, ra,
        skcLa G.q x m.length (pi.map fun j => m.getD j 0) d (skcDelta m.length d mid), cd, cDelta, ca⟩ e
        ++ [0])
      ((e * ra % G.q + rDelta) % G.q) alpha = .ok true := by
  have hq := hG.q_pos
  have hp1 := one_lt_p hG
  have lpi : pi.length = m.length := by rw [hp.length_eq, List.length_range]
  set Delta := skcDelta m.length d mid with hDelta
  set mp := pi.map (fun j => m.getD j 0) with hmp
  set la := skcLa G.q x m.length mp d Delta with hla
  set lD := skcLDelta G.q m.length d Delta with hlD
  have hmpi : ∀ i < m.length, mp.getD i 0 = m.getD (pi.getD i 0) 0 := by
    intro i hi
    rw [hmp, getD_map (fun j => m.getD j 0) pi i 0 0 (by omega)]
  have n0c := comVal_ne_zero hG hP m.length hcg
  have cdpos := pos_of_val_ne vcd (n0c _ _)
  have cDpos := pos_of_val_ne vcD (n0c _ _)
  have capos := pos_of_val_ne vca (n0c _ _)
  constructor
  · -- membership and ranges
    simp only [skcRanges, testMembership_val hG hP _ hcg _ _ _ vcd, testMembership_val hG hP _ hcg _ _ _ vca,
      testMembership_val hG hP _ hcg _ _ _ vcD, hP.st.grp, skcRespF, skcRespFD, Bool.and_eq_true,
      decide_eq_true_eq, true_and]
    refine ⟨⟨⟨(mod_range hG _).2, ?_⟩, (mod_range hG _).2⟩, ?_⟩
    · exact all_lt_of_mod hG _ _
    · exact all_lt_of_mod hG _ _
  · -- the equations
    have lF : (skcRespF G.q pi m ⟨x, rd, rDelta, d, Delta, ra, la, cd, cDelta, ca⟩ e).length = m.length := by
      simp [skcRespF]
    have lFD : (skcRespFD G.q m.length ⟨x, rd, rDelta, d, Delta, ra, la, cd, cDelta, ca⟩ e).length =
        m.length - 1 := by simp [skcRespFD]
    have gF : ∀ i < m.length, (skcRespF G.q pi m ⟨x, rd, rDelta, d, Delta, ra, la, cd, cDelta, ca⟩ e).getD i 0 =
        (e * mp.getD i 0 % G.q + d.getD i 0) % G.q := by
      intro i hi; simp only [skcRespF]; rw [getD_map_range _ _ _ _ hi]
    have gFD : ∀ i, i + 1 < m.length →
        (skcRespFD G.q m.length ⟨x, rd, rDelta, d, Delta, ra, la, cd, cDelta, ca⟩ e ++ [0]).getD i 0 =
        (la.getD i 0 * e % G.q - Delta.getD i 0 * d.getD (i + 1) 0 % G.q) % G.q := by
      intro i hi
      rw [List.getD_append _ _ _ _ (by rw [lFD]; omega)]
      simp only [skcRespFD]; rw [getD_map_range _ _ _ _ (by omega)]
    have gFDn : (skcRespFD G.q m.length ⟨x, rd, rDelta, d, Delta, ra, la, cd, cDelta, ca⟩ e ++ [0]).getD
        (m.length - 1) 0 = 0 := by
      rw [List.getD_append_right _ _ _ _ (by rw [lFD])]; simp [lFD]
    have gla : ∀ i, i + 1 < m.length → la.getD i 0 =
        ((Delta.getD (i + 1) 0 - (mp.getD (i + 1) 0 - x) % G.q * Delta.getD i 0 % G.q) % G.q
          - (skcA G.q x mp).getD i 0 * d.getD (i + 1) 0 % G.q) % G.q := by
      intro i hi
      rw [hla]; simp only [skcLa]; rw [getD_map_range _ _ _ _ (by omega), if_pos (by omega)]
    have glan : la.getD (m.length - 1) 0 = 0 := by
      rw [hla]; simp only [skcLa]; rw [getD_map_range _ _ _ _ (by omega), if_neg (by omega)]
    have glD : ∀ i, i + 1 < m.length → lD.getD i 0 = (-(Delta.getD i 0)) * d.getD (i + 1) 0 % G.q := by
      intro i hi
      rw [hlD]; simp only [skcLDelta]; rw [getD_map_range _ _ _ _ (by omega), if_pos (by omega)]
    have glDn : lD.getD (m.length - 1) 0 = 0 := by
      rw [hlD]; simp only [skcLDelta]; rw [getD_map_range _ _ _ _ (by omega), if_neg (by omega)]
    have hc0 : toF G c ≠ 0 := by rw [hc.2.2]; exact n0c _ _
    obtain ⟨ce, hce, -, -, cev⟩ := mpzPowm_val hG c e hc0
    obtain ⟨-, -, m1⟩ := mulmod_val hG ce cd
    have hX0 : toF G (ce * cd % G.p) ≠ 0 := by
      rw [m1, cev, vcd.2.2, hc.2.2]; exact mul_ne_zero (zpow_ne_zero _ (n0c _ _)) (n0c _ _)
    obtain ⟨xa, hxa, -, -, xav⟩ := mpzPowm_val hG (ce * cd % G.p) alpha hX0
    obtain ⟨cae, hcae, -, -, caev⟩ := mpzPowm_val hG ca e (by rw [vca.2.2]; exact n0c _ _)
    obtain ⟨-, -, m2⟩ := mulmod_val hG cae cDelta
    obtain ⟨f0, fp, m3⟩ := mulmod_val hG xa (cae * cDelta % G.p)
    have hfoo : toF G (xa * (cae * cDelta % G.p) % G.p) = comVal G P m.length
        (fun i => alpha * (e * C i + d.getD i 0) + (e * la.getD i 0 + lD.getD i 0))
        (alpha * (e * rho + rd) + (e * ra + rDelta)) := by
      rw [m3, xav, m1, cev, m2, caev, hc.2.2, vcd.2.2, vca.2.2, vcD.2.2, comVal_pow_mul hG hP _ hcg,
        comVal_pow_mul hG hP _ hcg, comVal_pow_mul hG hP _ hcg]
    have hfoo0 : 0 < xa * (cae * cDelta % G.p) % G.p :=
      pos_of_toF_ne_zero f0 (by rw [hfoo]; exact n0c _ _)
    set F := skcRespF G.q pi m ⟨x, rd, rDelta, d, Delta, ra, la, cd, cDelta, ca⟩ e with hFdef
    set FDz := skcRespFD G.q m.length ⟨x, rd, rDelta, d, Delta, ra, la, cd, cDelta, ca⟩ e ++ [0] with hFDz
    set lej := (List.range m.length).map (fun i =>
      ((alpha * F.getD i 0 % G.q + FDz.getD i 0) % G.q + -(alpha * fprime.getD i 0 % G.q * e % G.q)) % G.q)
      with hlej
    have llej : lej.length = m.length := by simp [hlej]
    have hver : comVerify P (xa * (cae * cDelta % G.p) % G.p)
        ((alpha * ((e * rho % G.q + rd) % G.q) % G.q + (e * ra % G.q + rDelta) % G.q) % G.q) lej = .ok true := by
      apply comVerify_ok hG hP _ _ lej (by omega) (natAbs_mod_lt hG _) (mod_range hG _).2
        (natAbs_lt_of_mem_map_mod hG _ _ (fun i => natAbs_mod_lt hG _)) ⟨hfoo0, fp⟩
      rw [hfoo, llej]
      apply comVal_congr hG hP _ hcg
      · intro i hi
        rw [hlej, getD_map_range _ _ _ _ hi, gF i hi]
        by_cases hl : i + 1 < m.length
        · rw [gFD i hl, gla i hl, glD i hl]
          simp only [toQ_emod hG, toQ_add, toQ_mul, toQ_sub, toQ_neg, hC i hi, hmpi i hi]
          ring
        · have hi' : i = m.length - 1 := by omega
          rw [hi', gFDn, glan, glDn]
          simp only [toQ_emod hG, toQ_add, toQ_mul, toQ_neg, toQ_zero,
            hC (m.length - 1) (by omega), hmpi (m.length - 1) (by omega)]
          ring
      · simp only [toQ_emod hG, toQ_add, toQ_mul]
    obtain ⟨einv, heinv, hinv⟩ := invm_q_val hG e he
    have hpoly := skc_poly hG pi m hp hn x e einv he hinv d Delta la F FDz (by simp [hFdef, skcRespF])
      (by rw [hDelta]; simp only [skcDelta]; rw [getD_map_range _ _ _ _ (by omega)]; simp)
      (by rw [hDelta]; simp only [skcDelta]; rw [getD_map_range _ _ _ _ (by omega),
            if_neg (by omega), if_pos rfl]; exact toQ_zero)
      (by
        intro i hi
        rw [gla i hi]
        simp only [toQ_emod hG, toQ_sub, toQ_mul, skcA_val hG x mp i (by simp [hmp, lpi]; omega),
          hmpi (i + 1) (by omega)]
        congr 2
        apply Finset.prod_congr rfl
        intro j hj
        rw [hmpi j (by have := Finset.mem_range.mp hj; omega)])
      (by intro i hi; rw [gF i hi]; simp only [toQ_emod hG, toQ_add, toQ_mul, hmpi i hi])
      (by intro i hi; rw [gFD i hi]; simp only [toQ_emod hG, toQ_sub, toQ_mul])
    simp only [skcChecks, hP.st.grp, hce, bind, Except.bind, hxa, hcae, pure, Except.pure]
    rw [← hlej, hver]
    simp only [Bool.not_true, Bool.false_eq_true, if_false, heinv, hpoly]
    simp
end Tmcg.Args
