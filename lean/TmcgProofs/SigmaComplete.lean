import Tmcg.Model.Sigma
import TmcgProofs.Group
/-
  C03 (completeness) for the proofs of knowledge of the discrete-log VTMF:
  an honest proof on a true statement is accepted — for every group, witness, coins and hash.
-/
namespace Tmcg.SigmaComplete
open Tmcg Tmcg.Powm Tmcg.Vtmf Tmcg.Grp Tmcg.Sigma

variable {G : Group}

/-- the hash returns digests: non-negative integers of at most `SHASH_LEN` bytes -/
def HashOk (H : Hash) : Prop := ∀ s, 0 ≤ H s ∧ bitlen (H s) ≤ Gen.SHASH_LEN * 8

/-- a state of some player over group `G`: tables built, common key `h` a group element -/
structure StateOk (G : Group) [Fact (Nat.Prime G.p.natAbs)] (S : State) : Prop where
  grp : S.G = G
  tabG : IsTable G S.tabG G.g
  tabH : IsTable G S.tabH S.h
  h_range : 0 < S.h ∧ S.h < G.p
  h_mem : toF G S.h ^ G.q.natAbs = 1

/-- `a` is (the reduced representative of) an element of the order-`q` subgroup -/
def Mem (G : Group) [Fact (Nat.Prime G.p.natAbs)] (a : Int) : Prop :=
  0 < a ∧ a < G.p ∧ toF G a ^ G.q.natAbs = 1

/-! ### helper lemmas -/

theorem q_natAbs_ne_zero (hG : ValidGroup G) : G.q.natAbs ≠ 0 := by
  have := hG.q_pos; omega

theorem resp_range (hG : ValidGroup G) (e : Int) : ¬ (e % G.q).natAbs ≥ G.q.natAbs := by
  have hq := hG.q_pos
  have h1 := Int.emod_nonneg e (ne_of_gt hq)
  have h2 := Int.emod_lt_of_pos e hq
  omega

theorem fits_of_hashOk {H : Hash} (hH : HashOk H) (s : String) : challengeFits (H s) = true := by
  simp [challengeFits, (hH s).2]

section
variable [Fact (Nat.Prime G.p.natAbs)]

-- some hypotheses of the (fixed) statements below are not needed by the proofs
set_option linter.unusedVariables false

theorem ne_zero_of_pow_eq_one {a : F G} {n : Nat} (hn : n ≠ 0) (h : a ^ n = 1) : a ≠ 0 := by
  rintro rfl
  rw [zero_pow hn] at h
  exact zero_ne_one h

theorem Mem.ne_zero (hG : ValidGroup G) {a : Int} (h : Mem G a) : toF G a ≠ 0 :=
  ne_zero_of_pow_eq_one (q_natAbs_ne_zero hG) h.2.2

theorem toF_zero : toF G 0 = 0 := by unfold toF; simp

theorem pos_of_toF_ne_zero {a : Int} (h0 : 0 ≤ a) (h : toF G a ≠ 0) : 0 < a := by
  rcases Int.lt_or_eq_of_le h0 with h1 | h1
  · exact h1
  · subst h1; exact absurd toF_zero h

theorem zpow_pow_q {b : F G} {n : Nat} (h : b ^ n = 1) (e : Int) : (b ^ e) ^ n = 1 := by
  rw [← zpow_natCast, ← zpow_mul, mul_comm, zpow_mul, zpow_natCast, h, one_zpow]

theorem mem_of_val {a : Int} (h0 : 0 ≤ a) (hp : a < G.p) {v : F G}
    (hv : toF G a = v) (hv0 : v ≠ 0) (hvq : v ^ G.q.natAbs = 1) : Mem G a :=
  ⟨pos_of_toF_ne_zero h0 (hv ▸ hv0), hp, hv ▸ hvq⟩

theorem cp_alg (hG : ValidGroup G) (a : F G) (ha : a ^ G.q.natAbs = 1) (α ω c : Int) :
    a ^ ((ω - c * α) % G.q) * (a ^ α) ^ c = a ^ ω := by
  have h0 := ne_zero_of_pow_eq_one (q_natAbs_ne_zero hG) ha
  rw [zpow_mod_q hG a ha h0, ← zpow_mul, ← zpow_add₀ h0]
  congr 1; ring

theorem cpVerify_ok (hG : ValidGroup G) (H : Hash) (Sv : State) (hv : StateOk G Sv)
    (x y gg hh c r : Int) (tab : Bool) (hc : challengeFits c = true)
    (hr : ¬ r.natAbs ≥ G.q.natAbs) (htab : tab = true → gg = G.g ∧ hh = Sv.h)
    (hgg0 : toF G gg ≠ 0) (hhh0 : toF G hh ≠ 0) (hx0 : toF G x ≠ 0) (hy0 : toF G y ≠ 0)
    (a b : Int) (ha : 0 ≤ a ∧ a < G.p) (hb : 0 ≤ b ∧ b < G.p)
    (hav : toF G a = toF G gg ^ r * toF G x ^ c) (hbv : toF G b = toF G hh ^ r * toF G y ^ c)
    (hcc : H (cpInput Sv a b x y gg hh) = c) :
    cpVerify H Sv x y gg hh c r tab = .ok true := by
  have hp1 := one_lt_p hG
  obtain ⟨xc, hxc, -, -, hxcv⟩ := mpzPowm_val hG x c hx0
  obtain ⟨yc, hyc, -, -, hycv⟩ := mpzPowm_val hG y c hy0
  have hrq : r.natAbs < G.q.natAbs := by omega
  have key : ∀ ggr hhr : Int, toF G ggr = toF G gg ^ r → toF G hhr = toF G hh ^ r →
      ggr * xc % G.p = a ∧ hhr * yc % G.p = b := by
    intro ggr hhr h1 h2
    constructor
    · apply eq_of_toF_eq hG ⟨Int.emod_nonneg _ (by omega), Int.emod_lt_of_pos _ (by omega)⟩ ha
      rw [toF_emod hG, toF_mul, h1, hxcv, hav]
    · apply eq_of_toF_eq hG ⟨Int.emod_nonneg _ (by omega), Int.emod_lt_of_pos _ (by omega)⟩ hb
      rw [toF_emod hG, toF_mul, h2, hycv, hbv]
  cases tab with
  | false =>
    obtain ⟨ggr, hggr, -, -, hggrv⟩ := mpzPowm_val hG gg r hgg0
    obtain ⟨hhr, hhhr, -, -, hhhrv⟩ := mpzPowm_val hG hh r hhh0
    obtain ⟨e1, e2⟩ := key ggr hhr hggrv hhhrv
    simp [cpVerify, hv.grp, bind, Except.bind, pure, Except.pure, hc, hr, hxc, hyc, hggr, hhhr, e1, e2, hcc]
  | true =>
    obtain ⟨rfl, rfl⟩ := htab rfl
    obtain ⟨ggr, hggr, -, -, hggrv⟩ := fpowm_val hG Sv.tabG G.g r hv.tabG hgg0 hrq
    obtain ⟨hhr, hhhr, -, -, hhhrv⟩ := fpowm_val hG Sv.tabH Sv.h r hv.tabH hhh0 hrq
    obtain ⟨e1, e2⟩ := key ggr hhr hggrv hhhrv
    simp [cpVerify, hv.grp, bind, Except.bind, pure, Except.pure, hc, hr, hxc, hyc, hggr, hhhr, e1, e2, hcc]

theorem mulmod_val (hG : ValidGroup G) (a b : Int) :
    0 ≤ a * b % G.p ∧ a * b % G.p < G.p ∧ toF G (a * b % G.p) = toF G a * toF G b := by
  have hp1 := one_lt_p hG
  exact ⟨Int.emod_nonneg _ (by omega), Int.emod_lt_of_pos _ (by omega), by rw [toF_emod hG, toF_mul]⟩

theorem mem_g (hG : ValidGroup G) : Mem G G.g :=
  ⟨by have := hG.g_gt; omega, hG.g_lt, g_pow_q hG⟩

theorem StateOk.mem_h {S : State} (hS : StateOk G S) : Mem G S.h :=
  ⟨hS.h_range.1, hS.h_range.2, hS.h_mem⟩

theorem or_alg (hG : ValidGroup G) (a : F G) (ha : a ^ G.q.natAbs = 1) (α v c : Int) :
    (a ^ α) ^ c * a ^ ((v - c * α % G.q) % G.q) = a ^ v := by
  have h0 := ne_zero_of_pow_eq_one (q_natAbs_ne_zero hG) ha
  rw [zpow_mod_q hG a ha h0, zpow_sub₀ h0, zpow_mod_q hG a ha h0, ← zpow_mul, mul_comm c α]
  have := zpow_ne_zero (α * c) h0
  field_simp

theorem orVerify_ok (hG : ValidGroup G) (H : Hash) (Sv : State) (hv : StateOk G Sv)
    (y1 y2 g1 g2 c1 c2 r1 r2 : Int) (hy1 : toF G y1 ≠ 0) (hy2 : toF G y2 ≠ 0)
    (hg1 : toF G g1 ≠ 0) (hg2 : toF G g2 ≠ 0)
    (hr1 : ¬ r1.natAbs ≥ G.q.natAbs) (hr2 : ¬ r2.natAbs ≥ G.q.natAbs)
    (t1 t2 : Int) (ht1 : 0 ≤ t1 ∧ t1 < G.p) (ht2 : 0 ≤ t2 ∧ t2 < G.p)
    (t1v : toF G t1 = toF G y1 ^ c1 * toF G g1 ^ r1)
    (t2v : toF G t2 = toF G y2 ^ c2 * toF G g2 ^ r2)
    (hc : (c1 + c2) % G.q = H (orInput Sv g1 y1 g2 y2 t1 t2) % G.q) :
    orVerify H Sv y1 y2 g1 g2 c1 c2 r1 r2 = .ok true := by
  have hq := hG.q_pos
  obtain ⟨a, ha, -, -, av⟩ := mpzPowm_val hG y1 c1 hy1
  obtain ⟨b, hb, -, -, bv⟩ := mpzPowm_val hG g1 r1 hg1
  obtain ⟨a2, ha2, -, -, a2v⟩ := mpzPowm_val hG y2 c2 hy2
  obtain ⟨b2, hb2, -, -, b2v⟩ := mpzPowm_val hG g2 r2 hg2
  obtain ⟨u0, up, uv⟩ := mulmod_val hG a b
  obtain ⟨w0, wp, wv⟩ := mulmod_val hG a2 b2
  have e1 : a * b % G.p = t1 := by
    apply eq_of_toF_eq hG ⟨u0, up⟩ ht1; rw [uv, av, bv, t1v]
  have e2 : a2 * b2 % G.p = t2 := by
    apply eq_of_toF_eq hG ⟨w0, wp⟩ ht2; rw [wv, a2v, b2v, t2v]
  have hq0 : G.q ≠ 0 := by omega
  simp [orVerify, hv.grp, bind, Except.bind, pure, Except.pure, hr1, hr2, ha, hb, ha2, hb2, e1, e2,
    mpzMod, hq0, hc]

theorem key_alg (hG : ValidGroup G) (a : F G) (ha : a ^ G.q.natAbs = 1) (x r c : Int) :
    a ^ ((c * x % G.q + r) % G.q) * ((a ^ x) ^ c)⁻¹ = a ^ r := by
  have h0 := ne_zero_of_pow_eq_one (q_natAbs_ne_zero hG) ha
  rw [zpow_mod_q hG a ha h0, zpow_add₀ h0, zpow_mod_q hG a ha h0, ← zpow_mul, mul_comm c x]
  have := zpow_ne_zero (x * c) h0
  field_simp

/-! ### the completeness theorems -/

/-- key share NIZK: honest prover with secret `x`, public key `hi = g^x`, any commitment coin `v` -/
theorem nizk_complete (hG : ValidGroup G) (H : Hash) (hH : HashOk H) (Sp Sv : State)
    (hp : StateOk G Sp) (hv : StateOk G Sv)
    (hx : 0 ≤ Sp.x ∧ Sp.x < G.q) (hhi : Mem G Sp.hi) (hkey : toF G Sp.hi = toF G G.g ^ Sp.x)
    (v : Int) (hv' : 0 ≤ v ∧ v < G.q) :
    ∃ c r, nizkProve H Sp v = .ok (c, r) ∧ nizkVerify H .schnorr Sv Sp.hi c r = .ok true := by
  have hgM := mem_g hG
  have hg0 := hgM.ne_zero hG
  have hhi0 := hhi.ne_zero hG
  have hvq : v.natAbs < G.q.natAbs := by omega
  obtain ⟨t, ht, t0, tp, tv⟩ := fspowm_val hG Sp.tabG G.g v hp.tabG hg0 hvq
  have hprove : nizkProve H Sp v = .ok (H (shashInput [G.p, G.q, G.g, Sp.hi, t]),
      (v - H (shashInput [G.p, G.q, G.g, Sp.hi, t]) * Sp.x) % G.q) := by
    simp [nizkProve, hp.grp, bind, Except.bind, ht]
  refine ⟨_, _, hprove, ?_⟩
  have hfits := fits_of_hashOk hH (shashInput [G.p, G.q, G.g, Sp.hi, t])
  generalize hc : H (shashInput [G.p, G.q, G.g, Sp.hi, t]) = c at hfits ⊢
  have hk : checkElement .schnorr G Sp.hi = true := (checkElement_iff hG _).2 hhi
  have hr := resp_range hG (v - c * Sp.x)
  obtain ⟨gr, hgr, -, -, grv⟩ := fpowm_val hG Sv.tabG G.g ((v - c * Sp.x) % G.q) hv.tabG hg0
    (by omega)
  obtain ⟨kc, hkc, -, -, kcv⟩ := mpzPowm_val hG Sp.hi c hhi0
  obtain ⟨e0, ep, ev⟩ := mulmod_val hG gr kc
  have e : gr * kc % G.p = t := by
    apply eq_of_toF_eq hG ⟨e0, ep⟩ ⟨t0, tp⟩
    rw [ev, grv, kcv, hkey, tv, cp_alg hG _ hgM.2.2]
  simp [nizkVerify, hv.grp, bind, Except.bind, pure, Except.pure, hk, hfits, hr, hgr, hkc, e, hc]

/-- Chaum–Pedersen, both modes: `x = gg^α`, `y = hh^α` with `gg, hh` in the subgroup -/
theorem cp_complete (hG : ValidGroup G) (H : Hash) (hH : HashOk H) (Sp Sv : State)
    (hp : StateOk G Sp) (hv : StateOk G Sv) (hsame : Sp.h = Sv.h)
    (x y gg hh α ω : Int) (hgg : Mem G gg) (hhh : Mem G hh)
    (hx : 0 ≤ x ∧ x < G.p ∧ toF G x = toF G gg ^ α) (hy : 0 ≤ y ∧ y < G.p ∧ toF G y = toF G hh ^ α)
    (hω : 0 ≤ ω ∧ ω < G.q) (tab : Bool) (htab : tab = true → gg = G.g ∧ hh = Sp.h) :
    ∃ c r, cpProve H Sp x y gg hh α ω tab = .ok (c, r) ∧
      cpVerify H Sv x y gg hh c r tab = .ok true := by
  have hgg0 := hgg.ne_zero hG
  have hhh0 := hhh.ne_zero hG
  have hωq : ω.natAbs < G.q.natAbs := by omega
  have hcommit : ∃ a b, (0 ≤ a ∧ a < G.p) ∧ (0 ≤ b ∧ b < G.p) ∧ toF G a = toF G gg ^ ω ∧
      toF G b = toF G hh ^ ω ∧
      cpProve H Sp x y gg hh α ω tab =
        .ok (H (cpInput Sp a b x y gg hh), (ω - H (cpInput Sp a b x y gg hh) * α) % G.q) := by
    cases tab with
    | false =>
      obtain ⟨a, ha, ha0, hap, hav⟩ := spowm_val hG gg ω hgg0
      obtain ⟨b, hb, hb0, hbp, hbv⟩ := spowm_val hG hh ω hhh0
      exact ⟨a, b, ⟨ha0, hap⟩, ⟨hb0, hbp⟩, hav, hbv, by
        simp [cpProve, hp.grp, bind, Except.bind, pure, Except.pure, ha, hb]⟩
    | true =>
      obtain ⟨rfl, rfl⟩ := htab rfl
      obtain ⟨a, ha, ha0, hap, hav⟩ := fspowm_val hG Sp.tabG G.g ω hp.tabG hgg0 hωq
      obtain ⟨b, hb, hb0, hbp, hbv⟩ := fspowm_val hG Sp.tabH Sp.h ω hp.tabH hhh0 hωq
      exact ⟨a, b, ⟨ha0, hap⟩, ⟨hb0, hbp⟩, hav, hbv, by
        simp [cpProve, hp.grp, bind, Except.bind, pure, Except.pure, ha, hb]⟩
  obtain ⟨a, b, ha, hb, hav, hbv, hprove⟩ := hcommit
  refine ⟨_, _, hprove, ?_⟩
  have hin : cpInput Sv a b x y gg hh = cpInput Sp a b x y gg hh := by
    simp [cpInput, hp.grp, hv.grp, hsame]
  apply cpVerify_ok hG H Sv hv x y gg hh _ _ tab (fits_of_hashOk hH _) (resp_range hG _)
    (by rw [← hsame]; exact htab) hgg0 hhh0 ?_ ?_ a b ha hb ?_ ?_ (by rw [hin])
  · rw [hx.2.2]; exact zpow_ne_zero _ hgg0
  · rw [hy.2.2]; exact zpow_ne_zero _ hhh0
  · rw [hav, hx.2.2, cp_alg hG _ hgg.2.2]
  · rw [hbv, hy.2.2, cp_alg hG _ hhh.2.2]

/-- masking: the card `(g^r, m·h^r)` of a message `m` in the group, proved with the table mode
    (this is the statement the pinned tree violated: finding F1) -/
theorem mask_complete (hG : ValidGroup G) (H : Hash) (hH : HashOk H) (Sp Sv : State)
    (hp : StateOk G Sp) (hv : StateOk G Sv) (hsame : Sp.h = Sv.h)
    (m : Int) (hm : Mem G m) (r ω : Int) (hr : 0 ≤ r ∧ r < G.q) (hω : 0 ≤ ω ∧ ω < G.q) :
    ∃ c pc pr, Vtmf.mask Sp m r = .ok c ∧ maskProve H Sp m c r ω = .ok (pc, pr) ∧
      maskVerify H .schnorr Sv m c pc pr = .ok true := by
  have hgM := mem_g hG
  have hhM := hp.mem_h
  have hg0 := hgM.ne_zero hG
  have hh0 := hhM.ne_zero hG
  have hm0 := hm.ne_zero hG
  have hrq : r.natAbs < G.q.natAbs := by omega
  obtain ⟨c1, hc1, c10, c1p, c1v⟩ := fspowm_val hG Sp.tabG G.g r hp.tabG hg0 hrq
  obtain ⟨e, he, -, -, ev⟩ := fspowm_val hG Sp.tabH Sp.h r hp.tabH hh0 hrq
  have hmask : Vtmf.mask Sp m r = .ok ⟨c1, e * m % G.p⟩ := by
    simp [Vtmf.mask, hp.grp, bind, Except.bind, hc1, he]
  obtain ⟨c20, c2p, c2v⟩ := mulmod_val hG e m
  rw [ev] at c2v
  obtain ⟨mi, hmi, -, -, miv⟩ := invm_val hG m hm0
  obtain ⟨y0, yp, yv⟩ := mulmod_val hG mi (e * m % G.p)
  have yv' : toF G (mi * (e * m % G.p) % G.p) = toF G Sp.h ^ r := by
    rw [yv, miv, c2v]; field_simp
  obtain ⟨pc, pr, hprove, hverify⟩ := cp_complete hG H hH Sp Sv hp hv hsame c1
    (mi * (e * m % G.p) % G.p) G.g Sp.h r ω hgM hhM ⟨c10, c1p, c1v⟩ ⟨y0, yp, yv'⟩ hω true
    (fun _ => ⟨rfl, rfl⟩)
  have hk1 : checkElement .schnorr G c1 = true :=
    (checkElement_iff hG c1).2 (mem_of_val c10 c1p c1v (zpow_ne_zero _ hg0) (zpow_pow_q hgM.2.2 r))
  have hk2 : checkElement .schnorr G (e * m % G.p) = true :=
    (checkElement_iff hG _).2 (mem_of_val c20 c2p c2v
      (mul_ne_zero (zpow_ne_zero _ hh0) hm0)
      (by rw [mul_pow, zpow_pow_q hhM.2.2 r, hm.2.2, one_mul]))
  rw [hsame] at hverify
  refine ⟨_, pc, pr, hmask, ?_, ?_⟩
  · simpa [maskProve, hp.grp, hmi] using hprove
  · simpa [maskVerify, hv.grp, hmi, hk1, hk2, bind, Except.bind, pure, Except.pure] using hverify

/-- re-masking of a card whose components are in the group -/
theorem remask_complete (hG : ValidGroup G) (H : Hash) (hH : HashOk H) (Sp Sv : State)
    (hp : StateOk G Sp) (hv : StateOk G Sv) (hsame : Sp.h = Sv.h)
    (c : Card) (hc1 : Mem G c.c1) (hc2 : Mem G c.c2) (tap : Bool)
    (r ω : Int) (hr : 0 ≤ r ∧ r < G.q) (hω : 0 ≤ ω ∧ ω < G.q) :
    ∃ c' pc pr, Vtmf.remask Sp c r tap = .ok c' ∧ remaskProve H Sp c c' r ω = .ok (pc, pr) ∧
      remaskVerify H .schnorr Sv c c' pc pr = .ok true := by
  have hgM := mem_g hG
  have hhM := hp.mem_h
  have hg0 := hgM.ne_zero hG
  have hh0 := hhM.ne_zero hG
  have h10 := hc1.ne_zero hG
  have h20 := hc2.ne_zero hG
  have hrq : r.natAbs < G.q.natAbs := by omega
  have hremask : ∃ gr hr', toF G gr = toF G G.g ^ r ∧ toF G hr' = toF G Sp.h ^ r ∧
      Vtmf.remask Sp c r tap = .ok ⟨gr * c.c1 % G.p, hr' * c.c2 % G.p⟩ := by
    cases tap with
    | true =>
      obtain ⟨gr, hgr, -, -, grv⟩ := fspowm_val hG Sp.tabG G.g r hp.tabG hg0 hrq
      obtain ⟨e, he, -, -, ev⟩ := fspowm_val hG Sp.tabH Sp.h r hp.tabH hh0 hrq
      exact ⟨gr, e, grv, ev, by simp [Vtmf.remask, hp.grp, bind, Except.bind, hgr, he]⟩
    | false =>
      obtain ⟨gr, hgr, -, -, grv⟩ := fpowm_val hG Sp.tabG G.g r hp.tabG hg0 hrq
      obtain ⟨e, he, -, -, ev⟩ := fpowm_val hG Sp.tabH Sp.h r hp.tabH hh0 hrq
      exact ⟨gr, e, grv, ev, by simp [Vtmf.remask, hp.grp, bind, Except.bind, hgr, he]⟩
  obtain ⟨gr, e, grv, ev, hremask⟩ := hremask
  obtain ⟨a0, ap, av⟩ := mulmod_val hG gr c.c1
  obtain ⟨b0, bp, bv⟩ := mulmod_val hG e c.c2
  rw [grv] at av
  rw [ev] at bv
  obtain ⟨i1, hi1, -, -, i1v⟩ := invm_val hG c.c1 h10
  obtain ⟨i2, hi2, -, -, i2v⟩ := invm_val hG c.c2 h20
  obtain ⟨x0, xp, xv⟩ := mulmod_val hG i1 (gr * c.c1 % G.p)
  obtain ⟨y0, yp, yv⟩ := mulmod_val hG i2 (e * c.c2 % G.p)
  have xv' : toF G (i1 * (gr * c.c1 % G.p) % G.p) = toF G G.g ^ r := by
    rw [xv, i1v, av]; field_simp
  have yv' : toF G (i2 * (e * c.c2 % G.p) % G.p) = toF G Sp.h ^ r := by
    rw [yv, i2v, bv]; field_simp
  obtain ⟨pc, pr, hprove, hverify⟩ := cp_complete hG H hH Sp Sv hp hv hsame _ _
    G.g Sp.h r ω hgM hhM ⟨x0, xp, xv'⟩ ⟨y0, yp, yv'⟩ hω true (fun _ => ⟨rfl, rfl⟩)
  have hk1 : checkElement .schnorr G (gr * c.c1 % G.p) = true :=
    (checkElement_iff hG _).2 (mem_of_val a0 ap av (mul_ne_zero (zpow_ne_zero _ hg0) h10)
      (by rw [mul_pow, zpow_pow_q hgM.2.2 r, hc1.2.2, one_mul]))
  have hk2 : checkElement .schnorr G (e * c.c2 % G.p) = true :=
    (checkElement_iff hG _).2 (mem_of_val b0 bp bv (mul_ne_zero (zpow_ne_zero _ hh0) h20)
      (by rw [mul_pow, zpow_pow_q hhM.2.2 r, hc2.2.2, one_mul]))
  rw [hsame] at hverify
  refine ⟨_, pc, pr, hremask, ?_, ?_⟩
  · simpa [remaskProve, hp.grp, hi1, hi2] using hprove
  · simpa [remaskVerify, hv.grp, hi1, hi2, hk1, hk2, bind, Except.bind, pure, Except.pure]
      using hverify

/-- decryption share: prover `j` with secret `x_j`, verifier holding `h_j` under the prover's
    fingerprint; the accumulator is multiplied by the share -/
theorem decrypt_complete (hG : ValidGroup G) (H : Hash) (hH : HashOk H) (Sp Sv : State)
    (hp : StateOk G Sp) (hv : StateOk G Sv) (hsame : Sp.h = Sv.h)
    (hx : 0 ≤ Sp.x ∧ Sp.x < G.q) (hhi : Mem G Sp.hi) (hkey : toF G Sp.hi = toF G G.g ^ Sp.x)
    (fp : Int) (hstored : Sv.keys.find? (fun e => e.1 = fp) = some (fp, Sp.hi))
    (c1 : Int) (hc1 : Mem G c1) (ω : Int) (hω : 0 ≤ ω ∧ ω < G.q) :
    ∃ d pc pr, decryptProve H Sp c1 ω = .ok (d, pc, pr) ∧
      toF G d = toF G c1 ^ Sp.x ∧
      decryptVerifyUpdate H .schnorr Sv c1 d fp pc pr = .ok (verifyUpdateAccept Sv d, true) := by
  have hgM := mem_g hG
  have h10 := hc1.ne_zero hG
  obtain ⟨d, hd, d0, dp, dv⟩ := spowm_val hG c1 Sp.x h10
  obtain ⟨pc, pr, hprove, hverify⟩ := cp_complete hG H hH Sp Sv hp hv hsame d Sp.hi c1 G.g Sp.x ω
    hc1 hgM ⟨d0, dp, dv⟩ ⟨hhi.1.le, hhi.2.1, hkey⟩ hω false (by simp)
  have hk : checkElement .schnorr G d = true :=
    (checkElement_iff hG _).2 (mem_of_val d0 dp dv (zpow_ne_zero _ h10) (zpow_pow_q hc1.2.2 _))
  refine ⟨d, pc, pr, ?_, dv, ?_⟩
  · simp [decryptProve, hp.grp, bind, Except.bind, hd, hprove]
  · simp [decryptVerifyUpdate, hv.grp, hstored, hk, hverify, bind, Except.bind, pure, Except.pure]

/-- OR proof, first branch known (`y_1 = g_1^α`), second arbitrary group elements -/
theorem or_first_complete (hG : ValidGroup G) (H : Hash) (hH : HashOk H) (Sp Sv : State)
    (hp : StateOk G Sp) (hv : StateOk G Sv) (hsame : Sp.h = Sv.h)
    (y1 y2 g1 g2 α v1 v2 w : Int) (hg1 : Mem G g1) (hg2 : Mem G g2) (hy1 : Mem G y1) (hy2 : Mem G y2)
    (hstmt : toF G y1 = toF G g1 ^ α)
    (hv1 : 0 ≤ v1 ∧ v1 < G.q) (hv2 : 0 ≤ v2 ∧ v2 < G.q) (hw : 0 ≤ w ∧ w < G.q) :
    ∃ c1 c2 r1 r2, orProveFirst H Sp y1 y2 g1 g2 α v1 v2 w = .ok [c1, c2, r1, r2] ∧
      orVerify H Sv y1 y2 g1 g2 c1 c2 r1 r2 = .ok true := by
  have hg10 := hg1.ne_zero hG
  have hg20 := hg2.ne_zero hG
  have hy10 := hy1.ne_zero hG
  have hy20 := hy2.ne_zero hG
  obtain ⟨t2a, ht2a, -, -, t2av⟩ := spowm_val hG y2 w hy20
  obtain ⟨t2b, ht2b, -, -, t2bv⟩ := spowm_val hG g2 v2 hg20
  obtain ⟨t1, ht1, t10, t1p, t1v⟩ := spowm_val hG g1 v1 hg10
  obtain ⟨t20, t2p, t2v⟩ := mulmod_val hG t2a t2b
  have hin : orInput Sv g1 y1 g2 y2 t1 (t2a * t2b % G.p) = orInput Sp g1 y1 g2 y2 t1 (t2a * t2b % G.p) := by
    simp [orInput, hp.grp, hv.grp, hsame]
  refine ⟨_, _, _, _, by
    simp only [orProveFirst, hp.grp, bind, Except.bind, ht2a, ht2b, ht1]; rfl, ?_⟩
  apply orVerify_ok hG H Sv hv y1 y2 g1 g2 _ _ _ _ hy10 hy20 hg10 hg20 (resp_range hG _)
    (resp_range hG _) t1 (t2a * t2b % G.p) ⟨t10, t1p⟩ ⟨t20, t2p⟩
  · rw [t1v, hstmt, or_alg hG _ hg1.2.2]
  · rw [t2v, t2av, t2bv, zpow_mod_q hG _ hg2.2.2 hg20]
  · rw [hin, Int.emod_add_emod, sub_add_cancel, Int.emod_emod_of_dvd _ (dvd_refl _)]

theorem or_second_complete (hG : ValidGroup G) (H : Hash) (hH : HashOk H) (Sp Sv : State)
    (hp : StateOk G Sp) (hv : StateOk G Sv) (hsame : Sp.h = Sv.h)
    (y1 y2 g1 g2 α v1 v2 w : Int) (hg1 : Mem G g1) (hg2 : Mem G g2) (hy1 : Mem G y1) (hy2 : Mem G y2)
    (hstmt : toF G y2 = toF G g2 ^ α)
    (hv1 : 0 ≤ v1 ∧ v1 < G.q) (hv2 : 0 ≤ v2 ∧ v2 < G.q) (hw : 0 ≤ w ∧ w < G.q) :
    ∃ c1 c2 r1 r2, orProveSecond H Sp y1 y2 g1 g2 α v1 v2 w = .ok [c1, c2, r1, r2] ∧
      orVerify H Sv y1 y2 g1 g2 c1 c2 r1 r2 = .ok true := by
  have hg10 := hg1.ne_zero hG
  have hg20 := hg2.ne_zero hG
  have hy10 := hy1.ne_zero hG
  have hy20 := hy2.ne_zero hG
  obtain ⟨t1a, ht1a, -, -, t1av⟩ := spowm_val hG y1 w hy10
  obtain ⟨t1b, ht1b, -, -, t1bv⟩ := spowm_val hG g1 v1 hg10
  obtain ⟨t2, ht2, t20, t2p, t2v⟩ := spowm_val hG g2 v2 hg20
  obtain ⟨t10, t1p, t1v⟩ := mulmod_val hG t1a t1b
  have hin : orInput Sv g1 y1 g2 y2 (t1a * t1b % G.p) t2 = orInput Sp g1 y1 g2 y2 (t1a * t1b % G.p) t2 := by
    simp [orInput, hp.grp, hv.grp, hsame]
  refine ⟨_, _, _, _, by
    simp only [orProveSecond, hp.grp, bind, Except.bind, ht1a, ht1b, ht2]; rfl, ?_⟩
  apply orVerify_ok hG H Sv hv y1 y2 g1 g2 _ _ _ _ hy10 hy20 hg10 hg20 (resp_range hG _)
    (resp_range hG _) (t1a * t1b % G.p) t2 ⟨t10, t1p⟩ ⟨t20, t2p⟩
  · rw [t1v, t1av, t1bv, zpow_mod_q hG _ hg1.2.2 hg10]
  · rw [t2v, hstmt, or_alg hG _ hg2.2.2]
  · rw [hin, Int.add_emod_emod, add_sub_cancel, Int.emod_emod_of_dvd _ (dvd_refl _)]

/-- interactive proof of knowledge of the key share: commitment `m_1 = g^r`, any challenge
    `|c| < q` (drawn by the verifier, or the outcome of the coin flip in the public-coin form),
    response `m_2 = r + x·c mod q` -/
theorem key_interactive_complete (hG : ValidGroup G) (Sp Sv : State)
    (hp : StateOk G Sp) (hv : StateOk G Sv)
    (hx : 0 ≤ Sp.x ∧ Sp.x < G.q) (hhi : Mem G Sp.hi) (hkey : toF G Sp.hi = toF G G.g ^ Sp.x)
    (r c m1 : Int) (hr : 0 ≤ r ∧ r < G.q) (hc : c.natAbs < G.q.natAbs)
    (hm1 : 0 ≤ m1 ∧ m1 < G.p ∧ toF G m1 = toF G G.g ^ r) :
    ∃ m2, keyProveRespond Sp r c = some m2 ∧
      keyVerifyFinal .schnorr Sv Sp.hi m1 c m2 = .ok true := by
  have hgM := mem_g hG
  have hg0 := hgM.ne_zero hG
  have hhi0 := hhi.ne_zero hG
  have hc' : ¬ c.natAbs ≥ G.q.natAbs := by omega
  refine ⟨(c * Sp.x % G.q + r) % G.q, by simp [keyProveRespond, hp.grp, hc'], ?_⟩
  have hk : checkElement .schnorr G m1 = true :=
    (checkElement_iff hG _).2 (mem_of_val hm1.1 hm1.2.1 hm1.2.2 (zpow_ne_zero _ hg0)
      (zpow_pow_q hgM.2.2 _))
  have hkk : checkElement .schnorr G Sp.hi = true := (checkElement_iff hG _).2 hhi
  have hr2 := resp_range hG (c * Sp.x % G.q + r)
  obtain ⟨gm, hgm, -, -, gmv⟩ := fpowm_val hG Sv.tabG G.g ((c * Sp.x % G.q + r) % G.q) hv.tabG hg0
    (by omega)
  obtain ⟨kc, hkc, -, -, kcv⟩ := mpzPowm_val hG Sp.hi c hhi0
  obtain ⟨ki, hki, -, -, kiv⟩ := invm_val hG kc (by rw [kcv]; exact zpow_ne_zero _ hhi0)
  obtain ⟨e0, ep, ev⟩ := mulmod_val hG gm ki
  have e : gm * ki % G.p = m1 := by
    apply eq_of_toF_eq hG ⟨e0, ep⟩ ⟨hm1.1, hm1.2.1⟩
    rw [ev, gmv, kiv, kcv, hkey, hm1.2.2, key_alg hG _ hgM.2.2]
  generalize (c * Sp.x % G.q + r) % G.q = m2 at hr2 hgm ⊢
  simp [keyVerifyFinal, hv.grp, bind, Except.bind, pure, Except.pure, hk, hkk, hr2, hgm, hkc, hki, e]

end
end Tmcg.SigmaComplete
