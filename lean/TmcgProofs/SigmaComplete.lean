import Tmcg.Model.Sigma
import TmcgProofs.Group
/-
  C03 (completeness) for the proofs of knowledge of the discrete-log VTMF:
  an honest proof on a true statement is accepted — for every group, witness, coins and hash.
-/
namespace Tmcg.SigmaComplete
open Tmcg Tmcg.Powm Tmcg.Vtmf Tmcg.Grp Tmcg.Sigma

variable {G : Group}

/-- the hash returns digests: non-negative integers of at most `SHASH_LEN` bytes -/
def HashOk (H : Hash) : Prop := ∀ s, 0 ≤ H s ∧ bitlen (H s) ≤ Gen.SHASH_LEN * 8

/-- a state of some player over group `G`: tables built, common key `h` a group element -/
structure StateOk (G : Group) [Fact (Nat.Prime G.p.natAbs)] (S : State) : Prop where
  grp : S.G = G
  tabG : IsTable G S.tabG G.g
  tabH : IsTable G S.tabH S.h
  h_range : 0 < S.h ∧ S.h < G.p
  h_mem : toF G S.h ^ G.q.natAbs = 1

/-- `a` is (the reduced representative of) an element of the order-`q` subgroup -/
def Mem (G : Group) [Fact (Nat.Prime G.p.natAbs)] (a : Int) : Prop :=
  0 < a ∧ a < G.p ∧ toF G a ^ G.q.natAbs = 1

section
variable [Fact (Nat.Prime G.p.natAbs)]

/-- key share NIZK: honest prover with secret `x`, public key `hi = g^x`, any commitment coin `v` -/
theorem nizk_complete (hG : ValidGroup G) (H : Hash) (hH : HashOk H) (Sp Sv : State)
    (hp : StateOk G Sp) (hv : StateOk G Sv)
    (hx : 0 ≤ Sp.x ∧ Sp.x < G.q) (hhi : Mem G Sp.hi) (hkey : toF G Sp.hi = toF G G.g ^ Sp.x)
    (v : Int) (hv' : 0 ≤ v ∧ v < G.q) :
    ∃ c r, nizkProve H Sp v = .ok (c, r) ∧ nizkVerify H .schnorr Sv Sp.hi c r = .ok true := by
  sorry

/-- Chaum–Pedersen, both modes: `x = gg^α`, `y = hh^α` with `gg, hh` in the subgroup -/
theorem cp_complete (hG : ValidGroup G) (H : Hash) (hH : HashOk H) (Sp Sv : State)
    (hp : StateOk G Sp) (hv : StateOk G Sv) (hsame : Sp.h = Sv.h)
    (x y gg hh α ω : Int) (hgg : Mem G gg) (hhh : Mem G hh)
    (hx : 0 ≤ x ∧ x < G.p ∧ toF G x = toF G gg ^ α) (hy : 0 ≤ y ∧ y < G.p ∧ toF G y = toF G hh ^ α)
    (hω : 0 ≤ ω ∧ ω < G.q) (tab : Bool) (htab : tab = true → gg = G.g ∧ hh = Sp.h) :
    ∃ c r, cpProve H Sp x y gg hh α ω tab = .ok (c, r) ∧
      cpVerify H Sv x y gg hh c r tab = .ok true := by
  sorry

/-- masking: the card `(g^r, m·h^r)` of a message `m` in the group, proved with the table mode
    (this is the statement the pinned tree violated: finding F1) -/
theorem mask_complete (hG : ValidGroup G) (H : Hash) (hH : HashOk H) (Sp Sv : State)
    (hp : StateOk G Sp) (hv : StateOk G Sv) (hsame : Sp.h = Sv.h)
    (m : Int) (hm : Mem G m) (r ω : Int) (hr : 0 ≤ r ∧ r < G.q) (hω : 0 ≤ ω ∧ ω < G.q) :
    ∃ c pc pr, Vtmf.mask Sp m r = .ok c ∧ maskProve H Sp m c r ω = .ok (pc, pr) ∧
      maskVerify H .schnorr Sv m c pc pr = .ok true := by
  sorry

/-- re-masking of a card whose components are in the group -/
theorem remask_complete (hG : ValidGroup G) (H : Hash) (hH : HashOk H) (Sp Sv : State)
    (hp : StateOk G Sp) (hv : StateOk G Sv) (hsame : Sp.h = Sv.h)
    (c : Card) (hc1 : Mem G c.c1) (hc2 : Mem G c.c2) (tap : Bool)
    (r ω : Int) (hr : 0 ≤ r ∧ r < G.q) (hω : 0 ≤ ω ∧ ω < G.q) :
    ∃ c' pc pr, Vtmf.remask Sp c r tap = .ok c' ∧ remaskProve H Sp c c' r ω = .ok (pc, pr) ∧
      remaskVerify H .schnorr Sv c c' pc pr = .ok true := by
  sorry

/-- decryption share: prover `j` with secret `x_j`, verifier holding `h_j` under the prover's
    fingerprint; the accumulator is multiplied by the share -/
theorem decrypt_complete (hG : ValidGroup G) (H : Hash) (hH : HashOk H) (Sp Sv : State)
    (hp : StateOk G Sp) (hv : StateOk G Sv) (hsame : Sp.h = Sv.h)
    (hx : 0 ≤ Sp.x ∧ Sp.x < G.q) (hhi : Mem G Sp.hi) (hkey : toF G Sp.hi = toF G G.g ^ Sp.x)
    (fp : Int) (hstored : Sv.keys.find? (fun e => e.1 = fp) = some (fp, Sp.hi))
    (c1 : Int) (hc1 : Mem G c1) (ω : Int) (hω : 0 ≤ ω ∧ ω < G.q) :
    ∃ d pc pr, decryptProve H Sp c1 ω = .ok (d, pc, pr) ∧
      toF G d = toF G c1 ^ Sp.x ∧
      decryptVerifyUpdate H .schnorr Sv c1 d fp pc pr = .ok (verifyUpdateAccept Sv d, true) := by
  sorry

/-- OR proof, first branch known (`y_1 = g_1^α`), second arbitrary group elements -/
theorem or_first_complete (hG : ValidGroup G) (H : Hash) (hH : HashOk H) (Sp Sv : State)
    (hp : StateOk G Sp) (hv : StateOk G Sv) (hsame : Sp.h = Sv.h)
    (y1 y2 g1 g2 α v1 v2 w : Int) (hg1 : Mem G g1) (hg2 : Mem G g2) (hy1 : Mem G y1) (hy2 : Mem G y2)
    (hstmt : toF G y1 = toF G g1 ^ α)
    (hv1 : 0 ≤ v1 ∧ v1 < G.q) (hv2 : 0 ≤ v2 ∧ v2 < G.q) (hw : 0 ≤ w ∧ w < G.q) :
    ∃ c1 c2 r1 r2, orProveFirst H Sp y1 y2 g1 g2 α v1 v2 w = .ok [c1, c2, r1, r2] ∧
      orVerify H Sv y1 y2 g1 g2 c1 c2 r1 r2 = .ok true := by
  sorry

theorem or_second_complete (hG : ValidGroup G) (H : Hash) (hH : HashOk H) (Sp Sv : State)
    (hp : StateOk G Sp) (hv : StateOk G Sv) (hsame : Sp.h = Sv.h)
    (y1 y2 g1 g2 α v1 v2 w : Int) (hg1 : Mem G g1) (hg2 : Mem G g2) (hy1 : Mem G y1) (hy2 : Mem G y2)
    (hstmt : toF G y2 = toF G g2 ^ α)
    (hv1 : 0 ≤ v1 ∧ v1 < G.q) (hv2 : 0 ≤ v2 ∧ v2 < G.q) (hw : 0 ≤ w ∧ w < G.q) :
    ∃ c1 c2 r1 r2, orProveSecond H Sp y1 y2 g1 g2 α v1 v2 w = .ok [c1, c2, r1, r2] ∧
      orVerify H Sv y1 y2 g1 g2 c1 c2 r1 r2 = .ok true := by
  sorry

/-- interactive proof of knowledge of the key share: commitment `m_1 = g^r`, any challenge
    `|c| < q` (drawn by the verifier, or the outcome of the coin flip in the public-coin form),
    response `m_2 = r + x·c mod q` -/
theorem key_interactive_complete (hG : ValidGroup G) (Sp Sv : State)
    (hp : StateOk G Sp) (hv : StateOk G Sv)
    (hx : 0 ≤ Sp.x ∧ Sp.x < G.q) (hhi : Mem G Sp.hi) (hkey : toF G Sp.hi = toF G G.g ^ Sp.x)
    (r c m1 : Int) (hr : 0 ≤ r ∧ r < G.q) (hc : c.natAbs < G.q.natAbs)
    (hm1 : 0 ≤ m1 ∧ m1 < G.p ∧ toF G m1 = toF G G.g ^ r) :
    ∃ m2, keyProveRespond Sp r c = some m2 ∧
      keyVerifyFinal .schnorr Sv Sp.hi m1 c m2 = .ok true := by
  sorry

end
end Tmcg.SigmaComplete
