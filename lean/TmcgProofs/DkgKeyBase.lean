import TmcgProofs.DkgRunAgree
/-
  C15, key agreement for runs WITH reconstruction: definitions shared by the DkgKey* files.

  `cfgGen … r`     the configuration after `r` rounds of `runGen`
  `OccursG`        an integer occurring in the run: held as a share by an honest party, or lying in an
                   honest party's inbox, at some round
  `BindsRunG`      the openings occurring in the run bind a commitment row to a polynomial
  `BindingHypG`    the explicit binding hypothesis: for every dealer `j` there is a polynomial `fam j` of
                   degree `≤ t` on which the first components of ALL valid openings (w.r.t. the
                   commitments `C_j` the honest parties hold) occurring in the run lie.  A violation
                   gives two openings of one Pedersen commitment with different first components, i.e.
                   `log_g h` (`binding_pair_dkg` in DkgKeyArith.lean).
  `SetupK`         the standing hypotheses: valid group, `n ≥ 2t+1`, `n < 2^64`, `n < q`, at most `t`
                   deviating parties, honest coins in range
-/
namespace Tmcg.DkgP
open Tmcg Tmcg.Powm Tmcg.Dkg Tmcg.Grp Tmcg.DkgL

variable {G : Dkg.Grp} [Fact (Nat.Prime G.p.natAbs)]

/-- the configuration after `r` rounds -/
def cfgGen (G : Dkg.Grp) (n t : Nat) (ins : List PartyIn) (r : Nat) : List (Party GenSt) :=
  runRounds (genStep G ins n t) (List.range r) (ps0 n t ins)

theorem cfgGen_final (n t : Nat) (ins : List PartyIn) :
    runGen G n t ins = cfgGen G n t ins (6 + t + 1) := rfl

/-- `v` occurs in the run: an honest party holds it as a share or finds it in its inbox at some round -/
def OccursG (G : Dkg.Grp) (n t : Nat) (ins : List PartyIn) (v : Int) : Prop :=
  ∃ r k P, (cfgGen G n t ins r)[k]? = some P ∧ k ∈ honestIdx ins ∧
    (v ∈ P.st.s ∨ v ∈ P.st.sp ∨ v ∈ P.st.srow ∨ v ∈ P.st.sprow ∨
      ∃ j, (∃ tag, (tag, v) ∈ P.inbox.b.getD j []) ∨ v ∈ P.inbox.p.getD j [])

/-- the openings occurring in the run bind the commitment row `row` to the polynomial `f`: whenever
    `(x, y)` (both in range, both occurring) opens the commitment `∏_k row_k^{(m+1)^k}` of party `m`'s
    share, `x ≡ f(m+1)` -/
def BindsRunG (G : Dkg.Grp) [Fact (Nat.Prime G.p.natAbs)] (n t : Nat) (ins : List PartyIn)
    (row : List Int) (f : Polynomial (ZMod G.q.natAbs)) : Prop :=
  f.degree < ((t + 1 : Nat) : WithBot Nat) ∧
  ∀ m : Nat, m < n → ∀ x y, OccursG G n t ins x → OccursG G n t ins y →
    x.natAbs < G.q.natAbs → y.natAbs < G.q.natAbs →
    cp G G.g ^ x * cp G G.h ^ y = powProdFrom (m + 1) 0 (row.map (cp G)) →
    cq G x = f.eval (pt G.q m)

/-- the binding hypothesis of a run (see the header) -/
def BindingHypG (G : Dkg.Grp) [Fact (Nat.Prime G.p.natAbs)] (n t : Nat) (ins : List PartyIn)
    (fam : Nat → Polynomial (ZMod G.q.natAbs)) : Prop :=
  ∀ i, i ∈ honestIdx ins → ∀ P, (runGen G n t ins)[i]? = some P →
    ∀ j, j < n → BindsRunG G n t ins (getRow P.st.C j) (fam j)

/-- standing hypotheses of the key agreement theorems -/
structure SetupK (G : Dkg.Grp) (n t : Nat) (ins : List PartyIn) : Prop where
  hG : ValidGrp G
  hn : ins.length = n
  ht : 2 * t < n
  hn64 : n < 2 ^ 64
  hnq : (n : Int) < G.q
  hf : n - (honestIdx ins).length ≤ t
  hc : ∀ i ∈ honestIdx ins, goodCoins G t (ins.getD i ⟨[], [], {}, {}⟩)

end Tmcg.DkgP
