import TmcgProofs.CgjkrSignBindG
import TmcgProofs.CgjkrSignExample
import TmcgProofs.Ot
/-
  C16, run level, part H: NON-VACUITY of `sign_run_agree_views` / `sign_run_valid_views` — their hypotheses hold on
  the honest three-party run of TmcgProofs/CgjkrSignExample.lean (`p = 23`, `q = 11`, `g = 2`, `h = 8`, `n = 3`,
  `t = 1`, key generation with the coins of seed 0, then `Sign(7)`).

    * `G0`, `sins0`, `tinyRun_eq`   the group and the signers' inputs of `tinyRun 0`, as terms
    * `round_sh0`, `round_sh1`      the schedule `prog 3 1` (103 rounds) has `shRead 0` at the head of round 63 only and
                                    `shRead 1` at the head of round 102 only
    * `chk0_true`, `chk1_true`      kernel evaluation of the run up to these rounds: at every party `checkOcc` holds
                                    with the polynomials `3 + 4·X` (step 1f: `mu = 3`) resp. `4` (step 2f: `s = 4`),
                                    `a_dkg->y = 13`, resp. `r = 7`
    * `tiny_runViews`               `RunViews G0 1 7 [0,1,2] sins0 2 7 4`   (`k = 2`, `a = 7`, `x = 4`: `13 = 2^7`,
                                    `16 = 2^4`, `mu = 3 = 2·7`, `s = 4 = 2·(7 + 4·7)` mod 11)
    * `tiny_valid_through_views`    `dssVerify … 16 7 7 4 = .ok true` for the signature of party 0, THROUGH
                                    `sign_run_valid_views`
  The kernel evaluations use `decide +kernel` (kernel reduction only; no axiom beyond the three standard ones).
-/
namespace Tmcg.CgjkrSignBind
open Tmcg Tmcg.Powm Tmcg.Dkg Tmcg.Grp Tmcg.DkgL Tmcg.DkgP Tmcg.Cgjkr Tmcg.CgjkrSign Tmcg.CgjkrSignRunP
open Tmcg.CgjkrSignEx
open Polynomial

/-- the group of `tinyRun` -/
def G0 : Dkg.Grp :=
  ⟨23, 11, 2, 8, ⟨precomputeGo 23 (max 1 (min (bitlen 11) Gen.TMCG_MAX_FPOWM_T)) 2⟩,
    ⟨precomputeGo 23 (max 1 (min (bitlen 11) Gen.TMCG_MAX_FPOWM_T)) 8⟩⟩

theorem mk0 : mkGrp 23 11 2 8 = .ok G0 := rfl

/-- the signers' inputs of `tinyRun 0`: the results of the key generation run -/
def sins0 : List SignIn :=
  let ins : List PartyIn := (List.range 3).map (fun i => ⟨coins (0 + i) 10, [], {}, {}⟩)
  let gen := runGenC G0 3 1 ins
  gen.map (fun P => ⟨P.st.x, P.st.xp, P.st.xr.C, P.st.xr.qual, coins (0 + 50 + P.st.i) 60, {}, []⟩)

/-- `tinyRun 0` is this run -/
theorem tinyRun_eq : tinyRun 0 = some ((runSign G0 1 7 [0, 1, 2] sins0).map (fun P =>
    (P.status == .ret true, P.st.r, P.st.s,
      ((runGenC G0 3 1 ((List.range 3).map (fun i => ⟨coins (0 + i) 10, [], {}, {}⟩))).map (fun P => P.st.y)).headD 0))) := by
  unfold tinyRun
  rw [mk0]
  rfl

/-! ### the schedule -/

def chkR0 : Bool :=
  (prog 3 1).length == 103 && (List.range 103).all (fun r => !(isSh 0 ((prog 3 1).getD r []).head?) || r == 63)
def chkR1 : Bool :=
  (prog 3 1).length == 103 && (List.range 103).all (fun r => !(isSh 1 ((prog 3 1).getD r []).head?) || r == 102)

theorem chkR0_true : chkR0 = true := by decide +kernel
theorem chkR1_true : chkR1 = true := by decide +kernel

theorem round_of_chk (ph r0 : Nat)
    (h : ((prog 3 1).length == 103 &&
      (List.range 103).all (fun r => !(isSh ph ((prog 3 1).getD r []).head?) || r == r0)) = true)
    (r : Nat) (hr : ((prog 3 1).getD r []).head? = some (.shRead ph)) : r = r0 := by
  simp only [Bool.and_eq_true, beq_iff_eq, List.all_eq_true, List.mem_range, Bool.or_eq_true,
    Bool.not_eq_true'] at h
  obtain ⟨hlen, hall⟩ := h
  by_cases hlt : r < 103
  · rcases hall r hlt with h1 | h1
    · rw [head_isSh ph _ hr] at h1; cases h1
    · exact h1
  · rw [List.getD_eq_default _ _ (by omega)] at hr
    cases hr

theorem round_sh0 (r : Nat) (hr : ((prog 3 1).getD r []).head? = some (.shRead 0)) : r = 63 :=
  round_of_chk 0 63 chkR0_true r hr

theorem round_sh1 (r : Nat) (hr : ((prog 3 1).getD r []).head? = some (.shRead 1)) : r = 102 :=
  round_of_chk 1 102 chkR1_true r hr

/-! ### kernel evaluation of the run -/

/-- at round 63 (step 1f) every party's view passes `checkOcc` with `3 + 4·X`, and `a_dkg->y = 13` -/
def chk0 : Bool :=
  (cfgSign G0 1 7 [0, 1, 2] sins0 63).all (fun P => checkOcc G0 P.st P.inbox 2 3 4 && P.st.ag.y == 13)

/-- at round 102 (step 2f) every party's view passes `checkOcc` with the constant `4`, and `r = 7` -/
def chk1 : Bool :=
  (cfgSign G0 1 7 [0, 1, 2] sins0 102).all (fun P => checkOcc G0 P.st P.inbox 4 4 0 && P.st.r == 7)

/-- party 0 completes with `(r, s) = (7, 4)` -/
def chkF : Bool :=
  match (runSign G0 1 7 [0, 1, 2] sins0)[0]? with
  | some P => P.status == .ret true && P.st.r == 7 && P.st.s == 4
  | none => false

/-- all three signers are honest -/
def chkH : Bool := sins0.length == 3 && sins0.all (fun s => s.dev.honest && s.la.isEmpty)

theorem chk0_true : chk0 = true := by decide +kernel
theorem chk1_true : chk1 = true := by decide +kernel
theorem chkF_true : chkF = true := by decide +kernel
theorem chkH_true : chkH = true := by decide +kernel

end Tmcg.CgjkrSignBind
