import Tmcg.Model.Rabin
import TmcgProofs.Base
import TmcgProofs.Powm
import TmcgProofs.Codec
import TmcgProofs.TmcgOpen
import Mathlib.Data.ZMod.Basic
import Mathlib.NumberTheory.LegendreSymbol.Basic
import Mathlib.NumberTheory.LegendreSymbol.JacobiSymbol
import Mathlib.Data.Int.ModEq
/-
  C10: Rabin key operations — proofs about the model `Tmcg/Model/Rabin.lean`.
-/
namespace Tmcg.RabinProofs
open Tmcg Tmcg.Rabin
open NumberTheorySymbols

/-! ### bytes -/

theorem fit_length (n : Nat) (l : Bytes) : (fit n l).length = n := by
  unfold fit; simp; omega

theorem fit_lt (n : Nat) (l : Bytes) : ∀ b ∈ fit n l, b < 256 := by
  intro b hb
  unfold fit at hb
  rcases List.mem_append.mp hb with h | h
  · obtain ⟨x, -, rfl⟩ := List.mem_map.mp h; exact Nat.mod_lt _ (by norm_num)
  · rw [List.mem_replicate] at h; omega

theorem beVal_append_singleton (l : Bytes) (b : Nat) : beVal (l ++ [b]) = beVal l * 256 + b := by
  unfold beVal; simp [List.foldl_append]

theorem beBytes_length : ∀ (n v : Nat), (beBytes n v).length = n
  | 0, _ => rfl
  | n+1, v => by simp [beBytes, beBytes_length n]

theorem beBytes_lt : ∀ (n v : Nat), ∀ b ∈ beBytes n v, b < 256
  | 0, _ => by simp [beBytes]
  | n+1, v => by
    intro b hb
    simp only [beBytes, List.mem_append, List.mem_singleton] at hb
    rcases hb with h | h
    · exact beBytes_lt n _ b h
    · omega

/-- bytes → value → bytes -/
theorem beBytes_beVal (bs : Bytes) (h : ∀ b ∈ bs, b < 256) : beBytes bs.length (beVal bs) = bs := by
  induction bs using List.reverseRecOn with
  | nil => rfl
  | append_singleton l b ih =>
    have hb : b < 256 := h b (by simp)
    have hl : ∀ x ∈ l, x < 256 := fun x hx => h x (by simp [hx])
    rw [List.length_append, List.length_singleton, beVal_append_singleton, beBytes]
    have h1 : (beVal l * 256 + b) / 256 = beVal l := by omega
    have h2 : (beVal l * 256 + b) % 256 = b := by omega
    rw [h1, h2, ih hl]

theorem beVal_lt (bs : Bytes) (h : ∀ b ∈ bs, b < 256) : beVal bs < 256 ^ bs.length := by
  induction bs using List.reverseRecOn with
  | nil => simp [beVal]
  | append_singleton l b ih =>
    have hb : b < 256 := h b (by simp)
    have hl : ∀ x ∈ l, x < 256 := fun x hx => h x (by simp [hx])
    have := ih hl
    rw [List.length_append, List.length_singleton, beVal_append_singleton, pow_succ]
    omega

/-- value → bytes → value: the low `n` bytes -/
theorem beVal_beBytes : ∀ (n v : Nat), beVal (beBytes n v) = v % 256 ^ n
  | 0, v => by simp [beBytes, beVal, Nat.mod_one]
  | n+1, v => by
    rw [beBytes, beVal_append_singleton, beVal_beBytes n, pow_succ, Nat.mul_comm (256 ^ n) 256, Nat.mod_mul]
    omega

theorem xorBytes_length (a b : Bytes) : (xorBytes a b).length = min a.length b.length := by
  unfold xorBytes; simp

theorem xorBytes_lt (a b : Bytes) (ha : ∀ x ∈ a, x < 256) (hb : ∀ x ∈ b, x < 256) :
    ∀ x ∈ xorBytes a b, x < 256 := by
  induction a generalizing b with
  | nil => simp [xorBytes]
  | cons x xs ih =>
    cases b with
    | nil => simp [xorBytes]
    | cons y ys =>
      intro z hz
      simp only [xorBytes, List.zipWith_cons_cons, List.mem_cons] at hz
      rcases hz with h | h
      · rw [h]; exact Nat.xor_lt_two_pow (n := 8) (ha x (by simp)) (hb y (by simp))
      · exact ih ys (fun w hw => ha w (by simp [hw])) (fun w hw => hb w (by simp [hw])) z h

/-- masking twice with the same pad restores the bytes -/
theorem xorBytes_cancel (a b : Bytes) (h : a.length ≤ b.length) : xorBytes (xorBytes a b) b = a := by
  induction a generalizing b with
  | nil => simp [xorBytes]
  | cons x xs ih =>
    cases b with
    | nil => simp at h
    | cons y ys =>
      simp only [xorBytes, List.zipWith_cons_cons]
      have : (x ^^^ y) ^^^ y = x := by rw [Nat.xor_assoc, Nat.xor_self, Nat.xor_zero]
      rw [this]
      congr 1
      exact ih ys (by simpa using h)

/-! ### arithmetic helpers -/

theorem mpzPowm_ok (b e p : Int) (hp : 0 < p) (he : 0 ≤ e) :
    mpzPowm b e p = .ok (b ^ e.toNat % p) := by
  unfold mpzPowm
  simp only [ne_of_gt hp, if_false, he, if_true, Powm.baz_eq b p hp]

theorem modEq_of_cast {p : Nat} {x y : Int} (h : (x : ZMod p) = (y : ZMod p)) : x ≡ y [ZMOD p] :=
  (ZMod.intCast_eq_intCast_iff x y p).mp h

theorem cast_of_modEq {p : Nat} {x y : Int} (h : x ≡ y [ZMOD p]) : (x : ZMod p) = (y : ZMod p) :=
  (ZMod.intCast_eq_intCast_iff x y p).mpr h

/-- Euler's criterion for the model's Jacobi routine: residues -/
theorem euler_of_jacobi (p : Nat) [Fact p.Prime] (hp2 : p % 2 = 1) (a : Int) (h : jacobi a p = 1) :
    (a : ZMod p) ^ (p / 2) = 1 := by
  rw [TmcgOpen.jacobi_eq_jacobiSym a p hp2, ← jacobiSym.legendreSym.to_jacobiSym] at h
  have := legendreSym.eq_pow p a
  rw [h] at this
  simpa using this.symm

/-- Euler's criterion: non-residues -/
theorem euler_of_jacobi_neg (p : Nat) [Fact p.Prime] (hp2 : p % 2 = 1) (a : Int) (h : jacobi a p = -1) :
    (a : ZMod p) ^ (p / 2) = -1 := by
  rw [TmcgOpen.jacobi_eq_jacobiSym a p hp2, ← jacobiSym.legendreSym.to_jacobiSym] at h
  have := legendreSym.eq_pow p a
  rw [h] at this
  simpa using this.symm

theorem jacobi_zero (p : Nat) (hp : 1 < p) (hp2 : p % 2 = 1) : jacobi 0 p = 0 := by
  rw [TmcgOpen.jacobi_eq_jacobiSym 0 p hp2]; exact jacobiSym.zero_left hp

theorem jacobi_emod (a : Int) (p : Nat) : jacobi (a % (p : Int)) p = jacobi a p := by
  unfold jacobi
  simp only [Int.emod_emod_of_dvd _ (dvd_refl _)]

/-! ### square roots modulo a prime -/

theorem sq_root_3mod4 (p : Nat) (h4 : p % 4 = 3) (x : ZMod p) (hx : x ^ (p / 2) = 1) :
    x ^ ((p + 1) / 4) * x ^ ((p + 1) / 4) = x := by
  rw [← pow_add]
  have : (p + 1) / 4 + (p + 1) / 4 = p / 2 + 1 := by omega
  rw [this, pow_succ, hx, one_mul]

/-- the result of `drawNqr` is a non-residue candidate -/
theorem drawNqr_spec (p : Int) : ∀ (draws : List Nat) (b : Int) (rest : List Nat),
    drawNqr p draws = some (b, rest) → jacobi b p.natAbs = -1
  | [], _, _, h => by simp [drawNqr] at h
  | d :: ds, b, rest, h => by
    unfold drawNqr at h
    simp only at h
    split at h
    · rename_i hj
      simp only [Option.some.injEq, Prod.mk.injEq] at h
      rw [← h.1]; simpa using hj
    · exact drawNqr_spec p ds b rest h

theorem searchNqr_spec (p : Int) : ∀ (f : Nat) (b0 b : Int),
    searchNqr p f b0 = some b → jacobi b p.natAbs = -1
  | 0, _, _, h => by simp [searchNqr] at h
  | f+1, b0, b, h => by
    unfold searchNqr at h
    split at h
    · rename_i hj
      simp only [Option.some.injEq] at h
      rw [← h]; simpa using hj
    · exact searchNqr_spec p f _ b h

/-- **`sqrtmp_sq`**, branches `p ≡ 3 (mod 4)` and `p ≡ 5 (mod 8)`: for a prime `p`, a quadratic
    residue `a` and ANY non-residue handed to the routine, the returned value squares to `a`. -/
theorem sqrtmpWith_sq (p : Nat) (hp : p.Prime) (hmod : p % 4 = 3 ∨ p % 8 = 5) (a : Int)
    (hqr : jacobi a p = 1) (nqr : Option Int) (hn : ∀ b, nqr = some b → jacobi b p = -1)
    (r : Int) (used : Bool) (h : sqrtmpWith a p nqr = .ok (r, used)) :
    r * r ≡ a [ZMOD p] := by
  have : Fact p.Prime := ⟨hp⟩
  have hp1 : 1 < p := hp.one_lt
  have hp2 : p % 2 = 1 := by omega
  have hpos : (0 : Int) < p := by omega
  have ha0 : a ≠ 0 := by
    rintro rfl; rw [jacobi_zero p hp1 hp2] at hqr; exact absurd hqr (by decide)
  have hE := euler_of_jacobi p hp2 a hqr
  apply modEq_of_cast
  unfold sqrtmpWith at h
  simp only [ha0, if_false] at h
  by_cases h4 : (p : Int) % 4 = 3
  · simp only [h4, if_true] at h
    rw [mpzPowm_ok _ _ _ hpos (by omega)] at h
    simp only [Except.ok.injEq, Prod.mk.injEq] at h
    have hk : (((p : Int) + 1) / 4).toNat = (p + 1) / 4 := by omega
    rw [← h.1, hk]
    push_cast
    exact sq_root_3mod4 p (by omega) _ hE
  · have h8 : (p : Int) % 8 = 5 := by omega
    have h8n : p % 8 = 5 := by omega
    simp only [h4, if_false, h8, if_true] at h
    rw [mpzPowm_ok _ _ _ hpos (by omega), mpzPowm_ok _ _ _ hpos (by omega)] at h
    simp only at h
    have hs : (((p : Int) - 1) / 4).toNat = (p - 1) / 4 := by omega
    have hk : (((p : Int) + 3) / 8).toNat = (p + 3) / 8 := by omega
    rw [hs, hk] at h
    set s := (p - 1) / 4 with hsdef
    -- (a^s)^2 = 1
    have hsq : ((a : ZMod p) ^ s) * ((a : ZMod p) ^ s) = 1 := by
      rw [← pow_add]; have : s + s = p / 2 := by omega
      rw [this]; exact hE
    have hroot : ((a : ZMod p) ^ ((p + 3) / 8)) * ((a : ZMod p) ^ ((p + 3) / 8)) = (a : ZMod p) ^ s * a := by
      rw [← pow_add, ← pow_succ]; congr 1; omega
    by_cases hfoo : a ^ s % (p : Int) = 1
    · simp only [hfoo, if_true, Except.ok.injEq, Prod.mk.injEq] at h
      rw [← h.1]
      push_cast
      rw [hroot]
      have : ((a : ZMod p) ^ s) = 1 := by
        have := congrArg (fun z : Int => (z : ZMod p)) hfoo
        simpa [ZMod.intCast_mod] using this
      rw [this, one_mul]
    · simp only [hfoo, if_false] at h
      cases hnq : nqr with
      | none => rw [hnq] at h; simp at h
      | some b =>
        rw [hnq] at h
        simp only at h
        rw [mpzPowm_ok _ _ _ hpos (by omega)] at h
        simp only [hs, Except.ok.injEq, Prod.mk.injEq] at h
        have hb := euler_of_jacobi_neg p hp2 b (hn b hnq)
        have hbs : ((b : ZMod p) ^ s) * ((b : ZMod p) ^ s) = -1 := by
          rw [← pow_add]; have : s + s = p / 2 := by omega
          rw [this]; exact hb
        -- a^s = -1
        have hneg : ((a : ZMod p) ^ s) = -1 := by
          have hne : ((a : ZMod p) ^ s) ≠ 1 := by
            intro h1
            apply hfoo
            have : ((a ^ s : Int) : ZMod p) = ((1 : Int) : ZMod p) := by push_cast; exact h1
            have hm := modEq_of_cast this
            rw [Int.ModEq, Int.emod_eq_of_lt (by norm_num : (0:Int) ≤ 1) (by omega : (1:Int) < p)] at hm
            exact hm
          have : ((a : ZMod p) ^ s - 1) * ((a : ZMod p) ^ s + 1) = 0 := by
            have e : ((a : ZMod p) ^ s - 1) * ((a : ZMod p) ^ s + 1) = (a : ZMod p) ^ s * (a : ZMod p) ^ s - 1 := by ring
            rw [e, hsq]; ring
          rcases mul_eq_zero.mp this with h1 | h1
          · exact absurd (sub_eq_zero.mp h1) hne
          · exact eq_neg_of_add_eq_zero_left h1
        rw [← h.1]
        push_cast
        calc (a : ZMod p) ^ ((p + 3) / 8) * (b : ZMod p) ^ s * ((a : ZMod p) ^ ((p + 3) / 8) * (b : ZMod p) ^ s)
            = ((a : ZMod p) ^ ((p + 3) / 8) * (a : ZMod p) ^ ((p + 3) / 8)) * ((b : ZMod p) ^ s * (b : ZMod p) ^ s) := by ring
          _ = a := by rw [hroot, hbs, hneg]; ring

/-- **`sqrtmp_sq`** for `tmcg_mpz_sqrtmp_r`: whatever candidates are drawn -/
theorem sqrtmp_sq (p : Nat) (hp : p.Prime) (hmod : p % 4 = 3 ∨ p % 8 = 5) (a : Int)
    (hqr : jacobi a p = 1) (draws : List Nat) (r : Int) (rest : List Nat)
    (h : sqrtmpR a p draws = .ok (r, rest)) : r * r ≡ a [ZMOD p] := by
  unfold sqrtmpR at h
  cases hd : drawNqr (p : Int) draws with
  | none =>
    rw [hd] at h
    simp only at h
    cases hw : sqrtmpWith a p none with
    | error e => rw [hw] at h; simp at h
    | ok v =>
      obtain ⟨r', u⟩ := v
      rw [hw] at h
      simp only [Except.ok.injEq, Prod.mk.injEq] at h
      rw [← h.1]
      exact sqrtmpWith_sq p hp hmod a hqr none (by simp) r' u hw
  | some v =>
    obtain ⟨b, rest'⟩ := v
    rw [hd] at h
    simp only at h
    cases hw : sqrtmpWith a p (some b) with
    | error e => rw [hw] at h; simp at h
    | ok v =>
      obtain ⟨r', u⟩ := v
      rw [hw] at h
      simp only [Except.ok.injEq, Prod.mk.injEq] at h
      rw [← h.1]
      refine sqrtmpWith_sq p hp hmod a hqr (some b) ?_ r' u hw
      intro b' hb'
      have := drawNqr_spec (p : Int) draws b rest' hd
      simp only [Option.some.injEq] at hb'
      rw [← hb']; simpa using this

/-- the deterministic variant `tmcg_mpz_sqrtmp` -/
theorem sqrtmp_det_sq (p : Nat) (hp : p.Prime) (hmod : p % 4 = 3 ∨ p % 8 = 5) (a : Int)
    (hqr : jacobi a p = 1) (r : Int) (h : sqrtmp a p = .ok r) : r * r ≡ a [ZMOD p] := by
  unfold sqrtmp at h
  cases hw : sqrtmpWith a p (searchNqr p (p : Int).natAbs 2) with
  | error e => rw [hw] at h; simp at h
  | ok v =>
    obtain ⟨r', u⟩ := v
    rw [hw] at h
    simp only [Except.ok.injEq] at h
    rw [← h]
    refine sqrtmpWith_sq p hp hmod a hqr _ ?_ r' u hw
    intro b hb
    have := searchNqr_spec (p : Int) _ _ b hb
    simpa using this

/-! ### Chinese remaindering -/

theorem sq_of_pm {n x r a : Int} (h : x ≡ r [ZMOD n] ∨ x ≡ -r [ZMOD n]) (hr : r * r ≡ a [ZMOD n]) :
    x * x ≡ a [ZMOD n] := by
  rcases h with h | h
  · exact (h.mul h).trans hr
  · have := h.mul h
    rw [neg_mul_neg] at this
    exact this.trans hr

/-- **`sqrtmn_sq`** (CRT combination): for coprime moduli `p`, `q`, roots `rp`, `rq` of `a` modulo
    `p` and `q` and Bézout products `up ≡ (0, 1)`, `vq ≡ (1, 0)`, all four values built by the
    library square to `a` modulo `p·q`. -/
theorem crtRoots_sq (p q : Nat) (hcop : Nat.Coprime p q) (a rp rq up vq : Int)
    (hp : rp * rp ≡ a [ZMOD p]) (hq : rq * rq ≡ a [ZMOD q])
    (hup0 : up ≡ 0 [ZMOD p]) (hup1 : up ≡ 1 [ZMOD q])
    (hvq1 : vq ≡ 1 [ZMOD p]) (hvq0 : vq ≡ 0 [ZMOD q]) :
    ∀ r1 r2 r3 r4, crtRoots rp rq up vq ((p : Int) * q) = (r1, r2, r3, r4) →
      r1 * r1 ≡ a [ZMOD (p : Int) * q] ∧ r2 * r2 ≡ a [ZMOD (p : Int) * q] ∧
      r3 * r3 ≡ a [ZMOD (p : Int) * q] ∧ r4 * r4 ≡ a [ZMOD (p : Int) * q] := by
  intro r1 r2 r3 r4 h
  unfold crtRoots at h
  simp only [Prod.mk.injEq] at h
  obtain ⟨h1, h2, h3, h4⟩ := h
  rw [h1] at h2
  rw [h3] at h4
  have hc : ((p : Int)).natAbs.Coprime ((q : Int)).natAbs := by simpa using hcop
  have comb : ∀ x : Int, (x ≡ rp [ZMOD p] ∨ x ≡ -rp [ZMOD p]) → (x ≡ rq [ZMOD q] ∨ x ≡ -rq [ZMOD q]) →
      x * x ≡ a [ZMOD (p : Int) * q] := fun x h1 h2 =>
    (Int.modEq_and_modEq_iff_modEq_mul hc).mp ⟨sq_of_pm h1 hp, sq_of_pm h2 hq⟩
  have n0p : ((p : Int) * q) ≡ 0 [ZMOD p] := Int.modEq_zero_iff_dvd.mpr (dvd_mul_right _ _)
  have n0q : ((p : Int) * q) ≡ 0 [ZMOD q] := Int.modEq_zero_iff_dvd.mpr (dvd_mul_left _ _)
  -- r1
  have e1p : r1 ≡ rp [ZMOD p] := by
    rw [← h1]
    refine ((Int.mod_modEq _ _).of_mul_right _).trans ?_
    have := (hup0.mul_left rq).add (hvq1.mul_left rp)
    simpa using this
  have e1q : r1 ≡ rq [ZMOD q] := by
    rw [← h1]
    refine ((Int.mod_modEq _ _).of_mul_left _).trans ?_
    have := (hup1.mul_left rq).add (hvq0.mul_left rp)
    simpa using this
  have e3p : r3 ≡ rp [ZMOD p] := by
    rw [← h3]
    refine ((Int.mod_modEq _ _).of_mul_right _).trans ?_
    have := (hup0.mul_left (-rq)).add (hvq1.mul_left rp)
    simpa using this
  have e3q : r3 ≡ -rq [ZMOD q] := by
    rw [← h3]
    refine ((Int.mod_modEq _ _).of_mul_left _).trans ?_
    have := (hup1.mul_left (-rq)).add (hvq0.mul_left rp)
    simpa using this
  have e2p : r2 ≡ -rp [ZMOD p] := by
    rw [← h2]; have := n0p.sub e1p; simpa using this
  have e2q : r2 ≡ -rq [ZMOD q] := by
    rw [← h2]; have := n0q.sub e1q; simpa using this
  have e4p : r4 ≡ -rp [ZMOD p] := by
    rw [← h4]; have := n0p.sub e3p; simpa using this
  have e4q : r4 ≡ rq [ZMOD q] := by
    rw [← h4]; have := n0q.sub e3q; simpa using this
  exact ⟨comb r1 (.inl e1p) (.inl e1q), comb r2 (.inr e2p) (.inr e2q),
    comb r3 (.inl e3p) (.inr e3q), comb r4 (.inr e4p) (.inl e4q)⟩

/-- the extended Euclid of the model returns Bézout coefficients -/
theorem gcdextGo_bezout (a b : Int) : ∀ (f : Nat) (r0 r1 s0 s1 t0 t1 : Int),
    r0 = s0 * a + t0 * b → r1 = s1 * a + t1 * b →
    (gcdextGo f r0 r1 s0 s1 t0 t1).1 =
      (gcdextGo f r0 r1 s0 s1 t0 t1).2.1 * a + (gcdextGo f r0 r1 s0 s1 t0 t1).2.2 * b
  | 0, _, _, _, _, _, _, h0, _ => by simpa [gcdextGo] using h0
  | f+1, r0, r1, s0, s1, t0, t1, h0, h1 => by
    unfold gcdextGo
    split
    · simpa using h0
    · exact gcdextGo_bezout a b f _ _ _ _ _ _ h1 (by rw [h0, h1]; ring)

theorem gcdext_bezout (a b g u v : Int) (h : gcdext a b = (g, u, v)) : g = u * a + v * b := by
  have := gcdextGo_bezout a b (2 * (bitlen a + bitlen b) + 2) a b 1 0 0 1 (by ring) (by ring)
  unfold gcdext at h
  rw [h] at this
  exact this

/-! ### well-formed keys -/

/-- a Blum key: `m = p·q`, `p ≠ q` primes, both `≡ 3 (mod 4)` (what `generate` produces) -/
structure BlumKey (K : SecKey) : Prop where
  p_pos : 0 < K.p
  q_pos : 0 < K.q
  p_prime : K.p.natAbs.Prime
  q_prime : K.q.natAbs.Prime
  p3 : K.p % 4 = 3
  q3 : K.q % 4 = 3
  ne : K.p ≠ K.q
  m_eq : K.m = K.p * K.q

/-- what `sign` / `decrypt` need from the pre-computed values -/
structure PreOk (K : SecKey) (P : Pre) : Prop where
  up0 : P.up ≡ 0 [ZMOD K.p]
  up1 : P.up ≡ 1 [ZMOD K.q]
  vq1 : P.vq ≡ 1 [ZMOD K.p]
  vq0 : P.vq ≡ 0 [ZMOD K.q]
  pa : P.pa1d4 = (K.p + 1) / 4
  qa : P.qa1d4 = (K.q + 1) / 4

/-- `precompute` establishes `PreOk` -/
theorem precompute_ok (K : SecKey) (P : Pre) (h : precompute K = some P) : PreOk K P := by
  unfold precompute at h
  cases h1 : invm K.y K.m with
  | none => simp [h1] at h
  | some y1 =>
    cases h2 : invm K.m (K.m - K.p - K.q + 1) with
    | none => simp [h1, h2] at h
    | some m1 =>
      rcases hg : gcdext K.p K.q with ⟨g, u, v⟩
      simp only [h1, h2, hg] at h
      by_cases hg1 : g = 1
      · simp only [hg1, ne_eq, not_true_eq_false, if_false, Option.some.injEq] at h
        subst h
        have hb := gcdext_bezout _ _ _ _ _ hg
        subst hg1
        exact ⟨Int.modEq_zero_iff_dvd.mpr (dvd_mul_left _ _),
          Int.modEq_iff_dvd.mpr ⟨v, by linear_combination hb⟩,
          Int.modEq_iff_dvd.mpr ⟨u, by linear_combination hb⟩,
          Int.modEq_zero_iff_dvd.mpr (dvd_mul_left _ _), rfl, rfl⟩
      · simp [hg1] at h

theorem root3mod4 (p : Nat) (hp : p.Prime) (h4 : p % 4 = 3) (a : Int) (hqr : jacobi a p = 1) :
    (a ^ (((p : Int) + 1) / 4).toNat % (p : Int)) * (a ^ (((p : Int) + 1) / 4).toNat % (p : Int)) ≡ a [ZMOD p] := by
  have hp1 : 1 < p := hp.one_lt
  have hpos : (0 : Int) < p := by omega
  have ha0 : a ≠ 0 := by
    rintro rfl; rw [jacobi_zero p hp1 (by omega)] at hqr; exact absurd hqr (by decide)
  have h4' : (p : Int) % 4 = 3 := by omega
  have : sqrtmpWith a p none = .ok (a ^ (((p : Int) + 1) / 4).toNat % (p : Int), false) := by
    unfold sqrtmpWith
    simp only [ha0, if_false, h4', if_true]
    rw [mpzPowm_ok _ _ _ hpos (by omega)]
  exact sqrtmpWith_sq p hp (.inl h4) a hqr none (by simp) _ _ this

theorem qrmn_iff (a p q : Int) : qrmn a p q = true ↔ jacobi a p.natAbs = 1 ∧ jacobi a q.natAbs = 1 := by
  unfold qrmn; simp

/-- **`sqrtmn_sq`** for `tmcg_mpz_sqrtmn_fast_all`: for a Blum key with well-formed pre-computed
    values and a quadratic residue `a`, the call succeeds and all four roots square to `a`. -/
theorem sqrtmnFastAll_sq (K : SecKey) (P : Pre) (hK : BlumKey K) (hP : PreOk K P) (a : Int)
    (hqr : qrmn a K.p K.q = true) :
    ∃ r1 r2 r3 r4, sqrtmnFastAll a K.p K.q K.m P.up P.vq P.pa1d4 P.qa1d4 = .ok (r1, r2, r3, r4) ∧
      r1 * r1 ≡ a [ZMOD K.m] ∧ r2 * r2 ≡ a [ZMOD K.m] ∧ r3 * r3 ≡ a [ZMOD K.m] ∧ r4 * r4 ≡ a [ZMOD K.m] := by
  obtain ⟨hjp, hjq⟩ := (qrmn_iff _ _ _).mp hqr
  have ep : K.p = (K.p.natAbs : Int) := (Int.natAbs_of_nonneg hK.p_pos.le).symm
  have eq : K.q = (K.q.natAbs : Int) := (Int.natAbs_of_nonneg hK.q_pos.le).symm
  have hcop : Nat.Coprime K.p.natAbs K.q.natAbs := by
    rw [Nat.coprime_primes hK.p_prime hK.q_prime]
    intro h; apply hK.ne; rw [ep, eq, h]
  have h4p : K.p.natAbs % 4 = 3 := by have := hK.p3; omega
  have h4q : K.q.natAbs % 4 = 3 := by have := hK.q3; omega
  have rp := root3mod4 _ hK.p_prime h4p a hjp
  have rq := root3mod4 _ hK.q_prime h4q a hjq
  rw [← ep] at rp
  rw [← eq] at rq
  unfold sqrtmnFastAll
  rw [hP.pa, hP.qa, mpzPowm_ok _ _ _ hK.p_pos (by have := hK.p_pos; omega),
    mpzPowm_ok _ _ _ hK.q_pos (by have := hK.q_pos; omega)]
  simp only
  rcases hc : crtRoots (a ^ ((K.p + 1) / 4).toNat % K.p) (a ^ ((K.q + 1) / 4).toNat % K.q) P.up P.vq K.m
    with ⟨r1, r2, r3, r4⟩
  refine ⟨r1, r2, r3, r4, rfl, ?_⟩
  have hm : K.m = (K.p.natAbs : Int) * (K.q.natAbs : Int) := by rw [← ep, ← eq]; exact hK.m_eq
  rw [hm] at hc ⊢
  refine crtRoots_sq _ _ hcop a _ _ P.up P.vq ?_ ?_ ?_ ?_ ?_ ?_ r1 r2 r3 r4 hc
  · rw [← ep]; exact rp
  · rw [← eq]; exact rq
  · rw [← ep]; exact hP.up0
  · rw [← eq]; exact hP.up1
  · rw [← ep]; exact hP.vq1
  · rw [← eq]; exact hP.vq0

/-! ### key identifiers and the text frame -/

/-- the key's own identifier has the full length (true for every generated key: the value of a
    self-signature has far more than 8 digits) or the key carries no parsable self-signature -/
def KeyIdOk (sig : Text) : Prop := selfid sig = ERROR ∨ Gen.TMCG_KEYID_SIZE ≤ (selfid sig).length

theorem not_mem_take_idxOf (p : Char) : ∀ l : List Char, p ∉ l.take (l.idxOf p)
  | [] => by simp
  | c :: cs => by
    by_cases h : c = p
    · subst h; simp
    · rw [List.idxOf_cons_ne _ h]
      simp only [List.take_succ_cons, List.mem_cons, not_or]
      exact ⟨fun e => h e.symm, not_mem_take_idxOf p cs⟩

theorem gs_no_delim (cs : List Char) (p : Char) (t : List Char) (h : Codec.gs cs p = some t) : p ∉ t := by
  unfold Codec.gs Codec.findChar at h
  by_cases hi : List.idxOf p cs < cs.length
  · simp only [hi, if_true, Option.map_some, Option.some.injEq] at h
    rw [← h]; exact not_mem_take_idxOf p cs
  · simp [hi] at h

theorem selfid_no_bar (sig : Text) : '|' ∉ selfid sig := by
  unfold selfid
  split
  · decide
  · split
    · decide
    · split
      · decide
      · split
        · decide
        · rename_i t ht
          exact gs_no_delim _ _ _ ht

theorem keyid_no_bar (sig : Text) (n : Nat) : '|' ∉ keyid sig n := by
  unfold keyid
  simp only
  split
  · decide
  · intro h
    simp only [List.append_assoc, List.mem_append] at h
    rcases h with h | h | h | h
    · revert h; decide
    · have := Codec.toString_toList n
      obtain ⟨h1, -, -⟩ := Codec.toDigits10_spec n
      rw [this] at h
      obtain ⟨d, hd, hc⟩ := h1 _ h
      have := (Codec.digitChar_facts d hd)
      rw [← hc] at this
      exact absurd this.2.1 (by decide)
    · revert h; decide
    · exact selfid_no_bar sig (List.mem_of_mem_drop h)

theorem keyidSize_mk' (n : Nat) (ds suf : Text) (hd : ds ≠ []) (hnot : '^' ∉ ds)
    (hstr : Codec.strtoulFull ds = some n) (hs : suf.length = n) :
    keyidSize (['I', 'D'] ++ ds ++ ['^'] ++ suf) = n := by
  have hdl : 0 < ds.length := List.length_pos_of_ne_nil hd
  have hnot' : '^' ∉ (['I', 'D'] ++ ds) := by
    intro h
    rcases List.mem_append.mp h with h | h
    · revert h; decide
    · exact hnot h
  have e : ['I', 'D'] ++ ds ++ ['^'] ++ suf = (['I', 'D'] ++ ds) ++ '^' :: suf := by
    simp only [List.append_assoc, List.singleton_append]
  have hfind : Codec.findChar (['I', 'D'] ++ ds ++ ['^'] ++ suf) '^' = some (2 + ds.length) := by
    rw [e, Codec.findChar_split _ suf '^' hnot', List.length_append]; rfl
  have hlen : (['I', 'D'] ++ ds ++ ['^'] ++ suf).length = 2 + ds.length + 1 + n := by
    simp only [List.length_append, List.length_cons, List.length_nil, hs]
  have htake : List.take 2 (['I', 'D'] ++ ds ++ ['^'] ++ suf) = ['I', 'D'] := by
    simp [List.append_assoc]
  have hdrop : List.take (2 + ds.length - 2) (List.drop 2 (['I', 'D'] ++ ds ++ ['^'] ++ suf)) = ds := by
    simp [List.append_assoc]
  unfold keyidSize
  rw [hfind]
  simp only [hlen, htake, hdrop, hstr]
  have hID : txt "ID" = ['I', 'D'] := rfl
  rw [hID]
  have h1 : ¬ (2 + ds.length + 1 + n < 4 ∨ (['I', 'D'] : Text) ≠ ['I', 'D']) := by
    simp; omega
  rw [if_neg h1]
  have h2 : n = 2 + ds.length + 1 + n - (2 + ds.length) - 1 := by omega
  rw [if_neg (by intro h; exact h h2)]

theorem keyidSize_mk (n : Nat) (hn : n < 2 ^ 64) (suf : Text) (hs : suf.length = n) :
    keyidSize (txt "ID" ++ (toString n).toList ++ ['^'] ++ suf) = n := by
  have hd : (toString n).toList ≠ [] := by
    rw [Codec.toString_toList]; exact (Codec.toDigits10_spec n).2.2
  exact keyidSize_mk' n _ suf hd (Codec.hat_notMem_toString n) (Codec.strtoulFull_toString n hn) hs

theorem keyid_error (sig : Text) (h : selfid sig = ERROR) (n : Nat) : keyid sig n = ERROR := by
  unfold keyid; simp [h]

/-- the identifier `sign`/`encrypt` write is the one `verify`/`decrypt` recompute -/
theorem keyid_roundtrip (sig : Text) (h : KeyIdOk sig) :
    keyid sig (keyidSize (keyid sig Gen.TMCG_KEYID_SIZE)) = keyid sig Gen.TMCG_KEYID_SIZE := by
  by_cases he : selfid sig = ERROR
  · rw [keyid_error sig he, keyid_error sig he]
  · have hl : Gen.TMCG_KEYID_SIZE ≤ (selfid sig).length := by
      rcases h with h | h
      · exact absurd h he
      · exact h
    have hk : keyid sig Gen.TMCG_KEYID_SIZE = txt "ID" ++ (toString Gen.TMCG_KEYID_SIZE).toList ++ ['^'] ++
        (selfid sig).drop ((selfid sig).length - Gen.TMCG_KEYID_SIZE) := by
      unfold keyid
      simp only [he, if_false, Nat.min_eq_left hl]
    rw [hk, keyidSize_mk _ (by decide) _ (by rw [List.length_drop]; omega)]
    exact hk

theorem parseValue_frame (magic : String) (hm : '|' ∉ magic.toList) (sig : Text) (hk : KeyIdOk sig) (v : Int) :
    parseValue magic sig (magic.toList ++ bar ++ keyid sig Gen.TMCG_KEYID_SIZE ++ bar ++ str62 v ++ bar) = some v := by
  have e1 : magic.toList ++ bar ++ keyid sig Gen.TMCG_KEYID_SIZE ++ bar ++ str62 v ++ bar
      = magic.toList ++ '|' :: (keyid sig Gen.TMCG_KEYID_SIZE ++ '|' :: (str62 v ++ '|' :: [])) := by
    simp [bar, List.append_assoc]
  unfold parseValue
  rw [e1, Codec.cm_split magic _ '|' hm]
  simp only
  rw [Codec.gs_split _ _ '|' (keyid_no_bar sig _), Codec.nx_split _ _ '|' (keyid_no_bar sig _)]
  simp only [keyid_roundtrip sig hk, ne_eq, not_true_eq_false, if_false]
  have hb : '|' ∉ str62 v := Codec.bar_notMem_str62 v
  unfold intField field
  rw [Codec.gs_split _ _ '|' hb, Codec.nx_split _ _ '|' hb]
  simp only
  have : parse62 (str62 v) = some v := by
    unfold parse62 str62
    have : String.ofList (Codec.str62 v).toList = Codec.str62 v := by simp
    rw [this, Codec.parse62_str62]
  rw [this]

/-! ### PRab: `verify (sign …) = true` -/

theorem take_app3 (a b c : Bytes) : (a ++ b ++ c).take a.length = a := by
  rw [List.append_assoc, List.take_left' rfl]
theorem drop_take_app3 (a b c : Bytes) : ((a ++ b ++ c).drop a.length).take b.length = b := by
  rw [List.append_assoc, List.drop_left' rfl, List.take_left' rfl]
theorem drop_app3 (a b c : Bytes) (n : Nat) (h : n = a.length + b.length) : (a ++ b ++ c).drop n = c := by
  rw [List.drop_left' (by rw [List.length_append, h])]

theorem pad_parts (O : Oracles) (mnsize : Nat) (hmn : mdsize + K0 < mnsize) (data r : Bytes) :
    let r' := fit K0 r
    let w := fit mdsize (O.h (data ++ r'))
    let g12 := fit (mnsize - mdsize) (O.g w (mnsize - mdsize))
    let x := xorBytes r' (g12.take K0)
    w.length = mdsize ∧ x.length = K0 ∧ (g12.drop K0).length = mnsize - mdsize - K0 ∧
    (w ++ x ++ g12.drop K0).length = mnsize ∧ (∀ b ∈ w ++ x ++ g12.drop K0, b < 256) ∧
    xorBytes x (g12.take K0) = r' := by
  intro r' w g12 x
  have hw : w.length = mdsize := fit_length _ _
  have hg : g12.length = mnsize - mdsize := fit_length _ _
  have hr : r'.length = K0 := fit_length _ _
  have hgt : (g12.take K0).length = K0 := by rw [List.length_take, hg]; omega
  have hx : x.length = K0 := by
    show (xorBytes r' (g12.take K0)).length = K0
    rw [xorBytes_length, hr, hgt]; simp
  have hd : (g12.drop K0).length = mnsize - mdsize - K0 := by rw [List.length_drop, hg]
  refine ⟨hw, hx, hd, ?_, ?_, ?_⟩
  · rw [List.length_append, List.length_append, hw, hx, hd]; omega
  · intro b hb
    rcases List.mem_append.mp hb with hb | hb
    · rcases List.mem_append.mp hb with hb | hb
      · exact fit_lt _ _ b hb
      · exact xorBytes_lt _ _ (fit_lt _ _) (fun y hy => fit_lt _ _ y (List.mem_of_mem_take hy)) b hb
    · exact fit_lt _ _ b (List.mem_of_mem_drop hb)
  · exact xorBytes_cancel _ _ (by rw [hr, hgt])

/-- the padded value passes the padding equations of `verify` -/
theorem padOk_padValue (O : Oracles) (mnsize : Nat) (hmn : mdsize + K0 < mnsize) (data r : Bytes) :
    padOk O mnsize data (padValue O mnsize data r) = true := by
  obtain ⟨hw, hx, hd, hlen, hlt, hcancel⟩ := pad_parts O mnsize hmn data r
  unfold padOk padValue
  simp only
  generalize fit K0 r = r' at *
  generalize hwdef : fit mdsize (O.h (data ++ r')) = w at *
  generalize hgdef : fit (mnsize - mdsize) (O.g w (mnsize - mdsize)) = g12 at *
  generalize hxdef : xorBytes r' (g12.take K0) = x at *
  have hbb := beBytes_beVal (w ++ x ++ g12.drop K0) hlt
  rw [hlen] at hbb
  rw [hbb]
  have t1 : (w ++ x ++ g12.drop K0).take mdsize = w := by rw [← hw]; exact take_app3 _ _ _
  have t2 : ((w ++ x ++ g12.drop K0).drop mdsize).take K0 = x := by
    rw [← hw, ← hx]; exact drop_take_app3 _ _ _
  have t3 : (w ++ x ++ g12.drop K0).drop (mdsize + K0) = g12.drop K0 := drop_app3 _ _ _ _ (by rw [hw, hx])
  rw [t1, t2, t3, hgdef, hcancel, hwdef]
  simp

theorem padValue_lt (O : Oracles) (mnsize : Nat) (hmn : mdsize + K0 < mnsize) (data r : Bytes) :
    padValue O mnsize data r < 256 ^ mnsize := by
  obtain ⟨-, -, -, hlen, hlt, -⟩ := pad_parts O mnsize hmn data r
  have := beVal_lt _ hlt
  rw [hlen] at this
  exact this

theorem firstQr_spec (O : Oracles) (p q : Int) (mnsize : Nat) (data : Bytes) :
    ∀ (rs : List Bytes) (foo : Nat), firstQr O p q mnsize data rs = some foo →
      ∃ r ∈ rs, foo = padValue O mnsize data r ∧ qrmn foo p q = true
  | [], _, h => by simp [firstQr] at h
  | r :: rs, foo, h => by
    unfold firstQr at h
    simp only at h
    split at h
    · rename_i hq
      simp only [Option.some.injEq] at h
      exact ⟨r, by simp, h.symm, by rw [← h]; exact hq⟩
    · obtain ⟨r', hr', h1, h2⟩ := firstQr_spec O p q mnsize data rs foo h
      exact ⟨r', by simp [hr'], h1, h2⟩

theorem bitlen_le_of_lt (x k : Nat) (hk : 1 ≤ k) (h : x < 2 ^ k) : bitlen (x : Int) ≤ k := by
  unfold bitlen
  simp only [Int.natAbs_natCast]
  by_cases h0 : x = 0
  · simp [h0]; exact hk
  · simp only [h0, if_false]
    have := (Nat.log2_lt h0).mpr h
    omega

/-- for a non-zero value: at most `k` bits iff below `2^k` -/
theorem bitlen_le_iff (x k : Nat) (hx : x ≠ 0) : bitlen (x : Int) ≤ k ↔ x < 2 ^ k := by
  unfold bitlen
  simp only [Int.natAbs_natCast, hx, if_false]
  rw [← Nat.log2_lt hx]; omega

theorem pow256 (n : Nat) : (256 : Nat) ^ n = 2 ^ (n * 8) := by
  rw [show (256 : Nat) = 2 ^ 8 by norm_num, ← pow_mul, Nat.mul_comm]

theorem two_pow_le_of_bitlen (x : Int) (hx : x ≠ 0) : 2 ^ (bitlen x - 1) ≤ x.natAbs := by
  unfold bitlen
  have : x.natAbs ≠ 0 := Int.natAbs_ne_zero.mpr hx
  simp only [this, if_false, Nat.add_sub_cancel]
  exact Nat.log2_self_le this

/-- what `verify` computes from a value `v` whose square is the padded value -/
theorem verify_of_root (O : Oracles) (m : Int) (hm : 0 < m) (sig : Text) (hid : KeyIdOk sig) (data r : Bytes) (v : Int)
    (hL : bitlen m > bitlen m / 8 * 8) (hmn : bitlen m / 8 > mdsize + K0)
    (hne : padValue O (bitlen m / 8) data r ≠ 0)
    (hv : v * v ≡ (padValue O (bitlen m / 8) data r : Int) [ZMOD m]) :
    verify O m sig data (sigText (keyid sig Gen.TMCG_KEYID_SIZE) v) = true := by
  have hfr : sigText (keyid sig Gen.TMCG_KEYID_SIZE) v
      = "sig".toList ++ bar ++ keyid sig Gen.TMCG_KEYID_SIZE ++ bar ++ str62 v ++ bar := by
    unfold sigText; rfl
  unfold verify
  rw [hfr, parseValue_frame "sig" (by decide) sig hid v]
  simp only
  rw [if_neg (by omega), if_neg (by omega)]
  have hlt : (padValue O (bitlen m / 8) data r : Int) < m := by
    have h1 := padValue_lt O (bitlen m / 8) (by omega) data r
    have h2 := two_pow_le_of_bitlen m (ne_of_gt hm)
    have h3 : (256 : Nat) ^ (bitlen m / 8) ≤ 2 ^ (bitlen m - 1) := by
      rw [show (256 : Nat) = 2 ^ 8 by norm_num, ← pow_mul]
      exact Nat.pow_le_pow_right (by norm_num) (by omega)
    have h4 : (m.natAbs : Int) = m := Int.natAbs_of_nonneg hm.le
    have : padValue O (bitlen m / 8) data r < m.natAbs := by omega
    omega
  have hfoo : (v * v % m).toNat = padValue O (bitlen m / 8) data r := by
    have : v * v % m = (padValue O (bitlen m / 8) data r : Int) := by
      rw [hv, Int.emod_eq_of_lt (by omega) hlt]
    rw [this, Int.toNat_natCast]
  have hfit : ¬ (padValue O (bitlen m / 8) data r = 0 ∨
      bitlen ((padValue O (bitlen m / 8) data r : Nat) : Int) > bitlen m / 8 * 8) := by
    have h1 := padValue_lt O (bitlen m / 8) (by omega) data r
    rw [pow256] at h1
    have := (bitlen_le_iff _ _ hne).mpr h1
    omega
  rw [hfoo, if_neg hfit]
  exact padOk_padValue O _ (by omega) data r

/-- what `sign` returns: the text frame around a square root of the padded value of one of the seeds -/
theorem sign_spec (O : Oracles) (K : SecKey) (P : Pre) (hK : BlumKey K) (hP : PreOk K P)
    (data : Bytes) (rs : List Bytes) (idx : Nat) (s : Text)
    (h : sign O K P data rs idx = .ok s) :
    bitlen K.m > bitlen K.m / 8 * 8 ∧ bitlen K.m / 8 > mdsize + K0 ∧
    ∃ (r : Bytes) (root : Int), s = sigText (keyid K.sig Gen.TMCG_KEYID_SIZE) root ∧
      padValue O (bitlen K.m / 8) data r ≠ 0 ∧
      root * root ≡ (padValue O (bitlen K.m / 8) data r : Int) [ZMOD K.m] := by
  unfold sign at h
  simp only at h
  by_cases hL : bitlen K.m > bitlen K.m / 8 * 8
  swap
  · simp [hL] at h
  by_cases hmn : bitlen K.m / 8 > mdsize + K0
  swap
  · simp [hL, hmn] at h
  simp only [hL, hmn, not_true_eq_false, if_false] at h
  refine ⟨hL, hmn, ?_⟩
  cases hf : firstQr O K.p K.q (bitlen K.m / 8) data rs with
  | none => rw [hf] at h; simp at h
  | some foo =>
    rw [hf] at h
    simp only at h
    obtain ⟨r, -, hfoo, hqr⟩ := firstQr_spec O K.p K.q _ data rs foo hf
    obtain ⟨r1, r2, r3, r4, hroots, s1, s2, s3, s4⟩ := sqrtmnFastAll_sq K P hK hP foo hqr
    rw [hroots] at h
    simp only [Except.ok.injEq] at h
    have hne : padValue O (bitlen K.m / 8) data r ≠ 0 := by
      rw [← hfoo]; rintro rfl
      have := ((qrmn_iff _ _ _).mp hqr).1
      rw [Nat.cast_zero, jacobi_zero _ hK.p_prime.one_lt (by have := hK.p3; omega)] at this
      exact absurd this (by decide)
    have hsel : ∀ v, v ∈ [r1, r2, r3, r4] → v * v ≡ (foo : Int) [ZMOD K.m] := by
      intro v hv
      simp only [List.mem_cons, List.not_mem_nil, or_false] at hv
      rcases hv with rfl | rfl | rfl | rfl <;> assumption
    have hmem : [r1, r2, r3, r4].getD (idx % 4) 0 ∈ [r1, r2, r3, r4] := by
      have : idx % 4 < 4 := Nat.mod_lt _ (by norm_num)
      have h4 : idx % 4 = 0 ∨ idx % 4 = 1 ∨ idx % 4 = 2 ∨ idx % 4 = 3 := by omega
      rcases h4 with e | e | e | e <;> rw [e] <;> simp
    have := hsel _ hmem
    rw [hfoo] at this
    exact ⟨r, _, h.symm, hne, this⟩

/-- **`verify_sign`**: for every Blum key (`m = p·q`, `p ≡ q ≡ 3 (mod 4)`) with well-formed
    pre-computed values, every data string, all coins and ARBITRARY oracles `h`, `g`: whenever `sign`
    returns a signature (its size assertions hold and one of the drawn seeds gives a quadratic
    residue), `verify` accepts it. -/
theorem verify_sign (O : Oracles) (K : SecKey) (P : Pre) (hK : BlumKey K) (hP : PreOk K P)
    (hid : KeyIdOk K.sig) (data : Bytes) (rs : List Bytes) (idx : Nat) (s : Text)
    (h : sign O K P data rs idx = .ok s) : verify O K.m K.sig data s = true := by
  obtain ⟨hL, hmn, r, root, rfl, hne, hsq⟩ := sign_spec O K P hK hP data rs idx s h
  have hmpos : 0 < K.m := by rw [hK.m_eq]; exact Int.mul_pos hK.p_pos hK.q_pos
  exact verify_of_root O K.m hmpos K.sig hid data r _ hL hmn hne hsq

/-! ### exact acceptance condition of `verify` -/

theorem fit_id (n : Nat) (l : Bytes) (hl : l.length = n) (hb : ∀ b ∈ l, b < 256) : fit n l = l := by
  unfold fit
  rw [← hl, List.take_length, Nat.sub_self, List.replicate_zero, List.append_nil]
  conv_rhs => rw [← List.map_id l]
  apply List.map_congr_left
  intro b hbm
  exact Nat.mod_eq_of_lt (hb b hbm)

theorem beBytes_mod : ∀ (n v : Nat), beBytes n (v % 256 ^ n) = beBytes n v
  | 0, _ => rfl
  | n+1, v => by
    rw [beBytes, beBytes]
    have h1 : v % 256 ^ (n + 1) / 256 = v / 256 % 256 ^ n := by
      rw [pow_succ, Nat.mul_comm]; exact Nat.mod_mul_right_div_self v 256 (256 ^ n)
    have h2 : v % 256 ^ (n + 1) % 256 = v % 256 := by
      rw [pow_succ]; exact Nat.mod_mul_left_mod v (256 ^ n) 256
    rw [h1, h2, beBytes_mod n (v / 256)]

/-- the padding equations hold for `foo` iff the low `mnsize` bytes of `foo` are the padded value
    of the data for some seed -/
theorem padOk_iff (O : Oracles) (mnsize : Nat) (hmn : mdsize + K0 < mnsize) (data : Bytes) (foo : Nat) :
    padOk O mnsize data foo = true ↔
      ∃ r : Bytes, r.length = K0 ∧ (∀ b ∈ r, b < 256) ∧ foo % 256 ^ mnsize = padValue O mnsize data r := by
  constructor
  · intro h
    unfold padOk at h
    simp only [Bool.and_eq_true, beq_iff_eq] at h
    obtain ⟨hw, hgam⟩ := h
    set yy := beBytes mnsize foo with hyy
    have hyl : yy.length = mnsize := beBytes_length _ _
    have hyb : ∀ b ∈ yy, b < 256 := beBytes_lt _ _
    set w := yy.take mdsize with hwdef
    set x := (yy.drop mdsize).take K0 with hxdef
    set g12 := fit (mnsize - mdsize) (O.g w (mnsize - mdsize)) with hgdef
    have hg : g12.length = mnsize - mdsize := fit_length _ _
    have hgt : (g12.take K0).length = K0 := by rw [List.length_take, hg]; omega
    have hxl : x.length = K0 := by rw [hxdef, List.length_take, List.length_drop, hyl]; omega
    have hxb : ∀ b ∈ x, b < 256 := fun b hb => hyb b (List.mem_of_mem_drop (List.mem_of_mem_take hb))
    refine ⟨xorBytes x (g12.take K0), ?_, ?_, ?_⟩
    · rw [xorBytes_length, hxl, hgt]; simp
    · exact xorBytes_lt _ _ hxb (fun y hy => fit_lt _ _ y (List.mem_of_mem_take hy))
    · unfold padValue
      simp only
      have hrl : (xorBytes x (g12.take K0)).length = K0 := by rw [xorBytes_length, hxl, hgt]; simp
      rw [fit_id K0 _ hrl (xorBytes_lt _ _ hxb (fun y hy => fit_lt _ _ y (List.mem_of_mem_take hy)))]
      rw [← hw, ← hgdef, xorBytes_cancel x (g12.take K0) (by rw [hxl, hgt]), ← hgam]
      have hsplit : w ++ x ++ yy.drop (mdsize + K0) = yy := by
        rw [hwdef, hxdef, List.append_assoc]
        conv_rhs => rw [← List.take_append_drop mdsize yy]
        congr 1
        conv_rhs => rw [← List.take_append_drop K0 (yy.drop mdsize)]
        rw [List.drop_drop]
      rw [hsplit, hyy, beVal_beBytes]
  · rintro ⟨r, hrl, hrb, hfoo⟩
    have := padOk_padValue O mnsize hmn data r
    unfold padOk at this ⊢
    rw [← beBytes_mod, hfoo]
    exact this

/-- **`verify_accepts_iff`**: the exact acceptance condition of `verify`.  A signature text is
    accepted iff it parses (magic `sig`, a key id that is a suffix id of this key, a base-62
    value `v`), the modulus passes the two size guards, and `v² mod m` IS the (non-zero) PRab
    padding of the data for some seed — the whole value, not only its low bytes. -/
theorem verify_accepts_iff (O : Oracles) (m : Int) (sig : Text) (data : Bytes) (s : Text) :
    verify O m sig data s = true ↔
      ∃ v, parseValue "sig" sig s = some v ∧ bitlen m > bitlen m / 8 * 8 ∧ bitlen m / 8 > mdsize + K0 ∧
        (v * v % m).toNat ≠ 0 ∧
        ∃ r : Bytes, r.length = K0 ∧ (∀ b ∈ r, b < 256) ∧
          (v * v % m).toNat = padValue O (bitlen m / 8) data r := by
  unfold verify
  cases hp : parseValue "sig" sig s with
  | none => simp
  | some v =>
    simp only [Option.some.injEq, exists_eq_left']
    by_cases h1 : bitlen m ≤ bitlen m / 8 * 8
    · simp only [h1, if_true]; constructor
      · intro h; exact absurd h (by simp)
      · rintro ⟨h, -⟩; omega
    · by_cases h2 : bitlen m / 8 ≤ mdsize + K0
      · simp only [h1, h2, if_true, if_false]; constructor
        · intro h; exact absurd h (by simp)
        · rintro ⟨-, h, -⟩; omega
      · by_cases h3 : (v * v % m).toNat = 0
        · simp only [h1, h2, h3, true_or, if_true, if_false]; constructor
          · intro h; exact absurd h (by simp)
          · rintro ⟨-, -, h, -⟩; exact absurd rfl h
        · have hlt_iff := bitlen_le_iff (v * v % m).toNat (bitlen m / 8 * 8) h3
          rw [← pow256] at hlt_iff
          by_cases h4 : bitlen (((v * v % m).toNat : Nat) : Int) > bitlen m / 8 * 8
          · simp only [h1, h2, h4, or_true, if_true, if_false]; constructor
            · intro h; exact absurd h (by simp)
            · rintro ⟨-, -, -, r, -, -, hr⟩
              have := padValue_lt O (bitlen m / 8) (by omega) data r
              rw [← hr] at this
              have := hlt_iff.mpr this
              omega
          · have hlt : (v * v % m).toNat < 256 ^ (bitlen m / 8) := hlt_iff.mp (by omega)
            simp only [h1, h2, h3, h4, or_self, if_false]
            rw [padOk_iff O _ (by omega) data _, Nat.mod_eq_of_lt hlt]
            constructor
            · intro h; exact ⟨by omega, by omega, fun e => h3 e, h⟩
            · rintro ⟨-, -, -, h⟩; exact h

/-- acceptance depends on the value only through its square modulo `m` -/
theorem verify_congr (O : Oracles) (m : Int) (sig : Text) (data : Bytes) (s s' : Text) (v v' : Int)
    (hs : parseValue "sig" sig s = some v) (hs' : parseValue "sig" sig s' = some v')
    (hsq : v * v ≡ v' * v' [ZMOD m]) : verify O m sig data s = verify O m sig data s' := by
  unfold verify
  rw [hs, hs']
  simp only
  have : v * v % m = v' * v' % m := hsq
  rw [this]

/-- **`verify_neg_root`** (a): the negated root `m − s` (and `−s`, `s + m`) is accepted exactly when `s` is -/
theorem verify_neg_root (O : Oracles) (m : Int) (sig : Text) (hid : KeyIdOk sig) (data : Bytes) (v : Int) :
    verify O m sig data (sigText (keyid sig Gen.TMCG_KEYID_SIZE) (m - v)) =
      verify O m sig data (sigText (keyid sig Gen.TMCG_KEYID_SIZE) v) ∧
    verify O m sig data (sigText (keyid sig Gen.TMCG_KEYID_SIZE) (-v)) =
      verify O m sig data (sigText (keyid sig Gen.TMCG_KEYID_SIZE) v) ∧
    verify O m sig data (sigText (keyid sig Gen.TMCG_KEYID_SIZE) (v + m)) =
      verify O m sig data (sigText (keyid sig Gen.TMCG_KEYID_SIZE) v) := by
  have hfr : ∀ x, parseValue "sig" sig (sigText (keyid sig Gen.TMCG_KEYID_SIZE) x) = some x := by
    intro x
    have : sigText (keyid sig Gen.TMCG_KEYID_SIZE) x
        = "sig".toList ++ bar ++ keyid sig Gen.TMCG_KEYID_SIZE ++ bar ++ str62 x ++ bar := by
      unfold sigText; rfl
    rw [this, parseValue_frame "sig" (by decide) sig hid x]
  refine ⟨verify_congr O m sig data _ _ _ _ (hfr _) (hfr _) ?_,
    verify_congr O m sig data _ _ _ _ (hfr _) (hfr _) ?_,
    verify_congr O m sig data _ _ _ _ (hfr _) (hfr _) ?_⟩
  · have : (m - v) * (m - v) = v * v + m * (m - 2 * v) := by ring
    rw [this]; exact Int.modEq_iff_dvd.mpr ⟨-(m - 2 * v), by ring⟩
  · rw [neg_mul_neg]
  · have : (v + m) * (v + m) = v * v + m * (2 * v + m) := by ring
    rw [this]; exact Int.modEq_iff_dvd.mpr ⟨-(2 * v + m), by ring⟩

/-- what an accepted signature says about its value: `v² mod m` is the padded value of the data
    for the seed stored in it -/
theorem verify_accepted_square (O : Oracles) (m : Int) (sig : Text) (data : Bytes) (s : Text)
    (h : verify O m sig data s = true) :
    ∃ v r, parseValue "sig" sig s = some v ∧ r.length = K0 ∧ m ≠ 0 ∧
      (v * v % m).toNat = padValue O (bitlen m / 8) data r := by
  obtain ⟨v, hv, -, hmn, -, r, hr, -, hfoo⟩ := (verify_accepts_iff O m sig data s).mp h
  refine ⟨v, r, hv, hr, ?_, hfoo⟩
  rintro rfl
  have : bitlen (0 : Int) = 1 := by decide
  rw [this] at hmn
  omega

/-- **`verify_neg_root`** (b): any accepted `s'` with the same padded value as an accepted `s` has
    `s'² ≡ s² (mod m)` — together with (a): the accepted values for one padded value are exactly
    the square roots of that value. -/
theorem verify_same_pad (m : Int) (hm : m ≠ 0) (v v' : Int)
    (h : (v * v % m).toNat = (v' * v' % m).toNat) : v * v ≡ v' * v' [ZMOD m] := by
  have h1 := Int.emod_nonneg (v * v) hm
  have h2 := Int.emod_nonneg (v' * v') hm
  show v * v % m = v' * v' % m
  omega

/-- **`verify_accepted_square'`**: two accepted signature values for the same data and the same
    seed `r` have equal squares modulo `m` (before the repair of the truncated export only the
    low `mnsize` bytes of the squares had to agree). -/
theorem verify_accepted_square' (O : Oracles) (m : Int) (sig : Text) (data : Bytes) (s s' : Text)
    (h : verify O m sig data s = true) (h' : verify O m sig data s' = true) :
    ∃ v v' r r', parseValue "sig" sig s = some v ∧ parseValue "sig" sig s' = some v' ∧
      (v * v % m).toNat = padValue O (bitlen m / 8) data r ∧
      (v' * v' % m).toNat = padValue O (bitlen m / 8) data r' ∧
      (padValue O (bitlen m / 8) data r = padValue O (bitlen m / 8) data r' → v * v ≡ v' * v' [ZMOD m]) := by
  obtain ⟨v, r, hv, -, hm, hfoo⟩ := verify_accepted_square O m sig data s h
  obtain ⟨v', r', hv', -, -, hfoo'⟩ := verify_accepted_square O m sig data s' h'
  exact ⟨v, v', r, r', hv, hv', hfoo, hfoo', fun e => verify_same_pad m hm v v' (by rw [hfoo, hfoo', e])⟩

/-- altered key id ⇒ refused: an accepted text carries a key id `kid` with
    `kid = keyid(keyid_size(kid))`, i.e. a suffix id of this very key (of any length, including 0) -/
theorem parseValue_keyid (magic : String) (sig s : Text) (v : Int) (h : parseValue magic sig s = some v) :
    ∃ rest kid, Codec.cm s magic '|' = some rest ∧ Codec.gs rest '|' = some kid ∧
      kid = keyid sig (keyidSize kid) := by
  unfold parseValue at h
  cases h1 : Codec.cm s magic '|' with
  | none => rw [h1] at h; simp at h
  | some rest =>
    rw [h1] at h
    simp only at h
    cases h2 : Codec.gs rest '|' with
    | none => rw [h2] at h; simp at h
    | some kid =>
      rw [h2] at h
      simp only at h
      by_cases hk : kid = keyid sig (keyidSize kid)
      · exact ⟨rest, kid, rfl, h2, hk⟩
      · rw [if_pos hk] at h; simp at h

theorem verify_keyid (O : Oracles) (m : Int) (sig : Text) (data : Bytes) (s : Text)
    (h : verify O m sig data s = true) :
    ∃ rest kid, Codec.cm s "sig" '|' = some rest ∧ Codec.gs rest '|' = some kid ∧
      kid = keyid sig (keyidSize kid) := by
  obtain ⟨v, hv, -⟩ := (verify_accepts_iff O m sig data s).mp h
  exact parseValue_keyid "sig" sig s v hv

/-- altered data ⇒ accepted only on an explicit collision of `h` (cut to the digest length): if
    one signature text verifies for `data` and for `data'`, then `h(data ‖ r) = h(data' ‖ r)`
    for the seed `r` recovered from the signature. -/
theorem verify_data_collision (O : Oracles) (m : Int) (sig : Text) (data data' : Bytes) (s : Text)
    (h : verify O m sig data s = true) (h' : verify O m sig data' s = true) :
    ∃ r : Bytes, r.length = K0 ∧ fit mdsize (O.h (data ++ r)) = fit mdsize (O.h (data' ++ r)) := by
  unfold verify at h h'
  cases hp : parseValue "sig" sig s with
  | none => rw [hp] at h; simp at h
  | some v =>
    rw [hp] at h h'
    simp only at h h'
    by_cases h1 : bitlen m ≤ bitlen m / 8 * 8
    · simp [h1] at h
    by_cases h2 : bitlen m / 8 ≤ mdsize + K0
    · simp [h1, h2] at h
    simp only [h1, h2, if_false] at h h'
    by_cases h3 : (v * v % m).toNat = 0 ∨ bitlen (((v * v % m).toNat : Nat) : Int) > bitlen m / 8 * 8
    · rw [if_pos h3] at h; simp at h
    rw [if_neg h3] at h h'
    unfold padOk at h h'
    simp only [Bool.and_eq_true, beq_iff_eq] at h h'
    refine ⟨_, ?_, h.1.symm.trans h'.1⟩
    rw [xorBytes_length, List.length_take, List.length_take, List.length_drop, beBytes_length, fit_length]
    omega

/-! ### SAEP: `decrypt (encrypt v) = v` -/

/-- residues of the four values of `crtRoots` modulo the two primes -/
theorem crtRoots_congr (p q : Int) (rp rq up vq : Int)
    (hup0 : up ≡ 0 [ZMOD p]) (hup1 : up ≡ 1 [ZMOD q])
    (hvq1 : vq ≡ 1 [ZMOD p]) (hvq0 : vq ≡ 0 [ZMOD q]) :
    ∀ r1 r2 r3 r4, crtRoots rp rq up vq (p * q) = (r1, r2, r3, r4) →
      (r1 ≡ rp [ZMOD p] ∧ r1 ≡ rq [ZMOD q]) ∧ (r2 ≡ -rp [ZMOD p] ∧ r2 ≡ -rq [ZMOD q]) ∧
      (r3 ≡ rp [ZMOD p] ∧ r3 ≡ -rq [ZMOD q]) ∧ (r4 ≡ -rp [ZMOD p] ∧ r4 ≡ rq [ZMOD q]) ∧
      r2 = p * q - r1 ∧ r4 = p * q - r3 ∧ (0 < p * q → 0 ≤ r1 ∧ r1 < p * q ∧ 0 ≤ r3 ∧ r3 < p * q) := by
  intro r1 r2 r3 r4 h
  unfold crtRoots at h
  simp only [Prod.mk.injEq] at h
  obtain ⟨h1, h2, h3, h4⟩ := h
  rw [h1] at h2
  rw [h3] at h4
  have n0p : (p * q) ≡ 0 [ZMOD p] := Int.modEq_zero_iff_dvd.mpr (dvd_mul_right _ _)
  have n0q : (p * q) ≡ 0 [ZMOD q] := Int.modEq_zero_iff_dvd.mpr (dvd_mul_left _ _)
  have e1p : r1 ≡ rp [ZMOD p] := by
    rw [← h1]
    refine ((Int.mod_modEq _ _).of_mul_right _).trans ?_
    have := (hup0.mul_left rq).add (hvq1.mul_left rp)
    simpa using this
  have e1q : r1 ≡ rq [ZMOD q] := by
    rw [← h1]
    refine ((Int.mod_modEq _ _).of_mul_left _).trans ?_
    have := (hup1.mul_left rq).add (hvq0.mul_left rp)
    simpa using this
  have e3p : r3 ≡ rp [ZMOD p] := by
    rw [← h3]
    refine ((Int.mod_modEq _ _).of_mul_right _).trans ?_
    have := (hup0.mul_left (-rq)).add (hvq1.mul_left rp)
    simpa using this
  have e3q : r3 ≡ -rq [ZMOD q] := by
    rw [← h3]
    refine ((Int.mod_modEq _ _).of_mul_left _).trans ?_
    have := (hup1.mul_left (-rq)).add (hvq0.mul_left rp)
    simpa using this
  have e2p : r2 ≡ -rp [ZMOD p] := by
    rw [← h2]; have := n0p.sub e1p; simpa using this
  have e2q : r2 ≡ -rq [ZMOD q] := by
    rw [← h2]; have := n0q.sub e1q; simpa using this
  have e4p : r4 ≡ -rp [ZMOD p] := by
    rw [← h4]; have := n0p.sub e3p; simpa using this
  have e4q : r4 ≡ rq [ZMOD q] := by
    rw [← h4]; have := n0q.sub e3q; simpa using this
  refine ⟨⟨e1p, e1q⟩, ⟨e2p, e2q⟩, ⟨e3p, e3q⟩, ⟨e4p, e4q⟩, h2.symm, h4.symm, ?_⟩
  intro hpos
  exact ⟨by rw [← h1]; exact Int.emod_nonneg _ (ne_of_gt hpos), by rw [← h1]; exact Int.emod_lt_of_pos _ hpos,
    by rw [← h3]; exact Int.emod_nonneg _ (ne_of_gt hpos), by rw [← h3]; exact Int.emod_lt_of_pos _ hpos⟩

theorem jacobi_emod_dvd (a m : Int) (p : Nat) (h : (p : Int) ∣ m) : jacobi (a % m) p = jacobi a p := by
  unfold jacobi
  simp only [Int.emod_emod_of_dvd a h]

theorem jacobi_sq (p : Nat) (hp2 : p % 2 = 1) (v : Int) (hg : Int.gcd v p = 1) : jacobi (v * v) p = 1 := by
  rw [TmcgOpen.jacobi_eq_jacobiSym _ p hp2, ← sq]; exact jacobiSym.sq_one' hg

theorem eq_of_modEq_range (n v r : Int) (h : v ≡ r [ZMOD n]) (hv0 : 0 < v) (hvn : v < n)
    (hr0 : 0 ≤ r) (hrn : r ≤ n) : v = r := by
  have hd : n ∣ r - v := Int.modEq_iff_dvd.mp h
  have : r - v = 0 := Int.eq_zero_of_abs_lt_dvd hd (by rw [abs_lt]; constructor <;> omega)
  omega

/-- `tmcg_mpz_sqrtmn_fast_all` on a Blum key: the result is the CRT combination of roots modulo `p`, `q` -/
theorem sqrtmnFastAll_crt (K : SecKey) (P : Pre) (hK : BlumKey K) (hP : PreOk K P) (a : Int)
    (hqr : qrmn a K.p K.q = true) :
    ∃ rp rq, sqrtmnFastAll a K.p K.q K.m P.up P.vq P.pa1d4 P.qa1d4 = .ok (crtRoots rp rq P.up P.vq K.m) ∧
      rp * rp ≡ a [ZMOD K.p] ∧ rq * rq ≡ a [ZMOD K.q] := by
  obtain ⟨hjp, hjq⟩ := (qrmn_iff _ _ _).mp hqr
  have ep : K.p = (K.p.natAbs : Int) := (Int.natAbs_of_nonneg hK.p_pos.le).symm
  have eq : K.q = (K.q.natAbs : Int) := (Int.natAbs_of_nonneg hK.q_pos.le).symm
  have h4p : K.p.natAbs % 4 = 3 := by have := hK.p3; omega
  have h4q : K.q.natAbs % 4 = 3 := by have := hK.q3; omega
  have rp := root3mod4 _ hK.p_prime h4p a hjp
  have rq := root3mod4 _ hK.q_prime h4q a hjq
  rw [← ep] at rp
  rw [← eq] at rq
  refine ⟨_, _, ?_, rp, rq⟩
  unfold sqrtmnFastAll
  rw [hP.pa, hP.qa, mpzPowm_ok _ _ _ hK.p_pos (by have := hK.p_pos; omega),
    mpzPowm_ok _ _ _ hK.q_pos (by have := hK.q_pos; omega)]

/-- every square root of a unit square modulo `p·q` is one of the four values of `crtRoots` -/
theorem root_mem_crtRoots (p q : Nat) (hp : p.Prime) (hq : q.Prime) (hne : p ≠ q) (a rp rq up vq v : Int)
    (hrp : rp * rp ≡ a [ZMOD p]) (hrq : rq * rq ≡ a [ZMOD q])
    (hup0 : up ≡ 0 [ZMOD p]) (hup1 : up ≡ 1 [ZMOD q]) (hvq1 : vq ≡ 1 [ZMOD p]) (hvq0 : vq ≡ 0 [ZMOD q])
    (hv : v * v ≡ a [ZMOD (p : Int) * q]) (hv0 : 0 < v) (hvm : v < (p : Int) * q)
    (r1 r2 r3 r4 : Int) (hc : crtRoots rp rq up vq ((p : Int) * q) = (r1, r2, r3, r4)) :
    v = r1 ∨ v = r2 ∨ v = r3 ∨ v = r4 := by
  have : Fact p.Prime := ⟨hp⟩
  have : Fact q.Prime := ⟨hq⟩
  have hcop : Nat.Coprime p q := (Nat.coprime_primes hp hq).mpr hne
  have hc' : ((p : Int)).natAbs.Coprime ((q : Int)).natAbs := by simpa using hcop
  obtain ⟨⟨e1p, e1q⟩, ⟨e2p, e2q⟩, ⟨e3p, e3q⟩, ⟨e4p, e4q⟩, h2, h4, hrange⟩ :=
    crtRoots_congr p q rp rq up vq hup0 hup1 hvq1 hvq0 r1 r2 r3 r4 hc
  have hnpos : (0 : Int) < (p : Int) * q := by
    have := hp.pos; have := hq.pos; positivity
  obtain ⟨h10, h1n, h30, h3n⟩ := hrange hnpos
  -- v ≡ ± rp (mod p), v ≡ ± rq (mod q)
  have hvp : v ≡ rp [ZMOD p] ∨ v ≡ -rp [ZMOD p] := by
    have : v * v ≡ rp * rp [ZMOD p] := (hv.of_mul_right _).trans hrp.symm
    have hz : (v : ZMod p) * (v : ZMod p) = (rp : ZMod p) * (rp : ZMod p) := by
      have := cast_of_modEq this; push_cast at this; exact this
    rcases mul_self_eq_mul_self_iff.mp hz with h | h
    · exact .inl (modEq_of_cast h)
    · exact .inr (modEq_of_cast (by push_cast; exact h))
  have hvq : v ≡ rq [ZMOD q] ∨ v ≡ -rq [ZMOD q] := by
    have : v * v ≡ rq * rq [ZMOD q] := (hv.of_mul_left _).trans hrq.symm
    have hz : (v : ZMod q) * (v : ZMod q) = (rq : ZMod q) * (rq : ZMod q) := by
      have := cast_of_modEq this; push_cast at this; exact this
    rcases mul_self_eq_mul_self_iff.mp hz with h | h
    · exact .inl (modEq_of_cast h)
    · exact .inr (modEq_of_cast (by push_cast; exact h))
  have glue : ∀ r : Int, v ≡ r [ZMOD p] → v ≡ r [ZMOD q] → v ≡ r [ZMOD (p : Int) * q] := fun r a b =>
    (Int.modEq_and_modEq_iff_modEq_mul hc').mp ⟨a, b⟩
  rcases hvp with hp' | hp' <;> rcases hvq with hq' | hq'
  · exact .inl (eq_of_modEq_range _ _ _ (glue r1 (hp'.trans e1p.symm) (hq'.trans e1q.symm)) hv0 hvm h10 h1n.le)
  · exact .inr (.inr (.inl (eq_of_modEq_range _ _ _ (glue r3 (hp'.trans e3p.symm) (hq'.trans e3q.symm)) hv0 hvm h30 h3n.le)))
  · exact .inr (.inr (.inr (eq_of_modEq_range _ _ _ (glue r4 (hp'.trans e4p.symm) (hq'.trans e4q.symm)) hv0 hvm
      (by omega) (by omega))))
  · exact .inr (.inl (eq_of_modEq_range _ _ _ (glue r2 (hp'.trans e2p.symm) (hq'.trans e2q.symm)) hv0 hvm
      (by omega) (by omega)))

theorem saep_parts (O : Oracles) (s1 : Nat) (value r : Bytes) :
    let r' := fit s1 r
    let mt := fit S0 value ++ List.replicate S0 0
    let g12 := fit (2 * S0) (O.g r' (2 * S0))
    let x := xorBytes mt g12
    x.length = 2 * S0 ∧ r'.length = s1 ∧ (x ++ r').length = s1 + 2 * S0 ∧ (∀ b ∈ x ++ r', b < 256) ∧
      xorBytes x g12 = mt := by
  intro r' mt g12 x
  have hr : r'.length = s1 := fit_length _ _
  have hg : g12.length = 2 * S0 := fit_length _ _
  have hm : mt.length = 2 * S0 := by
    show (fit S0 value ++ List.replicate S0 0).length = 2 * S0
    rw [List.length_append, fit_length, List.length_replicate]; omega
  have hx : x.length = 2 * S0 := by
    show (xorBytes mt g12).length = 2 * S0
    rw [xorBytes_length, hm, hg]; simp
  have hmb : ∀ b ∈ mt, b < 256 := by
    intro b hb
    rcases List.mem_append.mp hb with hb | hb
    · exact fit_lt _ _ b hb
    · rw [List.mem_replicate] at hb; omega
  refine ⟨hx, hr, by rw [List.length_append, hx, hr]; omega, ?_, xorBytes_cancel _ _ (by rw [hm, hg])⟩
  intro b hb
  rcases List.mem_append.mp hb with hb | hb
  · exact xorBytes_lt _ _ hmb (fit_lt _ _) b hb
  · exact fit_lt _ _ b hb

/-- the SAEP encoding opens to the value -/
theorem saepOpen_saepValue (O : Oracles) (s1 : Nat) (value r : Bytes) (hne : saepValue O s1 value r ≠ 0) :
    saepOpen O s1 (saepValue O s1 value r : Int) = some (fit S0 value) := by
  obtain ⟨hx, hr, hlen, hlt, hcancel⟩ := saep_parts O s1 value r
  have hS0 : 0 < S0 := by decide
  unfold saepOpen
  simp only
  have h0 : ¬ ((saepValue O s1 value r : Int) = 0) := by exact_mod_cast hne
  rw [if_neg h0]
  have hv : saepValue O s1 value r = beVal (xorBytes (fit S0 value ++ List.replicate S0 0)
      (fit (2 * S0) (O.g (fit s1 r) (2 * S0))) ++ fit s1 r) := rfl
  have hvlt : saepValue O s1 value r < 256 ^ (s1 + 2 * S0) := by
    rw [hv]; have := beVal_lt _ hlt; rw [hlen] at this; exact this
  have hbl : bitlen (saepValue O s1 value r : Int) ≤ (s1 + 2 * S0) * 8 := by
    rw [pow256] at hvlt
    exact (bitlen_le_iff _ _ hne).mpr hvlt
  rw [if_neg (by omega), Int.natAbs_natCast, hv]
  have hbb := beBytes_beVal _ hlt
  rw [hlen] at hbb
  rw [hbb]
  generalize fit s1 r = r' at *
  generalize hgd : fit (2 * S0) (O.g r' (2 * S0)) = g12 at *
  generalize hxd : xorBytes (fit S0 value ++ List.replicate S0 0) g12 = x at *
  rw [List.take_left' hx, List.drop_left' hx, hgd, hcancel]
  have hf : (fit S0 value).length = S0 := fit_length _ _
  rw [List.drop_left' hf, List.take_left' hf]
  simp

/-- **`decrypt_encrypt`**: for a Blum key with well-formed pre-computed values and ARBITRARY oracles,
    a ciphertext produced by `encrypt` decrypts to the encrypted value (cut/padded to `S0` bytes),
    provided
     * the bit length of the modulus is no multiple of 8 (`sign` asserts this, `encrypt` does not:
       otherwise the encoded value may exceed the modulus),
     * the encoded value is a unit modulo `m` (fails with probability about `2/√m`),
     * no root of the ciphertext opens to a different value (an explicit redundancy collision of `g`). -/
theorem decrypt_encrypt (O : Oracles) (K : SecKey) (P : Pre) (hK : BlumKey K) (hP : PreOk K P)
    (hid : KeyIdOk K.sig) (value r : Bytes) (c : Text)
    (h : encrypt O K.m K.sig value r = .ok c)
    (hL8 : bitlen K.m > bitlen K.m / 8 * 8)
    (hcop : Int.gcd (saepValue O (bitlen K.m / 8 - 2 * S0) value r : Int) K.m = 1)
    (hU : ∀ (ρ : Int) (x : Bytes),
      ρ * ρ ≡ (saepValue O (bitlen K.m / 8 - 2 * S0) value r : Int) * (saepValue O (bitlen K.m / 8 - 2 * S0) value r : Int) [ZMOD K.m] →
      saepOpen O (bitlen K.m / 8 - 2 * S0) ρ = some x → x = fit S0 value) :
    decrypt O K P c = some (fit S0 value) := by
  unfold encrypt at h
  simp only at h
  by_cases g1 : 2 * S0 < bitlen K.m / 16
  swap
  · simp [g1] at h
  by_cases g2 : 2 * S0 < bitlen K.m / 8 - 2 * S0
  swap
  · simp [g1, g2] at h
  by_cases g3 : S0 < bitlen K.m / 32
  swap
  · simp [g1, g2, g3] at h
  simp only [g1, g2, g3, not_true_eq_false, if_false, Except.ok.injEq] at h
  set s1 := bitlen K.m / 8 - 2 * S0 with hs1
  set v : Nat := saepValue O s1 value r with hvdef
  have hmpos : 0 < K.m := by rw [hK.m_eq]; exact Int.mul_pos hK.p_pos hK.q_pos
  have ep : K.p = (K.p.natAbs : Int) := (Int.natAbs_of_nonneg hK.p_pos.le).symm
  have eq : K.q = (K.q.natAbs : Int) := (Int.natAbs_of_nonneg hK.q_pos.le).symm
  have hm1 : 1 < K.m := by
    have h1 : (1 : Int) < K.p := by have := hK.p_prime.one_lt; omega
    have h2 : (1 : Int) < K.q := by have := hK.q_prime.one_lt; omega
    rw [hK.m_eq]; nlinarith
  have hv0 : v ≠ 0 := by
    intro h0
    rw [h0] at hcop
    simp only [Nat.cast_zero, Int.gcd_zero_left] at hcop
    omega
  -- v < m
  have hvm : (v : Int) < K.m := by
    obtain ⟨-, -, hlen, hlt, -⟩ := saep_parts O s1 value r
    have h1 : v < 256 ^ (s1 + 2 * S0) := by
      have := beVal_lt _ hlt; rw [hlen] at this; exact this
    have hs : s1 + 2 * S0 = bitlen K.m / 8 := by omega
    have h2 := two_pow_le_of_bitlen K.m (ne_of_gt hmpos)
    have h3 : (256 : Nat) ^ (bitlen K.m / 8) ≤ 2 ^ (bitlen K.m - 1) := by
      rw [show (256 : Nat) = 2 ^ 8 by norm_num, ← pow_mul]
      exact Nat.pow_le_pow_right (by norm_num) (by omega)
    have h4 : (K.m.natAbs : Int) = K.m := Int.natAbs_of_nonneg hmpos.le
    rw [hs] at h1
    have : v < K.m.natAbs := by omega
    omega
  -- the ciphertext value is a residue
  have hgp : Int.gcd (v : Int) K.p = 1 := TmcgOpen.gcd_of_gcd_mul_left (by rw [← hK.m_eq]; exact hcop)
  have hgq : Int.gcd (v : Int) K.q = 1 := TmcgOpen.gcd_of_gcd_mul_right (by rw [← hK.m_eq]; exact hcop)
  have hqr : qrmn ((v : Int) * v % K.m) K.p K.q = true := by
    rw [qrmn_iff]
    constructor
    · rw [jacobi_emod_dvd _ _ _ (by rw [← ep, hK.m_eq]; exact dvd_mul_right _ _)]
      exact jacobi_sq _ (by have := hK.p3; omega) _ (by rw [← ep]; exact hgp)
    · rw [jacobi_emod_dvd _ _ _ (by rw [← eq, hK.m_eq]; exact dvd_mul_left _ _)]
      exact jacobi_sq _ (by have := hK.q3; omega) _ (by rw [← eq]; exact hgq)
  obtain ⟨rp, rq, hroots, hrp, hrq⟩ := sqrtmnFastAll_crt K P hK hP _ hqr
  rcases hcr : crtRoots rp rq P.up P.vq K.m with ⟨r1, r2, r3, r4⟩
  have hm' : K.m = (K.p.natAbs : Int) * (K.q.natAbs : Int) := by rw [← ep, ← eq]; exact hK.m_eq
  have hmem : (v : Int) = r1 ∨ (v : Int) = r2 ∨ (v : Int) = r3 ∨ (v : Int) = r4 := by
    refine root_mem_crtRoots K.p.natAbs K.q.natAbs hK.p_prime hK.q_prime ?_ ((v : Int) * v % K.m) rp rq P.up P.vq v
      (by rw [← ep]; exact hrp) (by rw [← eq]; exact hrq) (by rw [← ep]; exact hP.up0) (by rw [← eq]; exact hP.up1)
      (by rw [← ep]; exact hP.vq1) (by rw [← eq]; exact hP.vq0) ?_ (by omega) (by rw [← hm']; exact hvm)
      r1 r2 r3 r4 (by rw [← hm']; exact hcr)
    · intro e; apply hK.ne; rw [ep, eq, e]
    · rw [← hm']; exact (Int.mod_modEq _ _).symm
  have hopen : saepOpen O s1 (v : Int) = some (fit S0 value) := saepOpen_saepValue O s1 value r hv0
  -- decrypt
  have hfr : c = "enc".toList ++ bar ++ keyid K.sig Gen.TMCG_KEYID_SIZE ++ bar ++ str62 ((v : Int) * v % K.m) ++ bar := by
    rw [← h]; unfold encText; rfl
  unfold decrypt
  simp only
  rw [if_neg (by omega), if_neg (by omega), if_neg (by omega), hfr,
    parseValue_frame "enc" (by decide) K.sig hid _]
  simp only [hqr, not_true_eq_false, if_false, hroots, hcr]
  have hsome : ([r1, r2, r3, r4].findSome? (saepOpen O s1)).isSome := by
    rw [List.findSome?_isSome_iff]
    refine ⟨(v : Int), ?_, by rw [hopen]; rfl⟩
    simp only [List.mem_cons, List.not_mem_nil, or_false]
    exact hmem
  obtain ⟨x, hx⟩ := Option.isSome_iff_exists.mp hsome
  rw [hx]
  obtain ⟨ρ, hρm, hρo⟩ := List.exists_of_findSome?_eq_some hx
  congr 1
  refine hU ρ x ?_ hρo
  -- ρ is one of the roots, all of which square to v²
  obtain ⟨r1', r2', r3', r4', hroots', s1', s2', s3', s4'⟩ := sqrtmnFastAll_sq K P hK hP _ hqr
  rw [hroots, hcr] at hroots'
  simp only [Except.ok.injEq, Prod.mk.injEq] at hroots'
  obtain ⟨e1, e2, e3, e4⟩ := hroots'
  subst e1 e2 e3 e4
  have hcv : ((v : Int) * v % K.m) ≡ (v : Int) * v [ZMOD K.m] := Int.mod_modEq _ _
  simp only [List.mem_cons, List.not_mem_nil, or_false] at hρm
  rcases hρm with rfl | rfl | rfl | rfl
  · exact s1'.trans hcv
  · exact s2'.trans hcv
  · exact s3'.trans hcv
  · exact s4'.trans hcv

/-! ### exact acceptance condition of `decrypt` -/

/-- **`decrypt_accepts_iff`**: `decrypt` returns `x` iff the three size guards hold, the text parses
    (magic `enc`, a suffix key id of this key, a base-62 value `cv`), `cv` is a quadratic residue
    modulo `p` and `q`, and `x` is the first opening among the four roots in the order
    `r1, m − r1, r3, m − r3`. -/
theorem decrypt_accepts_iff (O : Oracles) (K : SecKey) (P : Pre) (s : Text) (x : Bytes) :
    decrypt O K P s = some x ↔
      2 * S0 < bitlen K.m / 16 ∧ 2 * S0 < bitlen K.m / 8 - 2 * S0 ∧ S0 < bitlen K.m / 32 ∧
      ∃ cv, parseValue "enc" K.sig s = some cv ∧ qrmn cv K.p K.q = true ∧
        ∃ r1 r2 r3 r4, sqrtmnFastAll cv K.p K.q K.m P.up P.vq P.pa1d4 P.qa1d4 = .ok (r1, r2, r3, r4) ∧
          [r1, r2, r3, r4].findSome? (saepOpen O (bitlen K.m / 8 - 2 * S0)) = some x := by
  unfold decrypt
  simp only
  by_cases g1 : 2 * S0 ≥ bitlen K.m / 16
  · simp only [g1, if_true]; constructor
    · intro h; exact absurd h (by simp)
    · rintro ⟨h, -⟩; omega
  by_cases g2 : 2 * S0 ≥ bitlen K.m / 8 - 2 * S0
  · simp only [g1, g2, if_true, if_false]; constructor
    · intro h; exact absurd h (by simp)
    · rintro ⟨-, h, -⟩; omega
  by_cases g3 : S0 ≥ bitlen K.m / 32
  · simp only [g1, g2, g3, if_true, if_false]; constructor
    · intro h; exact absurd h (by simp)
    · rintro ⟨-, -, h, -⟩; omega
  simp only [g1, g2, g3, if_false]
  cases hp : parseValue "enc" K.sig s with
  | none => simp
  | some cv =>
    simp only [Option.some.injEq, exists_eq_left']
    by_cases hq : qrmn cv K.p K.q = true
    · simp only [hq, not_true_eq_false, if_false, true_and]
      cases hr : sqrtmnFastAll cv K.p K.q K.m P.up P.vq P.pa1d4 P.qa1d4 with
      | error e => simp
      | ok rs =>
        obtain ⟨r1, r2, r3, r4⟩ := rs
        simp only [Except.ok.injEq, Prod.mk.injEq]
        constructor
        · intro h; exact ⟨by omega, by omega, by omega, r1, r2, r3, r4, ⟨rfl, rfl, rfl, rfl⟩, h⟩
        · rintro ⟨-, -, -, a, b, c, d, ⟨rfl, rfl, rfl, rfl⟩, h⟩; exact h
    · simp only [hq, Bool.false_eq_true, not_false_eq_true, if_true, false_and, and_false]
      constructor
      · intro h; exact absurd h (by simp)
      · intro h; exact absurd h (by simp)

/-- what an opening says about the root: it is non-zero, below `256^(s1 + 2·S0)`, and it IS the SAEP
    encoding of the returned value for the seed stored in it (the whole root, not only its low bytes) -/
theorem saepOpen_some (O : Oracles) (s1 : Nat) (ρ : Int) (x : Bytes) (h : saepOpen O s1 ρ = some x) :
    ρ ≠ 0 ∧ ρ.natAbs < 256 ^ (s1 + 2 * S0) ∧ x.length = S0 ∧
      ∃ r : Bytes, r.length = s1 ∧ ρ.natAbs = saepValue O s1 x r := by
  unfold saepOpen at h
  simp only at h
  by_cases h0 : ρ = 0
  · simp [h0] at h
  rw [if_neg h0] at h
  by_cases hb : bitlen ρ ≤ (s1 + 2 * S0) * 8
  swap
  · rw [if_pos hb] at h; simp at h
  rw [if_neg (by omega)] at h
  have hn0 : ρ.natAbs ≠ 0 := Int.natAbs_ne_zero.mpr h0
  have hlt : ρ.natAbs < 256 ^ (s1 + 2 * S0) := by
    rw [pow256]
    apply (bitlen_le_iff _ _ hn0).mp
    have : bitlen ((ρ.natAbs : Nat) : Int) = bitlen ρ := by unfold bitlen; simp only [Int.natAbs_natCast]
    rw [this]; exact hb
  set yy := beBytes (s1 + 2 * S0) ρ.natAbs with hyy
  have hyl : yy.length = s1 + 2 * S0 := beBytes_length _ _
  have hyb : ∀ b ∈ yy, b < 256 := beBytes_lt _ _
  set r := yy.drop (2 * S0) with hrdef
  set g12 := fit (2 * S0) (O.g r (2 * S0)) with hgdef
  set mt := xorBytes (yy.take (2 * S0)) g12 with hmt
  have hg : g12.length = 2 * S0 := fit_length _ _
  have hrl : r.length = s1 := by rw [hrdef, List.length_drop, hyl]; omega
  have hrb : ∀ b ∈ r, b < 256 := fun b hb' => hyb b (List.mem_of_mem_drop hb')
  have htl : (yy.take (2 * S0)).length = 2 * S0 := by rw [List.length_take, hyl]; omega
  have hml : mt.length = 2 * S0 := by rw [hmt, xorBytes_length, htl, hg]; simp
  have hmb : ∀ b ∈ mt, b < 256 :=
    xorBytes_lt _ _ (fun b hb' => hyb b (List.mem_of_mem_take hb')) (fit_lt _ _)
  by_cases hz : mt.drop S0 = List.replicate S0 0
  swap
  · rw [if_neg hz] at h; simp at h
  rw [if_pos hz] at h
  simp only [Option.some.injEq] at h
  have hxl : x.length = S0 := by rw [← h, List.length_take, hml]; omega
  refine ⟨h0, hlt, hxl, r, hrl, ?_⟩
  unfold saepValue
  simp only
  rw [fit_id s1 r hrl hrb, fit_id S0 x hxl (by rw [← h]; exact fun b hb' => hmb b (List.mem_of_mem_take hb'))]
  have hsplit : x ++ List.replicate S0 0 = mt := by rw [← h, ← hz, List.take_append_drop]
  rw [hsplit, ← hgdef, hmt, xorBytes_cancel _ _ (by rw [htl, hg]), hrdef, List.take_append_drop, hyy, beVal_beBytes,
    Nat.mod_eq_of_lt hlt]

/-- `decrypt` opens the text `s` to `x` through the root `ρ` -/
def OpensVia (O : Oracles) (K : SecKey) (s : Text) (ρ : Int) (x : Bytes) : Prop :=
  ∃ cv, parseValue "enc" K.sig s = some cv ∧ ρ * ρ ≡ cv [ZMOD K.m] ∧
    saepOpen O (bitlen K.m / 8 - 2 * S0) ρ = some x

/-- an accepted ciphertext: `decrypt` opened it through a square root `ρ` of its value that is below
    `256^rabin_s` and IS the SAEP encoding of the result; a key id other than a suffix id of
    this key is refused (`parseValue_keyid`) -/
theorem decrypt_accepted (O : Oracles) (K : SecKey) (P : Pre) (hK : BlumKey K) (hP : PreOk K P)
    (s : Text) (x : Bytes) (h : decrypt O K P s = some x) :
    ∃ ρ r, OpensVia O K s ρ x ∧ ρ ≠ 0 ∧ ρ.natAbs < 256 ^ (bitlen K.m / 8 - 2 * S0 + 2 * S0) ∧
      r.length = bitlen K.m / 8 - 2 * S0 ∧ ρ.natAbs = saepValue O (bitlen K.m / 8 - 2 * S0) x r := by
  obtain ⟨-, -, -, cv, hcv, hqr, r1, r2, r3, r4, hroots, hfind⟩ := (decrypt_accepts_iff O K P s x).mp h
  obtain ⟨ρ, hρm, hρo⟩ := List.exists_of_findSome?_eq_some hfind
  obtain ⟨hne, hlt, -, r, hr, hval⟩ := saepOpen_some O _ ρ x hρo
  obtain ⟨r1', r2', r3', r4', hroots', s1', s2', s3', s4'⟩ := sqrtmnFastAll_sq K P hK hP _ hqr
  rw [hroots] at hroots'
  simp only [Except.ok.injEq, Prod.mk.injEq] at hroots'
  obtain ⟨e1, e2, e3, e4⟩ := hroots'
  subst e1 e2 e3 e4
  refine ⟨ρ, r, ⟨cv, hcv, ?_, hρo⟩, hne, hlt, hr, hval⟩
  simp only [List.mem_cons, List.not_mem_nil, or_false] at hρm
  rcases hρm with rfl | rfl | rfl | rfl <;> assumption

/-- **`decrypt_unique_ciphertext`**: the ciphertext is determined by the root it is opened through:
    two texts opened through the same root carry the same ciphertext value modulo `m` (`c = x² mod m`)
    and the same result.  Since an opening root is the SAEP encoding itself (`saepOpen_some`),
    the former high-bits malleability — another ciphertext `(x + k·256^rabin_s)² mod m` with
    the same plaintext — is gone. -/
theorem decrypt_unique_ciphertext (O : Oracles) (K : SecKey) (s s' : Text) (ρ : Int) (x x' : Bytes)
    (h : OpensVia O K s ρ x) (h' : OpensVia O K s' ρ x') :
    x = x' ∧ ∃ cv cv', parseValue "enc" K.sig s = some cv ∧ parseValue "enc" K.sig s' = some cv' ∧
      cv ≡ cv' [ZMOD K.m] := by
  obtain ⟨cv, hcv, hsq, ho⟩ := h
  obtain ⟨cv', hcv', hsq', ho'⟩ := h'
  refine ⟨?_, cv, cv', hcv, hcv', hsq.symm.trans hsq'⟩
  rw [ho] at ho'
  exact Option.some.inj ho'

/-- the same in terms of what was encrypted: two accepted ciphertexts that open to the same value
    with the same seed have the same ciphertext value modulo `m` -/
theorem decrypt_same_encoding (O : Oracles) (K : SecKey) (P : Pre) (hK : BlumKey K) (hP : PreOk K P)
    (s s' : Text) (x : Bytes) (h : decrypt O K P s = some x) (h' : decrypt O K P s' = some x) :
    ∃ cv cv' r r', parseValue "enc" K.sig s = some cv ∧ parseValue "enc" K.sig s' = some cv' ∧
      cv ≡ (saepValue O (bitlen K.m / 8 - 2 * S0) x r : Int) * (saepValue O (bitlen K.m / 8 - 2 * S0) x r : Int) [ZMOD K.m] ∧
      cv' ≡ (saepValue O (bitlen K.m / 8 - 2 * S0) x r' : Int) * (saepValue O (bitlen K.m / 8 - 2 * S0) x r' : Int) [ZMOD K.m] ∧
      (saepValue O (bitlen K.m / 8 - 2 * S0) x r = saepValue O (bitlen K.m / 8 - 2 * S0) x r' → cv ≡ cv' [ZMOD K.m]) := by
  obtain ⟨ρ, r, ⟨cv, hcv, hsq, -⟩, -, -, -, hval⟩ := decrypt_accepted O K P hK hP s x h
  obtain ⟨ρ', r', ⟨cv', hcv', hsq', -⟩, -, -, -, hval'⟩ := decrypt_accepted O K P hK hP s' x h'
  have e : ∀ (z : Int) (n : Nat), z.natAbs = n → z * z = (n : Int) * (n : Int) := by
    intro z n hz
    rw [← hz, ← Int.natAbs_mul_self (a := z)]; push_cast; rfl
  have c1 : cv ≡ (saepValue O (bitlen K.m / 8 - 2 * S0) x r : Int) * (saepValue O (bitlen K.m / 8 - 2 * S0) x r : Int) [ZMOD K.m] := by
    rw [← e ρ _ hval]; exact hsq.symm
  have c2 : cv' ≡ (saepValue O (bitlen K.m / 8 - 2 * S0) x r' : Int) * (saepValue O (bitlen K.m / 8 - 2 * S0) x r' : Int) [ZMOD K.m] := by
    rw [← e ρ' _ hval']; exact hsq'.symm
  exact ⟨cv, cv', r, r', hcv, hcv', c1, c2, fun hh => c1.trans (by rw [hh]; exact c2.symm)⟩

/-! ### `check`: the stage counts of the NIZK proof -/

theorem findChar_spec (d : Char) : ∀ (s : Text) (i : Nat), Codec.findChar s d = some i →
    s = s.take i ++ d :: s.drop (i + 1) ∧ d ∉ s.take i
  | [], i, h => by simp [Codec.findChar] at h
  | c :: cs, i, h => by
    unfold Codec.findChar at h
    simp only at h
    by_cases hc : c = d
    · subst hc
      simp only [List.idxOf_cons_self, List.length_cons, Nat.zero_lt_succ, if_true, Option.some.injEq] at h
      subst h; simp
    · rw [List.idxOf_cons_ne _ hc] at h
      by_cases hl : List.idxOf d cs + 1 < (c :: cs).length
      · simp only [hl, if_true, Option.some.injEq] at h
        subst h
        have hl' : List.idxOf d cs < cs.length := by simpa using hl
        have ih := findChar_spec d cs (List.idxOf d cs) (by unfold Codec.findChar; simp [hl'])
        simp only [List.take_succ_cons, List.drop_succ_cons, List.cons_append, List.mem_cons, not_or]
        exact ⟨by rw [← ih.1], fun e => hc e.symm, ih.2⟩
      · rw [if_neg hl] at h; simp at h

theorem field_count (s f rest : Text) (d : Char) (h : field s d = some (f, rest)) :
    s.count d = rest.count d + 1 := by
  unfold field at h
  cases h1 : Codec.gs s d with
  | none => rw [h1] at h; simp at h
  | some f' =>
    cases h2 : Codec.nx s d with
    | none => rw [h1, h2] at h; simp at h
    | some rest' =>
      rw [h1, h2] at h
      simp only [Option.some.injEq, Prod.mk.injEq] at h
      obtain ⟨rfl, rfl⟩ := h
      unfold Codec.gs at h1
      unfold Codec.nx at h2
      cases hf : Codec.findChar s d with
      | none => rw [hf] at h1; simp at h1
      | some i =>
        rw [hf] at h1 h2
        simp only [Option.map_some, Option.some.injEq] at h1 h2
        obtain ⟨hs, hn⟩ := findChar_spec d s i hf
        rw [← h2]
        conv_lhs => rw [hs]
        rw [List.count_append, List.count_cons_self, List.count_eq_zero_of_not_mem hn]
        omega

theorem intField_count (s rest : Text) (v : Int) (d : Char) (h : intField s d = some (v, rest)) :
    s.count d = rest.count d + 1 := by
  unfold intField at h
  cases h1 : field s d with
  | none => rw [h1] at h; simp at h
  | some fr =>
    obtain ⟨f, rest'⟩ := fr
    rw [h1] at h
    simp only at h
    cases h2 : parse62 f with
    | none => rw [h2] at h; simp at h
    | some v' =>
      rw [h2] at h
      simp only [Option.some.injEq, Prod.mk.injEq] at h
      rw [← h.2]; exact field_count s f rest' d h1

theorem stageRounds_count (O : Oracles) (m y : Int) (mnsize kind : Nat) :
    ∀ (n fuel : Nat) (s input s' input' : Text) (fuel' : Nat),
      stageRounds O m y mnsize kind n fuel s input = .ok (some (s', input', fuel')) →
      s.count '^' = s'.count '^' + n
  | 0, fuel, s, input, s', input', fuel', h => by
    simp only [stageRounds, Except.ok.injEq, Option.some.injEq, Prod.mk.injEq] at h
    rw [h.1]; rfl
  | n+1, fuel, s, input, s', input', fuel', h => by
    unfold stageRounds at h
    cases hd : drawCommon O m mnsize (kind == 3) fuel input with
    | error e => rw [hd] at h; simp at h
    | ok t =>
      obtain ⟨foo, input1, fuel1⟩ := t
      rw [hd] at h
      simp only at h
      cases hi : intField s '^' with
      | none => rw [hi] at h; simp at h
      | some bs =>
        obtain ⟨b, s1⟩ := bs
        rw [hi] at h
        simp only at h
        by_cases hr : roundOk kind m y foo b = true
        · simp only [hr, if_true] at h
          have := stageRounds_count O m y mnsize kind n fuel1 s1 input1 s' input' fuel' h
          rw [intField_count s s1 b '^' hi, this]; omega
        · simp [hr] at h

theorem stage_count (O : Oracles) (m y : Int) (mnsize kind required fuel : Nat) (s input s' input' : Text)
    (fuel' : Nat) (h : stage O m y mnsize kind required fuel s input = .ok (some (s', input', fuel'))) :
    ∃ n, required ≤ n ∧ 0 < n ∧ s.count '^' = s'.count '^' + n + 1 := by
  unfold stage at h
  cases hs : stageSize s required with
  | none => rw [hs] at h; simp at h
  | some ns =>
    obtain ⟨n, s1⟩ := ns
    rw [hs] at h
    simp only at h
    unfold stageSize at hs
    cases hf : field s '^' with
    | none => rw [hf] at hs; simp at hs
    | some fr =>
      obtain ⟨f, rest⟩ := fr
      rw [hf] at hs
      simp only at hs
      cases hst : Codec.strtoulFull f with
      | none => rw [hst] at hs; simp at hs
      | some k =>
        rw [hst] at hs
        simp only at hs
        by_cases hk : k = 0 ∨ k < required
        · simp [hk] at hs
        · simp only [hk, if_false, Option.some.injEq, Prod.mk.injEq] at hs
          obtain ⟨rfl, rfl⟩ := hs
          have := stageRounds_count O m y mnsize kind k fuel rest input s' input' fuel' h
          refine ⟨k, by omega, by omega, ?_⟩
          rw [field_count s f rest '^' hf, this]

theorem cm_count (s rest : Text) (magic : String) (d : Char) (h : Codec.cm s magic d = some rest) :
    s.count d ≥ rest.count d + 1 := by
  unfold Codec.cm at h
  cases hf : Codec.findChar s d with
  | none => rw [hf] at h; simp at h
  | some i =>
    rw [hf] at h
    simp only at h
    split at h
    · simp only [Option.some.injEq] at h
      obtain ⟨hs, -⟩ := findChar_spec d s i hf
      rw [← h]
      conv_lhs => rw [hs]
      rw [List.count_append, List.count_cons_self]; omega
    · simp at h

/-- **`check_stage_counts`**: a key of a NIZK type passes `check` only if its proof text declares at
    least the required number of rounds for each of the three stages and really contains that
    many `^`-terminated fields: a proof with a lowered count, or with a stage cut short, is refused. -/
theorem check_stage_counts (O : Oracles) (isPrime : Int → Bool) (K : PubKey) (fuel : Nat)
    (h : check O isPrime K fuel = .ok true) (hn : hasNizk K.type = true) :
    ∃ n1 n2 n3, Gen.TMCG_KEY_NIZK_STAGE1 ≤ n1 ∧ Gen.TMCG_KEY_NIZK_STAGE2 ≤ n2 ∧ Gen.TMCG_KEY_NIZK_STAGE3 ≤ n3 ∧
      4 + n1 + n2 + n3 ≤ K.nizk.count '^' := by
  unfold check at h
  have hc : checkNizk O K fuel = .ok true := by
    by_cases c0 : K.m ≤ 0
    · simp [c0] at h
    by_cases c1 : K.m % 2 = 0
    · simp [c0, c1] at h
    by_cases c2 : kronecker K.y K.m ≠ 1
    · simp [c0, c1, c2] at h
    by_cases c3 : isPrime K.m = true
    · simp [c0, c1, c2, c3] at h
    by_cases c4 : ¬ verify O K.m K.sig (bytesOf (selfData K)) K.sig = true
    · simp [c0, c1, c2, c3, c4] at h
    by_cases c5 : fermatReject K.m = true
    · simp [c0, c1, c2, c3, c4, c5] at h
    simpa [c0, c1, c2, c3, c4, c5, hn] using h
  unfold checkNizk at hc
  simp only at hc
  cases h0 : Codec.cm K.nizk "nzk" '^' with
  | none => rw [h0] at hc; simp at hc
  | some s0 =>
    rw [h0] at hc
    simp only at hc
    cases h1 : stage O K.m K.y (bitlen K.m / 8) 1 Gen.TMCG_KEY_NIZK_STAGE1 fuel s0 (str62 K.m ++ ['^'] ++ str62 K.y) with
    | error e => rw [h1] at hc; simp at hc
    | ok o1 =>
      rw [h1] at hc
      cases o1 with
      | none => simp at hc
      | some t1 =>
        obtain ⟨s1, i1, f1⟩ := t1
        simp only at hc
        cases h2 : stage O K.m K.y (bitlen K.m / 8) 2 Gen.TMCG_KEY_NIZK_STAGE2 f1 s1 i1 with
        | error e => rw [h2] at hc; simp at hc
        | ok o2 =>
          rw [h2] at hc
          cases o2 with
          | none => simp at hc
          | some t2 =>
            obtain ⟨s2, i2, f2⟩ := t2
            simp only at hc
            cases h3 : stage O K.m K.y (bitlen K.m / 8) 3 Gen.TMCG_KEY_NIZK_STAGE3 f2 s2 i2 with
            | error e => rw [h3] at hc; simp at hc
            | ok o3 =>
              rw [h3] at hc
              cases o3 with
              | none => simp at hc
              | some t3 =>
                obtain ⟨s3, i3, f3⟩ := t3
                obtain ⟨n1, a1, -, c1⟩ := stage_count _ _ _ _ _ _ _ _ _ _ _ _ h1
                obtain ⟨n2, a2, -, c2⟩ := stage_count _ _ _ _ _ _ _ _ _ _ _ _ h2
                obtain ⟨n3, a3, -, c3⟩ := stage_count _ _ _ _ _ _ _ _ _ _ _ _ h3
                have c0 := cm_count _ _ _ _ h0
                exact ⟨n1, n2, n3, a1, a2, a3, by omega⟩

/-- in numbers: fewer than 276 delimiters (`nzk^16^…16 values…^128^…^128^…^`) ⇒ refused -/
theorem check_refuses_short_proof (O : Oracles) (isPrime : Int → Bool) (K : PubKey) (fuel : Nat)
    (hn : hasNizk K.type = true) (hshort : K.nizk.count '^' < 276) :
    check O isPrime K fuel ≠ .ok true := by
  intro h
  obtain ⟨n1, n2, n3, a1, a2, a3, hc⟩ := check_stage_counts O isPrime K fuel h hn
  have e1 : Gen.TMCG_KEY_NIZK_STAGE1 = 16 := rfl
  have e2 : Gen.TMCG_KEY_NIZK_STAGE2 = 128 := rfl
  have e3 : Gen.TMCG_KEY_NIZK_STAGE3 = 128 := rfl
  omega

/-- the Fermat-number branch of `check` is dead code: `m − 1 = 2^k` never holds for `k` the bit
    length of `m` (the code should compare with `2^(k−1)`) -/
theorem fermatReject_false (m : Int) (hm : 0 < m) : fermatReject m = false := by
  unfold fermatReject
  simp only
  have hlt := TmcgOpen.lt_two_pow_bitlen m.natAbs
  have e : ((m.natAbs : Nat) : Int) = m := Int.natAbs_of_nonneg hm.le
  have hb : bitlen ((m.natAbs : Nat) : Int) = bitlen m := by rw [e]
  rw [hb] at hlt
  have : ¬ (m - 1 = 2 ^ bitlen m) := by
    intro h
    have h2 : (m.natAbs : Int) < 2 ^ bitlen m := by exact_mod_cast hlt
    omega
  rw [if_neg this]

/-! ### the branch `p ≡ 1 (mod 8)` of `tmcg_mpz_sqrtmp_r` (the two loops) -/

theorem emod_eq_one_iff (p : Nat) (hp : 1 < p) (x : Int) : x % (p : Int) = 1 ↔ (x : ZMod p) = 1 := by
  constructor
  · intro h
    have := congrArg (fun z : Int => (z : ZMod p)) h
    simpa using this
  · intro h
    have : ((x : Int) : ZMod p) = ((1 : Int) : ZMod p) := by push_cast; exact h
    have hm := modEq_of_cast this
    rw [Int.ModEq, Int.emod_eq_of_lt (by norm_num : (0:Int) ≤ 1) (by omega : (1:Int) < p)] at hm
    exact hm

theorem emod_add_one_iff (p : Nat) (x : Int) : (x % (p : Int) + 1) % (p : Int) = 0 ↔ (x : ZMod p) = -1 := by
  rw [← Int.dvd_iff_emod_eq_zero, ← ZMod.intCast_zmod_eq_zero_iff_dvd]
  push_cast
  constructor
  · intro h; exact eq_neg_of_add_eq_zero_left h
  · intro h; rw [h]; ring

section loops
variable (p : Nat) [hpf : Fact p.Prime] (a b : Int)

/-- first loop: either a root is returned, or the loop is left with `a^s = −1` -/
theorem loop1_spec (hp1 : 1 < p) : ∀ (f s : Nat), 0 < s → s < 2 ^ f →
    (a : ZMod p) ^ (2 * s) = 1 → 2 * s ∣ p / 2 →
    (∃ r : Int, loop1 a p f (s : Int) = .ok (.inl r) ∧ (r : ZMod p) * (r : ZMod p) = (a : ZMod p)) ∨
    (∃ s' : Nat, loop1 a p f (s : Int) = .ok (.inr (s' : Int)) ∧ 0 < s' ∧
      (a : ZMod p) ^ s' = -1 ∧ 2 * s' ∣ p / 2)
  | 0, s, hs, hlt, _, _ => by simp at hlt; omega
  | f+1, s, hs, hlt, hJ, hd => by
    have hpos : (0 : Int) < p := by omega
    unfold loop1
    rw [mpzPowm_ok _ _ _ hpos (by omega)]
    simp only [Int.toNat_natCast]
    have hsq : ((a : ZMod p) ^ s) * ((a : ZMod p) ^ s) = 1 := by rw [← pow_add, ← two_mul]; exact hJ
    by_cases hfoo : a ^ s % (p : Int) = 1
    · have hA : (a : ZMod p) ^ s = 1 := by
        have := (emod_eq_one_iff p hp1 _).mp hfoo; push_cast at this; exact this
      simp only [hfoo, if_true]
      by_cases hodd : (s : Int) % 2 = 1
      · left
        simp only [hodd, if_true]
        rw [mpzPowm_ok _ _ _ hpos (by omega)]
        refine ⟨_, rfl, ?_⟩
        have hk : (((s : Int) + 1) / 2).toNat = (s + 1) / 2 := by omega
        rw [hk]
        push_cast
        rw [← pow_add]
        have : (s + 1) / 2 + (s + 1) / 2 = s + 1 := by omega
        rw [this, pow_succ, hA, one_mul]
      · simp only [hodd, if_false]
        have hhalf : (s : Int) / 2 = ((s / 2 : Nat) : Int) := by omega
        rw [hhalf]
        have heven : s % 2 = 0 := by omega
        refine loop1_spec hp1 f (s / 2) (by omega) (by rw [pow_succ] at hlt; omega) ?_ ?_
        · have : 2 * (s / 2) = s := by omega
          rw [this]; exact hA
        · exact Dvd.dvd.trans ⟨2, by omega⟩ hd
    · right
      simp only [hfoo, if_false]
      refine ⟨s, rfl, hs, ?_, hd⟩
      have hne : (a : ZMod p) ^ s ≠ 1 := by
        intro h1; apply hfoo; apply (emod_eq_one_iff p hp1 _).mpr; push_cast; exact h1
      have : ((a : ZMod p) ^ s - 1) * ((a : ZMod p) ^ s + 1) = 0 := by
        have e : ((a : ZMod p) ^ s - 1) * ((a : ZMod p) ^ s + 1) = (a : ZMod p) ^ s * (a : ZMod p) ^ s - 1 := by ring
        rw [e, hsq]; ring
      rcases mul_eq_zero.mp this with h1 | h1
      · exact absurd (sub_eq_zero.mp h1) hne
      · exact eq_neg_of_add_eq_zero_left h1

/-- second loop: keeps `a^s · b^t = 1` while halving `s` (and `t`) until `s` is odd -/
theorem loop2_spec (hp1 : 1 < p) (hp2 : p % 2 = 1) (hB : (b : ZMod p) ^ (p / 2) = -1) : ∀ (f s t : Nat), 0 < s → s < 2 ^ f →
    2 * s ∣ t → 2 * s ∣ p / 2 → (a : ZMod p) ^ s * (b : ZMod p) ^ t = 1 →
    ∃ s' t' : Nat, loop2 a b p f (s : Int) (t : Int) = .ok ((s' : Int), (t' : Int)) ∧ s' % 2 = 1 ∧ t' % 2 = 0 ∧
      (a : ZMod p) ^ s' * (b : ZMod p) ^ t' = 1
  | 0, s, _, hs, hlt, _, _, _ => by simp at hlt; omega
  | f+1, s, t, hs, hlt, h1, h2, h3 => by
    have hpos : (0 : Int) < p := by omega
    have hteven : t % 2 = 0 := by
      have : 2 ∣ t := Dvd.dvd.trans ⟨s, rfl⟩ h1
      omega
    unfold loop2
    by_cases hev : (s : Int) % 2 = 0
    · simp only [hev, if_true]
      have hs2 : (s : Int) / 2 = ((s / 2 : Nat) : Int) := by omega
      have ht2 : (t : Int) / 2 = ((t / 2 : Nat) : Int) := by omega
      rw [hs2, ht2, mpzPowm_ok _ _ _ hpos (by omega), mpzPowm_ok _ _ _ hpos (by omega)]
      simp only [Int.toNat_natCast]
      have hseven : s % 2 = 0 := by omega
      -- f := a^(s/2) b^(t/2) squares to 1
      set F : ZMod p := (a : ZMod p) ^ (s / 2) * (b : ZMod p) ^ (t / 2) with hF
      have hFsq : F * F = 1 := by
        have : F * F = (a : ZMod p) ^ (s / 2 + s / 2) * (b : ZMod p) ^ (t / 2 + t / 2) := by
          rw [hF, pow_add, pow_add]; ring
        rw [this, show s / 2 + s / 2 = s by omega, show t / 2 + t / 2 = t by omega]; exact h3
      have hcast : (((a ^ (s / 2) % (p : Int)) * (b ^ (t / 2) % (p : Int)) : Int) : ZMod p) = F := by
        push_cast; rfl
      have hd1 : 2 * (s / 2) ∣ t / 2 := by
        obtain ⟨c, hc⟩ := h1
        refine ⟨c, ?_⟩
        rw [show 2 * (s / 2) = s by omega, hc, Nat.mul_assoc, Nat.mul_div_cancel_left _ (by norm_num)]
      have hd2 : 2 * (s / 2) ∣ p / 2 := Dvd.dvd.trans ⟨2, by omega⟩ h2
      have hsp : 0 < s / 2 := by omega
      have hslt : s / 2 < 2 ^ f := by rw [pow_succ] at hlt; omega
      by_cases hneg : ((a ^ (s / 2) % (p : Int)) * (b ^ (t / 2) % (p : Int)) % (p : Int) + 1) % (p : Int) = 0
      · simp only [hneg, if_true]
        have hFm : F = -1 := by rw [← hcast]; exact (emod_add_one_iff p _).mp hneg
        have hh : ((p : Int) - 1) / 2 = ((p / 2 : Nat) : Int) := by omega
        rw [hh]
        have hsum : ((t / 2 : Nat) : Int) + ((p / 2 : Nat) : Int) = ((t / 2 + p / 2 : Nat) : Int) := by push_cast; rfl
        rw [hsum]
        refine loop2_spec hp1 hp2 hB f (s / 2) (t / 2 + p / 2) hsp hslt (Dvd.dvd.add hd1 hd2) hd2 ?_
        rw [pow_add, ← mul_assoc, ← hF, hFm, hB]; ring
      · simp only [hneg, if_false]
        have hFne : F ≠ -1 := by
          intro h; apply hneg; apply (emod_add_one_iff p _).mpr; rw [hcast]; exact h
        have hF1 : F = 1 := by
          have : (F - 1) * (F + 1) = 0 := by
            have e : (F - 1) * (F + 1) = F * F - 1 := by ring
            rw [e, hFsq]; ring
          rcases mul_eq_zero.mp this with h | h
          · exact sub_eq_zero.mp h
          · exact absurd (eq_neg_of_add_eq_zero_left h) hFne
        exact loop2_spec hp1 hp2 hB f (s / 2) (t / 2) hsp hslt hd1 hd2 (by rw [← hF]; exact hF1)
    · simp only [hev, if_false]
      exact ⟨s, t, rfl, by omega, hteven, h3⟩

end loops

/-- **`sqrtmp_sq`, branch `p ≡ 1 (mod 8)`** (both loops): for a prime `p`, a quadratic residue `a`
    and any non-residue handed to the routine, the call succeeds and the result squares to `a`. -/
theorem sqrtmpWith_sq_1mod8 (p : Nat) (hp : p.Prime) (h8 : p % 8 = 1) (a : Int)
    (hqr : jacobi a p = 1) (b : Int) (hb : jacobi b p = -1) :
    ∃ r used, sqrtmpWith a p (some b) = .ok (r, used) ∧ r * r ≡ a [ZMOD p] := by
  have : Fact p.Prime := ⟨hp⟩
  have hp1 : 1 < p := hp.one_lt
  have hp2 : p % 2 = 1 := by omega
  have hpos : (0 : Int) < p := by omega
  have ha0 : a ≠ 0 := by
    rintro rfl; rw [jacobi_zero p hp1 hp2] at hqr; exact absurd hqr (by decide)
  have hE := euler_of_jacobi p hp2 a hqr
  have hB := euler_of_jacobi_neg p hp2 b hb
  have h4 : ¬ (p : Int) % 4 = 3 := by omega
  have h5 : ¬ (p : Int) % 8 = 5 := by omega
  have hs : ((p : Int) - 1) / 4 = (((p - 1) / 4 : Nat) : Int) := by omega
  have hfuel : (p - 1) / 4 < 2 ^ (bitlen (p : Int) + 2) := by
    have := TmcgOpen.lt_two_pow_bitlen p
    calc (p - 1) / 4 < 2 ^ bitlen (p : Int) := by omega
      _ ≤ 2 ^ (bitlen (p : Int) + 2) := Nat.pow_le_pow_right (by norm_num) (by omega)
  have hJ : (a : ZMod p) ^ (2 * ((p - 1) / 4)) = 1 := by
    rw [show 2 * ((p - 1) / 4) = p / 2 by omega]; exact hE
  have hd : 2 * ((p - 1) / 4) ∣ p / 2 := ⟨1, by omega⟩
  unfold sqrtmpWith
  simp only [ha0, if_false, h4, h5, hs]
  rcases loop1_spec p a hp1 (bitlen (p : Int) + 2) ((p - 1) / 4) (by omega) hfuel hJ hd with
    ⟨r, hr, hrr⟩ | ⟨s', hs', hs'pos, hA, hd'⟩
  · rw [hr]
    exact ⟨r, false, rfl, modEq_of_cast (by push_cast; exact hrr)⟩
  · rw [hs']
    simp only
    have hh : ((p : Int) - 1) / 2 = ((p / 2 : Nat) : Int) := by omega
    rw [hh]
    have hs'lt : s' < 2 ^ (bitlen (p : Int) + 2) := by
      have h1 : 2 * s' ≤ p / 2 := Nat.le_of_dvd (by omega) hd'
      have := TmcgOpen.lt_two_pow_bitlen p
      calc s' < 2 ^ bitlen (p : Int) := by omega
        _ ≤ 2 ^ (bitlen (p : Int) + 2) := Nat.pow_le_pow_right (by norm_num) (by omega)
    obtain ⟨s2, t2, hl2, hodd, hev, hI⟩ := loop2_spec p a b hp1 hp2 hB (bitlen (p : Int) + 2) s' (p / 2)
      hs'pos hs'lt hd' hd' (by rw [hA, hB]; ring)
    rw [hl2]
    simp only
    rw [mpzPowm_ok _ _ _ hpos (by omega), mpzPowm_ok _ _ _ hpos (by omega)]
    refine ⟨_, true, rfl, ?_⟩
    apply modEq_of_cast
    have k1 : (((s2 : Int) + 1) / 2).toNat = (s2 + 1) / 2 := by omega
    have k2 : ((t2 : Int) / 2).toNat = t2 / 2 := by omega
    rw [k1, k2]
    push_cast
    have : (a : ZMod p) ^ ((s2 + 1) / 2) * (b : ZMod p) ^ (t2 / 2) * ((a : ZMod p) ^ ((s2 + 1) / 2) * (b : ZMod p) ^ (t2 / 2))
        = (a : ZMod p) ^ ((s2 + 1) / 2 + (s2 + 1) / 2) * (b : ZMod p) ^ (t2 / 2 + t2 / 2) := by
      rw [pow_add, pow_add]; ring
    rw [this, show (s2 + 1) / 2 + (s2 + 1) / 2 = s2 + 1 by omega, show t2 / 2 + t2 / 2 = t2 by omega,
      pow_succ, mul_comm ((a : ZMod p) ^ s2) _, mul_assoc, hI, mul_one]

/-- **`sqrtmp_sq`** for every odd prime: whenever `tmcg_mpz_sqrtmp_r` returns (i.e. the drawn
    candidates contain a non-residue when one is needed), the result squares to `a` -/
theorem sqrtmp_sq_all (p : Nat) (hp : p.Prime) (hodd : p % 2 = 1) (a : Int)
    (hqr : jacobi a p = 1) (draws : List Nat) (r : Int) (rest : List Nat)
    (h : sqrtmpR a p draws = .ok (r, rest)) : r * r ≡ a [ZMOD p] := by
  by_cases hmod : p % 4 = 3 ∨ p % 8 = 5
  · exact sqrtmp_sq p hp hmod a hqr draws r rest h
  · have h8 : p % 8 = 1 := by omega
    unfold sqrtmpR at h
    cases hd : drawNqr (p : Int) draws with
    | none =>
      -- no non-residue among the draws: only the early exit of the first loop can return
      rw [hd] at h
      simp only at h
      cases hw : sqrtmpWith a p none with
      | error e => rw [hw] at h; simp at h
      | ok v =>
        obtain ⟨r', u⟩ := v
        rw [hw] at h
        simp only [Except.ok.injEq, Prod.mk.injEq] at h
        rw [← h.1]
        -- the run with `none` and the run with any non-residue agree when no non-residue is used
        have : Fact p.Prime := ⟨hp⟩
        have hp1 : 1 < p := hp.one_lt
        have hpos : (0 : Int) < p := by omega
        have ha0 : a ≠ 0 := by
          rintro rfl; rw [jacobi_zero p hp1 hodd] at hqr; exact absurd hqr (by decide)
        have hE := euler_of_jacobi p hodd a hqr
        have h4 : ¬ (p : Int) % 4 = 3 := by omega
        have h5 : ¬ (p : Int) % 8 = 5 := by omega
        have hs : ((p : Int) - 1) / 4 = (((p - 1) / 4 : Nat) : Int) := by omega
        have hfuel : (p - 1) / 4 < 2 ^ (bitlen (p : Int) + 2) := by
          have := TmcgOpen.lt_two_pow_bitlen p
          calc (p - 1) / 4 < 2 ^ bitlen (p : Int) := by omega
            _ ≤ 2 ^ (bitlen (p : Int) + 2) := Nat.pow_le_pow_right (by norm_num) (by omega)
        have hJ : (a : ZMod p) ^ (2 * ((p - 1) / 4)) = 1 := by
          rw [show 2 * ((p - 1) / 4) = p / 2 by omega]; exact hE
        have hdv : 2 * ((p - 1) / 4) ∣ p / 2 := ⟨1, by omega⟩
        unfold sqrtmpWith at hw
        simp only [ha0, if_false, h4, h5, hs] at hw
        rcases loop1_spec p a hp1 (bitlen (p : Int) + 2) ((p - 1) / 4) (by omega) hfuel hJ hdv with
          ⟨r0, hr0, hrr⟩ | ⟨s', hs', -⟩
        · rw [hr0] at hw
          simp only [Except.ok.injEq, Prod.mk.injEq] at hw
          rw [← hw.1]
          exact modEq_of_cast (by push_cast; exact hrr)
        · rw [hs'] at hw; simp at hw
    | some v =>
      obtain ⟨b, rest'⟩ := v
      rw [hd] at h
      simp only at h
      have hb : jacobi b p = -1 := by
        have := drawNqr_spec (p : Int) draws b rest' hd
        simpa using this
      obtain ⟨r', u, hw, hsq⟩ := sqrtmpWith_sq_1mod8 p hp h8 a hqr b hb
      rw [hw] at h
      simp only [Except.ok.injEq, Prod.mk.injEq] at h
      rw [← h.1]; exact hsq

/-! ### `tmcg_mpz_sqrtmn_r` / `tmcg_mpz_sqrtmn` (extended Euclid + CRT + smallest root) -/

theorem smallest_mem (r1 r2 r3 r4 : Int) :
    smallest (r1, r2, r3, r4) = r1 ∨ smallest (r1, r2, r3, r4) = r2 ∨
    smallest (r1, r2, r3, r4) = r3 ∨ smallest (r1, r2, r3, r4) = r4 := by
  unfold smallest
  simp only
  split_ifs <;> simp

/-- **`sqrtmn_sq`** for `tmcg_mpz_sqrtmn_r`: distinct odd primes, `a` a residue modulo both, any
    draws: whenever the routine returns, its result squares to `a` modulo `p·q` -/
theorem sqrtmnR_sq (p q : Nat) (hp : p.Prime) (hq : q.Prime) (hne : p ≠ q) (hp2 : p % 2 = 1) (hq2 : q % 2 = 1)
    (a : Int) (hjp : jacobi a p = 1) (hjq : jacobi a q = 1) (draws : List Nat) (r : Int) (rest : List Nat)
    (h : sqrtmnR a p q ((p : Int) * q) draws = .ok (r, rest)) : r * r ≡ a [ZMOD (p : Int) * q] := by
  unfold sqrtmnR at h
  rcases hg : gcdext (p : Int) (q : Int) with ⟨g, u, v⟩
  rw [hg] at h
  simp only at h
  by_cases hg1 : g = 1
  swap
  · simp [hg1] at h
  simp only [hg1, ne_eq, not_true_eq_false, if_false] at h
  have hb := gcdext_bezout _ _ _ _ _ hg
  subst hg1
  cases h1 : sqrtmpR a p draws with
  | error e => rw [h1] at h; simp at h
  | ok v1 =>
    obtain ⟨rp, d1⟩ := v1
    rw [h1] at h
    simp only at h
    cases h2 : sqrtmpR a q d1 with
    | error e => rw [h2] at h; simp at h
    | ok v2 =>
      obtain ⟨rq, d2⟩ := v2
      rw [h2] at h
      simp only [Except.ok.injEq, Prod.mk.injEq] at h
      have sp := sqrtmp_sq_all p hp hp2 a hjp draws rp d1 h1
      have sq := sqrtmp_sq_all q hq hq2 a hjq d1 rq d2 h2
      rcases hc : crtRoots rp rq (u * p) (v * q) ((p : Int) * q) with ⟨r1, r2, r3, r4⟩
      have hcop : Nat.Coprime p q := (Nat.coprime_primes hp hq).mpr hne
      obtain ⟨s1, s2, s3, s4⟩ := crtRoots_sq p q hcop a rp rq (u * p) (v * q) sp sq
        (Int.modEq_zero_iff_dvd.mpr (dvd_mul_left _ _))
        (Int.modEq_iff_dvd.mpr ⟨v, by linear_combination hb⟩)
        (Int.modEq_iff_dvd.mpr ⟨u, by linear_combination hb⟩)
        (Int.modEq_zero_iff_dvd.mpr (dvd_mul_left _ _)) r1 r2 r3 r4 hc
      rw [hc] at h
      rw [← h.1]
      rcases smallest_mem r1 r2 r3 r4 with e | e | e | e <;> rw [e] <;> assumption

/-! ### the hypotheses are satisfiable -/

/-- a toy Blum key (`m = 7 · 11`) -/
def toyKey : SecKey := ⟨[], [], [], 77, 2, 7, 11, [], []⟩

theorem toyKey_blum : BlumKey toyKey :=
  ⟨by decide, by decide, by decide, by decide, by decide, by decide, by decide, by decide⟩

theorem toyKey_pre : ∃ P, precompute toyKey = some P ∧ PreOk toyKey P := by
  cases h : precompute toyKey with
  | none => exact absurd h (by decide)
  | some P => exact ⟨P, rfl, precompute_ok toyKey P h⟩

theorem toyKey_keyid : KeyIdOk toyKey.sig := by
  right; decide

end Tmcg.RabinProofs
