import TmcgProofs.DkgArith
import TmcgProofs.Tsig
/-
  C16 (signing side), algebraic core for `GennaroJareckiKrawczykRabinNTS::Sign` (model:
  `Dkg.signStep`, `Dkg.signAdvance` in Tmcg/Model/Dkg.lean).

  `Sign` outputs `(c, s)` with `c = H(m, r)`, `r = ∏_{j ∈ QUAL'} r_j` the public value of the nonce
  generation and `s = Σ_{j ∈ QUAL} s_j mod q`, where every `s_j` either passed the check
  `g^{s_j} = r_j · y_j^c` or was recomputed as `u_j + c z_j` from reconstructed `u_j`, `z_j`.
  The verifier (`Tsig.ntsVerify`, modelled and characterised in TmcgProofs/Tsig.lean:
  `nts_verify_iff`) recomputes `r' = g^s · (y^c)^{-1}` and accepts iff `0 ≤ s < q` and `c = H(m, r')`.
  The theorems below give `r' = r` (so `c = H(m, r')`) and the range of `s`.

    * `sum_si_val`            the final loop of `Sign`: `s = Σ_{j ∈ QUAL} s_j mod q`, `0 ≤ s < q`
    * `sign_relation_checked` shares that passed the check combine to `g^s = r · y^c`
    * `sign_relation_honest`  the same for `s_j = u_j + c z_j`
    * `sign_verifies`         hence `g^s · (y^c)^{-1} = r`
    * `sign_ntsVerify`        hence the library's verifier `Tsig.ntsVerify` accepts `(c, s)` under `y`
-/
namespace Tmcg.DkgP
open Tmcg Tmcg.Powm Tmcg.Dkg Tmcg.Grp

variable {G : Dkg.Grp} [Fact (Nat.Prime G.p.natAbs)]

omit [Fact (Nat.Prime G.p.natAbs)] in
theorem sum_si_aux (hq : 0 < G.q) (l : List Int) (idx : List Nat) (acc : Int)
    (hacc : 0 ≤ acc ∧ acc < G.q) :
    cq G (idx.foldl (fun (acc : Int) j => (acc + getI l j) % G.q) acc) =
      cq G acc + (idx.map (fun j => cq G (getI l j))).sum ∧
    0 ≤ idx.foldl (fun (acc : Int) j => (acc + getI l j) % G.q) acc ∧
    idx.foldl (fun (acc : Int) j => (acc + getI l j) % G.q) acc < G.q := by
  induction idx generalizing acc with
  | nil => simpa using hacc
  | cons j rest ih =>
    simp only [List.foldl_cons, List.map_cons, List.sum_cons]
    obtain ⟨h1, h2⟩ := ih ((acc + getI l j) % G.q)
      ⟨Int.emod_nonneg _ (ne_of_gt hq), Int.emod_lt_of_pos _ hq⟩
    refine ⟨?_, h2⟩
    rw [h1, cq_emod hq, cq_add]
    ring

omit [Fact (Nat.Prime G.p.natAbs)] in
/-- the last loop of `Sign` (`signAdvance`, third phase): sum of the `s_j` over QUAL, reduced after
    every addition -/
theorem sum_si_val (hq : 0 < G.q) (si : List Int) (qual : List Nat) :
    let sv := qual.foldl (fun (acc : Int) it => (acc + getI si it) % G.q) 0
    cq G sv = (qual.map (fun j => cq G (getI si j))).sum ∧ 0 ≤ sv ∧ sv < G.q := by
  intro sv
  have h := sum_si_aux (G := G) hq si qual 0 ⟨le_refl _, hq⟩
  rw [cq_zero, zero_add] at h
  exact h

omit [Fact (Nat.Prime G.p.natAbs)] in
theorem cq_listSum (l : List Int) : cq G l.sum = (l.map (cq G)).sum := by
  induction l with
  | nil => simp [cq_zero]
  | cons a l ih => simp only [List.sum_cons, List.map_cons, cq_add, ih]

theorem g_zpow_listSum (hG : ValidGrp G) (l : List Int) :
    cp G G.g ^ l.sum = (l.map (fun e => cp G G.g ^ e)).prod := by
  induction l with
  | nil => simp
  | cons a l ih => simp only [List.sum_cons, List.map_cons, List.prod_cons, zpow_add₀ (g_unit hG), ih]

theorem list_prod_zpow (l : List (Fp G)) (c : Int) : l.prod ^ c = (l.map (fun y => y ^ c)).prod := by
  induction l with
  | nil => simp
  | cons a l ih => simp only [List.prod_cons, List.map_cons, mul_zpow, ih]

/-- every share satisfies the verification equation of step 3 ⇒ the sum satisfies
    `g^s = (∏ r_j) · (∏ y_j)^c` -/
theorem sign_relation_checked (hG : ValidGrp G) (qual : List Nat) (sj : Nat → Int) (rj yj : Nat → Fp G)
    (c s : Int) (hy : ∀ j ∈ qual, yj j ≠ 0)
    (hchk : ∀ j ∈ qual, cp G G.g ^ (sj j) = rj j * (yj j) ^ c)
    (hs : cq G s = (qual.map (fun j => cq G (sj j))).sum) :
    cp G G.g ^ s = (qual.map rj).prod * ((qual.map yj).prod) ^ c := by
  have hc : cq G s = cq G ((qual.map sj).sum) := by
    rw [hs, cq_listSum, List.map_map]
    rfl
  rw [g_zpow_congr hG _ _ hc, g_zpow_listSum hG, List.map_map, list_prod_zpow, List.map_map,
    ← List.prod_map_mul]
  congr 1
  apply List.map_congr_left
  intro j hj
  exact hchk j hj

/-- honest shares `s_j = u_j + c·z_j` with `r_j = g^{u_j}`, `y_j = g^{z_j}` satisfy the check -/
theorem sign_relation_honest (hG : ValidGrp G) (u z c sj : Int)
    (h : cq G sj = cq G u + cq G c * cq G z) :
    cp G G.g ^ sj = cp G G.g ^ u * (cp G G.g ^ z) ^ c := by
  have hc : cq G sj = cq G (u + z * c) := by
    rw [h, cq_add, cq_mul, mul_comm]
  rw [g_zpow_congr hG _ _ hc, zpow_add₀ (g_unit hG), zpow_mul]

/-- what the verifier recomputes is the `r` that was hashed: `g^s · (y^c)^{-1} = r` -/
theorem sign_verifies (hG : ValidGrp G) (qual : List Nat) (sj : Nat → Int) (rj yj : Nat → Fp G)
    (c s : Int) (hy : ∀ j ∈ qual, yj j ≠ 0)
    (hchk : ∀ j ∈ qual, cp G G.g ^ (sj j) = rj j * (yj j) ^ c)
    (hs : cq G s = (qual.map (fun j => cq G (sj j))).sum) :
    cp G G.g ^ s * (((qual.map yj).prod) ^ c)⁻¹ = (qual.map rj).prod := by
  rw [sign_relation_checked hG qual sj rj yj c s hy hchk hs]
  apply mul_inv_cancel_right₀
  apply zpow_ne_zero
  apply List.prod_ne_zero
  intro h0
  obtain ⟨j, hj, hj0⟩ := List.mem_map.mp h0
  exact hy j hj hj0

/-- **the output of `Sign` verifies**: if every `s_j` (`j ∈ QUAL`) satisfies the check of step 3
    against `r_j`, `y_j`, the key is `y = ∏ y_j`, the hashed value is `r = ∏ r_j`, `c = H(m, r)` and
    `s = Σ s_j mod q` (reduced), then `GennaroJareckiKrawczykRabinNTS::Verify(m, c, s)` returns `true` -/
theorem sign_ntsVerify (H : Sigma.Hash) (hG : ValidGrp G) (qual : List Nat) (sj rj yj : Nat → Int)
    (y r m c s : Int)
    (hyj : ∀ j ∈ qual, cp G (yj j) ≠ 0)
    (hy : cp G y = (qual.map (fun j => cp G (yj j))).prod)
    (hr : cp G r = (qual.map (fun j => cp G (rj j))).prod) (hr0 : 0 ≤ r ∧ r < G.p)
    (hchk : ∀ j ∈ qual, cp G G.g ^ (sj j) = cp G (rj j) * (cp G (yj j)) ^ c)
    (hs : cq G s = (qual.map (fun j => cq G (sj j))).sum) (hs0 : 0 ≤ s ∧ s < G.q)
    (hc : c = H (Sigma.shashInput [m, r])) :
    Tsig.ntsVerify H (gGrp G) y m c s = .ok true := by
  have hyne : cp G y ≠ 0 := by
    rw [hy]
    apply List.prod_ne_zero
    intro h0
    obtain ⟨j, hj, hj0⟩ := List.mem_map.mp h0
    exact hyj j hj hj0
  haveI : Fact (Nat.Prime (gGrp G).p.natAbs) := ‹Fact (Nat.Prime G.p.natAbs)›
  obtain ⟨b, hb, hiff⟩ := TsigProofs.ntsVerify_iff (G := gGrp G) H hG.vg y m c s hyne
  have hv := sign_verifies hG qual sj (fun j => cp G (rj j)) (fun j => cp G (yj j)) c s hyj hchk hs
  have hacc : TsigProofs.SchnorrAccepts H (gGrp G) y m c s := by
    refine ⟨hs0.1, hs0.2, r, hr0.1, hr0.2, ?_, hc⟩
    show cp G r = cp G G.g ^ s * (cp G y ^ c)⁻¹
    rw [hr, hy]
    exact hv.symm
  rw [hb, hiff.mpr hacc]

end Tmcg.DkgP
