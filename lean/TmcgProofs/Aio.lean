import Tmcg.Model.Aio
import TmcgProofs.Codec
/-
  C13: the receiver of a point-to-point link delivers exactly the sent sequence, once, in order,
  however the byte stream is fragmented and however the `Receive` calls interleave with the
  arrival of the fragments (stream modes: plain, authenticated, encrypted, both).
-/
namespace Tmcg.Aio
open Tmcg

/-- honest primitives: tag verification is recomputation, the stream cipher is length-preserving
    and decryption inverts encryption at the same key-stream position, tags have the MAC length -/
structure CryptoOk (cfg : Cfg) (cr : Crypto) : Prop where
  verify_iff : ∀ i t, cr.verify i t = (cr.mac i == t)
  dec_enc : ∀ k d, cr.decrypt k (cr.encrypt k d) = d
  enc_len : ∀ k d, (cr.encrypt k d).length = d.length
  enc_byte : ∀ k d, ∀ b ∈ cr.encrypt k d, b < 256
  mac_len : ∀ i, (cr.mac i).length = cfg.maclen
  mac_byte : ∀ i, ∀ b ∈ cr.mac i, b < 256

/-- the default configuration constants (the theorems need `blklen ≤ bufSize` etc.) -/
def CfgOk (cfg : Cfg) : Prop :=
  cfg.maclen = 32 ∧ cfg.blklen = 16 ∧ cfg.bufSize = Gen.TMCG_MAX_VALUE_CHARS

/-- send a list of messages one after the other; the concatenated bytes put on the wire -/
def sendAll (cfg : Cfg) (cr : Crypto) (iv : Bytes) : Tx → List Int → Option (Tx × Bytes)
  | tx, [] => some (tx, [])
  | tx, m :: ms =>
    match send cfg cr iv tx m with
    | none => none
    | some (tx1, w) =>
      match sendAll cfg cr iv tx1 ms with
      | none => none
      | some (tx2, ws) => some (tx2, w ++ ws)

/-- what the environment may do: let the next `k` bytes of the wire arrive in the pipe (any `k`,
    including 0), or call `Receive` -/
inductive Op where
  | push (k : Nat)
  | recv
  deriving Repr

structure World where
  rx : Rx := {}
  pipe : Bytes := []        -- arrived, not yet read
  wire : Bytes := []        -- not yet arrived
  delivered : List Int := []
  failures : Nat := 0       -- number of `Receive` calls that returned false on a complete message
  deriving Repr

def step (cfg : Cfg) (cr : Crypto) (n : Nat) (w : World) : Op → World
  | .push k => { w with pipe := w.pipe ++ w.wire.take k, wire := w.wire.drop k }
  | .recv =>
    let (rx', pipe', res) := receive cfg cr n w.rx w.pipe
    match res with
    | .delivered v => { w with rx := rx', pipe := pipe', delivered := w.delivered ++ [v] }
    | .failed => { w with rx := rx', pipe := pipe', failures := w.failures + 1 }
    | .incomplete => { w with rx := rx', pipe := pipe' }

def run (cfg : Cfg) (cr : Crypto) (n : Nat) (w : World) (ops : List Op) : World :=
  ops.foldl (step cfg cr n) w

/-! ## helper lemmas -/

section Helpers
open Tmcg.Codec

/-! ### bytes of ASCII strings -/

theorem ba_loop (bs : ByteArray) : ∀ (n i : Nat) (r : List UInt8), bs.size - i = n →
    ByteArray.toList.loop bs i r = r.reverse ++ bs.data.toList.drop i := by
  intro n
  induction n with
  | zero =>
    intro i r h
    rw [ByteArray.toList.loop]
    have : ¬ i < bs.size := by omega
    rw [if_neg this]
    have : bs.data.toList.drop i = [] := by
      apply List.drop_eq_nil_of_le
      simp only [Array.length_toList]
      have : bs.size = bs.data.size := rfl
      omega
    simp [this]
  | succ n ih =>
    intro i r h
    rw [ByteArray.toList.loop]
    have hi : i < bs.size := by omega
    rw [if_pos hi, ih (i+1) _ (by omega)]
    have hsz : bs.size = bs.data.size := rfl
    have hlt : i < bs.data.toList.length := by simp only [Array.length_toList]; omega
    rw [List.drop_eq_getElem_cons hlt]
    have hd : i < bs.data.size := by omega
    simp only [ByteArray.get!, Array.getElem_toList, List.reverse_cons, List.append_assoc, List.singleton_append]
    rw [getElem!_pos bs.data i hd]

theorem ba_toList (bs : ByteArray) : bs.toList = bs.data.toList := by
  unfold ByteArray.toList
  rw [ba_loop bs _ 0 [] rfl]; simp

theorem strBytes_ofList (cs : List Char) (h : ∀ c ∈ cs, c.toNat < 128) :
    strBytes (String.ofList cs) = cs.map Char.toNat := by
  unfold strBytes String.toUTF8
  rw [String.toByteArray_ofList, ba_toList, List.utf8Encode, List.data_toByteArray]
  simp only [List.map_flatMap]
  induction cs with
  | nil => rfl
  | cons c cs ih =>
    rw [List.flatMap_cons, ih (fun x hx => h x (by simp [hx]))]
    have hc := h c (by simp)
    have hv : c.val.toNat ≤ 127 := by
      have : c.toNat = c.val.toNat := rfl
      omega
    simp only [String.utf8EncodeChar, hv, if_true, List.map_cons, List.map_nil, List.singleton_append]
    congr 1
    show (UInt8.ofNat c.val.toNat).toNat = c.val.toNat
    simp only [UInt8.toNat_ofNat']
    omega

theorem bytesStr_map_toNat (cs : List Char) : bytesStr (cs.map Char.toNat) = String.ofList cs := by
  unfold bytesStr
  congr 1
  rw [List.map_map]
  conv_rhs => rw [← List.map_id cs]
  apply List.map_congr_left
  intro c _
  exact Char.ofNat_toNat c

theorem d62_ascii : ∀ d, d < 62 → (digit62 d).toNat < 128 ∧ (digit62 d).toNat ≠ 10 := by decide

theorem isD62_ascii {c : Char} (h : IsD62 c) : c.toNat < 128 ∧ c.toNat ≠ 10 := by
  obtain ⟨d, hd, rfl⟩ := h; exact d62_ascii d hd

theorem str62_chars (z : Int) : ∀ c ∈ (str62 z).toList, c.toNat < 128 ∧ c.toNat ≠ 10 := by
  obtain ⟨ds, h1, h2, -, -⟩ := str62_toList z
  rw [h1]
  intro c hc
  split at hc
  · rcases List.mem_cons.mp hc with rfl | hc
    · decide
    · exact isD62_ascii (h2 c hc)
  · exact isD62_ascii (h2 c hc)

theorem strBytes_str62 (z : Int) : strBytes (str62 z) = (str62 z).toList.map Char.toNat := by
  conv_lhs => rw [← String.ofList_toList (s := str62 z)]
  exact strBytes_ofList _ (fun c hc => (str62_chars z c hc).1)

theorem bytesStr_strBytes_str62 (z : Int) : bytesStr (strBytes (str62 z)) = str62 z := by
  rw [strBytes_str62, bytesStr_map_toNat, String.ofList_toList]

theorem strBytes_str62_no_nl (z : Int) : 10 ∉ strBytes (str62 z) := by
  rw [strBytes_str62]
  intro h
  obtain ⟨c, hc, h10⟩ := List.mem_map.mp h
  exact (str62_chars z c hc).2 h10

theorem strBytes_str62_byte (z : Int) : ∀ b ∈ strBytes (str62 z), b < 256 := by
  rw [strBytes_str62]
  intro b h
  obtain ⟨c, hc, rfl⟩ := List.mem_map.mp h
  have := (str62_chars z c hc).1
  omega

theorem strBytes_str62_ne_nil (z : Int) : strBytes (str62 z) ≠ [] := by
  rw [strBytes_str62]
  obtain ⟨ds, h1, -, -, h4⟩ := str62_toList z
  rw [h1]
  split <;> simp [h4]

/-! ### length of the base-62 text -/

theorem digitsGo_length : ∀ (f n : Nat) (acc : List Char), n < f →
    ∃ L, (digitsGo f n acc).length = acc.length + L ∧ 1 ≤ L ∧ (L = 1 ∨ 62 ^ (L - 1) ≤ n) := by
  intro f
  induction f with
  | zero => intro n acc h; omega
  | succ f ih =>
    intro n acc h
    by_cases h62 : n < 62
    · exact ⟨1, by simp [digitsGo, h62], le_refl _, Or.inl rfl⟩
    · obtain ⟨L, h1, h2, h3⟩ := ih (n / 62) (digit62 (n % 62) :: acc) (by omega)
      refine ⟨L + 1, by simp [digitsGo, h62, h1]; omega, by omega, Or.inr ?_⟩
      rcases h3 with rfl | h3
      · simp; omega
      · have : L + 1 - 1 = (L - 1) + 1 := by omega
        rw [this, pow_succ]
        have := Nat.div_mul_le_self n 62
        calc 62 ^ (L - 1) * 62 ≤ n / 62 * 62 := Nat.mul_le_mul_right _ h3
          _ ≤ n := this

theorem pow_cmp (L k : Nat) (h : 62 ^ L < 256 ^ k) : 2 * L < 3 * k := by
  by_contra hc
  have h1 : (62 ^ L) ^ 2 < (256 ^ k) ^ 2 := Nat.pow_lt_pow_left h (by norm_num)
  have h2 : (256 ^ k) ^ 2 = (256 ^ 2) ^ k := by rw [← pow_mul, ← pow_mul, Nat.mul_comm]
  have h3 : (256 ^ 2) ^ k ≤ (62 ^ 3) ^ k := Nat.pow_le_pow_left (by norm_num) k
  have h4 : (62 ^ 3) ^ k = 62 ^ (3 * k) := by rw [← pow_mul]
  have h5 : 62 ^ (3 * k) ≤ 62 ^ (2 * L) := Nat.pow_le_pow_right (by norm_num) (by omega)
  have h6 : 62 ^ (2 * L) = (62 ^ L) ^ 2 := by rw [← pow_mul, Nat.mul_comm]
  omega

/-- the base-62 text of a number below `256^k` has at most `3k/2 + 1` digits -/
theorem strBytes_str62_length (n k : Nat) (h : n < 256 ^ k) :
    2 * (strBytes (str62 (n : Int))).length ≤ 3 * k + 2 := by
  rw [strBytes_str62, List.length_map]
  have hs : (str62 (n : Int)).toList = digitsGo (n + 1) n [] := by
    unfold str62
    have : ¬ ((n : Int) < 0) := by omega
    simp [this]
  rw [hs]
  obtain ⟨L, h1, h2, h3⟩ := digitsGo_length (n + 1) n [] (by omega)
  rw [h1]
  simp only [List.length_nil, Nat.zero_add]
  rcases h3 with rfl | h3
  · omega
  · have := pow_cmp (L - 1) k (lt_of_le_of_lt h3 h)
    omega

/-! ### big-endian export / import -/

theorem beImport_snoc (b : Bytes) (x : Nat) : beImport (b ++ [x]) = beImport b * 256 + x := by
  simp [beImport, List.foldl_append]

theorem beImport_foldl_lt : ∀ (b : Bytes) (acc : Nat), (∀ x ∈ b, x < 256) →
    b.foldl (fun acc x => acc * 256 + x) acc + 1 ≤ (acc + 1) * 256 ^ b.length := by
  intro b
  induction b with
  | nil => intro acc _; simp
  | cons x rest ih =>
    intro acc h
    have hx := h x (by simp)
    have := ih (acc * 256 + x) (fun y hy => h y (by simp [hy]))
    simp only [List.foldl_cons, List.length_cons]
    calc _ ≤ (acc * 256 + x + 1) * 256 ^ rest.length := this
      _ ≤ ((acc + 1) * 256) * 256 ^ rest.length := Nat.mul_le_mul_right _ (by omega)
      _ = (acc + 1) * 256 ^ (rest.length + 1) := by rw [pow_succ]; ring

theorem beImport_lt (b : Bytes) (h : ∀ x ∈ b, x < 256) : beImport b < 256 ^ b.length := by
  have := beImport_foldl_lt b 0 h
  unfold beImport
  omega

theorem beImport_foldl_ge : ∀ (b : Bytes) (acc : Nat),
    acc ≤ b.foldl (fun acc x => acc * 256 + x) acc := by
  intro b
  induction b with
  | nil => intro acc; simp
  | cons x rest ih =>
    intro acc
    have := ih (acc * 256 + x)
    simp only [List.foldl_cons]
    omega

theorem beImport_pos (x : Nat) (b : Bytes) (hx : x ≠ 0) : 0 < beImport (x :: b) := by
  have := beImport_foldl_ge b (0 * 256 + x)
  simp only [beImport, List.foldl_cons]
  omega

theorem beExportGo_zero (f : Nat) (acc : Bytes) : beExportGo f 0 acc = acc := by
  cases f <;> simp [beExportGo]

theorem beExportGo_import : ∀ (b : Bytes), (∀ x ∈ b, x < 256) → (b.head? ≠ some 0) →
    ∀ (f : Nat) (acc : Bytes), beImport b < f → beExportGo f (beImport b) acc = b ++ acc := by
  intro b
  induction b using List.reverseRecOn with
  | nil => intro _ _ f acc _; simp [beImport, beExportGo_zero]
  | append_singleton b x ih =>
    intro hb hh f acc hf
    have hx : x < 256 := hb x (by simp)
    rw [beImport_snoc] at hf ⊢
    have hne : beImport b * 256 + x ≠ 0 := by
      cases b with
      | nil =>
        simp only [List.nil_append, List.head?_cons, ne_eq, Option.some.injEq] at hh
        simp [beImport]; exact hh
      | cons y t =>
        have hy : y ≠ 0 := by simpa using hh
        have := beImport_pos y t hy
        omega
    cases f with
    | zero => omega
    | succ f =>
      rw [beExportGo, if_neg hne]
      have h1 : (beImport b * 256 + x) / 256 = beImport b := by omega
      have h2 : (beImport b * 256 + x) % 256 = x := by omega
      rw [h1, h2, ih (fun y hy => hb y (by simp [hy])) ?_ f (x :: acc) (by omega)]
      · simp
      · cases b with
        | nil => simp
        | cons y t => simpa using hh

theorem beExport_beImport (b : Bytes) (hb : ∀ x ∈ b, x < 256) (hh : b.head? ≠ some 0) :
    beExport (beImport b) = b := by
  unfold beExport
  rw [beExportGo_import b hb hh _ [] (by omega)]; simp


/-! ### frames -/

def OkMsg (cfg : Cfg) (m : Int) : Prop :=
  ¬ (cfg.enc = true ∧ m < 0) ∧
  2 * (strBytes (str62 (if cfg.enc then m + hideLength else m))).length < cfg.bufSize

def lineOf (cfg : Cfg) (cr : Crypto) (calls : Nat) (m : Int) : Bytes :=
  if cfg.enc then
    strBytes (str62 (beImport (43 :: cr.encrypt calls (strBytes (str62 (m + hideLength))))))
  else strBytes (str62 m)

def tagOf (cfg : Cfg) (cr : Crypto) (sqn calls : Nat) (m : Int) : Bytes :=
  if cfg.auth then cr.mac (lineOf cfg cr calls m ++ [10] ++ strBytes (str62 sqn)) else []

def frame (cfg : Cfg) (cr : Crypto) (sqn calls : Nat) (m : Int) : Bytes :=
  lineOf cfg cr calls m ++ 10 :: tagOf cfg cr sqn calls m

theorem send_spec (cfg : Cfg) (cr : Crypto) (iv : Bytes) (tx tx' : Tx) (m : Int) (w : Bytes)
    (h : send cfg cr iv tx m = some (tx', w)) :
    OkMsg cfg m ∧
    w = (if cfg.enc = true ∧ tx.ivSent = false then iv else []) ++ frame cfg cr tx.sqn tx.calls m ∧
    tx'.sqn = (if cfg.auth then tx.sqn + 1 else tx.sqn) ∧
    tx'.calls = (if cfg.enc then tx.calls + 1 else tx.calls) ∧
    (cfg.enc = true → tx'.ivSent = true) := by
  cases henc : cfg.enc <;> cases hauth : cfg.auth <;>
    simp [send, henc, hauth] at h
  · obtain ⟨h1, rfl, rfl⟩ := h
    simp [OkMsg, frame, lineOf, tagOf, henc, hauth, h1]
  · obtain ⟨h1, rfl, rfl⟩ := h
    simp [OkMsg, frame, lineOf, tagOf, henc, hauth, h1]
  · obtain ⟨h0, h1, rfl, rfl⟩ := h
    cases hs : tx.ivSent <;> simp [OkMsg, frame, lineOf, tagOf, henc, hauth, h1, h0]
  · obtain ⟨h0, h1, rfl, rfl⟩ := h
    cases hs : tx.ivSent <;> simp [OkMsg, frame, lineOf, tagOf, henc, hauth, h1, h0]


theorem lineOf_no_nl (cfg : Cfg) (cr : Crypto) (calls : Nat) (m : Int) : 10 ∉ lineOf cfg cr calls m := by
  unfold lineOf
  split <;> exact strBytes_str62_no_nl _

theorem lineOf_ne_nil (cfg : Cfg) (cr : Crypto) (calls : Nat) (m : Int) : lineOf cfg cr calls m ≠ [] := by
  unfold lineOf
  split <;> exact strBytes_str62_ne_nil _

theorem tagOf_length (cfg : Cfg) (cr : Crypto) (hcr : CryptoOk cfg cr) (sqn calls : Nat) (m : Int) :
    (tagOf cfg cr sqn calls m).length = if cfg.auth then cfg.maclen else 0 := by
  unfold tagOf
  split
  · exact hcr.mac_len _
  · rfl

theorem frame_length (cfg : Cfg) (cr : Crypto) (hcr : CryptoOk cfg cr) (sqn calls : Nat) (m : Int) :
    (frame cfg cr sqn calls m).length =
      (lineOf cfg cr calls m).length + 1 + (if cfg.auth then cfg.maclen else 0) := by
  unfold frame
  rw [List.length_append, List.length_cons, tagOf_length cfg cr hcr]
  omega

theorem frame_length_le (cfg : Cfg) (hcfg : CfgOk cfg) (cr : Crypto) (hcr : CryptoOk cfg cr)
    (sqn calls : Nat) (m : Int) (hok : OkMsg cfg m) :
    (frame cfg cr sqn calls m).length ≤ cfg.bufSize := by
  obtain ⟨hm, hb, hs⟩ := hcfg
  have h4096 : Gen.TMCG_MAX_VALUE_CHARS = 4096 := rfl
  rw [frame_length cfg cr hcr]
  have hmac : (if cfg.auth then cfg.maclen else 0) ≤ 32 := by split <;> omega
  obtain ⟨-, hlen⟩ := hok
  unfold lineOf
  cases henc : cfg.enc
  · simp only [henc, Bool.false_eq_true, if_false] at hlen ⊢
    omega
  · simp only [henc, if_true] at hlen ⊢
    have hc := hcr.enc_len calls (strBytes (str62 (m + hideLength)))
    have hlt := beImport_lt (43 :: cr.encrypt calls (strBytes (str62 (m + hideLength)))) (by
      intro x hx
      rcases List.mem_cons.mp hx with rfl | hx
      · norm_num
      · exact hcr.enc_byte _ _ x hx)
    have := strBytes_str62_length _ _ hlt
    simp only [List.length_cons] at this
    omega

theorem frame_pos (cfg : Cfg) (cr : Crypto) (sqn calls : Nat) (m : Int) :
    0 < (frame cfg cr sqn calls m).length := by
  unfold frame
  simp

theorem idxOf_line (line rest : Bytes) (h : 10 ∉ line) :
    List.idxOf? 10 (line ++ 10 :: rest) = some line.length := by
  unfold List.idxOf?
  rw [List.findIdx?_append]
  have : List.findIdx? (fun x => x == 10) line = none := by
    rw [List.findIdx?_eq_none_iff]
    intro x hx
    simp only [beq_eq_false_iff_ne, ne_eq]
    rintro rfl
    exact h hx
  rw [this, List.findIdx?_cons]
  simp

theorem idxOf_none (buf : Bytes) (h : 10 ∉ buf) : List.idxOf? 10 buf = none :=
  List.idxOf?_eq_none_iff.mpr h

theorem parse_frame (cfg : Cfg) (cr : Crypto) (hcr : CryptoOk cfg cr) (rx : Rx) (m : Int)
    (more : Bytes) (hok : OkMsg cfg m) (hbuf : rx.buf = frame cfg cr rx.sqn rx.calls m ++ more) :
    parse cfg cr rx =
      ({ rx with buf := more, flag := !more.isEmpty,
                 sqn := if cfg.auth then rx.sqn + 1 else rx.sqn,
                 calls := if cfg.enc then rx.calls + 1 else rx.calls,
                 badAuth := if cfg.auth then false else rx.badAuth }, .delivered m) := by
  have hnl := lineOf_no_nl cfg cr rx.calls m
  have htl := tagOf_length cfg cr hcr rx.sqn rx.calls m
  have hb : rx.buf = lineOf cfg cr rx.calls m ++ 10 :: (tagOf cfg cr rx.sqn rx.calls m ++ more) := by
    rw [hbuf, frame]; simp
  have hidx := idxOf_line _ (tagOf cfg cr rx.sqn rx.calls m ++ more) hnl
  rw [← hb] at hidx
  have h1 : List.take (lineOf cfg cr rx.calls m).length rx.buf = lineOf cfg cr rx.calls m := by
    rw [hb]; exact List.take_left' rfl
  have h2 : List.take (if cfg.auth = true then cfg.maclen else 0)
      (List.drop ((lineOf cfg cr rx.calls m).length + 1) rx.buf) = tagOf cfg cr rx.sqn rx.calls m := by
    have : rx.buf = (lineOf cfg cr rx.calls m ++ [10]) ++ (tagOf cfg cr rx.sqn rx.calls m ++ more) := by
      rw [hb]; simp
    rw [this, List.drop_left' (by simp), ← htl]; exact List.take_left' rfl
  have h3 : List.drop ((lineOf cfg cr rx.calls m).length + 1 + if cfg.auth = true then cfg.maclen else 0)
      rx.buf = more := by
    have : rx.buf = (lineOf cfg cr rx.calls m ++ [10] ++ tagOf cfg cr rx.sqn rx.calls m) ++ more := by
      rw [hb]; simp
    rw [this]; exact List.drop_left' (by simp [htl]; omega)
  have h4 : ¬ (rx.buf.length - (lineOf cfg cr rx.calls m).length - 1 <
      if cfg.auth = true then cfg.maclen else 0) := by
    rw [hb, ← htl]; simp
  unfold parse
  simp only [hidx, h1, h2, h3, h4, if_false]
  obtain ⟨hneg, -⟩ := hok
  have hE : beExport (beImport (43 :: cr.encrypt rx.calls (strBytes (str62 (m + hideLength))))) =
      43 :: cr.encrypt rx.calls (strBytes (str62 (m + hideLength))) := by
    apply beExport_beImport
    · intro x hx
      rcases List.mem_cons.mp hx with rfl | hx
      · norm_num
      · exact hcr.enc_byte _ _ x hx
    · simp
  have hD := hcr.dec_enc rx.calls (strBytes (str62 (m + hideLength)))
  have hL : 1 ≤ (cr.encrypt rx.calls (strBytes (str62 (m + hideLength)))).length := by
    rw [hcr.enc_len]
    have := strBytes_str62_ne_nil (m + hideLength)
    cases h : strBytes (str62 (m + hideLength)) with
    | nil => exact absurd h this
    | cons a t => simp
  cases hauth : cfg.auth <;> cases henc : cfg.enc
  · simp [lineOf, henc, bytesStr_strBytes_str62, parse62_str62]
  · have hm : ¬ m < 0 := by simpa [henc] using hneg
    simp [lineOf, henc, bytesStr_strBytes_str62, parse62_str62, hE, hD, hm]
    omega
  · simp [lineOf, tagOf, hauth, henc, bytesStr_strBytes_str62, parse62_str62, hcr.verify_iff]
  · have hm : ¬ m < 0 := by simpa [henc] using hneg
    simp [lineOf, tagOf, hauth, henc, bytesStr_strBytes_str62, parse62_str62, hE, hD, hm, hcr.verify_iff]
    omega


theorem parse_no_nl (cfg : Cfg) (cr : Crypto) (rx : Rx) (h : 10 ∉ rx.buf) :
    parse cfg cr rx = ({ rx with flag := false }, .incomplete) := by
  unfold parse
  simp only [idxOf_none _ h]

theorem parse_partial (cfg : Cfg) (cr : Crypto) (hcr : CryptoOk cfg cr) (rx : Rx) (m : Int)
    (rest tail : Bytes) (hbuf : rx.buf ++ rest = frame cfg cr rx.sqn rx.calls m ++ tail)
    (hlen : rx.buf.length < (frame cfg cr rx.sqn rx.calls m).length) :
    parse cfg cr rx = ({ rx with flag := false }, .incomplete) := by
  have hnl := lineOf_no_nl cfg cr rx.calls m
  have htl := tagOf_length cfg cr hcr rx.sqn rx.calls m
  rcases List.append_eq_append_iff.mp hbuf with ⟨as, h1, -⟩ | ⟨bs, h1, -⟩
  · -- buf is a prefix of the frame
    unfold frame at h1
    rcases List.append_eq_append_iff.mp h1.symm with ⟨cs, h2, -⟩ | ⟨bs, h2, h3⟩
    · apply parse_no_nl
      intro h10
      exact hnl (h2 ▸ List.mem_append_left _ h10)
    · cases bs with
      | nil =>
        apply parse_no_nl
        rw [h2, List.append_nil]; exact hnl
      | cons b t =>
        simp only [List.cons_append, List.cons.injEq] at h3
        obtain ⟨rfl, h3⟩ := h3
        have hidx := idxOf_line _ t hnl
        rw [← h2] at hidx
        have hlt : rx.buf.length - (lineOf cfg cr rx.calls m).length - 1 <
            (if cfg.auth = true then cfg.maclen else 0) := by
          rw [frame_length cfg cr hcr] at hlen
          rw [h2] at hlen ⊢
          simp only [List.length_append, List.length_cons] at hlen ⊢
          omega
        unfold parse
        simp only [hidx, hlt, if_true]
  · rw [h1, List.length_append] at hlen
    omega


/-! ### the stream of frames and the invariant -/

def frames (cfg : Cfg) (cr : Crypto) : Nat → Nat → List Int → Bytes
  | _, _, [] => []
  | sqn, calls, m :: ms =>
    frame cfg cr sqn calls m ++
      frames cfg cr (if cfg.auth then sqn + 1 else sqn) (if cfg.enc then calls + 1 else calls) ms

theorem sendAll_spec (cfg : Cfg) (cr : Crypto) (iv : Bytes) : ∀ (msgs : List Int) (tx tx' : Tx) (wire : Bytes),
    sendAll cfg cr iv tx msgs = some (tx', wire) →
    (∀ m ∈ msgs, OkMsg cfg m) ∧
    wire = (if cfg.enc = true ∧ tx.ivSent = false ∧ msgs ≠ [] then iv else []) ++
      frames cfg cr tx.sqn tx.calls msgs := by
  intro msgs
  induction msgs with
  | nil =>
    intro tx tx' wire h
    simp only [sendAll, Option.some.injEq, Prod.mk.injEq] at h
    simp [frames, h.2.symm]
  | cons m ms ih =>
    intro tx tx' wire h
    rw [sendAll] at h
    cases hs : send cfg cr iv tx m with
    | none => simp [hs] at h
    | some r =>
      obtain ⟨tx1, w⟩ := r
      simp only [hs] at h
      cases hs2 : sendAll cfg cr iv tx1 ms with
      | none => simp [hs2] at h
      | some r2 =>
        obtain ⟨tx2, ws⟩ := r2
        simp only [hs2, Option.some.injEq, Prod.mk.injEq] at h
        obtain ⟨-, rfl⟩ := h
        obtain ⟨hok, hw, hsq, hca, hivs⟩ := send_spec cfg cr iv tx tx1 m w hs
        obtain ⟨hoks, hws⟩ := ih tx1 tx2 ws hs2
        refine ⟨?_, ?_⟩
        · intro x hx
          rcases List.mem_cons.mp hx with rfl | hx
          · exact hok
          · exact hoks x hx
        · have hpre : (if cfg.enc = true ∧ tx1.ivSent = false ∧ ms ≠ [] then iv else []) = [] := by
            rw [if_neg]
            rintro ⟨he, hf, -⟩
            rw [hivs he] at hf
            exact absurd hf (by simp)
          rw [hws, hpre, hw, hsq, hca]
          simp [frames]

structure Inv (cfg : Cfg) (cr : Crypto) (iv : Bytes) (rx : Rx) (rest : Bytes) (pending : List Int) : Prop where
  ok : ∀ m ∈ pending, OkMsg cfg m
  len : rx.buf.length ≤ cfg.bufSize
  stream : rx.buf ++ rest =
    (if cfg.enc = true ∧ rx.ivSeen = false ∧ pending ≠ [] then iv else []) ++
      frames cfg cr rx.sqn rx.calls pending
  ivphase : cfg.enc = true → rx.ivSeen = false → rx.flag = false ∧ rx.buf.length < cfg.blklen
  noframe : rx.flag = false → ¬ (cfg.enc = true ∧ rx.ivSeen = false) → ∀ m ps, pending = m :: ps →
    rx.buf.length < (frame cfg cr rx.sqn rx.calls m).length

/-- progress measure of the receiver once all bytes have arrived -/
def mu (rx : Rx) (pipe : Bytes) (pending : List Int) : Nat :=
  2 * pipe.length + 3 * pending.length + (if rx.flag then 1 else 0)

theorem Inv.stuck_pipe {cfg : Cfg} {cr : Crypto} {iv : Bytes} {rx : Rx} {pipe wire : Bytes}
    {pending : List Int} (hcfg : CfgOk cfg) (hcr : CryptoOk cfg cr)
    (hI : Inv cfg cr iv rx (pipe ++ wire) pending) (hflag : rx.flag = false)
    (hroom : cfg.bufSize - rx.buf.length = 0) : pipe = [] := by
  obtain ⟨hm, hb, hs⟩ := hcfg
  have h4096 : Gen.TMCG_MAX_VALUE_CHARS = 4096 := rfl
  by_cases hph : cfg.enc = true ∧ rx.ivSeen = false
  · have := (hI.ivphase hph.1 hph.2).2
    omega
  · cases pending with
    | nil =>
      have := hI.stream
      simp [frames] at this
      exact this.2.1
    | cons m ps =>
      have h1 := hI.noframe hflag hph m ps rfl
      have h2 := frame_length_le cfg ⟨hm, hb, hs⟩ cr hcr rx.sqn rx.calls m (hI.ok m (by simp))
      omega

/-- all bytes in the buffer, nothing flagged: nothing is pending -/
theorem Inv.done {cfg : Cfg} {cr : Crypto} {iv : Bytes} {rx : Rx} {pending : List Int}
    (hiv : iv.length = cfg.blklen)
    (hI : Inv cfg cr iv rx [] pending) (hflag : rx.flag = false) : pending = [] := by
  cases pending with
  | nil => rfl
  | cons m ps =>
    exfalso
    have hst := hI.stream
    by_cases hph : cfg.enc = true ∧ rx.ivSeen = false
    · have := (hI.ivphase hph.1 hph.2).2
      rw [if_pos ⟨hph.1, hph.2, by simp⟩] at hst
      have := congrArg List.length hst
      simp only [List.append_nil, List.length_append] at this
      omega
    · have h1 := hI.noframe hflag hph m ps rfl
      rw [if_neg (fun h => hph ⟨h.1, h.2.1⟩)] at hst
      have := congrArg List.length hst
      simp only [frames, List.append_nil, List.nil_append, List.length_append] at this
      omega


theorem read_spec (cfg : Cfg) (hcfg : CfgOk cfg) (cr : Crypto) (hcr : CryptoOk cfg cr)
    (iv : Bytes) (hiv : iv.length = cfg.blklen) (rx : Rx) (pipe wire : Bytes) (pending : List Int)
    (hI : Inv cfg cr iv rx (pipe ++ wire) pending) (hflag : rx.flag = false)
    (rx' : Rx) (pipe' : Bytes) (h : readStep cfg rx pipe = (rx', pipe')) :
    Inv cfg cr iv rx' (pipe' ++ wire) pending ∧
    (mu rx' pipe' pending < mu rx pipe pending ∨ (rx' = rx ∧ pipe' = pipe ∧ pipe = [])) := by
  have hcfg' := hcfg
  obtain ⟨hm, hb, hs⟩ := hcfg
  have h4096 : Gen.TMCG_MAX_VALUE_CHARS = 4096 := rfl
  unfold readStep at h
  by_cases hstop : cfg.bufSize - rx.buf.length = 0 ∨ pipe.isEmpty = true
  · simp only [hstop, if_true, Prod.mk.injEq] at h
    obtain ⟨rfl, rfl⟩ := h
    refine ⟨hI, Or.inr ⟨rfl, rfl, ?_⟩⟩
    rcases hstop with h0 | h0
    · exact hI.stuck_pipe hcfg' hcr hflag h0
    · simpa using h0
  · simp only [hstop, if_false] at h
    have hroom : 0 < cfg.bufSize - rx.buf.length := by omega
    have hpipe : 0 < pipe.length := by
      cases pipe with
      | nil => simp at hstop
      | cons a t => simp
    set room := cfg.bufSize - rx.buf.length with hroomdef
    have hgl : (pipe.take room).length = min room pipe.length := List.length_take
    have hdl : (pipe.drop room).length = pipe.length - room := List.length_drop
    have hsplit : pipe.take room ++ pipe.drop room = pipe := List.take_append_drop _ _
    have hlen := hI.len
    have hsw : pipe.take room ++ (pipe.drop room ++ wire) = pipe ++ wire := by
      rw [← List.append_assoc, hsplit]
    by_cases hph : cfg.enc = true ∧ rx.ivSeen = false
    · have hph' : cfg.enc = true ∧ (!rx.ivSeen) = true := by simp [hph.1, hph.2]
      simp only [hph'] at h
      have hpne : pending ≠ [] := by
        rintro rfl
        have := hI.stream
        simp [frames] at this
        rw [this.2.1] at hpipe
        simp at hpipe
      have hst := hI.stream
      rw [if_pos ⟨hph.1, hph.2, hpne⟩] at hst
      by_cases hfull : (rx.buf ++ pipe.take room).length ≥ cfg.blklen
      · simp only [hfull, if_true] at h
        obtain ⟨rfl, rfl⟩ := h
        have hst2 : (rx.buf ++ pipe.take room) ++ (pipe.drop room ++ wire) =
            iv ++ frames cfg cr rx.sqn rx.calls pending := by
          rw [← hst, List.append_assoc, hsw]
        have hst3 : List.drop cfg.blklen (rx.buf ++ pipe.take room) ++ (pipe.drop room ++ wire) =
            frames cfg cr rx.sqn rx.calls pending := by
          rw [← List.drop_append_of_le_length hfull, hst2, ← hiv]
          exact List.drop_left
        refine ⟨⟨hI.ok, ?_, ?_, ?_, ?_⟩, Or.inl ?_⟩
        · simp only [List.length_drop, List.length_append, hgl]
          omega
        · simp only [hst3]
          simp
        · intro _ hf; simp at hf
        · intro hfl _ m ps hp
          simp only [Bool.not_eq_false', List.isEmpty_iff] at hfl
          simp only [hfl, List.length_nil]
          exact frame_pos _ _ _ _ _
        · simp only [mu, hflag, hdl]
          split <;> simp <;> omega
      · simp only [hfull, if_false] at h
        obtain ⟨rfl, rfl⟩ := h
        refine ⟨⟨hI.ok, ?_, ?_, ?_, ?_⟩, Or.inl ?_⟩
        · show (rx.buf ++ pipe.take room).length ≤ cfg.bufSize
          simp only [List.length_append, hgl] at hfull ⊢
          omega
        · show (rx.buf ++ pipe.take room) ++ (pipe.drop room ++ wire) = _
          simp only [if_pos (show cfg.enc = true ∧ rx.ivSeen = false ∧ pending ≠ [] from ⟨hph.1, hph.2, hpne⟩)]
          rw [← hst, List.append_assoc, hsw]
        · intro _ _
          refine ⟨hflag, ?_⟩
          show (rx.buf ++ pipe.take room).length < cfg.blklen
          omega
        · intro _ hn; exact absurd hph hn
        · simp only [mu, hflag, hdl]
          simp; omega
    · have hph' : ¬ (cfg.enc = true ∧ (!rx.ivSeen) = true) := by
        intro hc; apply hph; simpa using hc
      simp only [hph', if_false, Prod.mk.injEq] at h
      obtain ⟨rfl, rfl⟩ := h
      refine ⟨⟨hI.ok, ?_, ?_, ?_, ?_⟩, Or.inl ?_⟩
      · show (rx.buf ++ pipe.take room).length ≤ cfg.bufSize
        simp only [List.length_append, hgl]
        omega
      · have hst := hI.stream
        show (rx.buf ++ pipe.take room) ++ (pipe.drop room ++ wire) = _
        rw [List.append_assoc, hsw]; exact hst
      · intro he hs; exact absurd ⟨he, hs⟩ hph
      · intro hf; simp at hf
      · simp only [mu, hflag, hdl]
        simp; omega


theorem receive_succ_noflag (cfg : Cfg) (cr : Crypto) (k : Nat) (rx : Rx) (pipe : Bytes)
    (h : rx.flag = false) :
    receive cfg cr (k + 1) rx pipe =
      receive cfg cr k (readStep cfg rx pipe).1 (readStep cfg rx pipe).2 := by
  simp [receive, h]

theorem receive_succ_incomplete (cfg : Cfg) (cr : Crypto) (k : Nat) (rx rx1 : Rx) (pipe : Bytes)
    (h : rx.flag = true) (hp : parse cfg cr rx = (rx1, .incomplete)) :
    receive cfg cr (k + 1) rx pipe =
      receive cfg cr k (readStep cfg rx1 pipe).1 (readStep cfg rx1 pipe).2 := by
  simp [receive, h, hp]

theorem receive_succ_delivered (cfg : Cfg) (cr : Crypto) (k : Nat) (rx rx1 : Rx) (pipe : Bytes) (v : Int)
    (h : rx.flag = true) (hp : parse cfg cr rx = (rx1, .delivered v)) :
    receive cfg cr (k + 1) rx pipe = (rx1, pipe, .delivered v) := by
  simp [receive, h, hp]


/-- outcome of a `Receive` call (or of its last `rounds` rounds) from a state satisfying the invariant -/
def RecvOk (cfg : Cfg) (cr : Crypto) (iv wire : Bytes) (pending : List Int) (rounds : Nat)
    (rx : Rx) (pipe : Bytes) (r : Rx × Bytes × Parse) : Prop :=
  (r.2.2 = .incomplete ∧ Inv cfg cr iv r.1 (r.2.1 ++ wire) pending ∧
    mu r.1 r.2.1 pending ≤ mu rx pipe pending ∧
    (1 ≤ rounds → mu r.1 r.2.1 pending < mu rx pipe pending ∨ (rx.flag = false ∧ pipe = []))) ∨
  (∃ v ps, r.2.2 = .delivered v ∧ pending = v :: ps ∧ Inv cfg cr iv r.1 (r.2.1 ++ wire) ps ∧
    mu r.1 r.2.1 ps < mu rx pipe pending)

theorem receive_spec (cfg : Cfg) (hcfg : CfgOk cfg) (cr : Crypto) (hcr : CryptoOk cfg cr)
    (iv : Bytes) (hiv : iv.length = cfg.blklen) (wire : Bytes) (pending : List Int) :
    ∀ (rounds : Nat) (rx : Rx) (pipe : Bytes), Inv cfg cr iv rx (pipe ++ wire) pending →
      RecvOk cfg cr iv wire pending rounds rx pipe (receive cfg cr rounds rx pipe) := by
  intro rounds
  induction rounds with
  | zero =>
    intro rx pipe hI
    left
    exact ⟨rfl, hI, le_refl _, fun h => absurd h (by omega)⟩
  | succ k ih =>
    intro rx pipe hI
    -- the common tail: read, then the remaining rounds
    have tail : ∀ rx1 : Rx, rx1.flag = false → Inv cfg cr iv rx1 (pipe ++ wire) pending →
        RecvOk cfg cr iv wire pending (k + 1) rx1 pipe
          (receive cfg cr k (readStep cfg rx1 pipe).1 (readStep cfg rx1 pipe).2) := by
      intro rx1 hf1 hI1
      obtain ⟨hI2, hmu⟩ := read_spec cfg hcfg cr hcr iv hiv rx1 pipe wire pending hI1 hf1
        (readStep cfg rx1 pipe).1 (readStep cfg rx1 pipe).2 rfl
      have hle : mu (readStep cfg rx1 pipe).1 (readStep cfg rx1 pipe).2 pending ≤ mu rx1 pipe pending := by
        rcases hmu with h | ⟨h1, h2, -⟩
        · omega
        · rw [h1, h2]
      rcases ih _ _ hI2 with ⟨h1, h2, h3, -⟩ | ⟨v, ps, h1, h2, h3, h4⟩
      · left
        refine ⟨h1, h2, le_trans h3 hle, fun _ => ?_⟩
        rcases hmu with h | ⟨-, -, h⟩
        · left; omega
        · right; exact ⟨hf1, h⟩
      · right
        exact ⟨v, ps, h1, h2, h3, by omega⟩
    have tail' : ∀ rx1 : Rx, rx.flag = true → rx1 = { rx with flag := false } →
        Inv cfg cr iv rx1 (pipe ++ wire) pending →
        RecvOk cfg cr iv wire pending (k + 1) rx pipe
          (receive cfg cr k (readStep cfg rx1 pipe).1 (readStep cfg rx1 pipe).2) := by
      intro rx1 hf hrx1 hI1
      have hf1 : rx1.flag = false := by rw [hrx1]
      have hmu1 : mu rx1 pipe pending + 1 = mu rx pipe pending := by
        simp [mu, hf, hf1]
      rcases tail rx1 hf1 hI1 with ⟨h1, h2, h3, -⟩ | ⟨v, ps, h1, h2, h3, h4⟩
      · left
        exact ⟨h1, h2, by omega, fun _ => Or.inl (by omega)⟩
      · right
        exact ⟨v, ps, h1, h2, h3, by omega⟩
    cases hflag : rx.flag
    · rw [receive_succ_noflag cfg cr k rx pipe hflag]
      exact tail rx hflag hI
    · -- a parse attempt; we are past the IV
      have hph : ¬ (cfg.enc = true ∧ rx.ivSeen = false) := by
        rintro ⟨h1, h2⟩
        have := (hI.ivphase h1 h2).1
        rw [hflag] at this
        exact absurd this (by simp)
      have hst := hI.stream
      rw [if_neg (fun h => hph ⟨h.1, h.2.1⟩), List.nil_append] at hst
      -- invariant after an incomplete parse
      have hInc : (∀ m ps, pending = m :: ps → rx.buf.length < (frame cfg cr rx.sqn rx.calls m).length) →
          Inv cfg cr iv { rx with flag := false } (pipe ++ wire) pending := by
        intro hno
        exact ⟨hI.ok, hI.len, hI.stream, fun h1 h2 => absurd ⟨h1, h2⟩ hph, fun _ _ => hno⟩
      cases hp : pending with
      | nil =>
        subst hp
        have hbuf : rx.buf = [] := by
          simp only [frames, List.append_eq_nil_iff] at hst
          exact hst.1
        have hparse := parse_no_nl cfg cr rx (by rw [hbuf]; simp)
        rw [receive_succ_incomplete cfg cr k rx _ pipe hflag hparse]
        exact tail' _ hflag rfl (hInc (fun m ps h => by simp at h))
      | cons m ps =>
        subst hp
        rw [frames] at hst
        by_cases hshort : rx.buf.length < (frame cfg cr rx.sqn rx.calls m).length
        · have hparse := parse_partial cfg cr hcr rx m _ _ hst hshort
          rw [receive_succ_incomplete cfg cr k rx _ pipe hflag hparse]
          refine tail' _ hflag rfl (hInc ?_)
          intro m' ps' h
          simp only [List.cons.injEq] at h
          rw [← h.1]; exact hshort
        · -- a complete frame is buffered
          set fr := frame cfg cr rx.sqn rx.calls m with hfr
          have hge : fr.length ≤ rx.buf.length := by omega
          have htake : rx.buf.take fr.length = fr := by
            have := congrArg (List.take fr.length) hst
            rw [List.take_append_of_le_length hge, List.take_left' rfl] at this
            exact this
          have hsplit : rx.buf = fr ++ rx.buf.drop fr.length := by
            conv_lhs => rw [← List.take_append_drop fr.length rx.buf, htake]
          have hrest : rx.buf.drop fr.length ++ (pipe ++ wire) =
              frames cfg cr (if cfg.auth then rx.sqn + 1 else rx.sqn)
                (if cfg.enc then rx.calls + 1 else rx.calls) ps := by
            have := congrArg (List.drop fr.length) hst
            rw [List.drop_append_of_le_length hge, List.drop_left' rfl] at this
            exact this
          have hparse := parse_frame cfg cr hcr rx m _ (hI.ok m (by simp)) hsplit
          rw [receive_succ_delivered cfg cr k rx _ pipe m hflag hparse]
          right
          refine ⟨m, ps, rfl, rfl, ⟨?_, ?_, ?_, ?_, ?_⟩, ?_⟩
          · intro x hx; exact hI.ok x (by simp [hx])
          · show (rx.buf.drop fr.length).length ≤ cfg.bufSize
            have := hI.len
            simp only [List.length_drop]; omega
          · show rx.buf.drop fr.length ++ (pipe ++ wire) = _
            have hc : ¬ (cfg.enc = true ∧ rx.ivSeen = false ∧ ps ≠ []) := fun h => hph ⟨h.1, h.2.1⟩
            simp only [if_neg hc, List.nil_append]
            exact hrest
          · intro h1 h2; exact absurd ⟨h1, h2⟩ hph
          · intro hfl _ m' ps' _
            have hnil : rx.buf.drop fr.length = [] := by
              have : (!(rx.buf.drop fr.length).isEmpty) = false := hfl
              simpa using this
            show (rx.buf.drop fr.length).length < _
            rw [hnil]
            exact frame_pos _ _ _ _ _
          · simp only [mu, List.length_cons]
            split <;> omega


/-! ### worlds -/

structure WInv (cfg : Cfg) (cr : Crypto) (iv : Bytes) (msgs : List Int) (w : World)
    (pending : List Int) : Prop where
  split : msgs = w.delivered ++ pending
  nofail : w.failures = 0
  inv : Inv cfg cr iv w.rx (w.pipe ++ w.wire) pending

theorem step_push (cfg : Cfg) (cr : Crypto) (iv : Bytes) (n : Nat) (msgs : List Int) (w : World)
    (pending : List Int) (k : Nat) (h : WInv cfg cr iv msgs w pending) :
    WInv cfg cr iv msgs (step cfg cr n w (.push k)) pending := by
  refine ⟨h.split, h.nofail, ?_⟩
  show Inv cfg cr iv w.rx ((w.pipe ++ w.wire.take k) ++ w.wire.drop k) pending
  rw [List.append_assoc, List.take_append_drop]
  exact h.inv

theorem step_recv (cfg : Cfg) (hcfg : CfgOk cfg) (cr : Crypto) (hcr : CryptoOk cfg cr)
    (iv : Bytes) (hiv : iv.length = cfg.blklen) (n : Nat) (hn : 1 ≤ n) (msgs : List Int) (w : World)
    (pending : List Int) (h : WInv cfg cr iv msgs w pending) :
    ∃ pending', WInv cfg cr iv msgs (step cfg cr n w .recv) pending' ∧
      (step cfg cr n w .recv).wire = w.wire ∧ pending'.length ≤ pending.length ∧
      (mu (step cfg cr n w .recv).rx (step cfg cr n w .recv).pipe pending' < mu w.rx w.pipe pending ∨
        (w.rx.flag = false ∧ w.pipe = [] ∧ pending' = pending)) := by
  have hspec := receive_spec cfg hcfg cr hcr iv hiv w.wire pending n w.rx w.pipe h.inv
  unfold step
  simp only []
  generalize receive cfg cr n w.rx w.pipe = r at hspec
  obtain ⟨rx', pipe', res⟩ := r
  rcases hspec with ⟨h1, h2, h3, h4⟩ | ⟨v, ps, h1, h2, h3, h4⟩
  · simp only at h1 h2 h3 h4
    subst h1
    refine ⟨pending, ⟨h.split, h.nofail, h2⟩, rfl, le_refl _, ?_⟩
    rcases h4 hn with h5 | ⟨h5, h6⟩
    · exact Or.inl h5
    · exact Or.inr ⟨h5, h6, rfl⟩
  · simp only at h1 h2 h3 h4
    subst h1 h2
    refine ⟨ps, ⟨?_, h.nofail, h3⟩, rfl, by simp, Or.inl h4⟩
    show msgs = (w.delivered ++ [v]) ++ ps
    rw [h.split]; simp

theorem run_inv (cfg : Cfg) (hcfg : CfgOk cfg) (cr : Crypto) (hcr : CryptoOk cfg cr)
    (iv : Bytes) (hiv : iv.length = cfg.blklen) (n : Nat) (hn : 1 ≤ n) (msgs : List Int) :
    ∀ (ops : List Op) (w : World) (pending : List Int), WInv cfg cr iv msgs w pending →
      ∃ pending', WInv cfg cr iv msgs (run cfg cr n w ops) pending' ∧
        (run cfg cr n w ops).wire.length ≤ w.wire.length := by
  intro ops
  induction ops with
  | nil => intro w pending h; exact ⟨pending, h, le_refl _⟩
  | cons op ops ih =>
    intro w pending h
    show ∃ pending', WInv cfg cr iv msgs (run cfg cr n (step cfg cr n w op) ops) pending' ∧
      (run cfg cr n (step cfg cr n w op) ops).wire.length ≤ w.wire.length
    cases op with
    | push k =>
      obtain ⟨p', h1, h2⟩ := ih _ pending (step_push cfg cr iv n msgs w pending k h)
      refine ⟨p', h1, le_trans h2 ?_⟩
      show (w.wire.drop k).length ≤ _
      simp
    | recv =>
      obtain ⟨p1, h1, h2, -, -⟩ := step_recv cfg hcfg cr hcr iv hiv n hn msgs w pending h
      obtain ⟨p', h3, h4⟩ := ih _ p1 h1
      exact ⟨p', h3, h2 ▸ h4⟩

theorem init_inv (cfg : Cfg) (hcfg : CfgOk cfg) (cr : Crypto) (iv : Bytes)
    (msgs : List Int) (tx' : Tx) (wire : Bytes)
    (hsend : sendAll cfg cr iv {} msgs = some (tx', wire)) :
    WInv cfg cr iv msgs { wire := wire } msgs := by
  obtain ⟨hok, hw⟩ := sendAll_spec cfg cr iv msgs {} tx' wire hsend
  obtain ⟨hm, hb, hs⟩ := hcfg
  refine ⟨by simp, rfl, ⟨hok, by simp, ?_, ?_, ?_⟩⟩
  · show ([] : Bytes) ++ ([] ++ wire) = _
    rw [hw]; rfl
  · intro _ _
    refine ⟨rfl, ?_⟩
    show ([] : Bytes).length < cfg.blklen
    rw [hb]; simp
  · intro _ _ m ps _
    exact frame_pos _ _ _ _ _

theorem recv_iter (cfg : Cfg) (hcfg : CfgOk cfg) (cr : Crypto) (hcr : CryptoOk cfg cr)
    (iv : Bytes) (hiv : iv.length = cfg.blklen) (n : Nat) (hn : 1 ≤ n) (msgs : List Int) :
    ∀ (k : Nat) (w : World) (pending : List Int), WInv cfg cr iv msgs w pending → w.wire = [] →
      ∃ pending', WInv cfg cr iv msgs (run cfg cr n w (List.replicate k Op.recv)) pending' ∧
        pending'.length ≤ pending.length ∧
        (pending' = [] ∨
          mu (run cfg cr n w (List.replicate k Op.recv)).rx (run cfg cr n w (List.replicate k Op.recv)).pipe
            pending' + k ≤ mu w.rx w.pipe pending) := by
  intro k
  induction k with
  | zero => intro w pending h _; exact ⟨pending, h, le_refl _, Or.inr (le_refl _)⟩
  | succ k ih =>
    intro w pending h hw
    rw [List.replicate_succ]
    show ∃ pending', WInv cfg cr iv msgs (run cfg cr n (step cfg cr n w .recv) (List.replicate k Op.recv)) pending' ∧ _
    obtain ⟨p1, h1, h2, h3, h4⟩ := step_recv cfg hcfg cr hcr iv hiv n hn msgs w pending h
    obtain ⟨p', h5, h6, h7⟩ := ih _ p1 h1 (by rw [h2, hw])
    refine ⟨p', h5, le_trans h6 h3, ?_⟩
    rcases h4 with h4 | ⟨hf, hp, rfl⟩
    · rcases h7 with h7 | h7
      · exact Or.inl h7
      · right
        show mu (run cfg cr n (step cfg cr n w .recv) (List.replicate k Op.recv)).rx
          (run cfg cr n (step cfg cr n w .recv) (List.replicate k Op.recv)).pipe p' + (k + 1) ≤ _
        omega
    · left
      have hI := h.inv
      rw [hp, hw] at hI
      have := hI.done hiv hf
      subst this
      simpa using h6


end Helpers

/-! ## the theorems of C13 -/

/-- every wire message the sender accepts is shorter than the receiver's reassembly buffer
    (line, newline, tag — with the cipher expansion in the encrypted modes), so a full buffer
    always contains a complete message and the receiver cannot wedge -/
theorem send_fits_buffer (cfg : Cfg) (hcfg : CfgOk cfg) (cr : Crypto) (hcr : CryptoOk cfg cr)
    (iv : Bytes) (hiv : iv.length = cfg.blklen) (tx tx' : Tx) (m : Int) (w : Bytes)
    (h : send cfg cr iv tx m = some (tx', w)) :
    w.length ≤ cfg.bufSize + (if cfg.enc ∧ !tx.ivSent then cfg.blklen else 0) ∧
    w.length - (if cfg.enc ∧ !tx.ivSent then cfg.blklen else 0) ≤ cfg.bufSize := by
  obtain ⟨hok, hw, -, -, -⟩ := send_spec cfg cr iv tx tx' m w h
  have hf := frame_length_le cfg hcfg cr hcr tx.sqn tx.calls m hok
  have hl : w.length = (if cfg.enc ∧ !tx.ivSent then cfg.blklen else 0) +
      (frame cfg cr tx.sqn tx.calls m).length := by
    rw [hw, List.length_append]
    congr 1
    cases cfg.enc <;> cases tx.ivSent <;> simp [hiv]
  omega

/-- the text line of a message contains no newline: the first `0x0A` after a message boundary is
    the delimiter, although tag and IV bytes may contain `0x0A` -/
theorem send_line_no_newline (cfg : Cfg) (cr : Crypto) (iv : Bytes) (tx tx' : Tx) (m : Int) (w : Bytes)
    (h : send cfg cr iv tx m = some (tx', w)) :
    ∃ pre line tag, w = pre ++ line ++ [10] ++ tag ∧ 10 ∉ line ∧
      pre = (if cfg.enc ∧ !tx.ivSent then iv else []) ∧
      tag.length = (if cfg.auth then (cr.mac (line ++ [10] ++ strBytes (Codec.str62 tx.sqn))).length else 0) := by
  obtain ⟨-, hw, -, -, -⟩ := send_spec cfg cr iv tx tx' m w h
  refine ⟨_, lineOf cfg cr tx.calls m, tagOf cfg cr tx.sqn tx.calls m, ?_, lineOf_no_nl _ _ _ _, rfl, ?_⟩
  · rw [hw, frame]
    cases cfg.enc <;> cases tx.ivSent <;> simp
  · unfold tagOf
    split <;> rfl

/-- **C13** (safety): for every list of messages accepted for sending and **every** schedule of
    arrivals and `Receive` calls — any fragmentation, empty arrivals, splits inside the IV, the
    line, the tag or exactly at the delimiter — the delivered sequence is a prefix of the sent
    sequence (in order, nothing twice, nothing altered) and no call fails. -/
theorem recv_fragmentation_prefix (cfg : Cfg) (hcfg : CfgOk cfg) (cr : Crypto) (hcr : CryptoOk cfg cr)
    (iv : Bytes) (hiv : iv.length = cfg.blklen) (hivb : ∀ b ∈ iv, b < 256) (n : Nat) (hn : 1 ≤ n)
    (msgs : List Int) (tx' : Tx) (wire : Bytes)
    (hsend : sendAll cfg cr iv {} msgs = some (tx', wire)) (ops : List Op) :
    let w := run cfg cr n { wire := wire } ops
    w.delivered <+: msgs ∧ w.failures = 0 := by
  have _ := hivb
  intro w
  obtain ⟨p, hp, -⟩ := run_inv cfg hcfg cr hcr iv hiv n hn msgs ops _ msgs
    (init_inv cfg hcfg cr iv msgs tx' wire hsend)
  exact ⟨⟨p, hp.split.symm⟩, hp.nofail⟩

/-- **C13** (delivery): once all bytes have arrived, finitely many further `Receive` calls deliver
    everything: the delivered sequence is exactly the sent sequence. -/
theorem recv_fragmentation_complete (cfg : Cfg) (hcfg : CfgOk cfg) (cr : Crypto) (hcr : CryptoOk cfg cr)
    (iv : Bytes) (hiv : iv.length = cfg.blklen) (hivb : ∀ b ∈ iv, b < 256) (n : Nat) (hn : 1 ≤ n)
    (msgs : List Int) (tx' : Tx) (wire : Bytes)
    (hsend : sendAll cfg cr iv {} msgs = some (tx', wire)) (ops : List Op) :
    ∃ N, ∀ k, N ≤ k →
      (run cfg cr n { wire := wire } (ops ++ [Op.push wire.length] ++ List.replicate k Op.recv)).delivered = msgs := by
  have _ := hivb
  obtain ⟨p0, hp0, hlen0⟩ := run_inv cfg hcfg cr hcr iv hiv n hn msgs (ops ++ [Op.push wire.length]) _ msgs
    (init_inv cfg hcfg cr iv msgs tx' wire hsend)
  -- after the final push the wire is empty
  have hwire : (run cfg cr n { wire := wire } (ops ++ [Op.push wire.length])).wire = [] := by
    obtain ⟨p1, -, hl1⟩ := run_inv cfg hcfg cr hcr iv hiv n hn msgs ops _ msgs
      (init_inv cfg hcfg cr iv msgs tx' wire hsend)
    unfold run at hl1 ⊢
    rw [List.foldl_append]
    show List.drop wire.length _ = []
    exact List.drop_eq_nil_of_le hl1
  refine ⟨mu (run cfg cr n { wire := wire } (ops ++ [Op.push wire.length])).rx
    (run cfg cr n { wire := wire } (ops ++ [Op.push wire.length])).pipe p0, ?_⟩
  intro k hk
  obtain ⟨p', h1, -, h3⟩ := recv_iter cfg hcfg cr hcr iv hiv n hn msgs k _ p0 hp0 hwire
  have hrun : run cfg cr n { wire := wire } (ops ++ [Op.push wire.length] ++ List.replicate k Op.recv) =
      run cfg cr n (run cfg cr n { wire := wire } (ops ++ [Op.push wire.length])) (List.replicate k Op.recv) := by
    unfold run; rw [List.foldl_append]
  rw [hrun]
  have hnil : p' = [] := by
    rcases h3 with h3 | h3
    · exact h3
    · have : mu (run cfg cr n (run cfg cr n { wire := wire } (ops ++ [Op.push wire.length]))
          (List.replicate k Op.recv)).rx (run cfg cr n (run cfg cr n { wire := wire }
          (ops ++ [Op.push wire.length])) (List.replicate k Op.recv)).pipe p' = 0 := by omega
      unfold mu at this
      have : p'.length = 0 := by omega
      exact List.length_eq_zero_iff.mp this
  have := h1.split
  rw [hnil, List.append_nil] at this
  exact this.symm

/-- with authentication: a complete message whose tag does not verify is never delivered; before
    the first good message it is discarded, afterwards the link stops (the message stays at the
    head of the buffer and every further call fails) -/
theorem bad_tag_never_delivered (cfg : Cfg) (cr : Crypto) (rx : Rx) (hauth : cfg.auth = true)
    (hflag : rx.flag = true) (nl : Nat) (hnl : rx.buf.idxOf? 10 = some nl)
    (hlen : cfg.maclen ≤ rx.buf.length - nl - 1)
    (hbad : cr.verify (rx.buf.take nl ++ [10] ++ strBytes (Codec.str62 rx.sqn))
              ((rx.buf.drop (nl + 1)).take cfg.maclen) = false) :
    (parse cfg cr rx).2 = .failed ∧
    (rx.sqn ≠ 1 → (parse cfg cr rx).1.buf = rx.buf ∧ (parse cfg cr rx).1.flag = true ∧ (parse cfg cr rx).1.sqn = rx.sqn) ∧
    (rx.sqn = 1 → (parse cfg cr rx).1.buf = rx.buf.drop (nl + 1 + cfg.maclen) ∧ (parse cfg cr rx).1.sqn = 1) := by
  have hl : ¬ (rx.buf.length - nl - 1 < cfg.maclen) := by omega
  unfold parse
  simp only [hnl, hauth, if_true, hl, if_false, hbad]
  by_cases h1 : rx.sqn = 1
  · simp [h1]
  · simp [h1, hflag]

/-- with authentication, whatever is delivered carried a tag that verified for the *current*
    sequence number: a modified, inserted, replayed or reordered message that is delivered yields a
    forgery (a tag valid for (line, sqn) that the sender never produced for that pair) -/
theorem delivered_was_tagged (cfg : Cfg) (cr : Crypto) (rx rx' : Rx) (v : Int) (hauth : cfg.auth = true)
    (h : parse cfg cr rx = (rx', .delivered v)) :
    ∃ nl, rx.buf.idxOf? 10 = some nl ∧
      cr.verify (rx.buf.take nl ++ [10] ++ strBytes (Codec.str62 rx.sqn))
        ((rx.buf.drop (nl + 1)).take cfg.maclen) = true ∧ rx'.sqn = rx.sqn + 1 := by
  unfold parse at h
  cases hidx : rx.buf.idxOf? 10 with
  | none => simp [hidx] at h
  | some nl =>
    refine ⟨nl, rfl, ?_⟩
    simp only [hidx, hauth, if_true] at h
    split at h
    · simp at h
    · cases hv : cr.verify (List.take nl rx.buf ++ [10] ++ strBytes (Codec.str62 ↑rx.sqn))
          (List.take cfg.maclen (List.drop (nl + 1) rx.buf)) with
      | false =>
        simp only [hv, Bool.not_true, Bool.false_or, Bool.not_false, if_true] at h
        split at h <;> simp at h
      | true =>
        refine ⟨rfl, ?_⟩
        simp only [hv, Bool.not_true, Bool.false_or, Bool.false_eq_true, if_false] at h
        repeat' split at h
        all_goals first
          | (simp at h; done)
          | (obtain ⟨rfl, -⟩ := Prod.mk.inj h; rfl)

end Tmcg.Aio
