import TmcgProofs.Tsig
/-
  C16 for `CanettiGennaroJareckiKrawczykRabinDSS::Sign` (src/CanettiGennaroJareckiKrawczykRabinASTC.cc):
  the algebra of the threshold DSS run, linked to the model of the library's verifier
  (`Tsig.dssVerify`, `TsigProofs.dssVerify_iff`).

  What `Sign` reconstructs (steps 1f, 1g, 2f of the code), stated on the values themselves:
    * `mu`  interpolated in step 1f           — the per-step checks make it  mu ≡ k·a  (mod q)
    * `r = ((g^a)^{mu^{-1}} mod p) mod q`     — step 1g, `g^a` = `a_dkg->y`
    * `s`   interpolated in step 2f           — the per-step checks make it  s ≡ k·(m + x·r)  (mod q)
  where `x` is the secret key (`y = g^x`), `k` the shared nonce and `a` the shared blinding value.

    * `sign_r_eq`        `(g^a)^{mu^{-1}} = g^{k^{-1}}`  (with `k^{-1} := a·mu^{-1}`)
    * `sign_dsaAccepts`  such `(r, s)` with `0 < r`, `0 < s < q` satisfy the textbook DSA condition under `y`
    * `sign_dssVerify`   … so the library's `Verify` (model `Tsig.dssVerify`) returns `true`
  Note: `Sign` does not test `r ≠ 0` / `s ≠ 0`; for those two values (probability about `2/q`) a
  completed run outputs a pair that `Verify` refuses.  The theorems carry `0 < r`, `0 < s` as hypotheses.
-/
namespace Tmcg.CgjkrSignP
open Tmcg Tmcg.Powm Tmcg.Vtmf Tmcg.Grp Tmcg.Tsig Tmcg.TsigProofs

variable {G : Group} [Fact (Nat.Prime G.p.natAbs)]

set_option linter.unusedSectionVars false
set_option linter.unusedVariables false

/-- step 1g: with `mu ≡ k·a` and `mu·muinv ≡ 1 (mod q)`, `(g^a)^{muinv} = g^{a·muinv}` and
    `a·muinv` is an inverse of `k` modulo `q` -/
theorem sign_r_eq (hG : ValidGroup G) (k a mu muinv : Int) (ay : Int)
    (hay : toF G ay = toF G G.g ^ a)
    (hmu : mu ≡ k * a [ZMOD G.q]) (hinv : mu * muinv ≡ 1 [ZMOD G.q]) :
    toF G ay ^ muinv = toF G G.g ^ (a * muinv) ∧ k * (a * muinv) ≡ 1 [ZMOD G.q] := by
  refine ⟨by rw [hay, ← zpow_mul], ?_⟩
  calc k * (a * muinv) = (k * a) * muinv := by ring
    _ ≡ mu * muinv [ZMOD G.q] := (hmu.symm).mul_right muinv
    _ ≡ 1 [ZMOD G.q] := hinv

/-- **Threshold DSS signatures verify.**  `y = g^x`, `k·kinv ≡ 1`, `r = (g^{kinv} mod p) mod q`,
    `s ≡ k·(m + x·r) (mod q)`, `0 < r`, `0 < s < q`: the pair satisfies the standard DSA verification
    equation under the key `y` on the message (hash value) `m`. -/
theorem sign_dsaAccepts (hG : ValidGroup G) (x k kinv m r s y : Int)
    (hy : toF G y = toF G G.g ^ x)
    (hk : k * kinv ≡ 1 [ZMOD G.q])
    (hr : r = ((toF G G.g ^ kinv : F G).val : Int) % G.q)
    (hs : s ≡ k * (m + x * r) [ZMOD G.q])
    (hr0 : 0 < r) (hs0 : 0 < s) (hs1 : s < G.q) :
    DsaAccepts G y m r s := by
  have hq := hG.q_pos
  obtain ⟨w, hw, hw0, hw1, hsw⟩ := invm_q hG s ⟨hs0, hs1⟩
  have hr1 : r < G.q := by rw [hr]; exact Int.emod_lt_of_pos _ hq
  refine ⟨hr0, hr1, hs0, hs1, w, hw0, hw1, hsw, ?_⟩
  have hu1 := Int.emod_nonneg (m * w) (ne_of_gt hq)
  have hu2 := Int.emod_nonneg (r * w) (ne_of_gt hq)
  have hsw' : s * w ≡ 1 [ZMOD G.q] := modEq_one_of_emod hG hsw
  -- the exponent of g on the right-hand side is congruent to kinv
  have hexp : m * w % G.q + x * (r * w % G.q) ≡ kinv [ZMOD G.q] := by
    have e1 : m * w % G.q + x * (r * w % G.q) ≡ m * w + x * (r * w) [ZMOD G.q] :=
      (Int.mod_modEq _ _).add ((Int.mod_modEq _ _).mul_left x)
    have e2 : m * w + x * (r * w) = (m + x * r) * w := by ring
    have e3 : (m + x * r) ≡ kinv * s [ZMOD G.q] := by
      calc (m + x * r) = 1 * (m + x * r) := (one_mul _).symm
        _ ≡ (k * kinv) * (m + x * r) [ZMOD G.q] := (hk.symm).mul_right _
        _ = kinv * (k * (m + x * r)) := by ring
        _ ≡ kinv * s [ZMOD G.q] := (hs.symm).mul_left kinv
    calc m * w % G.q + x * (r * w % G.q) ≡ m * w + x * (r * w) [ZMOD G.q] := e1
      _ = (m + x * r) * w := e2
      _ ≡ (kinv * s) * w [ZMOD G.q] := e3.mul_right w
      _ = kinv * (s * w) := by ring
      _ ≡ kinv * 1 [ZMOD G.q] := hsw'.mul_left kinv
      _ = kinv := mul_one kinv
  have hval : (toF G G.g ^ (m * w % G.q).toNat * toF G y ^ (r * w % G.q).toNat : F G) = toF G G.g ^ kinv := by
    rw [pow_toNat _ hu1, pow_toNat _ hu2, hy, ← zpow_mul, ← zpow_add₀ (g_ne_zero hG)]
    exact g_zpow_congr hG hexp
  rw [hval]
  exact hr

/-- … and therefore the library's verifier accepts it: `Tsig.dssVerify` returns `true`. -/
theorem sign_dssVerify (hG : ValidGroup G) (x k kinv m r s y : Int)
    (hy : toF G y = toF G G.g ^ x)
    (hk : k * kinv ≡ 1 [ZMOD G.q])
    (hr : r = ((toF G G.g ^ kinv : F G).val : Int) % G.q)
    (hs : s ≡ k * (m + x * r) [ZMOD G.q])
    (hr0 : 0 < r) (hs0 : 0 < s) (hs1 : s < G.q) :
    dssVerify G y m r s = .ok true := by
  obtain ⟨b, hb, hiff⟩ := dssVerify_iff hG y m r s
  have : b = true := hiff.mpr (sign_dsaAccepts hG x k kinv m r s y hy hk hr hs hr0 hs0 hs1)
  rw [hb, this]

/-- the same with the values of the code: `mu` (step 1f), `ay = a_dkg->y = g^a`, `muinv` the result of
    `mpz_invert(mu, q)`, `r` computed as `mpz_powm(ay, muinv, p) mod q` -/
theorem sign_dssVerify_code (hG : ValidGroup G) (x k a mu muinv m r s y ay rp : Int)
    (hy : toF G y = toF G G.g ^ x)
    (hay : toF G ay = toF G G.g ^ a)
    (hmu : mu ≡ k * a [ZMOD G.q])
    (hinv : invm mu G.q = some muinv)
    (hmu0 : ¬ mu ≡ 0 [ZMOD G.q])
    (hrp : mpzPowm ay muinv G.p = .ok rp)
    (hr : r = rp % G.q)
    (hs : s ≡ k * (m + x * r) [ZMOD G.q])
    (hr0 : 0 < r) (hs0 : 0 < s) (hs1 : s < G.q) :
    dssVerify G y m r s = .ok true := by
  have hq := hG.q_pos
  obtain ⟨i0, i1, ic⟩ := invm_some hinv
  have hinv' : mu * muinv ≡ 1 [ZMOD G.q] := ic
  obtain ⟨h1, h2⟩ := sign_r_eq hG k a mu muinv ay hay hmu hinv'
  have hay0 : toF G ay ≠ 0 := by
    rw [hay]
    exact zpow_ne_zero _ (g_ne_zero hG)
  obtain ⟨r', hr', hr0', hr1', hrv⟩ := mpzPowm_val hG ay muinv hay0
  rw [hrp] at hr'
  have e : rp = r' := Except.ok.inj hr'
  subst e
  have hval : ((toF G G.g ^ (a * muinv) : F G).val : Int) = rp := by
    rw [← h1, ← hrv]
    exact toF_val hG rp ⟨hr0', hr1'⟩
  exact sign_dssVerify hG x k (a * muinv) m r s y hy h2 (by rw [hval]; exact hr) hs hr0 hs0 hs1

end Tmcg.CgjkrSignP
