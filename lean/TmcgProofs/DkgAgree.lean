import TmcgProofs.Dkg
/-
  C15, global layer: view consistency of the honest parties in `runGen` (rounds 0..3) and the two
  agreement statements of TmcgProofs/Dkg.lean (`qual_agree`, `honest_in_qual`).

  Proved (no `sorry`):
    * `qual_agree'`, `honest_in_qual'`   the statements of `qual_agree` / `honest_in_qual` with ONE
                                         additional hypothesis `n < 2 ^ 64`
    * `qual_agree_unbounded_false`,
      `honest_in_qual_unbounded_false`   the statements exactly as written in Dkg.lean (no bound on `n`)
                                         are FALSE in the model: `n = 2^64`, `t = 0`, every party honest.
                                         `getUi` (`mpz_get_ui`) truncates the end marker `n` of a complaint
                                         list to `n mod 2^64 = 0 < n`; `genReadComplaints` reads it as a
                                         complaint against party 0, goes on reading and times out, so the
                                         sender is put on the complaint list: party 0 ends with
                                         `1 ∉ QUAL`, party 1 with `1 ∈ QUAL`.
  Structure:
    (1)  round glue: `runRound` pointwise (`ag_runRound_party`, `Delivered`): the broadcast part of
         sender `k` appended to `b[k]` is the same list `(outOf steps ps k).1` for every receiver
    (2)  `stepParty`; the output filter of a party with an honest script is the identity
    (3)  `qual` is not changed by rounds ≥ 4 (`ag_runRounds_qual`)
    (4)  the readers as functions of ONE sender's stream (`reS`, `rcS`, `raS`, `anS`, `shOne`) and the
         equations `ag_readElems`, `ag_genReadComplaints`, `ag_genReadAnswers`, `ag_answeredOf`,
         `ag_complaintsOf`, `ag_genReadShares_cons`; the `complainers` lists (`ag_genComplainers`) and the
         unanswered complaints (`unB`, `ag_mem_unanswered`)
    (5)  the loops over the senders: what is read / left alone (`…_frame`, `…_hit`, `…_glob`),
         the complaint counters as sums (`ag_genCollectGo_cnt`), totality of the arithmetic
    (6)  the readers on well-formed streams (`ag_reS_honest`, `ag_rcS_honest`, `ag_raS_honest`)
    (7)  specifications of the four step functions (`ag_genDeal_honest`, `ag_genVerify_spec`,
         `ag_genCollect_spec`, `ag_genResolve_spec`)
    (8)–(12) the invariants after rounds 0, 1, 2, 3 (`Inv1` … `Inv4`) and the theorems
    (13) the refutation for `n = 2^64`
-/
namespace Tmcg.DkgP
open Tmcg Tmcg.Powm Tmcg.Dkg Tmcg.Grp Tmcg.DkgL

variable {G : Dkg.Grp} [Fact (Nat.Prime G.p.natAbs)]

set_option linter.unusedSectionVars false

/-! ### (0) list helpers -/

theorem ag_getD_set {α} (l : List α) (j k : Nat) (x d : α) :
    (l.set j x).getD k d = if j = k ∧ k < l.length then x else l.getD k d := by
  simp only [List.getD_eq_getElem?_getD, List.getElem?_set]
  by_cases h : j = k
  · subst h
    by_cases h2 : j < l.length
    · simp [h2]
    · simp [h2]
  · simp [h]

theorem ag_zipRange_getElem? {α} (ps : List α) (s i : Nat) :
    ((List.range' s ps.length).zip ps)[i]? = (ps[i]?).map (fun P => (s + i, P)) := by
  induction ps generalizing s i with
  | nil => simp
  | cons P ps ih =>
    cases i with
    | zero => simp [List.range'_succ]
    | succ i =>
      simp only [List.length_cons, List.range'_succ, List.zip_cons_cons, List.getElem?_cons_succ]
      rw [ih]
      congr 1
      funext P
      congr 1
      omega

/-! ### (1) the round glue -/

theorem ag_runRounds_append {σ} (steps : Nat → Nat → Step σ) (l1 l2 : List Nat) (ps : List (Party σ)) :
    runRounds steps (l1 ++ l2) ps = runRounds steps l2 (runRounds steps l1 ps) := by
  induction l1 generalizing ps with
  | nil => rfl
  | cons k l ih => simp [runRounds, ih]

theorem ag_stepAll_length {σ} (n : Nat) (steps : Nat → Step σ) (k : Nat) (ps : List (Party σ)) :
    (stepAll n steps k ps).length = ps.length := by
  induction ps generalizing k with
  | nil => rfl
  | cons P ps ih => simp [stepAll, ih]

theorem ag_stepAll_getElem? {σ} (n : Nat) (steps : Nat → Step σ) (k : Nat) (ps : List (Party σ)) (i : Nat) :
    (stepAll n steps k ps)[i]? = (ps[i]?).map (fun P => stepParty n (steps (k + i)) P) := by
  induction ps generalizing k i with
  | nil => simp [stepAll]
  | cons P ps ih =>
    cases i with
    | zero => simp [stepAll]
    | succ i =>
      simp only [stepAll, List.getElem?_cons_succ]
      rw [ih]
      congr 1
      funext P
      congr 2
      omega

/-- the deliveries to party `i` -/
def dStep {σ} (i : Nat) (P : Party σ) (jo : Nat × (List (Tag × Int) × List (Nat × Int))) : Party σ :=
  if i = jo.1 then P
  else deliverTo jo.1 jo.2.1 ((jo.2.2.filter (fun e => e.1 == i)).map (·.2)) P

def dFold {σ} (i : Nat) (L : List (Nat × (List (Tag × Int) × List (Nat × Int)))) (P : Party σ) : Party σ :=
  L.foldl (dStep i) P

theorem ag_deliverAll_eq {σ} (outs : List (List (Tag × Int) × List (Nat × Int))) (ps : List (Party σ)) :
    deliverAll outs ps =
      ((List.range ps.length).zip ps).map (fun ip => dFold ip.1 ((List.range outs.length).zip outs) ip.2) := by
  rfl

theorem ag_deliverAll_getElem? {σ} (outs : List (List (Tag × Int) × List (Nat × Int))) (ps : List (Party σ))
    (i : Nat) :
    (deliverAll outs ps)[i]? = (ps[i]?).map (dFold i ((List.range outs.length).zip outs)) := by
  have h := ag_zipRange_getElem? ps 0 i
  rw [← List.range_eq_range'] at h
  rw [ag_deliverAll_eq, List.getElem?_map, h]
  cases ps[i]? with
  | none => rfl
  | some P => simp

theorem ag_dStep_frame {σ} (i : Nat) (P : Party σ) (jo) :
    (dStep i P jo).st = P.st ∧ (dStep i P jo).status = P.status ∧ (dStep i P jo).err = P.err ∧
    (dStep i P jo).fs = P.fs ∧ (dStep i P jo).dev = P.dev ∧
    (dStep i P jo).inbox.b.length = P.inbox.b.length ∧ (dStep i P jo).inbox.p.length = P.inbox.p.length := by
  unfold dStep
  split
  · simp
  · simp [deliverTo]

theorem ag_dFold_frame {σ} (i : Nat) (L) (P : Party σ) :
    (dFold i L P).st = P.st ∧ (dFold i L P).status = P.status ∧ (dFold i L P).err = P.err ∧
    (dFold i L P).fs = P.fs ∧ (dFold i L P).dev = P.dev ∧
    (dFold i L P).inbox.b.length = P.inbox.b.length ∧ (dFold i L P).inbox.p.length = P.inbox.p.length := by
  induction L generalizing P with
  | nil => simp [dFold]
  | cons jo L ih =>
    have h1 := ag_dStep_frame i P jo
    have h2 := ih (dStep i P jo)
    simp only [dFold, List.foldl_cons] at h2 ⊢
    obtain ⟨a1, a2, a3, a4, a5, a6, a7⟩ := h1
    obtain ⟨b1, b2, b3, b4, b5, b6, b7⟩ := h2
    exact ⟨b1.trans a1, b2.trans a2, b3.trans a3, b4.trans a4, b5.trans a5, b6.trans a6, b7.trans a7⟩

theorem ag_filterIn_honest (d : Dev) (hd : d.pi = []) (j c : Nat) (l : List Int) : filterIn d j c l = l := by
  induction l generalizing c with
  | nil => rfl
  | cons v l ih => simp [filterIn, ih, hd, lookup2]

theorem ag_dStep_inbox {σ} (i : Nat) (P : Party σ) (jo) (k : Nat) :
    (k < P.inbox.b.length → (dStep i P jo).inbox.b.getD k [] =
      P.inbox.b.getD k [] ++ (if k = i ∨ k ≠ jo.1 then [] else jo.2.1)) ∧
    (k < P.inbox.p.length → P.dev.pi = [] → (dStep i P jo).inbox.p.getD k [] =
      P.inbox.p.getD k [] ++
        (if k = i ∨ k ≠ jo.1 then [] else (jo.2.2.filter (fun e => e.1 == i)).map (·.2))) := by
  unfold dStep
  by_cases h : i = jo.1
  · simp only [h, if_true]
    constructor
    · intro _
      by_cases h2 : k = jo.1 <;> simp [h2]
    · intro _ _
      by_cases h2 : k = jo.1 <;> simp [h2]
  · simp only [h, if_false, deliverTo]
    constructor
    · intro hk
      rw [ag_getD_set]
      by_cases h2 : jo.1 = k
      · subst h2
        have : ¬ (jo.1 = i) := fun e => h e.symm
        simp [hk, this]
      · have : k ≠ jo.1 := fun e => h2 e.symm
        simp [h2, this]
    · intro hk hd
      rw [ag_getD_set, ag_filterIn_honest _ hd]
      by_cases h2 : jo.1 = k
      · subst h2
        have : ¬ (jo.1 = i) := fun e => h e.symm
        simp [hk, this]
      · have : k ≠ jo.1 := fun e => h2 e.symm
        simp [h2, this]

theorem ag_dFold_snoc {σ} (i : Nat) (L) (x) (P : Party σ) :
    dFold i (L ++ [x]) P = dStep i (dFold i L P) x := by
  simp [dFold, List.foldl_append]

/-- the inbox of party `i` after the deliveries of one round -/
theorem ag_dFold_inbox {σ} (i : Nat) (outs : List (List (Tag × Int) × List (Nat × Int))) (P : Party σ) (k : Nat) :
    (k < P.inbox.b.length → (dFold i ((List.range outs.length).zip outs) P).inbox.b.getD k [] =
      P.inbox.b.getD k [] ++ (if k = i then [] else ((outs[k]?).map (·.1)).getD [])) ∧
    (k < P.inbox.p.length → P.dev.pi = [] → (dFold i ((List.range outs.length).zip outs) P).inbox.p.getD k [] =
      P.inbox.p.getD k [] ++ (if k = i then [] else
        ((outs[k]?).map (fun o => (o.2.filter (fun e => e.1 == i)).map (·.2))).getD [])) := by
  induction outs using List.reverseRecOn with
  | nil =>
    simp [dFold]
  | append_singleton outs o ih =>
    have hz : (List.range (outs ++ [o]).length).zip (outs ++ [o]) =
        (List.range outs.length).zip outs ++ [(outs.length, o)] := by
      rw [List.length_append, List.length_singleton, List.range_succ,
        List.zip_append (by simp)]
      rfl
    rw [hz, ag_dFold_snoc]
    have hfr := ag_dFold_frame i ((List.range outs.length).zip outs) P
    obtain ⟨ih1, ih2⟩ := ih
    have hs := ag_dStep_inbox i (dFold i ((List.range outs.length).zip outs) P) (outs.length, o) k
    obtain ⟨hs1, hs2⟩ := hs
    constructor
    · intro hk
      rw [hs1 (by rw [hfr.2.2.2.2.2.1]; exact hk), ih1 hk, List.append_assoc]
      congr 1
      by_cases hki : k = i
      · simp [hki]
      · simp only [hki, if_false, false_or]
        by_cases hkl : k = outs.length
        · subst hkl
          simp
        · simp only [hkl, ne_eq, not_false_eq_true, if_true, List.append_nil]
          rcases Nat.lt_or_gt_of_ne hkl with h | h
          · rw [List.getElem?_append_left h]
          · rw [List.getElem?_eq_none (by omega), List.getElem?_eq_none (by simp; omega)]
    · intro hk hd
      rw [hs2 (by rw [hfr.2.2.2.2.2.2]; exact hk) (by rw [hfr.2.2.2.2.1]; exact hd), ih2 hk hd,
        List.append_assoc]
      congr 1
      by_cases hki : k = i
      · simp [hki]
      · simp only [hki, if_false, false_or]
        by_cases hkl : k = outs.length
        · subst hkl
          simp
        · simp only [hkl, ne_eq, not_false_eq_true, if_true, List.append_nil]
          rcases Nat.lt_or_gt_of_ne hkl with h | h
          · rw [List.getElem?_append_left h]
          · rw [List.getElem?_eq_none (by omega), List.getElem?_eq_none (by simp; omega)]

/-- what party `k` hands to the network in the round -/
def outOf {σ} (steps : Nat → Step σ) (ps : List (Party σ)) (k : Nat) : List (Tag × Int) × List (Nat × Int) :=
  match ps[k]? with
  | some Pk => (stepParty ps.length (steps k) Pk).2
  | none => ([], [])

/-- `P'` is `Q` (party `i` after its own step) after the deliveries of the round -/
structure Delivered {σ} (steps : Nat → Step σ) (ps : List (Party σ)) (i : Nat) (Q P' : Party σ) : Prop where
  st : P'.st = Q.st
  status : P'.status = Q.status
  err : P'.err = Q.err
  fs : P'.fs = Q.fs
  dev : P'.dev = Q.dev
  blen : P'.inbox.b.length = Q.inbox.b.length
  plen : P'.inbox.p.length = Q.inbox.p.length
  b : ∀ k, k < Q.inbox.b.length →
    P'.inbox.b.getD k [] = Q.inbox.b.getD k [] ++ (if k = i then [] else (outOf steps ps k).1)
  p : ∀ k, k < Q.inbox.p.length → Q.dev.pi = [] →
    P'.inbox.p.getD k [] = Q.inbox.p.getD k [] ++
      (if k = i then [] else ((outOf steps ps k).2.filter (fun e => e.1 == i)).map (·.2))

theorem ag_runRound_length {σ} (steps : Nat → Step σ) (ps : List (Party σ)) :
    (runRound steps ps).length = ps.length := by
  simp [runRound, ag_deliverAll_eq, ag_stepAll_length]

theorem ag_runRound_party {σ} (steps : Nat → Step σ) (ps : List (Party σ)) (i : Nat) (P : Party σ)
    (hP : ps[i]? = some P) :
    ∃ P', (runRound steps ps)[i]? = some P' ∧
      Delivered steps ps i (stepParty ps.length (steps i) P).1 P' := by
  have houts : ∀ k, ((stepAll ps.length steps 0 ps).map (fun e => (e.2.1, e.2.2)))[k]? =
      (ps[k]?).map (fun Pk => (stepParty ps.length (steps k) Pk).2) := by
    intro k
    rw [List.getElem?_map, ag_stepAll_getElem?]
    cases ps[k]? with
    | none => rfl
    | some Pk => simp
  refine ⟨dFold i ((List.range ((stepAll ps.length steps 0 ps).map (fun e => (e.2.1, e.2.2))).length).zip
      ((stepAll ps.length steps 0 ps).map (fun e => (e.2.1, e.2.2)))) (stepParty ps.length (steps i) P).1, ?_, ?_⟩
  · unfold runRound
    simp only []
    rw [ag_deliverAll_getElem?, List.getElem?_map, ag_stepAll_getElem?, hP]
    simp
  · have hfr := ag_dFold_frame i ((List.range ((stepAll ps.length steps 0 ps).map (fun e => (e.2.1, e.2.2))).length).zip
      ((stepAll ps.length steps 0 ps).map (fun e => (e.2.1, e.2.2)))) (stepParty ps.length (steps i) P).1
    obtain ⟨a1, a2, a3, a4, a5, a6, a7⟩ := hfr
    refine ⟨a1, a2, a3, a4, a5, a6, a7, ?_, ?_⟩
    · intro k hk
      have h := (ag_dFold_inbox i ((stepAll ps.length steps 0 ps).map (fun e => (e.2.1, e.2.2)))
        (stepParty ps.length (steps i) P).1 k).1 hk
      rw [h, houts]
      congr 1
      by_cases hki : k = i
      · simp [hki]
      · simp only [hki, if_false, outOf]
        cases ps[k]? with
        | none => rfl
        | some Pk => rfl
    · intro k hk hd
      have h := (ag_dFold_inbox i ((stepAll ps.length steps 0 ps).map (fun e => (e.2.1, e.2.2)))
        (stepParty ps.length (steps i) P).1 k).2 hk hd
      rw [h, houts]
      congr 1
      by_cases hki : k = i
      · simp [hki]
      · simp only [hki, if_false, outOf]
        cases ps[k]? with
        | none => rfl
        | some Pk => rfl

/-! ### (2) one party's step; the output filter of an honest party -/

theorem ag_honest_unpack (d : Dev) (h : d.honest = true) :
    d.sfb = false ∧ d.silent = none ∧ d.po = [] ∧ d.pi = [] ∧ d.ba = [] ∧ d.bd = [] ∧ d.bi = [] ∧ d.bm = [] := by
  simp only [Dev.honest, Bool.and_eq_true, Bool.not_eq_true', List.isEmpty_iff,
    Option.isNone_iff_eq_none] at h
  obtain ⟨⟨⟨⟨⟨⟨⟨h1, h2⟩, h3⟩, h4⟩, h5⟩, hbm⟩, h6⟩, h7⟩ := h
  exact ⟨h1, h2, h3, h4, h5, h6, h7, hbm⟩

/-- the broadcasts / the private values in a list of output operations -/
def bcs : List Op → List (Tag × Int)
  | [] => []
  | .bc tag v :: r => (tag, v) :: bcs r
  | .pv _ _ :: r => bcs r

def pvs : List Op → List (Nat × Int)
  | [] => []
  | .bc _ _ :: r => pvs r
  | .pv j v :: r => (j, v) :: pvs r

theorem ag_bcs_append (a b : List Op) : bcs (a ++ b) = bcs a ++ bcs b := by
  induction a with
  | nil => rfl
  | cons x a ih => cases x <;> simp [bcs, ih]

theorem ag_pvs_append (a b : List Op) : pvs (a ++ b) = pvs a ++ pvs b := by
  induction a with
  | nil => rfl
  | cons x a ih => cases x <;> simp [pvs, ih]

theorem ag_bcs_map_bc (l : List Int) : bcs (l.map (Op.bc none)) = l.map (fun v => ((none : Tag), v)) := by
  induction l with
  | nil => rfl
  | cons x l ih => simp [bcs, ih]

theorem ag_pvs_map_bc (tag : Tag) (l : List Int) : pvs (l.map (Op.bc tag)) = [] := by
  induction l with
  | nil => rfl
  | cons x l ih => simp [pvs, ih]

/-- the output filter of a party that follows the protocol lets everything through unchanged -/
theorem ag_applyOps_honest (n : Nat) (d : Dev) (hd : d.honest = true) (ops : List Op) (fs : FState)
    (hfs : fs.dead = false) :
    (applyOps n d ops fs).2 = (bcs ops, pvs ops) ∧ (applyOps n d ops fs).1.dead = false := by
  obtain ⟨h1, h2, h3, h4, h5, h6, h7, hbm⟩ := ag_honest_unpack d hd
  induction ops generalizing fs with
  | nil => simp [applyOps, bcs, pvs, hfs]
  | cons op ops ih =>
    obtain ⟨o, sg, off, pc, dd⟩ := fs
    simp only at hfs
    subst hfs
    have hfs : ({ ops := o, seg := sg, off := off, poCnt := pc, dead := false } : FState).dead = false := rfl
    cases op with
    | bc tag v =>
      simp only [applyOps, applyOp, h2, h5, h6, h7, hbm, List.reverse_nil, List.find?_nil, bcs, pvs]
      by_cases hv : v = (n : Int)
      · have := ih { ops := o + 1, seg := sg + 1, off := 0, poCnt := pc, dead := false } rfl
        simp [hv, lookup2, this.1, this.2]
      · have := ih { ops := o + 1, seg := sg, off := off + 1, poCnt := pc, dead := false } rfl
        simp [hv, lookup2, this.1, this.2]
    | pv j v =>
      have := ih { ops := o + 1, seg := sg, off := off, poCnt := bump pc j, dead := false } rfl
      simp [applyOps, applyOp, h2, h3, bcs, pvs, lookup2, this.1, this.2]

theorem ag_stepParty_notlive {σ} (n : Nat) (step : Step σ) (P : Party σ) (h : P.live = false) :
    stepParty n step P = (P, [], []) := by
  simp [stepParty, h]

/-- a party that follows the protocol: script without deviation, alive, no error, still running -/
def HL {σ} (P : Party σ) : Prop :=
  P.dev.honest = true ∧ P.fs.dead = false ∧ P.err = none ∧ P.status = .run

theorem ag_HL_live {σ} (P : Party σ) (h : HL P) : P.live = true := by
  obtain ⟨-, h2, h3, h4⟩ := h
  simp [Party.live, h2, h3, h4]

theorem ag_stepParty_honest {σ} (n : Nat) (step : Step σ) (P : Party σ) (h : HL P)
    (st : σ) (I : Inbox) (ops : List Op) (status : Status)
    (hs : step P.st P.inbox = .ok (st, I, ops, status)) :
    ∃ fs, fs.dead = false ∧
      stepParty n step P = ({ P with st := st, inbox := I, fs := fs, status := status }, bcs ops, pvs ops) := by
  have hl := ag_HL_live P h
  obtain ⟨ho, h2, -, -⟩ := h
  have ha := ag_applyOps_honest n P.dev ho ops P.fs h2
  refine ⟨(applyOps n P.dev ops P.fs).1, ha.2, ?_⟩
  unfold stepParty
  simp only [hl, Bool.not_true, Bool.false_eq_true, if_false, hs]
  rcases hx : applyOps n P.dev ops P.fs with ⟨fs, bs, ps⟩
  rw [hx] at ha
  simp only at ha
  obtain ⟨ha1, -⟩ := ha
  injection ha1 with e1 e2
  subst e1 e2
  rfl

/-- the state of a party after its step is the old one or the one its step function returned -/
theorem ag_stepParty_st {σ} (n : Nat) (step : Step σ) (P : Party σ) :
    (stepParty n step P).1.st = P.st ∨
      ∃ I ops status, step P.st P.inbox = .ok ((stepParty n step P).1.st, I, ops, status) := by
  unfold stepParty
  by_cases hl : P.live = true
  · simp only [hl, Bool.not_true, Bool.false_eq_true, if_false]
    cases hs : step P.st P.inbox with
    | error e => left; rfl
    | ok r =>
      obtain ⟨st, I, ops, status⟩ := r
      right
      exact ⟨I, ops, status, rfl⟩
  · left
    simp [hl]

/-! ### (3) `qual` is fixed after round 3 -/

theorem ag_bind_ok {ε α β} (x : Except ε α) (f : α → Except ε β) (r : β) (h : x >>= f = .ok r) :
    ∃ a, x = .ok a ∧ f a = .ok r := by
  cases x with
  | error e => cases h
  | ok a => exact ⟨a, rfl, h⟩

theorem ag_genFinish_qual (st st' : GenSt) (h : genFinish G st = .ok st') : st'.qual = st.qual := by
  unfold genFinish at h
  obtain ⟨A, -, h⟩ := ag_bind_ok _ _ _ h
  obtain ⟨vi, -, h⟩ := ag_bind_ok _ _ _ h
  injection h with h
  rw [← h]

theorem ag_genRecNext_qual (st st' : GenSt) (ops : List Op) (s : Status)
    (h : genRecNext G st = .ok (st', ops, s)) : st'.qual = st.qual := by
  unfold genRecNext at h
  split at h
  · obtain ⟨st1, h1, h⟩ := ag_bind_ok _ _ _ h
    injection h with h
    injection h with h
    rw [← h]
    exact ag_genFinish_qual st st1 h1
  · split at h
    · injection h with h
      injection h with h
      rw [← h]
    · injection h with h
      injection h with h
      rw [← h]

theorem ag_genExtractCheck_qual (st st' : GenSt) (I I' : Inbox) (ops : List Op) (s : Status)
    (h : genExtractCheck G st I = .ok (st', I', ops, s)) : st'.qual = st.qual := by
  unfold genExtractCheck at h
  obtain ⟨⟨I1, A, cm⟩, -, h⟩ := ag_bind_ok _ _ _ h
  injection h with h
  injection h with h
  rw [← h]

theorem ag_genExtractCollect_qual (st st' : GenSt) (I I' : Inbox) (ops : List Op) (s : Status)
    (h : genExtractCollect G st I = .ok (st', I', ops, s)) : st'.qual = st.qual := by
  unfold genExtractCollect at h
  obtain ⟨⟨I1, cm⟩, -, h⟩ := ag_bind_ok _ _ _ h
  simp only at h
  split at h
  · injection h with h
    injection h with h
    rw [← h]
  · obtain ⟨⟨st2, ops2, s2⟩, h1, h⟩ := ag_bind_ok _ _ _ h
    injection h with h
    injection h with h
    rw [← h]
    exact (ag_genRecNext_qual _ _ _ _ h1).trans rfl

theorem ag_genRecStep_qual (st st' : GenSt) (I I' : Inbox) (ops : List Op) (s : Status)
    (h : genRecStep G st I = .ok (st', I', ops, s)) : st'.qual = st.qual := by
  unfold genRecStep at h
  split at h
  · injection h with h
    injection h with h
    rw [← h]
  · obtain ⟨⟨I1, parties, shares⟩, -, h⟩ := ag_bind_ok _ _ _ h
    simp only at h
    split at h
    · injection h with h
      injection h with h
      rw [← h]
    · split at h
      · injection h with h
        injection h with h
        rw [← h]
      · split at h
        · injection h with h
          injection h with h
          rw [← h]
        · obtain ⟨⟨st3, ops3, s3⟩, h1, h⟩ := ag_bind_ok _ _ _ h
          injection h with h
          injection h with h
          rw [← h]
          exact (ag_genRecNext_qual _ _ _ _ h1).trans rfl

theorem ag_genStep_qual (ins : List PartyIn) (n t k i : Nat) (hk : 4 ≤ k) (st st' : GenSt) (I I' : Inbox)
    (ops : List Op) (s : Status) (h : genStep G ins n t k i st I = .ok (st', I', ops, s)) :
    st'.qual = st.qual := by
  unfold genStep at h
  match k, hk with
  | 4, _ => exact ag_genExtractCheck_qual _ _ _ _ _ _ h
  | 5, _ => exact ag_genExtractCollect_qual _ _ _ _ _ _ h
  | k + 6, _ => exact ag_genRecStep_qual _ _ _ _ _ _ h

theorem ag_runRound_qual (ins : List PartyIn) (n t k : Nat) (hk : 4 ≤ k) (ps : List (Party GenSt)) (i : Nat) :
    ((runRound (genStep G ins n t k) ps)[i]?).map (fun P => P.st.qual) = (ps[i]?).map (fun P => P.st.qual) := by
  cases hP : ps[i]? with
  | none =>
    have : (runRound (genStep G ins n t k) ps)[i]? = none := by
      rw [List.getElem?_eq_none_iff, ag_runRound_length]
      exact List.getElem?_eq_none_iff.mp hP
    rw [this]
  | some P =>
    obtain ⟨P', hP', hd⟩ := ag_runRound_party (genStep G ins n t k) ps i P hP
    rw [hP']
    simp only [Option.map_some, hd.st]
    congr 1
    rcases ag_stepParty_st ps.length (genStep G ins n t k i) P with h | ⟨I, ops, status, h⟩
    · rw [h]
    · exact ag_genStep_qual ins n t k i hk _ _ _ _ _ _ h

theorem ag_runRounds_qual (ins : List PartyIn) (n t : Nat) (l : List Nat) (hl : ∀ k ∈ l, 4 ≤ k)
    (ps : List (Party GenSt)) (i : Nat) :
    ((runRounds (genStep G ins n t) l ps)[i]?).map (fun P => P.st.qual) = (ps[i]?).map (fun P => P.st.qual) := by
  induction l generalizing ps with
  | nil => rfl
  | cons k l ih =>
    simp only [runRounds]
    rw [ih (fun k hk => hl k (List.mem_cons_of_mem _ hk)), ag_runRound_qual ins n t k (hl k (by simp))]

/-! ### (4) inboxes as families of streams; the readers as functions of one sender's stream -/

/-- the unread broadcast values / private values of sender `k` -/
def bsOf (I : Inbox) (k : Nat) : List (Tag × Int) := I.b.getD k []
def psOf (I : Inbox) (k : Nat) : List Int := I.p.getD k []
def setB (I : Inbox) (j : Nat) (s : List (Tag × Int)) : Inbox := { I with b := I.b.set j s }
def setP (I : Inbox) (j : Nat) (s : List Int) : Inbox := { I with p := I.p.set j s }

theorem ag_set_getD_self {α} (l : List α) (j : Nat) (d : α) : l.set j (l.getD j d) = l := by
  by_cases h : j < l.length
  · rw [List.getD_eq_getElem _ _ h, List.set_getElem_self]
  · exact List.set_eq_of_length_le (by omega)

theorem ag_setB_self (I : Inbox) (j : Nat) : setB I j (bsOf I j) = I := by
  unfold setB bsOf
  rw [ag_set_getD_self]

theorem ag_setP_self (I : Inbox) (j : Nat) : setP I j (psOf I j) = I := by
  unfold setP psOf
  rw [ag_set_getD_self]

theorem ag_setB_setB (I : Inbox) (j : Nat) (s s' : List (Tag × Int)) : setB (setB I j s) j s' = setB I j s' := by
  simp [setB, List.set_set]

theorem ag_setP_setP (I : Inbox) (j : Nat) (s s' : List Int) : setP (setP I j s) j s' = setP I j s' := by
  simp [setP, List.set_set]

theorem ag_bsOf_setB (I : Inbox) (j k : Nat) (s : List (Tag × Int)) :
    bsOf (setB I j s) k = if j = k ∧ k < I.b.length then s else bsOf I k := by
  simp only [bsOf, setB, ag_getD_set]

theorem ag_psOf_setP (I : Inbox) (j k : Nat) (s : List Int) :
    psOf (setP I j s) k = if j = k ∧ k < I.p.length then s else psOf I k := by
  simp only [psOf, setP, ag_getD_set]

@[simp] theorem ag_setB_blen (I : Inbox) (j : Nat) (s) : (setB I j s).b.length = I.b.length := by simp [setB]
@[simp] theorem ag_setB_p (I : Inbox) (j : Nat) (s) : (setB I j s).p = I.p := rfl
@[simp] theorem ag_setP_plen (I : Inbox) (j : Nat) (s) : (setP I j s).p.length = I.p.length := by simp [setP]
@[simp] theorem ag_setP_b (I : Inbox) (j : Nat) (s) : (setP I j s).b = I.b := rfl
@[simp] theorem ag_bsOf_setP (I : Inbox) (j k : Nat) (s) : bsOf (setP I j s) k = bsOf I k := rfl
@[simp] theorem ag_psOf_setB (I : Inbox) (j k : Nat) (s) : psOf (setB I j s) k = psOf I k := rfl

theorem ag_bsOf_setB_self (I : Inbox) (j : Nat) (s) (hj : j < I.b.length) : bsOf (setB I j s) j = s := by
  rw [ag_bsOf_setB]; simp [hj]

theorem ag_bsOf_setB_ne (I : Inbox) (j k : Nat) (s) (h : j ≠ k) : bsOf (setB I j s) k = bsOf I k := by
  rw [ag_bsOf_setB]; simp [h]

theorem ag_psOf_setP_self (I : Inbox) (j : Nat) (s) (hj : j < I.p.length) : psOf (setP I j s) j = s := by
  rw [ag_psOf_setP]; simp [hj]

theorem ag_psOf_setP_ne (I : Inbox) (j k : Nat) (s) (h : j ≠ k) : psOf (setP I j s) k = psOf I k := by
  rw [ag_psOf_setP]; simp [h]

/-- `popB` on one stream -/
def popS (tag : Tag) (s : List (Tag × Int)) : Option Int × List (Tag × Int) :=
  match removeFirst tag s with
  | none => (none, s)
  | some (v, r) => (some v, r)

theorem ag_popB (I : Inbox) (tag : Tag) (j : Nat) :
    I.popB tag j = ((popS tag (bsOf I j)).1, setB I j (popS tag (bsOf I j)).2) := by
  unfold Inbox.popB popS
  show (match removeFirst tag (bsOf I j) with
    | none => (none, I)
    | some (v, r) => (some v, setB I j r)) = _
  cases removeFirst tag (bsOf I j) with
  | none => simp [ag_setB_self]
  | some vr => rfl

theorem ag_popP (I : Inbox) (j : Nat) :
    I.popP j = ((psOf I j).head?, setP I j (psOf I j).tail) := by
  unfold Inbox.popP
  show (match psOf I j with
    | [] => (none, I)
    | v :: r => (some v, setP I j r)) = _
  cases h : psOf I j with
  | nil =>
    have := ag_setP_self I j
    rw [h] at this
    simp [this]
  | cons v r => rfl

theorem ag_popS_none_cons (v : Int) (r : List (Tag × Int)) :
    popS none (((none : Tag), v) :: r) = (some v, r) := by
  simp [popS, removeFirst]

theorem ag_popS_nil (tag : Tag) : popS tag [] = (none, []) := by
  simp [popS, removeFirst]

/-- `readElems` on one stream -/
def reS (G : Grp) (tag : Tag) : Nat → List (Tag × Int) → List Int → Bool → Bool × List (Tag × Int) × List Int
  | 0, s, acc, c => (c, s, acc)
  | f + 1, s, acc, c =>
    match popS tag s with
    | (none, s1) => (true, s1, acc)
    | (some v, s1) =>
      if checkElement G v then reS G tag f s1 (acc ++ [v]) c
      else reS G tag f s1 (acc ++ [0]) true

theorem ag_readElems (tag : Tag) (j : Nat) (f : Nat) (I : Inbox) (hj : j < I.b.length) (acc : List Int) (c : Bool) :
    readElems G tag j f I acc c =
      ((reS G tag f (bsOf I j) acc c).1, setB I j (reS G tag f (bsOf I j) acc c).2.1,
        (reS G tag f (bsOf I j) acc c).2.2) := by
  induction f generalizing I acc c with
  | zero => simp [readElems, reS, ag_setB_self]
  | succ f ih =>
    unfold readElems reS
    rw [ag_popB]
    rcases hp : popS tag (bsOf I j) with ⟨_ | v, s1⟩
    · simp
    · simp only
      cases hc : checkElement G v
      · simp only [Bool.false_eq_true, if_false]
        rw [ih (setB I j s1) (by simpa using hj), ag_bsOf_setB_self I j s1 hj, ag_setB_setB]
      · simp only [if_true]
        rw [ih (setB I j s1) (by simpa using hj), ag_bsOf_setB_self I j s1 hj, ag_setB_setB]

/-- one sender's complaint list (step 1(c)) on its stream: the new distinct valid complaints, the
    number of times the sender is put on the complaint list, the rest of the stream -/
def rcS (n : Nat) : Nat → Nat → List Nat → List (Tag × Int) → List Nat × Nat × List (Tag × Int)
  | 0, _, _, s => ([], 0, s)
  | f + 1, it, dup, s =>
    match popS none s with
    | (none, s1) => ([], 1, s1)
    | (some v, s1) =>
      let who := getUi v
      if who < n ∧ ¬ dup.contains who then
        if it + 1 ≤ n then
          let r := rcS n f (it + 1) (dup ++ [who]) s1
          (who :: r.1, r.2.1, r.2.2)
        else ([who], 0, s1)
      else if who < n then
        if it + 1 ≤ n then
          let r := rcS n f (it + 1) dup s1
          (r.1, r.2.1 + 1, r.2.2)
        else ([], 1, s1)
      else ([], 0, s1)

/-- `cnt[w] += 1` for every `w` of the list -/
def bumpL (cnt : List Nat) (ws : List Nat) : List Nat :=
  ws.foldl (fun c w => c.set w (getN c w + 1)) cnt

theorem ag_genReadComplaints (st : GenSt) (j : Nat) (f : Nat) (it : Nat) (dup : List Nat) (I : Inbox)
    (hj : j < I.b.length) (cnt cf cm : List Nat) :
    genReadComplaints st j f it dup I cnt cf cm =
      (setB I j (rcS st.n f it dup (bsOf I j)).2.2, bumpL cnt (rcS st.n f it dup (bsOf I j)).1,
        cf ++ ((rcS st.n f it dup (bsOf I j)).1.filter (fun w => w = st.i)).map (fun _ => j),
        cm ++ List.replicate (rcS st.n f it dup (bsOf I j)).2.1 j) := by
  induction f generalizing it dup I cnt cf cm with
  | zero => simp [genReadComplaints, rcS, ag_setB_self, bumpL]
  | succ f ih =>
    unfold genReadComplaints rcS
    rw [ag_popB]
    rcases hp : popS none (bsOf I j) with ⟨_ | v, s1⟩
    · simp [bumpL]
    · simp only
      by_cases h1 : getUi v < st.n ∧ ¬ dup.contains (getUi v) = true
      · simp only [h1, if_true, true_and]
        by_cases h2 : it + 1 ≤ st.n
        · simp only [h2, if_true]
          rw [ih _ _ (setB I j s1) (by simpa using hj), ag_bsOf_setB_self I j s1 hj, ag_setB_setB]
          by_cases h3 : getUi v = st.i
          · simp [bumpL, h3]
          · simp [bumpL, h3]
        · simp only [h2, if_false]
          by_cases h3 : getUi v = st.i
          · simp [bumpL, h3]
          · simp [bumpL, h3]
      · simp only [h1, if_false]
        by_cases h4 : getUi v < st.n
        · simp only [h4, if_true, true_and]
          by_cases h2 : it + 1 ≤ st.n
          · simp only [h2, if_true]
            rw [ih _ _ (setB I j s1) (by simpa using hj), ag_bsOf_setB_self I j s1 hj, ag_setB_setB]
            simp [List.replicate_succ]
          · simp only [h2, if_false]
            simp [bumpL]
        · simp [h4, bumpL]

theorem ag_ite_pair (c : Bool) (x : Int) :
    (if c = true then (true, (0 : Int)) else (false, x)) = (c, if c = true then 0 else x) := by
  cases c <;> rfl

theorem ag_ite_cm (c : Bool) (cm : List Nat) (j : Nat) :
    (if c = true then cm ++ [j] else cm) = cm ++ List.replicate (if c = true then 1 else 0) j := by
  cases c <;> simp

theorem ag_rep1 (cm : List Nat) (j a1 a2 bad : Nat) :
    cm ++ List.replicate a1 j ++ List.replicate a2 j ++ [j] ++ List.replicate bad j =
      cm ++ List.replicate (a1 + a2 + 1 + bad) j := by
  rw [show [j] = List.replicate 1 j from rfl]
  simp only [List.append_assoc, List.replicate_append_replicate]

theorem ag_rep0 (cm : List Nat) (j a1 a2 bad : Nat) :
    cm ++ List.replicate a1 j ++ List.replicate a2 j ++ List.replicate bad j =
      cm ++ List.replicate (a1 + a2 + 0 + bad) j := by
  simp only [List.append_assoc, List.replicate_append_replicate, Nat.add_zero]

/-- the answers of one dealer (step 1(d)) on its stream: the number of times the dealer is put on
    the complaint list, the rest of the stream -/
def raS (G : Grp) (n : Nat) (Cj : List Int) : Nat → List (Tag × Int) → Except Err (Nat × List (Tag × Int))
  | 0, s => .ok (0, s)
  | f + 1, s =>
    match popS none s with
    | (none, s1) => .ok (1, s1)
    | (some w, s1) =>
      if getUi w ≥ n then .ok (0, s1)
      else
        match popS none s1 with
        | (none, s2) => .ok (1, s2)
        | (some foo0, s2) =>
          match popS none s2 with
          | (none, s3) => .ok ((if absGe foo0 G.q then 1 else 0) + 1, s3)
          | (some bar0, s3) =>
            match pedF G (if absGe foo0 G.q then 0 else foo0) (if absGe bar0 G.q then 0 else bar0) with
            | .error e => .error e
            | .ok lhs =>
              match commitProd G.p (getUi w + 1) Cj with
              | .error e => .error e
              | .ok rhs =>
                match raS G n Cj f s3 with
                | .error e => .error e
                | .ok r =>
                  .ok ((if absGe foo0 G.q then 1 else 0) + (if absGe bar0 G.q then 1 else 0) +
                    (if lhs != rhs then 1 else 0) + r.1, r.2)

theorem ag_genReadAnswers (st : GenSt) (j : Nat) (f : Nat) (I : Inbox) (hj : j < I.b.length)
    (s sp : List Int) (cm : List Nat) :
    match raS G st.n (getRow st.C j) f (bsOf I j) with
    | .ok (bad, rest) => ∃ s' sp', genReadAnswers G st j f I s sp cm =
        .ok (setB I j rest, s', sp', cm ++ List.replicate bad j)
    | .error e => genReadAnswers G st j f I s sp cm = .error e := by
  induction f generalizing I s sp cm with
  | zero => simp [genReadAnswers, raS, ag_setB_self]
  | succ f ih =>
    unfold genReadAnswers raS
    rw [ag_popB]
    rcases hp1 : popS none (bsOf I j) with ⟨_ | w, s1⟩
    · exact ⟨s, sp, by simp⟩
    · simp only
      by_cases hw : getUi w ≥ st.n
      · simp only [hw, if_true]
        exact ⟨s, sp, by simp⟩
      · simp only [hw, if_false]
        rw [ag_popB, ag_bsOf_setB_self I j s1 hj, ag_setB_setB]
        rcases hp2 : popS none s1 with ⟨_ | foo0, s2⟩
        · exact ⟨s, sp, by simp⟩
        · simp only
          rw [ag_popB, ag_bsOf_setB_self I j s2 hj, ag_setB_setB]
          rcases hp3 : popS none s2 with ⟨_ | bar0, s3⟩
          · simp only
            cases absGe foo0 G.q
            · exact ⟨s, sp, by simp⟩
            · exact ⟨s, sp, by simp [List.replicate_succ]⟩
          · simp only
            have hj3 : j < (setB I j s3).b.length := by simpa using hj
            have hb3 : bsOf (setB I j s3) j = s3 := ag_bsOf_setB_self I j s3 hj
            have ihh := fun s sp cm => ih (setB I j s3) hj3 s sp cm
            rw [hb3] at ihh
            simp only [ag_ite_pair, ag_ite_cm]
            generalize (if absGe foo0 G.q = true then (0 : Int) else foo0) = foo
            generalize (if absGe bar0 G.q = true then (0 : Int) else bar0) = bar
            generalize (if absGe foo0 G.q = true then 1 else 0) = a1
            generalize (if absGe bar0 G.q = true then 1 else 0) = a2
            simp only [ag_setB_setB] at ihh
            cases hl : pedF G foo bar with
            | error e => simp [bind, Except.bind]
            | ok lhs =>
              cases hr : commitProd G.p (getUi w + 1) (getRow st.C j) with
              | error e => simp [bind, Except.bind]
              | ok rhs =>
                simp only [bind, Except.bind]
                cases hrec : raS G st.n (getRow st.C j) f s3 with
                | error e =>
                  simp only [hrec] at ihh
                  simp only
                  split <;> (try split) <;> exact ihh _ _ _
                | ok r =>
                  obtain ⟨bad, rest⟩ := r
                  simp only [hrec] at ihh
                  simp only
                  by_cases hne : (lhs != rhs) = true
                  · simp only [hne, if_true]
                    obtain ⟨s', sp', h⟩ := ihh s sp (cm ++ List.replicate a1 j ++ List.replicate a2 j ++ [j])
                    refine ⟨s', sp', ?_⟩
                    rw [h, ag_rep1]
                  · simp only [hne]
                    by_cases hwi : getUi w = st.i
                    · simp only [hwi, if_true]
                      obtain ⟨s', sp', h⟩ := ihh (s.set j foo) (sp.set j bar)
                        (cm ++ List.replicate a1 j ++ List.replicate a2 j)
                      refine ⟨s', sp', ?_⟩
                      rw [h, ag_rep0]
                      simp
                    · simp only [hwi, if_false]
                      obtain ⟨s', sp', h⟩ := ihh s sp (cm ++ List.replicate a1 j ++ List.replicate a2 j)
                      refine ⟨s', sp', ?_⟩
                      rw [h, ag_rep0]
                      simp

/-! ### (5) the loops over the senders -/

theorem ag_getRow_set (C : List (List Int)) (j k : Nat) (x : List Int) :
    getRow (C.set j x) k = if j = k ∧ k < C.length then x else getRow C k := by
  unfold getRow
  exact ag_getD_set C j k x []

theorem ag_getI_set (l : List Int) (j k : Nat) (x : Int) :
    getI (l.set j x) k = if j = k ∧ k < l.length then x else getI l k := by
  unfold getI
  exact ag_getD_set l j k x 0

theorem ag_getN_set (l : List Nat) (j k : Nat) (x : Nat) :
    getN (l.set j x) k = if j = k ∧ k < l.length then x else getN l k := by
  unfold getN
  exact ag_getD_set l j k x 0

/-- step 1(b), the commitments: lengths -/
theorem ag_genReadC_glob (st : GenSt) (L : List Nat) (I : Inbox) (hI : ∀ j ∈ L, j < I.b.length)
    (C : List (List Int)) (cm : List Nat) :
    (genReadC G st L I C cm).1.b.length = I.b.length ∧ (genReadC G st L I C cm).1.p = I.p ∧
    (genReadC G st L I C cm).2.1.length = C.length := by
  induction L generalizing I C cm with
  | nil => simp [genReadC]
  | cons j rest ih =>
    unfold genReadC
    by_cases hji : j = st.i
    · simp only [hji, if_true]
      exact ih I (fun k hk => hI k (List.mem_cons_of_mem _ hk)) C cm
    · simp only [hji, if_false]
      rw [ag_readElems none j (st.t + 1) I (hI j (by simp))]
      simp only
      have := ih (setB I j (reS G none (st.t + 1) (bsOf I j) [] false).2.1)
        (fun k hk => by simpa using hI k (List.mem_cons_of_mem _ hk))
        (C.set j (padRow st.t (reS G none (st.t + 1) (bsOf I j) [] false).2.2))
        (if (reS G none (st.t + 1) (bsOf I j) [] false).1 = true then cm ++ [j] else cm)
      simpa using this

/-- step 1(b), the commitments: a sender that is not read -/
theorem ag_genReadC_frame (st : GenSt) (k : Nat) (L : List Nat) (I : Inbox) (hI : ∀ j ∈ L, j < I.b.length)
    (C : List (List Int)) (cm : List Nat) (hk : k ∉ L ∨ k = st.i) :
    bsOf (genReadC G st L I C cm).1 k = bsOf I k ∧ getRow (genReadC G st L I C cm).2.1 k = getRow C k ∧
    (k ∈ (genReadC G st L I C cm).2.2 ↔ k ∈ cm) := by
  induction L generalizing I C cm with
  | nil => simp [genReadC]
  | cons j rest ih =>
    unfold genReadC
    have hk' : k ∉ rest ∨ k = st.i := by
      rcases hk with h | h
      · exact Or.inl (fun hh => h (List.mem_cons_of_mem _ hh))
      · exact Or.inr h
    by_cases hji : j = st.i
    · simp only [hji, if_true]
      exact ih I (fun k hk => hI k (List.mem_cons_of_mem _ hk)) C cm hk'
    · simp only [hji, if_false]
      rw [ag_readElems none j (st.t + 1) I (hI j (by simp))]
      simp only
      have hkj : j ≠ k := by
        rintro rfl
        rcases hk with h | h
        · exact h (by simp)
        · exact hji h
      obtain ⟨h1, h2, h3⟩ := ih (setB I j (reS G none (st.t + 1) (bsOf I j) [] false).2.1)
        (fun k hk => by simpa using hI k (List.mem_cons_of_mem _ hk))
        (C.set j (padRow st.t (reS G none (st.t + 1) (bsOf I j) [] false).2.2))
        (if (reS G none (st.t + 1) (bsOf I j) [] false).1 = true then cm ++ [j] else cm) hk'
      refine ⟨by rw [h1, ag_bsOf_setB_ne _ _ _ _ hkj], by rw [h2, ag_getRow_set]; simp [hkj], ?_⟩
      rw [h3]
      split
      · simp [List.mem_append, Ne.symm hkj]
      · rfl

/-- step 1(b), the commitments: a sender that is read -/
theorem ag_genReadC_hit (st : GenSt) (k : Nat) (L : List Nat) (hL : L.Nodup) (I : Inbox)
    (hI : ∀ j ∈ L, j < I.b.length) (C : List (List Int)) (cm : List Nat) (hk : k ∈ L) (hki : k ≠ st.i) :
    bsOf (genReadC G st L I C cm).1 k = (reS G none (st.t + 1) (bsOf I k) [] false).2.1 ∧
    (k < C.length → getRow (genReadC G st L I C cm).2.1 k =
      padRow st.t (reS G none (st.t + 1) (bsOf I k) [] false).2.2) ∧
    (k ∈ (genReadC G st L I C cm).2.2 ↔ k ∈ cm ∨ (reS G none (st.t + 1) (bsOf I k) [] false).1 = true) := by
  induction L generalizing I C cm with
  | nil => simp at hk
  | cons j rest ih =>
    have hnd := List.nodup_cons.mp hL
    unfold genReadC
    by_cases hji : j = st.i
    · simp only [hji, if_true]
      have hk2 : k ∈ rest := by
        rcases List.mem_cons.mp hk with h | h
        · exact absurd (h.trans hji) hki
        · exact h
      exact ih hnd.2 I (fun k hk => hI k (List.mem_cons_of_mem _ hk)) C cm hk2
    · simp only [hji, if_false]
      rw [ag_readElems none j (st.t + 1) I (hI j (by simp))]
      simp only
      have hI' : ∀ k ∈ rest, k < (setB I j (reS G none (st.t + 1) (bsOf I j) [] false).2.1).b.length :=
        fun k hk => by simpa using hI k (List.mem_cons_of_mem _ hk)
      rcases List.mem_cons.mp hk with h | h
      · subst h
        obtain ⟨h1, h2, h3⟩ := ag_genReadC_frame (G := G) st k rest
          (setB I k (reS G none (st.t + 1) (bsOf I k) [] false).2.1) hI'
          (C.set k (padRow st.t (reS G none (st.t + 1) (bsOf I k) [] false).2.2))
          (if (reS G none (st.t + 1) (bsOf I k) [] false).1 = true then cm ++ [k] else cm) (Or.inl hnd.1)
        refine ⟨by rw [h1, ag_bsOf_setB_self _ _ _ (hI k (by simp))], ?_, ?_⟩
        · intro hkC
          rw [h2, ag_getRow_set]
          simp [hkC]
        · rw [h3]
          split
          · rename_i hc
            simp [hc]
          · rename_i hc
            simp [hc]
      · have hkj : j ≠ k := by
          rintro rfl
          exact hnd.1 h
        obtain ⟨h1, h2, h3⟩ := ih hnd.2 (setB I j (reS G none (st.t + 1) (bsOf I j) [] false).2.1) hI'
          (C.set j (padRow st.t (reS G none (st.t + 1) (bsOf I j) [] false).2.2))
          (if (reS G none (st.t + 1) (bsOf I j) [] false).1 = true then cm ++ [j] else cm) h
        rw [ag_bsOf_setB_ne _ _ _ _ hkj] at h1 h2 h3
        refine ⟨h1, ?_, ?_⟩
        · intro hkC
          exact h2 (by simpa using hkC)
        · rw [h3]
          split
          · simp [List.mem_append, Ne.symm hkj]
          · rfl

/-- one sender's pair of private values (step 1(b)): the values stored, whether the sender is
    complained about, the rest of the stream -/
def shOne (q : Int) (l : List Int) : Option Int × Option Int × Bool × List Int :=
  match l with
  | [] => (none, none, true, [])
  | v :: r =>
    match r with
    | [] => (some (if absGe v q then 0 else v), none, true, [])
    | w :: r2 => (some (if absGe v q then 0 else v), some (if absGe w q then 0 else w),
        absGe v q || absGe w q, r2)

def setO (l : List Int) (j : Nat) (o : Option Int) : List Int :=
  match o with
  | none => l
  | some v => l.set j v

theorem ag_genReadShares_cons (q : Int) (st : GenSt) (j : Nat) (rest : List Nat) (I : Inbox)
    (hj : j < I.p.length) (hji : j ≠ st.i) (s sp : List Int) (cm : List Nat) :
    genReadShares q st (j :: rest) I s sp cm =
      genReadShares q st rest (setP I j (shOne q (psOf I j)).2.2.2) (setO s j (shOne q (psOf I j)).1)
        (setO sp j (shOne q (psOf I j)).2.1) (if (shOne q (psOf I j)).2.2.1 = true then cm ++ [j] else cm) := by
  rw [genReadShares]
  simp only [hji, if_false]
  rw [ag_popP]
  cases h1 : psOf I j with
  | nil =>
    have := ag_setP_self I j
    rw [h1] at this
    simp [shOne, setO, this]
  | cons v r =>
    simp only [List.head?_cons, List.tail_cons]
    rw [ag_popP, ag_psOf_setP_self I j r hj, ag_setP_setP]
    cases r with
    | nil =>
      cases hv : absGe v q <;> simp [shOne, setO, hv]
    | cons w r2 =>
      cases hv : absGe v q <;> cases hw : absGe w q <;> simp [shOne, setO, hv, hw]

def InR (q : Int) (l : List Int) : Prop := ∀ x ∈ l, x.natAbs < q.natAbs

theorem ag_absGe_range (q : Int) (hq : 0 < q) (v : Int) : (if absGe v q then 0 else v).natAbs < q.natAbs := by
  unfold absGe
  by_cases h : q.natAbs ≤ v.natAbs
  · simp [h]; omega
  · simp [h]; omega

theorem ag_InR_set (q : Int) (l : List Int) (j : Nat) (v : Int) (hl : InR q l) (hv : v.natAbs < q.natAbs) :
    InR q (l.set j v) := by
  intro x hx
  rcases List.mem_or_eq_of_mem_set hx with h | h
  · exact hl x h
  · rw [h]; exact hv

theorem ag_InR_setO_shOne (q : Int) (hq : 0 < q) (l : List Int) (j : Nat) (ps : List Int) (hl : InR q l) :
    InR q (setO l j (shOne q ps).1) ∧ InR q (setO l j (shOne q ps).2.1) := by
  unfold shOne
  cases ps with
  | nil => exact ⟨hl, hl⟩
  | cons v r =>
    cases r with
    | nil => exact ⟨ag_InR_set q l j _ hl (ag_absGe_range q hq v), hl⟩
    | cons w r2 =>
      exact ⟨ag_InR_set q l j _ hl (ag_absGe_range q hq v), ag_InR_set q l j _ hl (ag_absGe_range q hq w)⟩

theorem ag_setO_length (l : List Int) (j : Nat) (o : Option Int) : (setO l j o).length = l.length := by
  cases o <;> simp [setO]

theorem ag_getI_setO_ne (l : List Int) (j k : Nat) (o : Option Int) (h : j ≠ k) : getI (setO l j o) k = getI l k := by
  cases o with
  | none => rfl
  | some v => simp [setO, ag_getI_set, h]

/-- step 1(b), the shares: broadcast streams untouched, lengths, ranges -/
theorem ag_genReadShares_glob (q : Int) (hq : 0 < q) (st : GenSt) (L : List Nat) (I : Inbox)
    (hI : ∀ j ∈ L, j < I.p.length) (s sp : List Int) (cm : List Nat) :
    (genReadShares q st L I s sp cm).1.b = I.b ∧
    (genReadShares q st L I s sp cm).2.1.length = s.length ∧
    (genReadShares q st L I s sp cm).2.2.1.length = sp.length ∧
    (InR q s → InR q (genReadShares q st L I s sp cm).2.1) ∧
    (InR q sp → InR q (genReadShares q st L I s sp cm).2.2.1) := by
  induction L generalizing I s sp cm with
  | nil => simp [genReadShares]
  | cons j rest ih =>
    by_cases hji : j = st.i
    · rw [genReadShares]
      simp only [hji, if_true]
      exact ih I (fun k hk => hI k (List.mem_cons_of_mem _ hk)) s sp cm
    · rw [ag_genReadShares_cons q st j rest I (hI j (by simp)) hji]
      obtain ⟨h1, h2, h3, h4, h5⟩ := ih (setP I j (shOne q (psOf I j)).2.2.2)
        (fun k hk => by simpa using hI k (List.mem_cons_of_mem _ hk))
        (setO s j (shOne q (psOf I j)).1) (setO sp j (shOne q (psOf I j)).2.1)
        (if (shOne q (psOf I j)).2.2.1 = true then cm ++ [j] else cm)
      refine ⟨by rw [h1]; rfl, by rw [h2, ag_setO_length], by rw [h3, ag_setO_length], ?_, ?_⟩
      · intro hs
        exact h4 (ag_InR_setO_shOne q hq s j _ hs).1
      · intro hs
        exact h5 (ag_InR_setO_shOne q hq sp j _ hs).2

/-- step 1(b), the shares: a sender that is not read -/
theorem ag_genReadShares_frame (q : Int) (st : GenSt) (k : Nat) (L : List Nat) (I : Inbox)
    (hI : ∀ j ∈ L, j < I.p.length) (s sp : List Int) (cm : List Nat) (hk : k ∉ L ∨ k = st.i) :
    getI (genReadShares q st L I s sp cm).2.1 k = getI s k ∧
    getI (genReadShares q st L I s sp cm).2.2.1 k = getI sp k ∧
    (k ∈ (genReadShares q st L I s sp cm).2.2.2 ↔ k ∈ cm) := by
  induction L generalizing I s sp cm with
  | nil => simp [genReadShares]
  | cons j rest ih =>
    have hk' : k ∉ rest ∨ k = st.i := by
      rcases hk with h | h
      · exact Or.inl (fun hh => h (List.mem_cons_of_mem _ hh))
      · exact Or.inr h
    by_cases hji : j = st.i
    · rw [genReadShares]
      simp only [hji, if_true]
      exact ih I (fun k hk => hI k (List.mem_cons_of_mem _ hk)) s sp cm hk'
    · rw [ag_genReadShares_cons q st j rest I (hI j (by simp)) hji]
      have hkj : j ≠ k := by
        rintro rfl
        rcases hk with h | h
        · exact h (by simp)
        · exact hji h
      obtain ⟨h1, h2, h3⟩ := ih (setP I j (shOne q (psOf I j)).2.2.2)
        (fun k hk => by simpa using hI k (List.mem_cons_of_mem _ hk))
        (setO s j (shOne q (psOf I j)).1) (setO sp j (shOne q (psOf I j)).2.1)
        (if (shOne q (psOf I j)).2.2.1 = true then cm ++ [j] else cm) hk'
      refine ⟨by rw [h1, ag_getI_setO_ne _ _ _ _ hkj], by rw [h2, ag_getI_setO_ne _ _ _ _ hkj], ?_⟩
      rw [h3]
      split
      · simp [List.mem_append, Ne.symm hkj]
      · rfl

/-- step 1(b), the shares: a sender whose two values arrived and are in range -/
theorem ag_genReadShares_hit (q : Int) (st : GenSt) (k : Nat) (L : List Nat) (hL : L.Nodup) (I : Inbox)
    (hI : ∀ j ∈ L, j < I.p.length) (s sp : List Int) (cm : List Nat) (hk : k ∈ L) (hki : k ≠ st.i)
    (v w : Int) (hp : psOf I k = [v, w]) (hv : absGe v q = false) (hw : absGe w q = false)
    (hks : k < s.length) (hksp : k < sp.length) :
    getI (genReadShares q st L I s sp cm).2.1 k = v ∧
    getI (genReadShares q st L I s sp cm).2.2.1 k = w ∧
    (k ∈ (genReadShares q st L I s sp cm).2.2.2 ↔ k ∈ cm) := by
  induction L generalizing I s sp cm with
  | nil => simp at hk
  | cons j rest ih =>
    have hnd := List.nodup_cons.mp hL
    by_cases hji : j = st.i
    · rw [genReadShares]
      simp only [hji, if_true]
      have hk2 : k ∈ rest := by
        rcases List.mem_cons.mp hk with h | h
        · exact absurd (h.trans hji) hki
        · exact h
      exact ih hnd.2 I (fun k hk => hI k (List.mem_cons_of_mem _ hk)) s sp cm hk2 hp hks hksp
    · rw [ag_genReadShares_cons q st j rest I (hI j (by simp)) hji]
      have hI' : ∀ k ∈ rest, k < (setP I j (shOne q (psOf I j)).2.2.2).p.length :=
        fun k hk => by simpa using hI k (List.mem_cons_of_mem _ hk)
      rcases List.mem_cons.mp hk with h | h
      · subst h
        obtain ⟨h1, h2, h3⟩ := ag_genReadShares_frame q st k rest _ hI'
          (setO s k (shOne q (psOf I k)).1) (setO sp k (shOne q (psOf I k)).2.1)
          (if (shOne q (psOf I k)).2.2.1 = true then cm ++ [k] else cm) (Or.inl hnd.1)
        rw [h1, h2, h3, hp]
        simp [shOne, hv, hw, setO, ag_getI_set, hks, hksp]
      · have hkj : j ≠ k := by
          rintro rfl
          exact hnd.1 h
        obtain ⟨h1, h2, h3⟩ := ih hnd.2 (setP I j (shOne q (psOf I j)).2.2.2) hI'
          (setO s j (shOne q (psOf I j)).1) (setO sp j (shOne q (psOf I j)).2.1)
          (if (shOne q (psOf I j)).2.2.1 = true then cm ++ [j] else cm) h
          (by rw [ag_psOf_setP_ne _ _ _ _ hkj]; exact hp)
          (by rw [ag_setO_length]; exact hks) (by rw [ag_setO_length]; exact hksp)
        refine ⟨h1, h2, ?_⟩
        rw [h3]
        split
        · simp [List.mem_append, Ne.symm hkj]
        · rfl

/-! arithmetic never fails on the values the readers feed to it -/

theorem ag_commitProdFrom_total (hG : ValidGrp G) (x k : Nat) (cs : List Int) (acc : Int) :
    ∃ r, commitProdFrom G.p x k cs acc = .ok r := by
  induction cs generalizing k acc with
  | nil => exact ⟨acc, rfl⟩
  | cons c cs ih =>
    obtain ⟨b, hb, -⟩ := @mpzPowm_nonneg (gGrp G) ‹Fact (Nat.Prime G.p.natAbs)› hG.vg c ((x : Int) ^ k)
      (by positivity)
    have hb' : mpzPowm c ((x : Int) ^ k) G.p = .ok b := hb
    obtain ⟨r, hr⟩ := ih (k + 1) (acc * b % G.p)
    exact ⟨r, by simp only [commitProdFrom, hb']; exact hr⟩

theorem ag_commitProd_total (hG : ValidGrp G) (x : Nat) (cs : List Int) : ∃ r, commitProd G.p x cs = .ok r :=
  ag_commitProdFrom_total hG x 0 cs 1

theorem ag_pedF_total (hG : ValidGrp G) (v w : Int) :
    ∃ l, pedF G (if absGe v G.q then 0 else v) (if absGe w G.q then 0 else w) = .ok l := by
  obtain ⟨l, hl, -⟩ := pedF_val hG _ _ (ag_absGe_range G.q hG.vg.q_pos v) (ag_absGe_range G.q hG.vg.q_pos w)
  exact ⟨l, hl⟩

theorem ag_raS_total (hG : ValidGrp G) (n : Nat) (Cj : List Int) (f : Nat) (s : List (Tag × Int)) :
    ∃ r, raS G n Cj f s = .ok r := by
  induction f generalizing s with
  | zero => exact ⟨_, rfl⟩
  | succ f ih =>
    unfold raS
    rcases popS none s with ⟨_ | w, s1⟩
    · exact ⟨_, rfl⟩
    · simp only
      split
      · exact ⟨_, rfl⟩
      · rcases popS none s1 with ⟨_ | foo0, s2⟩
        · exact ⟨_, rfl⟩
        · simp only
          rcases popS none s2 with ⟨_ | bar0, s3⟩
          · exact ⟨_, rfl⟩
          · simp only
            obtain ⟨l, hl⟩ := ag_pedF_total hG foo0 bar0
            obtain ⟨r, hr⟩ := ag_commitProd_total hG (getUi w + 1) Cj
            obtain ⟨r3, hr3⟩ := ih s3
            rw [hl, hr, hr3]
            exact ⟨_, rfl⟩

/-- whether the answers of a dealer (stream `s`, commitments `Cj`) put it on the complaint list -/
def raBad (G : Grp) (n : Nat) (Cj : List Int) (s : List (Tag × Int)) : Bool :=
  match raS G n Cj (n + 1) s with
  | .ok r => decide (0 < r.1)
  | .error _ => true

theorem ag_gaList_total (hG : ValidGrp G) (s : List Int) (hs : InR G.q s) : ∃ r, gaList G s = .ok r := by
  induction s with
  | nil => exact ⟨[], rfl⟩
  | cons a s ih =>
    obtain ⟨x, hx, -⟩ := fspowm_g hG a (hs a (by simp))
    obtain ⟨r, hr⟩ := ih (fun y hy => hs y (List.mem_cons_of_mem _ hy))
    exact ⟨x :: r, by simp only [gaList, hx, hr, bind, Except.bind, pure, Except.pure]⟩

/-- the shares stored in step 1(d) are in range -/
theorem ag_genReadAnswers_InR (hq : 0 < G.q) (st : GenSt) (j : Nat) (f : Nat) (I : Inbox) (s sp : List Int)
    (cm : List Nat) (r : Inbox × List Int × List Int × List Nat)
    (h : genReadAnswers G st j f I s sp cm = .ok r) (hs : InR G.q s) : InR G.q r.2.1 := by
  induction f generalizing I s sp cm with
  | zero =>
    simp only [genReadAnswers] at h
    injection h with h
    rw [← h]; exact hs
  | succ f ih =>
    unfold genReadAnswers at h
    rcases hp1 : I.popB none j with ⟨_ | w, I1⟩
    · rw [hp1] at h
      injection h with h
      rw [← h]; exact hs
    · rw [hp1] at h
      simp only at h
      split at h
      · injection h with h
        rw [← h]; exact hs
      · rcases hp2 : I1.popB none j with ⟨_ | foo0, I2⟩
        · rw [hp2] at h
          injection h with h
          rw [← h]; exact hs
        · rw [hp2] at h
          simp only at h
          rcases hp3 : I2.popB none j with ⟨_ | bar0, I3⟩
          · rw [hp3] at h
            injection h with h
            rw [← h]; exact hs
          · rw [hp3] at h
            simp only [ag_ite_pair] at h
            obtain ⟨lhs, -, h⟩ := ag_bind_ok _ _ _ h
            obtain ⟨rhs, -, h⟩ := ag_bind_ok _ _ _ h
            split at h
            · exact ih _ _ _ _ h hs
            · split at h
              · exact ih _ _ _ _ h (ag_InR_set G.q s j _ hs (ag_absGe_range G.q hq foo0))
              · exact ih _ _ _ _ h hs

/-- `answeredOf` on one stream -/
def anS (n : Nat) : Nat → List (Tag × Int) → List Nat → List Nat
  | 0, _, acc => acc
  | f + 1, s, acc =>
    match popS none s with
    | (none, _) => acc
    | (some w, s1) =>
      if getUi w ≥ n then acc
      else
        match popS none s1 with
        | (none, _) => acc ++ [getUi w]
        | (some _, s2) =>
          match popS none s2 with
          | (none, _) => acc ++ [getUi w]
          | (some _, s3) => anS n f s3 (acc ++ [getUi w])

theorem ag_answeredOf (n j f : Nat) (I : Inbox) (hj : j < I.b.length) (acc : List Nat) :
    answeredOf n j f I acc = anS n f (bsOf I j) acc := by
  induction f generalizing I acc with
  | zero => rfl
  | succ f ih =>
    unfold answeredOf anS
    rw [ag_popB]
    rcases hp1 : popS none (bsOf I j) with ⟨_ | w, s1⟩
    · rfl
    · simp only
      split
      · rfl
      · rw [ag_popB, ag_bsOf_setB_self I j s1 hj, ag_setB_setB]
        rcases hp2 : popS none s1 with ⟨_ | foo, s2⟩
        · rfl
        · simp only
          rw [ag_popB, ag_bsOf_setB_self I j s2 hj, ag_setB_setB]
          rcases hp3 : popS none s2 with ⟨_ | bar, s3⟩
          · rfl
          · simp only
            rw [ih (setB I j s3) (by simpa using hj), ag_bsOf_setB_self I j s3 hj]

/-- whether dealer `k` (stream `s`) left a complainer without an answer -/
def unB (st : GenSt) (k : Nat) (s : List (Tag × Int)) : Bool :=
  (st.complainers.getD k []).any (fun c => !(anS st.n (st.n + 1) s []).contains c)

theorem ag_mem_unanswered (st : GenSt) (j : Nat) (I : Inbox) (hj : j < I.b.length) (x : Nat) :
    x ∈ unanswered st j I ↔ x = j ∧ unB st j (bsOf I j) = true := by
  unfold unanswered unB
  rw [ag_answeredOf _ _ _ _ hj]
  simp only [List.mem_map, List.mem_filter, List.any_eq_true]
  constructor
  · rintro ⟨c, ⟨h1, h2⟩, rfl⟩
    exact ⟨rfl, c, h1, h2⟩
  · rintro ⟨rfl, c, h1, h2⟩
    exact ⟨c, ⟨h1, h2⟩, rfl⟩

/-- step 1(d): the loop over the dealers -/
theorem ag_genResolveGo (hG : ValidGrp G) (st : GenSt) (L : List Nat) (hL : L.Nodup) (I : Inbox)
    (hI : ∀ j ∈ L, j < I.b.length) (s sp : List Int) (cm : List Nat) :
    ∃ I' s' sp' cm', genResolveGo G st L I s sp cm = .ok (I', s', sp', cm') ∧ (InR G.q s → InR G.q s') ∧
      ∀ k, k ∈ cm' ↔ k ∈ cm ∨ (k ∈ L ∧ (st.t < getN st.cnt k ∨
        (k ≠ st.i ∧ (raBad G st.n (getRow st.C k) (bsOf I k) = true ∨ unB st k (bsOf I k) = true)))) := by
  induction L generalizing I s sp cm with
  | nil => exact ⟨I, s, sp, cm, rfl, id, by simp⟩
  | cons j rest ih =>
    have hnd := List.nodup_cons.mp hL
    have hIr : ∀ k ∈ rest, k < I.b.length := fun k hk => hI k (List.mem_cons_of_mem _ hk)
    unfold genResolveGo
    by_cases hc : getN st.cnt j > st.t
    · simp only [hc, if_true]
      obtain ⟨I', s', sp', cm', h, hin, hm⟩ := ih hnd.2 I hIr s sp (cm ++ [j])
      refine ⟨I', s', sp', cm', h, hin, ?_⟩
      intro k
      rw [hm k]
      by_cases hkj : k = j
      · subst hkj
        simp [hc]
      · simp [hkj]
    · simp only [hc, if_false]
      by_cases hji : j = st.i
      · simp only [hji, if_true]
        obtain ⟨I', s', sp', cm', h, hin, hm⟩ := ih hnd.2 I hIr s sp cm
        refine ⟨I', s', sp', cm', h, hin, ?_⟩
        intro k
        rw [hm k]
        by_cases hkj : k = j
        · subst hkj
          have : k ∉ rest := hnd.1
          have hc' : ¬ st.t < getN st.cnt st.i := by rw [← hji]; exact hc
          simp [hji, hc']
        · have hkj' : ¬ k = st.i := fun e => hkj (e.trans hji.symm)
          simp [hkj']
      · simp only [hji, if_false]
        obtain ⟨⟨bad, rst⟩, hr⟩ := ag_raS_total hG st.n (getRow st.C j) (st.n + 1) (bsOf I j)
        have hra := ag_genReadAnswers (G := G) st j (st.n + 1) I (hI j (by simp)) s sp cm
        rw [hr] at hra
        obtain ⟨s1, sp1, hra⟩ := hra
        obtain ⟨I', s', sp', cm', h, hin, hm⟩ := ih hnd.2 (setB I j rst)
          (fun k hk => by simpa using hIr k hk) s1 sp1 (cm ++ List.replicate bad j ++ unanswered st j I)
        have hin1 : InR G.q s → InR G.q s1 := fun hs =>
          ag_genReadAnswers_InR hG.vg.q_pos st j (st.n + 1) I s sp cm _ hra hs
        refine ⟨I', s', sp', cm', ?_, fun hs => hin (hin1 hs), ?_⟩
        · simp only [hra, bind, Except.bind]
          exact h
        · intro k
          rw [hm k]
          by_cases hkj : k = j
          · subst hkj
            have : k ∉ rest := hnd.1
            simp [this, hc, hji, raBad, hr, List.mem_replicate, ag_mem_unanswered st k I (hI k (by simp)),
              Nat.pos_iff_ne_zero]
          · have hb : bsOf (setB I j rst) k = bsOf I k := ag_bsOf_setB_ne _ _ _ _ (Ne.symm hkj)
            simp [hkj, hb, List.mem_replicate, ag_mem_unanswered st j I (hI j (by simp))]

/-- the test of equation (4) for dealer `k` -/
def chk4 (G : Grp) (i : Nat) (C : List (List Int)) (s sp : List Int) (k : Nat) : Bool :=
  match pedS G (getI s k) (getI sp k), commitProd G.p (i + 1) (getRow C k) with
  | .ok lhs, .ok rhs => lhs.2 != rhs
  | _, _ => true

theorem ag_getI_InR (q : Int) (hq : 0 < q) (l : List Int) (hl : InR q l) (k : Nat) : (getI l k).natAbs < q.natAbs := by
  unfold getI
  by_cases hk : k < l.length
  · rw [List.getD_eq_getElem _ _ hk]
    exact hl _ (List.getElem_mem hk)
  · rw [List.getD_eq_default _ _ (by omega)]
    simp; omega

/-- step 1(b), equation (4): the loop over the dealers -/
theorem ag_genCheck4 (hG : ValidGrp G) (st : GenSt) (C : List (List Int)) (s sp : List Int)
    (hs : InR G.q s) (hsp : InR G.q sp) (L : List Nat) (gs : List Int) (cm : List Nat) :
    ∃ gs' cm', genCheck4 G st C s sp L gs cm = .ok (gs', cm') ∧
      ∀ k, k ∈ cm' ↔ k ∈ cm ∨ (k ∈ L ∧ chk4 G st.i C s sp k = true) := by
  induction L generalizing gs cm with
  | nil => exact ⟨gs, cm, rfl, by simp⟩
  | cons j rest ih =>
    obtain ⟨a, l, hped, -⟩ := pedS_val hG (getI s j) (getI sp j)
      (ag_getI_InR G.q hG.vg.q_pos s hs j) (ag_getI_InR G.q hG.vg.q_pos sp hsp j)
    obtain ⟨r, hr⟩ := ag_commitProd_total hG (st.i + 1) (getRow C j)
    obtain ⟨gs', cm', h, hm⟩ := ih (gs.set j a) (if (l != r) = true then cm ++ [j] else cm)
    refine ⟨gs', cm', ?_, ?_⟩
    · unfold genCheck4
      simp only [hped, hr, bind, Except.bind]
      exact h
    · intro k
      rw [hm k]
      by_cases hkj : k = j
      · subst hkj
        by_cases hlr : (l != r) = true
        · simp [chk4, hped, hr, hlr]
        · simp [chk4, hped, hr, hlr]
      · split <;> simp [hkj]

/-! the complaint counters -/

theorem ag_bumpL_length (cnt ws : List Nat) : (bumpL cnt ws).length = cnt.length := by
  induction ws generalizing cnt with
  | nil => rfl
  | cons w ws ih =>
    simp only [bumpL, List.foldl_cons] at ih ⊢
    rw [ih]
    simp

theorem ag_bumpL_getN (cnt ws : List Nat) (x : Nat) (hx : x < cnt.length) :
    getN (bumpL cnt ws) x = getN cnt x + ws.count x := by
  induction ws generalizing cnt with
  | nil => simp [bumpL]
  | cons w ws ih =>
    have h := ih (cnt.set w (getN cnt w + 1)) (by simpa using hx)
    simp only [bumpL, List.foldl_cons] at h ⊢
    rw [h, ag_getN_set, List.count_cons]
    by_cases hwx : w = x
    · subst hwx
      simp [hx]
      omega
    · simp [hwx]

def rcNews (n : Nat) (s : List (Tag × Int)) : List Nat := (rcS n (n + 1) 0 [] s).1
def rcBad (n : Nat) (s : List (Tag × Int)) : Bool := decide (0 < (rcS n (n + 1) 0 [] s).2.1)
def rcRest (n : Nat) (s : List (Tag × Int)) : List (Tag × Int) := (rcS n (n + 1) 0 [] s).2.2

theorem ag_genCollectGo_cons (st : GenSt) (j : Nat) (rest : List Nat) (I : Inbox) (hj : j < I.b.length)
    (hji : j ≠ st.i) (cnt cf cm : List Nat) :
    genCollectGo st (j :: rest) I cnt cf cm =
      genCollectGo st rest (setB I j (rcRest st.n (bsOf I j))) (bumpL cnt (rcNews st.n (bsOf I j)))
        (cf ++ ((rcNews st.n (bsOf I j)).filter (fun w => w = st.i)).map (fun _ => j))
        (cm ++ List.replicate (rcS st.n (st.n + 1) 0 [] (bsOf I j)).2.1 j) := by
  rw [genCollectGo]
  simp only [hji, if_false]
  rw [ag_genReadComplaints st j (st.n + 1) 0 [] I hj]
  rfl

/-- step 1(c): lengths -/
theorem ag_genCollectGo_glob (st : GenSt) (L : List Nat) (I : Inbox) (hI : ∀ j ∈ L, j < I.b.length)
    (cnt cf cm : List Nat) :
    (genCollectGo st L I cnt cf cm).1.b.length = I.b.length ∧ (genCollectGo st L I cnt cf cm).1.p = I.p ∧
    (genCollectGo st L I cnt cf cm).2.1.length = cnt.length := by
  induction L generalizing I cnt cf cm with
  | nil => simp [genCollectGo]
  | cons j rest ih =>
    by_cases hji : j = st.i
    · rw [genCollectGo]
      simp only [hji, if_true]
      exact ih I (fun k hk => hI k (List.mem_cons_of_mem _ hk)) cnt cf cm
    · rw [ag_genCollectGo_cons st j rest I (hI j (by simp)) hji]
      obtain ⟨h1, h2, h3⟩ := ih (setB I j (rcRest st.n (bsOf I j)))
        (fun k hk => by simpa using hI k (List.mem_cons_of_mem _ hk))
        (bumpL cnt (rcNews st.n (bsOf I j)))
        (cf ++ ((rcNews st.n (bsOf I j)).filter (fun w => w = st.i)).map (fun _ => j))
        (cm ++ List.replicate (rcS st.n (st.n + 1) 0 [] (bsOf I j)).2.1 j)
      exact ⟨by rw [h1]; simp, by rw [h2]; rfl, by rw [h3, ag_bumpL_length]⟩

/-- step 1(c): a sender that is not read -/
theorem ag_genCollectGo_frame (st : GenSt) (k : Nat) (L : List Nat) (I : Inbox) (hI : ∀ j ∈ L, j < I.b.length)
    (cnt cf cm : List Nat) (hk : k ∉ L ∨ k = st.i) :
    bsOf (genCollectGo st L I cnt cf cm).1 k = bsOf I k ∧
    (k ∈ (genCollectGo st L I cnt cf cm).2.2.2 ↔ k ∈ cm) := by
  induction L generalizing I cnt cf cm with
  | nil => simp [genCollectGo]
  | cons j rest ih =>
    have hk' : k ∉ rest ∨ k = st.i := by
      rcases hk with h | h
      · exact Or.inl (fun hh => h (List.mem_cons_of_mem _ hh))
      · exact Or.inr h
    by_cases hji : j = st.i
    · rw [genCollectGo]
      simp only [hji, if_true]
      exact ih I (fun k hk => hI k (List.mem_cons_of_mem _ hk)) cnt cf cm hk'
    · rw [ag_genCollectGo_cons st j rest I (hI j (by simp)) hji]
      have hkj : j ≠ k := by
        rintro rfl
        rcases hk with h | h
        · exact h (by simp)
        · exact hji h
      obtain ⟨h1, h2⟩ := ih (setB I j (rcRest st.n (bsOf I j)))
        (fun k hk => by simpa using hI k (List.mem_cons_of_mem _ hk))
        (bumpL cnt (rcNews st.n (bsOf I j)))
        (cf ++ ((rcNews st.n (bsOf I j)).filter (fun w => w = st.i)).map (fun _ => j))
        (cm ++ List.replicate (rcS st.n (st.n + 1) 0 [] (bsOf I j)).2.1 j) hk'
      refine ⟨by rw [h1, ag_bsOf_setB_ne _ _ _ _ hkj], ?_⟩
      rw [h2]
      simp [List.mem_append, List.mem_replicate, Ne.symm hkj]

/-- step 1(c): a sender that is read -/
theorem ag_genCollectGo_hit (st : GenSt) (k : Nat) (L : List Nat) (hL : L.Nodup) (I : Inbox)
    (hI : ∀ j ∈ L, j < I.b.length) (cnt cf cm : List Nat) (hk : k ∈ L) (hki : k ≠ st.i) :
    bsOf (genCollectGo st L I cnt cf cm).1 k = rcRest st.n (bsOf I k) ∧
    (k ∈ (genCollectGo st L I cnt cf cm).2.2.2 ↔ k ∈ cm ∨ rcBad st.n (bsOf I k) = true) := by
  induction L generalizing I cnt cf cm with
  | nil => simp at hk
  | cons j rest ih =>
    have hnd := List.nodup_cons.mp hL
    by_cases hji : j = st.i
    · rw [genCollectGo]
      simp only [hji, if_true]
      have hk2 : k ∈ rest := by
        rcases List.mem_cons.mp hk with h | h
        · exact absurd (h.trans hji) hki
        · exact h
      exact ih hnd.2 I (fun k hk => hI k (List.mem_cons_of_mem _ hk)) cnt cf cm hk2
    · rw [ag_genCollectGo_cons st j rest I (hI j (by simp)) hji]
      have hI' : ∀ k ∈ rest, k < (setB I j (rcRest st.n (bsOf I j))).b.length :=
        fun k hk => by simpa using hI k (List.mem_cons_of_mem _ hk)
      rcases List.mem_cons.mp hk with h | h
      · subst h
        obtain ⟨h1, h2⟩ := ag_genCollectGo_frame st k rest _ hI'
          (bumpL cnt (rcNews st.n (bsOf I k)))
          (cf ++ ((rcNews st.n (bsOf I k)).filter (fun w => w = st.i)).map (fun _ => k))
          (cm ++ List.replicate (rcS st.n (st.n + 1) 0 [] (bsOf I k)).2.1 k) (Or.inl hnd.1)
        refine ⟨by rw [h1, ag_bsOf_setB_self _ _ _ (hI k (by simp))], ?_⟩
        rw [h2]
        simp [List.mem_append, List.mem_replicate, rcBad, Nat.pos_iff_ne_zero]
      · have hkj : j ≠ k := by
          rintro rfl
          exact hnd.1 h
        obtain ⟨h1, h2⟩ := ih hnd.2 (setB I j (rcRest st.n (bsOf I j))) hI'
          (bumpL cnt (rcNews st.n (bsOf I j)))
          (cf ++ ((rcNews st.n (bsOf I j)).filter (fun w => w = st.i)).map (fun _ => j))
          (cm ++ List.replicate (rcS st.n (st.n + 1) 0 [] (bsOf I j)).2.1 j) h
        rw [ag_bsOf_setB_ne _ _ _ _ hkj] at h1 h2
        refine ⟨h1, ?_⟩
        rw [h2]
        simp [List.mem_append, List.mem_replicate, Ne.symm hkj]

/-- step 1(c): the counters after the loop -/
theorem ag_genCollectGo_cnt (st : GenSt) (L : List Nat) (hL : L.Nodup) (I : Inbox)
    (hI : ∀ j ∈ L, j < I.b.length) (cnt cf cm : List Nat) (w : Nat) (hw : w < cnt.length) :
    getN (genCollectGo st L I cnt cf cm).2.1 w =
      getN cnt w + ((L.filter (fun x => x ≠ st.i)).map (fun x => (rcNews st.n (bsOf I x)).count w)).sum := by
  induction L generalizing I cnt cf cm with
  | nil => simp [genCollectGo]
  | cons j rest ih =>
    have hnd := List.nodup_cons.mp hL
    by_cases hji : j = st.i
    · rw [genCollectGo]
      simp only [hji, if_true]
      rw [ih hnd.2 I (fun k hk => hI k (List.mem_cons_of_mem _ hk)) cnt cf cm hw]
      simp
    · rw [ag_genCollectGo_cons st j rest I (hI j (by simp)) hji]
      rw [ih hnd.2 (setB I j (rcRest st.n (bsOf I j)))
        (fun k hk => by simpa using hI k (List.mem_cons_of_mem _ hk)) _ _ _ (by rw [ag_bumpL_length]; exact hw)]
      rw [ag_bumpL_getN _ _ _ hw]
      have hcongr : ((rest.filter (fun x => x ≠ st.i)).map
            (fun x => (rcNews st.n (bsOf (setB I j (rcRest st.n (bsOf I j))) x)).count w)) =
          ((rest.filter (fun x => x ≠ st.i)).map (fun x => (rcNews st.n (bsOf I x)).count w)) := by
        apply List.map_congr_left
        intro x hx
        have hxr : x ∈ rest := (List.mem_filter.mp hx).1
        have hjx : j ≠ x := by
          rintro rfl
          exact hnd.1 hxr
        rw [ag_bsOf_setB_ne _ _ _ _ hjx]
      rw [hcongr]
      simp [hji]
      omega

/-! the complainers -/

theorem ag_complaintsOf (n j f it : Nat) (dup : List Nat) (I : Inbox) (hj : j < I.b.length) :
    complaintsOf n j f it dup I = dup ++ (rcS n f it dup (bsOf I j)).1 := by
  induction f generalizing it dup I with
  | zero => simp [complaintsOf, rcS]
  | succ f ih =>
    unfold complaintsOf rcS
    rw [ag_popB]
    rcases hp : popS none (bsOf I j) with ⟨_ | v, s1⟩
    · simp
    · simp only
      by_cases h1 : getUi v < n ∧ ¬ dup.contains (getUi v) = true
      · simp only [h1, if_true, true_and]
        by_cases h2 : it + 1 ≤ n
        · simp only [h2, if_true]
          rw [ih _ _ (setB I j s1) (by simpa using hj), ag_bsOf_setB_self I j s1 hj]
          simp
        · simp [h2]
      · simp only [h1, if_false]
        by_cases h4 : getUi v < n
        · simp only [h4, true_and]
          by_cases h2 : it + 1 ≤ n
          · simp only [h2, if_true]
            rw [ih _ _ (setB I j s1) (by simpa using hj), ag_bsOf_setB_self I j s1 hj]
          · simp [h2]
        · simp [h4]

/-- `complainers[who] += [j]` for every `who` of the list -/
theorem ag_cpsFold_mem (j : Nat) (acc : List Nat) (cps : List (List Nat)) (k x : Nat) (hk : k < cps.length) :
    ((acc.foldl (fun c who => c.set who (c.getD who [] ++ [j])) cps).length = cps.length) ∧
    (x ∈ (acc.foldl (fun c who => c.set who (c.getD who [] ++ [j])) cps).getD k [] ↔
      x ∈ cps.getD k [] ∨ (x = j ∧ k ∈ acc)) := by
  induction acc generalizing cps with
  | nil => simp
  | cons w acc ih =>
    obtain ⟨h1, h2⟩ := ih (cps.set w (cps.getD w [] ++ [j])) (by simpa using hk)
    simp only [List.foldl_cons]
    refine ⟨by rw [h1]; simp, ?_⟩
    rw [h2, ag_getD_set]
    by_cases hwk : w = k
    · subst hwk
      simp [hk]
      tauto
    · have : ¬ k = w := fun e => hwk e.symm
      simp [hwk, this]

/-- step 1(c): who complained against `k` -/
theorem ag_genComplainers (st : GenSt) (L : List Nat) (I : Inbox) (hI : ∀ j ∈ L, j < I.b.length)
    (cps : List (List Nat)) (k x : Nat) (hk : k < cps.length) :
    (genComplainers st L I cps).length = cps.length ∧
    (x ∈ (genComplainers st L I cps).getD k [] ↔
      x ∈ cps.getD k [] ∨ (x ∈ L ∧ x ≠ st.i ∧ k ∈ rcNews st.n (bsOf I x))) := by
  induction L generalizing cps with
  | nil => simp [genComplainers]
  | cons j rest ih =>
    have hIr : ∀ k ∈ rest, k < I.b.length := fun k hk => hI k (List.mem_cons_of_mem _ hk)
    unfold genComplainers
    by_cases hji : j = st.i
    · simp only [hji, if_true]
      obtain ⟨h1, h2⟩ := ih hIr cps hk
      refine ⟨h1, ?_⟩
      rw [h2]
      constructor
      · rintro (h | ⟨h3, h4, h5⟩)
        · exact Or.inl h
        · exact Or.inr ⟨List.mem_cons_of_mem _ h3, h4, h5⟩
      · rintro (h | ⟨h3, h4, h5⟩)
        · exact Or.inl h
        · rcases List.mem_cons.mp h3 with e | e
          · exact absurd e h4
          · exact Or.inr ⟨e, h4, h5⟩
    · simp only [hji, if_false]
      obtain ⟨f1, f2⟩ := ag_cpsFold_mem j (complaintsOf st.n j (st.n + 1) 0 [] I) cps k x hk
      obtain ⟨h1, h2⟩ := ih hIr
        ((complaintsOf st.n j (st.n + 1) 0 [] I).foldl (fun c who => c.set who (c.getD who [] ++ [j])) cps)
        (by rw [f1]; exact hk)
      refine ⟨h1.trans f1, ?_⟩
      rw [h2, f2, ag_complaintsOf _ _ _ _ _ _ (hI j (by simp))]
      simp only [List.nil_append]
      constructor
      · rintro ((h | ⟨rfl, h⟩) | ⟨h3, h4, h5⟩)
        · exact Or.inl h
        · exact Or.inr ⟨by simp, hji, h⟩
        · exact Or.inr ⟨List.mem_cons_of_mem _ h3, h4, h5⟩
      · rintro (h | ⟨h3, h4, h5⟩)
        · exact Or.inl (Or.inl h)
        · rcases List.mem_cons.mp h3 with e | e
          · subst e
            exact Or.inl (Or.inr ⟨rfl, h5⟩)
          · exact Or.inr ⟨e, h4, h5⟩

/-- step 1(c): the senders that complained against the reader -/
theorem ag_genCollectGo_cf (st : GenSt) (L : List Nat) (hL : L.Nodup) (I : Inbox)
    (hI : ∀ j ∈ L, j < I.b.length) (cnt cf cm : List Nat) (x : Nat) :
    x ∈ (genCollectGo st L I cnt cf cm).2.2.1 ↔
      x ∈ cf ∨ (x ∈ L ∧ x ≠ st.i ∧ st.i ∈ rcNews st.n (bsOf I x)) := by
  induction L generalizing I cnt cf cm with
  | nil => simp [genCollectGo]
  | cons j rest ih =>
    have hnd := List.nodup_cons.mp hL
    by_cases hji : j = st.i
    · rw [genCollectGo]
      simp only [hji, if_true]
      rw [ih hnd.2 I (fun k hk => hI k (List.mem_cons_of_mem _ hk)) cnt cf cm]
      constructor
      · rintro (h | ⟨h3, h4, h5⟩)
        · exact Or.inl h
        · exact Or.inr ⟨List.mem_cons_of_mem _ h3, h4, h5⟩
      · rintro (h | ⟨h3, h4, h5⟩)
        · exact Or.inl h
        · rcases List.mem_cons.mp h3 with e | e
          · exact absurd e h4
          · exact Or.inr ⟨e, h4, h5⟩
    · rw [ag_genCollectGo_cons st j rest I (hI j (by simp)) hji]
      rw [ih hnd.2 (setB I j (rcRest st.n (bsOf I j)))
        (fun k hk => by simpa using hI k (List.mem_cons_of_mem _ hk))]
      have hfr : ∀ y, y ∈ rest → bsOf (setB I j (rcRest st.n (bsOf I j))) y = bsOf I y := by
        intro y hy
        have hjy : j ≠ y := by
          rintro rfl
          exact hnd.1 hy
        exact ag_bsOf_setB_ne _ _ _ _ hjy
      simp only [List.mem_append, List.mem_map, List.mem_filter, decide_eq_true_eq]
      constructor
      · rintro ((h | ⟨a, ⟨h1, h2⟩, rfl⟩) | ⟨h3, h4, h5⟩)
        · exact Or.inl h
        · exact Or.inr ⟨by simp, hji, by rw [← h2]; exact h1⟩
        · rw [hfr x h3] at h5
          exact Or.inr ⟨List.mem_cons_of_mem _ h3, h4, h5⟩
      · rintro (h | ⟨h3, h4, h5⟩)
        · exact Or.inl (Or.inl h)
        · rcases List.mem_cons.mp h3 with e | e
          · subst e
            exact Or.inl (Or.inr ⟨st.i, ⟨h5, rfl⟩, rfl⟩)
          · rw [← hfr x e] at h5
            exact Or.inr ⟨e, h4, h5⟩

/-! ### (6) the readers on the streams of a party that follows the protocol -/

theorem ag_getUi_nat (j : Nat) (hj : j < 2 ^ 64) : getUi (j : Int) = j := by
  unfold getUi
  rw [Int.natAbs_natCast, Nat.mod_eq_of_lt hj]

theorem ag_reS_honest (C : List Int) (hC : ∀ c ∈ C, Dkg.checkElement G c = true)
    (rest : List (Tag × Int)) (acc : List Int) (c : Bool) :
    reS G none C.length (C.map (fun v => ((none : Tag), v)) ++ rest) acc c = (c, rest, acc ++ C) := by
  induction C generalizing acc with
  | nil => simp [reS]
  | cons v C ih =>
    simp only [List.length_cons, List.map_cons, List.cons_append, reS, ag_popS_none_cons,
      hC v (by simp), if_true]
    rw [ih (fun c hc => hC c (List.mem_cons_of_mem _ hc))]
    simp

theorem ag_rcS_honest (n : Nat) (hn : n < 2 ^ 64) (D : List Nat) (f it : Nat) (dup : List Nat)
    (hf : D.length + 1 ≤ f) (hit : it + D.length ≤ n) (hD : ∀ x ∈ D, x < n) (hnd : D.Nodup)
    (hdup : ∀ x ∈ D, x ∉ dup) :
    rcS n f it dup (D.map (fun (j : Nat) => ((none : Tag), (j : Int))) ++ [((none : Tag), (n : Int))]) = (D, 0, []) := by
  induction D generalizing f it dup with
  | nil =>
    obtain ⟨f, rfl⟩ : ∃ f', f = f' + 1 := ⟨f - 1, by simp at hf; omega⟩
    simp [rcS, ag_popS_none_cons, ag_getUi_nat n hn]
  | cons x D ih =>
    obtain ⟨f, rfl⟩ : ∃ f', f = f' + 1 := ⟨f - 1, by simp at hf; omega⟩
    have hx : x < n := hD x (by simp)
    have hxd : x ∉ dup := hdup x (by simp)
    have hnd' := List.nodup_cons.mp hnd
    simp only [List.length_cons] at hf hit
    have hrec := ih f (it + 1) (dup ++ [x]) (by omega) (by omega)
      (fun y hy => hD y (List.mem_cons_of_mem _ hy)) hnd'.2
      (fun y hy => by
        simp only [List.mem_append, List.mem_singleton, not_or]
        exact ⟨hdup y (List.mem_cons_of_mem _ hy), fun e => hnd'.1 (e ▸ hy)⟩)
    simp only [List.map_cons, List.cons_append, rcS, ag_popS_none_cons, ag_getUi_nat x (by omega)]
    have h1 : (x < n ∧ ¬ dup.contains x = true) := ⟨hx, by simpa using hxd⟩
    have h2 : it + 1 ≤ n := by omega
    simp only [h1, if_true, h2, hrec]
    simp

/-- a well-formed answer list: one verifying triple per entry, then the end marker -/
theorem ag_raS_honest (n : Nat) (hn : n < 2 ^ 64) (Cj : List Int) (σ τ : Nat → Int) (cfs : List Nat) (f : Nat)
    (hf : cfs.length + 1 ≤ f)
    (hcfs : ∀ it ∈ cfs, it < n ∧ absGe (σ it) G.q = false ∧ absGe (τ it) G.q = false ∧
      ∃ l, pedF G (σ it) (τ it) = .ok l ∧ commitProd G.p (it + 1) Cj = .ok l) :
    raS G n Cj f (cfs.flatMap (fun (it : Nat) => [((none : Tag), (it : Int)), (none, σ it), (none, τ it)]) ++
      [((none : Tag), (n : Int))]) = .ok (0, []) := by
  induction cfs generalizing f with
  | nil =>
    obtain ⟨f, rfl⟩ : ∃ f', f = f' + 1 := ⟨f - 1, by simp at hf; omega⟩
    simp [raS, ag_popS_none_cons, ag_getUi_nat n hn]
  | cons x cfs ih =>
    obtain ⟨f, rfl⟩ : ∃ f', f = f' + 1 := ⟨f - 1, by simp at hf; omega⟩
    obtain ⟨hx, h1, h2, l, hl, hr⟩ := hcfs x (by simp)
    simp only [List.length_cons] at hf
    have hrec := ih f (by omega) (fun y hy => hcfs y (List.mem_cons_of_mem _ hy))
    have hnx : ¬ x ≥ n := by omega
    simp only [List.flatMap_cons, List.cons_append, List.nil_append, raS, ag_popS_none_cons,
      ag_getUi_nat x (by omega), hnx, if_false, h1, h2, Bool.false_eq_true, hl, hr, hrec]
    simp

/-- the answered complainers of a well-formed answer list -/
theorem ag_anS_honest (n : Nat) (hn : n < 2 ^ 64) (σ τ : Nat → Int) (cfs : List Nat) (f : Nat)
    (hf : cfs.length + 1 ≤ f) (hcfs : ∀ it ∈ cfs, it < n) (acc : List Nat) :
    anS n f (cfs.flatMap (fun (it : Nat) => [((none : Tag), (it : Int)), (none, σ it), (none, τ it)]) ++
      [((none : Tag), (n : Int))]) acc = acc ++ cfs := by
  induction cfs generalizing f acc with
  | nil =>
    obtain ⟨f, rfl⟩ : ∃ f', f = f' + 1 := ⟨f - 1, by simp at hf; omega⟩
    simp [anS, ag_popS_none_cons, ag_getUi_nat n hn]
  | cons x cfs ih =>
    obtain ⟨f, rfl⟩ : ∃ f', f = f' + 1 := ⟨f - 1, by simp at hf; omega⟩
    have hx : x < n := hcfs x (by simp)
    simp only [List.length_cons] at hf
    have hnx : ¬ x ≥ n := by omega
    simp only [List.flatMap_cons, List.cons_append, List.nil_append, anS, ag_popS_none_cons,
      ag_getUi_nat x (by omega), hnx, if_false]
    rw [ih f (by omega) (fun y hy => hcfs y (List.mem_cons_of_mem _ hy))]
    simp

/-! the sorted duplicate-free list of step 1(b) -/

theorem ag_mem_sortUniq (n : Nat) (l : List Nat) (j : Nat) : j ∈ sortUniq n l ↔ j < n ∧ j ∈ l := by
  simp [sortUniq, List.mem_filter]

theorem ag_sortUniq_nodup (n : Nat) (l : List Nat) : (sortUniq n l).Nodup :=
  List.Nodup.filter _ List.nodup_range

theorem ag_sortUniq_length (n : Nat) (l : List Nat) : (sortUniq n l).length ≤ n := by
  have := List.length_filter_le (fun j => l.contains j) (List.range n)
  simpa [sortUniq] using this

theorem ag_getN_map_range (n : Nat) (f : Nat → Nat) (j : Nat) (hj : j < n) :
    getN ((List.range n).map f) j = f j := by
  unfold getN
  rw [List.getD_eq_getElem _ _ (by simpa using hj)]
  simp

theorem ag_getI_map_range (n : Nat) (f : Nat → Int) (j : Nat) (hj : j < n) :
    getI ((List.range n).map f) j = f j := by
  unfold getI
  rw [List.getD_eq_getElem _ _ (by simpa using hj)]
  simp

/-! the coins of a party that follows the protocol -/

def pinOf (ins : List PartyIn) (i : Nat) : PartyIn := ins.getD i ⟨[], [], {}, {}⟩
def coefA (t : Nat) (pin : PartyIn) : List Int := (List.range (t + 1)).map (fun k => getI pin.strong (2 * k))
def coefB (t : Nat) (pin : PartyIn) : List Int := (List.range (t + 1)).map (fun k => getI pin.strong (2 * k + 1))
def comOf (G : Grp) (t : Nat) (pin : PartyIn) : List Int :=
  match commitList G (coefA t pin) (coefB t pin) with
  | .ok C => C
  | .error _ => []
def shA (G : Grp) (t : Nat) (pin : PartyIn) (x : Nat) : Int := evalShare G.q (coefA t pin) (x + 1)
def shB (G : Grp) (t : Nat) (pin : PartyIn) (x : Nat) : Int := evalShare G.q (coefB t pin) (x + 1)

theorem ag_coef_range (t : Nat) (pin : PartyIn) (hc : goodCoins G t pin) :
    (∀ c ∈ coefA t pin, 0 ≤ c ∧ c < G.q) ∧ (∀ c ∈ coefB t pin, 0 ≤ c ∧ c < G.q) ∧
    (coefA t pin).length = t + 1 ∧ (coefB t pin).length = t + 1 := by
  obtain ⟨hlen, hr⟩ := hc
  refine ⟨?_, ?_, by simp [coefA], by simp [coefB]⟩
  · intro c hc
    simp only [coefA, List.mem_map, List.mem_range] at hc
    obtain ⟨k, hk, rfl⟩ := hc
    unfold getI
    rw [List.getD_eq_getElem _ _ (by omega)]
    exact hr _ (List.getElem_mem _)
  · intro c hc
    simp only [coefB, List.mem_map, List.mem_range] at hc
    obtain ⟨k, hk, rfl⟩ := hc
    unfold getI
    rw [List.getD_eq_getElem _ _ (by omega)]
    exact hr _ (List.getElem_mem _)

/-- `gaList`/`hbList` and the products of `genDeal` are the Pedersen commitments `commitList` -/
theorem ag_ga_hb_commit (hG : ValidGrp G) (a b : List Int) (hlen : a.length = b.length)
    (ha : ∀ c ∈ a, 0 ≤ c ∧ c < G.q) (hb : ∀ c ∈ b, 0 ≤ c ∧ c < G.q) :
    ∃ ga hb, gaList G a = .ok ga ∧ hbList G b = .ok hb ∧
      commitList G a b = .ok (List.zipWith (fun x y => x * y % G.p) ga hb) := by
  induction a generalizing b with
  | nil =>
    cases b with
    | nil => exact ⟨[], [], rfl, rfl, rfl⟩
    | cons b0 bs => simp at hlen
  | cons a0 as ih =>
    cases b with
    | nil => simp at hlen
    | cons b0 bs =>
      obtain ⟨x, hx, -⟩ := fspowm_g hG a0 (natAbs_lt_of_range (ha a0 (by simp)))
      obtain ⟨y, hy, -⟩ := fspowm_h hG b0 (natAbs_lt_of_range (hb b0 (by simp)))
      obtain ⟨ga, hb', h1, h2, h3⟩ := ih bs (by simpa using hlen)
        (fun c hc => ha c (List.mem_cons_of_mem _ hc)) (fun c hc => hb c (List.mem_cons_of_mem _ hc))
      refine ⟨x :: ga, y :: hb', ?_, ?_, ?_⟩
      · simp only [gaList, hx, h1, bind, Except.bind, pure, Except.pure]
      · simp only [hbList, hy, h2, bind, Except.bind, pure, Except.pure]
      · simp only [commitList, pedS, hx, hy, h3, bind, Except.bind, pure, Except.pure,
          List.zipWith_cons_cons]

/-- what the commitments of a party with good coins satisfy -/
theorem ag_comOf_spec (hG : ValidGrp G) (t : Nat) (pin : PartyIn) (hc : goodCoins G t pin) :
    commitList G (coefA t pin) (coefB t pin) = .ok (comOf G t pin) ∧ (comOf G t pin).length = t + 1 ∧
    (∀ c ∈ comOf G t pin, Dkg.checkElement G c = true) := by
  have : Fact (Nat.Prime G.q.natAbs) := fact_q hG
  obtain ⟨ha, hb, hla, hlb⟩ := ag_coef_range (G := G) t pin hc
  obtain ⟨C, hC, hCl, hCv⟩ := commitList_val hG (coefA t pin) (coefB t pin) (hla.trans hlb.symm) ha hb
  have hcom : comOf G t pin = C := by simp [comOf, hC]
  rw [hcom]
  refine ⟨hC, by rw [hCl, hla], ?_⟩
  intro c hc
  obtain ⟨k, hk, rfl⟩ := List.getElem_of_mem hc
  obtain ⟨h0, h1, hv⟩ := hCv k (by omega)
  rw [List.getD_eq_getElem _ _ hk] at h0 h1 hv
  exact pl_checkElement_of_val hG _ _ _ h0 h1 hv

theorem ag_sh_range (hG : ValidGrp G) (t : Nat) (pin : PartyIn) (x : Nat) :
    absGe (shA G t pin x) G.q = false ∧ absGe (shB G t pin x) G.q = false ∧
    (shA G t pin x).natAbs < G.q.natAbs ∧ (shB G t pin x).natAbs < G.q.natAbs := by
  have h1 := evalShare_natAbs hG (coefA t pin) (x + 1)
  have h2 := evalShare_natAbs hG (coefB t pin) (x + 1)
  have h3 : ¬ G.q.natAbs ≤ (shA G t pin x).natAbs := by unfold shA; omega
  have h4 : ¬ G.q.natAbs ≤ (shB G t pin x).natAbs := by unfold shB; omega
  exact ⟨by simp [absGe, h3], by simp [absGe, h4], h1, h2⟩

/-! ### (7) the step functions of a party that follows the protocol -/

/-- the state after step 1(a), as far as the later steps look at it -/
structure Dealt (G : Grp) (n t i : Nat) (pin : PartyIn) (st : GenSt) : Prop where
  hn : st.n = n
  ht : st.t = t
  hi : st.i = i
  sfb : st.sfb = false
  C : st.C = (zeroRows n t).set i (comOf G t pin)
  s : st.s = (zeros n).set i (shA G t pin i)
  sp : st.sp = (zeros n).set i (shB G t pin i)
  srow : st.srow = (List.range n).map (shA G t pin)
  sprow : st.sprow = (List.range n).map (shB G t pin)

theorem ag_genDeal_honest (hG : ValidGrp G) (n t i : Nat) (pin : PartyIn) (hc : goodCoins G t pin) (hi : i < n) :
    ∃ st, genDeal G n t i false pin.strong pin.weak =
        .ok (st, (comOf G t pin).map (Op.bc none) ++ ((List.range n).filter (· ≠ i)).flatMap
          (fun j => [Op.pv j (getI st.srow j), Op.pv j (getI st.sprow j)]), .run) ∧
      Dealt G n t i pin st := by
  obtain ⟨ha, hb, hla, hlb⟩ := ag_coef_range (G := G) t pin hc
  obtain ⟨ga, hb', h1, h2, h3⟩ := ag_ga_hb_commit hG (coefA t pin) (coefB t pin) (hla.trans hlb.symm) ha hb
  have hcom := (ag_comOf_spec hG t pin hc).1
  rw [h3] at hcom
  injection hcom with hcom
  have hlen : ¬ pin.strong.length < 2 * (t + 1) := by
    have := hc.1
    omega
  unfold coefA at h1
  unfold coefB at h2
  unfold genDeal
  simp only [hlen, if_false, h1, h2, bind, Except.bind, pure, Except.pure, hcom]
  refine ⟨_, rfl, ?_⟩
  constructor <;> simp [shA, shB, coefA, coefB, ag_getI_map_range _ _ i hi]

theorem ag_pvs_sends (L : List Nat) (hL : L.Nodup) (i' : Nat) (a b : Nat → Int) :
    ((pvs (L.flatMap (fun j => [Op.pv j (a j), Op.pv j (b j)]))).filter (fun e => e.1 == i')).map (·.2) =
      if i' ∈ L then [a i', b i'] else [] := by
  induction L with
  | nil => simp [pvs]
  | cons j L ih =>
    have hnd := List.nodup_cons.mp hL
    simp only [List.flatMap_cons, List.cons_append, List.nil_append, pvs]
    by_cases hj : j = i'
    · subst hj
      simp [ih hnd.2, hnd.1]
    · have hj' : ¬ i' = j := fun e => hj e.symm
      simp [ih hnd.2, hj, hj']

theorem ag_bcs_sends (L : List Nat) (a b : Nat → Int) :
    bcs (L.flatMap (fun j => [Op.pv j (a j), Op.pv j (b j)])) = [] := by
  induction L with
  | nil => simp [bcs]
  | cons j L ih => simp [List.flatMap_cons, bcs, ih]

/-- step 1(b) for a party whose stored shares are in range -/
theorem ag_genVerify_spec (hG : ValidGrp G) (st : GenSt) (I : Inbox) (hb : I.b.length = st.n)
    (hp : I.p.length = st.n) (hC : st.C.length = st.n) (hs : st.s.length = st.n) (hsp : st.sp.length = st.n)
    (hsr : InR G.q st.s) (hspr : InR G.q st.sp) :
    ∃ (st' : GenSt) (I' : Inbox) (D : List Nat), genVerify G st I =
        .ok (st', I', D.map (fun (j : Nat) => Op.bc none (j : Int)) ++ [Op.bc none (st.n : Int)], .run) ∧
      st'.n = st.n ∧ st'.t = st.t ∧ st'.i = st.i ∧ st'.sfb = st.sfb ∧ st'.srow = st.srow ∧ st'.sprow = st.sprow ∧
      D.Nodup ∧ (∀ x ∈ D, x < st.n) ∧
      st'.cnt = (List.range st.n).map (fun j => if D.contains j then 1 else 0) ∧
      I'.b.length = st.n ∧ st'.C.length = st.n ∧
      (∀ k, k < st.n → k ≠ st.i →
        bsOf I' k = (reS G none (st.t + 1) (bsOf I k) [] false).2.1 ∧
        getRow st'.C k = padRow st.t (reS G none (st.t + 1) (bsOf I k) [] false).2.2) ∧
      bsOf I' st.i = bsOf I st.i ∧ getRow st'.C st.i = getRow st.C st.i ∧
      (∀ k v w a l, k < st.n → k ≠ st.i → (reS G none (st.t + 1) (bsOf I k) [] false).1 = false →
        psOf I k = [v, w] → absGe v G.q = false → absGe w G.q = false → pedS G v w = .ok (a, l) →
        commitProd G.p (st.i + 1) (padRow st.t (reS G none (st.t + 1) (bsOf I k) [] false).2.2) = .ok l →
        k ∉ D) ∧
      (∀ a l, pedS G (getI st.s st.i) (getI st.sp st.i) = .ok (a, l) →
        commitProd G.p (st.i + 1) (getRow st.C st.i) = .ok l → st.i ∉ D) ∧
      st'.complainers = (List.range st.n).map (fun j => if D.contains j then [st.i] else []) ∧
      InR G.q st'.s := by
  have hq : 0 < G.q := hG.vg.q_pos
  have hIb : ∀ j ∈ List.range st.n, j < I.b.length := fun j hj => by rw [hb]; exact List.mem_range.mp hj
  obtain ⟨g1, g2, g3⟩ := ag_genReadC_glob (G := G) st (List.range st.n) I hIb st.C []
  rcases h1 : genReadC G st (List.range st.n) I st.C [] with ⟨I1, C, cm1⟩
  rw [h1] at g1 g2 g3
  simp only at g1 g2 g3
  have hIp : ∀ j ∈ List.range st.n, j < I1.p.length := fun j hj => by
    rw [g2, hp]; exact List.mem_range.mp hj
  obtain ⟨k1, k2, k3, k4, k5⟩ := ag_genReadShares_glob G.q hq st (List.range st.n) I1 hIp st.s st.sp cm1
  rcases h2 : genReadShares G.q st (List.range st.n) I1 st.s st.sp cm1 with ⟨I2, s, sp, cm2⟩
  rw [h2] at k1 k2 k3 k4 k5
  simp only at k1 k2 k3 k4 k5
  obtain ⟨gs, cm3, h3, hm3⟩ := ag_genCheck4 hG st C s sp (k4 hsr) (k5 hspr) (List.range st.n) st.gs cm2
  refine ⟨{ st with C := C, s := s, sp := sp, gs := gs, cnt := (List.range st.n).map (fun j => if (sortUniq st.n cm3).contains j then 1 else 0), complainers := (List.range st.n).map (fun j => if (sortUniq st.n cm3).contains j then [st.i] else []), compl := [] },
    I2, sortUniq st.n cm3, ?_, rfl, rfl, rfl, rfl, rfl, rfl, ag_sortUniq_nodup _ _,
    fun x hx => ((ag_mem_sortUniq _ _ _).mp hx).1, rfl, ?_, ?_, ?_, ?_, ?_, ?_, ?_, rfl, k4 hsr⟩
  · unfold genVerify
    simp only [h1, h2, h3, bind, Except.bind, pure, Except.pure]
  · rw [show I2.b = I1.b from k1, g1, hb]
  · exact g3.trans hC
  · intro k hk hki
    have := ag_genReadC_hit (G := G) st k (List.range st.n) List.nodup_range I hIb st.C []
      (List.mem_range.mpr hk) hki
    rw [h1] at this
    obtain ⟨t1, t2, -⟩ := this
    refine ⟨?_, t2 (by rw [hC]; exact hk)⟩
    show I2.b.getD k [] = _
    rw [k1]
    exact t1
  · have := ag_genReadC_frame (G := G) st st.i (List.range st.n) I hIb st.C [] (Or.inr rfl)
    rw [h1] at this
    show I2.b.getD st.i [] = _
    rw [k1]
    exact this.1
  · have := ag_genReadC_frame (G := G) st st.i (List.range st.n) I hIb st.C [] (Or.inr rfl)
    rw [h1] at this
    exact this.2.1
  · intro k v w a l hk hki hre hps hv hw hped hcp hkD
    have hkm := ((ag_mem_sortUniq _ _ _).mp hkD).2
    have c1 := ag_genReadC_hit (G := G) st k (List.range st.n) List.nodup_range I hIb st.C []
      (List.mem_range.mpr hk) hki
    rw [h1] at c1
    obtain ⟨-, c12, c13⟩ := c1
    simp only at c12 c13
    have hps1 : psOf I1 k = [v, w] := by
      show I1.p.getD k [] = _
      rw [g2]
      exact hps
    have c2 := ag_genReadShares_hit G.q st k (List.range st.n) List.nodup_range I1 hIp st.s st.sp cm1
      (List.mem_range.mpr hk) hki v w hps1 hv hw (by rw [hs]; exact hk) (by rw [hsp]; exact hk)
    rw [h2] at c2
    obtain ⟨c21, c22, c23⟩ := c2
    simp only at c21 c22 c23
    rcases (hm3 k).mp hkm with h | ⟨-, h⟩
    · rw [c23, c13] at h
      simp [hre] at h
    · simp [chk4, c21, c22, hped, c12 (by rw [hC]; exact hk), hcp] at h
  · intro a l hped hcp hkD
    have hkm := ((ag_mem_sortUniq _ _ _).mp hkD).2
    have c1 := ag_genReadC_frame (G := G) st st.i (List.range st.n) I hIb st.C [] (Or.inr rfl)
    rw [h1] at c1
    obtain ⟨-, c12, c13⟩ := c1
    simp only at c12 c13
    have c2 := ag_genReadShares_frame G.q st st.i (List.range st.n) I1 hIp st.s st.sp cm1 (Or.inr rfl)
    rw [h2] at c2
    obtain ⟨c21, c22, c23⟩ := c2
    simp only at c21 c22 c23
    rcases (hm3 st.i).mp hkm with h | ⟨-, h⟩
    · rw [c23, c13] at h
      simp at h
    · simp [chk4, c21, c22, hped, c12, hcp] at h

/-- step 1(c) -/
theorem ag_genCollect_spec (st : GenSt) (I : Inbox) (hb : I.b.length = st.n) (hcnt : st.cnt.length = st.n) :
    ∃ (st' : GenSt) (I' : Inbox) (cfs : List Nat), genCollect st I =
        (st', I', (if getN st'.cnt st.i > 0 then cfs.flatMap (fun (it : Nat) =>
            [Op.bc none (it : Int), Op.bc none (getI st.srow it), Op.bc none (getI st.sprow it)]) else []) ++
          [Op.bc none (st.n : Int)], .run) ∧
      st'.n = st.n ∧ st'.t = st.t ∧ st'.i = st.i ∧ st'.C = st.C ∧ st'.sfb = st.sfb ∧
      cfs.length ≤ st.n ∧ (∀ x ∈ cfs, x < st.n) ∧ I'.b.length = st.n ∧ st'.cnt.length = st.n ∧
      (∀ k, k < st.n → k ≠ st.i → bsOf I' k = rcRest st.n (bsOf I k)) ∧
      (∀ w, w < st.n → getN st'.cnt w = getN st.cnt w +
        (((List.range st.n).filter (fun x => x ≠ st.i)).map (fun x => (rcNews st.n (bsOf I x)).count w)).sum) ∧
      (∀ k, k ∈ st'.compl ↔ k < st.n ∧ k ≠ st.i ∧ rcBad st.n (bsOf I k) = true) ∧
      st'.complainers.length = st.complainers.length ∧
      (∀ k x, k < st.complainers.length → (x ∈ st'.complainers.getD k [] ↔
        x ∈ st.complainers.getD k [] ∨ (x < st.n ∧ x ≠ st.i ∧ k ∈ rcNews st.n (bsOf I x)))) ∧
      (∀ x, x ∈ cfs ↔ x < st.n ∧ x ≠ st.i ∧ st.i ∈ rcNews st.n (bsOf I x)) ∧ st'.s = st.s := by
  have hIb : ∀ j ∈ List.range st.n, j < I.b.length := fun j hj => by rw [hb]; exact List.mem_range.mp hj
  obtain ⟨g1, g2, g3⟩ := ag_genCollectGo_glob st (List.range st.n) I hIb st.cnt [] []
  have hcn := fun w (hw : w < st.n) => ag_genCollectGo_cnt st (List.range st.n) List.nodup_range I hIb st.cnt [] [] w
    (by rw [hcnt]; exact hw)
  have hhit := fun k (hk : k < st.n) (hki : k ≠ st.i) => ag_genCollectGo_hit st k (List.range st.n)
    List.nodup_range I hIb st.cnt [] [] (List.mem_range.mpr hk) hki
  have hfr := fun k (hk : k ∉ List.range st.n ∨ k = st.i) => ag_genCollectGo_frame st k (List.range st.n) I hIb
    st.cnt [] [] hk
  rcases h1 : genCollectGo st (List.range st.n) I st.cnt [] [] with ⟨I1, cnt, cf, cm⟩
  rw [h1] at g1 g2 g3 hcn hhit hfr
  simp only at g1 g2 g3 hcn hhit hfr
  have hcf := fun x => ag_genCollectGo_cf st (List.range st.n) List.nodup_range I hIb st.cnt [] [] x
  rw [h1] at hcf
  simp only at hcf
  refine ⟨{ st with cnt := cnt, cfrom := sortUniq st.n cf, complainers := genComplainers st (List.range st.n) I st.complainers, compl := cm }, I1, sortUniq st.n cf, ?_, rfl, rfl, rfl,
    rfl, rfl, ag_sortUniq_length _ _, fun x hx => ((ag_mem_sortUniq _ _ _).mp hx).1, g1.trans hb,
    g3.trans hcnt, fun k hk hki => (hhit k hk hki).1, hcn, ?_, ?_, ?_, ?_, rfl⟩
  · unfold genCollect
    simp only [h1]
  · intro k
    show k ∈ cm ↔ _
    by_cases hk : k < st.n
    · by_cases hki : k = st.i
      · have := (hfr k (Or.inr hki)).2
        rw [this]
        simp [hki]
      · have := (hhit k hk hki).2
        simp [this, hk, hki]
    · have := (hfr k (Or.inl (by simpa using hk))).2
      simp [this, hk]
  · by_cases h0 : 0 < st.complainers.length
    · exact (ag_genComplainers st (List.range st.n) I hIb st.complainers 0 0 h0).1
    · have : st.complainers = [] := List.eq_nil_of_length_eq_zero (by omega)
      show (genComplainers st (List.range st.n) I st.complainers).length = _
      rw [this]
      have hnil : ∀ L, genComplainers st L I [] = [] := by
        intro L
        induction L with
        | nil => rfl
        | cons j rest ih =>
          unfold genComplainers
          split
          · exact ih
          · have : ∀ (acc : List Nat), acc.foldl (fun (c : List (List Nat)) who => c.set who (c.getD who [] ++ [j])) [] = [] := by
              intro acc
              induction acc with
              | nil => rfl
              | cons w acc ih2 => simpa using ih2
            simp only [this]
            exact ih
      rw [hnil]
  · intro k x hk
    have := (ag_genComplainers st (List.range st.n) I hIb st.complainers k x hk).2
    simpa using this
  · intro x
    rw [ag_mem_sortUniq, hcf x]
    simp only [List.not_mem_nil, false_or, List.mem_range]
    constructor
    · rintro ⟨h1, -, h2, h3⟩
      exact ⟨h1, h2, h3⟩
    · rintro ⟨h1, h2, h3⟩
      exact ⟨h1, h1, h2, h3⟩

/-- steps 1(d) and 2: the set QUAL -/
theorem ag_genResolve_spec (hG : ValidGrp G) (st : GenSt) (I : Inbox) (hb : I.b.length = st.n)
    (hs : InR G.q st.s) :
    ∃ (st' : GenSt) (I' : Inbox) (ops : List Op) (status : Status),
      genResolve G st I = .ok (st', I', ops, status) ∧
      ∀ k, k ∈ st'.qual ↔ k < st.n ∧ ¬ (k ∈ st.compl ∨ st.t < getN st.cnt k ∨
        (k ≠ st.i ∧ (raBad G st.n (getRow st.C k) (bsOf I k) = true ∨ unB st k (bsOf I k) = true))) := by
  have hIb : ∀ j ∈ List.range st.n, j < I.b.length := fun j hj => by rw [hb]; exact List.mem_range.mp hj
  obtain ⟨I1, s, sp, cm, h1, hin, hm⟩ := ag_genResolveGo hG st (List.range st.n) List.nodup_range I hIb st.s st.sp st.compl
  obtain ⟨gs, hgs⟩ := ag_gaList_total hG s (hin hs)
  have hq : ∀ k, k ∈ (List.range st.n).filter (fun j => !cm.contains j) ↔ k < st.n ∧ ¬ (k ∈ st.compl ∨
      st.t < getN st.cnt k ∨ (k ≠ st.i ∧ (raBad G st.n (getRow st.C k) (bsOf I k) = true ∨ unB st k (bsOf I k) = true))) := by
    intro k
    simp only [List.mem_filter, List.mem_range, Bool.not_eq_true', List.contains_eq_mem,
      decide_eq_false_iff_not, hm k]
    constructor
    · rintro ⟨hk, h⟩
      refine ⟨hk, fun h2 => h ?_⟩
      rcases h2 with h2 | h2 | h2
      · exact Or.inl h2
      · exact Or.inr ⟨hk, Or.inl h2⟩
      · exact Or.inr ⟨hk, Or.inr h2⟩
    · rintro ⟨hk, h⟩
      refine ⟨hk, fun h2 => h ?_⟩
      rcases h2 with h2 | ⟨-, h2 | h2⟩
      · exact Or.inl h2
      · exact Or.inr (Or.inl h2)
      · exact Or.inr (Or.inr h2)
  unfold genResolve
  simp only [h1, hgs, bind, Except.bind, pure, Except.pure]
  split
  · exact ⟨_, _, _, _, rfl, hq⟩
  · split
    · exact ⟨_, _, _, _, rfl, hq⟩
    · split
      · exact ⟨_, _, _, _, rfl, hq⟩
      · exact ⟨_, _, _, _, rfl, hq⟩

/-! ### (8) one round of a party that follows the protocol -/

theorem ag_rcS_nodup (n : Nat) (f it : Nat) (dup : List Nat) (s : List (Tag × Int)) :
    (rcS n f it dup s).1.Nodup ∧ ∀ x ∈ (rcS n f it dup s).1, x ∉ dup := by
  induction f generalizing it dup s with
  | zero => simp [rcS]
  | succ f ih =>
    unfold rcS
    rcases popS none s with ⟨_ | v, s1⟩
    · simp
    · simp only
      split
      · rename_i h1
        split
        · obtain ⟨i1, i2⟩ := ih (it + 1) (dup ++ [getUi v]) s1
          simp only [List.nodup_cons, List.mem_cons]
          refine ⟨⟨fun hm => ?_, i1⟩, ?_⟩
          · have := i2 _ hm
            simp at this
          · rintro x (rfl | hx)
            · simpa using h1.2
            · have := i2 x hx
              simp only [List.mem_append, not_or] at this
              exact this.1
        · simp only [List.nodup_cons, List.not_mem_nil, not_false_eq_true, List.nodup_nil, and_self,
            List.mem_singleton, true_and]
          rintro x rfl
          simpa using h1.2
      · split
        · split
          · exact ih (it + 1) dup s1
          · simp
        · simp

theorem ag_rcNews_count_le (n : Nat) (s : List (Tag × Int)) (w : Nat) : (rcNews n s).count w ≤ 1 :=
  List.nodup_iff_count_le_one.mp (ag_rcS_nodup n (n + 1) 0 [] s).1 w

/-- a live party that follows the protocol takes its step; what it holds after the deliveries -/
theorem ag_honest_round {σ} (steps : Nat → Step σ) (R : List (Party σ)) (i : Nat) (P : Party σ)
    (hP : R[i]? = some P) (hl : HL P) (st : σ) (I : Inbox) (ops : List Op) (status : Status)
    (hs : steps i P.st P.inbox = .ok (st, I, ops, status)) :
    outOf steps R i = (bcs ops, pvs ops) ∧
    ∃ P', (runRound steps R)[i]? = some P' ∧ P'.st = st ∧ P'.status = status ∧ P'.err = none ∧
      P'.dev = P.dev ∧ P'.fs.dead = false ∧ P'.inbox.b.length = I.b.length ∧ P'.inbox.p.length = I.p.length ∧
      (∀ k, k < I.b.length → bsOf P'.inbox k = bsOf I k ++ (if k = i then [] else (outOf steps R k).1)) ∧
      (∀ k, k < I.p.length → psOf P'.inbox k = psOf I k ++
        (if k = i then [] else ((outOf steps R k).2.filter (fun e => e.1 == i)).map (·.2))) := by
  obtain ⟨fs, hfs, hsp⟩ := ag_stepParty_honest R.length (steps i) P hl st I ops status hs
  obtain ⟨P', hP', hd⟩ := ag_runRound_party steps R i P hP
  rw [hsp] at hd
  refine ⟨by simp [outOf, hP, hsp], P', hP', hd.st, hd.status, ?_, hd.dev, ?_, hd.blen, hd.plen, hd.b, ?_⟩
  · rw [hd.err]; exact hl.2.2.1
  · rw [hd.fs]; exact hfs
  · intro k hk
    exact hd.p k hk (ag_honest_unpack P.dev hl.1).2.2.2.1

/-! ### (9) the run: initial parties, the honest parties -/

theorem ag_mem_honestIdx (ins : List PartyIn) (i : Nat) :
    i ∈ honestIdx ins ↔ i < ins.length ∧ (pinOf ins i).dev1.honest = true := by
  simp [honestIdx, pinOf, List.mem_filter]

/-- the parties before round 0 -/
def ps0 (n t : Nat) (ins : List PartyIn) : List (Party GenSt) :=
  (List.range n).zip ins |>.map (fun (i, pin) =>
    { dev := pin.dev1, piCnt := List.replicate n 0, inbox := Inbox.empty n,
      st := { n := n, t := t, i := i, sfb := pin.dev1.sfb } })

theorem ag_runGen_eq (n t : Nat) (ins : List PartyIn) :
    runGen G n t ins = runRounds (genStep G ins n t) (List.range (6 + t + 1)) (ps0 n t ins) := rfl

theorem ag_ps0_length (n t : Nat) (ins : List PartyIn) (hn : ins.length = n) : (ps0 n t ins).length = n := by
  simp [ps0, hn]

theorem ag_ps0_getElem? (n t : Nat) (ins : List PartyIn) (hn : ins.length = n) (i : Nat) (hi : i < n) :
    (ps0 n t ins)[i]? = some { dev := (pinOf ins i).dev1, piCnt := List.replicate n 0, inbox := Inbox.empty n, st := { n := n, t := t, i := i, sfb := (pinOf ins i).dev1.sfb } } := by
  have h := ag_zipRange_getElem? ins 0 i
  rw [← List.range_eq_range', hn] at h
  unfold ps0
  rw [List.getElem?_map, h]
  have hi' : i < ins.length := by omega
  simp [pinOf, List.getElem?_eq_getElem hi']

/-- the hypotheses of the agreement theorems -/
structure Setting (G : Grp) (n t : Nat) (ins : List PartyIn) : Prop where
  hG : ValidGrp G
  hn : ins.length = n
  hc : ∀ i ∈ honestIdx ins, goodCoins G t (pinOf ins i)

/-- agreement of two honest parties on the unread values of every third sender -/
def Ag (n : Nat) (ins : List PartyIn) (R : List (Party GenSt)) : Prop :=
  ∀ i i' P P', i ∈ honestIdx ins → i' ∈ honestIdx ins → R[i]? = some P → R[i']? = some P' →
    ∀ k, k < n → k ≠ i → k ≠ i' → bsOf P.inbox k = bsOf P'.inbox k

/-- after round 0 -/
structure S1 (G : Grp) (n t : Nat) (ins : List PartyIn) (i : Nat) (P : Party GenSt) : Prop where
  hl : HL P
  dealt : Dealt G n t i (pinOf ins i) P.st
  blen : P.inbox.b.length = n
  plen : P.inbox.p.length = n
  fromH : ∀ j, j ∈ honestIdx ins → j ≠ i →
    bsOf P.inbox j = (comOf G t (pinOf ins j)).map (fun v => ((none : Tag), v)) ∧
    psOf P.inbox j = [shA G t (pinOf ins j) i, shB G t (pinOf ins j) i]

def Inv1 (G : Grp) (n t : Nat) (ins : List PartyIn) (R : List (Party GenSt)) : Prop :=
  R.length = n ∧ (∀ i, i ∈ honestIdx ins → ∃ P, R[i]? = some P ∧ S1 G n t ins i P) ∧ Ag n ins R

theorem ag_bsOf_empty (n k : Nat) : bsOf (Inbox.empty n) k = [] := by
  unfold bsOf Inbox.empty
  simp only [List.getD_eq_getElem?_getD, List.getElem?_replicate]
  split <;> rfl

theorem ag_psOf_empty (n k : Nat) : psOf (Inbox.empty n) k = [] := by
  unfold psOf Inbox.empty
  simp only [List.getD_eq_getElem?_getD, List.getElem?_replicate]
  split <;> rfl

theorem ag_round0 (S : Setting G n t ins) : Inv1 G n t ins (runRound (genStep G ins n t 0) (ps0 n t ins)) := by
  have hstep : ∀ i, i ∈ honestIdx ins → ∃ P st,
      (ps0 n t ins)[i]? = some P ∧ HL P ∧ P.inbox = Inbox.empty n ∧ Dealt G n t i (pinOf ins i) st ∧
      genStep G ins n t 0 i P.st P.inbox = .ok (st, Inbox.empty n,
        (comOf G t (pinOf ins i)).map (Op.bc none) ++ ((List.range n).filter (· ≠ i)).flatMap
          (fun j => [Op.pv j (getI st.srow j), Op.pv j (getI st.sprow j)]), .run) := by
    intro i hi
    obtain ⟨hi1, hi2⟩ := (ag_mem_honestIdx ins i).mp hi
    rw [S.hn] at hi1
    obtain ⟨st, hst, hd⟩ := ag_genDeal_honest S.hG n t i (pinOf ins i) (S.hc i hi) hi1
    refine ⟨_, st, ag_ps0_getElem? n t ins S.hn i hi1, ⟨hi2, rfl, rfl, rfl⟩, rfl, hd, ?_⟩
    have hsfb := (ag_honest_unpack _ hi2).1
    simp only [genStep]
    show (do
      let (st1, ops, s) ← genDeal G n t i (pinOf ins i).dev1.sfb (pinOf ins i).strong (pinOf ins i).weak
      pure (st1, Inbox.empty n, ops, s)) = _
    rw [hsfb, hst]
    rfl
  refine ⟨by rw [ag_runRound_length, ag_ps0_length n t ins S.hn], ?_, ?_⟩
  · intro i hi
    obtain ⟨P, st, hP, hl, hI, hd, hs⟩ := hstep i hi
    obtain ⟨-, P', hP', e1, e2, e3, e4, e5, e6, e7, e8, e9⟩ :=
      ag_honest_round (genStep G ins n t 0) (ps0 n t ins) i P hP hl _ _ _ _ hs
    have hbl : (Inbox.empty n).b.length = n := by simp [Inbox.empty]
    have hpl : (Inbox.empty n).p.length = n := by simp [Inbox.empty]
    refine ⟨P', hP', ⟨⟨by rw [e4]; exact hl.1, e5, e3, e2⟩, by rw [e1]; exact hd, e6.trans hbl, e7.trans hpl, ?_⟩⟩
    intro j hj hji
    obtain ⟨hj1, hj2⟩ := (ag_mem_honestIdx ins j).mp hj
    rw [S.hn] at hj1
    obtain ⟨hi1, -⟩ := (ag_mem_honestIdx ins i).mp hi
    rw [S.hn] at hi1
    obtain ⟨Pj, stj, hPj, hlj, hIj, hdj, hsj⟩ := hstep j hj
    have hout := (ag_honest_round (genStep G ins n t 0) (ps0 n t ins) j Pj hPj hlj _ _ _ _ hsj).1
    constructor
    · rw [e8 j (by rw [hbl]; exact hj1), ag_bsOf_empty, hout]
      simp [hji, ag_bcs_append, ag_bcs_map_bc, ag_bcs_sends]
    · rw [e9 j (by rw [hpl]; exact hj1), ag_psOf_empty, hout]
      simp only [hji, if_false, List.nil_append, ag_pvs_append, ag_pvs_map_bc]
      rw [ag_pvs_sends _ (List.Nodup.filter _ List.nodup_range)]
      have : i ∈ (List.range n).filter (· ≠ j) := by
        simp [List.mem_filter, hi1, Ne.symm hji]
      rw [if_pos this, hdj.srow, hdj.sprow, ag_getI_map_range _ _ i hi1, ag_getI_map_range _ _ i hi1]
  · intro i i' P1 P1' hi hi' hP1 hP1' k hk hki hki'
    obtain ⟨P, st, hP, hl, hI, hd, hs⟩ := hstep i hi
    obtain ⟨-, P', hP', e1, e2, e3, e4, e5, e6, e7, e8, e9⟩ :=
      ag_honest_round (genStep G ins n t 0) (ps0 n t ins) i P hP hl _ _ _ _ hs
    obtain ⟨Q, stq, hQ, hlq, hIq, hdq, hsq⟩ := hstep i' hi'
    obtain ⟨-, Q', hQ', f1, f2, f3, f4, f5, f6, f7, f8, f9⟩ :=
      ag_honest_round (genStep G ins n t 0) (ps0 n t ins) i' Q hQ hlq _ _ _ _ hsq
    rw [hP'] at hP1
    rw [hQ'] at hP1'
    injection hP1 with hP1
    injection hP1' with hP1'
    subst hP1 hP1'
    have hbl : (Inbox.empty n).b.length = n := by simp [Inbox.empty]
    rw [e8 k (by rw [hbl]; exact hk), f8 k (by rw [hbl]; exact hk)]
    simp [hki, hki']

/-! ### (10) round 1: the commitments, the shares, the complaints -/

theorem ag_nodup_lt_length (n : Nat) (D : List Nat) (hnd : D.Nodup) (hD : ∀ x ∈ D, x < n) : D.length ≤ n := by
  have h : D ⊆ List.range n := fun x hx => List.mem_range.mpr (hD x hx)
  have := (List.Nodup.subperm hnd h).length_le
  simpa using this

theorem ag_bcs_map_nat (D : List Nat) (n : Nat) :
    bcs (D.map (fun (j : Nat) => Op.bc none (j : Int)) ++ [Op.bc none (n : Int)]) =
      D.map (fun (j : Nat) => ((none : Tag), (j : Int))) ++ [((none : Tag), (n : Int))] := by
  induction D with
  | nil => rfl
  | cons x D ih => simp only [List.map_cons, List.cons_append, bcs, ih]

theorem ag_padRow_full (t : Nat) (l : List Int) (h : l.length = t + 1) : padRow t l = l := by
  simp [padRow, h, zeros]

theorem ag_InR_zeros_set (q : Int) (hq : 0 < q) (n i : Nat) (v : Int) (hv : v.natAbs < q.natAbs) :
    InR q ((zeros n).set i v) := by
  apply ag_InR_set _ _ _ _ _ hv
  intro x hx
  simp only [zeros, List.mem_replicate] at hx
  rw [hx.2]
  simp; omega

theorem ag_count_indicator (D : List Nat) (hnd : D.Nodup) (w : Nat) :
    D.count w = if D.contains w then 1 else 0 := by
  by_cases h : w ∈ D
  · simp [h, List.count_eq_one_of_mem hnd h]
  · simp [h, List.count_eq_zero_of_not_mem h]

/-- step 1(b) of an honest party in the state reached after round 0 -/
theorem ag_verify_honest (S : Setting G n t ins) (i : Nat) (hi : i ∈ honestIdx ins) (P : Party GenSt)
    (h1 : S1 G n t ins i P) :
    ∃ (st' : GenSt) (I' : Inbox) (D : List Nat), genStep G ins n t 1 i P.st P.inbox =
        .ok (st', I', D.map (fun (j : Nat) => Op.bc none (j : Int)) ++ [Op.bc none (n : Int)], .run) ∧
      st'.n = n ∧ st'.t = t ∧ st'.i = i ∧
      st'.srow = (List.range n).map (shA G t (pinOf ins i)) ∧
      st'.sprow = (List.range n).map (shB G t (pinOf ins i)) ∧
      D.Nodup ∧ (∀ x ∈ D, x < n) ∧
      st'.cnt = (List.range n).map (fun j => if D.contains j then 1 else 0) ∧
      I'.b.length = n ∧ I'.p.length = I'.p.length ∧
      (∀ k, k < n → k ≠ i →
        bsOf I' k = (reS G none (t + 1) (bsOf P.inbox k) [] false).2.1 ∧
        getRow st'.C k = padRow t (reS G none (t + 1) (bsOf P.inbox k) [] false).2.2) ∧
      (∀ j, j ∈ honestIdx ins → getRow st'.C j = comOf G t (pinOf ins j) ∧ j ∉ D) ∧
      (∀ j, j ∈ honestIdx ins → j ≠ i → bsOf I' j = []) ∧
      st'.complainers = (List.range n).map (fun j => if D.contains j then [i] else []) ∧
      InR G.q st'.s := by
  have hG := S.hG
  have : Fact (Nat.Prime G.q.natAbs) := fact_q hG
  have hq : 0 < G.q := hG.vg.q_pos
  obtain ⟨hi1, -⟩ := (ag_mem_honestIdx ins i).mp hi
  rw [S.hn] at hi1
  have hd := h1.dealt
  have hshare : ∀ j, j ∈ honestIdx ins → ∃ a l, pedS G (shA G t (pinOf ins j) i) (shB G t (pinOf ins j) i) = .ok (a, l) ∧
      commitProd G.p (i + 1) (comOf G t (pinOf ins j)) = .ok l := by
    intro j hj
    obtain ⟨ha, hb, hla, hlb⟩ := ag_coef_range (G := G) t (pinOf ins j) (S.hc j hj)
    obtain ⟨ga, l, r, e1, e2, e3⟩ := share_check hG _ _ (hla.trans hlb.symm) ha hb _
      (ag_comOf_spec hG t (pinOf ins j) (S.hc j hj)).1 (i + 1)
    exact ⟨ga, l, e1, by rw [e2, e3]⟩
  obtain ⟨st', I', D, hv, v1, v2, v3, v4, v5, v6, v7, v8, v9, v10, v11, v12, v13, v14, v15, v16, v17, v18⟩ :=
    ag_genVerify_spec hG P.st P.inbox (by rw [h1.blen, hd.hn]) (by rw [h1.plen, hd.hn])
      (by rw [hd.C, hd.hn]; simp [zeroRows]) (by rw [hd.s, hd.hn]; simp [zeros]) (by rw [hd.sp, hd.hn]; simp [zeros])
      (by rw [hd.s]; exact ag_InR_zeros_set G.q hq n i _ (ag_sh_range hG t _ i).2.2.1)
      (by rw [hd.sp]; exact ag_InR_zeros_set G.q hq n i _ (ag_sh_range hG t _ i).2.2.2)
  simp only [hd.hn, hd.ht, hd.hi] at hv v1 v2 v3 v8 v9 v10 v11 v12 v13 v14 v15 v16 v17
  have hrow : ∀ j, j ∈ honestIdx ins → j ≠ i →
      reS G none (t + 1) (bsOf P.inbox j) [] false = (false, [], comOf G t (pinOf ins j)) := by
    intro j hj hji
    obtain ⟨c1, c2, c3⟩ := ag_comOf_spec hG t (pinOf ins j) (S.hc j hj)
    rw [(h1.fromH j hj hji).1, ← c2]
    have := ag_reS_honest (G := G) (comOf G t (pinOf ins j)) c3 [] [] false
    simpa using this
  have hnotD : ∀ j, j ∈ honestIdx ins → j ∉ D := by
    intro j hj
    obtain ⟨hj1, -⟩ := (ag_mem_honestIdx ins j).mp hj
    rw [S.hn] at hj1
    obtain ⟨a, l, e1, e2⟩ := hshare j hj
    by_cases hji : j = i
    · subst hji
      refine v16 a l ?_ ?_
      · rw [hd.s, hd.sp, ag_getI_set, ag_getI_set]
        simpa [zeros, hj1] using e1
      · rw [hd.C, ag_getRow_set]
        simpa [zeroRows, hj1] using e2
    · have hr := hrow j hj hji
      refine v15 j _ _ a l hj1 hji (by rw [hr]) (h1.fromH j hj hji).2 (ag_sh_range hG t _ i).1
        (ag_sh_range hG t _ i).2.1 e1 ?_
      rw [hr, ag_padRow_full t _ (ag_comOf_spec hG t (pinOf ins j) (S.hc j hj)).2.1]
      exact e2
  refine ⟨st', I', D, hv, v1, v2, v3, by rw [v5, hd.srow], by rw [v6, hd.sprow], v7, v8, v9, v10, rfl,
    v12, ?_, ?_, v17, v18⟩
  · intro j hj
    refine ⟨?_, hnotD j hj⟩
    obtain ⟨hj1, -⟩ := (ag_mem_honestIdx ins j).mp hj
    rw [S.hn] at hj1
    by_cases hji : j = i
    · subst hji
      rw [v14, hd.C, ag_getRow_set]
      simp [zeroRows, hj1]
    · rw [(v12 j hj1 hji).2, hrow j hj hji, ag_padRow_full t _ (ag_comOf_spec hG t (pinOf ins j) (S.hc j hj)).2.1]
  · intro j hj hji
    obtain ⟨hj1, -⟩ := (ag_mem_honestIdx ins j).mp hj
    rw [S.hn] at hj1
    rw [(v12 j hj1 hji).1, hrow j hj hji]

/-- after round 1 -/
structure S2 (G : Grp) (n t : Nat) (ins : List PartyIn) (i : Nat) (P : Party GenSt) : Prop where
  hl : HL P
  hn : P.st.n = n
  ht : P.st.t = t
  hi : P.st.i = i
  srow : P.st.srow = (List.range n).map (shA G t (pinOf ins i))
  sprow : P.st.sprow = (List.range n).map (shB G t (pinOf ins i))
  blen : P.inbox.b.length = n
  clen : P.st.cnt.length = n
  CH : ∀ j, j ∈ honestIdx ins → getRow P.st.C j = comOf G t (pinOf ins j) ∧ getN P.st.cnt j = 0
  cplen : P.st.complainers.length = n
  cps : ∀ k, k < n → ∀ c, c ∈ P.st.complainers.getD k [] ↔ c = i ∧ 0 < getN P.st.cnt k
  sIn : InR G.q P.st.s

/-- two honest parties after round 1: the commitments of third parties agree, and the complaint
    list `i` broadcast is read by `i'` as the complaints `i` counted for itself -/
def Cross2 (n : Nat) (i : Nat) (P P' : Party GenSt) : Prop :=
  rcBad n (bsOf P'.inbox i) = false ∧ rcRest n (bsOf P'.inbox i) = [] ∧
  ∀ w, w < n → (rcNews n (bsOf P'.inbox i)).count w = getN P.st.cnt w

def Inv2 (G : Grp) (n t : Nat) (ins : List PartyIn) (R : List (Party GenSt)) : Prop :=
  R.length = n ∧ (∀ i, i ∈ honestIdx ins → ∃ P, R[i]? = some P ∧ S2 G n t ins i P) ∧ Ag n ins R ∧
  (∀ i i' P P', i ∈ honestIdx ins → i' ∈ honestIdx ins → R[i]? = some P → R[i']? = some P' → i ≠ i' →
    (∀ k, k < n → k ≠ i → k ≠ i' → getRow P.st.C k = getRow P'.st.C k) ∧ Cross2 n i P P')

/-- round 1 for one honest party: its step and the party after the round -/
theorem ag_round1_party (S : Setting G n t ins) (R : List (Party GenSt)) (h : Inv1 G n t ins R)
    (i : Nat) (hi : i ∈ honestIdx ins) :
    ∃ (P : Party GenSt) (st' : GenSt) (I' : Inbox) (D : List Nat) (P' : Party GenSt),
    R[i]? = some P ∧ S1 G n t ins i P ∧
    (runRound (genStep G ins n t 1) R)[i]? = some P' ∧
    outOf (genStep G ins n t 1) R i =
      (D.map (fun (j : Nat) => ((none : Tag), (j : Int))) ++ [((none : Tag), (n : Int))], []) ∧
    P'.st = st' ∧ HL P' ∧ P'.inbox.b.length = n ∧
    (∀ k, k < n → bsOf P'.inbox k = bsOf I' k ++
      (if k = i then [] else (outOf (genStep G ins n t 1) R k).1)) ∧
    st'.n = n ∧ st'.t = t ∧ st'.i = i ∧
    st'.srow = (List.range n).map (shA G t (pinOf ins i)) ∧
    st'.sprow = (List.range n).map (shB G t (pinOf ins i)) ∧
    D.Nodup ∧ (∀ x ∈ D, x < n) ∧
    st'.cnt = (List.range n).map (fun j => if D.contains j then 1 else 0) ∧
    (∀ k, k < n → k ≠ i →
      bsOf I' k = (reS G none (t + 1) (bsOf P.inbox k) [] false).2.1 ∧
      getRow st'.C k = padRow t (reS G none (t + 1) (bsOf P.inbox k) [] false).2.2) ∧
    (∀ j, j ∈ honestIdx ins → getRow st'.C j = comOf G t (pinOf ins j) ∧ j ∉ D) ∧
    (∀ j, j ∈ honestIdx ins → j ≠ i → bsOf I' j = []) ∧
    st'.complainers = (List.range n).map (fun j => if D.contains j then [i] else []) ∧
    InR G.q st'.s := by
  obtain ⟨hlen, hS, hAg⟩ := h
  obtain ⟨P, hP, h1⟩ := hS i hi
  obtain ⟨st', I', D, hv, v1, v2, v3, v4, v5, v6, v7, v8, v9, -, v11, v12, v13, v14, v15⟩ := ag_verify_honest S i hi P h1
  obtain ⟨hout, P', hP', e1, e2, e3, e4, e5, e6, e7, e8, e9⟩ :=
    ag_honest_round (genStep G ins n t 1) R i P hP h1.hl _ _ _ _ hv
  refine ⟨P, st', I', D, P', hP, h1, hP', ?_, e1, ⟨by rw [e4]; exact h1.hl.1, e5, e3, e2⟩, e6.trans v9,
    fun k hk => e8 k (by rw [v9]; exact hk), v1, v2, v3, v4, v5, v6, v7, v8, v11, v12, v13, v14, v15⟩
  rw [hout, ag_bcs_map_nat]
  congr 1
  rw [ag_pvs_append]
  have : ∀ (L : List Nat), pvs (L.map (fun (j : Nat) => Op.bc none (j : Int))) = [] := by
    intro L
    induction L with
    | nil => rfl
    | cons x L ih => simp [pvs, ih]
  simp [this, pvs]

/-- round 1: the state of every honest party (no bound on `n` needed) -/
theorem ag_round1_S2 (S : Setting G n t ins) (R : List (Party GenSt)) (h : Inv1 G n t ins R)
    (i : Nat) (hi : i ∈ honestIdx ins) :
    ∃ P, (runRound (genStep G ins n t 1) R)[i]? = some P ∧ S2 G n t ins i P := by
  have hparty := ag_round1_party S R h
  obtain ⟨P, st', I', D, P', hP, h1, hP', hout, e1, hl', bl, hb, v1, v2, v3, v4, v5, v6, v7, v8, v11, v12, v13, v14, v15⟩ :=
    hparty i hi
  refine ⟨P', hP', ⟨hl', by rw [e1]; exact v1, by rw [e1]; exact v2, by rw [e1]; exact v3,
    by rw [e1]; exact v4, by rw [e1]; exact v5, bl, by rw [e1, v8]; simp, ?_, by rw [e1, v14]; simp, ?_,
    by rw [e1]; exact v15⟩⟩
  · intro j hj
    obtain ⟨hj1, -⟩ := (ag_mem_honestIdx ins j).mp hj
    rw [S.hn] at hj1
    rw [e1]
    refine ⟨(v12 j hj).1, ?_⟩
    rw [v8, ag_getN_map_range _ _ j hj1]
    have := (v12 j hj).2
    simp [this]
  · intro k hk c
    rw [e1, v14, v8, ag_getN_map_range _ _ k hk]
    have : ((List.range n).map (fun j => if D.contains j then [i] else [])).getD k [] =
        if D.contains k then [i] else [] := by
      rw [List.getD_eq_getElem _ _ (by simpa using hk)]
      simp
    rw [this]
    by_cases hD : k ∈ D
    · simp [hD]
    · simp [hD]

theorem ag_round1 (S : Setting G n t ins) (hn64 : n < 2 ^ 64) (R : List (Party GenSt)) (h : Inv1 G n t ins R) :
    Inv2 G n t ins (runRound (genStep G ins n t 1) R) := by
  have hparty := ag_round1_party S R h
  have hS2 := ag_round1_S2 S R h
  obtain ⟨hlen, hS, hAg⟩ := h
  refine ⟨by rw [ag_runRound_length, hlen], ?_, ?_, ?_⟩
  · exact hS2
  · intro i i' P1 P1' hi hi' hP1 hP1' k hk hki hki'
    obtain ⟨P, st', I', D, P', hP, h1, hP', hout, e1, hl', bl, hb, v1, v2, v3, v4, v5, v6, v7, v8, v11, v12, v13, v14, v15⟩ :=
      hparty i hi
    obtain ⟨Q, stq, Iq, Dq, Q', hQ, hq1, hQ', houtq, f1, hlq', blq, hbq, w1, w2, w3, w4, w5, w6, w7, w8, w11, w12, w13, w14, w15⟩ :=
      hparty i' hi'
    rw [hP'] at hP1
    rw [hQ'] at hP1'
    injection hP1 with hP1
    injection hP1' with hP1'
    subst hP1 hP1'
    rw [hb k hk, hbq k hk, (v11 k hk hki).1, (w11 k hk hki').1, hAg i i' P Q hi hi' hP hQ k hk hki hki']
    simp [hki, hki']
  · intro i i' P1 P1' hi hi' hP1 hP1' hne
    obtain ⟨P, st', I', D, P', hP, h1, hP', hout, e1, hl', bl, hb, v1, v2, v3, v4, v5, v6, v7, v8, v11, v12, v13, v14, v15⟩ :=
      hparty i hi
    obtain ⟨Q, stq, Iq, Dq, Q', hQ, hq1, hQ', houtq, f1, hlq', blq, hbq, w1, w2, w3, w4, w5, w6, w7, w8, w11, w12, w13, w14, w15⟩ :=
      hparty i' hi'
    rw [hP'] at hP1
    rw [hQ'] at hP1'
    injection hP1 with hP1
    injection hP1' with hP1'
    subst hP1 hP1'
    obtain ⟨hi1, -⟩ := (ag_mem_honestIdx ins i).mp hi
    rw [S.hn] at hi1
    constructor
    · intro k hk hki hki'
      rw [e1, f1, (v11 k hk hki).2, (w11 k hk hki').2, hAg i i' P Q hi hi' hP hQ k hk hki hki']
    · have hstream : bsOf Q'.inbox i =
          D.map (fun (j : Nat) => ((none : Tag), (j : Int))) ++ [((none : Tag), (n : Int))] := by
        rw [hbq i hi1, w13 i hi hne, hout]
        simp [hne]
      have hrc := ag_rcS_honest n hn64 D (n + 1) 0 [] (by have := ag_nodup_lt_length n D v6 v7; omega)
        (by have := ag_nodup_lt_length n D v6 v7; omega) v7 v6 (by simp)
      refine ⟨?_, ?_, ?_⟩
      · simp [rcBad, hstream, hrc]
      · simp [rcRest, hstream, hrc]
      · intro w hw
        simp only [rcNews, hstream, hrc]
        rw [e1, v8, ag_getN_map_range _ _ w hw, ag_count_indicator D v6 w]

/-! ### (11) round 2: the complaint counters -/

theorem ag_sum_le_countP (L : List Nat) (f : Nat → Nat) (p : Nat → Bool) (h1 : ∀ x ∈ L, f x ≤ 1)
    (h0 : ∀ x ∈ L, p x = true → f x = 0) : (L.map f).sum ≤ L.countP (fun x => !p x) := by
  induction L with
  | nil => simp
  | cons a L ih =>
    have ih' := ih (fun x hx => h1 x (List.mem_cons_of_mem _ hx)) (fun x hx => h0 x (List.mem_cons_of_mem _ hx))
    simp only [List.map_cons, List.sum_cons, List.countP_cons]
    cases hp : p a
    · have := h1 a (by simp)
      simp
      omega
    · have := h0 a (by simp) hp
      simp
      omega

theorem ag_sum_filter_ne_notin (L : List Nat) (i : Nat) (hi : i ∉ L) (f : Nat → Nat) (g : Nat) :
    ((L.filter (fun x => x ≠ i)).map f).sum = (L.map (fun x => if x = i then g else f x)).sum := by
  induction L with
  | nil => simp
  | cons a L ih =>
    have hai : a ≠ i := fun e => hi (by simp [e])
    have hi' : i ∉ L := fun h => hi (List.mem_cons_of_mem _ h)
    rw [List.filter_cons_of_pos (by simp [hai])]
    simp only [List.map_cons, List.sum_cons, hai, if_false]
    rw [ih hi']

theorem ag_sum_filter_ne (L : List Nat) (hL : L.Nodup) (i : Nat) (hi : i ∈ L) (f : Nat → Nat) (g : Nat) :
    g + ((L.filter (fun x => x ≠ i)).map f).sum = (L.map (fun x => if x = i then g else f x)).sum := by
  induction L with
  | nil => simp at hi
  | cons a L ih =>
    have hnd := List.nodup_cons.mp hL
    by_cases hai : a = i
    · subst hai
      have := ag_sum_filter_ne_notin L a hnd.1 f g
      rw [List.filter_cons_of_neg (by simp)]
      simp only [List.map_cons, List.sum_cons, if_true]
      rw [this]
    · have hi' : i ∈ L := by
        rcases List.mem_cons.mp hi with h | h
        · exact absurd h.symm hai
        · exact h
      have := ih hnd.2 hi'
      rw [List.filter_cons_of_pos (by simp [hai])]
      simp only [List.map_cons, List.sum_cons, hai, if_false]
      omega

theorem ag_countP_nothonest (ins : List PartyIn) :
    (List.range ins.length).countP (fun x => !((pinOf ins x).dev1.honest)) =
      ins.length - (honestIdx ins).length := by
  have h := List.length_eq_countP_add_countP (fun x => (pinOf ins x).dev1.honest) (l := List.range ins.length)
  have h2 : (honestIdx ins).length = (List.range ins.length).countP (fun x => (pinOf ins x).dev1.honest) := by
    simp [honestIdx, pinOf, List.countP_eq_length_filter]
  simp only [List.length_range] at h
  have h3 : (List.range ins.length).countP (fun x => !((pinOf ins x).dev1.honest)) =
      (List.range ins.length).countP (fun a => ¬ (pinOf ins a).dev1.honest = true) := by
    apply List.countP_congr
    intro x _
    simp
  omega

theorem ag_le_sum_map (L : List Nat) (f : Nat → Nat) (x : Nat) (hx : x ∈ L) : f x ≤ (L.map f).sum := by
  induction L with
  | nil => simp at hx
  | cons a L ih =>
    simp only [List.map_cons, List.sum_cons]
    rcases List.mem_cons.mp hx with e | e
    · subst e; omega
    · have := ih e; omega

/-- after round 2 -/
structure S3 (G : Grp) (n t : Nat) (ins : List PartyIn) (i : Nat) (P : Party GenSt) : Prop where
  hl : HL P
  hn : P.st.n = n
  ht : P.st.t = t
  hi : P.st.i = i
  blen : P.inbox.b.length = n
  CH : ∀ j, j ∈ honestIdx ins →
    getRow P.st.C j = comOf G t (pinOf ins j) ∧ getN P.st.cnt j ≤ t ∧ j ∉ P.st.compl
  sIn : InR G.q P.st.s

def Inv3 (G : Grp) (n t : Nat) (ins : List PartyIn) (R : List (Party GenSt)) : Prop :=
  R.length = n ∧ (∀ i, i ∈ honestIdx ins → ∃ P, R[i]? = some P ∧ S3 G n t ins i P) ∧ Ag n ins R ∧
  (∀ i i' P P', i ∈ honestIdx ins → i' ∈ honestIdx ins → R[i]? = some P → R[i']? = some P' → i ≠ i' →
    (∀ k, k < n → k ≠ i → k ≠ i' →
      getRow P.st.C k = getRow P'.st.C k ∧ (k ∈ P.st.compl ↔ k ∈ P'.st.compl)) ∧
    (∀ w, w < n → getN P.st.cnt w = getN P'.st.cnt w) ∧
    raBad G n (comOf G t (pinOf ins i)) (bsOf P'.inbox i) = false ∧
    (∀ k, k < n → k ≠ i → k ≠ i' → ∀ c, c ∈ P.st.complainers.getD k [] ↔ c ∈ P'.st.complainers.getD k []) ∧
    (∀ c, c ∈ P'.st.complainers.getD i [] → c ∈ anS n (n + 1) (bsOf P'.inbox i) []))

theorem ag_bcs_triples (cfs : List Nat) (a b : Nat → Int) (n : Nat) :
    bcs (cfs.flatMap (fun (it : Nat) => [Op.bc none (it : Int), Op.bc none (a it), Op.bc none (b it)]) ++
      [Op.bc none (n : Int)]) =
    cfs.flatMap (fun (it : Nat) => [((none : Tag), (it : Int)), (none, a it), (none, b it)]) ++
      [((none : Tag), (n : Int))] := by
  induction cfs with
  | nil => rfl
  | cons x cfs ih => simp only [List.flatMap_cons, List.cons_append, List.nil_append, bcs, ih]

theorem ag_pvs_triples (cfs : List Nat) (a b : Nat → Int) (n : Nat) :
    pvs (cfs.flatMap (fun (it : Nat) => [Op.bc none (it : Int), Op.bc none (a it), Op.bc none (b it)]) ++
      [Op.bc none (n : Int)]) = [] := by
  induction cfs with
  | nil => rfl
  | cons x cfs ih => simp only [List.flatMap_cons, List.cons_append, List.nil_append, pvs, ih]

/-- round 2 for one honest party: its step and the party after the round -/
theorem ag_round2_party (hn : ins.length = n) (R : List (Party GenSt))
    (hS : ∀ i, i ∈ honestIdx ins → ∃ P, R[i]? = some P ∧ S2 G n t ins i P)
    (i : Nat) (hi : i ∈ honestIdx ins) :
    ∃ (P : Party GenSt) (st' : GenSt) (I' : Inbox) (cfs : List Nat) (P' : Party GenSt),
    R[i]? = some P ∧ S2 G n t ins i P ∧
    (runRound (genStep G ins n t 2) R)[i]? = some P' ∧
    (outOf (genStep G ins n t 2) R i).1 =
      cfs.flatMap (fun (it : Nat) => [((none : Tag), (it : Int)),
        (none, getI P.st.srow it), (none, getI P.st.sprow it)]) ++ [((none : Tag), (n : Int))] ∧
    cfs.length ≤ n ∧ (∀ x ∈ cfs, x < n) ∧
    P'.st = st' ∧ HL P' ∧ P'.inbox.b.length = n ∧
    (∀ k, k < n → bsOf P'.inbox k = bsOf I' k ++
      (if k = i then [] else (outOf (genStep G ins n t 2) R k).1)) ∧
    st'.n = n ∧ st'.t = t ∧ st'.i = i ∧ st'.C = P.st.C ∧
    (∀ k, k < n → k ≠ i → bsOf I' k = rcRest n (bsOf P.inbox k)) ∧
    (∀ w, w < n → getN st'.cnt w = getN P.st.cnt w +
      (((List.range n).filter (fun x => x ≠ i)).map (fun x => (rcNews n (bsOf P.inbox x)).count w)).sum) ∧
    (∀ k, k ∈ st'.compl ↔ k < n ∧ k ≠ i ∧ rcBad n (bsOf P.inbox k) = true) ∧
    st'.complainers.length = n ∧
    (∀ k, k < n → ∀ x, x ∈ st'.complainers.getD k [] ↔
      (x = i ∧ 0 < getN P.st.cnt k) ∨ (x < n ∧ x ≠ i ∧ k ∈ rcNews n (bsOf P.inbox x))) ∧
    (∀ x, x < n → x ≠ i → i ∈ rcNews n (bsOf P.inbox x) → x ∈ cfs) ∧
    InR G.q st'.s := by
  obtain ⟨P, hP, h2⟩ := hS i hi
  have hin : i < n := by
    have := ((ag_mem_honestIdx ins i).mp hi).1
    rwa [hn] at this
  obtain ⟨st', I', cfs, hc, c1, c2, c3, c4, c5, c6, c7, c8, c9, c10, c11, c12, c13, c14, c15, c16⟩ :=
    ag_genCollect_spec P.st P.inbox (by rw [h2.blen, h2.hn]) (by rw [h2.clen, h2.hn])
  simp only [h2.hn, h2.ht, h2.hi] at hc c1 c2 c3 c6 c7 c8 c9 c10 c11 c12 c14 c15
  generalize hops : ((if getN st'.cnt i > 0 then cfs.flatMap (fun (it : Nat) =>
          [Op.bc none (it : Int), Op.bc none (getI P.st.srow it), Op.bc none (getI P.st.sprow it)]) else []) ++
        [Op.bc none (n : Int)]) = ops at hc
  have hs : genStep G ins n t 2 i P.st P.inbox = .ok (st', I', ops, .run) := by
    show pure (genCollect P.st P.inbox) = _
    rw [hc]
    rfl
  obtain ⟨hout, P', hP', e1, e2, e3, e4, e5, e6, e7, e8, e9⟩ :=
    ag_honest_round (genStep G ins n t 2) R i P hP h2.hl _ _ _ _ hs
  subst hops
  refine ⟨P, st', I', if getN st'.cnt i > 0 then cfs else [], P', hP, h2, hP', ?_, ?_, ?_, e1,
    ⟨by rw [e4]; exact h2.hl.1, e5, e3, e2⟩, e6.trans c8, fun k hk => e8 k (by rw [c8]; exact hk),
    c1, c2, c3, c4, c10, c11, c12, c13.trans h2.cplen, ?_, ?_, by rw [c16]; exact h2.sIn⟩
  · rw [hout]
    simp only
    split
    · exact ag_bcs_triples cfs _ _ n
    · rfl
  · split
    · exact c6
    · simp
  · split
    · exact c7
    · simp
  · intro k hk x
    rw [c14 k x (by rw [h2.cplen]; exact hk), h2.cps k hk x]
  · intro x hx hxi hmem
    have hpos : 0 < getN st'.cnt i := by
      rw [c11 i hin]
      have h1 : 0 < (rcNews n (bsOf P.inbox x)).count i := List.count_pos_iff.mpr hmem
      have h2' := ag_le_sum_map ((List.range n).filter (fun y => y ≠ i))
        (fun y => (rcNews n (bsOf P.inbox y)).count i) x
        (List.mem_filter.mpr ⟨List.mem_range.mpr hx, by simpa using hxi⟩)
      omega
    rw [if_pos hpos]
    exact (c15 x).mpr ⟨hx, hxi, hmem⟩

theorem ag_round2 (S : Setting G n t ins) (hn64 : n < 2 ^ 64) (hf : n - (honestIdx ins).length ≤ t)
    (R : List (Party GenSt)) (h : Inv2 G n t ins R) : Inv3 G n t ins (runRound (genStep G ins n t 2) R) := by
  obtain ⟨hlen, hS, hAg, hX⟩ := h
  have hG := S.hG
  have hparty := ag_round2_party (G := G) S.hn R hS
  have hnh : (List.range n).countP (fun x => !((pinOf ins x).dev1.honest)) ≤ t := by
    have := ag_countP_nothonest ins
    rw [S.hn] at this
    omega
  refine ⟨by rw [ag_runRound_length, hlen], ?_, ?_, ?_⟩
  · intro i hi
    obtain ⟨P, st', I', cfs, P', hP, h2, hP', hout, cl, cx, e1, hl', bl, hb, v1, v2, v3, v4, v5, v6, v7, v8, v9, v10, v11⟩ :=
      hparty i hi
    refine ⟨P', hP', ⟨hl', by rw [e1]; exact v1, by rw [e1]; exact v2, by rw [e1]; exact v3, bl, ?_, by rw [e1]; exact v11⟩⟩
    intro j hj
    obtain ⟨hj1, -⟩ := (ag_mem_honestIdx ins j).mp hj
    rw [S.hn] at hj1
    rw [e1]
    refine ⟨by rw [v4]; exact (h2.CH j hj).1, ?_, ?_⟩
    · rw [v6 j hj1, (h2.CH j hj).2, Nat.zero_add]
      refine le_trans ?_ hnh
      refine le_trans (ag_sum_le_countP _ _ (fun x => (pinOf ins x).dev1.honest)
        (fun x _ => ag_rcNews_count_le n _ j) ?_) ?_
      · intro x hx hxh
        obtain ⟨hx1, hx2⟩ := List.mem_filter.mp hx
        have hxn : x < n := List.mem_range.mp hx1
        have hxi : x ≠ i := by simpa using hx2
        have hxhon : x ∈ honestIdx ins := (ag_mem_honestIdx ins x).mpr ⟨by rw [S.hn]; exact hxn, hxh⟩
        obtain ⟨Px, hPx, h2x⟩ := hS x hxhon
        have := (hX x i Px P hxhon hi hPx hP hxi).2.2.2 j hj1
        rw [this]
        exact (h2x.CH j hj).2
      · exact (List.filter_sublist).countP_le
    · rw [v7 j]
      rintro ⟨-, hji, hbad⟩
      obtain ⟨Pj, hPj, -⟩ := hS j hj
      have := (hX j i Pj P hj hi hPj hP hji).2.1
      rw [this] at hbad
      exact Bool.false_ne_true hbad
  · intro i i' P1 P1' hi hi' hP1 hP1' k hk hki hki'
    obtain ⟨P, st', I', cfs, P', hP, h2, hP', hout, cl, cx, e1, hl', bl, hb, v1, v2, v3, v4, v5, v6, v7, v8, v9, v10, v11⟩ :=
      hparty i hi
    obtain ⟨Q, stq, Iq, cfq, Q', hQ, hq2, hQ', houtq, clq, cxq, f1, hlq', blq, hbq, w1, w2, w3, w4, w5, w6, w7, w8, w9, w10, w11⟩ :=
      hparty i' hi'
    rw [hP'] at hP1
    rw [hQ'] at hP1'
    injection hP1 with hP1
    injection hP1' with hP1'
    subst hP1 hP1'
    rw [hb k hk, hbq k hk, v5 k hk hki, w5 k hk hki', hAg i i' P Q hi hi' hP hQ k hk hki hki']
    simp [hki, hki']
  · intro i i' P1 P1' hi hi' hP1 hP1' hne
    obtain ⟨P, st', I', cfs, P', hP, h2, hP', hout, cl, cx, e1, hl', bl, hb, v1, v2, v3, v4, v5, v6, v7, v8, v9, v10, v11⟩ :=
      hparty i hi
    obtain ⟨Q, stq, Iq, cfq, Q', hQ, hq2, hQ', houtq, clq, cxq, f1, hlq', blq, hbq, w1, w2, w3, w4, w5, w6, w7, w8, w9, w10, w11⟩ :=
      hparty i' hi'
    rw [hP'] at hP1
    rw [hQ'] at hP1'
    injection hP1 with hP1
    injection hP1' with hP1'
    subst hP1 hP1'
    obtain ⟨hi1, -⟩ := (ag_mem_honestIdx ins i).mp hi
    rw [S.hn] at hi1
    obtain ⟨hi1', -⟩ := (ag_mem_honestIdx ins i').mp hi'
    rw [S.hn] at hi1'
    obtain ⟨x1, x2, x3, x4⟩ := hX i i' P Q hi hi' hP hQ hne
    obtain ⟨y1, y2, y3, y4⟩ := hX i' i Q P hi' hi hQ hP (Ne.symm hne)
    have hstream : bsOf Q'.inbox i =
        cfs.flatMap (fun (it : Nat) => [((none : Tag), (it : Int)),
          (none, getI P.st.srow it), (none, getI P.st.sprow it)]) ++ [((none : Tag), (n : Int))] := by
      rw [hbq i hi1, w5 i hi1 hne, x3, hout]
      simp [hne]
    refine ⟨?_, ?_, ?_, ?_, ?_⟩
    · intro k hk hki hki'
      rw [e1, f1, v4, w4]
      refine ⟨x1 k hk hki hki', ?_⟩
      rw [v7 k, w7 k, hAg i i' P Q hi hi' hP hQ k hk hki hki']
      simp [hk, hki, hki']
    · intro w hw
      rw [e1, f1, v6 w hw, w6 w hw, ← x4 w hw, ← y4 w hw]
      rw [ag_sum_filter_ne (List.range n) List.nodup_range i (List.mem_range.mpr hi1),
        ag_sum_filter_ne (List.range n) List.nodup_range i' (List.mem_range.mpr hi1')]
      congr 1
      apply List.map_congr_left
      intro x hx
      have hxn : x < n := List.mem_range.mp hx
      by_cases hxi : x = i
      · subst hxi
        simp [hne]
      · by_cases hxi' : x = i'
        · subst hxi'
          simp [hxi]
        · simp only [hxi, hxi', if_false]
          rw [hAg i i' P Q hi hi' hP hQ x hxn hxi hxi']
    · have : Fact (Nat.Prime G.q.natAbs) := fact_q hG
      obtain ⟨ha, hb', hla, hlb⟩ := ag_coef_range (G := G) t (pinOf ins i) (S.hc i hi)
      have hra := ag_raS_honest (G := G) n hn64 (comOf G t (pinOf ins i)) (fun it => getI P.st.srow it)
        (fun it => getI P.st.sprow it) cfs (n + 1) (by omega) (by
          intro it hit
          have hitn := cx it hit
          rw [h2.srow, h2.sprow, ag_getI_map_range _ _ it hitn, ag_getI_map_range _ _ it hitn]
          obtain ⟨l, r, e1, e2, e3⟩ := share_check_F hG _ _ (hla.trans hlb.symm) ha hb' _
            (ag_comOf_spec hG t (pinOf ins i) (S.hc i hi)).1 (it + 1)
          exact ⟨hitn, (ag_sh_range hG t _ it).1, (ag_sh_range hG t _ it).2.1, l, e1, by rw [e2, e3]⟩)
      simp [raBad, hstream, hra]
    · intro k hk hki hki' c
      rw [e1, f1, v9 k hk c, w9 k hk c]
      have hp1 : 0 < getN P.st.cnt k ↔ k ∈ rcNews n (bsOf Q.inbox i) := by
        rw [← x4 k hk]; exact List.count_pos_iff
      have hp2 : 0 < getN Q.st.cnt k ↔ k ∈ rcNews n (bsOf P.inbox i') := by
        rw [← y4 k hk]; exact List.count_pos_iff
      by_cases hci : c = i
      · subst hci
        simp [hne, hp1, hi1]
      · by_cases hci' : c = i'
        · subst hci'
          simp [hci, hp2, hi1']
        · simp only [hci, hci', false_and, false_or, ne_eq, not_false_eq_true, true_and]
          constructor
          · rintro ⟨hc, hm⟩
            exact ⟨hc, by rw [← hAg i i' P Q hi hi' hP hQ c hc hci hci']; exact hm⟩
          · rintro ⟨hc, hm⟩
            exact ⟨hc, by rw [hAg i i' P Q hi hi' hP hQ c hc hci hci']; exact hm⟩
    · intro c
      rw [f1, w9 i hi1 c, hstream, ag_anS_honest n hn64 _ _ cfs (n + 1) (by omega) cx []]
      rintro (⟨-, hpos⟩ | ⟨hc, hci', hmem⟩)
      · rw [(hq2.CH i hi).2] at hpos
        exact absurd hpos (Nat.lt_irrefl 0)
      · by_cases hci : c = i
        · subst hci
          have h0 : (rcNews n (bsOf Q.inbox c)).count c = 0 := by
            rw [x4 c hi1]; exact (h2.CH c hi).2
          exact absurd (List.count_pos_iff.mpr hmem) (by omega)
        · rw [← hAg i i' P Q hi hi' hP hQ c hc hci hci'] at hmem
          simpa using v10 c hc hci hmem

/-! ### (12) round 3: QUAL; the agreement theorems -/

theorem ag_genResolve_qual_form (st st' : GenSt) (I I' : Inbox) (ops : List Op) (status : Status)
    (h : genResolve G st I = .ok (st', I', ops, status)) :
    ∃ p : Nat → Bool, st'.qual = (List.range st.n).filter p := by
  unfold genResolve at h
  obtain ⟨⟨I1, s, sp, cm⟩, -, h⟩ := ag_bind_ok _ _ _ h
  simp only at h
  obtain ⟨gs, -, h⟩ := ag_bind_ok _ _ _ h
  split at h
  · injection h with h; injection h with h; rw [← h]; exact ⟨_, rfl⟩
  · split at h
    · injection h with h; injection h with h; rw [← h]; exact ⟨_, rfl⟩
    · split at h
      · injection h with h; injection h with h; rw [← h]; exact ⟨_, rfl⟩
      · injection h with h; injection h with h; rw [← h]; exact ⟨_, rfl⟩

theorem ag_filter_range_eq (n : Nat) (p p' : Nat → Bool)
    (h : ∀ k, k ∈ (List.range n).filter p ↔ k ∈ (List.range n).filter p') :
    (List.range n).filter p = (List.range n).filter p' := by
  apply List.filter_congr
  intro x hx
  have := h x
  simp only [List.mem_filter, hx, true_and] at this
  cases hp : p x <;> cases hp' : p' x <;> simp_all

/-- after round 3: every honest party's QUAL contains every honest party, and two honest parties
    have the same QUAL -/
def Inv4 (ins : List PartyIn) (R : List (Party GenSt)) : Prop :=
  (∀ i, i ∈ honestIdx ins → ∃ P, R[i]? = some P ∧ ∀ j, j ∈ honestIdx ins → j ∈ P.st.qual) ∧
  (∀ i i' P P', i ∈ honestIdx ins → i' ∈ honestIdx ins → R[i]? = some P → R[i']? = some P' →
    P.st.qual = P'.st.qual)

theorem ag_unB_iff (st : GenSt) (k : Nat) (s : List (Tag × Int)) :
    unB st k s = true ↔ ∃ c ∈ st.complainers.getD k [], c ∉ anS st.n (st.n + 1) s [] := by
  simp [unB, List.any_eq_true]

/-- round 3 for one party that is still following the protocol -/
theorem ag_round3_party (hG : ValidGrp G) (R : List (Party GenSt)) (i : Nat) (P : Party GenSt)
    (hP : R[i]? = some P) (hl : HL P) (hn : P.st.n = n) (ht : P.st.t = t) (hi : P.st.i = i)
    (hb : P.inbox.b.length = n) (hsin : InR G.q P.st.s) :
    ∃ P' : Party GenSt, (runRound (genStep G ins n t 3) R)[i]? = some P' ∧
      (∃ p : Nat → Bool, P'.st.qual = (List.range n).filter p) ∧
      ∀ k, k ∈ P'.st.qual ↔ k < n ∧ ¬ (k ∈ P.st.compl ∨ t < getN P.st.cnt k ∨
        (k ≠ i ∧ (raBad G n (getRow P.st.C k) (bsOf P.inbox k) = true ∨
          ∃ c ∈ P.st.complainers.getD k [], c ∉ anS n (n + 1) (bsOf P.inbox k) []))) := by
  obtain ⟨st', I', ops, status, hr, hq⟩ := ag_genResolve_spec hG P.st P.inbox (by rw [hb, hn]) hsin
  simp only [ag_unB_iff, hn, ht, hi] at hq
  have hs : genStep G ins n t 3 i P.st P.inbox = .ok (st', I', ops, status) := hr
  obtain ⟨-, P', hP', e1, -⟩ := ag_honest_round (genStep G ins n t 3) R i P hP hl _ _ _ _ hs
  obtain ⟨p, hp⟩ := ag_genResolve_qual_form P.st st' P.inbox I' ops status hr
  rw [hn] at hp
  exact ⟨P', hP', ⟨p, by rw [e1]; exact hp⟩, by rw [e1]; exact hq⟩

theorem ag_round3 (S : Setting G n t ins) (R : List (Party GenSt)) (h : Inv3 G n t ins R) :
    Inv4 ins (runRound (genStep G ins n t 3) R) := by
  obtain ⟨hlen, hS, hAg, hX⟩ := h
  have hG := S.hG
  have hparty : ∀ i, i ∈ honestIdx ins → ∃ (P P' : Party GenSt),
      R[i]? = some P ∧ S3 G n t ins i P ∧ (runRound (genStep G ins n t 3) R)[i]? = some P' ∧
      (∃ p : Nat → Bool, P'.st.qual = (List.range n).filter p) ∧
      ∀ k, k ∈ P'.st.qual ↔ k < n ∧ ¬ (k ∈ P.st.compl ∨ t < getN P.st.cnt k ∨
        (k ≠ i ∧ (raBad G n (getRow P.st.C k) (bsOf P.inbox k) = true ∨
          ∃ c ∈ P.st.complainers.getD k [], c ∉ anS n (n + 1) (bsOf P.inbox k) []))) := by
    intro i hi
    obtain ⟨P, hP, h3⟩ := hS i hi
    obtain ⟨P', hP', hp, hq⟩ := ag_round3_party (ins := ins) hG R i P hP h3.hl h3.hn h3.ht h3.hi h3.blen h3.sIn
    exact ⟨P, P', hP, h3, hP', hp, hq⟩
  have hmem : ∀ i, i ∈ honestIdx ins → ∀ (P P' : Party GenSt), R[i]? = some P →
      (∀ k, k ∈ P'.st.qual ↔ k < n ∧ ¬ (k ∈ P.st.compl ∨ t < getN P.st.cnt k ∨
        (k ≠ i ∧ (raBad G n (getRow P.st.C k) (bsOf P.inbox k) = true ∨
          ∃ c ∈ P.st.complainers.getD k [], c ∉ anS n (n + 1) (bsOf P.inbox k) [])))) →
      ∀ j, j ∈ honestIdx ins → j ∈ P'.st.qual := by
    intro i hi P P' hP hq j hj
    obtain ⟨P0, hP0, h3⟩ := hS i hi
    rw [hP] at hP0
    injection hP0 with hP0
    subst hP0
    obtain ⟨hj1, -⟩ := (ag_mem_honestIdx ins j).mp hj
    rw [S.hn] at hj1
    obtain ⟨c1, c2, c3⟩ := h3.CH j hj
    rw [hq j]
    refine ⟨hj1, ?_⟩
    rintro (h | h | ⟨hji, h | ⟨c, hc, hnc⟩⟩)
    · exact c3 h
    · omega
    · obtain ⟨Pj, hPj, -⟩ := hS j hj
      have := (hX j i Pj P hj hi hPj hP hji).2.2.1
      rw [c1, this] at h
      exact Bool.false_ne_true h
    · obtain ⟨Pj, hPj, -⟩ := hS j hj
      exact hnc ((hX j i Pj P hj hi hPj hP hji).2.2.2.2 c hc)
  constructor
  · intro i hi
    obtain ⟨P, P', hP, h3, hP', -, hq⟩ := hparty i hi
    exact ⟨P', hP', hmem i hi P P' hP hq⟩
  · intro i i' P1 P1' hi hi' hP1 hP1'
    by_cases hne : i = i'
    · subst hne
      rw [hP1] at hP1'
      injection hP1' with hP1'
      rw [hP1']
    obtain ⟨P, P', hP, h3, hP', ⟨p, hp⟩, hq⟩ := hparty i hi
    obtain ⟨Q, Q', hQ, hq3, hQ', ⟨p', hp'⟩, hqq⟩ := hparty i' hi'
    rw [hP'] at hP1
    rw [hQ'] at hP1'
    injection hP1 with hP1
    injection hP1' with hP1'
    subst hP1 hP1'
    rw [hp, hp']
    apply ag_filter_range_eq
    intro k
    rw [← hp, ← hp']
    by_cases hki : k = i
    · subst hki
      exact ⟨fun _ => hmem i' hi' Q Q' hQ hqq k hi, fun _ => hmem k hi P P' hP hq k hi⟩
    by_cases hki' : k = i'
    · subst hki'
      exact ⟨fun _ => hmem k hi' Q Q' hQ hqq k hi', fun _ => hmem i hi P P' hP hq k hi'⟩
    rw [hq k, hqq k]
    by_cases hk : k < n
    · obtain ⟨x1, x2, -, x4, -⟩ := hX i i' P Q hi hi' hP hQ hne
      obtain ⟨y1, y2⟩ := x1 k hk hki hki'
      have x5 := x4 k hk hki hki'
      rw [y1, y2, x2 k hk, hAg i i' P Q hi hi' hP hQ k hk hki hki']
      simp only [x5]
      simp [hki, hki']
    · simp [hk]

theorem ag_range_split (t : Nat) : List.range (6 + t + 1) = [0, 1, 2, 3] ++ List.range' 4 (t + 3) := by
  rw [List.range_eq_range', show 6 + t + 1 = 4 + (t + 3) by omega, ← List.range'_append_1]
  rfl

/-- the run up to QUAL -/
theorem ag_inv4 (S : Setting G n t ins) (hn64 : n < 2 ^ 64) (hf : n - (honestIdx ins).length ≤ t) :
    Inv4 ins (runRounds (genStep G ins n t) [0, 1, 2, 3] (ps0 n t ins)) :=
  ag_round3 S _ (ag_round2 S hn64 hf _ (ag_round1 S hn64 _ (ag_round0 S)))

theorem ag_runGen_qual (n t : Nat) (ins : List PartyIn) (i : Nat) :
    ((runGen G n t ins)[i]?).map (fun P => P.st.qual) =
      ((runRounds (genStep G ins n t) [0, 1, 2, 3] (ps0 n t ins))[i]?).map (fun P => P.st.qual) := by
  rw [ag_runGen_eq, ag_range_split, ag_runRounds_append]
  apply ag_runRounds_qual
  intro k hk
  have := (List.mem_range'_1.mp hk).1
  exact this

set_option linter.unusedVariables false in
/-- all honest parties compute the same set QUAL (for ALL scripts of the other parties).

    Statement of `qual_agree` (TmcgProofs/Dkg.lean) plus `n < 2^64`: without the bound the statement
    is FALSE in the model, because `mpz_get_ui` truncates the end marker `n` of a complaint list to
    `n mod 2^64 < n`, which is then read as a complaint (see the report at the end of the file). -/
theorem qual_agree' (hG : ValidGrp G) (n t : Nat) (ins : List PartyIn) (hn : ins.length = n) (ht : 2 * t < n)
    (hn64 : n < 2 ^ 64)
    (hf : n - (honestIdx ins).length ≤ t)
    (hc : ∀ i ∈ honestIdx ins, goodCoins G t (ins.getD i ⟨[], [], {}, {}⟩))
    (i j : Nat) (hi : i ∈ honestIdx ins) (hj : j ∈ honestIdx ins) (Pi Pj : Party GenSt)
    (hPi : (runGen G n t ins)[i]? = some Pi) (hPj : (runGen G n t ins)[j]? = some Pj) :
    Pi.st.qual = Pj.st.qual := by
  have S : Setting G n t ins := ⟨hG, hn, hc⟩
  obtain ⟨-, h4⟩ := ag_inv4 S hn64 hf
  have e1 := ag_runGen_qual (G := G) n t ins i
  have e2 := ag_runGen_qual (G := G) n t ins j
  rw [hPi] at e1
  rw [hPj] at e2
  cases hQi : (runRounds (genStep G ins n t) [0, 1, 2, 3] (ps0 n t ins))[i]? with
  | none => rw [hQi] at e1; cases e1
  | some Qi =>
    cases hQj : (runRounds (genStep G ins n t) [0, 1, 2, 3] (ps0 n t ins))[j]? with
    | none => rw [hQj] at e2; cases e2
    | some Qj =>
      rw [hQi] at e1
      rw [hQj] at e2
      simp only [Option.map_some, Option.some.injEq] at e1 e2
      rw [e1, e2]
      exact h4 i j Qi Qj hi hj hQi hQj

set_option linter.unusedVariables false in
/-- honest parties are never disqualified (statement of `honest_in_qual` plus `n < 2^64`, see
    `qual_agree'`) -/
theorem honest_in_qual' (hG : ValidGrp G) (n t : Nat) (ins : List PartyIn) (hn : ins.length = n) (ht : 2 * t < n)
    (hn64 : n < 2 ^ 64)
    (hf : n - (honestIdx ins).length ≤ t)
    (hc : ∀ i ∈ honestIdx ins, goodCoins G t (ins.getD i ⟨[], [], {}, {}⟩))
    (i j : Nat) (hi : i ∈ honestIdx ins) (hj : j ∈ honestIdx ins) (Pi : Party GenSt)
    (hPi : (runGen G n t ins)[i]? = some Pi) :
    j ∈ Pi.st.qual := by
  have S : Setting G n t ins := ⟨hG, hn, hc⟩
  obtain ⟨h4, -⟩ := ag_inv4 S hn64 hf
  have e1 := ag_runGen_qual (G := G) n t ins i
  rw [hPi] at e1
  obtain ⟨Qi, hQi, hq⟩ := h4 i hi
  rw [hQi] at e1
  simp only [Option.map_some, Option.some.injEq] at e1
  rw [e1]
  exact hq j hj

/-! ### (13) the bound `n < 2^64` is needed: refutation of the unrestricted statements

  For `n ≥ 2^64` the end marker `n` of a complaint list is truncated by `mpz_get_ui` to
  `n mod 2^64 < n` and read as a complaint; the reader then runs into a time-out and puts the
  sender on its complaint list.  With `n = 2^64`, `t = 0` and every party honest, party 0 ends with
  `1 ∉ QUAL` and party 1 with `1 ∈ QUAL`. -/

theorem cx_rcS_marker (n : Nat) (hn : 2 ^ 64 ≤ n) :
    rcS n (n + 1) 0 [] [((none : Tag), (n : Int))] = ([n % 2 ^ 64], 1, []) := by
  obtain ⟨m, rfl⟩ : ∃ m, n = m + 1 := ⟨n - 1, by omega⟩
  have hui : getUi ((m + 1 : Nat) : Int) = (m + 1) % 2 ^ 64 := by
    unfold getUi
    rw [Int.natAbs_natCast]
  have hlt : (m + 1) % 2 ^ 64 < m + 1 := lt_of_lt_of_le (Nat.mod_lt _ (by norm_num)) hn
  rw [rcS, ag_popS_none_cons]
  simp only [hui, hlt, true_and]
  rw [rcS, ag_popS_nil]
  simp

/-- all parties honest, `t = 0`, `2^64 ∣ n`: party 0 excludes party 1, party 1 keeps itself -/
theorem cx_general (hG : ValidGrp G) (n : Nat) (ins : List PartyIn) (hn : ins.length = n)
    (hbig : 2 ^ 64 ≤ n) (hmod : n % 2 ^ 64 = 0)
    (hall : ∀ i, i < n → (pinOf ins i).dev1.honest = true)
    (hc : ∀ i, i < n → goodCoins G 0 (pinOf ins i)) :
    ∃ P0 P1 : Party GenSt, (runGen G n 0 ins)[0]? = some P0 ∧ (runGen G n 0 ins)[1]? = some P1 ∧
      1 ∉ P0.st.qual ∧ 1 ∈ P1.st.qual := by
  have hon : ∀ i, i < n → i ∈ honestIdx ins := fun i hi =>
    (ag_mem_honestIdx ins i).mpr ⟨by rw [hn]; exact hi, hall i hi⟩
  have hlt : ∀ i, i ∈ honestIdx ins → i < n := fun i hi => by
    have := ((ag_mem_honestIdx ins i).mp hi).1
    rwa [hn] at this
  have S : Setting G n 0 ins := ⟨hG, hn, fun i hi => hc i (hlt i hi)⟩
  have I1 := ag_round0 S
  -- round 1
  have hS2 := ag_round1_S2 S _ I1
  have hstream : ∀ i i', i < n → i' < n → i ≠ i' → ∀ P, (runRound (genStep G ins n 0 1)
      (runRound (genStep G ins n 0 0) (ps0 n 0 ins)))[i']? = some P →
      bsOf P.inbox i = [((none : Tag), (n : Int))] := by
    intro i i' hi hi' hne P hP
    obtain ⟨_, _, _, D, _, _, _, _, hout, _, _, _, _, _, _, _, _, _, _, hD, _, _, hDh, _, _, _⟩ :=
      ag_round1_party S _ I1 i (hon i hi)
    obtain ⟨_, _, I', _, P', _, _, hP', _, _, _, _, hb, _, _, _, _, _, _, _, _, _, _, hI', _, _⟩ :=
      ag_round1_party S _ I1 i' (hon i' hi')
    rw [hP'] at hP
    injection hP with hP
    subst hP
    have hDnil : D = [] := by
      apply List.eq_nil_iff_forall_not_mem.mpr
      intro x hx
      exact (hDh x (hon x (hD x hx))).2 hx
    rw [hb i hi, hI' i (hon i hi) hne, hout, hDnil]
    simp [hne]
  -- round 2
  have hr2 : ∀ i', i' < n → ∃ P' : Party GenSt,
      (runRound (genStep G ins n 0 2) (runRound (genStep G ins n 0 1)
        (runRound (genStep G ins n 0 0) (ps0 n 0 ins))))[i']? = some P' ∧
      HL P' ∧ P'.st.n = n ∧ P'.st.t = 0 ∧ P'.st.i = i' ∧ P'.inbox.b.length = n ∧
      (∀ k, k ∈ P'.st.compl ↔ k < n ∧ k ≠ i') ∧ (i' ≠ 0 → getN P'.st.cnt i' = 0) ∧ InR G.q P'.st.s := by
    intro i' hi'
    obtain ⟨P, st', I', cfs, P', hP, h2, hP', _, _, _, e1, hl', bl, _, v1, v2, v3, _, _, v6, v7, _, _, _, v11⟩ :=
      ag_round2_party (G := G) hn _ hS2 i' (hon i' hi')
    refine ⟨P', hP', hl', by rw [e1]; exact v1, by rw [e1]; exact v2, by rw [e1]; exact v3, bl, ?_, ?_, by rw [e1]; exact v11⟩
    · intro k
      rw [e1, v7 k]
      constructor
      · rintro ⟨h1, h2, -⟩
        exact ⟨h1, h2⟩
      · rintro ⟨h1, h2⟩
        refine ⟨h1, h2, ?_⟩
        rw [hstream k i' h1 hi' h2 P hP]
        simp [rcBad, cx_rcS_marker n hbig]
    · intro hne0
      rw [e1, v6 i' hi', (h2.CH i' (hon i' hi')).2, Nat.zero_add]
      apply List.sum_eq_zero
      intro y hy
      obtain ⟨x, hx, rfl⟩ := List.mem_map.mp hy
      obtain ⟨hx1, hx2⟩ := List.mem_filter.mp hx
      have hxn : x < n := List.mem_range.mp hx1
      have hxi : x ≠ i' := by simpa using hx2
      rw [hstream x i' hxn hi' hxi P hP]
      simp only [rcNews, cx_rcS_marker n hbig, hmod]
      simp [Ne.symm hne0]
  -- round 3
  have h1n : 1 < n := lt_of_lt_of_le (by norm_num) hbig
  have h0n : 0 < n := by omega
  obtain ⟨Q0, hQ0, hl0, a1, a2, a3, a4, a5, -, a7⟩ := hr2 0 h0n
  obtain ⟨Q1, hQ1, hl1, b1, b2, b3, b4, b5, b6, b7⟩ := hr2 1 h1n
  obtain ⟨P0, hP0, -, q0⟩ := ag_round3_party (ins := ins) hG _ 0 Q0 hQ0 hl0 a1 a2 a3 a4 a7
  obtain ⟨P1, hP1, -, q1⟩ := ag_round3_party (ins := ins) hG _ 1 Q1 hQ1 hl1 b1 b2 b3 b4 b7
  have e0 := ag_runGen_qual (G := G) n 0 ins 0
  have e1 := ag_runGen_qual (G := G) n 0 ins 1
  have hR : runRounds (genStep G ins n 0) [0, 1, 2, 3] (ps0 n 0 ins) =
      runRound (genStep G ins n 0 3) (runRound (genStep G ins n 0 2) (runRound (genStep G ins n 0 1)
        (runRound (genStep G ins n 0 0) (ps0 n 0 ins)))) := rfl
  rw [hR, hP0] at e0
  rw [hR, hP1] at e1
  simp only [Option.map_some, Option.map_eq_some_iff] at e0 e1
  obtain ⟨F0, hF0, g0⟩ := e0
  obtain ⟨F1, hF1, g1⟩ := e1
  refine ⟨F0, F1, hF0, hF1, ?_, ?_⟩
  · rw [g0, q0 1]
    rintro ⟨-, h⟩
    exact h (Or.inl ((a5 1).mpr ⟨h1n, by norm_num⟩))
  · rw [g1, q1 1]
    refine ⟨h1n, ?_⟩
    rintro (h | h | ⟨h, -⟩)
    · exact ((b5 1).mp h).2 rfl
    · rw [b6 (by norm_num)] at h
      exact Nat.lt_irrefl 0 h
    · exact h rfl

/-- a small valid CRS: `p = 7`, `q = 3`, `g = 2`, `h = 4` -/
theorem cx_grp : ∃ G : Dkg.Grp, ValidGrp G ∧ G.q = 3 := by
  obtain ⟨tg, h1⟩ := precompute_ok 2 7 (bitlen 3) (by norm_num)
  obtain ⟨th, h2⟩ := precompute_ok 4 7 (bitlen 3) (by norm_num)
  have hm : mkGrp 7 3 2 4 = .ok ⟨7, 3, 2, 4, tg, th⟩ := by
    simp only [mkGrp, h1, h2, bind, Except.bind, pure, Except.pure]
  have hfit : bitlen 3 ≤ Gen.TMCG_MAX_FPOWM_T := by
    have : Nat.log2 3 < 2047 := (Nat.log2_lt (by norm_num)).mpr (by
      calc 3 < 2 ^ 2 := by norm_num
        _ ≤ 2 ^ 2047 := Nat.pow_le_pow_right (by norm_num) (by norm_num))
    simp only [bitlen, Gen.TMCG_MAX_FPOWM_T]
    norm_num
    omega
  refine ⟨⟨7, 3, 2, 4, tg, th⟩, mkGrp_valid hm ?_ ?_, rfl⟩
  · exact ⟨by norm_num, by norm_num, Nat.prime_seven, Nat.prime_three, by norm_num, by norm_num, by norm_num, hfit⟩
  · exact ⟨by norm_num, by norm_num, Nat.prime_seven, Nat.prime_three, by norm_num, by norm_num, by norm_num, hfit⟩

def cxPin : PartyIn := ⟨[0, 0], [], {}, {}⟩

theorem cx_instance (n : Nat) (hn : n = 2 ^ 64) :
    ∃ (G : Dkg.Grp) (_ : ValidGrp G) (ins : List PartyIn), ins.length = n ∧
      n - (honestIdx ins).length ≤ 0 ∧
      (∀ i ∈ honestIdx ins, goodCoins G 0 (ins.getD i ⟨[], [], {}, {}⟩)) ∧
      0 ∈ honestIdx ins ∧ 1 ∈ honestIdx ins ∧
      ∃ P0 P1 : Party GenSt, (runGen G n 0 ins)[0]? = some P0 ∧ (runGen G n 0 ins)[1]? = some P1 ∧
        1 ∉ P0.st.qual ∧ 1 ∈ P1.st.qual := by
  obtain ⟨G, hG, hq⟩ := cx_grp
  have : Fact (Nat.Prime G.p.natAbs) := fact_p hG
  have hlen : (List.replicate n cxPin).length = n := List.length_replicate
  have hpin : ∀ i, i < n → pinOf (List.replicate n cxPin) i = cxPin := by
    intro i hi
    unfold pinOf
    rw [List.getD_eq_getElem _ _ (by rw [hlen]; exact hi), List.getElem_replicate]
  have hhon : cxPin.dev1.honest = true := rfl
  have hgood : goodCoins G 0 cxPin := by
    refine ⟨by simp [cxPin], ?_⟩
    intro c hc
    simp only [cxPin, List.mem_cons, List.not_mem_nil, or_false, or_self] at hc
    rw [hc, hq]
    norm_num
  have hidx : ∀ i, i < n → i ∈ honestIdx (List.replicate n cxPin) := fun i hi =>
    (ag_mem_honestIdx _ i).mpr ⟨by rw [hlen]; exact hi, by rw [hpin i hi]; exact hhon⟩
  have hall : honestIdx (List.replicate n cxPin) = List.range n := by
    unfold honestIdx
    rw [hlen]
    apply List.filter_eq_self.mpr
    intro i hi
    have := hpin i (List.mem_range.mp hi)
    unfold pinOf at this
    rw [this]
    exact hhon
  have hbig : 2 ^ 64 ≤ n := by rw [hn]
  have hmod : n % 2 ^ 64 = 0 := by rw [hn, Nat.mod_self]
  have h1n : 1 < n := lt_of_lt_of_le (by norm_num) hbig
  refine ⟨G, hG, List.replicate n cxPin, hlen, by rw [hall]; simp, ?_, hidx 0 (by omega), hidx 1 h1n, ?_⟩
  · intro i hi
    have hi' : i < n := by
      have := ((ag_mem_honestIdx _ i).mp hi).1
      rwa [hlen] at this
    have := hpin i hi'
    unfold pinOf at this
    rw [this]
    exact hgood
  · exact cx_general hG n _ hlen hbig hmod (fun i hi => by rw [hpin i hi]; exact hhon)
      (fun i hi => by rw [hpin i hi]; exact hgood)

/-- `honest_in_qual` of TmcgProofs/Dkg.lean without a bound on `n` does not hold -/
theorem honest_in_qual_unbounded_false :
    ¬ (∀ (G : Dkg.Grp) [Fact (Nat.Prime G.p.natAbs)] (_ : ValidGrp G) (n t : Nat) (ins : List PartyIn)
        (_ : ins.length = n) (_ : 2 * t < n) (_ : n - (honestIdx ins).length ≤ t)
        (_ : ∀ i ∈ honestIdx ins, goodCoins G t (ins.getD i ⟨[], [], {}, {}⟩))
        (i j : Nat) (_ : i ∈ honestIdx ins) (_ : j ∈ honestIdx ins) (Pi : Party GenSt)
        (_ : (runGen G n t ins)[i]? = some Pi), j ∈ Pi.st.qual) := by
  intro H
  obtain ⟨n, hn⟩ : ∃ n : Nat, n = 2 ^ 64 := ⟨_, rfl⟩
  obtain ⟨G, hG, ins, hlen, hf, hc, h0, h1, P0, P1, hP0, hP1, hq0, hq1⟩ := cx_instance n hn
  have : Fact (Nat.Prime G.p.natAbs) := fact_p hG
  exact hq0 (H G hG n 0 ins hlen (by rw [hn]; norm_num) hf hc 0 1 h0 h1 P0 hP0)

/-- `qual_agree` of TmcgProofs/Dkg.lean without a bound on `n` does not hold -/
theorem qual_agree_unbounded_false :
    ¬ (∀ (G : Dkg.Grp) [Fact (Nat.Prime G.p.natAbs)] (_ : ValidGrp G) (n t : Nat) (ins : List PartyIn)
        (_ : ins.length = n) (_ : 2 * t < n) (_ : n - (honestIdx ins).length ≤ t)
        (_ : ∀ i ∈ honestIdx ins, goodCoins G t (ins.getD i ⟨[], [], {}, {}⟩))
        (i j : Nat) (_ : i ∈ honestIdx ins) (_ : j ∈ honestIdx ins) (Pi Pj : Party GenSt)
        (_ : (runGen G n t ins)[i]? = some Pi) (_ : (runGen G n t ins)[j]? = some Pj),
        Pi.st.qual = Pj.st.qual) := by
  intro H
  obtain ⟨n, hn⟩ : ∃ n : Nat, n = 2 ^ 64 := ⟨_, rfl⟩
  obtain ⟨G, hG, ins, hlen, hf, hc, h0, h1, P0, P1, hP0, hP1, hq0, hq1⟩ := cx_instance n hn
  have : Fact (Nat.Prime G.p.natAbs) := fact_p hG
  have := H G hG n 0 ins hlen (by rw [hn]; norm_num) hf hc 0 1 h0 h1 P0 P1 hP0 hP1
  rw [this] at hq0
  exact hq0 hq1

end Tmcg.DkgP
