import TmcgProofs.Dkg
/-
  C15, global layer: view consistency of the honest parties in `runGen` (rounds 0..3) and the two
  agreement statements of TmcgProofs/Dkg.lean (`qual_agree`, `honest_in_qual`).

  Proved (no `sorry`):
    * `qual_agree'`, `honest_in_qual'`   the statements of `qual_agree` / `honest_in_qual` with ONE
                                         additional hypothesis `n < 2 ^ 64`
    * `qual_agree_unbounded_false`,
      `honest_in_qual_unbounded_false`   the statements exactly as written in Dkg.lean (no bound on `n`)
                                         are FALSE in the model: `n = 2^64`, `t = 0`, every party honest.
                                         `getUi` (`mpz_get_ui`) truncates the end marker `n` of a complaint
                                         list to `n mod 2^64 = 0 < n`; `genReadComplaints` reads it as a
                                         complaint against party 0, goes on reading and times out, so the
                                         sender is put on the complaint list: party 0 ends with
                                         `1 ∉ QUAL`, party 1 with `1 ∈ QUAL`.
  Structure:
    (1)  round glue: `runRound` pointwise (`ag_runRound_party`, `Delivered`): the broadcast part of
         sender `k` appended to `b[k]` is the same list `(outOf steps ps k).1` for every receiver
    (2)  `stepParty`; the output filter of a party with an honest script is the identity
    (3)  `qual` is not changed by rounds ≥ 4 (`ag_runRounds_qual`)
    (4)  the readers as functions of ONE sender's stream (`reS`, `rcS`, `raS`, `shOne`) and the
         equations `ag_readElems`, `ag_genReadComplaints`, `ag_genReadAnswers`, `ag_genReadShares_cons`
    (5)  the loops over the senders: what is read / left alone (`…_frame`, `…_hit`, `…_glob`),
         the complaint counters as sums (`ag_genCollectGo_cnt`), totality of the arithmetic
    (6)  the readers on well-formed streams (`ag_reS_honest`, `ag_rcS_honest`, `ag_raS_honest`)
    (7)  specifications of the four step functions (`ag_genDeal_honest`, `ag_genVerify_spec`,
         `ag_genCollect_spec`, `ag_genResolve_spec`)
    (8)–(12) the invariants after rounds 0, 1, 2, 3 (`Inv1` … `Inv4`) and the theorems
    (13) the refutation for `n = 2^64`
-/
namespace Tmcg.DkgP
open Tmcg Tmcg.Powm Tmcg.Dkg Tmcg.Grp Tmcg.DkgL

variable {G : Dkg.Grp} [Fact (Nat.Prime G.p.natAbs)]

set_option linter.unusedSectionVars false

/-! ### (0) list helpers -/

theorem ag_getD_set {α} (l : List α) (j k : Nat) (x d : α) :
    (l.set j x).getD k d = if j = k ∧ k < l.length then x else l.getD k d := by
  simp only [List.getD_eq_getElem?_getD, List.getElem?_set]
  by_cases h : j = k
  · subst h
    by_cases h2 : j < l.length
    · simp [h2]
    · simp [h2]
  · simp [h]

theorem ag_zipRange_getElem? {α} (ps : List α) (s i : Nat) :
    ((List.range' s ps.length).zip ps)[i]? = (ps[i]?).map (fun P => (s + i, P)) := by
  induction ps generalizing s i with
  | nil => simp
  | cons P ps ih =>
    cases i with
    | zero => simp [List.range'_succ]
    | succ i =>
      simp only [List.length_cons, List.range'_succ, List.zip_cons_cons, List.getElem?_cons_succ]
      rw [ih]
      congr 1
      funext P
      congr 1
      omega

/-! ### (1) the round glue -/

theorem ag_runRounds_append {σ} (steps : Nat → Nat → Step σ) (l1 l2 : List Nat) (ps : List (Party σ)) :
    runRounds steps (l1 ++ l2) ps = runRounds steps l2 (runRounds steps l1 ps) := by
  induction l1 generalizing ps with
  | nil => rfl
  | cons k l ih => simp [runRounds, ih]

theorem ag_stepAll_length {σ} (n : Nat) (steps : Nat → Step σ) (k : Nat) (ps : List (Party σ)) :
    (stepAll n steps k ps).length = ps.length := by
  induction ps generalizing k with
  | nil => rfl
  | cons P ps ih => simp [stepAll, ih]

theorem ag_stepAll_getElem? {σ} (n : Nat) (steps : Nat → Step σ) (k : Nat) (ps : List (Party σ)) (i : Nat) :
    (stepAll n steps k ps)[i]? = (ps[i]?).map (fun P => stepParty n (steps (k + i)) P) := by
  induction ps generalizing k i with
  | nil => simp [stepAll]
  | cons P ps ih =>
    cases i with
    | zero => simp [stepAll]
    | succ i =>
      simp only [stepAll, List.getElem?_cons_succ]
      rw [ih]
      congr 1
      funext P
      congr 2
      omega

/-- the deliveries to party `i` -/
def dStep {σ} (i : Nat) (P : Party σ) (jo : Nat × (List (Tag × Int) × List (Nat × Int))) : Party σ :=
  if i = jo.1 then P
  else deliverTo jo.1 jo.2.1 ((jo.2.2.filter (fun e => e.1 == i)).map (·.2)) P

def dFold {σ} (i : Nat) (L : List (Nat × (List (Tag × Int) × List (Nat × Int)))) (P : Party σ) : Party σ :=
  L.foldl (dStep i) P

theorem ag_deliverAll_eq {σ} (outs : List (List (Tag × Int) × List (Nat × Int))) (ps : List (Party σ)) :
    deliverAll outs ps =
      ((List.range ps.length).zip ps).map (fun ip => dFold ip.1 ((List.range outs.length).zip outs) ip.2) := by
  rfl

theorem ag_deliverAll_getElem? {σ} (outs : List (List (Tag × Int) × List (Nat × Int))) (ps : List (Party σ))
    (i : Nat) :
    (deliverAll outs ps)[i]? = (ps[i]?).map (dFold i ((List.range outs.length).zip outs)) := by
  have h := ag_zipRange_getElem? ps 0 i
  rw [← List.range_eq_range'] at h
  rw [ag_deliverAll_eq, List.getElem?_map, h]
  cases ps[i]? with
  | none => rfl
  | some P => simp

theorem ag_dStep_frame {σ} (i : Nat) (P : Party σ) (jo) :
    (dStep i P jo).st = P.st ∧ (dStep i P jo).status = P.status ∧ (dStep i P jo).err = P.err ∧
    (dStep i P jo).fs = P.fs ∧ (dStep i P jo).dev = P.dev ∧
    (dStep i P jo).inbox.b.length = P.inbox.b.length ∧ (dStep i P jo).inbox.p.length = P.inbox.p.length := by
  unfold dStep
  split
  · simp
  · simp [deliverTo]

theorem ag_dFold_frame {σ} (i : Nat) (L) (P : Party σ) :
    (dFold i L P).st = P.st ∧ (dFold i L P).status = P.status ∧ (dFold i L P).err = P.err ∧
    (dFold i L P).fs = P.fs ∧ (dFold i L P).dev = P.dev ∧
    (dFold i L P).inbox.b.length = P.inbox.b.length ∧ (dFold i L P).inbox.p.length = P.inbox.p.length := by
  induction L generalizing P with
  | nil => simp [dFold]
  | cons jo L ih =>
    have h1 := ag_dStep_frame i P jo
    have h2 := ih (dStep i P jo)
    simp only [dFold, List.foldl_cons] at h2 ⊢
    obtain ⟨a1, a2, a3, a4, a5, a6, a7⟩ := h1
    obtain ⟨b1, b2, b3, b4, b5, b6, b7⟩ := h2
    exact ⟨b1.trans a1, b2.trans a2, b3.trans a3, b4.trans a4, b5.trans a5, b6.trans a6, b7.trans a7⟩

theorem ag_filterIn_honest (d : Dev) (hd : d.pi = []) (j c : Nat) (l : List Int) : filterIn d j c l = l := by
  induction l generalizing c with
  | nil => rfl
  | cons v l ih => simp [filterIn, ih, hd, lookup2]

theorem ag_dStep_inbox {σ} (i : Nat) (P : Party σ) (jo) (k : Nat) :
    (k < P.inbox.b.length → (dStep i P jo).inbox.b.getD k [] =
      P.inbox.b.getD k [] ++ (if k = i ∨ k ≠ jo.1 then [] else jo.2.1)) ∧
    (k < P.inbox.p.length → P.dev.pi = [] → (dStep i P jo).inbox.p.getD k [] =
      P.inbox.p.getD k [] ++
        (if k = i ∨ k ≠ jo.1 then [] else (jo.2.2.filter (fun e => e.1 == i)).map (·.2))) := by
  unfold dStep
  by_cases h : i = jo.1
  · simp only [h, if_true]
    constructor
    · intro _
      by_cases h2 : k = jo.1 <;> simp [h2]
    · intro _ _
      by_cases h2 : k = jo.1 <;> simp [h2]
  · simp only [h, if_false, deliverTo]
    constructor
    · intro hk
      rw [ag_getD_set]
      by_cases h2 : jo.1 = k
      · subst h2
        have : ¬ (jo.1 = i) := fun e => h e.symm
        simp [hk, this]
      · have : k ≠ jo.1 := fun e => h2 e.symm
        simp [h2, this]
    · intro hk hd
      rw [ag_getD_set, ag_filterIn_honest _ hd]
      by_cases h2 : jo.1 = k
      · subst h2
        have : ¬ (jo.1 = i) := fun e => h e.symm
        simp [hk, this]
      · have : k ≠ jo.1 := fun e => h2 e.symm
        simp [h2, this]

theorem ag_dFold_snoc {σ} (i : Nat) (L) (x) (P : Party σ) :
    dFold i (L ++ [x]) P = dStep i (dFold i L P) x := by
  simp [dFold, List.foldl_append]

/-- the inbox of party `i` after the deliveries of one round -/
theorem ag_dFold_inbox {σ} (i : Nat) (outs : List (List (Tag × Int) × List (Nat × Int))) (P : Party σ) (k : Nat) :
    (k < P.inbox.b.length → (dFold i ((List.range outs.length).zip outs) P).inbox.b.getD k [] =
      P.inbox.b.getD k [] ++ (if k = i then [] else ((outs[k]?).map (·.1)).getD [])) ∧
    (k < P.inbox.p.length → P.dev.pi = [] → (dFold i ((List.range outs.length).zip outs) P).inbox.p.getD k [] =
      P.inbox.p.getD k [] ++ (if k = i then [] else
        ((outs[k]?).map (fun o => (o.2.filter (fun e => e.1 == i)).map (·.2))).getD [])) := by
  induction outs using List.reverseRecOn with
  | nil =>
    simp [dFold]
  | append_singleton outs o ih =>
    have hz : (List.range (outs ++ [o]).length).zip (outs ++ [o]) =
        (List.range outs.length).zip outs ++ [(outs.length, o)] := by
      rw [List.length_append, List.length_singleton, List.range_succ,
        List.zip_append (by simp)]
      rfl
    rw [hz, ag_dFold_snoc]
    have hfr := ag_dFold_frame i ((List.range outs.length).zip outs) P
    obtain ⟨ih1, ih2⟩ := ih
    have hs := ag_dStep_inbox i (dFold i ((List.range outs.length).zip outs) P) (outs.length, o) k
    obtain ⟨hs1, hs2⟩ := hs
    constructor
    · intro hk
      rw [hs1 (by rw [hfr.2.2.2.2.2.1]; exact hk), ih1 hk, List.append_assoc]
      congr 1
      by_cases hki : k = i
      · simp [hki]
      · simp only [hki, if_false, false_or]
        by_cases hkl : k = outs.length
        · subst hkl
          simp
        · simp only [hkl, ne_eq, not_false_eq_true, if_true, List.append_nil]
          rcases Nat.lt_or_gt_of_ne hkl with h | h
          · rw [List.getElem?_append_left h]
          · rw [List.getElem?_eq_none (by omega), List.getElem?_eq_none (by simp; omega)]
    · intro hk hd
      rw [hs2 (by rw [hfr.2.2.2.2.2.2]; exact hk) (by rw [hfr.2.2.2.2.1]; exact hd), ih2 hk hd,
        List.append_assoc]
      congr 1
      by_cases hki : k = i
      · simp [hki]
      · simp only [hki, if_false, false_or]
        by_cases hkl : k = outs.length
        · subst hkl
          simp
        · simp only [hkl, ne_eq, not_false_eq_true, if_true, List.append_nil]
          rcases Nat.lt_or_gt_of_ne hkl with h | h
          · rw [List.getElem?_append_left h]
          · rw [List.getElem?_eq_none (by omega), List.getElem?_eq_none (by simp; omega)]

/-- what party `k` hands to the network in the round -/
def outOf {σ} (steps : Nat → Step σ) (ps : List (Party σ)) (k : Nat) : List (Tag × Int) × List (Nat × Int) :=
  match ps[k]? with
  | some Pk => (stepParty ps.length (steps k) Pk).2
  | none => ([], [])

/-- `P'` is `Q` (party `i` after its own step) after the deliveries of the round -/
structure Delivered {σ} (steps : Nat → Step σ) (ps : List (Party σ)) (i : Nat) (Q P' : Party σ) : Prop where
  st : P'.st = Q.st
  status : P'.status = Q.status
  err : P'.err = Q.err
  fs : P'.fs = Q.fs
  dev : P'.dev = Q.dev
  blen : P'.inbox.b.length = Q.inbox.b.length
  plen : P'.inbox.p.length = Q.inbox.p.length
  b : ∀ k, k < Q.inbox.b.length →
    P'.inbox.b.getD k [] = Q.inbox.b.getD k [] ++ (if k = i then [] else (outOf steps ps k).1)
  p : ∀ k, k < Q.inbox.p.length → Q.dev.pi = [] →
    P'.inbox.p.getD k [] = Q.inbox.p.getD k [] ++
      (if k = i then [] else ((outOf steps ps k).2.filter (fun e => e.1 == i)).map (·.2))

theorem ag_runRound_length {σ} (steps : Nat → Step σ) (ps : List (Party σ)) :
    (runRound steps ps).length = ps.length := by
  simp [runRound, ag_deliverAll_eq, ag_stepAll_length]

theorem ag_runRound_party {σ} (steps : Nat → Step σ) (ps : List (Party σ)) (i : Nat) (P : Party σ)
    (hP : ps[i]? = some P) :
    ∃ P', (runRound steps ps)[i]? = some P' ∧
      Delivered steps ps i (stepParty ps.length (steps i) P).1 P' := by
  have houts : ∀ k, ((stepAll ps.length steps 0 ps).map (fun e => (e.2.1, e.2.2)))[k]? =
      (ps[k]?).map (fun Pk => (stepParty ps.length (steps k) Pk).2) := by
    intro k
    rw [List.getElem?_map, ag_stepAll_getElem?]
    cases ps[k]? with
    | none => rfl
    | some Pk => simp
  refine ⟨dFold i ((List.range ((stepAll ps.length steps 0 ps).map (fun e => (e.2.1, e.2.2))).length).zip
      ((stepAll ps.length steps 0 ps).map (fun e => (e.2.1, e.2.2)))) (stepParty ps.length (steps i) P).1, ?_, ?_⟩
  · unfold runRound
    simp only []
    rw [ag_deliverAll_getElem?, List.getElem?_map, ag_stepAll_getElem?, hP]
    simp
  · have hfr := ag_dFold_frame i ((List.range ((stepAll ps.length steps 0 ps).map (fun e => (e.2.1, e.2.2))).length).zip
      ((stepAll ps.length steps 0 ps).map (fun e => (e.2.1, e.2.2)))) (stepParty ps.length (steps i) P).1
    obtain ⟨a1, a2, a3, a4, a5, a6, a7⟩ := hfr
    refine ⟨a1, a2, a3, a4, a5, a6, a7, ?_, ?_⟩
    · intro k hk
      have h := (ag_dFold_inbox i ((stepAll ps.length steps 0 ps).map (fun e => (e.2.1, e.2.2)))
        (stepParty ps.length (steps i) P).1 k).1 hk
      rw [h, houts]
      congr 1
      by_cases hki : k = i
      · simp [hki]
      · simp only [hki, if_false, outOf]
        cases ps[k]? with
        | none => rfl
        | some Pk => rfl
    · intro k hk hd
      have h := (ag_dFold_inbox i ((stepAll ps.length steps 0 ps).map (fun e => (e.2.1, e.2.2)))
        (stepParty ps.length (steps i) P).1 k).2 hk hd
      rw [h, houts]
      congr 1
      by_cases hki : k = i
      · simp [hki]
      · simp only [hki, if_false, outOf]
        cases ps[k]? with
        | none => rfl
        | some Pk => rfl

/-! ### (2) one party's step; the output filter of an honest party -/

theorem ag_honest_unpack (d : Dev) (h : d.honest = true) :
    d.sfb = false ∧ d.silent = none ∧ d.po = [] ∧ d.pi = [] ∧ d.ba = [] ∧ d.bd = [] ∧ d.bi = [] := by
  simp only [Dev.honest, Bool.and_eq_true, Bool.not_eq_true', List.isEmpty_iff,
    Option.isNone_iff_eq_none] at h
  obtain ⟨⟨⟨⟨⟨⟨h1, h2⟩, h3⟩, h4⟩, h5⟩, h6⟩, h7⟩ := h
  exact ⟨h1, h2, h3, h4, h5, h6, h7⟩

/-- the broadcasts / the private values in a list of output operations -/
def bcs : List Op → List (Tag × Int)
  | [] => []
  | .bc tag v :: r => (tag, v) :: bcs r
  | .pv _ _ :: r => bcs r

def pvs : List Op → List (Nat × Int)
  | [] => []
  | .bc _ _ :: r => pvs r
  | .pv j v :: r => (j, v) :: pvs r

theorem ag_bcs_append (a b : List Op) : bcs (a ++ b) = bcs a ++ bcs b := by
  induction a with
  | nil => rfl
  | cons x a ih => cases x <;> simp [bcs, ih]

theorem ag_pvs_append (a b : List Op) : pvs (a ++ b) = pvs a ++ pvs b := by
  induction a with
  | nil => rfl
  | cons x a ih => cases x <;> simp [pvs, ih]

theorem ag_bcs_map_bc (l : List Int) : bcs (l.map (Op.bc none)) = l.map (fun v => ((none : Tag), v)) := by
  induction l with
  | nil => rfl
  | cons x l ih => simp [bcs, ih]

theorem ag_pvs_map_bc (tag : Tag) (l : List Int) : pvs (l.map (Op.bc tag)) = [] := by
  induction l with
  | nil => rfl
  | cons x l ih => simp [pvs, ih]

/-- the output filter of a party that follows the protocol lets everything through unchanged -/
theorem ag_applyOps_honest (n : Nat) (d : Dev) (hd : d.honest = true) (ops : List Op) (fs : FState)
    (hfs : fs.dead = false) :
    (applyOps n d ops fs).2 = (bcs ops, pvs ops) ∧ (applyOps n d ops fs).1.dead = false := by
  obtain ⟨h1, h2, h3, h4, h5, h6, h7⟩ := ag_honest_unpack d hd
  induction ops generalizing fs with
  | nil => simp [applyOps, bcs, pvs, hfs]
  | cons op ops ih =>
    obtain ⟨o, sg, off, pc, dd⟩ := fs
    simp only at hfs
    subst hfs
    have hfs : ({ ops := o, seg := sg, off := off, poCnt := pc, dead := false } : FState).dead = false := rfl
    cases op with
    | bc tag v =>
      simp only [applyOps, applyOp, h2, h5, h6, h7, bcs, pvs]
      by_cases hv : v = (n : Int)
      · have := ih { ops := o + 1, seg := sg + 1, off := 0, poCnt := pc, dead := false } rfl
        simp [hv, lookup2, this.1, this.2]
      · have := ih { ops := o + 1, seg := sg, off := off + 1, poCnt := pc, dead := false } rfl
        simp [hv, lookup2, this.1, this.2]
    | pv j v =>
      have := ih { ops := o + 1, seg := sg, off := off, poCnt := bump pc j, dead := false } rfl
      simp [applyOps, applyOp, h2, h3, bcs, pvs, lookup2, this.1, this.2]

theorem ag_stepParty_notlive {σ} (n : Nat) (step : Step σ) (P : Party σ) (h : P.live = false) :
    stepParty n step P = (P, [], []) := by
  simp [stepParty, h]

/-- a party that follows the protocol: script without deviation, alive, no error, still running -/
def HL {σ} (P : Party σ) : Prop :=
  P.dev.honest = true ∧ P.fs.dead = false ∧ P.err = none ∧ P.status = .run

theorem ag_HL_live {σ} (P : Party σ) (h : HL P) : P.live = true := by
  obtain ⟨-, h2, h3, h4⟩ := h
  simp [Party.live, h2, h3, h4]

theorem ag_stepParty_honest {σ} (n : Nat) (step : Step σ) (P : Party σ) (h : HL P)
    (st : σ) (I : Inbox) (ops : List Op) (status : Status)
    (hs : step P.st P.inbox = .ok (st, I, ops, status)) :
    ∃ fs, fs.dead = false ∧
      stepParty n step P = ({ P with st := st, inbox := I, fs := fs, status := status }, bcs ops, pvs ops) := by
  have hl := ag_HL_live P h
  obtain ⟨ho, h2, -, -⟩ := h
  have ha := ag_applyOps_honest n P.dev ho ops P.fs h2
  refine ⟨(applyOps n P.dev ops P.fs).1, ha.2, ?_⟩
  unfold stepParty
  simp only [hl, Bool.not_true, Bool.false_eq_true, if_false, hs]
  rcases hx : applyOps n P.dev ops P.fs with ⟨fs, bs, ps⟩
  rw [hx] at ha
  simp only at ha
  obtain ⟨ha1, -⟩ := ha
  injection ha1 with e1 e2
  subst e1 e2
  rfl

/-- the state of a party after its step is the old one or the one its step function returned -/
theorem ag_stepParty_st {σ} (n : Nat) (step : Step σ) (P : Party σ) :
    (stepParty n step P).1.st = P.st ∨
      ∃ I ops status, step P.st P.inbox = .ok ((stepParty n step P).1.st, I, ops, status) := by
  unfold stepParty
  by_cases hl : P.live = true
  · simp only [hl, Bool.not_true, Bool.false_eq_true, if_false]
    cases hs : step P.st P.inbox with
    | error e => left; rfl
    | ok r =>
      obtain ⟨st, I, ops, status⟩ := r
      right
      exact ⟨I, ops, status, rfl⟩
  · left
    simp [hl]

/-! ### (3) `qual` is fixed after round 3 -/

theorem ag_bind_ok {ε α β} (x : Except ε α) (f : α → Except ε β) (r : β) (h : x >>= f = .ok r) :
    ∃ a, x = .ok a ∧ f a = .ok r := by
  cases x with
  | error e => cases h
  | ok a => exact ⟨a, rfl, h⟩

theorem ag_genFinish_qual (st st' : GenSt) (h : genFinish G st = .ok st') : st'.qual = st.qual := by
  unfold genFinish at h
  obtain ⟨A, -, h⟩ := ag_bind_ok _ _ _ h
  obtain ⟨vi, -, h⟩ := ag_bind_ok _ _ _ h
  injection h with h
  rw [← h]

theorem ag_genRecNext_qual (st st' : GenSt) (ops : List Op) (s : Status)
    (h : genRecNext G st = .ok (st', ops, s)) : st'.qual = st.qual := by
  unfold genRecNext at h
  split at h
  · obtain ⟨st1, h1, h⟩ := ag_bind_ok _ _ _ h
    injection h with h
    injection h with h
    rw [← h]
    exact ag_genFinish_qual st st1 h1
  · split at h
    · injection h with h
      injection h with h
      rw [← h]
    · injection h with h
      injection h with h
      rw [← h]

theorem ag_genExtractCheck_qual (st st' : GenSt) (I I' : Inbox) (ops : List Op) (s : Status)
    (h : genExtractCheck G st I = .ok (st', I', ops, s)) : st'.qual = st.qual := by
  unfold genExtractCheck at h
  obtain ⟨⟨I1, A, cm⟩, -, h⟩ := ag_bind_ok _ _ _ h
  injection h with h
  injection h with h
  rw [← h]

theorem ag_genExtractCollect_qual (st st' : GenSt) (I I' : Inbox) (ops : List Op) (s : Status)
    (h : genExtractCollect G st I = .ok (st', I', ops, s)) : st'.qual = st.qual := by
  unfold genExtractCollect at h
  obtain ⟨⟨I1, cm⟩, -, h⟩ := ag_bind_ok _ _ _ h
  simp only at h
  split at h
  · injection h with h
    injection h with h
    rw [← h]
  · obtain ⟨⟨st2, ops2, s2⟩, h1, h⟩ := ag_bind_ok _ _ _ h
    injection h with h
    injection h with h
    rw [← h]
    exact (ag_genRecNext_qual _ _ _ _ h1).trans rfl

theorem ag_genRecStep_qual (st st' : GenSt) (I I' : Inbox) (ops : List Op) (s : Status)
    (h : genRecStep G st I = .ok (st', I', ops, s)) : st'.qual = st.qual := by
  unfold genRecStep at h
  split at h
  · injection h with h
    injection h with h
    rw [← h]
  · obtain ⟨⟨I1, parties, shares⟩, -, h⟩ := ag_bind_ok _ _ _ h
    simp only at h
    split at h
    · injection h with h
      injection h with h
      rw [← h]
    · split at h
      · injection h with h
        injection h with h
        rw [← h]
      · split at h
        · injection h with h
          injection h with h
          rw [← h]
        · obtain ⟨⟨st3, ops3, s3⟩, h1, h⟩ := ag_bind_ok _ _ _ h
          injection h with h
          injection h with h
          rw [← h]
          exact (ag_genRecNext_qual _ _ _ _ h1).trans rfl

theorem ag_genStep_qual (ins : List PartyIn) (n t k i : Nat) (hk : 4 ≤ k) (st st' : GenSt) (I I' : Inbox)
    (ops : List Op) (s : Status) (h : genStep G ins n t k i st I = .ok (st', I', ops, s)) :
    st'.qual = st.qual := by
  unfold genStep at h
  match k, hk with
  | 4, _ => exact ag_genExtractCheck_qual _ _ _ _ _ _ h
  | 5, _ => exact ag_genExtractCollect_qual _ _ _ _ _ _ h
  | k + 6, _ => exact ag_genRecStep_qual _ _ _ _ _ _ h

theorem ag_runRound_qual (ins : List PartyIn) (n t k : Nat) (hk : 4 ≤ k) (ps : List (Party GenSt)) (i : Nat) :
    ((runRound (genStep G ins n t k) ps)[i]?).map (fun P => P.st.qual) = (ps[i]?).map (fun P => P.st.qual) := by
  cases hP : ps[i]? with
  | none =>
    have : (runRound (genStep G ins n t k) ps)[i]? = none := by
      rw [List.getElem?_eq_none_iff, ag_runRound_length]
      exact List.getElem?_eq_none_iff.mp hP
    rw [this]
  | some P =>
    obtain ⟨P', hP', hd⟩ := ag_runRound_party (genStep G ins n t k) ps i P hP
    rw [hP']
    simp only [Option.map_some, hd.st]
    congr 1
    rcases ag_stepParty_st ps.length (genStep G ins n t k i) P with h | ⟨I, ops, status, h⟩
    · rw [h]
    · exact ag_genStep_qual ins n t k i hk _ _ _ _ _ _ h

theorem ag_runRounds_qual (ins : List PartyIn) (n t : Nat) (l : List Nat) (hl : ∀ k ∈ l, 4 ≤ k)
    (ps : List (Party GenSt)) (i : Nat) :
    ((runRounds (genStep G ins n t) l ps)[i]?).map (fun P => P.st.qual) = (ps[i]?).map (fun P => P.st.qual) := by
  induction l generalizing ps with
  | nil => rfl
  | cons k l ih =>
    simp only [runRounds]
    rw [ih (fun k hk => hl k (List.mem_cons_of_mem _ hk)), ag_runRound_qual ins n t k (hl k (by simp))]

/-! ### (4) inboxes as families of streams; the readers as functions of one sender's stream -/

/-- the unread broadcast values / private values of sender `k` -/
def bsOf (I : Inbox) (k : Nat) : List (Tag × Int) := I.b.getD k []
def psOf (I : Inbox) (k : Nat) : List Int := I.p.getD k []
def setB (I : Inbox) (j : Nat) (s : List (Tag × Int)) : Inbox := { I with b := I.b.set j s }
def setP (I : Inbox) (j : Nat) (s : List Int) : Inbox := { I with p := I.p.set j s }

theorem ag_set_getD_self {α} (l : List α) (j : Nat) (d : α) : l.set j (l.getD j d) = l := by
  by_cases h : j < l.length
  · rw [List.getD_eq_getElem _ _ h, List.set_getElem_self]
  · exact List.set_eq_of_length_le (by omega)

theorem ag_setB_self (I : Inbox) (j : Nat) : setB I j (bsOf I j) = I := by
  unfold setB bsOf
  rw [ag_set_getD_self]

theorem ag_setP_self (I : Inbox) (j : Nat) : setP I j (psOf I j) = I := by
  unfold setP psOf
  rw [ag_set_getD_self]

theorem ag_setB_setB (I : Inbox) (j : Nat) (s s' : List (Tag × Int)) : setB (setB I j s) j s' = setB I j s' := by
  simp [setB, List.set_set]

theorem ag_setP_setP (I : Inbox) (j : Nat) (s s' : List Int) : setP (setP I j s) j s' = setP I j s' := by
  simp [setP, List.set_set]

theorem ag_bsOf_setB (I : Inbox) (j k : Nat) (s : List (Tag × Int)) :
    bsOf (setB I j s) k = if j = k ∧ k < I.b.length then s else bsOf I k := by
  simp only [bsOf, setB, ag_getD_set]

theorem ag_psOf_setP (I : Inbox) (j k : Nat) (s : List Int) :
    psOf (setP I j s) k = if j = k ∧ k < I.p.length then s else psOf I k := by
  simp only [psOf, setP, ag_getD_set]

@[simp] theorem ag_setB_blen (I : Inbox) (j : Nat) (s) : (setB I j s).b.length = I.b.length := by simp [setB]
@[simp] theorem ag_setB_p (I : Inbox) (j : Nat) (s) : (setB I j s).p = I.p := rfl
@[simp] theorem ag_setP_plen (I : Inbox) (j : Nat) (s) : (setP I j s).p.length = I.p.length := by simp [setP]
@[simp] theorem ag_setP_b (I : Inbox) (j : Nat) (s) : (setP I j s).b = I.b := rfl
@[simp] theorem ag_bsOf_setP (I : Inbox) (j k : Nat) (s) : bsOf (setP I j s) k = bsOf I k := rfl
@[simp] theorem ag_psOf_setB (I : Inbox) (j k : Nat) (s) : psOf (setB I j s) k = psOf I k := rfl

theorem ag_bsOf_setB_self (I : Inbox) (j : Nat) (s) (hj : j < I.b.length) : bsOf (setB I j s) j = s := by
  rw [ag_bsOf_setB]; simp [hj]

theorem ag_bsOf_setB_ne (I : Inbox) (j k : Nat) (s) (h : j ≠ k) : bsOf (setB I j s) k = bsOf I k := by
  rw [ag_bsOf_setB]; simp [h]

theorem ag_psOf_setP_self (I : Inbox) (j : Nat) (s) (hj : j < I.p.length) : psOf (setP I j s) j = s := by
  rw [ag_psOf_setP]; simp [hj]

theorem ag_psOf_setP_ne (I : Inbox) (j k : Nat) (s) (h : j ≠ k) : psOf (setP I j s) k = psOf I k := by
  rw [ag_psOf_setP]; simp [h]

/-- `popB` on one stream -/
def popS (tag : Tag) (s : List (Tag × Int)) : Option Int × List (Tag × Int) :=
  match removeFirst tag s with
  | none => (none, s)
  | some (v, r) => (some v, r)

theorem ag_popB (I : Inbox) (tag : Tag) (j : Nat) :
    I.popB tag j = ((popS tag (bsOf I j)).1, setB I j (popS tag (bsOf I j)).2) := by
  unfold Inbox.popB popS
  show (match removeFirst tag (bsOf I j) with
    | none => (none, I)
    | some (v, r) => (some v, setB I j r)) = _
  cases removeFirst tag (bsOf I j) with
  | none => simp [ag_setB_self]
  | some vr => rfl

theorem ag_popP (I : Inbox) (j : Nat) :
    I.popP j = ((psOf I j).head?, setP I j (psOf I j).tail) := by
  unfold Inbox.popP
  show (match psOf I j with
    | [] => (none, I)
    | v :: r => (some v, setP I j r)) = _
  cases h : psOf I j with
  | nil =>
    have := ag_setP_self I j
    rw [h] at this
    simp [this]
  | cons v r => rfl

theorem ag_popS_none_cons (v : Int) (r : List (Tag × Int)) :
    popS none (((none : Tag), v) :: r) = (some v, r) := by
  simp [popS, removeFirst]

theorem ag_popS_nil (tag : Tag) : popS tag [] = (none, []) := by
  simp [popS, removeFirst]

/-- `readElems` on one stream -/
def reS (G : Grp) (tag : Tag) : Nat → List (Tag × Int) → List Int → Bool → Bool × List (Tag × Int) × List Int
  | 0, s, acc, c => (c, s, acc)
  | f + 1, s, acc, c =>
    match popS tag s with
    | (none, s1) => (true, s1, acc)
    | (some v, s1) =>
      if checkElement G v then reS G tag f s1 (acc ++ [v]) c
      else reS G tag f s1 (acc ++ [0]) true

theorem ag_readElems (tag : Tag) (j : Nat) (f : Nat) (I : Inbox) (hj : j < I.b.length) (acc : List Int) (c : Bool) :
    readElems G tag j f I acc c =
      ((reS G tag f (bsOf I j) acc c).1, setB I j (reS G tag f (bsOf I j) acc c).2.1,
        (reS G tag f (bsOf I j) acc c).2.2) := by
  induction f generalizing I acc c with
  | zero => simp [readElems, reS, ag_setB_self]
  | succ f ih =>
    unfold readElems reS
    rw [ag_popB]
    rcases hp : popS tag (bsOf I j) with ⟨_ | v, s1⟩
    · simp
    · simp only
      cases hc : checkElement G v
      · simp only [Bool.false_eq_true, if_false]
        rw [ih (setB I j s1) (by simpa using hj), ag_bsOf_setB_self I j s1 hj, ag_setB_setB]
      · simp only [if_true]
        rw [ih (setB I j s1) (by simpa using hj), ag_bsOf_setB_self I j s1 hj, ag_setB_setB]

/-- one sender's complaint list (step 1(c)) on its stream: the new distinct valid complaints, the
    number of times the sender is put on the complaint list, the rest of the stream -/
def rcS (n : Nat) : Nat → Nat → List Nat → List (Tag × Int) → List Nat × Nat × List (Tag × Int)
  | 0, _, _, s => ([], 0, s)
  | f + 1, it, dup, s =>
    match popS none s with
    | (none, s1) => ([], 1, s1)
    | (some v, s1) =>
      let who := getUi v
      if who < n ∧ ¬ dup.contains who then
        if it + 1 ≤ n then
          let r := rcS n f (it + 1) (dup ++ [who]) s1
          (who :: r.1, r.2.1, r.2.2)
        else ([who], 0, s1)
      else if who < n then
        if it + 1 ≤ n then
          let r := rcS n f (it + 1) dup s1
          (r.1, r.2.1 + 1, r.2.2)
        else ([], 1, s1)
      else ([], 0, s1)

/-- `cnt[w] += 1` for every `w` of the list -/
def bumpL (cnt : List Nat) (ws : List Nat) : List Nat :=
  ws.foldl (fun c w => c.set w (getN c w + 1)) cnt

theorem ag_genReadComplaints (st : GenSt) (j : Nat) (f : Nat) (it : Nat) (dup : List Nat) (I : Inbox)
    (hj : j < I.b.length) (cnt cf cm : List Nat) :
    genReadComplaints st j f it dup I cnt cf cm =
      (setB I j (rcS st.n f it dup (bsOf I j)).2.2, bumpL cnt (rcS st.n f it dup (bsOf I j)).1,
        cf ++ ((rcS st.n f it dup (bsOf I j)).1.filter (fun w => w = st.i)).map (fun _ => j),
        cm ++ List.replicate (rcS st.n f it dup (bsOf I j)).2.1 j) := by
  induction f generalizing it dup I cnt cf cm with
  | zero => simp [genReadComplaints, rcS, ag_setB_self, bumpL]
  | succ f ih =>
    unfold genReadComplaints rcS
    rw [ag_popB]
    rcases hp : popS none (bsOf I j) with ⟨_ | v, s1⟩
    · simp [bumpL]
    · simp only
      by_cases h1 : getUi v < st.n ∧ ¬ dup.contains (getUi v) = true
      · simp only [h1, if_true, true_and]
        by_cases h2 : it + 1 ≤ st.n
        · simp only [h2, if_true]
          rw [ih _ _ (setB I j s1) (by simpa using hj), ag_bsOf_setB_self I j s1 hj, ag_setB_setB]
          by_cases h3 : getUi v = st.i
          · simp [bumpL, h3]
          · simp [bumpL, h3]
        · simp only [h2, if_false]
          by_cases h3 : getUi v = st.i
          · simp [bumpL, h3]
          · simp [bumpL, h3]
      · simp only [h1, if_false]
        by_cases h4 : getUi v < st.n
        · simp only [h4, if_true, true_and]
          by_cases h2 : it + 1 ≤ st.n
          · simp only [h2, if_true]
            rw [ih _ _ (setB I j s1) (by simpa using hj), ag_bsOf_setB_self I j s1 hj, ag_setB_setB]
            simp [List.replicate_succ]
          · simp only [h2, if_false]
            simp [bumpL]
        · simp [h4, bumpL]

theorem ag_ite_pair (c : Bool) (x : Int) :
    (if c = true then (true, (0 : Int)) else (false, x)) = (c, if c = true then 0 else x) := by
  cases c <;> rfl

theorem ag_ite_cm (c : Bool) (cm : List Nat) (j : Nat) :
    (if c = true then cm ++ [j] else cm) = cm ++ List.replicate (if c = true then 1 else 0) j := by
  cases c <;> simp

theorem ag_rep1 (cm : List Nat) (j a1 a2 bad : Nat) :
    cm ++ List.replicate a1 j ++ List.replicate a2 j ++ [j] ++ List.replicate bad j =
      cm ++ List.replicate (a1 + a2 + 1 + bad) j := by
  rw [show [j] = List.replicate 1 j from rfl]
  simp only [List.append_assoc, List.replicate_append_replicate]

theorem ag_rep0 (cm : List Nat) (j a1 a2 bad : Nat) :
    cm ++ List.replicate a1 j ++ List.replicate a2 j ++ List.replicate bad j =
      cm ++ List.replicate (a1 + a2 + 0 + bad) j := by
  simp only [List.append_assoc, List.replicate_append_replicate, Nat.add_zero]

/-- the answers of one dealer (step 1(d)) on its stream: the number of times the dealer is put on
    the complaint list, the rest of the stream -/
def raS (G : Grp) (n : Nat) (Cj : List Int) : Nat → List (Tag × Int) → Except Err (Nat × List (Tag × Int))
  | 0, s => .ok (0, s)
  | f + 1, s =>
    match popS none s with
    | (none, s1) => .ok (1, s1)
    | (some w, s1) =>
      if getUi w ≥ n then .ok (0, s1)
      else
        match popS none s1 with
        | (none, s2) => .ok (1, s2)
        | (some foo0, s2) =>
          match popS none s2 with
          | (none, s3) => .ok ((if absGe foo0 G.q then 1 else 0) + 1, s3)
          | (some bar0, s3) =>
            match pedF G (if absGe foo0 G.q then 0 else foo0) (if absGe bar0 G.q then 0 else bar0) with
            | .error e => .error e
            | .ok lhs =>
              match commitProd G.p (getUi w + 1) Cj with
              | .error e => .error e
              | .ok rhs =>
                match raS G n Cj f s3 with
                | .error e => .error e
                | .ok r =>
                  .ok ((if absGe foo0 G.q then 1 else 0) + (if absGe bar0 G.q then 1 else 0) +
                    (if lhs != rhs then 1 else 0) + r.1, r.2)

theorem ag_genReadAnswers (st : GenSt) (j : Nat) (f : Nat) (I : Inbox) (hj : j < I.b.length)
    (s sp : List Int) (cm : List Nat) :
    match raS G st.n (getRow st.C j) f (bsOf I j) with
    | .ok (bad, rest) => ∃ s' sp', genReadAnswers G st j f I s sp cm =
        .ok (setB I j rest, s', sp', cm ++ List.replicate bad j)
    | .error e => genReadAnswers G st j f I s sp cm = .error e := by
  induction f generalizing I s sp cm with
  | zero => simp [genReadAnswers, raS, ag_setB_self]
  | succ f ih =>
    unfold genReadAnswers raS
    rw [ag_popB]
    rcases hp1 : popS none (bsOf I j) with ⟨_ | w, s1⟩
    · exact ⟨s, sp, by simp⟩
    · simp only
      by_cases hw : getUi w ≥ st.n
      · simp only [hw, if_true]
        exact ⟨s, sp, by simp⟩
      · simp only [hw, if_false]
        rw [ag_popB, ag_bsOf_setB_self I j s1 hj, ag_setB_setB]
        rcases hp2 : popS none s1 with ⟨_ | foo0, s2⟩
        · exact ⟨s, sp, by simp⟩
        · simp only
          rw [ag_popB, ag_bsOf_setB_self I j s2 hj, ag_setB_setB]
          rcases hp3 : popS none s2 with ⟨_ | bar0, s3⟩
          · simp only
            cases absGe foo0 G.q
            · exact ⟨s, sp, by simp⟩
            · exact ⟨s, sp, by simp [List.replicate_succ]⟩
          · simp only
            have hj3 : j < (setB I j s3).b.length := by simpa using hj
            have hb3 : bsOf (setB I j s3) j = s3 := ag_bsOf_setB_self I j s3 hj
            have ihh := fun s sp cm => ih (setB I j s3) hj3 s sp cm
            rw [hb3] at ihh
            simp only [ag_ite_pair, ag_ite_cm]
            generalize (if absGe foo0 G.q = true then (0 : Int) else foo0) = foo
            generalize (if absGe bar0 G.q = true then (0 : Int) else bar0) = bar
            generalize (if absGe foo0 G.q = true then 1 else 0) = a1
            generalize (if absGe bar0 G.q = true then 1 else 0) = a2
            simp only [ag_setB_setB] at ihh
            cases hl : pedF G foo bar with
            | error e => simp [bind, Except.bind]
            | ok lhs =>
              cases hr : commitProd G.p (getUi w + 1) (getRow st.C j) with
              | error e => simp [bind, Except.bind]
              | ok rhs =>
                simp only [bind, Except.bind]
                cases hrec : raS G st.n (getRow st.C j) f s3 with
                | error e =>
                  simp only [hrec] at ihh
                  simp only
                  split <;> (try split) <;> exact ihh _ _ _
                | ok r =>
                  obtain ⟨bad, rest⟩ := r
                  simp only [hrec] at ihh
                  simp only
                  by_cases hne : (lhs != rhs) = true
                  · simp only [hne, if_true]
                    obtain ⟨s', sp', h⟩ := ihh s sp (cm ++ List.replicate a1 j ++ List.replicate a2 j ++ [j])
                    refine ⟨s', sp', ?_⟩
                    rw [h, ag_rep1]
                  · simp only [hne]
                    by_cases hwi : getUi w = st.i
                    · simp only [hwi, if_true]
                      obtain ⟨s', sp', h⟩ := ihh (s.set j foo) (sp.set j bar)
                        (cm ++ List.replicate a1 j ++ List.replicate a2 j)
                      refine ⟨s', sp', ?_⟩
                      rw [h, ag_rep0]
                      simp
                    · simp only [hwi, if_false]
                      obtain ⟨s', sp', h⟩ := ihh s sp (cm ++ List.replicate a1 j ++ List.replicate a2 j)
                      refine ⟨s', sp', ?_⟩
                      rw [h, ag_rep0]
                      simp

/-! ### (5) the loops over the senders -/

theorem ag_getRow_set (C : List (List Int)) (j k : Nat) (x : List Int) :
    getRow (C.set j x) k = if j = k ∧ k < C.length then x else getRow C k := by
  unfold getRow
  exact ag_getD_set C j k x []

theorem ag_getI_set (l : List Int) (j k : Nat) (x : Int) :
    getI (l.set j x) k = if j = k ∧ k < l.length then x else getI l k := by
  unfold getI
  exact ag_getD_set l j k x 0

theorem ag_getN_set (l : List Nat) (j k : Nat) (x : Nat) :
    getN (l.set j x) k = if j = k ∧ k < l.length then x else getN l k := by
  unfold getN
  exact ag_getD_set l j k x 0

/-- step 1(b), the commitments: lengths -/
theorem ag_genReadC_glob (st : GenSt) (L : List Nat) (I : Inbox) (hI : ∀ j ∈ L, j < I.b.length)
    (C : List (List Int)) (cm : List Nat) :
    (genReadC G st L I C cm).1.b.length = I.b.length ∧ (genReadC G st L I C cm).1.p = I.p ∧
    (genReadC G st L I C cm).2.1.length = C.length := by
  induction L generalizing I C cm with
  | nil => simp [genReadC]
  | cons j rest ih =>
    unfold genReadC
    by_cases hji : j = st.i
    · simp only [hji, if_true]
      exact ih I (fun k hk => hI k (List.mem_cons_of_mem _ hk)) C cm
    · simp only [hji, if_false]
      rw [ag_readElems none j (st.t + 1) I (hI j (by simp))]
      simp only
      have := ih (setB I j (reS G none (st.t + 1) (bsOf I j) [] false).2.1)
        (fun k hk => by simpa using hI k (List.mem_cons_of_mem _ hk))
        (C.set j (padRow st.t (reS G none (st.t + 1) (bsOf I j) [] false).2.2))
        (if (reS G none (st.t + 1) (bsOf I j) [] false).1 = true then cm ++ [j] else cm)
      simpa using this

/-- step 1(b), the commitments: a sender that is not read -/
theorem ag_genReadC_frame (st : GenSt) (k : Nat) (L : List Nat) (I : Inbox) (hI : ∀ j ∈ L, j < I.b.length)
    (C : List (List Int)) (cm : List Nat) (hk : k ∉ L ∨ k = st.i) :
    bsOf (genReadC G st L I C cm).1 k = bsOf I k ∧ getRow (genReadC G st L I C cm).2.1 k = getRow C k ∧
    (k ∈ (genReadC G st L I C cm).2.2 ↔ k ∈ cm) := by
  induction L generalizing I C cm with
  | nil => simp [genReadC]
  | cons j rest ih =>
    unfold genReadC
    have hk' : k ∉ rest ∨ k = st.i := by
      rcases hk with h | h
      · exact Or.inl (fun hh => h (List.mem_cons_of_mem _ hh))
      · exact Or.inr h
    by_cases hji : j = st.i
    · simp only [hji, if_true]
      exact ih I (fun k hk => hI k (List.mem_cons_of_mem _ hk)) C cm hk'
    · simp only [hji, if_false]
      rw [ag_readElems none j (st.t + 1) I (hI j (by simp))]
      simp only
      have hkj : j ≠ k := by
        rintro rfl
        rcases hk with h | h
        · exact h (by simp)
        · exact hji h
      obtain ⟨h1, h2, h3⟩ := ih (setB I j (reS G none (st.t + 1) (bsOf I j) [] false).2.1)
        (fun k hk => by simpa using hI k (List.mem_cons_of_mem _ hk))
        (C.set j (padRow st.t (reS G none (st.t + 1) (bsOf I j) [] false).2.2))
        (if (reS G none (st.t + 1) (bsOf I j) [] false).1 = true then cm ++ [j] else cm) hk'
      refine ⟨by rw [h1, ag_bsOf_setB_ne _ _ _ _ hkj], by rw [h2, ag_getRow_set]; simp [hkj], ?_⟩
      rw [h3]
      split
      · simp [List.mem_append, Ne.symm hkj]
      · rfl

/-- step 1(b), the commitments: a sender that is read -/
theorem ag_genReadC_hit (st : GenSt) (k : Nat) (L : List Nat) (hL : L.Nodup) (I : Inbox)
    (hI : ∀ j ∈ L, j < I.b.length) (C : List (List Int)) (cm : List Nat) (hk : k ∈ L) (hki : k ≠ st.i) :
    bsOf (genReadC G st L I C cm).1 k = (reS G none (st.t + 1) (bsOf I k) [] false).2.1 ∧
    (k < C.length → getRow (genReadC G st L I C cm).2.1 k =
      padRow st.t (reS G none (st.t + 1) (bsOf I k) [] false).2.2) ∧
    (k ∈ (genReadC G st L I C cm).2.2 ↔ k ∈ cm ∨ (reS G none (st.t + 1) (bsOf I k) [] false).1 = true) := by
  induction L generalizing I C cm with
  | nil => simp at hk
  | cons j rest ih =>
    have hnd := List.nodup_cons.mp hL
    unfold genReadC
    by_cases hji : j = st.i
    · simp only [hji, if_true]
      have hk2 : k ∈ rest := by
        rcases List.mem_cons.mp hk with h | h
        · exact absurd (h.trans hji) hki
        · exact h
      exact ih hnd.2 I (fun k hk => hI k (List.mem_cons_of_mem _ hk)) C cm hk2
    · simp only [hji, if_false]
      rw [ag_readElems none j (st.t + 1) I (hI j (by simp))]
      simp only
      have hI' : ∀ k ∈ rest, k < (setB I j (reS G none (st.t + 1) (bsOf I j) [] false).2.1).b.length :=
        fun k hk => by simpa using hI k (List.mem_cons_of_mem _ hk)
      rcases List.mem_cons.mp hk with h | h
      · subst h
        obtain ⟨h1, h2, h3⟩ := ag_genReadC_frame (G := G) st k rest
          (setB I k (reS G none (st.t + 1) (bsOf I k) [] false).2.1) hI'
          (C.set k (padRow st.t (reS G none (st.t + 1) (bsOf I k) [] false).2.2))
          (if (reS G none (st.t + 1) (bsOf I k) [] false).1 = true then cm ++ [k] else cm) (Or.inl hnd.1)
        refine ⟨by rw [h1, ag_bsOf_setB_self _ _ _ (hI k (by simp))], ?_, ?_⟩
        · intro hkC
          rw [h2, ag_getRow_set]
          simp [hkC]
        · rw [h3]
          split
          · rename_i hc
            simp [hc]
          · rename_i hc
            simp [hc]
      · have hkj : j ≠ k := by
          rintro rfl
          exact hnd.1 h
        obtain ⟨h1, h2, h3⟩ := ih hnd.2 (setB I j (reS G none (st.t + 1) (bsOf I j) [] false).2.1) hI'
          (C.set j (padRow st.t (reS G none (st.t + 1) (bsOf I j) [] false).2.2))
          (if (reS G none (st.t + 1) (bsOf I j) [] false).1 = true then cm ++ [j] else cm) h
        rw [ag_bsOf_setB_ne _ _ _ _ hkj] at h1 h2 h3
        refine ⟨h1, ?_, ?_⟩
        · intro hkC
          exact h2 (by simpa using hkC)
        · rw [h3]
          split
          · simp [List.mem_append, Ne.symm hkj]
          · rfl

/-- one sender's pair of private values (step 1(b)): the values stored, whether the sender is
    complained about, the rest of the stream -/
def shOne (q : Int) (l : List Int) : Option Int × Option Int × Bool × List Int :=
  match l with
  | [] => (none, none, true, [])
  | v :: r =>
    match r with
    | [] => (some (if absGe v q then 0 else v), none, true, [])
    | w :: r2 => (some (if absGe v q then 0 else v), some (if absGe w q then 0 else w),
        absGe v q || absGe w q, r2)

def setO (l : List Int) (j : Nat) (o : Option Int) : List Int :=
  match o with
  | none => l
  | some v => l.set j v

theorem ag_genReadShares_cons (q : Int) (st : GenSt) (j : Nat) (rest : List Nat) (I : Inbox)
    (hj : j < I.p.length) (hji : j ≠ st.i) (s sp : List Int) (cm : List Nat) :
    genReadShares q st (j :: rest) I s sp cm =
      genReadShares q st rest (setP I j (shOne q (psOf I j)).2.2.2) (setO s j (shOne q (psOf I j)).1)
        (setO sp j (shOne q (psOf I j)).2.1) (if (shOne q (psOf I j)).2.2.1 = true then cm ++ [j] else cm) := by
  rw [genReadShares]
  simp only [hji, if_false]
  rw [ag_popP]
  cases h1 : psOf I j with
  | nil =>
    have := ag_setP_self I j
    rw [h1] at this
    simp [shOne, setO, this]
  | cons v r =>
    simp only [List.head?_cons, List.tail_cons]
    rw [ag_popP, ag_psOf_setP_self I j r hj, ag_setP_setP]
    cases r with
    | nil =>
      cases hv : absGe v q <;> simp [shOne, setO, hv]
    | cons w r2 =>
      cases hv : absGe v q <;> cases hw : absGe w q <;> simp [shOne, setO, hv, hw]

def InR (q : Int) (l : List Int) : Prop := ∀ x ∈ l, x.natAbs < q.natAbs

theorem ag_absGe_range (q : Int) (hq : 0 < q) (v : Int) : (if absGe v q then 0 else v).natAbs < q.natAbs := by
  unfold absGe
  by_cases h : q.natAbs ≤ v.natAbs
  · simp [h]; omega
  · simp [h]; omega

theorem ag_InR_set (q : Int) (l : List Int) (j : Nat) (v : Int) (hl : InR q l) (hv : v.natAbs < q.natAbs) :
    InR q (l.set j v) := by
  intro x hx
  rcases List.mem_or_eq_of_mem_set hx with h | h
  · exact hl x h
  · rw [h]; exact hv

theorem ag_InR_setO_shOne (q : Int) (hq : 0 < q) (l : List Int) (j : Nat) (ps : List Int) (hl : InR q l) :
    InR q (setO l j (shOne q ps).1) ∧ InR q (setO l j (shOne q ps).2.1) := by
  unfold shOne
  cases ps with
  | nil => exact ⟨hl, hl⟩
  | cons v r =>
    cases r with
    | nil => exact ⟨ag_InR_set q l j _ hl (ag_absGe_range q hq v), hl⟩
    | cons w r2 =>
      exact ⟨ag_InR_set q l j _ hl (ag_absGe_range q hq v), ag_InR_set q l j _ hl (ag_absGe_range q hq w)⟩

theorem ag_setO_length (l : List Int) (j : Nat) (o : Option Int) : (setO l j o).length = l.length := by
  cases o <;> simp [setO]

theorem ag_getI_setO_ne (l : List Int) (j k : Nat) (o : Option Int) (h : j ≠ k) : getI (setO l j o) k = getI l k := by
  cases o with
  | none => rfl
  | some v => simp [setO, ag_getI_set, h]

/-- step 1(b), the shares: broadcast streams untouched, lengths, ranges -/
theorem ag_genReadShares_glob (q : Int) (hq : 0 < q) (st : GenSt) (L : List Nat) (I : Inbox)
    (hI : ∀ j ∈ L, j < I.p.length) (s sp : List Int) (cm : List Nat) :
    (genReadShares q st L I s sp cm).1.b = I.b ∧
    (genReadShares q st L I s sp cm).2.1.length = s.length ∧
    (genReadShares q st L I s sp cm).2.2.1.length = sp.length ∧
    (InR q s → InR q (genReadShares q st L I s sp cm).2.1) ∧
    (InR q sp → InR q (genReadShares q st L I s sp cm).2.2.1) := by
  induction L generalizing I s sp cm with
  | nil => simp [genReadShares]
  | cons j rest ih =>
    by_cases hji : j = st.i
    · rw [genReadShares]
      simp only [hji, if_true]
      exact ih I (fun k hk => hI k (List.mem_cons_of_mem _ hk)) s sp cm
    · rw [ag_genReadShares_cons q st j rest I (hI j (by simp)) hji]
      obtain ⟨h1, h2, h3, h4, h5⟩ := ih (setP I j (shOne q (psOf I j)).2.2.2)
        (fun k hk => by simpa using hI k (List.mem_cons_of_mem _ hk))
        (setO s j (shOne q (psOf I j)).1) (setO sp j (shOne q (psOf I j)).2.1)
        (if (shOne q (psOf I j)).2.2.1 = true then cm ++ [j] else cm)
      refine ⟨by rw [h1]; rfl, by rw [h2, ag_setO_length], by rw [h3, ag_setO_length], ?_, ?_⟩
      · intro hs
        exact h4 (ag_InR_setO_shOne q hq s j _ hs).1
      · intro hs
        exact h5 (ag_InR_setO_shOne q hq sp j _ hs).2

/-- step 1(b), the shares: a sender that is not read -/
theorem ag_genReadShares_frame (q : Int) (st : GenSt) (k : Nat) (L : List Nat) (I : Inbox)
    (hI : ∀ j ∈ L, j < I.p.length) (s sp : List Int) (cm : List Nat) (hk : k ∉ L ∨ k = st.i) :
    getI (genReadShares q st L I s sp cm).2.1 k = getI s k ∧
    getI (genReadShares q st L I s sp cm).2.2.1 k = getI sp k ∧
    (k ∈ (genReadShares q st L I s sp cm).2.2.2 ↔ k ∈ cm) := by
  induction L generalizing I s sp cm with
  | nil => simp [genReadShares]
  | cons j rest ih =>
    have hk' : k ∉ rest ∨ k = st.i := by
      rcases hk with h | h
      · exact Or.inl (fun hh => h (List.mem_cons_of_mem _ hh))
      · exact Or.inr h
    by_cases hji : j = st.i
    · rw [genReadShares]
      simp only [hji, if_true]
      exact ih I (fun k hk => hI k (List.mem_cons_of_mem _ hk)) s sp cm hk'
    · rw [ag_genReadShares_cons q st j rest I (hI j (by simp)) hji]
      have hkj : j ≠ k := by
        rintro rfl
        rcases hk with h | h
        · exact h (by simp)
        · exact hji h
      obtain ⟨h1, h2, h3⟩ := ih (setP I j (shOne q (psOf I j)).2.2.2)
        (fun k hk => by simpa using hI k (List.mem_cons_of_mem _ hk))
        (setO s j (shOne q (psOf I j)).1) (setO sp j (shOne q (psOf I j)).2.1)
        (if (shOne q (psOf I j)).2.2.1 = true then cm ++ [j] else cm) hk'
      refine ⟨by rw [h1, ag_getI_setO_ne _ _ _ _ hkj], by rw [h2, ag_getI_setO_ne _ _ _ _ hkj], ?_⟩
      rw [h3]
      split
      · simp [List.mem_append, Ne.symm hkj]
      · rfl

/-- step 1(b), the shares: a sender whose two values arrived and are in range -/
theorem ag_genReadShares_hit (q : Int) (st : GenSt) (k : Nat) (L : List Nat) (hL : L.Nodup) (I : Inbox)
    (hI : ∀ j ∈ L, j < I.p.length) (s sp : List Int) (cm : List Nat) (hk : k ∈ L) (hki : k ≠ st.i)
    (v w : Int) (hp : psOf I k = [v, w]) (hv : absGe v q = false) (hw : absGe w q = false)
    (hks : k < s.length) (hksp : k < sp.length) :
    getI (genReadShares q st L I s sp cm).2.1 k = v ∧
    getI (genReadShares q st L I s sp cm).2.2.1 k = w ∧
    (k ∈ (genReadShares q st L I s sp cm).2.2.2 ↔ k ∈ cm) := by
  induction L generalizing I s sp cm with
  | nil => simp at hk
  | cons j rest ih =>
    have hnd := List.nodup_cons.mp hL
    by_cases hji : j = st.i
    · rw [genReadShares]
      simp only [hji, if_true]
      have hk2 : k ∈ rest := by
        rcases List.mem_cons.mp hk with h | h
        · exact absurd (h.trans hji) hki
        · exact h
      exact ih hnd.2 I (fun k hk => hI k (List.mem_cons_of_mem _ hk)) s sp cm hk2 hp hks hksp
    · rw [ag_genReadShares_cons q st j rest I (hI j (by simp)) hji]
      have hI' : ∀ k ∈ rest, k < (setP I j (shOne q (psOf I j)).2.2.2).p.length :=
        fun k hk => by simpa using hI k (List.mem_cons_of_mem _ hk)
      rcases List.mem_cons.mp hk with h | h
      · subst h
        obtain ⟨h1, h2, h3⟩ := ag_genReadShares_frame q st k rest _ hI'
          (setO s k (shOne q (psOf I k)).1) (setO sp k (shOne q (psOf I k)).2.1)
          (if (shOne q (psOf I k)).2.2.1 = true then cm ++ [k] else cm) (Or.inl hnd.1)
        rw [h1, h2, h3, hp]
        simp [shOne, hv, hw, setO, ag_getI_set, hks, hksp]
      · have hkj : j ≠ k := by
          rintro rfl
          exact hnd.1 h
        obtain ⟨h1, h2, h3⟩ := ih hnd.2 (setP I j (shOne q (psOf I j)).2.2.2) hI'
          (setO s j (shOne q (psOf I j)).1) (setO sp j (shOne q (psOf I j)).2.1)
          (if (shOne q (psOf I j)).2.2.1 = true then cm ++ [j] else cm) h
          (by rw [ag_psOf_setP_ne _ _ _ _ hkj]; exact hp)
          (by rw [ag_setO_length]; exact hks) (by rw [ag_setO_length]; exact hksp)
        refine ⟨h1, h2, ?_⟩
        rw [h3]
        split
        · simp [List.mem_append, Ne.symm hkj]
        · rfl

/-! arithmetic never fails on the values the readers feed to it -/

theorem ag_commitProdFrom_total (hG : ValidGrp G) (x k : Nat) (cs : List Int) (acc : Int) :
    ∃ r, commitProdFrom G.p x k cs acc = .ok r := by
  induction cs generalizing k acc with
  | nil => exact ⟨acc, rfl⟩
  | cons c cs ih =>
    obtain ⟨b, hb, -⟩ := @mpzPowm_nonneg (gGrp G) ‹Fact (Nat.Prime G.p.natAbs)› hG.vg c ((x : Int) ^ k)
      (by positivity)
    have hb' : mpzPowm c ((x : Int) ^ k) G.p = .ok b := hb
    obtain ⟨r, hr⟩ := ih (k + 1) (acc * b % G.p)
    exact ⟨r, by simp only [commitProdFrom, hb']; exact hr⟩

theorem ag_commitProd_total (hG : ValidGrp G) (x : Nat) (cs : List Int) : ∃ r, commitProd G.p x cs = .ok r :=
  ag_commitProdFrom_total hG x 0 cs 1

theorem ag_pedF_total (hG : ValidGrp G) (v w : Int) :
    ∃ l, pedF G (if absGe v G.q then 0 else v) (if absGe w G.q then 0 else w) = .ok l := by
  obtain ⟨l, hl, -⟩ := pedF_val hG _ _ (ag_absGe_range G.q hG.vg.q_pos v) (ag_absGe_range G.q hG.vg.q_pos w)
  exact ⟨l, hl⟩

theorem ag_raS_total (hG : ValidGrp G) (n : Nat) (Cj : List Int) (f : Nat) (s : List (Tag × Int)) :
    ∃ r, raS G n Cj f s = .ok r := by
  induction f generalizing s with
  | zero => exact ⟨_, rfl⟩
  | succ f ih =>
    unfold raS
    rcases popS none s with ⟨_ | w, s1⟩
    · exact ⟨_, rfl⟩
    · simp only
      split
      · exact ⟨_, rfl⟩
      · rcases popS none s1 with ⟨_ | foo0, s2⟩
        · exact ⟨_, rfl⟩
        · simp only
          rcases popS none s2 with ⟨_ | bar0, s3⟩
          · exact ⟨_, rfl⟩
          · simp only
            obtain ⟨l, hl⟩ := ag_pedF_total hG foo0 bar0
            obtain ⟨r, hr⟩ := ag_commitProd_total hG (getUi w + 1) Cj
            obtain ⟨r3, hr3⟩ := ih s3
            rw [hl, hr, hr3]
            exact ⟨_, rfl⟩

/-- whether the answers of a dealer (stream `s`, commitments `Cj`) put it on the complaint list -/
def raBad (G : Grp) (n : Nat) (Cj : List Int) (s : List (Tag × Int)) : Bool :=
  match raS G n Cj (n + 1) s with
  | .ok r => decide (0 < r.1)
  | .error _ => true

end Tmcg.DkgP
