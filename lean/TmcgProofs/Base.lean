import Tmcg.Base
import Mathlib.Data.Int.GCD
import Mathlib.Data.Nat.ModEq
import Mathlib.Data.Int.ModEq
import Mathlib.Tactic.Ring
import Mathlib.Tactic.Linarith
import Mathlib.Algebra.Order.Ring.Abs
/-
  Specification lemmas for the GMP-semantics layer (Tmcg/Base.lean).
-/
namespace Tmcg

theorem powmGo_eq (p : Nat) : ∀ (f b e : Nat), e ≤ f → powmGo p f b e = b ^ e % p := by
  intro f
  induction f with
  | zero =>
    intro b e he
    have : e = 0 := by omega
    subst this; simp [powmGo]
  | succ f ih =>
    intro b e he
    unfold powmGo
    by_cases h0 : e = 0
    · subst h0; simp
    · simp only [h0, if_false]
      have hlt : e / 2 ≤ f := by omega
      rw [ih (b * b % p) (e / 2) hlt]
      have hsq : (b * b % p) ^ (e / 2) % p = (b * b) ^ (e / 2) % p := by
        rw [Nat.pow_mod, Nat.mod_mod, ← Nat.pow_mod]
      rw [hsq]
      have hbb : (b * b) ^ (e / 2) = b ^ (2 * (e / 2)) := by
        rw [pow_mul, pow_two]
      by_cases hodd : e % 2 = 1
      · simp only [hodd, if_true]
        have he2 : e = 2 * (e / 2) + 1 := by omega
        conv_rhs => rw [he2, pow_succ]
        rw [hbb, Nat.mul_mod, Nat.mod_mod, ← Nat.mul_mod, mul_comm]
      · simp only [hodd, if_false]
        have he2 : e = 2 * (e / 2) := by omega
        conv_rhs => rw [he2]
        rw [hbb]

/-- the executable square-and-multiply equals the mathematical power residue -/
theorem powm_eq (b e p : Nat) : powm b e p = b ^ e % p := by
  unfold powm
  exact powmGo_eq p e b e (le_refl e)

theorem powm_lt (b e p : Nat) (hp : 0 < p) : powm b e p < p := by
  rw [powm_eq]; exact Nat.mod_lt _ hp

/-! ### extended Euclid -/

/-- invariant of `egcdGo`: both remainders are `a`-multiples of their coefficient modulo `n` -/
theorem egcdGo_spec (a n : Int) :
    ∀ (f : Nat) (r0 r1 s0 s1 : Int), 0 ≤ r0 → 0 ≤ r1 → r1 < f →
      r0 ≡ a * s0 [ZMOD n] → r1 ≡ a * s1 [ZMOD n] →
      (egcdGo f r0 r1 s0 s1).1 = Int.gcd r0 r1 ∧
      (egcdGo f r0 r1 s0 s1).1 ≡ a * (egcdGo f r0 r1 s0 s1).2 [ZMOD n] := by
  intro f
  induction f with
  | zero => intro r0 r1 s0 s1 _ h1 hlt; omega
  | succ f ih =>
    intro r0 r1 s0 s1 h0 h1 hlt hc0 hc1
    unfold egcdGo
    by_cases hz : r1 = 0
    · subst hz
      simp only [if_true]
      refine ⟨?_, hc0⟩
      simp [abs_of_nonneg h0]
    · simp only [hz, if_false]
      have hpos : 0 < r1 := lt_of_le_of_ne h1 (Ne.symm hz)
      have hrem : r0 - r0 / r1 * r1 = r0 % r1 := by
        have := Int.emod_def r0 r1
        rw [this]; ring
      rw [hrem]
      have hnn : 0 ≤ r0 % r1 := Int.emod_nonneg _ hz
      have hlt' : r0 % r1 < r1 := Int.emod_lt_of_pos _ hpos
      have hfuel : r0 % r1 < (f : Int) := by
        have : r1 ≤ (f : Int) := by exact_mod_cast Int.lt_add_one_iff.mp (by exact_mod_cast hlt)
        linarith
      have hc : r0 % r1 ≡ a * (s0 - r0 / r1 * s1) [ZMOD n] := by
        have h2 : r0 % r1 = r0 - r0 / r1 * r1 := hrem.symm
        rw [h2]
        have : a * (s0 - r0 / r1 * s1) = a * s0 - r0 / r1 * (a * s1) := by ring
        rw [this]
        exact Int.ModEq.sub hc0 (Int.ModEq.mul_left _ hc1)
      obtain ⟨hg, hcong⟩ := ih r1 (r0 % r1) s1 (s0 - r0 / r1 * s1) h1 hnn hfuel hc1 hc
      refine ⟨?_, hcong⟩
      rw [hg]
      have : Int.gcd r1 (r0 % r1) = Int.gcd r0 r1 := by
        rw [← hrem, Int.gcd_sub_mul_right_right, Int.gcd_comm]
      exact_mod_cast congrArg (fun x : ℕ => (x : Int)) this

end Tmcg

namespace Tmcg

theorem egcd_init (a : Int) (n : Nat) (hn : n ≠ 0) :
    (egcdGo (n + 1) (a % (n : Int)) n 1 0).1 = Int.gcd a n ∧
    (egcdGo (n + 1) (a % (n : Int)) n 1 0).1 ≡ a * (egcdGo (n + 1) (a % (n : Int)) n 1 0).2 [ZMOD n] := by
  have hn' : (n : Int) ≠ 0 := by exact_mod_cast hn
  have h := egcdGo_spec a n (n + 1) (a % (n : Int)) n 1 0
    (Int.emod_nonneg _ hn') (by positivity) (by push_cast; linarith)
    (by rw [mul_one]; exact Int.mod_modEq a n)
    (by simp [Int.ModEq])
  refine ⟨?_, h.2⟩
  rw [h.1]
  congr 1
  rw [Int.gcd_comm, Int.gcd_comm a, Int.emod_def]
  exact Int.gcd_sub_mul_left_right ..

/-- `invm` returns a genuine inverse in `[0, |p|)` -/
theorem invm_some {a p r : Int} (h : invm a p = some r) :
    0 ≤ r ∧ r < |p| ∧ a * r ≡ 1 [ZMOD p] := by
  unfold invm at h
  simp only at h
  by_cases hn : p.natAbs = 0
  · simp [hn] at h
  · simp only [hn, if_false] at h
    have hp : (p.natAbs : Int) = |p| := Int.natCast_natAbs p
    have hpos : (0 : Int) < p.natAbs := by exact_mod_cast Nat.pos_of_ne_zero hn
    obtain ⟨hg, hc⟩ := egcd_init a p.natAbs hn
    generalize hE : egcdGo (p.natAbs + 1) (a % (p.natAbs : Int)) p.natAbs 1 0 = E at h hg hc
    obtain ⟨g, x⟩ := E
    simp only at h hg hc
    have modabs : ∀ {u v : Int}, u ≡ v [ZMOD (p.natAbs : Int)] → u ≡ v [ZMOD p] := by
      intro u v huv
      rw [hp] at huv
      exact (Int.modEq_iff_dvd.mpr ((abs_dvd p _).mp (Int.modEq_iff_dvd.mp huv)))
    by_cases hg1 : g = 1
    · simp only [hg1, if_true] at h
      have hr : r = x % (p.natAbs : Int) := by injection h with h; exact h.symm
      subst hr
      refine ⟨Int.emod_nonneg _ (ne_of_gt hpos), ?_, ?_⟩
      · rw [← hp]; exact Int.emod_lt_of_pos _ hpos
      · apply modabs
        have h1 : a * (x % (p.natAbs : Int)) ≡ a * x [ZMOD (p.natAbs : Int)] :=
          Int.ModEq.mul_left _ (Int.mod_modEq _ _)
        rw [hg1] at hc
        exact h1.trans hc.symm
    · simp only [hg1, if_false] at h
      by_cases hn1 : p.natAbs = 1
      · simp only [hn1, if_true] at h
        have hr : r = 0 := by injection h with h; exact h.symm
        subst hr
        have habs : |p| = 1 := by rw [← hp, hn1]; rfl
        refine ⟨le_refl _, by rw [habs]; norm_num, ?_⟩
        apply modabs
        rw [hn1]; exact Int.modEq_one
      · simp [hn1] at h

/-- for a modulus other than ±1, `invm` fails exactly when there is no inverse -/
theorem invm_eq_none_iff {a p : Int} (hp : 1 < p.natAbs) : invm a p = none ↔ Int.gcd a p ≠ 1 := by
  unfold invm
  simp only
  have hn : p.natAbs ≠ 0 := by omega
  have hn1 : p.natAbs ≠ 1 := by omega
  simp only [hn, if_false]
  obtain ⟨hg, _⟩ := egcd_init a p.natAbs hn
  generalize egcdGo (p.natAbs + 1) (a % (p.natAbs : Int)) p.natAbs 1 0 = E at hg
  obtain ⟨g, x⟩ := E
  simp only at hg
  have hgcd : Int.gcd a (p.natAbs : Int) = Int.gcd a p := by
    rw [Int.gcd_def, Int.gcd_def]; simp [Int.natAbs_abs]
  simp only [hn1, if_false]
  by_cases hg1 : g = 1
  · simp only [hg1, if_true]
    rw [hg1, hgcd] at hg
    constructor
    · intro h; cases h
    · intro h; exact absurd (by exact_mod_cast hg.symm) h
  · simp only [hg1, if_false, true_iff]
    intro h
    apply hg1
    rw [hg, hgcd, h]; rfl

theorem invm_isSome_of_coprime {a p : Int} (hp : p ≠ 0) (hg : Int.gcd a p = 1) :
    ∃ r, invm a p = some r := by
  by_cases h1 : 1 < p.natAbs
  · cases hinv : invm a p with
    | none => exact absurd hg ((invm_eq_none_iff h1).mp hinv)
    | some r => exact ⟨r, rfl⟩
  · have hn : p.natAbs = 1 := by
      have : p.natAbs ≠ 0 := by simpa using hp
      omega
    unfold invm
    simp only [hn]
    generalize egcdGo (1 + 1) (a % ((1 : Nat) : Int)) (1 : Nat) 1 0 = E
    obtain ⟨g, x⟩ := E
    by_cases hg1 : g = 1 <;> simp [hg1]

end Tmcg
