import TmcgProofs.JlInv
import TmcgProofs.JlArith
/-
  C17, multi-party part: transition round 1 (jlReadC) of the run invariants (TmcgProofs/JlInv.lean).
-/
namespace Tmcg.JlProofs
open Tmcg Tmcg.Powm Tmcg.Vtmf Tmcg.Grp Tmcg.Jl

variable {G : Jl.Grp} {ins : List PartyIn} {n t : Nat}

set_option linter.unusedSectionVars false
set_option linter.unusedVariables false

namespace T1

/-! ### `parseElems` -/

theorem popQ_cons_self (tag : Tag) (v : Int) (l : List (Tag × Int)) :
    popQ tag ((tag, v) :: l) = (some v, l) := by
  simp [popQ, removeFirst_head]

/-- a complaint is never withdrawn -/
theorem parseElems_true (G : Jl.Grp) (tag : Tag) (f : Nat) (q : List (Tag × Int)) (acc : List Int) :
    (parseElems G tag f q acc true).1 = true := by
  induction f generalizing q acc with
  | zero => rfl
  | succ f ih =>
    unfold parseElems
    rcases hp : popQ tag q with ⟨_ | v, q1⟩
    · rfl
    · simp only []
      split
      · exact ih _ _
      · exact ih _ _

/-- an honest dealer's row is read completely and without complaint -/
theorem parseElems_honest (hG : ValidGrp G) (tag : Tag) (row : List Int) (hrow : ∀ v ∈ row, IsElem G v)
    (acc : List Int) :
    parseElems G tag row.length (tagged tag row) acc false = (false, [], acc ++ row) := by
  induction row generalizing acc with
  | nil => simp [parseElems, tagged]
  | cons v row ih =>
    have hv : checkElement G v = true := (checkElement_iff' hG v).2 (hrow v List.mem_cons_self)
    have hq : tagged tag (v :: row) = (tag, v) :: tagged tag row := rfl
    rw [List.length_cons, hq]
    unfold parseElems
    rw [popQ_cons_self]
    simp only [hv, if_true]
    rw [ih (fun w hw => hrow w (List.mem_cons_of_mem _ hw))]
    simp

/-- a row read without complaint consists of `f` group elements -/
theorem parseElems_false (hG : ValidGrp G) (tag : Tag) (f : Nat) (q : List (Tag × Int)) (acc : List Int)
    (h : (parseElems G tag f q acc false).1 = false) :
    ∃ r, (parseElems G tag f q acc false).2.2 = acc ++ r ∧ r.length = f ∧ ∀ v ∈ r, IsElem G v := by
  induction f generalizing q acc with
  | zero => exact ⟨[], by simp [parseElems], rfl, by simp⟩
  | succ f ih =>
    unfold parseElems at h ⊢
    rcases hp : popQ tag q with ⟨_ | v, q1⟩
    · rw [hp] at h
      simp at h
    · rw [hp] at h
      simp only [] at h ⊢
      by_cases hv : checkElement G v = true
      · simp only [hv, if_true] at h ⊢
        obtain ⟨r, h1, h2, h3⟩ := ih q1 (acc ++ [v]) h
        refine ⟨v :: r, ?_, by simp [h2], ?_⟩
        · rw [h1]; simp
        · intro w hw
          rcases List.mem_cons.1 hw with hw | hw
          · rw [hw]; exact (checkElement_iff' hG v).1 hv
          · exact h3 w hw
      · rw [if_neg hv, parseElems_true] at h
        simp at h

theorem padRow_full (t : Nat) (r : List Int) (h : r.length = t + 1) : padRow t r = r := by
  simp [padRow, zeros, h]

/-! ### the private sends -/

theorem bsOf_sends (l : List Nat) (f g : Nat → Int) :
    bsOf (l.flatMap (fun j => [Op.pv j (f j), Op.pv j (g j)])) = [] := by
  induction l with
  | nil => rfl
  | cons a l ih =>
    rw [List.flatMap_cons, bsOf_append, ih]
    rfl

theorem psOf_sends_not_mem (l : List Nat) (f g : Nat → Int) (y : Nat) (hy : y ∉ l) :
    ((psOf (l.flatMap (fun j => [Op.pv j (f j), Op.pv j (g j)]))).filter (fun e => e.1 == y)).map (·.2) = [] := by
  induction l with
  | nil => rfl
  | cons a l ih =>
    have hay : ¬ a = y := fun e => hy (e ▸ List.mem_cons_self)
    have hyl : y ∉ l := fun e => hy (List.mem_cons_of_mem _ e)
    rw [List.flatMap_cons, psOf_append, List.filter_append, List.map_append, ih hyl]
    simp [hay]

/-- the private values addressed to `y` among the sends of round 1 -/
theorem psOf_sends_mem (l : List Nat) (f g : Nat → Int) (y : Nat) (hnd : l.Nodup) (hy : y ∈ l) :
    ((psOf (l.flatMap (fun j => [Op.pv j (f j), Op.pv j (g j)]))).filter (fun e => e.1 == y)).map (·.2) =
      [f y, g y] := by
  induction l with
  | nil => simp at hy
  | cons a l ih =>
    rw [List.nodup_cons] at hnd
    rw [List.flatMap_cons, psOf_append, List.filter_append, List.map_append]
    by_cases hay : a = y
    · subst hay
      rw [psOf_sends_not_mem l f g a hnd.1]
      simp
    · have hyl : y ∈ l := by
        rcases List.mem_cons.1 hy with e | e
        · exact absurd e.symm hay
        · exact e
      rw [ih hnd.2 hyl]
      simp [hay]

/-! ### the step of an honest party -/

theorem alive_live {P : Party} (ha : Alive P) : P.live = true := by
  simp [Party.live, ha.running, ha.notDead, ha.noErr]

theorem readC_step (G : Jl.Grp) (ins : List PartyIn) (n t m x : Nat) (P : Party) (ha : Alive P) :
    ∃ fs', stepParty m (flipStep G ins n t 1 x) P =
      ({ P with st := (jlReadC G P.st P.inbox).1, inbox := (jlReadC G P.st P.inbox).2.1, fs := fs',
                status := .run }, [], psOf (jlReadC G P.st P.inbox).2.2.1) ∧ fs'.dead = false := by
  obtain ⟨fs', h1, h2⟩ := stepParty_honest m (flipStep G ins n t 1 x) P ha.dev (alive_live ha)
    (jlReadC G P.st P.inbox).1 (jlReadC G P.st P.inbox).2.1 (jlReadC G P.st P.inbox).2.2.1 .run rfl
  refine ⟨fs', ?_, h2⟩
  rw [h1]
  have : bsOf (jlReadC G P.st P.inbox).2.2.1 = [] := bsOf_sends _ _ _
  rw [this]

/-- the state of an honest party after `jlReadC` -/
theorem readC_state (x : Nat) (hx : x < n) (st : St) (I : Inbox) (Q : Nat → List (Tag × Int)) (rowx : List Int)
    (hcore : Core ins n t x st) (hC : st.C = (zeroRows n t).set x rowx) (hbox : Boxes n x I Q)
    (hpx : padRow t (parseElems G tagShare (t + 1) (Q x) [] false).2.2 = rowx)
    (hfx : (parseElems G tagShare (t + 1) (Q x) [] false).1 = false) :
    Core ins n t x (jlReadC G st I).1 ∧
    (jlReadC G st I).1.C = (List.range n).map (fun j => padRow t (parseElems G tagShare (t + 1) (Q j) [] false).2.2) ∧
    (jlReadC G st I).1.compl = (List.range n).filter (fun j => (parseElems G tagShare (t + 1) (Q j) [] false).1) ∧
    (jlReadC G st I).1.srow = (List.range n).map (fun j => shareOf G ins t x j) ∧
    (jlReadC G st I).1.hrow = (List.range n).map (fun j => hshareOf G ins t x j) ∧
    (jlReadC G st I).1.s = (zeros n).set x (shareOf G ins t x x) ∧
    (jlReadC G st I).1.sp = (zeros n).set x (hshareOf G ins t x x) ∧
    (jlReadC G st I).1.cnt = st.cnt ∧ (jlReadC G st I).1.a = st.a ∧ (jlReadC G st I).1.ha = st.ha ∧
    (jlReadC G st I).2.1.b = (List.range n).map (fun j => if j = x then I.bq j else
      (parseElems G tagShare (t + 1) (Q j) [] false).2.1) ∧
    (jlReadC G st I).2.1.p = I.p ∧
    (jlReadC G st I).2.2.1 = ((List.range n).filter (· ≠ x)).flatMap
      (fun j => [Op.pv j (shareOf G ins t x j), Op.pv j (hshareOf G ins t x j)]) := by
  have hres : ∀ j, j ∈ List.range n → j ≠ x →
      parseElems G tagShare (t + 1) (I.bq j) [] false = parseElems G tagShare (t + 1) (Q j) [] false := by
    intro j hj hjx
    rw [hbox.bq_eq j (List.mem_range.1 hj) hjx]
  have hsrow : (List.range n).map (fun j =>
        if j ≠ x ∧ false = true ∧ st.rS = true then evalShare G.q (cOf ins t x) (j + 1) + 1
        else evalShare G.q (cOf ins t x) (j + 1)) = (List.range n).map (fun j => shareOf G ins t x j) := by
    apply List.map_congr_left
    intro j _
    simp [shareOf]
  have hgetS : getI ((List.range n).map (fun j => shareOf G ins t x j)) x = shareOf G ins t x x := by
    simp [getI, List.getD_eq_getElem?_getD, List.getElem?_map, List.getElem?_range hx]
  have hgetH : getI ((List.range n).map (fun j => hshareOf G ins t x j)) x = hshareOf G ins t x x := by
    simp [getI, List.getD_eq_getElem?_getD, List.getElem?_map, List.getElem?_range hx]
  unfold jlReadC
  simp only [hcore.n_eq, hcore.t_eq, hcore.i_eq, hcore.sfb_eq, hcore.c_eq, hcore.hc_eq]
  refine ⟨⟨rfl, rfl, rfl, rfl, rfl, rfl⟩, ?_, ?_, ?_, ?_, ?_, ?_, trivial, trivial, trivial, ?_, trivial, ?_⟩
  · apply List.map_congr_left
    intro j hj
    by_cases hjx : j = x
    · subst hjx
      rw [if_pos rfl, hpx, hC, getRow, glue_getD_set]
      simp [zeroRows, hx]
    · rw [if_neg hjx, hres j hj hjx]
  · apply List.filter_congr
    intro j hj
    by_cases hjx : j = x
    · subst hjx
      simp [hfx]
    · rw [hres j hj hjx]
      simp [hjx]
  · exact hsrow
  · rfl
  · rw [hsrow, hgetS]
  · show (zeros n).set x (getI ((List.range n).map (fun j => hshareOf G ins t x j)) x) = _
    rw [hgetH]
  · apply List.map_congr_left
    intro j hj
    by_cases hjx : j = x
    · rw [if_pos hjx, if_pos hjx]
    · rw [if_neg hjx, if_neg hjx, hres j hj hjx]
  · rw [hsrow]
    apply List.flatMap_congr
    intro j hj
    have hjn : j < n := List.mem_range.1 (List.mem_filter.1 hj).1
    have h1 : getI ((List.range n).map (fun j => shareOf G ins t x j)) j = shareOf G ins t x j := by
      simp [getI, List.getD_eq_getElem?_getD, List.getElem?_map, List.getElem?_range hjn]
    have h2 : getI ((List.range n).map (fun j => evalShare G.q (hcOf ins t x) (j + 1))) j = hshareOf G ins t x j := by
      simp [getI, List.getD_eq_getElem?_getD, List.getElem?_map, List.getElem?_range hjn, hshareOf]
    rw [h1, h2]

end T1

open T1 in
/-- after round 1 every honest party holds the same table of commitments and has sent its shares -/
theorem inv2 [Fact (Nat.Prime (grp G).p.natAbs)] (hS : Setup G ins n t)
    {Q : Nat → List (Tag × Int)} {Row : Nat → List Int} (h : Inv1 G ins n t Q Row) :
    ∃ Q' CH Flag, Inv2 G ins n t Q' CH Flag := by
  have hG := hS.hG
  have hlen : (cfg G ins n t 1).length = n := by
    unfold cfg
    rw [runRounds_length, initParties_length n t ins hS.hlen]
  -- what the honest readers get out of the queue of an honest sender
  have hhon : ∀ j, HonIdx ins n j →
      parseElems G tagShare (t + 1) (Q j) [] false = (false, [], Row j) := by
    intro j hj
    obtain ⟨hrow, hl, hq⟩ := h.row_hon j hj
    have hmem : ∀ v ∈ Row j, IsElem G v := by
      intro v hv
      obtain ⟨k, hk, rfl⟩ := List.mem_iff_getElem.1 hv
      have := (hrow.2 k hk).1
      simpa [getI, List.getD_eq_getElem?_getD, hk] using this
    have := parseElems_honest hG tagShare (Row j) hmem []
    rw [hl] at this
    rw [hq, this]
    simp
  -- what an honest sender emits in round 1
  have hout : ∀ j (hj : HonIdx ins n j) (hjl : j < (cfg G ins n t 1).length),
      outOf (flipStep G ins n t 1) (cfg G ins n t 1) j hjl =
        ([], psOf (((List.range n).filter (· ≠ j)).flatMap
          (fun y => [Op.pv y (shareOf G ins t j y), Op.pv y (hshareOf G ins t j y)]))) := by
    intro j hj hjl
    obtain ⟨P, hP, hal, hcore, hC, -, -, -, -, -, -, hbox, -⟩ := h.party j hj
    have hPj : (cfg G ins n t 1)[j] = P := by
      have := List.getElem?_eq_getElem hjl
      rw [hP] at this
      exact (Option.some.inj this).symm
    obtain ⟨fs', hst, -⟩ := readC_step G ins n t (cfg G ins n t 1).length j P hal
    obtain ⟨-, -, -, -, -, -, -, -, -, -, -, -, r13⟩ := readC_state (G := G) j hj.1 P.st P.inbox Q (Row j) hcore hC hbox
      (by rw [hhon j hj]; exact padRow_full t _ (h.row_hon j hj).2.1) (by rw [hhon j hj])
    unfold outOf
    rw [hPj, hst, r13]
  refine ⟨fun j => (parseElems G tagShare (t + 1) (Q j) [] false).2.1 ++ bOut G ins n t 1 j,
    (List.range n).map (fun j => padRow t (parseElems G tagShare (t + 1) (Q j) [] false).2.2),
    fun j => (parseElems G tagShare (t + 1) (Q j) [] false).1, ?_⟩
  have hCH : ∀ j, j < n →
      getRow ((List.range n).map (fun j => padRow t (parseElems G tagShare (t + 1) (Q j) [] false).2.2)) j =
        padRow t (parseElems G tagShare (t + 1) (Q j) [] false).2.2 := by
    intro j hj
    simp [getRow, List.getD_eq_getElem?_getD, List.getElem?_map, List.getElem?_range hj]
  refine ⟨by simp, ?_, ?_, ?_⟩
  · -- ch_hon
    intro j hj
    obtain ⟨hrow, hl, hq⟩ := h.row_hon j hj
    have hjl : j < (cfg G ins n t 1).length := hlen.symm ▸ hj.1
    have hb : bOut G ins n t 1 j = [] := by
      unfold bOut
      rw [dif_pos hjl, hout j hj hjl]
    rw [hCH j hj.1]
    simp only [hhon j hj, hb, padRow_full t _ hl]
    exact ⟨hrow, hl, trivial, rfl⟩
  · -- ch_ok
    intro j hj hf
    obtain ⟨r, h1, h2, h3⟩ := parseElems_false hG tagShare (t + 1) (Q j) [] hf
    rw [hCH j hj, h1, List.nil_append, padRow_full t r h2]
    refine ⟨h2, ?_⟩
    intro k hk
    have hk' : k < r.length := h2.symm ▸ hk
    have : getI r k = r[k] := by simp [getI, List.getD_eq_getElem?_getD, hk']
    rw [this]
    exact h3 _ (List.getElem_mem hk')
  · -- party
    intro x hx
    obtain ⟨P, hP, hal, hcore, hC, hs, hsp, hcnt, ha, hha, hcompl, hbox, hpq⟩ := h.party x hx
    have hxl : x < (cfg G ins n t 1).length := hlen.symm ▸ hx.1
    have hPx : (cfg G ins n t 1)[x] = P := by
      have := List.getElem?_eq_getElem hxl
      rw [hP] at this
      exact (Option.some.inj this).symm
    obtain ⟨P', hP', d1, d2, d3, d4, d5, d6, d7, d8, d9⟩ :=
      runRound_get (flipStep G ins n t 1) (cfg G ins n t 1) x hxl
    obtain ⟨fs', hst, hfs⟩ := readC_step G ins n t (cfg G ins n t 1).length x P hal
    have hstepped : stepped (flipStep G ins n t 1) (cfg G ins n t 1) x hxl =
        { P with st := (jlReadC G P.st P.inbox).1, inbox := (jlReadC G P.st P.inbox).2.1, fs := fs',
                 status := .run } := by
      unfold stepped
      rw [hPx, hst]
    rw [hstepped] at d1 d2 d3 d4 d5 d6 d7 d8 d9
    simp only [] at d1 d2 d3 d4 d5 d6 d7 d8 d9
    obtain ⟨r1, r2, r3, r4, r5, r6, r7, r8, r9, r10, r11, r12, r13⟩ :=
      readC_state (G := G) x hx.1 P.st P.inbox Q (Row x) hcore hC hbox
        (by rw [hhon x hx]; exact padRow_full t _ (h.row_hon x hx).2.1) (by rw [hhon x hx])
    have hblen : (jlReadC G P.st P.inbox).2.1.b.length = n := by rw [r11]; simp
    have hplen : (jlReadC G P.st P.inbox).2.1.p.length = n := by rw [r12]; exact hbox.plen
    refine ⟨P', by rw [cfg_succ]; exact hP', ⟨by rw [d1, hal.dev], by rw [d2, hfs], d4, by rw [d5, hal.noErr]⟩,
      by rw [d3]; exact r1, by rw [d3]; exact r2, by rw [d3]; exact r3, by rw [d3]; exact r4,
      by rw [d3]; exact r5, by rw [d3]; exact r6, by rw [d3]; exact r7, by rw [d3, r8]; exact hcnt,
      by rw [d3, r9]; exact ha, by rw [d3, r10]; exact hha, ⟨by rw [d6]; exact hblen, by rw [d7]; exact hplen, ?_⟩, ?_⟩
    · intro j hj hjx
      have hjl : j < (cfg G ins n t 1).length := hlen.symm ▸ hj
      show P'.inbox.b.getD j [] = _
      rw [d8 j (by rw [hblen]; exact hj), dif_pos ⟨hjx, hjl⟩, r11]
      unfold bOut
      rw [dif_pos hjl]
      simp [List.getD_eq_getElem?_getD, List.getElem?_map, List.getElem?_range hj, hjx]
    · intro j hj hjx
      have hjl : j < (cfg G ins n t 1).length := hlen.symm ▸ hj.1
      show P'.inbox.p.getD j [] = _
      rw [d9 (by rw [hal.dev]) j (by rw [hplen]; exact hj.1), dif_pos ⟨hjx, hjl⟩, r12, hout j hj hjl]
      have hq0 : P.inbox.p.getD j [] = [] := hpq j hj
      rw [hq0, List.nil_append]
      simp only []
      apply psOf_sends_mem
      · exact List.Nodup.filter _ List.nodup_range
      · exact List.mem_filter.2 ⟨List.mem_range.2 hx.1, by simpa using fun e => hjx e.symm⟩

end Tmcg.JlProofs
