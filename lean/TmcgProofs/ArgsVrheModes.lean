import TmcgProofs.ArgsVrhe
import TmcgProofs.Coin
/-
  C03 for the rotation argument, part 3: the three modes.  Obtaining a challenge is abstracted into
  a "challenge source" (what both parties read, draw and write, and the common value); the
  completeness proof is done once for arbitrary sources (`vrhe_modes`) and instantiated for the
  interactive mode, the public-coin mode (two-party coin flips) and the non-interactive mode
  (Fiat–Shamir).
-/
namespace Tmcg.Args
open Tmcg Tmcg.Powm Tmcg.Vtmf Tmcg.Grp Tmcg.Sigma Tmcg.SigmaComplete Tmcg.CoinFlip Tmcg.CoinProofs
variable {G : Group} [Fact (Nat.Prime G.p.natAbs)]
set_option linter.unusedVariables false

/-! ### one challenge, seen from both sides

A challenge source says what obtaining one challenge does to the two transcripts: which lines the
prover reads (they are the lines the verifier writes), which coins it draws, which lines it writes
(the verifier reads them), which coins the verifier draws, and the common value — which may
depend on the hash input (non-interactive mode).  The three modes are three families of sources;
the completeness proof is done once, for arbitrary sources. -/

structure ChalSrc where
  val : (Unit → List ℤ) → ℤ
  pPeer : List ℤ
  pCoins : List ℤ
  pSent : List ℤ
  vCoins : List ℤ

structure ChalOk (mode : Mode) (q : ℤ) (d : ChalSrc) : Prop where
  prover : ∀ hin peer coins sent tr,
    chalP mode q hin ⟨d.pPeer.map some ++ peer, d.pCoins ++ coins, sent, tr⟩ =
      .ok (d.val hin) ⟨peer, coins, sent ++ d.pSent, tr⟩
  verifier : ∀ hin peer coins sent,
    chalV mode q hin ⟨d.pSent.map some ++ peer, d.vCoins ++ coins, sent, false⟩ =
      .ok (d.val hin) ⟨peer, coins, sent ++ d.pPeer, false⟩
  range : ∀ hin, 0 ≤ d.val hin ∧ d.val hin < q

/-- the values of a chain of challenges (each hash input links to the previous value) -/
def chainVals (base : List ℤ) : List ChalSrc → ℕ → ℤ → List ℤ
  | [], _, _ => []
  | d :: ds, i, prev =>
    d.val (fun _ => base ++ [prev, (i : ℤ)]) ::
      chainVals base ds (i + 1) (d.val (fun _ => base ++ [prev, (i : ℤ)]))

theorem chainVals_length (base : List ℤ) : ∀ (ds : List ChalSrc) i prev,
    (chainVals base ds i prev).length = ds.length
  | [], _, _ => rfl
  | d :: ds, i, prev => by simp [chainVals, chainVals_length base ds]

theorem chainVals_inQ (mode : Mode) (q : ℤ) (base : List ℤ) : ∀ (ds : List ChalSrc) i prev,
    (∀ d ∈ ds, ChalOk mode q d) → InQ q (chainVals base ds i prev)
  | [], _, _, _ => by intro x hx; cases hx
  | d :: ds, i, prev, h => by
    intro x hx
    simp only [chainVals, List.mem_cons] at hx
    rcases hx with rfl | hx
    · exact (h d (by simp)).range _
    · exact chainVals_inQ mode q base ds _ _ (fun e he => h e (by simp [he])) x hx

theorem chain_P (mode : Mode) (q : ℤ) (base : List ℤ) : ∀ (ds : List ChalSrc) (i : ℕ) (prev : ℤ)
    (peer : List (Option ℤ)) (coins sent : List ℤ) (tr : Bool), (∀ d ∈ ds, ChalOk mode q d) →
    chalChain (chalP mode q) base ds.length i prev
      ⟨(ds.flatMap ChalSrc.pPeer).map some ++ peer, ds.flatMap ChalSrc.pCoins ++ coins, sent, tr⟩ =
      .ok (chainVals base ds i prev) ⟨peer, coins, sent ++ ds.flatMap ChalSrc.pSent, tr⟩
  | [], i, prev, peer, coins, sent, tr, _ => by simp [chalChain, chainVals, pure_apply]
  | d :: ds, i, prev, peer, coins, sent, tr, h => by
    have hd := h d (by simp)
    have ih := chain_P mode q base ds (i + 1) (d.val (fun _ => base ++ [prev, (i : ℤ)])) peer coins
      (sent ++ d.pSent) tr (fun e he => h e (by simp [he]))
    simp only [List.length_cons, chalChain, List.flatMap_cons, List.map_append, List.append_assoc]
    rw [bind_ok (hd.prover _ _ _ _ _), bind_ok ih]
    simp [chainVals, pure_apply]

theorem chain_V (mode : Mode) (q : ℤ) (base : List ℤ) : ∀ (ds : List ChalSrc) (i : ℕ) (prev : ℤ)
    (peer : List (Option ℤ)) (coins sent : List ℤ), (∀ d ∈ ds, ChalOk mode q d) →
    chalChain (chalV mode q) base ds.length i prev
      ⟨(ds.flatMap ChalSrc.pSent).map some ++ peer, ds.flatMap ChalSrc.vCoins ++ coins, sent, false⟩ =
      .ok (chainVals base ds i prev) ⟨peer, coins, sent ++ ds.flatMap ChalSrc.pPeer, false⟩
  | [], i, prev, peer, coins, sent, _ => by simp [chalChain, chainVals, pure_apply]
  | d :: ds, i, prev, peer, coins, sent, h => by
    have hd := h d (by simp)
    have ih := chain_V mode q base ds (i + 1) (d.val (fun _ => base ++ [prev, (i : ℤ)])) peer coins
      (sent ++ d.pPeer) (fun e he => h e (by simp [he]))
    simp only [List.length_cons, chalChain, List.flatMap_cons, List.map_append, List.append_assoc]
    rw [bind_ok (hd.verifier _ _ _ _), bind_ok ih]
    simp [chainVals, pure_apply]


/-! ### PUB-ROT-ZK in any mode -/

theorem rot_modes (hG : ValidGroup G) (mode : Mode) (S : State) (hS : StateOk G S) (r : ℕ)
    (alpha uk c : List ℤ) (hn : 2 ≤ alpha.length) (hr : r < alpha.length)
    (luk : uk.length = alpha.length) (lc : c.length = alpha.length)
    (hc : ∀ j < alpha.length, Val G (c.getD j 0)
      (toF G G.g ^ arOf alpha.length r alpha j * toF G S.h ^ uk.getD j 0))
    (B : List ChalSrc) (lB : B.length = alpha.length) (hB : ∀ d ∈ B, ChalOk mode S.G.q d)
    (L : ChalSrc) (hL : ChalOk mode S.G.q L)
    (u : ℤ) (lt rest : List ℤ) (hu : 0 ≤ u ∧ u < G.q) (hlt : InQ G.q lt)
    (llt : lt.length = 2 * (alpha.length - 1))
    (peer : List (Option ℤ)) (sent : List ℤ) (tr : Bool) :
    ∃ f r1 r2 : List ℤ,
      rotProve mode S r uk alpha c
        ⟨(B.flatMap ChalSrc.pPeer).map some ++ (L.pPeer.map some ++ peer),
         B.flatMap ChalSrc.pCoins ++ (u :: (lt ++ (L.pCoins ++ rest))), sent, tr⟩ =
        .ok () ⟨peer, rest, sent ++ B.flatMap ChalSrc.pSent ++ f ++ L.pSent ++ r1 ++ r2, tr⟩ ∧
      ∀ (restV : List (Option ℤ)) (csV sentV : List ℤ),
        rotVerify mode S alpha c
          ⟨(B.flatMap ChalSrc.pSent).map some ++ (f.map some ++ (L.pSent.map some ++
            ((r1 ++ r2).map some ++ restV))),
           B.flatMap ChalSrc.vCoins ++ (L.vCoins ++ csV), sentV, false⟩ =
          .ok () ⟨restV, csV, sentV ++ B.flatMap ChalSrc.pPeer ++ L.pPeer, false⟩ := by
  have hq := hG.q_pos
  set beta := chainVals (alpha ++ c ++ pqgh S) B 0 0 with hbeta
  have lb : beta.length = alpha.length := by rw [hbeta, chainVals_length, lB]
  obtain ⟨x, hx, lf, ef, hresp⟩ := rot_core hG S hS r alpha uk c beta hr luk lc lb hc u lt
    (L.pCoins ++ rest) hu hlt llt (L.pPeer.map some ++ peer) (sent ++ B.flatMap ChalSrc.pSent) tr
  set lambda := L.val (fun _ => alpha ++ c ++ x.f ++ beta ++ pqgh S) with hlambda
  have hlam : 0 ≤ lambda ∧ lambda < G.q := by
    have := hL.range (fun _ => alpha ++ c ++ x.f ++ beta ++ pqgh S)
    rwa [hS.grp] at this
  obtain ⟨l1, l2, e1, e2, hchk⟩ := hresp lambda hlam
  refine ⟨x.f, (rotResp S.G.q r uk beta x lambda).1, (rotResp S.G.q r uk beta x lambda).2, ?_, ?_⟩
  · simp only [rotProve]
    rw [if_neg (by omega), ← lB]
    rw [bind_ok (chain_P mode _ _ B 0 0 _ _ _ _ hB), ← hbeta, bind_ok hx]
    rw [bind_ok (hL.prover _ _ _ _ _), ← hlambda, rotMove3_apply]
  · intro restV csV sentV
    simp only [rotVerify]
    rw [if_neg (by omega), ← lB]
    rw [bind_ok (chain_V mode _ _ B 0 0 _ _ _ hB), ← hbeta, lB]
    rw [bind_ok (rotRead1_spec S _ x.f _ _ _ lf ef)]
    rw [bind_ok (hL.verifier _ _ _ _), ← hlambda]
    rw [bind_ok (rotRead2_spec _ _ _ _ restV _ _ l1 l2 e1 e2)]
    simp only []
    rw [bind_ok (liftE_ok hchk _)]
    rfl

/-! ### the rotation argument in any mode -/

theorem stride_getD (k off : ℕ) (l : List ℤ) (n i : ℕ) (hi : i < n) :
    (stride k off l n).getD i 0 = l.getD (k * i + off) 0 := by
  unfold stride; rw [getD_map_range _ _ _ _ hi]

/-- what the verifier writes (and the prover reads): the challenge lines in order -/
def verifierLines (A : List ChalSrc) (L : ChalSrc) (B : List ChalSrc) (L2 : ChalSrc) : List ℤ :=
  A.flatMap ChalSrc.pPeer ++ L.pPeer ++ B.flatMap ChalSrc.pPeer ++ L2.pPeer

/-- the prover's draws in order: coins of the challenges `α_i`, then `u_0 t_0 u_1 t_1 …`,
    `o_0 p_0 m_0 …`, coins of the challenge `λ`, coins of the challenges `β_i`, `u`,
    `λ_j t_j (j ≠ r)`, coins of the last challenge -/
def proverCoins (A : List ChalSrc) (L : ChalSrc) (B : List ChalSrc) (L2 : ChalSrc)
    (ut opm : List ℤ) (u : ℤ) (lt rest : List ℤ) : List ℤ :=
  A.flatMap ChalSrc.pCoins ++ (ut ++ (opm ++ (L.pCoins ++ (B.flatMap ChalSrc.pCoins ++
    (u :: (lt ++ (L2.pCoins ++ rest)))))))

def verifierCoins (A : List ChalSrc) (L : ChalSrc) (B : List ChalSrc) (L2 : ChalSrc) : List ℤ :=
  A.flatMap ChalSrc.vCoins ++ (L.vCoins ++ (B.flatMap ChalSrc.vCoins ++ L2.vCoins))

theorem vrhe_modes (hG : ValidGroup G) (mode : Mode) (S : State) (hS : StateOk G S)
    (r : ℕ) (s : List ℤ) (X Y : List Card) (st : RotStmt G S r s X Y)
    (A : List ChalSrc) (lA : A.length = s.length) (hA : ∀ d ∈ A, ChalOk mode S.G.q d)
    (L : ChalSrc) (hL : ChalOk mode S.G.q L)
    (B : List ChalSrc) (lB : B.length = s.length) (hB : ∀ d ∈ B, ChalOk mode S.G.q d)
    (L2 : ChalSrc) (hL2 : ChalOk mode S.G.q L2)
    (ut opm : List ℤ) (u : ℤ) (lt rest : List ℤ)
    (hut : InQ G.q ut) (hopm : InQ G.q opm) (hu : 0 ≤ u ∧ u < G.q) (hlt : InQ G.q lt)
    (lut : ut.length = 2 * s.length) (lopm : opm.length = 3 * s.length)
    (llt : lt.length = 2 * (s.length - 1)) :
    ∃ sentP,
      run (done (vrheProve mode S r s X Y))
        ⟨(verifierLines A L B L2).map some, proverCoins A L B L2 ut opm u lt rest, [], false⟩ =
        .ok ⟨sentP, true, false⟩ ∧
      run (vrheVerify mode S X Y) ⟨sentP.map some, verifierCoins A L B L2, [], false⟩ =
        .ok ⟨verifierLines A L B L2, true, false⟩ := by
  have hq := hG.q_pos
  have hn := st.n2
  have hr := st.r_lt
  set alpha := chainVals (flatCards X ++ flatCards Y ++ pqgh S) A 0 0 with halpha
  have lα : alpha.length = s.length := by rw [halpha, chainVals_length, lA]
  have hα : InQ G.q alpha := by
    have := chainVals_inQ mode S.G.q (flatCards X ++ flatCards Y ++ pqgh S) A 0 0 hA
    rwa [hS.grp] at this
  obtain ⟨x, hx, ok, ehk, eAk, efk, eFk, hv, hfinal, hresp⟩ := vrhe_core hG S hS r s X Y st alpha lα hα
    ut opm (L.pCoins ++ (B.flatMap ChalSrc.pCoins ++ (u :: (lt ++ (L2.pCoins ++ rest))))) hut hopm lut lopm
    (L.pPeer.map some ++ ((B.flatMap ChalSrc.pPeer).map some ++ (L2.pPeer.map some ++ [])))
    ([] ++ A.flatMap ChalSrc.pSent) false
  set lambda := L.val (fun _ => vrheHash2 S X Y x.Ak x.Fk x.hk x.fk x.v) with hlambda
  have hlam : 0 ≤ lambda ∧ lambda < G.q := by
    have := hL.range (fun _ => vrheHash2 S X Y x.Ak x.Fk x.hk x.fk x.v)
    rwa [hS.grp] at this
  obtain ⟨l1, l2, l3, e1, e2, e3, hchk⟩ := hresp lambda hlam
  have hc : ∀ j < alpha.length, Val G (x.hk.getD j 0)
      (toF G G.g ^ arOf alpha.length r alpha j * toF G S.h ^ (stride 2 0 x.ut s.length).getD j 0) := by
    intro j hj
    rw [lα] at hj ⊢
    rw [stride_getD _ _ _ _ _ hj, ok.ut_eq]
    exact ok.hk j hj
  obtain ⟨f, r1, r2, hrotP, hrotV⟩ := rot_modes hG mode S hS r alpha (stride 2 0 x.ut s.length) x.hk
    (by omega) (by omega) (by simp [stride, lα]) (by rw [ok.lhk, lα]) hc B (by rw [lB, lα]) hB L2 hL2
    u lt rest hu hlt (by rw [lα]; exact llt) []
    ([] ++ A.flatMap ChalSrc.pSent ++ x.hk ++ flatCards x.Ak ++ [x.v] ++ x.fk ++ flatCards x.Fk ++ L.pSent ++
      (vrheResp S.G.q s.length x lambda).1 ++ (vrheResp S.G.q s.length x lambda).2.1 ++
      (vrheResp S.G.q s.length x lambda).2.2) false
  refine ⟨A.flatMap ChalSrc.pSent ++ ((x.hk ++ flatCards x.Ak ++ [x.v] ++ x.fk ++ flatCards x.Fk) ++
    (L.pSent ++ (((vrheResp S.G.q s.length x lambda).1 ++ (vrheResp S.G.q s.length x lambda).2.1 ++
      (vrheResp S.G.q s.length x lambda).2.2) ++ (B.flatMap ChalSrc.pSent ++ (f ++ (L2.pSent ++
        (r1 ++ r2))))))), ?_, ?_⟩
  · have hpeer : (verifierLines A L B L2).map some = (A.flatMap ChalSrc.pPeer).map some ++
        (L.pPeer.map some ++ ((B.flatMap ChalSrc.pPeer).map some ++ (L2.pPeer.map some ++ []))) := by
      simp [verifierLines, List.map_append, List.append_assoc]
    rw [hpeer]
    simp only [run, done, vrheProve, proverCoins]
    rw [bind_apply, if_neg (by rw [st.lX, st.lY]; omega), ← lA]
    rw [bind_ok (chain_P mode _ _ A 0 0 _ _ _ _ hA), ← halpha, lA, bind_ok hx]
    rw [bind_ok (hL.prover _ _ _ _ _), ← hlambda, bind_ok (vrheMove4_apply _ _ _ _ _)]
    rw [hrotP]
    simp only [pure_apply, List.nil_append, List.append_assoc]
  · have hpeer : (A.flatMap ChalSrc.pSent ++ ((x.hk ++ flatCards x.Ak ++ [x.v] ++ x.fk ++ flatCards x.Fk) ++
        (L.pSent ++ (((vrheResp S.G.q s.length x lambda).1 ++ (vrheResp S.G.q s.length x lambda).2.1 ++
          (vrheResp S.G.q s.length x lambda).2.2) ++ (B.flatMap ChalSrc.pSent ++ (f ++ (L2.pSent ++
            (r1 ++ r2)))))))).map some =
        (A.flatMap ChalSrc.pSent).map some ++
          ((x.hk ++ flatCards x.Ak ++ [x.v] ++ x.fk ++ flatCards x.Fk).map some ++
          (L.pSent.map some ++ (((vrheResp S.G.q s.length x lambda).1 ++
            (vrheResp S.G.q s.length x lambda).2.1 ++ (vrheResp S.G.q s.length x lambda).2.2).map some ++
          ((B.flatMap ChalSrc.pSent).map some ++ (f.map some ++ (L2.pSent.map some ++
            ((r1 ++ r2).map some ++ []))))))) := by
      simp only [List.map_append, List.append_assoc, List.append_nil]
    have hcoins : verifierCoins A L B L2 = A.flatMap ChalSrc.vCoins ++ (L.vCoins ++
        (B.flatMap ChalSrc.vCoins ++ (L2.vCoins ++ []))) := by
      simp [verifierCoins]
    rw [hpeer, hcoins]
    simp only [run, vrheVerify, st.lX]
    rw [if_neg (by rw [st.lY]; omega), ← lA]
    rw [bind_ok (chain_V mode _ _ A 0 0 _ _ _ hA), ← halpha, lA]
    rw [bind_ok (vrheRead1_spec S _ x.hk x.Ak x.v x.fk x.Fk _ _ _ ok.lhk ok.lAk
      ok.lfk ok.lFk ehk eAk efk eFk hv)]
    simp only []
    rw [bind_ok (hL.verifier _ _ _ _), ← hlambda]
    rw [bind_ok (vrheRead2_spec _ _ _ _ _ _ _ _ l1 l2 l3 e1 e2 e3)]
    simp only []
    rw [bind_ok (liftE_ok hchk _)]
    simp only [Bool.not_true, Bool.false_eq_true, if_false]
    rw [bind_ok (hrotV [] [] _), bind_ok (liftE_ok hfinal _)]
    simp only [Bool.not_true, Bool.false_eq_true, if_false, pure_apply, verifierLines,
      List.nil_append, List.append_assoc]
end Tmcg.Args
