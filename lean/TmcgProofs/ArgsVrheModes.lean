import TmcgProofs.ArgsVrhe
import TmcgProofs.Coin
/-
  C03 for the rotation argument, part 3: the three modes.  Obtaining a challenge is abstracted into
  a "challenge source" (what both parties read, draw and write, and the common value); the
  completeness proof is done once for arbitrary sources (`vrhe_modes`) and instantiated for the
  interactive mode, the public-coin mode (two-party coin flips) and the non-interactive mode
  (Fiat–Shamir).
-/
namespace Tmcg.Args
open Tmcg Tmcg.Powm Tmcg.Vtmf Tmcg.Grp Tmcg.Sigma Tmcg.SigmaComplete Tmcg.CoinFlip Tmcg.CoinProofs
variable {G : Group} [Fact (Nat.Prime G.p.natAbs)]
set_option linter.unusedVariables false

/-! ### one challenge, seen from both sides

A challenge source says what obtaining one challenge does to the two transcripts: which lines the
prover reads (they are the lines the verifier writes), which coins it draws, which lines it writes
(the verifier reads them), which coins the verifier draws, and the common value — which may
depend on the hash input (non-interactive mode).  The three modes are three families of sources;
the completeness proof is done once, for arbitrary sources. -/

structure ChalSrc where
  val : (Unit → List ℤ) → ℤ
  pPeer : List ℤ
  pCoins : List ℤ
  pSent : List ℤ
  vCoins : List ℤ

structure ChalOk (mode : Mode) (q : ℤ) (d : ChalSrc) : Prop where
  prover : ∀ hin peer coins sent tr,
    chalP mode q hin ⟨d.pPeer.map some ++ peer, d.pCoins ++ coins, sent, tr⟩ =
      .ok (d.val hin) ⟨peer, coins, sent ++ d.pSent, tr⟩
  verifier : ∀ hin peer coins sent,
    chalV mode q hin ⟨d.pSent.map some ++ peer, d.vCoins ++ coins, sent, false⟩ =
      .ok (d.val hin) ⟨peer, coins, sent ++ d.pPeer, false⟩
  range : ∀ hin, 0 ≤ d.val hin ∧ d.val hin < q

/-- the values of a chain of challenges (each hash input links to the previous value) -/
def chainVals (base : List ℤ) : List ChalSrc → ℕ → ℤ → List ℤ
  | [], _, _ => []
  | d :: ds, i, prev =>
    d.val (fun _ => base ++ [prev, (i : ℤ)]) ::
      chainVals base ds (i + 1) (d.val (fun _ => base ++ [prev, (i : ℤ)]))

theorem chainVals_length (base : List ℤ) : ∀ (ds : List ChalSrc) i prev,
    (chainVals base ds i prev).length = ds.length
  | [], _, _ => rfl
  | d :: ds, i, prev => by simp [chainVals, chainVals_length base ds]

theorem chainVals_inQ (mode : Mode) (q : ℤ) (base : List ℤ) : ∀ (ds : List ChalSrc) i prev,
    (∀ d ∈ ds, ChalOk mode q d) → InQ q (chainVals base ds i prev)
  | [], _, _, _ => by intro x hx; cases hx
  | d :: ds, i, prev, h => by
    intro x hx
    simp only [chainVals, List.mem_cons] at hx
    rcases hx with rfl | hx
    · exact (h d (by simp)).range _
    · exact chainVals_inQ mode q base ds _ _ (fun e he => h e (by simp [he])) x hx

theorem chain_P (mode : Mode) (q : ℤ) (base : List ℤ) : ∀ (ds : List ChalSrc) (i : ℕ) (prev : ℤ)
    (peer : List (Option ℤ)) (coins sent : List ℤ) (tr : Bool), (∀ d ∈ ds, ChalOk mode q d) →
    chalChain (chalP mode q) base ds.length i prev
      ⟨(ds.flatMap ChalSrc.pPeer).map some ++ peer, ds.flatMap ChalSrc.pCoins ++ coins, sent, tr⟩ =
      .ok (chainVals base ds i prev) ⟨peer, coins, sent ++ ds.flatMap ChalSrc.pSent, tr⟩
  | [], i, prev, peer, coins, sent, tr, _ => by simp [chalChain, chainVals, pure_apply]
  | d :: ds, i, prev, peer, coins, sent, tr, h => by
    have hd := h d (by simp)
    have ih := chain_P mode q base ds (i + 1) (d.val (fun _ => base ++ [prev, (i : ℤ)])) peer coins
      (sent ++ d.pSent) tr (fun e he => h e (by simp [he]))
    simp only [List.length_cons, chalChain, List.flatMap_cons, List.map_append, List.append_assoc]
    rw [bind_ok (hd.prover _ _ _ _ _), bind_ok ih]
    simp [chainVals, pure_apply]

theorem chain_V (mode : Mode) (q : ℤ) (base : List ℤ) : ∀ (ds : List ChalSrc) (i : ℕ) (prev : ℤ)
    (peer : List (Option ℤ)) (coins sent : List ℤ), (∀ d ∈ ds, ChalOk mode q d) →
    chalChain (chalV mode q) base ds.length i prev
      ⟨(ds.flatMap ChalSrc.pSent).map some ++ peer, ds.flatMap ChalSrc.vCoins ++ coins, sent, false⟩ =
      .ok (chainVals base ds i prev) ⟨peer, coins, sent ++ ds.flatMap ChalSrc.pPeer, false⟩
  | [], i, prev, peer, coins, sent, _ => by simp [chalChain, chainVals, pure_apply]
  | d :: ds, i, prev, peer, coins, sent, h => by
    have hd := h d (by simp)
    have ih := chain_V mode q base ds (i + 1) (d.val (fun _ => base ++ [prev, (i : ℤ)])) peer coins
      (sent ++ d.pPeer) (fun e he => h e (by simp [he]))
    simp only [List.length_cons, chalChain, List.flatMap_cons, List.map_append, List.append_assoc]
    rw [bind_ok (hd.verifier _ _ _ _), bind_ok ih]
    simp [chainVals, pure_apply]


/-! ### PUB-ROT-ZK in any mode -/

theorem rot_modes (hG : ValidGroup G) (mode : Mode) (S : State) (hS : StateOk G S) (r : ℕ)
    (alpha uk c : List ℤ) (hn : 2 ≤ alpha.length) (hr : r < alpha.length)
    (luk : uk.length = alpha.length) (lc : c.length = alpha.length)
    (hc : ∀ j < alpha.length, Val G (c.getD j 0)
      (toF G G.g ^ arOf alpha.length r alpha j * toF G S.h ^ uk.getD j 0))
    (B : List ChalSrc) (lB : B.length = alpha.length) (hB : ∀ d ∈ B, ChalOk mode S.G.q d)
    (L : ChalSrc) (hL : ChalOk mode S.G.q L)
    (u : ℤ) (lt rest : List ℤ) (hu : 0 ≤ u ∧ u < G.q) (hlt : InQ G.q lt)
    (llt : lt.length = 2 * (alpha.length - 1))
    (peer : List (Option ℤ)) (sent : List ℤ) (tr : Bool) :
    ∃ f r1 r2 : List ℤ,
      rotProve mode S r uk alpha c
        ⟨(B.flatMap ChalSrc.pPeer).map some ++ (L.pPeer.map some ++ peer),
         B.flatMap ChalSrc.pCoins ++ (u :: (lt ++ (L.pCoins ++ rest))), sent, tr⟩ =
        .ok () ⟨peer, rest, sent ++ B.flatMap ChalSrc.pSent ++ f ++ L.pSent ++ r1 ++ r2, tr⟩ ∧
      ∀ (restV : List (Option ℤ)) (csV sentV : List ℤ),
        rotVerify mode S alpha c
          ⟨(B.flatMap ChalSrc.pSent).map some ++ (f.map some ++ (L.pSent.map some ++
            ((r1 ++ r2).map some ++ restV))),
           B.flatMap ChalSrc.vCoins ++ (L.vCoins ++ csV), sentV, false⟩ =
          .ok () ⟨restV, csV, sentV ++ B.flatMap ChalSrc.pPeer ++ L.pPeer, false⟩ := by
  have hq := hG.q_pos
  set beta := chainVals (alpha ++ c ++ pqgh S) B 0 0 with hbeta
  have lb : beta.length = alpha.length := by rw [hbeta, chainVals_length, lB]
  obtain ⟨x, hx, lf, ef, hresp⟩ := rot_core hG S hS r alpha uk c beta hr luk lc lb hc u lt
    (L.pCoins ++ rest) hu hlt llt (L.pPeer.map some ++ peer) (sent ++ B.flatMap ChalSrc.pSent) tr
  set lambda := L.val (fun _ => alpha ++ c ++ x.f ++ beta ++ pqgh S) with hlambda
  have hlam : 0 ≤ lambda ∧ lambda < G.q := by
    have := hL.range (fun _ => alpha ++ c ++ x.f ++ beta ++ pqgh S)
    rwa [hS.grp] at this
  obtain ⟨l1, l2, e1, e2, hchk⟩ := hresp lambda hlam
  refine ⟨x.f, (rotResp S.G.q r uk beta x lambda).1, (rotResp S.G.q r uk beta x lambda).2, ?_, ?_⟩
  · simp only [rotProve]
    rw [if_neg (by omega), ← lB]
    rw [bind_ok (chain_P mode _ _ B 0 0 _ _ _ _ hB), ← hbeta, bind_ok hx]
    rw [bind_ok (hL.prover _ _ _ _ _), ← hlambda, rotMove3_apply]
  · intro restV csV sentV
    simp only [rotVerify]
    rw [if_neg (by omega), ← lB]
    rw [bind_ok (chain_V mode _ _ B 0 0 _ _ _ hB), ← hbeta, lB]
    rw [bind_ok (rotRead1_spec S _ x.f _ _ _ lf ef)]
    rw [bind_ok (hL.verifier _ _ _ _), ← hlambda]
    rw [bind_ok (rotRead2_spec _ _ _ _ restV _ _ l1 l2 e1 e2)]
    simp only []
    rw [bind_ok (liftE_ok hchk _)]
    rfl

/-! ### the rotation argument in any mode -/

theorem stride_getD (k off : ℕ) (l : List ℤ) (n i : ℕ) (hi : i < n) :
    (stride k off l n).getD i 0 = l.getD (k * i + off) 0 := by
  unfold stride; rw [getD_map_range _ _ _ _ hi]

/-- what the verifier writes (and the prover reads): the challenge lines in order -/
def verifierLines (A : List ChalSrc) (L : ChalSrc) (B : List ChalSrc) (L2 : ChalSrc) : List ℤ :=
  A.flatMap ChalSrc.pPeer ++ L.pPeer ++ B.flatMap ChalSrc.pPeer ++ L2.pPeer

/-- the prover's draws in order: coins of the challenges `α_i`, then `u_0 t_0 u_1 t_1 …`,
    `o_0 p_0 m_0 …`, coins of the challenge `λ`, coins of the challenges `β_i`, `u`,
    `λ_j t_j (j ≠ r)`, coins of the last challenge -/
def proverCoins (A : List ChalSrc) (L : ChalSrc) (B : List ChalSrc) (L2 : ChalSrc)
    (ut opm : List ℤ) (u : ℤ) (lt rest : List ℤ) : List ℤ :=
  A.flatMap ChalSrc.pCoins ++ (ut ++ (opm ++ (L.pCoins ++ (B.flatMap ChalSrc.pCoins ++
    (u :: (lt ++ (L2.pCoins ++ rest)))))))

def verifierCoins (A : List ChalSrc) (L : ChalSrc) (B : List ChalSrc) (L2 : ChalSrc) : List ℤ :=
  A.flatMap ChalSrc.vCoins ++ (L.vCoins ++ (B.flatMap ChalSrc.vCoins ++ L2.vCoins))

theorem vrhe_modes (hG : ValidGroup G) (mode : Mode) (S : State) (hS : StateOk G S)
    (r : ℕ) (s : List ℤ) (X Y : List Card) (st : RotStmt G S r s X Y)
    (A : List ChalSrc) (lA : A.length = s.length) (hA : ∀ d ∈ A, ChalOk mode S.G.q d)
    (L : ChalSrc) (hL : ChalOk mode S.G.q L)
    (B : List ChalSrc) (lB : B.length = s.length) (hB : ∀ d ∈ B, ChalOk mode S.G.q d)
    (L2 : ChalSrc) (hL2 : ChalOk mode S.G.q L2)
    (ut opm : List ℤ) (u : ℤ) (lt rest : List ℤ)
    (hut : InQ G.q ut) (hopm : InQ G.q opm) (hu : 0 ≤ u ∧ u < G.q) (hlt : InQ G.q lt)
    (lut : ut.length = 2 * s.length) (lopm : opm.length = 3 * s.length)
    (llt : lt.length = 2 * (s.length - 1)) :
    ∃ sentP,
      run (done (vrheProve mode S r s X Y))
        ⟨(verifierLines A L B L2).map some, proverCoins A L B L2 ut opm u lt rest, [], false⟩ =
        .ok ⟨sentP, true, false⟩ ∧
      run (vrheVerify mode S X Y) ⟨sentP.map some, verifierCoins A L B L2, [], false⟩ =
        .ok ⟨verifierLines A L B L2, true, false⟩ := by
  have hq := hG.q_pos
  have hn := st.n2
  have hr := st.r_lt
  set alpha := chainVals (flatCards X ++ flatCards Y ++ pqgh S) A 0 0 with halpha
  have lα : alpha.length = s.length := by rw [halpha, chainVals_length, lA]
  have hα : InQ G.q alpha := by
    have := chainVals_inQ mode S.G.q (flatCards X ++ flatCards Y ++ pqgh S) A 0 0 hA
    rwa [hS.grp] at this
  obtain ⟨x, hx, ok, ehk, eAk, efk, eFk, hv, hfinal, hresp⟩ := vrhe_core hG S hS r s X Y st alpha lα hα
    ut opm (L.pCoins ++ (B.flatMap ChalSrc.pCoins ++ (u :: (lt ++ (L2.pCoins ++ rest))))) hut hopm lut lopm
    (L.pPeer.map some ++ ((B.flatMap ChalSrc.pPeer).map some ++ (L2.pPeer.map some ++ [])))
    ([] ++ A.flatMap ChalSrc.pSent) false
  set lambda := L.val (fun _ => vrheHash2 S X Y x.Ak x.Fk x.hk x.fk x.v) with hlambda
  have hlam : 0 ≤ lambda ∧ lambda < G.q := by
    have := hL.range (fun _ => vrheHash2 S X Y x.Ak x.Fk x.hk x.fk x.v)
    rwa [hS.grp] at this
  obtain ⟨l1, l2, l3, e1, e2, e3, hchk⟩ := hresp lambda hlam
  have hc : ∀ j < alpha.length, Val G (x.hk.getD j 0)
      (toF G G.g ^ arOf alpha.length r alpha j * toF G S.h ^ (stride 2 0 x.ut s.length).getD j 0) := by
    intro j hj
    rw [lα] at hj ⊢
    rw [stride_getD _ _ _ _ _ hj, ok.ut_eq]
    exact ok.hk j hj
  obtain ⟨f, r1, r2, hrotP, hrotV⟩ := rot_modes hG mode S hS r alpha (stride 2 0 x.ut s.length) x.hk
    (by omega) (by omega) (by simp [stride, lα]) (by rw [ok.lhk, lα]) hc B (by rw [lB, lα]) hB L2 hL2
    u lt rest hu hlt (by rw [lα]; exact llt) []
    ([] ++ A.flatMap ChalSrc.pSent ++ x.hk ++ flatCards x.Ak ++ [x.v] ++ x.fk ++ flatCards x.Fk ++ L.pSent ++
      (vrheResp S.G.q s.length x lambda).1 ++ (vrheResp S.G.q s.length x lambda).2.1 ++
      (vrheResp S.G.q s.length x lambda).2.2) false
  refine ⟨A.flatMap ChalSrc.pSent ++ ((x.hk ++ flatCards x.Ak ++ [x.v] ++ x.fk ++ flatCards x.Fk) ++
    (L.pSent ++ (((vrheResp S.G.q s.length x lambda).1 ++ (vrheResp S.G.q s.length x lambda).2.1 ++
      (vrheResp S.G.q s.length x lambda).2.2) ++ (B.flatMap ChalSrc.pSent ++ (f ++ (L2.pSent ++
        (r1 ++ r2))))))), ?_, ?_⟩
  · have hpeer : (verifierLines A L B L2).map some = (A.flatMap ChalSrc.pPeer).map some ++
        (L.pPeer.map some ++ ((B.flatMap ChalSrc.pPeer).map some ++ (L2.pPeer.map some ++ []))) := by
      simp [verifierLines, List.map_append, List.append_assoc]
    rw [hpeer]
    simp only [run, done, vrheProve, proverCoins]
    rw [bind_apply, if_neg (by rw [st.lX, st.lY]; omega), ← lA]
    rw [bind_ok (chain_P mode _ _ A 0 0 _ _ _ _ hA), ← halpha, lA, bind_ok hx]
    rw [bind_ok (hL.prover _ _ _ _ _), ← hlambda, bind_ok (vrheMove4_apply _ _ _ _ _)]
    rw [hrotP]
    simp only [pure_apply, List.nil_append, List.append_assoc]
  · have hpeer : (A.flatMap ChalSrc.pSent ++ ((x.hk ++ flatCards x.Ak ++ [x.v] ++ x.fk ++ flatCards x.Fk) ++
        (L.pSent ++ (((vrheResp S.G.q s.length x lambda).1 ++ (vrheResp S.G.q s.length x lambda).2.1 ++
          (vrheResp S.G.q s.length x lambda).2.2) ++ (B.flatMap ChalSrc.pSent ++ (f ++ (L2.pSent ++
            (r1 ++ r2)))))))).map some =
        (A.flatMap ChalSrc.pSent).map some ++
          ((x.hk ++ flatCards x.Ak ++ [x.v] ++ x.fk ++ flatCards x.Fk).map some ++
          (L.pSent.map some ++ (((vrheResp S.G.q s.length x lambda).1 ++
            (vrheResp S.G.q s.length x lambda).2.1 ++ (vrheResp S.G.q s.length x lambda).2.2).map some ++
          ((B.flatMap ChalSrc.pSent).map some ++ (f.map some ++ (L2.pSent.map some ++
            ((r1 ++ r2).map some ++ []))))))) := by
      simp only [List.map_append, List.append_assoc, List.append_nil]
    have hcoins : verifierCoins A L B L2 = A.flatMap ChalSrc.vCoins ++ (L.vCoins ++
        (B.flatMap ChalSrc.vCoins ++ (L2.vCoins ++ []))) := by
      simp [verifierCoins]
    rw [hpeer, hcoins]
    simp only [run, vrheVerify, st.lX]
    rw [if_neg (by rw [st.lY]; omega), ← lA]
    rw [bind_ok (chain_V mode _ _ A 0 0 _ _ _ hA), ← halpha, lA]
    rw [bind_ok (vrheRead1_spec S _ x.hk x.Ak x.v x.fk x.Fk _ _ _ ok.lhk ok.lAk
      ok.lfk ok.lFk ehk eAk efk eFk hv)]
    simp only []
    rw [bind_ok (hL.verifier _ _ _ _), ← hlambda]
    rw [bind_ok (vrheRead2_spec _ _ _ _ _ _ _ _ l1 l2 l3 e1 e2 e3)]
    simp only []
    rw [bind_ok (liftE_ok hchk _)]
    simp only [Bool.not_true, Bool.false_eq_true, if_false]
    rw [bind_ok (hrotV [] [] _), bind_ok (liftE_ok hfinal _)]
    simp only [Bool.not_true, Bool.false_eq_true, if_false, pure_apply, verifierLines,
      List.nil_append, List.append_assoc]
/-! ### the three kinds of challenge sources -/

/-- non-interactive: the challenge is the hash of the input, reduced -/
def srcNi (H : Hash) (q : ℤ) : ChalSrc := ⟨fun hin => H (shashInput (hin ())) % q, [], [], [], []⟩

theorem srcNi_ok (H : Hash) (q : ℤ) (hq : 0 < q) : ChalOk (.ni H) q (srcNi H q) where
  prover := by
    intro hin peer coins sent tr
    simp only [srcNi, List.map_nil, List.nil_append, List.append_nil]
    simp only [chalP, mpzMod, ne_of_gt hq, if_false]
    rfl
  verifier := by
    intro hin peer coins sent
    simp only [srcNi, List.map_nil, List.nil_append, List.append_nil]
    simp only [chalV, mpzMod, ne_of_gt hq, if_false]
    rfl
  range := fun hin => ⟨Int.emod_nonneg _ (ne_of_gt hq), Int.emod_lt_of_pos _ hq⟩

/-- interactive: the verifier draws `c` and sends it -/
def srcInter (c : ℤ) : ChalSrc := ⟨fun _ => c, [c], [], [], [c]⟩

theorem srcInter_ok (q c : ℤ) (hc : 0 ≤ c ∧ c < q) : ChalOk .inter q (srcInter c) where
  prover := by
    intro hin peer coins sent tr
    have hq : q ≠ 0 := by omega
    simp only [srcInter, List.map_cons, List.map_nil, List.cons_append, List.nil_append,
      List.append_nil]
    simp only [chalP]
    rw [bind_ok (recv_spec c peer coins sent tr)]
    simp only [mpzMod, hq, if_false, Int.emod_eq_of_lt hc.1 hc.2]
    rfl
  verifier := by
    intro hin peer coins sent
    simp only [srcInter, List.map_nil, List.nil_append, List.cons_append]
    simp only [chalV]
    rw [bind_ok (draw_spec peer c coins sent false), bind_ok (send_apply _ _)]
    rfl
  range := fun _ => hc

theorem flipTwoParty_more (C : Crs) (c hc : ℤ) (a b d : ℤ) (more : List (Option ℤ)) :
    flipTwoParty C c hc (some a :: some b :: some d :: more) =
      flipTwoParty C c hc [some a, some b, some d] := by
  unfold flipTwoParty
  rfl

theorem flip_spec (C : Crs) (c0 h0 C0 C1 c1 h1 v : ℤ) (o : Outcome)
    (ho : flipTwoParty C c0 h0 [some C1, some c1, some h1] = .ok o)
    (hact : o.actions = [.send C0, .recv C1, .send c0, .send h0, .recv c1, .recv h1])
    (hres : o.result = some v) (hthrew : o.threw = false)
    (peer : List (Option ℤ)) (coins sent : List ℤ) (tr : Bool) :
    flip C ⟨some C1 :: some c1 :: some h1 :: peer, c0 :: h0 :: coins, sent, tr⟩ =
      .ok (some v) ⟨peer, coins, sent ++ [C0, c0, h0], tr⟩ := by
  simp only [flip]
  rw [bind_ok (draw_spec _ c0 _ sent tr), bind_ok (draw_spec _ h0 _ sent tr)]
  simp only [flipStep, flipTwoParty_more, ho, hact, hres, hthrew]
  simp [sendsOf]

/-- public coin: both parties draw a share and a randomiser, exchange commitment and opening;
    the coin `(c₀ + c₁) mod q'` of the flip's group is reduced modulo `q` -/
def srcPc (q : ℤ) (C : Crs) (C0 C1 c0 h0 c1 h1 : ℤ) : ChalSrc :=
  ⟨fun _ => (c0 + c1) % C.q % q, [C1, c1, h1], [c0, h0], [C0, c0, h0], [c1, h1]⟩

theorem srcPc_ok (q : ℤ) (hq : 0 < q) (C : Crs) [Fact (Nat.Prime (grp C).p.natAbs)] (hC : ValidCrs C)
    (c0 h0 c1 h1 : ℤ) (hc0 : 0 ≤ c0 ∧ c0 < C.q) (hh0 : 0 ≤ h0 ∧ h0 < C.q)
    (hc1 : 0 ≤ c1 ∧ c1 < C.q) (hh1 : 0 ≤ h1 ∧ h1 < C.q) :
    ∃ C0 C1, pedersen C c0 h0 true = .ok C0 ∧ pedersen C c1 h1 true = .ok C1 ∧
      ChalOk (.pc C) q (srcPc q C C0 C1 c0 h0 c1 h1) := by
  obtain ⟨C0, C1, o0, o1, hC0, hC1, f0, f1, r0, r1, t0, t1, a0, a1⟩ :=
    flip2_agree hC c0 h0 c1 h1 hc0 hh0 hc1 hh1
  refine ⟨C0, C1, hC0, hC1, ?_, ?_, ?_⟩
  · intro hin peer coins sent tr
    simp only [srcPc, List.map_cons, List.map_nil, List.cons_append, List.nil_append]
    simp only [chalP]
    rw [bind_ok (flip_spec C c0 h0 C0 C1 c1 h1 _ o0 f0 a0 r0 t0 peer coins sent tr)]
    simp only [Option.getD_some, mpzMod, ne_of_gt hq, if_false]
    rfl
  · intro hin peer coins sent
    simp only [srcPc, List.map_cons, List.map_nil, List.cons_append, List.nil_append]
    simp only [chalV]
    rw [bind_ok (flip_spec C c1 h1 C1 C0 c0 h0 _ o1 f1 a1 r1 t1 peer coins sent false)]
    simp only [mpzMod, ne_of_gt hq, if_false]
    rfl
  · intro _
    exact ⟨Int.emod_nonneg _ (ne_of_gt hq), Int.emod_lt_of_pos _ hq⟩


/-! ### completeness of the rotation argument in the three modes -/

variable {G : Group} [Fact (Nat.Prime G.p.natAbs)]

theorem flatMap_nil_of {α β} (f : α → List β) : ∀ (l : List α), (∀ d ∈ l, f d = []) → l.flatMap f = []
  | [], _ => rfl
  | a :: l, h => by
    rw [List.flatMap_cons, h a (by simp), flatMap_nil_of f l (fun d hd => h d (by simp [hd]))]
    rfl

/-- **C03, rotation argument, non-interactive mode**: for every stack size `n ≥ 2`, rotation `r`,
    exponents `s`, true statement `Y_k = X_{k-r}·(g^{s_k}, h^{s_k})` over a valid group, every hash
    function and all prover coins in `[0, q)` (draw order `u_0 t_0 u_1 t_1 …`, `o_0 p_0 m_0 …`, `u`,
    `λ_j t_j (j ≠ r)`), the verifier accepts the proof the prover writes. -/
theorem vrhe_complete_noninteractive (hG : ValidGroup G) (H : Hash) (S : State) (hS : StateOk G S)
    (r : ℕ) (s : List ℤ) (X Y : List Card) (st : RotStmt G S r s X Y)
    (ut opm : List ℤ) (u : ℤ) (lt rest : List ℤ)
    (hut : InQ G.q ut) (hopm : InQ G.q opm) (hu : 0 ≤ u ∧ u < G.q) (hlt : InQ G.q lt)
    (lut : ut.length = 2 * s.length) (lopm : opm.length = 3 * s.length)
    (llt : lt.length = 2 * (s.length - 1)) :
    ∃ proof,
      run (done (vrheProve (.ni H) S r s X Y)) ⟨[], ut ++ (opm ++ (u :: (lt ++ rest))), [], false⟩ =
        .ok ⟨proof, true, false⟩ ∧
      run (vrheVerify (.ni H) S X Y) ⟨proof.map some, [], [], false⟩ = .ok ⟨[], true, false⟩ := by
  have hq : 0 < S.G.q := by rw [hS.grp]; exact hG.q_pos
  have hsrc := srcNi_ok H S.G.q hq
  have hall : ∀ d ∈ List.replicate s.length (srcNi H S.G.q), ChalOk (.ni H) S.G.q d := by
    intro d hd; rw [List.eq_of_mem_replicate hd]; exact hsrc
  obtain ⟨sentP, hP, hV⟩ := vrhe_modes hG (.ni H) S hS r s X Y st
    (List.replicate s.length (srcNi H S.G.q)) (by simp) hall (srcNi H S.G.q) hsrc
    (List.replicate s.length (srcNi H S.G.q)) (by simp) hall (srcNi H S.G.q) hsrc
    ut opm u lt rest hut hopm hu hlt lut lopm llt
  have e : ∀ (f : ChalSrc → List ℤ), f (srcNi H S.G.q) = [] →
      (List.replicate s.length (srcNi H S.G.q)).flatMap f = [] := by
    intro f hf
    exact flatMap_nil_of f _ (fun d hd => by rw [List.eq_of_mem_replicate hd]; exact hf)
  have e1 : verifierLines (List.replicate s.length (srcNi H S.G.q)) (srcNi H S.G.q)
      (List.replicate s.length (srcNi H S.G.q)) (srcNi H S.G.q) = [] := by
    simp only [verifierLines, e ChalSrc.pPeer rfl]; simp [srcNi]
  have e2 : proverCoins (List.replicate s.length (srcNi H S.G.q)) (srcNi H S.G.q)
      (List.replicate s.length (srcNi H S.G.q)) (srcNi H S.G.q) ut opm u lt rest =
      ut ++ (opm ++ (u :: (lt ++ rest))) := by
    simp only [proverCoins, e ChalSrc.pCoins rfl]; simp [srcNi]
  have e3 : verifierCoins (List.replicate s.length (srcNi H S.G.q)) (srcNi H S.G.q)
      (List.replicate s.length (srcNi H S.G.q)) (srcNi H S.G.q) = [] := by
    simp only [verifierCoins, e ChalSrc.vCoins rfl]; simp [srcNi]
  rw [e1, e2] at hP
  rw [e1, e3] at hV
  exact ⟨sentP, hP, hV⟩

theorem flatMap_map_single {α} (f : α → ChalSrc) (g : ChalSrc → List ℤ) (h : α → ℤ)
    (hfg : ∀ a, g (f a) = [h a]) : ∀ l : List α, (l.map f).flatMap g = l.map h
  | [] => rfl
  | a :: l => by simp [hfg a, flatMap_map_single f g h hfg l]

theorem flatMap_map_nil {α} (f : α → ChalSrc) (g : ChalSrc → List ℤ)
    (hfg : ∀ a, g (f a) = []) : ∀ l : List α, (l.map f).flatMap g = []
  | [] => rfl
  | a :: l => by simp [hfg a, flatMap_map_nil f g hfg l]

/-- **C03, rotation argument, interactive mode**: the verifier's draws `α_0 … α_{n-1}, λ,
    β_0 … β_{n-1}, λ'` (any values in `[0, q)`) are what it writes and what the prover reads;
    the verifier accepts what the prover writes. -/
theorem vrhe_complete_interactive (hG : ValidGroup G) (S : State) (hS : StateOk G S)
    (r : ℕ) (s : List ℤ) (X Y : List Card) (st : RotStmt G S r s X Y)
    (alpha : List ℤ) (lambda : ℤ) (beta : List ℤ) (lambda2 : ℤ)
    (hα : InQ G.q alpha) (hlam : 0 ≤ lambda ∧ lambda < G.q) (hbeta : InQ G.q beta)
    (hlam2 : 0 ≤ lambda2 ∧ lambda2 < G.q) (lα : alpha.length = s.length) (lbeta : beta.length = s.length)
    (ut opm : List ℤ) (u : ℤ) (lt rest : List ℤ)
    (hut : InQ G.q ut) (hopm : InQ G.q opm) (hu : 0 ≤ u ∧ u < G.q) (hlt : InQ G.q lt)
    (lut : ut.length = 2 * s.length) (lopm : opm.length = 3 * s.length)
    (llt : lt.length = 2 * (s.length - 1)) :
    ∃ sentP,
      run (done (vrheProve .inter S r s X Y))
        ⟨(alpha ++ [lambda] ++ beta ++ [lambda2]).map some, ut ++ (opm ++ (u :: (lt ++ rest))), [], false⟩ =
        .ok ⟨sentP, true, false⟩ ∧
      run (vrheVerify .inter S X Y) ⟨sentP.map some, alpha ++ [lambda] ++ beta ++ [lambda2], [], false⟩ =
        .ok ⟨alpha ++ [lambda] ++ beta ++ [lambda2], true, false⟩ := by
  have hall : ∀ (l : List ℤ), InQ G.q l → ∀ d ∈ l.map srcInter, ChalOk .inter S.G.q d := by
    intro l hl d hd
    obtain ⟨c, hc, rfl⟩ := List.mem_map.mp hd
    rw [hS.grp]; exact srcInter_ok G.q c (hl c hc)
  obtain ⟨sentP, hP, hV⟩ := vrhe_modes hG .inter S hS r s X Y st
    (alpha.map srcInter) (by simp [lα]) (hall alpha hα) (srcInter lambda)
    (by rw [hS.grp]; exact srcInter_ok G.q lambda hlam)
    (beta.map srcInter) (by simp [lbeta]) (hall beta hbeta) (srcInter lambda2)
    (by rw [hS.grp]; exact srcInter_ok G.q lambda2 hlam2)
    ut opm u lt rest hut hopm hu hlt lut lopm llt
  have p1 : ∀ l : List ℤ, (l.map srcInter).flatMap ChalSrc.pPeer = l := by
    intro l; rw [flatMap_map_single srcInter ChalSrc.pPeer id (fun _ => rfl)]; simp
  have p2 : ∀ l : List ℤ, (l.map srcInter).flatMap ChalSrc.vCoins = l := by
    intro l; rw [flatMap_map_single srcInter ChalSrc.vCoins id (fun _ => rfl)]; simp
  have p3 : ∀ l : List ℤ, (l.map srcInter).flatMap ChalSrc.pCoins = [] :=
    fun l => flatMap_map_nil srcInter ChalSrc.pCoins (fun _ => rfl) l
  have e1 : verifierLines (alpha.map srcInter) (srcInter lambda) (beta.map srcInter) (srcInter lambda2) =
      alpha ++ [lambda] ++ beta ++ [lambda2] := by
    simp [verifierLines, p1, srcInter]
  have e2 : proverCoins (alpha.map srcInter) (srcInter lambda) (beta.map srcInter) (srcInter lambda2)
      ut opm u lt rest = ut ++ (opm ++ (u :: (lt ++ rest))) := by
    simp [proverCoins, p3, srcInter]
  have e3 : verifierCoins (alpha.map srcInter) (srcInter lambda) (beta.map srcInter) (srcInter lambda2) =
      alpha ++ [lambda] ++ beta ++ [lambda2] := by
    simp [verifierCoins, p2, srcInter]
  rw [e1, e2] at hP
  rw [e1, e3] at hV
  exact ⟨sentP, hP, hV⟩

/-- share and randomiser of every flip, in draw order -/
def flat2 (l : List (ℤ × ℤ)) : List ℤ := l.flatMap fun x => [x.1, x.2]

/-- all shares and randomisers lie in `[0, q')` -/
def InQ2 (q : ℤ) (l : List (ℤ × ℤ)) : Prop := ∀ x ∈ l, (0 ≤ x.1 ∧ x.1 < q) ∧ (0 ≤ x.2 ∧ x.2 < q)

theorem srcPc_list (q : ℤ) (hq : 0 < q) (C : Crs) [Fact (Nat.Prime (grp C).p.natAbs)] (hC : ValidCrs C) :
    ∀ (pcs vcs : List (ℤ × ℤ)), pcs.length = vcs.length → InQ2 C.q pcs → InQ2 C.q vcs →
    ∃ A : List ChalSrc, A.length = pcs.length ∧ (∀ d ∈ A, ChalOk (.pc C) q d) ∧
      A.flatMap ChalSrc.pCoins = flat2 pcs ∧ A.flatMap ChalSrc.vCoins = flat2 vcs
  | [], [], _, _, _ => ⟨[], rfl, by simp, rfl, rfl⟩
  | x :: pcs, y :: vcs, hl, hp, hv => by
    obtain ⟨A, lA, hA, e1, e2⟩ := srcPc_list q hq C hC pcs vcs (by simpa using hl)
      (fun z hz => hp z (by simp [hz])) (fun z hz => hv z (by simp [hz]))
    obtain ⟨C0, C1, -, -, hd⟩ := srcPc_ok q hq C hC x.1 x.2 y.1 y.2 (hp x (by simp)).1 (hp x (by simp)).2
      (hv y (by simp)).1 (hv y (by simp)).2
    refine ⟨srcPc q C C0 C1 x.1 x.2 y.1 y.2 :: A, by simp [lA], ?_, ?_, ?_⟩
    · intro d hd'
      rcases List.mem_cons.mp hd' with rfl | h
      · exact hd
      · exact hA d h
    · simp [flat2, srcPc, e1, List.flatMap_cons] at *
    · simp [flat2, srcPc, e2, List.flatMap_cons] at *

/-- **C03, rotation argument, public-coin mode**: every challenge is a two-party coin flip in the
    group of the CRS `C`; for all shares and randomisers of both parties (in `[0, q')`) and all
    other prover coins (in `[0, q)`), prover and verifier fed with each other's lines both finish,
    and the verifier accepts. -/
theorem vrhe_complete_publiccoin (hG : ValidGroup G) (S : State) (hS : StateOk G S)
    (C : Crs) (hC : ValidCrs C)
    (r : ℕ) (s : List ℤ) (X Y : List Card) (st : RotStmt G S r s X Y)
    (pA vA : List (ℤ × ℤ)) (pL vL : ℤ × ℤ) (pB vB : List (ℤ × ℤ)) (pL2 vL2 : ℤ × ℤ)
    (lpA : pA.length = s.length) (lvA : vA.length = s.length)
    (lpB : pB.length = s.length) (lvB : vB.length = s.length)
    (hpA : InQ2 C.q pA) (hvA : InQ2 C.q vA) (hpL : InQ2 C.q [pL]) (hvL : InQ2 C.q [vL])
    (hpB : InQ2 C.q pB) (hvB : InQ2 C.q vB) (hpL2 : InQ2 C.q [pL2]) (hvL2 : InQ2 C.q [vL2])
    (ut opm : List ℤ) (u : ℤ) (lt rest : List ℤ)
    (hut : InQ G.q ut) (hopm : InQ G.q opm) (hu : 0 ≤ u ∧ u < G.q) (hlt : InQ G.q lt)
    (lut : ut.length = 2 * s.length) (lopm : opm.length = 3 * s.length)
    (llt : lt.length = 2 * (s.length - 1)) :
    ∃ sentP sentV,
      run (done (vrheProve (.pc C) S r s X Y))
        ⟨sentV.map some, flat2 pA ++ (ut ++ (opm ++ (flat2 [pL] ++ (flat2 pB ++
          (u :: (lt ++ (flat2 [pL2] ++ rest))))))), [], false⟩ = .ok ⟨sentP, true, false⟩ ∧
      run (vrheVerify (.pc C) S X Y)
        ⟨sentP.map some, flat2 vA ++ (flat2 [vL] ++ (flat2 vB ++ flat2 [vL2])), [], false⟩ =
        .ok ⟨sentV, true, false⟩ := by
  have : Fact (Nat.Prime (grp C).p.natAbs) := ⟨hC.valid.p_prime⟩
  have hq : 0 < S.G.q := by rw [hS.grp]; exact hG.q_pos
  obtain ⟨A, lA, hA, a1, a2⟩ := srcPc_list S.G.q hq C hC pA vA (by rw [lpA, lvA]) hpA hvA
  obtain ⟨B, lB, hB, b1, b2⟩ := srcPc_list S.G.q hq C hC pB vB (by rw [lpB, lvB]) hpB hvB
  obtain ⟨L, lL, hL, c1, c2⟩ := srcPc_list S.G.q hq C hC [pL] [vL] rfl hpL hvL
  obtain ⟨L2, lL2, hL2, d1, d2⟩ := srcPc_list S.G.q hq C hC [pL2] [vL2] rfl hpL2 hvL2
  match L, lL, hL, c1, c2, L2, lL2, hL2, d1, d2 with
  | [dL], _, hL, c1, c2, [dL2], _, hL2, d1, d2 =>
    obtain ⟨sentP, hP, hV⟩ := vrhe_modes hG (.pc C) S hS r s X Y st A (by rw [lA, lpA]) hA dL
      (hL dL (by simp)) B (by rw [lB, lpB]) hB dL2 (hL2 dL2 (by simp))
      ut opm u lt rest hut hopm hu hlt lut lopm llt
    refine ⟨sentP, verifierLines A dL B dL2, ?_, ?_⟩
    · have : proverCoins A dL B dL2 ut opm u lt rest = flat2 pA ++ (ut ++ (opm ++ (flat2 [pL] ++
          (flat2 pB ++ (u :: (lt ++ (flat2 [pL2] ++ rest))))))) := by
        simp only [proverCoins, a1, b1, ← c1, ← d1, List.flatMap_cons, List.flatMap_nil, List.append_nil]
      rw [← this]; exact hP
    · have : verifierCoins A dL B dL2 = flat2 vA ++ (flat2 [vL] ++ (flat2 vB ++ flat2 [vL2])) := by
        simp only [verifierCoins, a2, b2, ← c2, ← d2, List.flatMap_cons, List.flatMap_nil, List.append_nil]
      rw [← this]; exact hV
end Tmcg.Args
