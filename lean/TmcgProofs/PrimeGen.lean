import Tmcg.Model.PrimeGen
import TmcgProofs.RabinGen
import TmcgProofs.Arith2
/-
  C09: the prime generators of src/mpz_sprime.cc (model `Tmcg/Model/PrimeGen.lean`).  Whenever a generator
  returns and the primality oracle is right about the RETURNED numbers (stated per generator), the output
  satisfies the generator's relation, i.e. `Arith2.primeRelOk` accepts it.
-/
namespace Tmcg.PrimeGenProofs
open Tmcg Tmcg.Rabin Tmcg.RabinGen Tmcg.PrimeGen Tmcg.RabinProofs Tmcg.RabinGenProofs Tmcg.Arith2 Tmcg.Arith2P

/-- the oracle never calls a composite number prime, whatever the number of repetitions -/
def OracleSound2 (isPrime : Oracle) : Prop := ∀ (n reps : Nat), isPrime (n : Int) reps = true → n.Prime

/-! ### sizes -/

theorem bitlen_mono (a b : Nat) (h : a ≤ b) : bitlen (a : Int) ≤ bitlen (b : Int) := by
  by_cases ha : a = 0
  · subst ha
    unfold bitlen; simp only [Int.natAbs_natCast]
    by_cases hb : b = 0
    · simp [hb]
    · simp [hb]
  · have hb : b ≠ 0 := by omega
    have h1 := two_pow_le_of_bitlen (a : Int) (by exact_mod_cast ha)
    simp only [Int.natAbs_natCast] at h1
    have hpos : 1 ≤ bitlen (a : Int) := by unfold bitlen; simp only [Int.natAbs_natCast, ha, if_false]; omega
    have := (le_bitlen_iff (b : Int) (by exact_mod_cast hb) (bitlen (a : Int) - 1)).mpr (by simpa using le_trans h1 h)
    omega

theorem bitlen_pos (a : Int) : 1 ≤ bitlen a := by
  unfold bitlen; simp only []; split <;> omega

/-- a value of at least `s` bits, doubled plus one, has at least `s + 1` bits -/
theorem bitlen_double (q s : Nat) (hs : 1 ≤ s) (hq0 : 0 < q) (h : s ≤ bitlen (q : Int)) :
    s + 1 ≤ bitlen ((2 * q + 1 : Nat) : Int) := by
  have hq : q ≠ 0 := by omega
  have h1 : 2 ^ (s - 1) ≤ q := by
    have := (le_bitlen_iff (q : Int) (by exact_mod_cast hq) (s - 1)).mp (by omega)
    simpa using this
  apply (le_bitlen_iff _ (by exact_mod_cast (by omega : 2 * q + 1 ≠ 0)) s).mpr
  simp only [Int.natAbs_natCast]
  have : 2 ^ s = 2 * 2 ^ (s - 1) := by
    cases s with
    | zero => omega
    | succ n => simp [pow_succ]; ring
  omega

theorem drawSized_spec (qsize : Nat) : ∀ (f : Nat) (coins : List Bytes) (v : Nat) (rest : List Bytes),
    drawSized qsize f coins = .ok (v, rest) → qsize ≤ bitlen (v : Int)
  | 0, _, _, _, h => by simp [drawSized] at h
  | f+1, [], _, _, h => by simp [drawSized] at h
  | f+1, c :: cs, v, rest, h => by
    unfold drawSized at h
    simp only at h
    split at h
    · exact drawSized_spec qsize f cs v rest h
    · rename_i hb
      simp only [Except.ok.injEq, Prod.mk.injEq] at h
      rw [← h.1]; omega

/-! ### `tmcg_mpz_sprime_test`: sprime, smprime, sprime2g, sprime3mod4 -/

theorem candOk_spec (isPrime : Oracle) (test : Test) (tbl : List Nat) (mr q : Nat)
    (h : candOk isPrime test tbl mr q = true) :
    testOk test (2 * q + 1) = true ∧ (2 ^ q % (2 * q + 1) = 1 ∨ 2 ^ q % (2 * q + 1) = 2 * q) ∧
      isPrime (q : Int) (mr - 1) = true := by
  unfold candOk at h
  simp only [Bool.and_eq_true, decide_eq_true_eq, powm_eq] at h
  obtain ⟨⟨⟨⟨⟨-, ht⟩, -⟩, -⟩, hy⟩, hp⟩ := h
  refine ⟨ht, ?_, hp⟩
  rcases hy with hy | hy
  · exact .inl hy
  · right; rw [hy]; omega

theorem searchInc_spec (isPrime : Oracle) (test : Test) (tbl : List Nat) (mr : Nat) :
    ∀ (f q0 q : Nat), searchInc isPrime test tbl mr f q0 = some q →
      candOk isPrime test tbl mr q = true ∧ q0 < q ∧ q % 2 = q0 % 2
  | 0, _, _, h => by simp [searchInc] at h
  | f+1, q0, q, h => by
    unfold searchInc at h
    split at h
    · rename_i hc
      simp only [Option.some.injEq] at h
      rw [← h]; exact ⟨hc, by omega, by omega⟩
    · obtain ⟨a, b, c⟩ := searchInc_spec isPrime test tbl mr f _ q h
      exact ⟨a, by omega, by omega⟩

/-- "`exhausted` only when the fuel ran out": the incremental search fails iff every one of the `f`
    candidates `q0 + 2, q0 + 4, …` fails its tests -/
theorem searchInc_none_iff (isPrime : Oracle) (test : Test) (tbl : List Nat) (mr : Nat) :
    ∀ (f q0 : Nat), searchInc isPrime test tbl mr f q0 = none ↔
      ∀ j, j < f → candOk isPrime test tbl mr (q0 + 2 * (j + 1)) = false
  | 0, q0 => by simp [searchInc]
  | f+1, q0 => by
    unfold searchInc
    by_cases hc : candOk isPrime test tbl mr (q0 + 2) = true
    · simp only [hc, if_true, reduceCtorEq, false_iff, not_forall]
      exact ⟨0, by omega, by simpa using hc⟩
    · rw [if_neg hc]
      rw [searchInc_none_iff isPrime test tbl mr f (q0 + 2)]
      constructor
      · intro h j hj
        cases j with
        | zero => simpa using hc
        | succ j => have := h j (by omega); rwa [show q0 + 2 + 2 * (j + 1) = q0 + 2 * (j + 1 + 1) by ring] at this
      · intro h j hj
        have := h (j + 1) (by omega)
        rwa [show q0 + 2 * (j + 1 + 1) = q0 + 2 + 2 * (j + 1) by ring] at this

/-- the result does not depend on the fuel once it suffices -/
theorem searchInc_mono (isPrime : Oracle) (test : Test) (tbl : List Nat) (mr : Nat) :
    ∀ (f f' q0 q : Nat), f ≤ f' → searchInc isPrime test tbl mr f q0 = some q →
      searchInc isPrime test tbl mr f' q0 = some q
  | 0, _, _, _, _, h => by simp [searchInc] at h
  | f+1, f', q0, q, hle, h => by
    obtain ⟨g, rfl⟩ : ∃ g, f' = g + 1 := ⟨f' - 1, by omega⟩
    unfold searchInc at h ⊢
    split at h
    · rename_i hc; rw [if_pos hc]; exact h
    · rename_i hc; rw [if_neg hc]; exact searchInc_mono isPrime test tbl mr f g _ q (by omega) h

/-- what `tmcg_mpz_sprime_test` returns.  The oracle is only asked about `q`; the primality of
    `p = 2q + 1` follows from step 4 (`2^q ≡ ±1 (mod p)`) by `safe_prime`. -/
theorem sprimeTest_spec (isPrime : Oracle) (test : Test) (nprimes qsize mr fuel : Nat) (coins : List Bytes)
    (p q : Nat) (rest : List Bytes)
    (h : sprimeTest isPrime test nprimes qsize mr fuel coins = .ok ((p, q), rest)) :
    p = 2 * q + 1 ∧ 0 < q ∧ qsize ≤ bitlen (q : Int) ∧ qsize + 1 ≤ bitlen (p : Int) ∧ testOk test p = true ∧
      isPrime (q : Int) (mr - 1) = true ∧ (q.Prime → p.Prime) := by
  unfold sprimeTest at h
  split at h
  · simp at h
  rename_i hq0
  cases hd : drawSized qsize fuel coins with
  | error e => rw [hd] at h; simp at h
  | ok v =>
    obtain ⟨q0, rest0⟩ := v
    rw [hd] at h
    simp only at h
    cases hs : searchInc isPrime test (mkTable nprimes) mr fuel (if q0 % 2 = 0 then q0 + 1 else q0) with
    | none => rw [hs] at h; simp at h
    | some q' =>
      rw [hs] at h
      simp only [Except.ok.injEq, Prod.mk.injEq] at h
      obtain ⟨⟨rfl, rfl⟩, -⟩ := h
      obtain ⟨hc, hlt, hpar⟩ := searchInc_spec isPrime test _ mr fuel _ q' hs
      obtain ⟨ht, hy, hp⟩ := candOk_spec isPrime test _ mr q' hc
      have hsz := drawSized_spec qsize fuel coins q0 rest0 hd
      have hodd : q' % 2 = 1 := by rw [hpar]; split <;> omega
      have hq0' : q0 ≤ q' := by split at hlt <;> omega
      have hbq : qsize ≤ bitlen (q' : Int) := le_trans hsz (bitlen_mono q0 q' hq0')
      exact ⟨rfl, by omega, hbq, bitlen_double q' qsize (by omega) (by omega) hbq, ht, hp,
        fun hq => safe_prime q' hq hodd hy⟩

/-! ### the naive and the non-incremental variant: the oracle is asked about `p` and `q` -/

theorem candOkNaive_spec (isPrime : Oracle) (test : Test) (tbl : List Nat) (mr q : Nat)
    (h : candOkNaive isPrime test tbl mr q = true) :
    testOk test (2 * q + 1) = true ∧ isPrime (q : Int) mr = true ∧ isPrime ((2 * q + 1 : Nat) : Int) (mr - 1) = true := by
  unfold candOkNaive at h
  simp only [Bool.and_eq_true] at h
  obtain ⟨⟨⟨⟨⟨⟨-, ht⟩, -⟩, -⟩, -⟩, hq⟩, hp⟩ := h
  exact ⟨ht, hq, hp⟩

theorem searchNaive_spec (isPrime : Oracle) (test : Test) (tbl : List Nat) (mr : Nat) :
    ∀ (f q0 q : Nat), searchNaive isPrime test tbl mr f q0 = some q →
      candOkNaive isPrime test tbl mr q = true ∧ q0 < q
  | 0, _, _, h => by simp [searchNaive] at h
  | f+1, q0, q, h => by
    unfold searchNaive at h
    split at h
    · rename_i hc
      simp only [Option.some.injEq] at h
      rw [← h]; exact ⟨hc, by omega⟩
    · obtain ⟨a, b⟩ := searchNaive_spec isPrime test tbl mr f _ q h
      exact ⟨a, by omega⟩

theorem searchNaive_none_iff (isPrime : Oracle) (test : Test) (tbl : List Nat) (mr : Nat) :
    ∀ (f q0 : Nat), searchNaive isPrime test tbl mr f q0 = none ↔
      ∀ j, j < f → candOkNaive isPrime test tbl mr (q0 + 2 * (j + 1)) = false
  | 0, q0 => by simp [searchNaive]
  | f+1, q0 => by
    unfold searchNaive
    by_cases hc : candOkNaive isPrime test tbl mr (q0 + 2) = true
    · simp only [hc, if_true, reduceCtorEq, false_iff, not_forall]
      exact ⟨0, by omega, by simpa using hc⟩
    · rw [if_neg hc]
      rw [searchNaive_none_iff isPrime test tbl mr f (q0 + 2)]
      constructor
      · intro h j hj
        cases j with
        | zero => simpa using hc
        | succ j => have := h j (by omega); rwa [show q0 + 2 + 2 * (j + 1) = q0 + 2 * (j + 1 + 1) by ring] at this
      · intro h j hj
        have := h (j + 1) (by omega)
        rwa [show q0 + 2 * (j + 1 + 1) = q0 + 2 + 2 * (j + 1) by ring] at this

theorem sprimeNaive_spec (isPrime : Oracle) (test : Test) (nprimes qsize mr fuel : Nat) (coins : List Bytes)
    (p q : Nat) (rest : List Bytes)
    (h : sprimeNaive isPrime test nprimes qsize mr fuel coins = .ok ((p, q), rest)) :
    p = 2 * q + 1 ∧ 0 < q ∧ qsize ≤ bitlen (q : Int) ∧ qsize + 1 ≤ bitlen (p : Int) ∧ testOk test p = true ∧
      isPrime (q : Int) mr = true ∧ isPrime (p : Int) (mr - 1) = true := by
  unfold sprimeNaive at h
  split at h
  · simp at h
  rename_i hq0
  cases hd : drawSized qsize fuel coins with
  | error e => rw [hd] at h; simp at h
  | ok v =>
    obtain ⟨q0, rest0⟩ := v
    rw [hd] at h
    simp only at h
    cases hs : searchNaive isPrime test (mkTable nprimes) mr fuel (if q0 % 2 = 0 then q0 + 1 else q0) with
    | none => rw [hs] at h; simp at h
    | some q' =>
      rw [hs] at h
      simp only [Except.ok.injEq, Prod.mk.injEq] at h
      obtain ⟨⟨rfl, rfl⟩, -⟩ := h
      obtain ⟨hc, hlt⟩ := searchNaive_spec isPrime test _ mr fuel _ q' hs
      obtain ⟨ht, hq, hp⟩ := candOkNaive_spec isPrime test _ mr q' hc
      have hsz := drawSized_spec qsize fuel coins q0 rest0 hd
      have hq0' : q0 ≤ q' := by split at hlt <;> omega
      have hbq : qsize ≤ bitlen (q' : Int) := le_trans hsz (bitlen_mono q0 q' hq0')
      exact ⟨rfl, by omega, hbq, bitlen_double q' qsize (by omega) (by omega) hbq, ht, hq, hp⟩

theorem searchNoninc_spec (isPrime : Oracle) (test : Test) (tbl : List Nat) (qsize mr fuel : Nat) :
    ∀ (f : Nat) (coins : List Bytes) (q : Nat) (rest : List Bytes),
      searchNoninc isPrime test tbl qsize mr fuel f coins = .ok (q, rest) →
      candOkNaive isPrime test tbl mr q = true ∧ qsize ≤ bitlen (q : Int) ∧ 0 < q
  | 0, _, _, _, h => by simp [searchNoninc] at h
  | f+1, coins, q, rest, h => by
    unfold searchNoninc at h
    cases hd : drawSized qsize fuel coins with
    | error e => rw [hd] at h; simp at h
    | ok v =>
      obtain ⟨q0, rest0⟩ := v
      rw [hd] at h
      simp only at h
      have hsz := drawSized_spec qsize fuel coins q0 rest0 hd
      have hq1 : q0 ≤ (if q0 % 2 = 0 then q0 + 1 else q0) ∧ 0 < (if q0 % 2 = 0 then q0 + 1 else q0) := by
        split <;> omega
      generalize (if q0 % 2 = 0 then q0 + 1 else q0) = q1 at h hq1
      by_cases hc : candOkNaive isPrime test tbl mr q1 = true
      · rw [if_pos hc] at h
        simp only [Except.ok.injEq, Prod.mk.injEq] at h
        rw [← h.1]
        exact ⟨hc, le_trans hsz (bitlen_mono _ _ hq1.1), hq1.2⟩
      · rw [if_neg hc] at h
        exact searchNoninc_spec isPrime test tbl qsize mr fuel f rest0 q rest h

theorem sprimeNoninc_spec (isPrime : Oracle) (test : Test) (nprimes qsize mr fuel : Nat) (coins : List Bytes)
    (p q : Nat) (rest : List Bytes)
    (h : sprimeNoninc isPrime test nprimes qsize mr fuel coins = .ok ((p, q), rest)) :
    p = 2 * q + 1 ∧ 0 < q ∧ qsize ≤ bitlen (q : Int) ∧ qsize + 1 ≤ bitlen (p : Int) ∧ testOk test p = true ∧
      isPrime (q : Int) mr = true ∧ isPrime (p : Int) (mr - 1) = true := by
  unfold sprimeNoninc at h
  split at h
  · simp at h
  rename_i hq0
  cases hs : searchNoninc isPrime test (mkTable nprimes) qsize mr fuel fuel coins with
  | error e => rw [hs] at h; simp at h
  | ok v =>
    obtain ⟨q', rest0⟩ := v
    rw [hs] at h
    simp only [Except.ok.injEq, Prod.mk.injEq] at h
    obtain ⟨⟨rfl, rfl⟩, -⟩ := h
    obtain ⟨hc, hbq, hpos⟩ := searchNoninc_spec isPrime test _ qsize mr fuel fuel coins q' rest0 hs
    obtain ⟨ht, hq, hp⟩ := candOkNaive_spec isPrime test _ mr q' hc
    exact ⟨rfl, hpos, hbq, bitlen_double q' qsize (by omega) hpos hbq, ht, hq, hp⟩

/-! ### `tmcg_mpz_lprime`, `tmcg_mpz_lprime_prefix`: the oracle is asked about `q` and `p` -/

theorem drawPrime_spec (isPrime : Oracle) (qsize mr : Nat) : ∀ (f : Nat) (coins : List Bytes) (q : Nat) (rest : List Bytes),
    drawPrime isPrime qsize mr f coins = .ok (q, rest) → qsize ≤ bitlen (q : Int) ∧ isPrime (q : Int) mr = true
  | 0, _, _, _, h => by simp [drawPrime] at h
  | f+1, [], _, _, h => by simp [drawPrime] at h
  | f+1, c :: cs, q, rest, h => by
    unfold drawPrime at h
    simp only at h
    split at h
    · exact drawPrime_spec isPrime qsize mr f cs q rest h
    · rename_i hb
      simp only [Except.ok.injEq, Prod.mk.injEq] at h
      simp only [not_or, not_lt, not_not, Bool.not_eq_true] at hb
      rw [← h.1]
      refine ⟨hb.1, ?_⟩
      cases hh : isPrime ((beVal c % 2 ^ qsize : Nat) : Int) mr with
      | true => rfl
      | false => exact absurd hh (by simpa using hb.2)

theorem drawK_spec (isPrime : Oracle) (q psize ksize mr fuel : Nat) :
    ∀ (f : Nat) (coins : List Bytes) (p k : Nat) (rest : List Bytes),
      drawK isPrime q psize ksize mr fuel f coins = .ok ((p, k), rest) →
      p = q * k + 1 ∧ Nat.gcd k q = 1 ∧ psize ≤ bitlen (p : Int) ∧ isPrime (p : Int) mr = true ∧ k % 2 = 0 ∧
        ksize ≤ bitlen (k : Int)
  | 0, _, _, _, _, h => by simp [drawK] at h
  | f+1, coins, p, k, rest, h => by
    unfold drawK at h
    cases hd : drawSized ksize fuel coins with
    | error e => rw [hd] at h; simp at h
    | ok v =>
      obtain ⟨k0, rest0⟩ := v
      rw [hd] at h
      simp only at h
      have hsz := drawSized_spec ksize fuel coins k0 rest0 hd
      have hk1 : k0 ≤ (if k0 % 2 = 1 then k0 + 1 else k0) ∧ (if k0 % 2 = 1 then k0 + 1 else k0) % 2 = 0 := by
        split <;> omega
      generalize (if k0 % 2 = 1 then k0 + 1 else k0) = k1 at h hk1
      by_cases hc : Nat.gcd k1 q ≠ 1 ∨ bitlen ((q * k1 + 1 : Nat) : Int) < psize ∨ ¬ isPrime ((q * k1 + 1 : Nat) : Int) mr = true
      · rw [if_pos hc] at h
        exact drawK_spec isPrime q psize ksize mr fuel f rest0 p k rest h
      · rw [if_neg hc] at h
        simp only [Except.ok.injEq, Prod.mk.injEq] at h
        obtain ⟨⟨rfl, rfl⟩, -⟩ := h
        simp only [not_or, not_not, not_lt] at hc
        exact ⟨rfl, hc.1, hc.2.1, hc.2.2, hk1.2, le_trans hsz (bitlen_mono _ _ hk1.1)⟩

theorem lprime_spec (isPrime : Oracle) (psize qsize mr fuel : Nat) (coins : List Bytes) (p q k : Nat) (rest : List Bytes)
    (h : lprime isPrime psize qsize mr fuel coins = .ok ((p, q, k), rest)) :
    qsize < psize ∧ p = q * k + 1 ∧ Nat.gcd k q = 1 ∧ k % 2 = 0 ∧ 0 < k ∧ psize ≤ bitlen (p : Int) ∧
      qsize ≤ bitlen (q : Int) ∧ isPrime (q : Int) mr = true ∧ isPrime (p : Int) mr = true := by
  unfold lprime at h
  split at h
  · simp at h
  rename_i h1
  split at h
  · simp at h
  cases hq : drawPrime isPrime qsize mr fuel coins with
  | error e => rw [hq] at h; simp at h
  | ok v =>
    obtain ⟨q', rest0⟩ := v
    rw [hq] at h
    simp only at h
    cases hk : drawK isPrime q' psize (psize - qsize) mr fuel fuel rest0 with
    | error e => rw [hk] at h; simp at h
    | ok w =>
      obtain ⟨⟨p', k'⟩, rest1⟩ := w
      rw [hk] at h
      simp only [Except.ok.injEq, Prod.mk.injEq] at h
      obtain ⟨⟨rfl, rfl, rfl⟩, -⟩ := h
      obtain ⟨hbq, hpq⟩ := drawPrime_spec isPrime qsize mr fuel coins q' rest0 hq
      obtain ⟨e, hg, hbp, hpp, hev, hbk⟩ := drawK_spec isPrime q' psize _ mr fuel fuel rest0 p' k' rest1 hk
      have hkpos : 0 < k' := by
        by_contra hz
        have : k' = 0 := by omega
        subst this
        have : bitlen ((0 : Nat) : Int) = 1 := by decide
        -- k = 0 is even and has "bit length" 1: then p = 1, which has fewer than psize ≥ 2 bits
        rw [e] at hbp
        simp only [Nat.mul_zero, Nat.zero_add] at hbp
        have : bitlen ((1 : Nat) : Int) = 1 := by decide
        omega
      exact ⟨by omega, e, hg, hev, hkpos, hbp, hbq, hpq, hpp⟩

theorem prefixLoop_spec (isPrime : Oracle) (k : Int) (psize qsize mr fuel : Nat) :
    ∀ (f : Nat) (coins : List Bytes) (p : Int) (q : Nat) (rest : List Bytes),
      prefixLoop isPrime k psize qsize mr fuel f coins = .ok ((p, q), rest) →
      p = (q : Int) * k + 1 ∧ Int.gcd k q = 1 ∧ psize ≤ bitlen p ∧ isPrime p mr = true ∧
        qsize ≤ bitlen (q : Int) ∧ isPrime (q : Int) mr = true
  | 0, _, _, _, _, h => by simp [prefixLoop] at h
  | f+1, coins, p, q, rest, h => by
    unfold prefixLoop at h
    cases hq : drawPrime isPrime qsize mr fuel coins with
    | error e => rw [hq] at h; simp at h
    | ok v =>
      obtain ⟨q', rest0⟩ := v
      rw [hq] at h
      simp only at h
      by_cases hc : Int.gcd k q' ≠ 1 ∨ bitlen ((q' : Int) * k + 1) < psize ∨ ¬ isPrime ((q' : Int) * k + 1) mr = true
      · rw [if_pos hc] at h
        exact prefixLoop_spec isPrime k psize qsize mr fuel f rest0 p q rest h
      · rw [if_neg hc] at h
        simp only [Except.ok.injEq, Prod.mk.injEq] at h
        obtain ⟨⟨rfl, rfl⟩, -⟩ := h
        simp only [not_or, not_not, not_lt] at hc
        obtain ⟨hbq, hpq⟩ := drawPrime_spec isPrime qsize mr fuel coins q' rest0 hq
        exact ⟨rfl, hc.1, hc.2.1, hc.2.2, hbq, hpq⟩

theorem lprimePrefix_spec (isPrime : Oracle) (kin : Int) (psize qsize mr fuel : Nat) (coins : List Bytes)
    (p : Int) (q : Nat) (k : Int) (rest : List Bytes)
    (h : lprimePrefix isPrime kin psize qsize mr fuel coins = .ok ((p, q, k), rest)) :
    qsize < psize ∧ 0 < kin ∧ k = prefixK kin psize qsize ∧ p = (q : Int) * k + 1 ∧ Int.gcd k q = 1 ∧
      psize ≤ bitlen p ∧ qsize ≤ bitlen (q : Int) ∧ isPrime (q : Int) mr = true ∧ isPrime p mr = true := by
  unfold lprimePrefix at h
  split at h
  · simp at h
  split at h
  · simp at h
  split at h
  · simp at h
  rename_i h1 h2 h3
  simp only at h
  cases hl : prefixLoop isPrime (prefixK kin psize qsize) psize qsize mr fuel fuel coins with
  | error e => rw [hl] at h; simp at h
  | ok v =>
    obtain ⟨⟨p', q'⟩, rest0⟩ := v
    rw [hl] at h
    simp only [Except.ok.injEq, Prod.mk.injEq] at h
    obtain ⟨⟨rfl, rfl, rfl⟩, -⟩ := h
    obtain ⟨e, hg, hbp, hpp, hbq, hpq⟩ := prefixLoop_spec isPrime _ psize qsize mr fuel fuel coins p' q' rest0 hl
    exact ⟨by omega, by omega, rfl, e, hg, hbp, hbq, hpq, hpp⟩

/-! ### ordinary primes: the oracle is asked about `p` -/

theorem searchOrd_spec (isPrime : Oracle) (mr : Nat) : ∀ (f p0 p : Nat), searchOrd isPrime mr f p0 = some p →
    isPrime (p : Int) mr = true ∧ p0 ≤ p ∧ p % 2 = p0 % 2
  | 0, _, _, h => by simp [searchOrd] at h
  | f+1, p0, p, h => by
    unfold searchOrd at h
    split at h
    · rename_i hc
      simp only [Option.some.injEq] at h
      rw [← h]; exact ⟨hc, le_refl _, rfl⟩
    · obtain ⟨a, b, c⟩ := searchOrd_spec isPrime mr f _ p h
      exact ⟨a, by omega, by omega⟩

theorem searchOrd_none_iff (isPrime : Oracle) (mr : Nat) : ∀ (f p0 : Nat),
    searchOrd isPrime mr f p0 = none ↔ ∀ j, j < f → isPrime ((p0 + 2 * j : Nat) : Int) mr = false
  | 0, p0 => by simp [searchOrd]
  | f+1, p0 => by
    unfold searchOrd
    by_cases hc : isPrime (p0 : Int) mr = true
    · rw [if_pos hc]
      simp only [reduceCtorEq, false_iff, not_forall]
      exact ⟨0, by omega, by simpa using hc⟩
    · rw [if_neg hc, searchOrd_none_iff isPrime mr f (p0 + 2)]
      constructor
      · intro h j hj
        cases j with
        | zero => simpa using hc
        | succ j => have := h j (by omega); rwa [show p0 + 2 + 2 * j = p0 + 2 * (j + 1) by ring] at this
      · intro h j hj
        have := h (j + 1) (by omega)
        rwa [show p0 + 2 * (j + 1) = p0 + 2 + 2 * j by ring] at this

theorem oprime_spec (isPrime : Oracle) (psize mr fuel : Nat) (coins : List Bytes) (p : Nat) (rest : List Bytes)
    (h : oprime isPrime psize mr fuel coins = .ok (p, rest)) :
    p % 2 = 1 ∧ psize ≤ bitlen (p : Int) ∧ isPrime (p : Int) mr = true := by
  unfold oprime at h
  split at h
  · simp at h
  cases hd : drawSized psize fuel coins with
  | error e => rw [hd] at h; simp at h
  | ok v =>
    obtain ⟨p0, rest0⟩ := v
    rw [hd] at h
    simp only at h
    cases hs : searchOrd isPrime mr fuel (if p0 % 2 = 0 then p0 + 1 else p0) with
    | none => rw [hs] at h; simp at h
    | some p' =>
      rw [hs] at h
      simp only [Except.ok.injEq, Prod.mk.injEq] at h
      obtain ⟨rfl, -⟩ := h
      obtain ⟨hp, hle, hpar⟩ := searchOrd_spec isPrime mr fuel _ p' hs
      have hsz := drawSized_spec psize fuel coins p0 rest0 hd
      refine ⟨by rw [hpar]; split <;> omega, le_trans hsz (bitlen_mono _ _ (by split at hle <;> omega)), hp⟩

theorem searchOrdNoninc_spec (isPrime : Oracle) (psize mr fuel : Nat) : ∀ (f : Nat) (coins : List Bytes) (p : Nat) (rest : List Bytes),
    searchOrdNoninc isPrime psize mr fuel f coins = .ok (p, rest) →
    p % 2 = 1 ∧ psize ≤ bitlen (p : Int) ∧ isPrime (p : Int) mr = true
  | 0, _, _, _, h => by simp [searchOrdNoninc] at h
  | f+1, coins, p, rest, h => by
    unfold searchOrdNoninc at h
    cases hd : drawSized psize fuel coins with
    | error e => rw [hd] at h; simp at h
    | ok v =>
      obtain ⟨p0, rest0⟩ := v
      rw [hd] at h
      simp only at h
      have hsz := drawSized_spec psize fuel coins p0 rest0 hd
      have h1 : p0 ≤ (if p0 % 2 = 0 then p0 + 1 else p0) ∧ (if p0 % 2 = 0 then p0 + 1 else p0) % 2 = 1 := by
        split <;> omega
      generalize (if p0 % 2 = 0 then p0 + 1 else p0) = p1 at h h1
      by_cases hc : isPrime (p1 : Int) mr = true
      · rw [if_pos hc] at h
        simp only [Except.ok.injEq, Prod.mk.injEq] at h
        rw [← h.1]
        exact ⟨h1.2, le_trans hsz (bitlen_mono _ _ h1.1), hc⟩
      · rw [if_neg hc] at h
        exact searchOrdNoninc_spec isPrime psize mr fuel f rest0 p rest h

theorem oprimeNoninc_spec (isPrime : Oracle) (psize mr fuel : Nat) (coins : List Bytes) (p : Nat) (rest : List Bytes)
    (h : oprimeNoninc isPrime psize mr fuel coins = .ok (p, rest)) :
    p % 2 = 1 ∧ psize ≤ bitlen (p : Int) ∧ isPrime (p : Int) mr = true := by
  unfold oprimeNoninc at h
  split at h
  · simp at h
  · exact searchOrdNoninc_spec isPrime psize mr fuel fuel coins p rest h

/-! ### the relation of `Arith2.primeRelOk` holds for the model's outputs

  In each corollary the hypotheses `h…` say exactly which oracle answers have to be right: only answers
  about the RETURNED numbers, with the number of repetitions the generator used for its last call.
  `pp`, `qp` are the primality bits handed to `primeRelOk` (any bits that are `true` for primes). -/

theorem OracleSound2.at {isPrime : Oracle} (hO : OracleSound2 isPrime) (n reps : Nat) :
    isPrime (n : Int) reps = true → n.Prime := hO n reps

/-- tmcg_mpz_sprime / tmcg_mpz_smprime (`nprimes` = PRIMES / MPRIMES): oracle right about `q` only -/
theorem sprime_rel (isPrime : Oracle) (fn : GenFn) (hfn : fn ∈ safeFns) (nprimes qsize mr fuel : Nat) (coins : List Bytes)
    (p q : Nat) (rest : List Bytes) (kin : Int) (pp qp : Bool)
    (h : sprimeTest isPrime .none nprimes qsize mr fuel coins = .ok ((p, q), rest))
    (hq : isPrime (q : Int) (mr - 1) = true → q.Prime) (hpp : p.Prime → pp = true) (hqp : q.Prime → qp = true) :
    p.Prime ∧ q.Prime ∧ primeRelOk fn p q 2 (qsize + 1) qsize kin pp qp = true := by
  obtain ⟨e, hq0, hbq, hbp, -, ho, hlucas⟩ := sprimeTest_spec isPrime .none nprimes qsize mr fuel coins p q rest h
  have hqP := hq ho
  have hpP := hlucas hqP
  refine ⟨hpP, hqP, (primeRelOk_safe fn hfn _ _ _ _ _ _ _ _).mpr ⟨hpp hpP, hqp hqP, by omega, by rw [e]; push_cast; ring, hbq, hbp⟩⟩

/-- tmcg_mpz_sprime2g: additionally `p ≡ 7 (mod 8)` -/
theorem sprime2g_rel (isPrime : Oracle) (qsize mr fuel : Nat) (coins : List Bytes)
    (p q : Nat) (rest : List Bytes) (kin : Int) (pp qp : Bool)
    (h : sprimeTest isPrime .mod8 PrimeGen.PRIMES qsize mr fuel coins = .ok ((p, q), rest))
    (hq : isPrime (q : Int) (mr - 1) = true → q.Prime) (hpp : p.Prime → pp = true) (hqp : q.Prime → qp = true) :
    p.Prime ∧ q.Prime ∧ primeRelOk .sprime2g p q 2 (qsize + 1) qsize kin pp qp = true := by
  obtain ⟨e, hq0, hbq, hbp, ht, ho, hlucas⟩ := sprimeTest_spec isPrime .mod8 PrimeGen.PRIMES qsize mr fuel coins p q rest h
  have hqP := hq ho
  have hpP := hlucas hqP
  have h8 : p % 8 = 7 := by simpa [testOk] using ht
  refine ⟨hpP, hqP, (primeRelOk_safe2g _ _ _ _ _ _ _ _).mpr
    ⟨hpp hpP, hqp hqP, by omega, by rw [e]; push_cast; ring, hbq, hbp, by omega⟩⟩

/-- tmcg_mpz_sprime3mod4(p, psize, mr) = sprime_test with `qsize = psize - 1` and `test3mod4` -/
theorem sprime3mod4_rel (isPrime : Oracle) (psize mr fuel : Nat) (coins : List Bytes)
    (p q : Nat) (rest : List Bytes) (k kin : Int) (qsize' : Nat) (pp qp : Bool)
    (h : sprimeTest isPrime .mod4 PrimeGen.PRIMES (psize - 1) mr fuel coins = .ok ((p, q), rest))
    (hq : isPrime (q : Int) (mr - 1) = true → q.Prime) (hpp : p.Prime → pp = true) :
    p.Prime ∧ primeRelOk .sprime3mod4 p q k psize qsize' kin pp qp = true := by
  obtain ⟨e, hq0, hbq, hbp, ht, ho, hlucas⟩ := sprimeTest_spec isPrime .mod4 PrimeGen.PRIMES (psize - 1) mr fuel coins p q rest h
  have hpP := hlucas (hq ho)
  have h4 : p % 4 = 3 := by simpa [testOk] using ht
  have hps : 1 ≤ psize - 1 := by
    unfold sprimeTest at h
    by_contra hz
    have : psize - 1 = 0 := by omega
    rw [if_pos this] at h; simp at h
  refine ⟨hpP, (primeRelOk_blum _ _ _ _ _ _ _ _).mpr ⟨hpp hpP, by omega, by omega, by omega⟩⟩

/-- tmcg_mpz_sprime_naive / tmcg_mpz_smprime_naive: oracle right about `q` (mr) and `p` (mr − 1) -/
theorem sprimeNaive_rel (isPrime : Oracle) (fn : GenFn) (hfn : fn ∈ safeFns) (nprimes qsize mr fuel : Nat) (coins : List Bytes)
    (p q : Nat) (rest : List Bytes) (kin : Int) (pp qp : Bool)
    (h : sprimeNaive isPrime .none nprimes qsize mr fuel coins = .ok ((p, q), rest))
    (hq : isPrime (q : Int) mr = true → q.Prime) (hp : isPrime (p : Int) (mr - 1) = true → p.Prime)
    (hpp : p.Prime → pp = true) (hqp : q.Prime → qp = true) :
    p.Prime ∧ q.Prime ∧ primeRelOk fn p q 2 (qsize + 1) qsize kin pp qp = true := by
  obtain ⟨e, hq0, hbq, hbp, -, hoq, hop⟩ := sprimeNaive_spec isPrime .none nprimes qsize mr fuel coins p q rest h
  have hqP := hq hoq
  have hpP := hp hop
  refine ⟨hpP, hqP, (primeRelOk_safe fn hfn _ _ _ _ _ _ _ _).mpr ⟨hpp hpP, hqp hqP, by omega, by rw [e]; push_cast; ring, hbq, hbp⟩⟩

/-- tmcg_mpz_sprime_noninc -/
theorem sprimeNoninc_rel (isPrime : Oracle) (fn : GenFn) (hfn : fn ∈ safeFns) (nprimes qsize mr fuel : Nat) (coins : List Bytes)
    (p q : Nat) (rest : List Bytes) (kin : Int) (pp qp : Bool)
    (h : sprimeNoninc isPrime .none nprimes qsize mr fuel coins = .ok ((p, q), rest))
    (hq : isPrime (q : Int) mr = true → q.Prime) (hp : isPrime (p : Int) (mr - 1) = true → p.Prime)
    (hpp : p.Prime → pp = true) (hqp : q.Prime → qp = true) :
    p.Prime ∧ q.Prime ∧ primeRelOk fn p q 2 (qsize + 1) qsize kin pp qp = true := by
  obtain ⟨e, hq0, hbq, hbp, -, hoq, hop⟩ := sprimeNoninc_spec isPrime .none nprimes qsize mr fuel coins p q rest h
  have hqP := hq hoq
  have hpP := hp hop
  refine ⟨hpP, hqP, (primeRelOk_safe fn hfn _ _ _ _ _ _ _ _).mpr ⟨hpp hpP, hqp hqP, by omega, by rw [e]; push_cast; ring, hbq, hbp⟩⟩

/-- tmcg_mpz_lprime: oracle right about `q` and `p` (both with `mr` repetitions) -/
theorem lprime_rel (isPrime : Oracle) (psize qsize mr fuel : Nat) (coins : List Bytes) (p q k : Nat) (rest : List Bytes)
    (kin : Int) (pp qp : Bool)
    (h : lprime isPrime psize qsize mr fuel coins = .ok ((p, q, k), rest))
    (hq : isPrime (q : Int) mr = true → q.Prime) (hp : isPrime (p : Int) mr = true → p.Prime)
    (hpp : p.Prime → pp = true) (hqp : q.Prime → qp = true) :
    p.Prime ∧ q.Prime ∧ primeRelOk .lprime p q k psize qsize kin pp qp = true := by
  obtain ⟨-, e, hg, hev, hk0, hbp, hbq, hoq, hop⟩ := lprime_spec isPrime psize qsize mr fuel coins p q k rest h
  have hqP := hq hoq
  have hpP := hp hop
  refine ⟨hpP, hqP, (primeRelOk_schnorr _ _ _ _ _ _ _ _).mpr
    ⟨hpp hpP, hqp hqP, by exact_mod_cast hpP.pos, by exact_mod_cast hqP.pos, by exact_mod_cast hk0,
      by rw [e]; push_cast; ring, by rw [Int.gcd_natCast_natCast]; exact hg, by omega, hbp, hbq⟩⟩

theorem prefixGo_pos (need : Nat) : ∀ (f : Nat) (k : Int), 0 < k → 0 < prefixGo need f k
  | 0, k, h => by simpa [prefixGo] using h
  | f+1, k, h => by
    unfold prefixGo
    split
    · exact prefixGo_pos need f _ (by omega)
    · exact h

theorem prefixK_pos_even (kin : Int) (psize qsize : Nat) (h : 0 < kin) :
    0 < prefixK kin psize qsize ∧ prefixK kin psize qsize % 2 = 0 := by
  unfold prefixK
  have := prefixGo_pos (psize - qsize) (psize - qsize + 1) kin h
  simp only
  split <;> constructor <;> omega

/-- tmcg_mpz_lprime_prefix: the cofactor is the one derived from the prefix -/
theorem lprimePrefix_rel (isPrime : Oracle) (kin : Int) (psize qsize mr fuel : Nat) (coins : List Bytes)
    (p : Int) (q : Nat) (k : Int) (rest : List Bytes) (pp qp : Bool)
    (h : lprimePrefix isPrime kin psize qsize mr fuel coins = .ok ((p, q, k), rest))
    (hq : isPrime (q : Int) mr = true → q.Prime) (hp : isPrime p mr = true → p.natAbs.Prime)
    (hpp : p.natAbs.Prime → pp = true) (hqp : q.Prime → qp = true) :
    0 < p ∧ p.natAbs.Prime ∧ q.Prime ∧ primeRelOk .lprimePrefix p q k psize qsize kin pp qp = true := by
  obtain ⟨hlt, hkin, ek, e, hg, hbp, hbq, hoq, hop⟩ := lprimePrefix_spec isPrime kin psize qsize mr fuel coins p q k rest h
  have hk := prefixK_pos_even kin psize qsize hkin
  have hqP := hq hoq
  have hpP := hp hop
  have hq0 : (0 : Int) < q := by exact_mod_cast hqP.pos
  have hp0 : 0 < p := by
    rw [e, ek]; have := Int.mul_pos hq0 hk.1; omega
  refine ⟨hp0, hpP, hqP, (primeRelOk_prefix _ _ _ _ _ _ _ _).mpr
    ⟨hpp hpP, hqp hqP, hp0, hq0, by rw [ek]; exact hk.1, by rw [e]; ring, hg,
      by rw [ek]; exact hk.2, hbp, hbq, hkin, by omega, ek⟩⟩

/-- tmcg_mpz_oprime: oracle right about `p` -/
theorem oprime_rel (isPrime : Oracle) (psize mr fuel : Nat) (coins : List Bytes) (p : Nat) (rest : List Bytes)
    (q k kin : Int) (qsize : Nat) (pp qp : Bool)
    (h : oprime isPrime psize mr fuel coins = .ok (p, rest))
    (hp : isPrime (p : Int) mr = true → p.Prime) (hpp : p.Prime → pp = true) :
    p.Prime ∧ primeRelOk .oprime p q k psize qsize kin pp qp = true := by
  obtain ⟨hodd, hbp, hop⟩ := oprime_spec isPrime psize mr fuel coins p rest h
  have hpP := hp hop
  exact ⟨hpP, (primeRelOk_ordinary .oprime (.inl rfl) _ _ _ _ _ _ _ _).mpr
    ⟨hpp hpP, by exact_mod_cast hpP.pos, by omega, hbp⟩⟩

/-- tmcg_mpz_oprime_noninc -/
theorem oprimeNoninc_rel (isPrime : Oracle) (psize mr fuel : Nat) (coins : List Bytes) (p : Nat) (rest : List Bytes)
    (q k kin : Int) (qsize : Nat) (pp qp : Bool)
    (h : oprimeNoninc isPrime psize mr fuel coins = .ok (p, rest))
    (hp : isPrime (p : Int) mr = true → p.Prime) (hpp : p.Prime → pp = true) :
    p.Prime ∧ primeRelOk .oprimeNoninc p q k psize qsize kin pp qp = true := by
  obtain ⟨hodd, hbp, hop⟩ := oprimeNoninc_spec isPrime psize mr fuel coins p rest h
  have hpP := hp hop
  exact ⟨hpP, (primeRelOk_ordinary .oprimeNoninc (.inr rfl) _ _ _ _ _ _ _ _).mpr
    ⟨hpp hpP, by exact_mod_cast hpP.pos, by omega, hbp⟩⟩

end Tmcg.PrimeGenProofs
